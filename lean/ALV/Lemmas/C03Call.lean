/-
  C03 — the call layer (`Model/C03Call.lean`): histories of *calls* (spellings of counts, omitted
  arguments, argument lists of `Stream(...)` / `append(...)`, ill-typed and refused calls) refine the
  list model — `crun_refines_from` (finite sources: enough fuel exists), `crun_sound_from` (every
  source: whenever the model returns) — and a call that raises leaves every Stream as it was
  (`specStep_err_keeps`, `cspecStep_err_keeps`).
-/
import ALV.Lemmas.C03PRun
import ALV.Spec.C03Call

namespace ALV.C03
variable {α : Type}

def Call.Fin (c : Call α) : Prop := ∀ h, elabCall c = .hop h → h.Fin

/-- one step of a `hist` history, finite sources -/
theorem hstep_refines {E : List (List α)} {st : St α} {sp : SPool α} (R : Rel E st sp)
    (ls : List (List α)) (hop : HOp α) (hfin : hop.Fin) :
    ∃ E' F st' sp' ls' o, (∀ f, F ≤ f → hstep f ⟨st, ls⟩ hop = some (⟨st', ls'⟩, o)) ∧
      hspecStep ⟨sp, ls⟩ hop = some (⟨sp', ls'⟩, o) ∧ Rel E' st' sp' := by
  cases hr : hop.resolve ls with
  | none =>
    obtain ⟨ls', o, _, h2⟩ := hstep_unresolved (f := 0) (s := ⟨st, ls⟩) (hop := hop) hr
    refine ⟨E, 0, st, sp, ls', o, fun f _ => ?_, h2 sp, R⟩
    obtain ⟨ls'', o', h1', h2'⟩ := hstep_unresolved (f := f) (s := ⟨st, ls⟩) (hop := hop) hr
    have e := h2 sp
    have e' := h2' sp
    rw [e] at e'
    injection e' with e'
    injection e' with e1 e2
    injection e1 with _ e3
    subst e2 e3
    exact h1'
  | some o =>
    obtain ⟨E', F1, st', sp', ob, S⟩ := step_refines R o (resolve_fin hfin hr)
    refine ⟨E', F1, st', sp', keep ls ob, ob, fun f hf => ?_, ?_, S.rel⟩
    · rw [hstep_resolve (s := ⟨st, ls⟩) hr]; simp [stepKeep, S.run f hf]
    · rw [hspecStep_resolve (s := ⟨sp, ls⟩) hr]; simp [specKeep, S.spec]

/-- histories of calls over finite sources: enough fuel exists, and the observations and the caller's
    lists at the end are the list model's -/
theorem crun_refines_from {E : List (List α)} {st : St α} {sp : SPool α} (R : Rel E st sp)
    (ls : List (List α)) (cs : List (Call α)) (hfin : ∀ c, c ∈ cs → c.Fin) :
    ∃ F, ∀ f, F ≤ f → crun f ⟨st, ls⟩ cs = cspecRun ⟨sp, ls⟩ cs := by
  induction cs generalizing E st sp ls with
  | nil => exact ⟨0, fun f _ => rfl⟩
  | cons c cs ih =>
    have hrest : ∀ x, x ∈ cs → x.Fin := fun x hx => hfin x (by simp [hx])
    cases he : elabCall c with
    | ret o =>
      obtain ⟨F, hF⟩ := ih R (keep ls o) hrest
      exact ⟨F, fun f hf => by simp only [crun, cspecRun, cstep, cspecStep, he, hF f hf]⟩
    | hop h =>
      obtain ⟨E', F1, st', sp', ls', o, run, spec, R'⟩ := hstep_refines R ls h (hfin c (by simp) h he)
      obtain ⟨F2, h2⟩ := ih R' ls' hrest
      refine ⟨max F1 F2, fun f hf => ?_⟩
      have r1 := run f (Nat.le_trans (Nat.le_max_left _ _) hf)
      have r2 := h2 f (Nat.le_trans (Nat.le_max_right _ _) hf)
      simp only [crun, cspecRun, cstep, cspecStep, he, r1, spec, r2]

/-- one step of a `hist` history, every source: whenever the model returns -/
theorem hstep_sound {E : List (LSeq α)} {st : St α} {sp : SPool α} (R : PRel false E st sp) (f : Nat)
    (ls : List (List α)) (hop : HOp α) {s' : HSt α} {o : Obs α} (h : hstep f ⟨st, ls⟩ hop = some (s', o)) :
    ∃ E' sp', hspecStep ⟨sp, ls⟩ hop = some (⟨sp', s'.lists⟩, o) ∧ PRel false E' s'.st sp' := by
  cases hr : hop.resolve ls with
  | none =>
    obtain ⟨ls', o', h1, h2⟩ := hstep_unresolved (f := f) (s := ⟨st, ls⟩) (hop := hop) hr
    rw [h1] at h
    injection h with h; injection h with h3 h4
    subst h3 h4
    exact ⟨E, sp, h2 sp, R⟩
  | some op =>
    have hk : hstep f ⟨st, ls⟩ hop = stepKeep f ⟨st, ls⟩ op := hstep_resolve (s := ⟨st, ls⟩) hr
    cases hs : step f st op with
    | none => simp [hk, stepKeep, hs] at h
    | some x =>
      obtain ⟨st', ob⟩ := x
      obtain ⟨E', sp', spec, R'⟩ := step_sound R op (opLive_false sp op) f st' ob hs
      rw [hk] at h
      simp [stepKeep, hs] at h
      obtain ⟨h3, h4⟩ := h
      subst h3 h4
      refine ⟨E', sp', ?_, R'⟩
      rw [hspecStep_resolve (s := ⟨sp, ls⟩) hr]; simp [specKeep, spec]

/-- histories of calls over finite and periodic sources: whenever the model terminates at every step -/
theorem crun_sound_from {E : List (LSeq α)} {st : St α} {sp : SPool α} (R : PRel false E st sp) (f : Nat)
    (ls : List (List α)) (cs : List (Call α))
    (hterm : ∀ o, o ∈ (crun f ⟨st, ls⟩ cs).1 → o ≠ none) :
    crun f ⟨st, ls⟩ cs = cspecRun ⟨sp, ls⟩ cs := by
  induction cs generalizing E st sp ls with
  | nil => rfl
  | cons c cs ih =>
    cases he : elabCall c with
    | ret o =>
      have := ih R (keep ls o) (fun o' ho' => hterm o' (by simp [crun, cstep, he, ho']))
      simp only [crun, cspecRun, cstep, cspecStep, he, this]
    | hop h =>
      cases hs : hstep f ⟨st, ls⟩ h with
      | none => exact absurd rfl (hterm none (by simp [crun, cstep, he, hs]))
      | some x =>
        obtain ⟨s', ob⟩ := x
        obtain ⟨E', sp', spec, R'⟩ := hstep_sound R f ls h hs
        have := ih R' s'.lists (fun o' ho' => hterm o' (by simp [crun, cstep, he, hs, ho']))
        simp only [crun, cspecRun, cstep, cspecStep, he, hs, spec, this]

/-! ### a call that raises leaves every Stream as it was -/

/-- every Stream of `sp` is the same Stream in `sp'`; every hub distributes the same sequence and has
    lost at most one use -/
def Keeps (sp sp' : SPool α) : Prop :=
  ∀ j : Nat, (∀ x, sp[j]? = some (SObj.stream x) → sp'[j]? = some (SObj.stream x)) ∧
    (∀ x u, sp[j]? = some (SObj.hub x u) → ∃ u', u' ≤ u ∧ u ≤ u' + 1 ∧ sp'[j]? = some (SObj.hub x u'))

theorem Keeps.refl (sp : SPool α) : Keeps sp sp :=
  fun _ => ⟨fun _ h => h, fun _ u h => ⟨u, Nat.le_refl _, Nat.le_succ _, h⟩⟩

theorem keeps_target {sp sp' : SPool α} {i k : Nat} {s : LSeq α} (h : specTarget sp i = .ok (sp', k, s)) :
    Keeps sp sp' := by
  unfold specTarget at h
  split at h
  · injection h with h; injection h with h1; subst h1; exact Keeps.refl sp
  · rename_i s0 u hi
    injection h with h; injection h with h1; subst h1
    have hlt := getElem?_lt hi
    intro j
    by_cases hj : j = i
    · subst hj
      refine ⟨fun x hx => (by rw [hi] at hx; cases hx), fun x u' hx => ?_⟩
      rw [hi] at hx; injection hx with hx; injection hx with h1 h2; subst h1 h2
      exact ⟨u, Nat.le_succ _, Nat.le_refl _, by simp [List.getElem?_append_left, hlt]⟩
    · refine ⟨fun x hx => ?_, fun x u' hx => ⟨u', Nat.le_refl _, Nat.le_succ _, ?_⟩⟩ <;>
      · have hl := getElem?_lt hx
        rw [List.getElem?_append_left (by simpa using hl), List.getElem?_set_ne (Ne.symm hj)]; exact hx
  · cases h
  · cases h

theorem keeps_set_self {sp : SPool α} {i : Nat} {o : SObj α} (h : sp[i]? = some o) : sp.set i o = sp := by
  apply List.ext_getElem?
  intro j
  by_cases hj : i = j
  · subst hj
    have hlt := getElem?_lt h
    rw [List.getElem?_set_self hlt, h]
  · simp [List.getElem?_set_ne hj]

theorem keeps_pop {sp : SPool α} {i : Nat} {s : LSeq α} {u : Nat} (hi : sp[i]? = some (SObj.hub s (u + 1))) :
    Keeps sp (sp.set i (SObj.hub s u)) := by
  have hlt := getElem?_lt hi
  intro j
  by_cases hj : j = i
  · subst hj
    refine ⟨fun x hx => (by rw [hi] at hx; cases hx), fun x u' hx => ?_⟩
    rw [hi] at hx; injection hx with hx; injection hx with h1 h2; subst h1 h2
    exact ⟨u, Nat.le_succ _, Nat.le_refl _, by simp [hlt]⟩
  · refine ⟨fun x hx => ?_, fun x u' hx => ⟨u', Nat.le_refl _, Nat.le_succ _, ?_⟩⟩ <;>
    · rw [List.getElem?_set_ne (Ne.symm hj)]; exact hx

theorem specTake_err {s s' : LSeq α} {c : Cnt} {e : String} (h : specTake s c = some (s', .err e)) : s' = s := by
  unfold specTake at h
  split at h
  · split at h
    · injection h with h; injection h with h1; exact h1.symm
    · injection h with h; injection h with _ h2; cases h2
  · split at h
    · cases h
    · injection h with h; injection h with _ h2; cases h2
  · injection h with h; injection h with _ h2; cases h2

/-- **a failed operation leaves no trace** (list model): after an operation that raises — whatever
    the exception: IndexError of an exhausted hub, StopIteration of `take()` at the end, TypeError /
    ValueError / OverflowError of a bad count, AttributeError of `hub.take`, a missing object — every
    Stream is what it was, every hub distributes what it did (it may have given a use to the failing
    `Stream(self)`). -/
theorem specStep_err_keeps {sp sp' : SPool α} {op : Op α} {e : String}
    (h : specStep sp op = some (sp', .err e)) : Keeps sp sp' := by
  cases op with
  | new s =>
    simp only [specStep] at h
    split at h
    · injection h with h; injection h with h1; subst h1; exact Keeps.refl sp
    · injection h with h; injection h with _ h2; cases h2
  | take i c =>
    simp only [specStep] at h
    split at h
    · rename_i s hi
      cases ht : specTake s c with
      | none => simp [ht] at h
      | some r =>
        obtain ⟨s1, o⟩ := r
        simp [ht] at h
        obtain ⟨h1, h2⟩ := h
        subst h1 h2
        rw [specTake_err ht, keeps_set_self hi]; exact Keeps.refl sp
    · injection h with h; injection h with h1; subst h1; exact Keeps.refl sp
    · injection h with h; injection h with h1; subst h1; exact Keeps.refl sp
  | peek i c =>
    simp only [specStep] at h
    split at h
    · rename_i s hi
      cases ht : specTake s c with
      | none => simp [ht] at h
      | some r => simp [ht] at h; rw [← h.1]; exact Keeps.refl sp
    · rename_i s u hi
      cases ht : specTake s c with
      | none => simp [ht] at h
      | some r => simp [ht] at h; rw [← h.1]; exact Keeps.refl sp
    · injection h with h; injection h with h1; subst h1; exact Keeps.refl sp
    · injection h with h; injection h with h1; subst h1; exact Keeps.refl sp
  | copy i =>
    simp only [specStep] at h
    split at h
    all_goals first
      | (injection h with h; injection h with h1 h2; subst h1; exact Keeps.refl sp)
      | (injection h with h; injection h with _ h2; cases h2)
  | thub a n =>
    simp only [specStep] at h
    split at h
    · injection h with h; injection h with _ h2; cases h2
    · split at h
      · injection h with h; injection h with h1; subst h1; exact Keeps.refl sp
      · injection h with h; injection h with _ h2; cases h2
  | tee i n =>
    simp only [specStep] at h
    split at h
    · injection h with h; injection h with h1; subst h1; exact Keeps.refl sp
    · injection h with h; injection h with _ h2; cases h2
  | next i =>
    simp only [specStep] at h
    split at h
    · rename_i s hi
      cases ht : specTake s .none with
      | none => simp [ht] at h
      | some r =>
        obtain ⟨s1, o⟩ := r
        simp [ht] at h
        obtain ⟨h1, h2⟩ := h
        subst h1 h2
        rw [specTake_err ht, keeps_set_self hi]; exact Keeps.refl sp
    · rename_i s u hi
      cases ht : specTake s .none with
      | none => simp [ht] at h
      | some r =>
        obtain ⟨s1, o⟩ := r
        simp [ht] at h
        obtain ⟨h1, h2⟩ := h
        subst h1 h2
        exact keeps_pop hi
    · injection h with h; injection h with h1; subst h1; exact Keeps.refl sp
    · injection h with h; injection h with h1; subst h1; exact Keeps.refl sp
  | drain i =>
    simp only [specStep] at h
    split at h
    · rename_i s hi
      cases ht : specTake s .inf with
      | none => simp [ht] at h
      | some r =>
        obtain ⟨s1, o⟩ := r
        simp [ht] at h
        obtain ⟨h1, h2⟩ := h
        subst h1 h2
        rw [specTake_err ht, keeps_set_self hi]; exact Keeps.refl sp
    · rename_i s u hi
      cases ht : specTake s .inf with
      | none => simp [ht] at h
      | some r =>
        obtain ⟨s1, o⟩ := r
        simp [ht] at h
        obtain ⟨h1, h2⟩ := h
        subst h1 h2
        exact keeps_pop hi
    · injection h with h; injection h with h1; subst h1; exact Keeps.refl sp
    · injection h with h; injection h with h1; subst h1; exact Keeps.refl sp
  | skip i c =>
    simp only [specStep] at h
    split at h
    · injection h with h; injection h with h1; subst h1; exact Keeps.refl sp
    · split at h
      · injection h with h; injection h with h1; subst h1; exact Keeps.refl sp
      · simp [specRebind] at h; obtain ⟨_, h2⟩ := h; split at h2 <;> cases h2
  | limit i c =>
    simp only [specStep] at h
    split at h
    · injection h with h; injection h with h1; subst h1; exact Keeps.refl sp
    · rename_i sp1 k s ht
      split at h
      · injection h with h; injection h with h1; subst h1; exact keeps_target ht
      · simp [specRebind] at h; obtain ⟨_, h2⟩ := h; split at h2 <;> cases h2
  | append i a =>
    simp only [specStep] at h
    split at h
    · injection h with h; injection h with h1; subst h1; exact Keeps.refl sp
    · rename_i sp1 k s ht
      split at h
      · injection h with h; injection h with h1; subst h1; exact keeps_target ht
      · simp [specRebind] at h; obtain ⟨_, h2⟩ := h; split at h2 <;> cases h2
  | map i g =>
    simp only [specStep] at h
    split at h
    · injection h with h; injection h with h1; subst h1; exact Keeps.refl sp
    · simp [specRebind] at h; obtain ⟨_, h2⟩ := h; split at h2 <;> cases h2
  | filter i p =>
    simp only [specStep] at h
    split at h
    · injection h with h; injection h with h1; subst h1; exact Keeps.refl sp
    · simp [specRebind] at h; obtain ⟨_, h2⟩ := h; split at h2 <;> cases h2

/-- the same for a step of a `hist` history (`lit` / `edit` touch no Stream at all) -/
theorem hspecStep_err_keeps {s s' : HSp α} {hop : HOp α} {e : String}
    (h : hspecStep s hop = some (s', .err e)) : Keeps s.sp s'.sp := by
  have key : ∀ op, specKeep s op = some (s', .err e) → Keeps s.sp s'.sp := by
    intro op hk
    unfold specKeep at hk
    cases hs : specStep s.sp op with
    | none => simp [hs] at hk
    | some r =>
      obtain ⟨sp1, ob⟩ := r
      simp [hs] at hk
      obtain ⟨h1, h2⟩ := hk
      subst h2
      rw [← h1]
      exact specStep_err_keeps hs
  cases hop with
  | op o => exact key o h
  | lit xs => simp [hspecStep] at h
  | edit j m =>
    simp only [hspecStep] at h
    split at h
    · injection h with h; injection h with h1; subst h1; exact Keeps.refl _
    · injection h with h; injection h with _ h2; cases h2
  | newRef j =>
    simp only [hspecStep] at h
    split at h
    · injection h with h; injection h with h1; subst h1; exact Keeps.refl _
    · exact key _ h
  | appendRef i j =>
    simp only [hspecStep] at h
    split at h
    · injection h with h; injection h with h1; subst h1; exact Keeps.refl _
    · exact key _ h
  | thubRef j n =>
    simp only [hspecStep] at h
    split at h
    · injection h with h; injection h with h1; subst h1; exact Keeps.refl _
    · exact key _ h

/-- **a call that raises leaves no trace** -/
theorem cspecStep_err_keeps {s s' : HSp α} {c : Call α} {e : String}
    (h : cspecStep s c = some (s', .err e)) : Keeps s.sp s'.sp := by
  unfold cspecStep at h
  split at h
  · exact hspecStep_err_keeps h
  · injection h with h; injection h with h1; subst h1; exact Keeps.refl _

end ALV.C03
