/-
  C17 — the inductive invariant of the transition system (all schedules, any number of
  players, any chunk counts) and its preservation by every step.  Core Lean only.
-/
import ALV.Lemmas.C17Base
namespace ALV.C17

/-! ### program-counter classes -/

def selfHold : PPc → Bool
  | .closeStream | .tfAcq | .tfRel | .finRel => true
  | _ => false

def inThreads : PPc → Bool
  | .begin | .write | .isSet | .stopStream | .goWait | .startStream | .finAcq | .closeStream
  | .tfAcq => true
  | _ => false

def exitingPc : PPc → Bool
  | .tfRel | .finRel | .done => true
  | _ => false

def sstOK : PPc → SSt → Bool
  | .new, t => t == .unopened || t == .active
  | .begin, t | .write, t | .isSet, t | .stopStream, t => t == .active
  | .goWait, t | .startStream, t => t == .stopped
  | .finAcq, t | .closeStream, t => t == .active || t == .stopped
  | _, t => t == .closed

def mainHoldsT : MPc → Nat → Bool
  | .cEvt _ j, i | .cRel _ j, i | .kSEvt j, i | .kSRel j, i => j == i
  | _, _ => false

def mainHoldsM : MPc → Bool
  | .pRaiseRel | .pGoSet _ | .pOpen _ | .pStart _ | .pRel | .kMRel _ => true
  | _ => false

def closeBody : MPc → Bool
  | .kMAcq | .kMRel _ | .kSAcq _ | .kSEvt _ | .kSRel _ | .kJoin _ | .kTerm | .kAssertRel
  | .kHRel _ => true
  | _ => false

def preTerm : MPc → Bool
  | .kMAcq | .kMRel _ | .kSAcq _ | .kSEvt _ | .kSRel _ | .kJoin _ | .kTerm => true
  | _ => false

def creating : MPc → Option Nat
  | .pGoSet i | .pOpen i | .pStart i => some i
  | _ => none

def mainRef : MPc → Option Nat
  | .pGoSet i | .pOpen i | .pStart i | .cAcq _ i | .cEvt _ i | .cRel _ i | .jJoin i
  | .kMRel (some i) | .kSAcq i | .kSEvt i | .kSRel i | .kJoin i => some i
  | _ => none

/-- program counter of player `i`, if it exists -/
def pcAt (s : State) (i : Nat) : Option PPc := (s.players[i]?).map (·.pc)

theorem pcAt_set {l : List Player} {i : Nat} {p p' : Player} (hp : l[i]? = some p) (k : Nat) :
    ((l.set i p')[k]?).map (·.pc) = if k = i then some p'.pc else (l[k]?).map (·.pc) := by
  have hlt := lt_of_getElem? hp
  rw [List.getElem?_set]
  by_cases h : i = k
  · subst h; simp [hlt]
  · have h' : ¬ k = i := fun e => h e.symm
    simp [h, h']

theorem pcAt_append {l : List Player} {p' : Player} (k : Nat) :
    ((l ++ [p'])[k]?).map (·.pc) = if k = l.length then some p'.pc else (l[k]?).map (·.pc) := by
  by_cases h : k = l.length
  · subst h; simp
  · by_cases hlt : k < l.length
    · simp [h, List.getElem?_append_left hlt]
    · rw [List.getElem?_eq_none (by simp; omega), List.getElem?_eq_none (by omega)]; simp [h]

/-- a player step leaves the manager-level fields alone -/
theorem stepPlayer_frame (cfg : Cfg) (s s' : State) (i : Nat) (h : stepPlayer cfg s i = some s') :
    s'.mpc = s.mpc ∧ s'.script = s.script ∧ s'.hlock = s.hlock ∧ s'.finished = s.finished ∧
    s'.terminated = s.terminated ∧ s'.log = s.log ∧ s'.players.length = s.players.length := by
  unfold stepPlayer at h
  split at h
  · cases h
  · simp only at h
    split at h <;> (try split at h) <;> (try split at h) <;> (try cases h) <;> simp [setP]

theorem mem_nextCmd_log_of_mem (e : Ev) (sc : List Cmd) : ∀ (X : State),
    e ∈ X.log → e ∈ (nextCmd X sc).log := by
  induction sc with
  | nil => intro X h; simpa [nextCmd] using h
  | cons c rest ih =>
    intro X h
    cases c with
    | play a => simpa [nextCmd] using h
    | close => simpa [nextCmd] using h
    | ctl k i =>
      simp only [nextCmd]; split
      · simpa using h
      · exact ih _ (by simp [h])
    | join i =>
      simp only [nextCmd]; split
      · simpa using h
      · exact ih _ (by simp [h])

theorem mem_next_log_self (s : State) (e : Ev) : e ∈ (s.next e).log :=
  mem_nextCmd_log_of_mem e _ _ (by simp)

theorem mem_next_log_of_mem (s : State) (e e' : Ev) (h : e ∈ s.log) : e ∈ (s.next e').log :=
  mem_nextCmd_log_of_mem e _ _ (by simp [h])

/-- manager-level invariant: close / terminate bookkeeping -/
structure MI (s : State) : Prop where
  term : s.terminated ≤ 1
  fin0 : s.finished = false → s.terminated = 0
  pre : preTerm s.mpc = true → s.finished = true ∧ s.terminated = 0
  playing : ∀ i, creating s.mpc = some i → s.finished = false
  hrel : ∀ b, s.mpc = .kHRel b → s.terminated = 1 ∨ Ev.closeAssertionError ∈ s.log
  finDone : s.finished = true → closeBody s.mpc = true ∨ s.terminated = 1 ∨
    Ev.closeAssertionError ∈ s.log
  hfin : ∀ b, s.mpc = .kHRel b → s.finished = true
  okFin : ∀ al n, Ev.closeOk al n ∈ s.log → s.finished = true

theorem mi_stepPlayer (cfg : Cfg) (s s' : State) (i : Nat) (h : stepPlayer cfg s i = some s')
    (inv : MI s) : MI s' := by
  obtain ⟨h1, _, _, h4, h5, h6, _⟩ := stepPlayer_frame cfg s s' i h
  obtain ⟨a, b, c, d, e, f, g, h'⟩ := inv
  exact ⟨h5 ▸ a, by rw [h4, h5]; exact b, by rw [h1, h4, h5]; exact c, by rw [h1, h4]; exact d,
    by rw [h1, h5, h6]; exact e, by rw [h4, h1, h5, h6]; exact f, by rw [h1, h4]; exact g,
    by rw [h6, h4]; exact h'⟩

theorem nextCmd_startPc (X : State) (sc : List Cmd) :
    preTerm (nextCmd X sc).mpc = false ∧ creating (nextCmd X sc).mpc = none ∧
    (∀ b, (nextCmd X sc).mpc ≠ .kHRel b) ∧ closeBody (nextCmd X sc).mpc = false ∧
    mainHoldsM (nextCmd X sc).mpc = false ∧ (∀ i, mainHoldsT (nextCmd X sc).mpc i = false) ∧
    (nextCmd X sc).mpc ≠ .kAssertRel ∧ (nextCmd X sc).mpc ≠ .kTerm ∧
    (∀ f, (nextCmd X sc).mpc ≠ .kMRel f) ∧
    (∀ i, mainRef (nextCmd X sc).mpc = some i → i < X.players.length) := by
  apply nextCmd_cases (P := fun m => preTerm m = false ∧ creating m = none ∧
    (∀ b, m ≠ .kHRel b) ∧ closeBody m = false ∧ mainHoldsM m = false ∧
    (∀ i, mainHoldsT m i = false) ∧ m ≠ .kAssertRel ∧ m ≠ .kTerm ∧ (∀ f, m ≠ .kMRel f) ∧
    (∀ i, mainRef m = some i → i < X.players.length)) <;>
    simp [preTerm, creating, closeBody, mainHoldsM, mainHoldsT, mainRef] <;> intros <;> omega

theorem next_startPc (X : State) (e : Ev) :
    preTerm (X.next e).mpc = false ∧ creating (X.next e).mpc = none ∧
    (∀ b, (X.next e).mpc ≠ .kHRel b) ∧ closeBody (X.next e).mpc = false ∧
    mainHoldsM (X.next e).mpc = false ∧ (∀ i, mainHoldsT (X.next e).mpc i = false) ∧
    (X.next e).mpc ≠ .kAssertRel ∧ (X.next e).mpc ≠ .kTerm ∧ (∀ f, (X.next e).mpc ≠ .kMRel f) ∧
    (∀ i, mainRef (X.next e).mpc = some i → i < X.players.length) :=
  nextCmd_startPc _ _

theorem mi_nextCmd (X : State) (sc : List Cmd) (hterm : X.terminated ≤ 1)
    (hfin0 : X.finished = false → X.terminated = 0)
    (hfd : X.finished = true → X.terminated = 1 ∨ Ev.closeAssertionError ∈ X.log)
    (hok : ∀ al n, Ev.closeOk al n ∈ X.log → X.finished = true) :
    MI (nextCmd X sc) := by
  obtain ⟨n1, n2, n3, n4, _⟩ := nextCmd_startPc X sc
  constructor
  · simpa using hterm
  · simpa using hfin0
  · simp [n1]
  · simp [n2]
  · intro b hb; exact absurd hb (n3 b)
  · intro hf
    simp only [nextCmd_finished] at hf
    right
    rcases hfd hf with h | h
    · left; simpa using h
    · right; exact mem_nextCmd_log_of_mem _ _ _ h
  · intro b hb; exact absurd hb (n3 b)
  · intro al n hmem
    rcases mem_nextCmd_log _ _ _ hmem with h | h
    · simpa using hok al n h
    · cases h

theorem mi_next (X : State) (e : Ev) (hterm : X.terminated ≤ 1)
    (hfin0 : X.finished = false → X.terminated = 0)
    (hfd : X.finished = true → X.terminated = 1 ∨ Ev.closeAssertionError ∈ X.log ∨
      e = Ev.closeAssertionError)
    (hok : ∀ al n, Ev.closeOk al n ∈ X.log ∨ e = Ev.closeOk al n → X.finished = true) :
    MI (X.next e) := by
  apply mi_nextCmd
  · simpa using hterm
  · simpa using hfin0
  · intro hf
    rcases hfd hf with h | h | h
    · exact Or.inl h
    · right; simp [h]
    · right; simp [h]
  · intro al n hmem
    simp only [List.mem_append, List.mem_singleton] at hmem
    rcases hmem with h | h
    · exact hok al n (Or.inl h)
    · exact hok al n (Or.inr h.symm)

theorem mi_stepMain (cfg : Cfg) (s s' : State) (h : stepMain cfg s = some s')
    (inv : MI s) : MI s' := by
  obtain ⟨a, b, c, d, e, f, g, h'⟩ := inv
  unfold stepMain at h
  split at h <;> (try split at h) <;> (try split at h) <;> (try split at h) <;> (try cases h) <;>
  (first
    | (apply mi_nextCmd <;> (first | assumption | (simp_all [preTerm, creating, closeBody, setP]; done)))
    | (apply mi_next <;>
        (first
          | assumption
          | (simp_all [preTerm, creating, closeBody, setP]; done)
          | (intro al n hh; rcases hh with hh | hh <;>
              (first | exact h' al n hh | (cases hh; done) | (simp_all [setP]; done)))))
    | (constructor <;> (first | exact h' | (simp_all [preTerm, creating, closeBody, setP]; done))))

theorem mi_reach {cfg : Cfg} {script : List Cmd} {s : State} (h : Reach cfg script s) : MI s := by
  induction h with
  | init => constructor <;> simp [init, preTerm, creating, closeBody]
  | step _ hs ih =>
    rename_i s s' t _
    cases t with
    | main => exact mi_stepMain cfg s s' hs ih
    | player i => exact mi_stepPlayer cfg s s' i hs ih

end ALV.C17
