/-
  C08 — lemmas for the call layer: the generic-index loop instantiated at `Int` is the loop of
  `Model/C08.lean`; the `Rat` instance at whole numbers is the `Int` instance; non-positive and
  non-whole hops; size 0; callers that change the length of the yielded deque.
  Core Lean only.
-/
import ALV.Lemmas.C08Hist
import ALV.Model.C08Call
import ALV.Spec.C08Call
namespace ALV.C08
variable {α : Type}

/-! ### `Int` instance = the loop of the base model -/

def toB (s : GState Int α) : BState α := ⟨s.res, s.idx⟩

theorem gstep_int (size hop : Nat) (rInt : Bool) (s : GState Int α) (x : α) :
    toB (gstep size ((size : Int) - 1) ((size : Int) - hop) rInt s x).1 = (bstep size hop (toB s) x).1 ∧
    (gstep size ((size : Int) - 1) ((size : Int) - hop) rInt s x).2 = (bstep size hop (toB s) x).2 ∧
    (gstep size ((size : Int) - 1) ((size : Int) - hop) rInt s x).1.isInt =
      (if (bstep size hop (toB s) x).2.isSome then rInt else s.isInt) := by
  unfold gstep bstep toB
  by_cases h1 : s.idx < 0
  · simp [h1]
  · by_cases h2 : s.idx = (size : Int) - 1
    · simp only [if_neg h1, if_pos h2]; simp
    · simp only [if_neg h1, if_neg h2]; simp

theorem gloopEv_int (size hop : Nat) (rInt : Bool) : ∀ (xs : List α) (s : GState Int α) (n : Nat),
    (gloopEv size ((size : Int) - 1) ((size : Int) - hop) rInt s n xs).1 = (bloopEv size hop (toB s) n xs).1 ∧
    toB (gloopEv size ((size : Int) - 1) ((size : Int) - hop) rInt s n xs).2 = (bloopEv size hop (toB s) n xs).2 ∧
    (gloopEv size ((size : Int) - 1) ((size : Int) - hop) rInt s n xs).2.isInt =
      (if (bloopEv size hop (toB s) n xs).1.isEmpty then s.isInt else rInt) := by
  intro xs
  induction xs with
  | nil => intro s n; simp [gloopEv, bloopEv]
  | cons x xs ih =>
    intro s n
    obtain ⟨g1, g2, g3⟩ := gstep_int size hop rInt s x
    obtain ⟨i1, i2, i3⟩ := ih (gstep size ((size : Int) - 1) ((size : Int) - hop) rInt s x).1 (n + 1)
    simp only [gloopEv, bloopEv]
    rw [g1] at i1 i2 i3
    refine ⟨by rw [i1, g2], i2, ?_⟩
    rw [i3, g3]
    by_cases hb : (bstep size hop (toB s) x).2.isSome
    · obtain ⟨b, hb'⟩ := Option.isSome_iff_exists.mp hb
      simp [hb']
    · have hb' := Option.not_isSome_iff_eq_none.mp hb
      simp [hb']

theorem gtail_int (size hop : Nat) (pad : α) (s : GState Int α) :
    gtail size ((size : Int) - hop) Int.toNat pad s =
      (match btail size hop pad (toB s) with
       | [] => GTail.nothing
       | b :: _ => if s.isInt then GTail.block b else GTail.refuse) := by
  unfold gtail btail toB
  by_cases h : s.idx > max ((size : Int) - hop) 0
  · have h' : (size : Int) - hop < s.idx ∧ 0 < s.idx := by omega
    simp only [if_pos h, if_pos h']
  · have h' : ¬ ((size : Int) - hop < s.idx ∧ 0 < s.idx) := by omega
    simp only [if_neg h, if_neg h']

/-- the run of the `Int` instance in terms of the base model's loop and tail -/
def runOfBase (size hop : Nat) (rInt : Bool) (pad : α) (xs : List α) (e : Ending) : CallRun α :=
  let t := bloopEv size hop (⟨[], 0⟩ : BState α) 0 xs
  match e with
  | .fail => ⟨t.1, .srcFail, xs.length⟩
  | .stop =>
    match btail size hop pad t.2 with
    | [] => ⟨t.1, .stop, xs.length⟩
    | b :: _ =>
      if t.1.isEmpty || rInt then ⟨t.1 ++ [(xs.length, b)], .stop, xs.length⟩
      else ⟨t.1, .err .typeError, xs.length⟩

theorem grun_int (size hop : Nat) (rInt : Bool) (pad : α) (xs : List α) (e : Ending) :
    grun size ((size : Int) - 1) ((size : Int) - hop) rInt Int.toNat pad xs e =
      runOfBase size hop rInt pad xs e := by
  obtain ⟨h1, h2, h3⟩ := gloopEv_int size hop rInt xs (⟨[], 0, true⟩ : GState Int α) 0
  have hB : toB (⟨[], 0, true⟩ : GState Int α) = (⟨[], 0⟩ : BState α) := rfl
  rw [hB] at h1 h2 h3
  unfold grun runOfBase
  cases e with
  | fail => simp only [h1]
  | stop =>
    simp only [gtail_int, h1, h2, h3]
    cases hb : btail size hop pad (bloopEv size hop (⟨[], 0⟩ : BState α) 0 xs).2 with
    | nil => simp
    | cons b bs =>
      by_cases he : (bloopEv size hop (⟨[], 0⟩ : BState α) 0 xs).1.isEmpty
      · simp [he]
      · cases rInt <;> simp [he]

/-! ### the `Rat` instance at whole numbers is the `Int` instance -/

def toQ (s : GState Int α) : GState Rat α := ⟨s.res, (s.idx : Rat), s.isInt⟩

theorem ratCast_neg_iff (i : Int) : ((i : Int) : Rat) < 0 ↔ i < 0 := by
  have := @Rat.intCast_lt_intCast i 0
  simpa using this

theorem ratCast_pos_iff (i : Int) : (0 : Rat) < ((i : Int) : Rat) ↔ 0 < i := by
  have := @Rat.intCast_lt_intCast 0 i
  simpa using this

theorem gstep_rat (size : Nat) (l r : Int) (rInt : Bool) (s : GState Int α) (x : α) :
    gstep size (l : Rat) (r : Rat) rInt (toQ s) x =
      (toQ (gstep size l r rInt s x).1, (gstep size l r rInt s x).2) := by
  unfold gstep toQ
  by_cases h1 : s.idx < 0
  · have h1' : ((s.idx : Int) : Rat) < 0 := (ratCast_neg_iff _).mpr h1
    simp only [if_pos h1, if_pos h1']
    simp [Rat.intCast_add]
  · have h1' : ¬ ((s.idx : Int) : Rat) < 0 := fun h => h1 ((ratCast_neg_iff _).mp h)
    by_cases h2 : s.idx = l
    · have h2' : ((s.idx : Int) : Rat) = (l : Rat) := by rw [h2]
      simp only [if_neg h1, if_neg h1', if_pos h2, if_pos h2']
    · have h2' : ¬ ((s.idx : Int) : Rat) = (l : Rat) := fun h => h2 (Rat.intCast_inj.mp h)
      simp only [if_neg h1, if_neg h1', if_neg h2, if_neg h2']
      simp [Rat.intCast_add]

theorem gloopEv_rat (size : Nat) (l r : Int) (rInt : Bool) : ∀ (xs : List α) (s : GState Int α) (n : Nat),
    gloopEv size (l : Rat) (r : Rat) rInt (toQ s) n xs =
      ((gloopEv size l r rInt s n xs).1, toQ (gloopEv size l r rInt s n xs).2) := by
  intro xs
  induction xs with
  | nil => intro s n; simp [gloopEv]
  | cons x xs ih =>
    intro s n
    simp only [gloopEv, gstep_rat, ih]

theorem gtail_rat (size : Nat) (r : Int) (pad : α) (s : GState Int α) :
    gtail size (r : Rat) (fun q : Rat => q.floor.toNat) pad (toQ s) = gtail size r Int.toNat pad s := by
  unfold gtail toQ
  have hc : ((r : Rat) < ((s.idx : Int) : Rat) ∧ (0 : Rat) < ((s.idx : Int) : Rat)) ↔ (r < s.idx ∧ 0 < s.idx) := by
    rw [Rat.intCast_lt_intCast, ratCast_pos_iff]
  by_cases h : r < s.idx ∧ 0 < s.idx
  · simp only [if_pos h, if_pos (hc.mpr h), Rat.floor_intCast]
  · simp only [if_neg h, if_neg (fun h' => h (hc.mp h'))]

theorem grun_rat (size : Nat) (l r : Int) (rInt : Bool) (pad : α) (xs : List α) (e : Ending) :
    grun size (l : Rat) (r : Rat) rInt (fun q : Rat => q.floor.toNat) pad xs e =
      grun size l r rInt Int.toNat pad xs e := by
  have h0 : (⟨[], 0, true⟩ : GState Rat α) = toQ (⟨[], 0, true⟩ : GState Int α) := by
    simp [toQ]
  unfold grun
  rw [h0, gloopEv_rat]
  simp only [gtail_rat]

/-! ### callers that change the yielded deque in any way, `hop ≥ size` -/

theorem bloopMut_ge (size hop : Nat) (hs : 0 < size) (hh : 0 < hop) (hge : size ≤ hop) (pad : α)
    (edit : Nat → List α → List α) (hed : ∀ k l, l.length ≤ size → (edit k l).length ≤ size) :
    ∀ (xs : List α) (s : BState α) (k : Nat), BInv size s →
      (bloopMut size hop edit s k xs).1 ++ btail size hop pad (bloopMut size hop edit s k xs).2 =
        blocksSpec size hop pad (virt s xs) := by
  intro xs
  induction xs with
  | nil => intro s k inv; simp [bloopMut, btail_eq size hop hs pad s inv]
  | cons x xs ih =>
    intro s k inv
    cases hr : (bstep size hop s x).2 with
    | none =>
      have inv' := bstep_inv size hop hs hh s x inv
      rw [bstep_none size hop s x xs inv hr, ← ih _ k inv']
      simp only [bloopMut, hr]
    | some b =>
      obtain ⟨hb, _hv, hst⟩ := bstep_some size hop s x xs inv b hr
      have inv' : BInv size (⟨edit k b, (size : Int) - hop⟩ : BState α) :=
        ⟨show (size : Int) - hop < size by omega, hed k b (by omega), fun _ => by
          show ((size : Int) - hop).toNat ≤ (edit k b).length
          omega⟩
      have hvirt : virt (⟨edit k b, (size : Int) - hop⟩ : BState α) xs =
          virt (⟨b, (size : Int) - hop⟩ : BState α) xs := by
        unfold virt
        by_cases hlt : (size : Int) - hop < 0
        · simp only [if_pos hlt]
        · have h0 : ((size : Int) - hop).toNat = 0 := by omega
          simp only [if_neg hlt, h0, lastN]
          simp
      rw [bstep_spec size hop hs hh pad s x xs inv, hr, hst, ← hvirt, ← ih _ (k + 1) inv']
      simp only [bloopMut, hr, hst, Option.toList_some, List.cons_append, List.nil_append]

theorem foldl_dqPush_length_le (size : Nat) (vs : List α) : ∀ l : List α, l.length ≤ size →
    (vs.foldl (dqPush size) l).length ≤ size := by
  induction vs with
  | nil => intro l h; simpa using h
  | cons v vs ih =>
    intro l _
    simp only [List.foldl_cons]
    apply ih
    rw [dqPush_length]
    omega

theorem DqOp.apply_length_le (size : Nat) (o : DqOp α) (l l' : List α) (hl : l.length ≤ size)
    (h : o.apply size l = some l') : l'.length ≤ size := by
  cases o with
  | keep e =>
    cases e with
    | set i v =>
      simp only [DqOp.apply] at h
      split at h
      · simp only [Option.some.injEq] at h; subst h; simpa using hl
      · simp at h
    | rotate r =>
      simp only [DqOp.apply, Option.some.injEq] at h; subst h
      rw [Edit.apply_length]; exact hl
    | reverse =>
      simp only [DqOp.apply, Option.some.injEq] at h; subst h
      rw [Edit.apply_length]; exact hl
  | append v =>
    simp only [DqOp.apply, Option.some.injEq] at h; subst h
    rw [dqPush_length]; omega
  | appendleft v =>
    simp only [DqOp.apply, Option.some.injEq] at h; subst h
    simp only [List.length_take, List.length_cons]; omega
  | pop =>
    simp only [DqOp.apply] at h
    split at h
    · simp at h
    · simp only [Option.some.injEq] at h; subst h; simp only [List.length_dropLast]; omega
  | popleft =>
    simp only [DqOp.apply] at h
    split at h
    · simp at h
    · simp only [Option.some.injEq] at h; subst h; simp only [List.length_tail]; omega
  | clear =>
    simp only [DqOp.apply, Option.some.injEq] at h; subst h; simp
  | extend vs =>
    simp only [DqOp.apply, Option.some.injEq] at h; subst h
    exact foldl_dqPush_length_le size vs l hl
  | del i =>
    simp only [DqOp.apply] at h
    split at h
    · simp only [Option.some.injEq] at h; subst h
      rw [List.length_eraseIdx]; split <;> omega
    · simp at h
  | insert i v =>
    simp only [DqOp.apply] at h
    split at h
    · simp at h
    · simp only [Option.some.injEq] at h; subst h
      simp only [List.length_append, List.length_take, List.length_cons, List.length_drop]; omega
  | setI i v =>
    simp only [DqOp.apply] at h
    cases hn : normIdx i l.length with
    | none => simp [hn] at h
    | some k => simp only [hn, Option.map_some, Option.some.injEq] at h; subst h; simpa using hl
  | delI i =>
    simp only [DqOp.apply] at h
    cases hn : normIdx i l.length with
    | none => simp [hn] at h
    | some k =>
      simp only [hn, Option.map_some, Option.some.injEq] at h; subst h
      rw [List.length_eraseIdx]; split <;> omega
  | insertI i v =>
    simp only [DqOp.apply] at h
    split at h
    · simp at h
    · simp only [Option.some.injEq] at h; subst h
      simp only [List.length_append, List.length_take, List.length_cons, List.length_drop]; omega

theorem applyOps_length_le (size : Nat) (ops : List (DqOp α)) : ∀ l : List α, l.length ≤ size →
    (applyOps size ops l).length ≤ size := by
  induction ops with
  | nil => intro l h; simpa [applyOps] using h
  | cons o os ih =>
    intro l h
    simp only [applyOps, List.foldl_cons]
    apply ih
    cases ho : o.apply size l with
    | none => simpa using h
    | some l' => simpa using DqOp.apply_length_le size o l l' h ho

/-! ### stretches of the loop without a yield (hop ≤ 0, size 0) -/

/-- what a `deque(maxlen=size)` holding `res` holds after receiving `xs` -/
def pushAll (size : Nat) (res xs : List α) : List α := xs.foldl (dqPush size) res

theorem lastSz_drop_append (size : Nat) (l ys : List α) :
    lastSz size (l.drop (l.length - size) ++ ys) = lastSz size (l ++ ys) := by
  unfold lastSz
  rw [← List.drop_append_of_le_length (by omega), List.drop_drop]
  congr 1
  simp only [List.length_append, List.length_drop]
  omega

theorem pushAll_eq (size : Nat) : ∀ (xs res : List α), res.length ≤ size →
    pushAll size res xs = lastSz size (res ++ xs) := by
  intro xs
  induction xs with
  | nil =>
    intro res h
    have h0 : res.length - size = 0 := by omega
    simp [pushAll, lastSz, h0]
  | cons x xs ih =>
    intro res h
    have hl : (dqPush size res x).length ≤ size := by rw [dqPush_length]; omega
    have := ih (dqPush size res x) hl
    simp only [pushAll, List.foldl_cons] at this ⊢
    rw [this]
    unfold dqPush
    simp only
    rw [lastSz_drop_append]
    simp

theorem gloopEv_quiet (size : Nat) (last r : Int) (rInt : Bool) :
    ∀ (xs : List α) (s : GState Int α) (n : Nat),
      0 ≤ s.idx → (last < s.idx ∨ s.idx + xs.length ≤ last) →
      gloopEv size last r rInt s n xs = ([], ⟨pushAll size s.res xs, s.idx + xs.length, s.isInt⟩) := by
  intro xs
  induction xs with
  | nil => intro s n _ _; simp [gloopEv, pushAll]
  | cons x xs ih =>
    intro s n h0 hq
    have h1 : ¬ s.idx < 0 := by omega
    have h2 : ¬ s.idx = last := by
      simp only [List.length_cons] at hq
      omega
    have hs : gstep size last r rInt s x = (⟨dqPush size s.res x, s.idx + 1, s.isInt⟩, none) := by
      simp only [gstep, if_neg h1, if_neg h2]
    simp only [gloopEv, hs]
    rw [ih _ (n + 1) (by show 0 ≤ s.idx + 1; omega) (by
      show last < s.idx + 1 ∨ s.idx + 1 + (xs.length : Int) ≤ last
      simp only [List.length_cons] at hq
      omega)]
    simp only [Option.toList_none, List.map_nil, List.nil_append, pushAll, List.foldl_cons, List.length_cons]
    congr 2
    omega

theorem gloopEv_append (size : Nat) (last r : Int) (rInt : Bool) :
    ∀ (a b : List α) (s : GState Int α) (n : Nat),
      gloopEv size last r rInt s n (a ++ b) =
        ((gloopEv size last r rInt s n a).1 ++
            (gloopEv size last r rInt (gloopEv size last r rInt s n a).2 (n + a.length) b).1,
          (gloopEv size last r rInt (gloopEv size last r rInt s n a).2 (n + a.length) b).2) := by
  intro a
  induction a with
  | nil => intro b s n; simp [gloopEv]
  | cons x a ih =>
    intro b s n
    simp only [List.cons_append, gloopEv, ih, List.append_assoc, List.length_cons]
    have : n + 1 + a.length = n + (a.length + 1) := by omega
    rw [this]

/-- `hop ≤ 0`: the loop hands out block 0 (the first `size` items `a ++ [x]`) and then nothing, however
many items `rest` follow; the deque goes on receiving them -/
theorem gloopEv_nonpos (a : List α) (x : α) (rest : List α) (h : Int) (hh : h ≤ 0) (rInt : Bool) :
    gloopEv (a.length + 1) (((a.length + 1 : Nat) : Int) - 1) (((a.length + 1 : Nat) : Int) - h) rInt
        (⟨[], 0, true⟩ : GState Int α) 0 (a ++ x :: rest) =
      ([(a.length + 1, a ++ [x])],
        ⟨lastSz (a.length + 1) (a ++ x :: rest), ((a.length + 1 : Nat) : Int) - h + rest.length, rInt⟩) := by
  rw [gloopEv_append]
  rw [gloopEv_quiet (a.length + 1) _ _ rInt a ⟨[], 0, true⟩ 0 (by simp) (by right; simp)]
  have hpa : pushAll (a.length + 1) [] a = a := by
    rw [pushAll_eq _ _ _ (by simp)]
    simp [lastSz]
  have hst : gstep (a.length + 1) (((a.length + 1 : Nat) : Int) - 1) (((a.length + 1 : Nat) : Int) - h) rInt
      (⟨a, (0 : Int) + a.length, true⟩ : GState Int α) x =
      (⟨a ++ [x], ((a.length + 1 : Nat) : Int) - h, rInt⟩, some (a ++ [x])) := by
    have h1 : ¬ ((0 : Int) + a.length < 0) := by omega
    have h2 : (0 : Int) + a.length = ((a.length + 1 : Nat) : Int) - 1 := by omega
    have hd : dqPush (a.length + 1) a x = a ++ [x] := by simp [dqPush]
    simp only [gstep, if_neg h1, if_pos h2, hd]
  simp only [hpa, gloopEv, hst]
  rw [gloopEv_quiet (a.length + 1) _ _ rInt rest _ _ (by show (0:Int) ≤ ((a.length + 1 : Nat) : Int) - h; omega)
    (by left; show ((a.length + 1 : Nat) : Int) - 1 < ((a.length + 1 : Nat) : Int) - h; omega)]
  simp only [Option.toList_some, List.map_cons, List.map_nil, List.nil_append, List.append_nil, Nat.zero_add]
  rw [pushAll_eq _ _ _ (by simp)]
  simp

theorem bloopMutFails_length (size hop : Nat) (ops : Nat → List (DqOp α)) :
    ∀ (xs : List α) (s : BState α) (k : Nat),
      (bloopMutFails size hop ops s k xs).length =
        (bloopMut size hop (fun k => applyOps size (ops k)) s k xs).1.length := by
  intro xs
  induction xs with
  | nil => intro s k; simp [bloopMutFails, bloopMut]
  | cons x xs ih =>
    intro s k
    cases hr : (bstep size hop s x).2 with
    | none => simp only [bloopMutFails, bloopMut, hr, ih]
    | some b => simp only [bloopMutFails, bloopMut, hr, ih, List.length_cons]

end ALV.C08
