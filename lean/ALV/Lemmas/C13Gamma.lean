/-
  C13 — helper lemmas, part 7: `abs(filt.freq_response(freq))` as modelled (`gainAt`: Horner in
  pairs, complex division, modulus), the normalisation `filt / abs(filt.freq_response(freq))`, and
  the gammatone sections.
-/
import ALV.Lemmas.C13Second
import ALV.Lemmas.C13Complex

set_option linter.unusedSectionVars false
set_option linter.unusedSimpArgs false

namespace ALV.C13
open ALV ALV.TrigField Complex

/-! ### `gainAt` is `sqrt(magSq)` -/

/-- the pair Horner scheme is the complex Horner scheme -/
theorem polyAt_complex (w : ℝ × ℝ) (l : List ℝ) :
    (((polyAt w l).1 : ℝ) : ℂ) + (((polyAt w l).2 : ℝ) : ℂ) * I
      = polyEvalC ((w.1 : ℂ) + (w.2 : ℂ) * I) l := by
  induction l with
  | nil => simp [polyAt, polyEvalC]
  | cons c cs ih =>
    simp only [polyAt, polyEvalC, cxMul, ← ih]
    push_cast
    ring_nf
    rw [Complex.I_sq]
    ring

theorem unitPoint_complex (f : ℝ) :
    (((unitPoint f).1 : ℝ) : ℂ) + (((unitPoint f).2 : ℝ) : ℂ) * I = Complex.exp (-(I * f)) := by
  have : -(I * (f : ℂ)) = ((-f : ℝ) : ℂ) * I := by push_cast; ring
  rw [this, Complex.exp_mul_I, ← Complex.ofReal_cos, ← Complex.ofReal_sin]
  simp [unitPoint]

theorem polyAt_unit (f : ℝ) (l : List ℝ) :
    (polyAt (unitPoint f) l).1 = cosSum f 0 l ∧ (polyAt (unitPoint f) l).2 = -sinSum f 0 l := by
  have h := polyAt_complex (unitPoint f) l
  rw [unitPoint_complex] at h
  have h2 := polyEvalC_unit f 0 l
  rw [pow_zero, one_mul] at h2
  rw [h2] at h
  have hre := congrArg Complex.re h
  have him := congrArg Complex.im h
  simp at hre him
  exact ⟨hre, him⟩

theorem polyAt_unit_normSq (f : ℝ) (l : List ℝ) :
    (polyAt (unitPoint f) l).1 * (polyAt (unitPoint f) l).1
      + (polyAt (unitPoint f) l).2 * (polyAt (unitPoint f) l).2 = polyMagSq l f := by
  obtain ⟨h1, h2⟩ := polyAt_unit f l
  rw [h1, h2, polyMagSq]; ring

/-- `|x / y|² = |x|² / |y|²` for the coded complex division (also when `y = 0`, where both are 0) -/
theorem cxDiv_normSq (x y : ℝ × ℝ) :
    (cxDiv x y).1 * (cxDiv x y).1 + (cxDiv x y).2 * (cxDiv x y).2
      = (x.1 * x.1 + x.2 * x.2) / (y.1 * y.1 + y.2 * y.2) := by
  simp only [cxDiv]
  by_cases h : y.1 * y.1 + y.2 * y.2 = 0
  · simp [h]
  · rw [div_mul_div_comm, div_mul_div_comm, ← add_div, div_eq_div_iff (mul_ne_zero h h) h]
    ring

theorem magSq_nonneg (s : Coefs ℝ) (ω : ℝ) : 0 ≤ magSq s ω := by
  unfold magSq polyMagSq
  apply div_nonneg <;> nlinarith [sq_nonneg (cosSum ω 0 s.num), sq_nonneg (sinSum ω 0 s.num),
    sq_nonneg (cosSum ω 0 s.den), sq_nonneg (sinSum ω 0 s.den)]

/-- the modelled `abs(filt.freq_response(freq))` is the square root of `|H(e^{j·freq})|²` -/
theorem gainAt_eq (s : Coefs ℝ) (f : ℝ) : gainAt s f = Real.sqrt (magSq s f) := by
  simp only [gainAt, cxAbs, real_sqrt, cxDiv_normSq, polyAt_unit_normSq, magSq]

theorem gainAt_sq (s : Coefs ℝ) (f : ℝ) : gainAt s f ^ 2 = magSq s f := by
  rw [gainAt_eq, Real.sq_sqrt (magSq_nonneg s f)]

/-! ### normalisation -/

theorem cosSum_map_mul (ω k : ℝ) (i : ℕ) (l : List ℝ) :
    cosSum ω i (l.map (· * k)) = cosSum ω i l * k := by
  induction l generalizing i with
  | nil => simp [cosSum]
  | cons c cs ih => simp only [List.map_cons, cosSum, ih]; ring

theorem sinSum_map_mul (ω k : ℝ) (i : ℕ) (l : List ℝ) :
    sinSum ω i (l.map (· * k)) = sinSum ω i l * k := by
  induction l generalizing i with
  | nil => simp [sinSum]
  | cons c cs ih => simp only [List.map_cons, sinSum, ih]; ring

theorem polyMagSq_map_mul (ω k : ℝ) (l : List ℝ) :
    polyMagSq (l.map (· * k)) ω = k ^ 2 * polyMagSq l ω := by
  simp only [polyMagSq, cosSum_map_mul, sinSum_map_mul]; ring

/-- the response of the normalised filter is the response divided by the gain at `f` -/
theorem normalise_magSq (s : Coefs ℝ) (f ω : ℝ) :
    magSq (normalise s f) ω = (1 / gainAt s f) ^ 2 * magSq s ω := by
  have h : normalise s f = mk (s.num.map (· * (1 / gainAt s f))) s.den := by
    simp only [normalise, c1_real]
  rw [h, magSq_mk, polyMagSq_map_mul]
  unfold magSq
  ring

/-- a filter divided by its own gain at `f` has gain 1 at `f`, provided that gain is non-zero -/
theorem normalise_unit (s : Coefs ℝ) (f : ℝ) (h : magSq s f ≠ 0) : magSq (normalise s f) f = 1 := by
  rw [normalise_magSq, div_pow, one_pow, gainAt_sq]
  field_simp

theorem normalise_den (s : Coefs ℝ) (f : ℝ) : (normalise s f).den = trim s.den := rfl

theorem normalise_isPole (s : Coefs ℝ) (f : ℝ) (p : ℂ) : IsPole (normalise s f) p ↔ IsPole s p := by
  simp only [IsPole, normalise_den, polyEvalC_trim]

/-! ### the common gammatone denominator `1 - 2A cos f z⁻¹ + A² z⁻²` -/

/-- `|den(e^{jf})|² > 0` for `0 < A < 1` and `f ∈ (0, π)` -/
theorem resDenSq_pos (A ct x : ℝ) (hA : A ^ 2 ≠ 1) (hx : x ^ 2 < 1) : 0 < resDenSq A ct x := by
  unfold resDenSq
  have h1 : 0 < (1 - A ^ 2) ^ 2 := by
    have : (1 - A ^ 2) ≠ 0 := fun h => hA (by linarith)
    positivity
  have h2 : 0 < 1 - x ^ 2 := by linarith
  nlinarith [sq_nonneg ((1 + A ^ 2) * x - 2 * A * ct), mul_pos h1 h2]

/-- `p² - 2A cos f · p + A² = (p - A e^{jf})(p - A e^{-jf})` -/
theorem gt_factor (A f : ℝ) (p : ℂ) :
    p ^ 2 + ((-(2 * A * Real.cos f) : ℝ) : ℂ) * p + ((A ^ 2 : ℝ) : ℂ)
      = (p - A * Complex.exp (I * f)) * (p - A * Complex.exp (-(I * f))) := by
  have e1 : Complex.exp (I * f) = Complex.cos f + Complex.sin f * I := by
    rw [mul_comm, Complex.exp_mul_I]
  have e2 : Complex.exp (-(I * f)) = Complex.cos f - Complex.sin f * I := by
    have : -(I * (f : ℂ)) = (-(f : ℂ)) * I := by ring
    rw [this, Complex.exp_mul_I, Complex.cos_neg, Complex.sin_neg]; ring
  have hsc : Complex.sin (f : ℂ) ^ 2 + Complex.cos (f : ℂ) ^ 2 = 1 := Complex.sin_sq_add_cos_sq _
  rw [e1, e2]
  push_cast
  ring_nf
  rw [Complex.I_sq]
  linear_combination (-(A : ℂ) ^ 2) * hsc

/-- poles of a section over the gammatone denominator: exactly `A e^{±jf}` -/
theorem gt_poles (b : List ℝ) (A f : ℝ) (hA : 0 < A) (p : ℂ) :
    IsPole (mk b [1, -(2 * A * Real.cos f), A ^ 2]) p
      ↔ p = A * Complex.exp (I * f) ∨ p = A * Complex.exp (-(I * f)) := by
  rw [isPole_second, gt_factor]
  have hA' : (A : ℂ) ≠ 0 := by exact_mod_cast hA.ne'
  constructor
  · rintro ⟨_, h⟩
    rcases mul_eq_zero.1 h with h' | h'
    · left; exact sub_eq_zero.1 h'
    · right; exact sub_eq_zero.1 h'
  · intro h
    constructor
    · rcases h with h | h <;> rw [h] <;> exact mul_ne_zero hA' (Complex.exp_ne_zero _)
    · rcases h with h | h <;> rw [h] <;> simp

theorem norm_A_exp (A f : ℝ) (hA : 0 < A) :
    ‖(A : ℂ) * Complex.exp (I * f)‖ = A ∧ ‖(A : ℂ) * Complex.exp (-(I * f))‖ = A := by
  have h1 : ‖Complex.exp (I * f)‖ = 1 := by
    rw [mul_comm]; exact Complex.norm_exp_ofReal_mul_I f
  have h2 : ‖Complex.exp (-(I * f))‖ = 1 := by
    have : -(I * (f : ℂ)) = ((-f : ℝ) : ℂ) * I := by push_cast; ring
    rw [this]; exact Complex.norm_exp_ofReal_mul_I (-f)
  constructor
  · rw [norm_mul, h1, mul_one, Complex.norm_real, Real.norm_of_nonneg hA.le]
  · rw [norm_mul, h2, mul_one, Complex.norm_real, Real.norm_of_nonneg hA.le]

/-! ### non-vanishing of the un-normalised gains -/

/-- `|b0 + b1 e^{-jf}|² = 0` with `sin f ≠ 0` forces `b0 = b1 = 0` -/
theorem polyMagSq_two_eq_zero (b0 b1 f : ℝ) (hs : Real.sin f ≠ 0) (h : polyMagSq [b0, b1] f = 0) :
    b0 = 0 ∧ b1 = 0 := by
  rw [polyMagSq_two] at h
  have hsc := Real.sin_sq_add_cos_sq f
  have key : (b0 + b1 * Real.cos f) ^ 2 + (b1 * Real.sin f) ^ 2 = 0 := by nlinarith
  have h1 : b1 * Real.sin f = 0 := by nlinarith [sq_nonneg (b0 + b1 * Real.cos f), sq_nonneg (b1 * Real.sin f)]
  have h2 : b0 + b1 * Real.cos f = 0 := by nlinarith [sq_nonneg (b0 + b1 * Real.cos f), sq_nonneg (b1 * Real.sin f)]
  have hb1 : b1 = 0 := by
    rcases mul_eq_zero.1 h1 with h' | h'
    · exact h'
    · exact absurd h' hs
  rw [hb1] at h2
  exact ⟨by linarith, hb1⟩

/-- a section `b / (1 - 2A cos f z⁻¹ + A² z⁻²)` has non-zero gain at `f` iff its numerator does -/
theorem section_magSq_ne_zero (b : List ℝ) (A f : ℝ) (hA : A ^ 2 ≠ 1) (hf : Real.cos f ^ 2 < 1)
    (hb : polyMagSq b f ≠ 0) :
    magSq (mk b [1, -(2 * A * Real.cos f), A ^ 2]) f ≠ 0 := by
  rw [magSq_mk, polyMagSq_resDen]
  exact div_ne_zero hb (resDenSq_pos A _ _ hA hf).ne'

end ALV.C13
