/-
  C07 — calculus: `Poly.diff` is the formal derivative `D` of the Laurent ring
  (`D (c·T^k) = k·c·T^(k-1)`), which is additive and satisfies the product rule;
  `diff` undoes `integrate` (characteristic 0, no power −1).
-/
import Mathlib.Algebra.Polynomial.Laurent
import ALV.Lemmas.C07Laurent

set_option linter.unusedSectionVars false

open LaurentPolynomial

namespace ALV.C07
variable {K : Type} [Field K] [DecidableEq K]

/-- the formal derivative on `K[T;T⁻¹]` -/
noncomputable def D (f : K[T;T⁻¹]) : K[T;T⁻¹] :=
  f.coeff.sum fun k c => (AddMonoidAlgebra.single (k - 1) ((k : K) * c) : K[T;T⁻¹])

theorem D_single (k : ℤ) (c : K) :
    D (AddMonoidAlgebra.single k c : K[T;T⁻¹]) = AddMonoidAlgebra.single (k - 1) ((k : K) * c) := by
  unfold D
  rw [AddMonoidAlgebra.coeff_single, Finsupp.sum_single_index]
  simp

theorem D_add (f g : K[T;T⁻¹]) : D (f + g) = D f + D g := by
  unfold D
  rw [AddMonoidAlgebra.coeff_add, Finsupp.sum_add_index']
  · intro k; simp
  · intro k c d; rw [mul_add, AddMonoidAlgebra.single_add]

theorem D_zero : D (0 : K[T;T⁻¹]) = 0 := by
  simp [D]

/-- `D` as an additive homomorphism -/
noncomputable def DHom : K[T;T⁻¹] →+ K[T;T⁻¹] where
  toFun := D
  map_zero' := D_zero
  map_add' := D_add

theorem D_neg (f : K[T;T⁻¹]) : D (-f) = -D f := (DHom (K := K)).map_neg f

theorem D_list_sum (l : List K[T;T⁻¹]) : D l.sum = (l.map D).sum := by
  induction l with
  | nil => simp [D_zero]
  | cons a t ih => simp [D_add, ih]

/-- the product rule on monomials -/
theorem D_single_mul_single (a b : ℤ) (x y : K) :
    D (AddMonoidAlgebra.single a x * AddMonoidAlgebra.single b y : K[T;T⁻¹]) =
      D (AddMonoidAlgebra.single a x) * AddMonoidAlgebra.single b y +
        AddMonoidAlgebra.single a x * D (AddMonoidAlgebra.single b y) := by
  simp only [AddMonoidAlgebra.single_mul_single, D_single]
  have e1 : a - 1 + b = a + b - 1 := by ring
  have e2 : a + (b - 1) = a + b - 1 := by ring
  rw [e1, e2, ← AddMonoidAlgebra.single_add]
  congr 1
  push_cast
  ring

/-- **Leibniz**: `D (f g) = D f · g + f · D g` -/
theorem D_mul (f g : K[T;T⁻¹]) : D (f * g) = D f * g + f * D g := by
  induction f using AddMonoidAlgebra.induction_linear with
  | zero => simp [D_zero]
  | add f₁ f₂ h₁ h₂ => rw [add_mul, D_add, h₁, h₂, D_add, add_mul, add_mul]; abel
  | single a x =>
    induction g using AddMonoidAlgebra.induction_linear with
    | zero => simp [D_zero]
    | add g₁ g₂ h₁ h₂ => rw [mul_add, D_add, h₁, h₂, D_add, mul_add, mul_add]; abel
    | single b y => exact D_single_mul_single a b x y

theorem D_C (c : K) : D (C c : K[T;T⁻¹]) = 0 := by
  rw [← single_eq_C, D_single]; simp

/-- `(D f)_k = (k+1) · f_{k+1}` -/
theorem coeff_D (f : K[T;T⁻¹]) (k : ℤ) : (D f).coeff k = ((k + 1 : ℤ) : K) * f.coeff (k + 1) := by
  induction f using AddMonoidAlgebra.induction_linear with
  | zero => simp [D_zero]
  | add f₁ f₂ h₁ h₂ => rw [D_add]; simp [h₁, h₂, mul_add]
  | single a x =>
    rw [D_single, AddMonoidAlgebra.coeff_single, AddMonoidAlgebra.coeff_single, Finsupp.single_apply,
      Finsupp.single_apply]
    by_cases h : a = k + 1
    · subst h; simp
    · have : a - 1 ≠ k := fun e => h (by omega)
      simp [h, this]

/-! ### `diff` -/

theorem toLaurent_diffList (d : MPoly K) :
    toLaurent ((d.filter (fun kv => !decide (kv.1 = 0))).map
      (fun kv => (kv.1 - 1, ofIntA kv.1 * kv.2))) = D (toLaurent d) := by
  induction d with
  | nil => simp [D_zero]
  | cons a t ih =>
    rw [List.filter_cons, toLaurent_cons, D_add, D_single, ← ih]
    by_cases h : a.1 = 0
    · simp [h]
    · simp [h, ofIntA_eq]

theorem nodup_keys_diffList {d : MPoly K} (h : (keys d).Nodup) :
    (keys ((d.filter (fun kv => !decide (kv.1 = 0))).map
      (fun kv => (kv.1 - 1, ofIntA kv.1 * kv.2)))).Nodup := by
  have h1 : (keys (d.filter (fun kv => !decide (kv.1 = 0)))).Nodup :=
    h.sublist (List.Sublist.map _ List.filter_sublist)
  have : keys ((d.filter (fun kv => !decide (kv.1 = 0))).map
      (fun kv => (kv.1 - 1, ofIntA kv.1 * kv.2))) =
      (keys (d.filter (fun kv => !decide (kv.1 = 0)))).map (fun k => k - 1) := by
    simp [keys, List.map_map, Function.comp_def]
  rw [this]
  exact h1.map (fun a b e => by omega)

theorem toLaurent_diffStep {d : MPoly K} (h : (keys d).Nodup) :
    toLaurent (diffStep d) = D (toLaurent d) := by
  unfold diffStep
  rw [ofPairs_of_nodup (nodup_keys_diffList h), toLaurent_diffList]

theorem toLaurent_iter_diffStep (n : ℕ) {d : MPoly K} (h : (keys d).Nodup) :
    toLaurent (iter diffStep n d) = D^[n] (toLaurent d) := by
  induction n generalizing d with
  | zero => rfl
  | succ n ih =>
    rw [iter, ih (nodup_keys_diffStep d), toLaurent_diffStep h, Function.iterate_succ_apply]

/-- `p.diff(n)` is the n-th formal derivative -/
theorem toLaurent_diff {p : MPoly K} (h : (keys p).Nodup) (n : ℕ) :
    toLaurent (diff p n) = D^[n] (toLaurent p) := by
  unfold diff
  rw [toLaurent_compact, toLaurent_iter_diffStep n h]

/-! ### `integrate` -/

theorem toLaurent_integList [CharZero K] (d : MPoly K) (h : (-1 : ℤ) ∉ keys d) :
    D (toLaurent (d.map (fun kv => (kv.1 + 1, kv.2 / ofIntA (kv.1 + 1))))) = toLaurent d := by
  induction d with
  | nil => simp [D_zero]
  | cons a t ih =>
    simp only [keys_cons, List.mem_cons, not_or] at h
    rw [List.map_cons, toLaurent_cons, D_add, D_single, ih h.2, toLaurent_cons, ofIntA_eq]
    have hne : ((a.1 + 1 : ℤ) : K) ≠ 0 := by
      have : a.1 + 1 ≠ 0 := fun e => h.1 (by omega)
      exact_mod_cast this
    congr 2
    · ring
    · show ((a.1 + 1 : ℤ) : K) * (a.2 / ((a.1 + 1 : ℤ) : K)) = a.2
      rw [mul_div_cancel₀ _ hne]

/-- differentiation undoes integration (characteristic 0; `integrate` refuses the power −1) -/
theorem toLaurent_diff_integrate [CharZero K] {p ip : MPoly K} (hp : (keys p).Nodup)
    (h : integrate p = .ok ip) : toLaurent (diff ip 1) = toLaurent p := by
  unfold integrate at h
  split at h
  · cases h
  · rename_i hm
    cases h
    have hm' : (-1 : ℤ) ∉ keys p := fun e => hm (has_iff.2 e)
    have hn : (keys (p.map (fun kv => (kv.1 + 1, kv.2 / ofIntA (kv.1 + 1))))).Nodup := by
      have : keys (p.map (fun kv => (kv.1 + 1, kv.2 / ofIntA (kv.1 + 1)))) =
          (keys p).map (fun k => k + 1) := by
        simp [keys, List.map_map, Function.comp_def]
      rw [this]
      exact hp.map (fun a b e => by omega)
    rw [toLaurent_diff (wf_mk _).1, Function.iterate_one, toLaurent_mk_of_nodup hn,
      toLaurent_integList p hm']

theorem integrate_error_iff (p : MPoly K) :
    integrate p = .error .value ↔ (-1 : ℤ) ∈ keys p := by
  unfold integrate
  split
  · rename_i h; simp [has_iff.1 h]
  · rename_i h
    simp only [reduceCtorEq, false_iff]
    exact fun e => h (has_iff.2 e)

end ALV.C07
