/-
  C17 — every run is finite: a ranking function `phi` over states that strictly decreases at
  every step of every thread (all schedules, any number of players, any chunk counts, any
  script, both variants of `stop()`, wait true/false).  Core Lean only.

  phi = rank of the control script's program counter
      + weight of the calls still to be issued
      + Σ players (8 · chunks still to write + rank of the player's program counter)

  One round of the `while True` loop of `close` is paid by the player it joins: a live player
  carries 8 units more than a finished one, and the program counters of the loop body count a
  finished joined player 8 units higher, so the return of `join` (only possible once the player
  is finished) can re-enter the loop head.  That the loop head then finds a *live* player (the
  head of `_threads` is never a finished thread) is the invariant `TH` below.
-/
import ALV.Lemmas.C17Locks
namespace ALV.C17

/-! ### shape of a player step -/

def prank : PPc → Nat
  | .new => 20 | .begin => 19 | .isSet => 18 | .stopStream => 17 | .goWait => 16
  | .startStream => 15 | .write => 14 | .finAcq => 13 | .closeStream => 12 | .tfAcq => 11
  | .tfRel => 10 | .finRel => 9 | .done => 0

theorem playChunks_length_le (cs : Nat) (a : List Int) (f : Bool) :
    (playChunks cs a f).length ≤ (chunksOf cs a).length := by
  unfold playChunks
  split
  · exact List.length_take_le' _ _
  · exact Nat.le_refl _

/-- rank of one player: a loop round consumes one chunk -/
def pm (p : Player) : Nat := p.todo.length * 8 + prank p.pc

/-- what a player step changes, as far as liveness is concerned -/
theorem stepPlayer_shape (cfg : Cfg) (s s' : State) (i : Nat) (h : stepPlayer cfg s i = some s') :
    ∃ p p', s.players[i]? = some p ∧ s'.players = s.players.set i p' ∧
      p'.go = p.go ∧ p'.halting = p.halting ∧ p.pc ≠ .new ∧ p'.pc ≠ .new ∧
      pm p' + (if p'.pc = .done then 9 else 1) ≤ pm p := by
  unfold stepPlayer at h
  split at h
  · cases h
  · rename_i p hp
    simp only at h
    cases hpcv : p.pc <;> simp only [hpcv] at h <;> (try split at h) <;> (try cases h) <;> (try split at h) <;> (try cases h) <;>
      (refine ⟨p, _, hp, rfl, rfl, rfl, by simp [hpcv], ?_, ?_⟩) <;>
      (rcases loopHead_cases p with ⟨ht, hl⟩ | ⟨ht, hl⟩) <;>
      (try split) <;> simp_all [pm, prank] <;> omega

/-! ### the threads list: no duplicates, only live (or just opened) players -/

structure TH (s : State) : Prop where
  nodup : s.threads.Nodup
  live : ∀ i, i ∈ s.threads → ∃ p, s.players[i]? = some p ∧ (inThreads p.pc = true ∨ s.mpc = .pStart i)

theorem th_init (script : List Cmd) : TH (init script) := by
  constructor <;> simp [init]

theorem getElem?_set_cases {α} {l : List α} {i k : Nat} {a b : α} (h : (l.set i a)[k]? = some b) :
    (k = i ∧ b = a) ∨ (k ≠ i ∧ l[k]? = some b) := by
  rw [List.getElem?_set] at h
  split at h
  · split at h
    · cases h; exact Or.inl ⟨by omega, rfl⟩
    · cases h
  · exact Or.inr ⟨by omega, h⟩

theorem getElem?_set_self' {α} {l : List α} {i : Nat} {a b : α} (h : l[i]? = some b) :
    (l.set i a)[i]? = some a := by
  have := lt_of_getElem? h
  simp [this]

theorem getElem?_set_ne' {α} {l : List α} {i k : Nat} {a : α} (h : k ≠ i) :
    (l.set i a)[k]? = l[k]? := by
  rw [List.getElem?_set]; split
  · omega
  · rfl

/-- `live` after one record was replaced (threads unchanged or a sub-list) -/
theorem live_set {s : State} {i : Nat} {p p' : Player} {th' : List Nat}
    (old : ∀ k, k ∈ s.threads → ∃ q, s.players[k]? = some q ∧ (inThreads q.pc = true ∨ s.mpc = .pStart k))
    (hp : s.players[i]? = some p) (hsub : ∀ k, k ∈ th' → k ∈ s.threads)
    (hi : i ∈ th' → inThreads p'.pc = true ∨ s.mpc = .pStart i) :
    ∀ k, k ∈ th' → ∃ q, (s.players.set i p')[k]? = some q ∧ (inThreads q.pc = true ∨ s.mpc = .pStart k) := by
  intro k hk
  by_cases hki : k = i
  · subst hki; exact ⟨p', getElem?_set_self' hp, hi hk⟩
  · obtain ⟨q, hq, hq2⟩ := old k (hsub k hk)
    exact ⟨q, by rw [getElem?_set_ne' hki]; exact hq, hq2⟩

theorem th_stepPlayer (cfg : Cfg) (s s' : State) (i : Nat) (h : stepPlayer cfg s i = some s')
    (inv : TH s) : TH s' := by
  obtain ⟨n1, n2⟩ := inv
  unfold stepPlayer at h
  split at h
  · cases h
  · rename_i p hp
    simp only at h
    by_cases htf : p.pc = .tfAcq
    · simp only [htf] at h
      split at h
      · cases h
      cases h
      refine ⟨by simpa [setP] using n1.erase i, ?_⟩
      simp only [setP]
      refine live_set n2 hp (fun k hk => List.mem_of_mem_erase hk) ?_
      intro hin
      exact absurd hin (List.Nodup.not_mem_erase n1)
    · cases hpcv : p.pc <;> simp only [hpcv] at h <;> (try exact absurd hpcv htf) <;>
        (try split at h) <;> (try cases h) <;> (try split at h) <;> (try cases h) <;>
      (refine ⟨by simpa [setP] using n1, ?_⟩
       simp only [setP]
       refine live_set n2 hp (fun _ h => h) ?_
       intro hin
       obtain ⟨q, hq, hq2⟩ := n2 i hin
       rw [hp] at hq; cases hq
       rcases loopHead_cases p with ⟨ht, hl⟩ | ⟨ht, hl⟩ <;> (try split) <;>
         simp_all [inThreads])

/-- every existing player record keeps its program counter -/
def PcPres (l l' : List Player) : Prop :=
  ∀ (k : Nat) (q : Player), l[k]? = some q → ∃ q', l'[k]? = some q' ∧ q'.pc = q.pc

theorem pcPres_refl (l : List Player) : PcPres l l := fun _ q h => ⟨q, h, rfl⟩

theorem pcPres_set {l : List Player} {i : Nat} {p p' : Player} (hp : l[i]? = some p)
    (hpc : p'.pc = p.pc) : PcPres l (l.set i p') := by
  intro k q hk
  by_cases hki : k = i
  · subst hki; rw [hp] at hk; cases hk; exact ⟨p', getElem?_set_self' hp, hpc⟩
  · exact ⟨q, by rw [getElem?_set_ne' hki]; exact hk, rfl⟩

theorem pcPres_append (l : List Player) (p' : Player) : PcPres l (l ++ [p']) := by
  intro k q hk
  exact ⟨q, by rw [List.getElem?_append_left (lt_of_getElem? hk)]; exact hk, rfl⟩

theorem th_frame {s s' : State} (inv : TH s) (ht : s'.threads = s.threads)
    (hp : PcPres s.players s'.players) (hm : ∀ i, s.mpc ≠ .pStart i) : TH s' := by
  refine ⟨by rw [ht]; exact inv.nodup, ?_⟩
  intro i hi
  rw [ht] at hi
  obtain ⟨q, hq, hq2⟩ := inv.live i hi
  obtain ⟨q', hq', hpc⟩ := hp i q hq
  refine ⟨q', hq', Or.inl ?_⟩
  rcases hq2 with h | h
  · rw [hpc]; exact h
  · exact absurd h (hm i)

theorem th_stepMain (cfg : Cfg) (s s' : State) (h : stepMain cfg s = some s')
    (si : SI s) (inv : TH s) : TH s' := by
  have hcreat := si.g.creat
  unfold stepMain at h
  cases hm : s.mpc <;> simp only [hm] at h
  case pOpen i =>
    split at h
    · rename_i p hp
      cases h
      have hnew : p.pc = .new := by
        have := hcreat i (by rw [hm]; rfl); rw [pcAt_of_get hp] at this; simpa using this
      have hnin : i ∉ s.threads := by
        intro hin
        obtain ⟨q, hq, hq2⟩ := inv.live i hin
        rw [hp] at hq; cases hq
        rw [hnew, hm] at hq2; simp [inThreads] at hq2
      refine ⟨?_, ?_⟩
      · show (s.threads ++ [i]).Nodup
        rw [List.nodup_append]
        refine ⟨inv.nodup, by simp, ?_⟩
        intro a ha b hb
        simp at hb; subst hb
        intro e; subst e; exact hnin ha
      · intro k hk
        have hk' : k ∈ s.threads ∨ k = i := by simpa [setP] using hk
        by_cases hki : k = i
        · subst hki
          exact ⟨_, by simp only [setP]; exact getElem?_set_self' hp, Or.inr rfl⟩
        · rcases hk' with hk' | hk'
          · obtain ⟨q, hq, hq2⟩ := inv.live k hk'
            refine ⟨q, by simp only [setP]; rw [getElem?_set_ne' hki]; exact hq, Or.inl ?_⟩
            rcases hq2 with h2 | h2
            · exact h2
            · rw [hm] at h2; cases h2
          · exact absurd hk' hki
    · cases h
  case pStart i =>
    split at h
    · rename_i p hp
      cases h
      refine ⟨by simpa [setP] using inv.nodup, ?_⟩
      intro k hk
      have hk' : k ∈ s.threads := by simpa [setP] using hk
      by_cases hki : k = i
      · subst hki
        exact ⟨_, by simp only [setP]; exact getElem?_set_self' hp, Or.inl rfl⟩
      · obtain ⟨q, hq, hq2⟩ := inv.live k hk'
        refine ⟨q, by simp only [setP]; rw [getElem?_set_ne' hki]; exact hq, Or.inl ?_⟩
        rcases hq2 with h2 | h2
        · exact h2
        · rw [hm] at h2; cases h2; exact absurd rfl hki
    · cases h
  all_goals
    (try split at h) <;> (try split at h) <;> (try split at h) <;> (try cases h) <;>
    (refine th_frame inv (by simp [setP]) ?_ (by simp [hm])
     first
       | (simp only [next_players, nextCmd_players, setP]
          first
            | exact pcPres_refl _
            | exact pcPres_append _ _
            | exact pcPres_set (by assumption) (by rfl)))

theorem th_reach {cfg : Cfg} {script : List Cmd} {s : State} (h : Reach cfg script s) : TH s := by
  induction h with
  | init => exact th_init script
  | step hr hs ih =>
    rename_i s s' t
    cases t with
    | main => exact th_stepMain cfg s s' hs (si_reach hr) ih
    | player i => exact th_stepPlayer cfg s s' i hs ih

/-- the head of `_threads` is never a finished thread -/
theorem head_not_done {cfg : Cfg} {script : List Cmd} {s : State} (h : Reach cfg script s)
    (i : Nat) (hi : s.threads.head? = some i) : isDone s i = false := by
  have hmem : i ∈ s.threads := by
    cases ht : s.threads with
    | nil => rw [ht] at hi; cases hi
    | cons a l => rw [ht] at hi; simp at hi; subst hi; simp
  obtain ⟨q, hq, hq2⟩ := (th_reach h).live i hmem
  have hnew := (si_reach h).g.creat
  have hnd : q.pc ≠ .done := by
    rcases hq2 with h2 | h2
    · intro e; rw [e] at h2; cases h2
    · have := hnew i (by rw [h2]; rfl)
      rw [pcAt_of_get hq] at this
      simp at this; rw [this]; simp
  simp [isDone, hq, hnd]

/-! ### the ranking function -/

def psum : List Player → Nat
  | [] => 0
  | p :: l => pm p + psum l

theorem psum_append (l : List Player) (p : Player) : psum (l ++ [p]) = psum l + pm p := by
  induction l with
  | nil => simp [psum]
  | cons a l ih => simp only [List.cons_append, psum, ih]; omega

theorem psum_set : ∀ (l : List Player) (i : Nat) (p p' : Player), l[i]? = some p →
    psum (l.set i p') + pm p = psum l + pm p' := by
  intro l
  induction l with
  | nil => intro i p p' h; simp at h
  | cons a l ih =>
    intro i p p' h
    cases i with
    | zero => simp at h; subst h; simp only [List.set_cons_zero, psum]; omega
    | succ i =>
      simp only [List.getElem?_cons_succ] at h
      have := ih i p p' h
      simp only [List.set_cons_succ, psum]; omega

/-- rank of the control script's program counter; `d i` = "player i is finished" -/
def mrankAux (cfg : Cfg) (d : Nat → Bool) : MPc → Nat
  | .begin => 1
  | .done => 0
  | .pAcq a c => 6 + ((chunksOf c a).length * 8 + 20)
  | .pRaiseRel => 1
  | .pGoSet _ => 4
  | .pOpen _ => 3
  | .pStart _ => 2
  | .pRel => 1
  | .cAcq _ _ => 3
  | .cEvt _ _ => 2
  | .cRel _ _ => 1
  | .jJoin _ => 1
  | .kHAcq => 11
  | .kMAcq => 10
  | .kMRel none => 4
  | .kMRel (some i) => 9 + (if d i then 8 else 0)
  | .kSAcq i => 8 + (if d i then 8 else 0)
  | .kSEvt i => 7 + (if d i then 8 else 0)
  | .kSRel i => 6 + (if d i then 8 else 0)
  | .kJoin i => 5 + (if d i then 8 else 0)
  | .kTerm => 2
  | .kAssertRel => 1
  | .kHRel _ => 1

def mrank (cfg : Cfg) (s : State) : Nat := mrankAux cfg (isDone s) s.mpc

/-- weight of a call still to be issued -/
def cw (cfg : Cfg) : Cmd → Nat
  | .play a c => 7 + ((chunksOf c a).length * 8 + 20)
  | .ctl _ _ => 4
  | .join _ => 2
  | .close => 12

def wsum (cfg : Cfg) : List Cmd → Nat
  | [] => 0
  | c :: l => cw cfg c + wsum cfg l

def phi (cfg : Cfg) (s : State) : Nat := mrank cfg s + wsum cfg s.script + psum s.players

theorem mrankAux_mono (cfg : Cfg) (d d' : Nat → Bool) (m : MPc)
    (h : ∀ j, d' j = true → d j = true) : mrankAux cfg d' m ≤ mrankAux cfg d m := by
  cases m <;> simp only [mrankAux, Nat.le_refl]
  all_goals first
    | (rename_i f; cases f <;> simp only [mrankAux, Nat.le_refl]
       rename_i j; cases hd : d' j <;> simp [h j, hd])
    | (rename_i j; cases hd : d' j <;> simp [h j, hd])

theorem mrankAux_le (cfg : Cfg) (d d' : Nat → Bool) (m : MPc) :
    mrankAux cfg d' m ≤ mrankAux cfg d m + 8 := by
  cases m <;> simp only [mrankAux] <;> (try omega)
  all_goals first
    | (rename_i f; cases f <;> simp only [mrankAux] <;> (try omega)
       rename_i j; cases d' j <;> cases d j <;> simp)
    | (rename_i j; cases d' j <;> cases d j <;> simp)

theorem nextCmd_script_phi (cfg : Cfg) (sc : List Cmd) : ∀ (X : State),
    mrank cfg (nextCmd X sc) + wsum cfg (nextCmd X sc).script ≤ wsum cfg sc := by
  induction sc with
  | nil => intro X; simp [nextCmd, mrank, mrankAux, wsum]
  | cons c rest ih =>
    intro X
    cases c with
    | play a => simp only [nextCmd, mrank, mrankAux, wsum, cw]; omega
    | close => simp only [nextCmd, mrank, mrankAux, wsum, cw]; omega
    | ctl k i =>
      simp only [nextCmd]; split
      · simp only [mrank, mrankAux, wsum, cw]; omega
      · have := ih { X with log := X.log ++ [.skipped] }
        simp only [wsum, cw]; omega
    | join i =>
      simp only [nextCmd]; split
      · simp only [mrank, mrankAux, wsum, cw]; omega
      · have := ih { X with log := X.log ++ [.skipped] }
        simp only [wsum, cw]; omega

theorem phi_nextCmd (cfg : Cfg) (X : State) (sc : List Cmd) :
    phi cfg (nextCmd X sc) ≤ wsum cfg sc + psum X.players := by
  have := nextCmd_script_phi cfg sc X
  unfold phi; rw [nextCmd_players]; omega

theorem phi_next (cfg : Cfg) (X : State) (e : Ev) :
    phi cfg (X.next e) ≤ wsum cfg X.script + psum X.players := by
  unfold State.next
  exact phi_nextCmd cfg _ _

theorem isDone_set {s s' : State} {i : Nat} {p p' : Player} (hp : s.players[i]? = some p)
    (hs : s'.players = s.players.set i p') (j : Nat) :
    isDone s' j = if j = i then p'.pc == .done else isDone s j := by
  unfold isDone
  rw [hs]
  by_cases hji : j = i
  · subst hji; rw [getElem?_set_self' hp]; simp
  · rw [getElem?_set_ne' hji]; simp only [hji, if_false]

theorem phi_stepPlayer (cfg : Cfg) (s s' : State) (i : Nat) (h : stepPlayer cfg s i = some s') :
    phi cfg s' < phi cfg s := by
  obtain ⟨p, p', hp, hs', _, _, _, _, hpm⟩ := stepPlayer_shape cfg s s' i h
  obtain ⟨hm, hsc, _⟩ := stepPlayer_frame cfg s s' i h
  have hsum := psum_set s.players i p p' hp
  unfold phi
  rw [hsc, hs']
  have hd : ∀ j, isDone s' j = if j = i then p'.pc == .done else isDone s j := by
    intro j; exact isDone_set hp hs' j
  by_cases hdone : p'.pc = .done
  · have : mrank cfg s' ≤ mrank cfg s + 8 := by
      unfold mrank; rw [hm]; exact mrankAux_le cfg _ _ _
    simp only [hdone, if_true] at hpm
    omega
  · have : mrank cfg s' ≤ mrank cfg s := by
      unfold mrank; rw [hm]
      apply mrankAux_mono
      intro j hj
      rw [hd j] at hj
      split at hj
      · simp [hdone] at hj
      · exact hj
    simp only [hdone, if_false] at hpm
    omega

theorem isDone_same {s s' : State} {i : Nat} {p p' : Player} (hp : s.players[i]? = some p)
    (hs : s'.players = s.players.set i p') (hpc : p'.pc = p.pc) : isDone s' = isDone s := by
  funext j
  rw [isDone_set hp hs j]
  split
  · rename_i hji; subst hji; simp [isDone, hp, hpc]
  · rfl

theorem isDone_players {s s' : State} (hs : s'.players = s.players) : isDone s' = isDone s := by
  funext j; unfold isDone; rw [hs]

/-- a step of the control script that replaces one player record by one of the same rank and
    the same program counter -/
theorem phi_main_set {cfg : Cfg} {s s' : State} {i : Nat} {p p' : Player}
    (hp : s.players[i]? = some p) (hs : s'.players = s.players.set i p') (hpc : p'.pc = p.pc)
    (htodo : p'.todo = p.todo) (hsc : s'.script = s.script)
    (hr : mrankAux cfg (isDone s) s'.mpc < mrankAux cfg (isDone s) s.mpc) :
    phi cfg s' < phi cfg s := by
  have hsum := psum_set s.players i p p' hp
  have hpm : pm p' = pm p := by simp [pm, hpc, htodo]
  unfold phi mrank
  rw [isDone_same hp hs hpc, hsc, hs]
  omega

theorem phi_main_same {cfg : Cfg} {s s' : State}
    (hs : s'.players = s.players) (hsc : s'.script = s.script)
    (hr : mrankAux cfg (isDone s) s'.mpc < mrankAux cfg (isDone s) s.mpc) :
    phi cfg s' < phi cfg s := by
  unfold phi mrank
  rw [isDone_players hs, hsc, hs]
  omega

theorem phi_main_next {cfg : Cfg} {s X : State} (e : Ev)
    (hs : psum X.players = psum s.players) (hsc : X.script = s.script)
    (hr : 1 ≤ mrank cfg s) : phi cfg (X.next e) < phi cfg s := by
  have := phi_next cfg X e
  rw [hs, hsc] at this
  unfold phi at this ⊢
  omega

theorem phi_stepMain (cfg : Cfg) (s s' : State) (h : stepMain cfg s = some s')
    (hcreat : ∀ i, creating s.mpc = some i → pcAt s i = some .new)
    (hhead : ∀ i, s.threads.head? = some i → isDone s i = false) : phi cfg s' < phi cfg s := by
  unfold stepMain at h
  cases hm : s.mpc <;> simp only [hm] at h
  case begin =>
    cases h
    have := phi_nextCmd cfg s s.script
    unfold phi at this ⊢
    unfold mrank at this ⊢
    simp only [hm, mrankAux] at this ⊢
    omega
  case done => cases h
  case pAcq a =>
    split at h
    · cases h
    split at h
    · cases h
      exact phi_main_same rfl rfl (by simp only [hm, mrankAux]; omega)
    · cases h
      unfold phi mrank
      simp only [hm, mrankAux, psum_append, pm, prank]
      rename_i audio _ _
      have := playChunks_length_le a audio (cfg.fails.getD s.players.length false)
      omega
  case pRaiseRel =>
    cases h; exact phi_main_next _ rfl rfl (by simp [mrank, hm, mrankAux])
  case pRel =>
    cases h; exact phi_main_next _ rfl rfl (by simp [mrank, hm, mrankAux])
  case jJoin i =>
    split at h
    · cases h; exact phi_main_next _ rfl rfl (by simp [mrank, hm, mrankAux])
    · cases h
  case kAssertRel =>
    cases h; exact phi_main_next _ rfl rfl (by simp [mrank, hm, mrankAux])
  case kHRel b =>
    cases h; exact phi_main_next _ rfl rfl (by simp [mrank, hm, mrankAux])
  case cRel k i =>
    split at h
    · rename_i p hp
      cases h
      refine phi_main_next _ ?_ rfl (by simp [mrank, hm, mrankAux])
      have := psum_set s.players i p { p with lk := none } hp
      simp only [setP]
      have hpm : pm { p with lk := none } = pm p := rfl
      omega
    · cases h
  case pGoSet i =>
    split at h
    · rename_i p hp
      cases h
      exact phi_main_set hp rfl rfl rfl rfl (by simp [hm, mrankAux])
    · cases h
  case pOpen i =>
    split at h
    · rename_i p hp
      cases h
      exact phi_main_set hp rfl rfl rfl rfl (by simp [hm, mrankAux])
    · cases h
  case pStart i =>
    split at h
    · rename_i p hp
      cases h
      have hnew : p.pc = .new := by
        have := hcreat i (by rw [hm]; rfl); rw [pcAt_of_get hp] at this; simpa using this
      have hsum := psum_set s.players i p { p with pc := .begin } hp
      have hpm : pm { p with pc := .begin } + 1 = pm p := by simp [pm, prank, hnew]
      unfold phi mrank
      simp only [hm, mrankAux, setP]
      omega
    · cases h
  case cAcq k i =>
    split at h
    · rename_i p hp
      split at h
      · cases h
      cases h
      exact phi_main_set hp rfl rfl rfl rfl (by simp [hm, mrankAux])
    · cases h
  case cEvt k i =>
    split at h
    · rename_i p hp
      cases h
      exact phi_main_set hp rfl rfl rfl rfl (by simp [hm, mrankAux])
    · cases h
  case kHAcq =>
    split at h
    · cases h
    split at h <;> cases h <;> exact phi_main_same rfl rfl (by simp [hm, mrankAux])
  case kMAcq =>
    split at h
    · cases h
    cases h
    refine phi_main_same rfl rfl ?_
    simp only [hm, mrankAux]
    cases hh : s.threads.head? with
    | none => simp
    | some i => simp [hhead i hh]
  case kMRel f =>
    cases f with
    | none =>
      simp only at h
      split at h <;> cases h <;> exact phi_main_same rfl rfl (by simp [hm, mrankAux])
    | some i =>
      simp only at h
      cases h
      refine phi_main_same rfl rfl ?_
      simp only [hm, mrankAux]
      cases cfg.wait <;> cases hd : isDone s i <;> simp [hd]
  case kSAcq i =>
    split at h
    · rename_i p hp
      split at h
      · cases h
      cases h
      exact phi_main_set hp rfl rfl rfl rfl (by simp only [hm, mrankAux]; omega)
    · cases h
  case kSEvt i =>
    split at h
    · rename_i p hp
      cases h
      exact phi_main_set hp rfl rfl rfl rfl (by simp only [hm, mrankAux]; omega)
    · cases h
  case kSRel i =>
    split at h
    · rename_i p hp
      cases h
      exact phi_main_set hp rfl rfl rfl rfl (by simp only [hm, mrankAux]; omega)
    · cases h
  case kJoin i =>
    split at h
    · rename_i hd
      cases h
      exact phi_main_same rfl rfl (by simp [hm, mrankAux, hd])
    · cases h
  case kTerm =>
    cases h; exact phi_main_same rfl rfl (by simp [hm, mrankAux])

/-- **every step of every thread decreases the rank** (reachable states) -/
theorem phi_step {cfg : Cfg} {script : List Cmd} {s s' : State} {t : Tid}
    (hr : Reach cfg script s) (h : step cfg s t = some s') : phi cfg s' < phi cfg s := by
  cases t with
  | main => exact phi_stepMain cfg s s' h (si_reach hr).g.creat (head_not_done hr)
  | player i => exact phi_stepPlayer cfg s s' i h

theorem reach_runSched {cfg : Cfg} {script : List Cmd} : ∀ (sched : List Tid) {s : State},
    Reach cfg script s → Reach cfg script (runSched cfg s sched).1 := by
  intro sched
  induction sched with
  | nil => intro s hr; exact hr
  | cons t ts ih =>
    intro s hr
    unfold runSched
    cases hs : step cfg s t with
    | none => exact hr
    | some s' => exact ih (Reach.step hr hs)

/-- a schedule that was executed to its end is no longer than the rank it consumed -/
theorem runSched_phi {cfg : Cfg} {script : List Cmd} : ∀ (sched : List Tid) {s : State},
    Reach cfg script s → (runSched cfg s sched).2 = [] →
    sched.length + phi cfg (runSched cfg s sched).1 ≤ phi cfg s := by
  intro sched
  induction sched with
  | nil => intro s _ _; simp [runSched]
  | cons t ts ih =>
    intro s hr hfull
    unfold runSched at hfull ⊢
    cases hs : step cfg s t with
    | none => rw [hs] at hfull; cases hfull
    | some s' =>
      rw [hs] at hfull
      simp only
      have h1 := ih (Reach.step hr hs) hfull
      have h2 := phi_step hr hs
      simp only [List.length_cons]
      omega

/-- the bound: rank of the initial state, a function of the script and the chunk size only -/
def stepBound (cfg : Cfg) (script : List Cmd) : Nat := phi cfg (init script)

theorem stepBound_eq (cfg : Cfg) (script : List Cmd) : stepBound cfg script = 1 + wsum cfg script := by
  simp [stepBound, phi, mrank, mrankAux, init, psum]

end ALV.C17
