/-
  C11 — helper lemmas, part 4: the converse of Schur–Cohn (all poles inside ⇒ all |k| < 1) for
  orders 1 and 2, by exhibiting the roots (quadratic formula with `Real.sqrt`).
-/
import ALV.Lemmas.C11Schur
import Mathlib.Analysis.Real.Sqrt

set_option linter.unusedSectionVars false
set_option linter.unusedVariables false

namespace ALV.C11
open Complex

theorem sq_lt_one_bounds (x : ℝ) (h : x * x < 1) : -1 < x ∧ x < 1 := by
  constructor <;> nlinarith

/-- order 1: the verdict computed -/
theorem stableSpec_order1 (a0 a1 : ℝ) (h0 : a0 ≠ 0) (h1 : a1 ≠ 0) :
    parcorStableSpec [a0, a1] = true ↔ -1 < a1 / a0 ∧ a1 / a0 < 1 := by
  have hs : stripZeros [a0, a1] = [a0, a1] := by simp [stripZeros, h1]
  rw [parcorStableSpec_true_iff]
  unfold parcorSpec
  rw [hs, monic_cons a0 _ h0]
  simp only [List.map_cons, List.map_nil, List.length_cons, List.length_nil, Nat.add_sub_cancel,
    zero_add, sdLoop_succ]
  have hl : ([1, a1 / a0] : List ℝ).getLastD 0 = a1 / a0 := by simp
  rw [hl]
  by_cases hk : a1 / a0 * (a1 / a0) = 1
  · rw [if_pos hk]
    simp only [Bool.true_eq_false, false_and, false_iff, not_and, not_lt]
    intro h; nlinarith
  · rw [if_neg hk]
    simp [sdLoop]

/-- order 1: all poles inside ⇒ stable verdict -/
theorem order1_converse (a0 a1 : ℝ) (h0 : a0 ≠ 0) (h1 : a1 ≠ 0)
    (h : ∀ z : ℂ, evalC [a1, a0] z = 0 → normSq z < 1) : parcorStableSpec [a0, a1] = true := by
  rw [stableSpec_order1 a0 a1 h0 h1]
  have hz := h ((-(a1 / a0) : ℝ) : ℂ) (by
    simp only [evalC_cons, evalC_nil]
    rw [mul_zero, add_zero, ← ofReal_mul, ← ofReal_add, ← ofReal_zero, ofReal_inj]
    field_simp
    ring)
  rw [normSq_ofReal] at hz
  exact sq_lt_one_bounds _ (by nlinarith)

/-- the stability triangle from the roots of `z² + b1 z + b2` -/
theorem triangle_of_roots (b1 b2 : ℝ)
    (h : ∀ z : ℂ, z * z + (b1 : ℂ) * z + (b2 : ℂ) = 0 → normSq z < 1) :
    -1 < b2 ∧ b2 < 1 ∧ b1 < 1 + b2 ∧ -b1 < 1 + b2 := by
  by_cases hD : 0 ≤ b1 * b1 - 4 * b2
  · -- two real roots
    set s := Real.sqrt (b1 * b1 - 4 * b2) with hs
    have hs0 : 0 ≤ s := Real.sqrt_nonneg _
    have hss : s * s = b1 * b1 - 4 * b2 := Real.mul_self_sqrt hD
    have hp := h (((-b1 + s) / 2 : ℝ) : ℂ) (by
      rw [← ofReal_mul, ← ofReal_mul, ← ofReal_add, ← ofReal_add, ← ofReal_zero, ofReal_inj]
      nlinarith)
    have hm := h (((-b1 - s) / 2 : ℝ) : ℂ) (by
      rw [← ofReal_mul, ← ofReal_mul, ← ofReal_add, ← ofReal_add, ← ofReal_zero, ofReal_inj]
      nlinarith)
    rw [normSq_ofReal] at hp hm
    obtain ⟨hp1, hp2⟩ := sq_lt_one_bounds _ hp
    obtain ⟨hm1, hm2⟩ := sq_lt_one_bounds _ hm
    set xp := (-b1 + s) / 2 with hxp
    set xm := (-b1 - s) / 2 with hxm
    have hb1 : b1 = -(xp + xm) := by rw [hxp, hxm]; ring
    have hb2 : b2 = xp * xm := by rw [hxp, hxm]; nlinarith
    rw [hb1, hb2]
    refine ⟨by nlinarith, by nlinarith, by nlinarith, by nlinarith⟩
  · -- a conjugate pair
    have hD' : 0 < 4 * b2 - b1 * b1 := by linarith
    set s := Real.sqrt (4 * b2 - b1 * b1) with hs
    have hs0 : 0 ≤ s := Real.sqrt_nonneg _
    have hss : s * s = 4 * b2 - b1 * b1 := Real.mul_self_sqrt hD'.le
    have hz := h ⟨-b1 / 2, s / 2⟩ (by
      apply Complex.ext
      · simp only [add_re, mul_re, ofReal_re, ofReal_im, zero_re]; nlinarith
      · simp only [add_im, mul_im, ofReal_re, ofReal_im, zero_im]; ring)
    rw [normSq_mk] at hz
    have hb2 : b2 < 1 := by nlinarith
    have hb2' : 0 < b2 := by nlinarith [mul_self_nonneg b1]
    refine ⟨by linarith, hb2, ?_, ?_⟩ <;> nlinarith [mul_self_nonneg (1 - b2), mul_self_nonneg b1]

/-- order 2: inside the stability triangle the verdict is `true` -/
theorem stableSpec_order2 (a0 a1 a2 : ℝ) (h0 : a0 ≠ 0) (h2 : a2 ≠ 0)
    (hb : -1 < a2 / a0 ∧ a2 / a0 < 1 ∧ a1 / a0 < 1 + a2 / a0 ∧ -(a1 / a0) < 1 + a2 / a0) :
    parcorStableSpec [a0, a1, a2] = true := by
  obtain ⟨hb1, hb2, hb3, hb4⟩ := hb
  set b1 := a1 / a0 with hb1d
  set b2 := a2 / a0 with hb2d
  have hs : stripZeros [a0, a1, a2] = [a0, a1, a2] := by simp [stripZeros, h2]
  have hk2 : ¬ b2 * b2 = 1 := by intro h; nlinarith
  have hden : (1 : ℝ) - b2 * b2 ≠ 0 := by intro h; apply hk2; linarith
  have hpos : 0 < 1 + b2 := by linarith
  have hk1v : (b1 - b2 * b1) / (1 - b2 * b2) = b1 / (1 + b2) := by
    rw [div_eq_div_iff hden hpos.ne']; ring
  have hk1a : -1 < b1 / (1 + b2) := by rw [lt_div_iff₀ hpos]; linarith
  have hk1b : b1 / (1 + b2) < 1 := by rw [div_lt_iff₀ hpos]; linarith
  have hk1 : ¬ b1 / (1 + b2) * (b1 / (1 + b2)) = 1 := by intro h; nlinarith
  rw [parcorStableSpec_true_iff]
  unfold parcorSpec
  rw [hs, monic_cons a0 _ h0]
  simp only [List.map_cons, List.map_nil, List.length_cons, List.length_nil, Nat.add_sub_cancel,
    zero_add]
  rw [← hb1d, ← hb2d, sdLoop_succ]
  have hl : ([1, b1, b2] : List ℝ).getLastD 0 = b2 := by simp
  rw [hl, if_neg hk2]
  have hsd : stepDown1 [1, b1, b2] b2 = [(1 - b2 * b2) / (1 - b2 * b2), b1 / (1 + b2)] := by
    simp [stepDown1, hk1v]
  rw [hsd, sdLoop_succ]
  have hl2 : ([(1 - b2 * b2) / (1 - b2 * b2), b1 / (1 + b2)] : List ℝ).getLastD 0 = b1 / (1 + b2) := by
    simp
  rw [hl2, if_neg hk1]
  simp only [sdLoop, List.mem_cons, List.not_mem_nil, or_false, forall_eq_or_imp, forall_eq, true_and]
  exact ⟨⟨hb1, hb2⟩, hk1a, hk1b⟩

/-- order 2: all poles inside ⇒ stable verdict -/
theorem order2_converse (a0 a1 a2 : ℝ) (h0 : a0 ≠ 0) (h2 : a2 ≠ 0)
    (h : ∀ z : ℂ, evalC [a2, a1, a0] z = 0 → normSq z < 1) : parcorStableSpec [a0, a1, a2] = true := by
  apply stableSpec_order2 a0 a1 a2 h0 h2
  apply triangle_of_roots
  intro z hz
  apply h
  have h0c : (a0 : ℂ) ≠ 0 := by exact_mod_cast h0
  simp only [evalC_cons, evalC_nil]
  have : (a2 : ℂ) + z * ((a1 : ℂ) + z * ((a0 : ℂ) + z * 0))
      = (a0 : ℂ) * (z * z + ((a1 / a0 : ℝ) : ℂ) * z + ((a2 / a0 : ℝ) : ℂ)) := by
    push_cast
    field_simp
    ring
  rw [this, hz, mul_zero]

end ALV.C11
