/-
  C03 — raising elements with copies: the heap model of `Model/C03X.lean` refines the specification of
  `Spec/C03XC.lean` under the abstraction `XIt.abs` that replaces every iterator without tee leaves —
  in the pool, under a wrapper, as the source of a tee — by the list of events it denotes (`xden`).
-/
import ALV.Lemmas.C03X
import ALV.Spec.C03XC
namespace ALV.C03
variable {α : Type}

def SIt.isEvs : SIt α → Bool
  | .evs _ => true
  | _ => false

/-- the abstraction: lists of events wherever nothing is shared -/
def XIt.abs : XIt α → SIt α
  | .src es => .evs es
  | .map g it => it.abs.mapS g
  | .filter p it => it.abs.filterS p
  | .chain a b => a.abs.chainS b.abs
  | .islice n it => it.abs.isliceS n
  | .skipper n it => it.abs.skipperS n
  | .tee k pos => .view k pos

def absHub (hb : XHub α) : SHub α := ⟨hb.parent.abs, hb.buf⟩
def absH (h : XHeap α) : SHeap α := h.map absHub
def XSt.abs (st : XSt α) : SSt α := ⟨absH st.heap, st.pool.map (Option.map XIt.abs)⟩

theorem mapS_isEvs (g : α → Ev α) (t : SIt α) : (t.mapS g).isEvs = t.isEvs := by cases t <;> rfl
theorem filterS_isEvs (p : α → Ev Bool) (t : SIt α) : (t.filterS p).isEvs = t.isEvs := by cases t <;> rfl
theorem isliceS_isEvs (n : Nat) (t : SIt α) : (t.isliceS n).isEvs = t.isEvs := by cases t <;> rfl
theorem skipperS_isEvs (n : Nat) (t : SIt α) : (t.skipperS n).isEvs = t.isEvs := by cases t <;> rfl
theorem chainS_isEvs (a b : SIt α) : (a.chainS b).isEvs = (a.isEvs && b.isEvs) := by
  cases a <;> cases b <;> rfl

theorem abs_isEvs : ∀ it : XIt α, it.abs.isEvs = it.teeFree
  | .src _ => rfl
  | .tee _ _ => rfl
  | .map g it => by simp [XIt.abs, mapS_isEvs, XIt.teeFree, abs_isEvs it]
  | .filter p it => by simp [XIt.abs, filterS_isEvs, XIt.teeFree, abs_isEvs it]
  | .islice n it => by simp [XIt.abs, isliceS_isEvs, XIt.teeFree, abs_isEvs it]
  | .skipper n it => by simp [XIt.abs, skipperS_isEvs, XIt.teeFree, abs_isEvs it]
  | .chain a b => by simp [XIt.abs, chainS_isEvs, XIt.teeFree, abs_isEvs a, abs_isEvs b]

/-- without tee leaves the abstraction is the list of events -/
theorem abs_free : ∀ it : XIt α, it.teeFree = true → it.abs = .evs (xden it)
  | .src _, _ => rfl
  | .tee _ _, h => by simp [XIt.teeFree] at h
  | .map g it, h => by simp only [XIt.teeFree] at h; simp [XIt.abs, abs_free it h, SIt.mapS, xden]
  | .filter p it, h => by simp only [XIt.teeFree] at h; simp [XIt.abs, abs_free it h, SIt.filterS, xden]
  | .islice n it, h => by simp only [XIt.teeFree] at h; simp [XIt.abs, abs_free it h, SIt.isliceS, xden]
  | .skipper n it, h => by simp only [XIt.teeFree] at h; simp [XIt.abs, abs_free it h, SIt.skipperS, xden]
  | .chain a b, h => by
    simp only [XIt.teeFree, Bool.and_eq_true] at h
    simp [XIt.abs, abs_free a h.1, abs_free b h.2, SIt.chainS, xden]

theorem mapS_shared (g : α → Ev α) {t : SIt α} (h : t.isEvs = false) : t.mapS g = .map g t := by
  cases t <;> first | rfl | simp [SIt.isEvs] at h
theorem filterS_shared (p : α → Ev Bool) {t : SIt α} (h : t.isEvs = false) : t.filterS p = .filter p t := by
  cases t <;> first | rfl | simp [SIt.isEvs] at h
theorem isliceS_shared (n : Nat) {t : SIt α} (h : t.isEvs = false) : t.isliceS n = .islice n t := by
  cases t <;> first | rfl | simp [SIt.isEvs] at h
theorem skipperS_shared (n : Nat) {t : SIt α} (h : t.isEvs = false) : t.skipperS n = .skipper n t := by
  cases t <;> first | rfl | simp [SIt.isEvs] at h
theorem chainS_shared {a b : SIt α} (h : (a.isEvs && b.isEvs) = false) : a.chainS b = .chain a b := by
  cases a <;> cases b <;> first | rfl | simp [SIt.isEvs] at h

theorem snext_evs (f : Nat) (H : SHeap α) {d d' : List (Ev α)} {r : Res α} (hd : Del d d' r) :
    snext (f + 1) H (.evs d) = some (H, .evs d', r) := by
  cases r with
  | stop => obtain ⟨rfl, rfl⟩ := hd; simp [snext]
  | item v => simp only [Del] at hd; subst hd; simp [snext]
  | raise e => simp only [Del] at hd; subst hd; simp [snext]

theorem absH_set (h : XHeap α) (k : Nat) (p : XIt α) (buf : List α) :
    absH (h.set k ⟨p, buf⟩) = (absH h).set k ⟨p.abs, buf⟩ := by simp [absH, List.map_set, absHub]

theorem absH_get (h : XHeap α) (k : Nat) : (absH h)[k]? = (h[k]?).map absHub := by simp [absH]

end ALV.C03

namespace ALV.C03
variable {α : Type}

/-- one `next` of the heap model is one `next` of the specification on the abstracted state -/
theorem snext_abs : ∀ (f : Nat) (h : XHeap α) (it : XIt α) (h' : XHeap α) (it' : XIt α) (r : Res α),
    xnext f h it = some (h', it', r) → snext f (absH h) it.abs = some (absH h', it'.abs, r) := by
  intro f
  induction f with
  | zero => intro h it h' it' r hx; simp [xnext] at hx
  | succ f ih =>
    intro h it h' it' r hx
    by_cases ht : it.teeFree = true
    · obtain ⟨rfl, t1, d⟩ := xnext_sound (f + 1) h it h' it' r ht hx
      rw [abs_free it ht, abs_free it' t1]
      exact snext_evs f _ d
    · have ht : it.teeFree = false := by simpa using ht
      cases it with
      | src es => simp [XIt.teeFree] at ht
      | tee k pos =>
        simp only [xnext] at hx
        simp only [XIt.abs, snext, absH_get]
        cases hk : h[k]? with
        | none => simp [hk] at hx; obtain ⟨rfl, rfl, rfl⟩ := hx; simp [XIt.abs]
        | some hub =>
          simp only [hk, Option.map_some, absHub] at hx ⊢
          by_cases hpos : pos < hub.buf.length
          · simp only [hpos, if_true, List.getElem?_eq_getElem hpos] at hx ⊢
            simp at hx; obtain ⟨rfl, rfl, rfl⟩ := hx; simp [XIt.abs]
          · simp only [hpos, if_false] at hx
            have hn : hub.buf[pos]? = none := by simp at hpos; simp [hpos]
            simp only [hn]
            cases h0 : xnext f h hub.parent with
            | none => simp [h0] at hx
            | some x =>
              obtain ⟨h1, p1, r1⟩ := x
              rw [h0] at hx
              rw [ih h hub.parent h1 p1 r1 h0]
              cases r1 with
              | stop => simp at hx; obtain ⟨rfl, rfl, rfl⟩ := hx; simp [XIt.abs, absH_set]
              | raise e => simp at hx; obtain ⟨rfl, rfl, rfl⟩ := hx; simp [XIt.abs, absH_set]
              | item v => simp at hx; obtain ⟨rfl, rfl, rfl⟩ := hx; simp [XIt.abs, absH_set]
      | map g it0 =>
        simp only [XIt.teeFree] at ht
        have ha : (XIt.map g it0).abs = .map g it0.abs := mapS_shared g (by rw [abs_isEvs]; exact ht)
        rw [ha]
        simp only [xnext] at hx
        simp only [snext]
        cases h0 : xnext f h it0 with
        | none => simp [h0] at hx
        | some x =>
          obtain ⟨h1, it1, r1⟩ := x
          rw [h0] at hx
          rw [ih h it0 h1 it1 r1 h0]
          cases r1 with
          | stop => simp at hx; obtain ⟨rfl, rfl, rfl⟩ := hx; simp [XIt.abs]
          | raise e => simp at hx; obtain ⟨rfl, rfl, rfl⟩ := hx; simp [XIt.abs]
          | item v =>
            cases hg : g v with
            | ok w => simp [hg] at hx; obtain ⟨rfl, rfl, rfl⟩ := hx; simp [XIt.abs, hg]
            | error e => simp [hg] at hx; obtain ⟨rfl, rfl, rfl⟩ := hx; simp [XIt.abs, hg]
      | filter p it0 =>
        simp only [XIt.teeFree] at ht
        have ha : (XIt.filter p it0).abs = .filter p it0.abs := filterS_shared p (by rw [abs_isEvs]; exact ht)
        rw [ha]
        simp only [xnext] at hx
        simp only [snext]
        cases h0 : xnext f h it0 with
        | none => simp [h0] at hx
        | some x =>
          obtain ⟨h1, it1, r1⟩ := x
          rw [h0] at hx
          rw [ih h it0 h1 it1 r1 h0]
          cases r1 with
          | stop => simp at hx; obtain ⟨rfl, rfl, rfl⟩ := hx; simp [XIt.abs]
          | raise e => simp at hx; obtain ⟨rfl, rfl, rfl⟩ := hx; simp [XIt.abs]
          | item v =>
            cases hp : p v with
            | error e => simp [hp] at hx; obtain ⟨rfl, rfl, rfl⟩ := hx; simp [XIt.abs, hp]
            | ok b =>
              cases b with
              | true => simp [hp] at hx; obtain ⟨rfl, rfl, rfl⟩ := hx; simp [XIt.abs, hp]
              | false =>
                simp [hp] at hx
                simp only [hp]
                exact ih h1 (.filter p it1) h' it' r hx
      | chain a b =>
        simp only [XIt.teeFree] at ht
        have ha : (XIt.chain a b).abs = .chain a.abs b.abs :=
          chainS_shared (by rw [abs_isEvs, abs_isEvs]; exact ht)
        rw [ha]
        simp only [xnext] at hx
        simp only [snext]
        cases h0 : xnext f h a with
        | none => simp [h0] at hx
        | some x =>
          obtain ⟨h1, a1, r1⟩ := x
          rw [h0] at hx
          rw [ih h a h1 a1 r1 h0]
          cases r1 with
          | item v => simp at hx; obtain ⟨rfl, rfl, rfl⟩ := hx; simp [XIt.abs]
          | raise e => simp at hx; obtain ⟨rfl, rfl, rfl⟩ := hx; simp [XIt.abs]
          | stop => simp at hx; exact ih h1 b h' it' r hx
      | islice n it0 =>
        simp only [XIt.teeFree] at ht
        have ha : (XIt.islice n it0).abs = .islice n it0.abs := isliceS_shared n (by rw [abs_isEvs]; exact ht)
        rw [ha]
        cases n with
        | zero => simp [xnext] at hx; obtain ⟨rfl, rfl, rfl⟩ := hx; simp [snext, XIt.abs, XIt.done]
        | succ n =>
          simp only [xnext] at hx
          simp only [snext]
          cases h0 : xnext f h it0 with
          | none => simp [h0] at hx
          | some x =>
            obtain ⟨h1, it1, r1⟩ := x
            rw [h0] at hx
            rw [ih h it0 h1 it1 r1 h0]
            cases r1 with
            | stop => simp at hx; obtain ⟨rfl, rfl, rfl⟩ := hx; simp [XIt.abs, XIt.done]
            | raise e => simp at hx; obtain ⟨rfl, rfl, rfl⟩ := hx; simp [XIt.abs, XIt.done]
            | item v => simp at hx; obtain ⟨rfl, rfl, rfl⟩ := hx; simp [XIt.abs]
      | skipper n it0 =>
        simp only [XIt.teeFree] at ht
        have ha : (XIt.skipper n it0).abs = .skipper n it0.abs := skipperS_shared n (by rw [abs_isEvs]; exact ht)
        rw [ha]
        cases n with
        | zero =>
          simp only [xnext] at hx
          simp only [snext]
          cases h0 : xnext f h it0 with
          | none => simp [h0] at hx
          | some x =>
            obtain ⟨h1, it1, r1⟩ := x
            rw [h0] at hx
            rw [ih h it0 h1 it1 r1 h0]
            cases r1 with
            | stop => simp at hx; obtain ⟨rfl, rfl, rfl⟩ := hx; simp [XIt.abs, XIt.done]
            | raise e => simp at hx; obtain ⟨rfl, rfl, rfl⟩ := hx; simp [XIt.abs, XIt.done]
            | item v => simp at hx; obtain ⟨rfl, rfl, rfl⟩ := hx; simp [XIt.abs]
        | succ n =>
          simp only [xnext] at hx
          simp only [snext]
          cases h0 : xnext f h it0 with
          | none => simp [h0] at hx
          | some x =>
            obtain ⟨h1, it1, r1⟩ := x
            rw [h0] at hx
            rw [ih h it0 h1 it1 r1 h0]
            cases r1 with
            | stop => simp at hx; obtain ⟨rfl, rfl, rfl⟩ := hx; simp [XIt.abs, XIt.done]
            | raise e => simp at hx; obtain ⟨rfl, rfl, rfl⟩ := hx; simp [XIt.abs, XIt.done]
            | item v => simp at hx; exact ih h1 (.skipper n it1) h' it' r hx

end ALV.C03

namespace ALV.C03
variable {α : Type}

theorem stakeN_abs (f : Nat) : ∀ (n : Nat) (h : XHeap α) (it : XIt α) (h' : XHeap α) (it' : XIt α)
    (r : Except String (List α)), xtakeN f n h it = some (h', it', r) →
    stakeN f n (absH h) it.abs = some (absH h', it'.abs, r) := by
  intro n
  induction n with
  | zero => intro h it h' it' r hx; simp [xtakeN] at hx; obtain ⟨rfl, rfl, rfl⟩ := hx; simp [stakeN]
  | succ n ih =>
    intro h it h' it' r hx
    simp only [xtakeN] at hx
    simp only [stakeN]
    cases h0 : xnext f h it with
    | none => simp [h0] at hx
    | some x =>
      obtain ⟨h1, it1, r1⟩ := x
      rw [h0] at hx
      rw [snext_abs f h it h1 it1 r1 h0]
      cases r1 with
      | stop => simp at hx; obtain ⟨rfl, rfl, rfl⟩ := hx; rfl
      | raise e => simp at hx; obtain ⟨rfl, rfl, rfl⟩ := hx; rfl
      | item v =>
        simp only at hx ⊢
        cases h2 : xtakeN f n h1 it1 with
        | none => simp [h2] at hx
        | some y =>
          obtain ⟨h3, it3, r3⟩ := y
          rw [h2] at hx
          rw [ih h1 it1 h3 it3 r3 h2]
          cases r3 with
          | ok vs => simp at hx; obtain ⟨rfl, rfl, rfl⟩ := hx; rfl
          | error e => simp at hx; obtain ⟨rfl, rfl, rfl⟩ := hx; rfl

theorem sdrain_abs (f : Nat) : ∀ (g : Nat) (h : XHeap α) (it : XIt α) (h' : XHeap α) (it' : XIt α)
    (r : Except String (List α)), xdrain f g h it = some (h', it', r) →
    sdrain f g (absH h) it.abs = some (absH h', it'.abs, r) := by
  intro g
  induction g with
  | zero => intro h it h' it' r hx; simp [xdrain] at hx
  | succ g ih =>
    intro h it h' it' r hx
    simp only [xdrain] at hx
    simp only [sdrain]
    cases h0 : xnext f h it with
    | none => simp [h0] at hx
    | some x =>
      obtain ⟨h1, it1, r1⟩ := x
      rw [h0] at hx
      rw [snext_abs f h it h1 it1 r1 h0]
      cases r1 with
      | stop => simp at hx; obtain ⟨rfl, rfl, rfl⟩ := hx; rfl
      | raise e => simp at hx; obtain ⟨rfl, rfl, rfl⟩ := hx; rfl
      | item v =>
        simp only at hx ⊢
        cases h2 : xdrain f g h1 it1 with
        | none => simp [h2] at hx
        | some y =>
          obtain ⟨h3, it3, r3⟩ := y
          rw [h2] at hx
          rw [ih h1 it1 h3 it3 r3 h2]
          cases r3 with
          | ok vs => simp at hx; obtain ⟨rfl, rfl, rfl⟩ := hx; rfl
          | error e => simp at hx; obtain ⟨rfl, rfl, rfl⟩ := hx; rfl

/-- `Stream.take` — any count — of the heap model is `take` of the specification -/
theorem stakeIt_abs {f : Nat} {h : XHeap α} {it : XIt α} {c : Cnt} {h' : XHeap α} {it' : XIt α} {o : Obs α}
    (hx : xtakeIt f h it c = some (h', it', o)) :
    stakeIt f (absH h) it.abs c = some (absH h', it'.abs, o) := by
  unfold xtakeIt at hx
  unfold stakeIt
  cases hm : takeMode c with
  | one =>
    simp only [hm] at hx ⊢
    cases h0 : xnext f h it with
    | none => simp [h0] at hx
    | some x =>
      obtain ⟨h1, it1, r1⟩ := x
      rw [h0] at hx
      rw [snext_abs f h it h1 it1 r1 h0]
      cases r1 with
      | stop => simp at hx; obtain ⟨rfl, rfl, rfl⟩ := hx; rfl
      | raise e => simp at hx; obtain ⟨rfl, rfl, rfl⟩ := hx; rfl
      | item v => simp at hx; obtain ⟨rfl, rfl, rfl⟩ := hx; rfl
  | all =>
    simp only [hm] at hx ⊢
    cases h0 : xdrain f f h it with
    | none => simp [h0] at hx
    | some x =>
      obtain ⟨h1, it1, r1⟩ := x
      simp [h0] at hx; obtain ⟨rfl, rfl, rfl⟩ := hx
      simp [sdrain_abs f f h it h1 it1 r1 h0]
  | n k =>
    simp only [hm] at hx ⊢
    cases h0 : xtakeN f k h it with
    | none => simp [h0] at hx
    | some x =>
      obtain ⟨h1, it1, r1⟩ := x
      simp [h0] at hx; obtain ⟨rfl, rfl, rfl⟩ := hx
      simp [stakeN_abs f k h it h1 it1 r1 h0]

end ALV.C03

namespace ALV.C03
variable {α : Type}

def absPool (pool : List (Option (XIt α))) : List (Option (SIt α)) := pool.map (Option.map XIt.abs)

theorem absPool_get (pool : List (Option (XIt α))) (i : Nat) :
    (absPool pool)[i]? = (pool[i]?).map (Option.map XIt.abs) := by simp [absPool]

theorem absPool_set (pool : List (Option (XIt α))) (i : Nat) (x : Option (XIt α)) :
    absPool (pool.set i x) = (absPool pool).set i (x.map XIt.abs) := by simp [absPool, List.map_set]

theorem absPool_len (pool : List (Option (XIt α))) : (absPool pool).length = pool.length := by simp [absPool]

theorem absPool_append (pool : List (Option (XIt α))) (x : Option (XIt α)) :
    absPool (pool ++ [x]) = absPool pool ++ [x.map XIt.abs] := by simp [absPool]

theorem absH_len (h : XHeap α) : (absH h).length = h.length := by simp [absH]

theorem sshare_abs (h : XHeap α) (it : XIt α) :
    sshare (absH h) it.abs = (absH (xteeOf h it).1, (xteeOf h it).2.abs) := by
  simp [sshare, xteeOf, absH, absHub, XIt.abs]

/-- one step of any history — copies and `peek` included — is one step of the specification -/
theorem sstep_abs {f : Nat} {st st' : XSt α} {op : XOp α} {o : Obs α} (hx : xstep f st op = some (st', o)) :
    sstep f st.abs op = some (st'.abs, o) := by
  have hpool : st.abs.pool = absPool st.pool := rfl
  have hheap : st.abs.heap = absH st.heap := rfl
  have rd : ∀ (i : Nat) (c : Cnt),
      (match st.pool[i]? with
        | some (some it) => (xtakeIt f st.heap it c).map fun (h', it', o) => (⟨h', st.pool.set i (some it')⟩, o)
        | _ => some (st, .err "noobj")) = some (st', o) →
      (match st.abs.pool[i]? with
        | some (some t) => (stakeIt f st.abs.heap t c).map fun (h', t', o) => (⟨h', st.abs.pool.set i (some t')⟩, o)
        | _ => some (st.abs, .err "noobj")) = some (st'.abs, o) := by
    intro i c hx
    rw [hpool, absPool_get, hheap]
    cases hi : st.pool[i]? with
    | none => simp [hi] at hx ⊢; obtain ⟨rfl, rfl⟩ := hx; exact ⟨rfl, rfl⟩
    | some x =>
      cases x with
      | none => simp [hi] at hx ⊢; obtain ⟨rfl, rfl⟩ := hx; exact ⟨rfl, rfl⟩
      | some it =>
        simp only [hi] at hx
        cases h0 : xtakeIt f st.heap it c with
        | none => simp [h0] at hx
        | some y =>
          obtain ⟨h1, it1, o1⟩ := y
          simp [h0] at hx; obtain ⟨rfl, rfl⟩ := hx
          simp [stakeIt_abs h0, XSt.abs]
          rfl
  have wrap : ∀ (i : Nat) (w : XIt α → XIt α) (ws : SIt α → SIt α), (∀ it, (w it).abs = ws it.abs) →
      (match st.pool[i]? with
        | some (some it) => some ((⟨st.heap, st.pool.set i (some (w it))⟩ : XSt α), Obs.unit)
        | _ => some (st, .err "noobj")) = some (st', o) →
      (match st.abs.pool[i]? with
        | some (some t) => some ((⟨st.abs.heap, st.abs.pool.set i (some (ws t))⟩ : SSt α), Obs.unit)
        | _ => some (st.abs, .err "noobj")) = some (st'.abs, o) := by
    intro i w ws hw hx
    rw [hpool, absPool_get, hheap]
    cases hi : st.pool[i]? with
    | none => simp [hi] at hx ⊢; obtain ⟨rfl, rfl⟩ := hx; exact ⟨rfl, rfl⟩
    | some x =>
      cases x with
      | none => simp [hi] at hx ⊢; obtain ⟨rfl, rfl⟩ := hx; exact ⟨rfl, rfl⟩
      | some it =>
        simp [hi] at hx ⊢; obtain ⟨rfl, rfl⟩ := hx
        simp [XSt.abs, ← hw]
        rfl
  cases op with
  | new es =>
    simp [xstep] at hx; obtain ⟨rfl, rfl⟩ := hx
    simp [sstep, XSt.abs, XIt.abs]
  | take i c => exact rd i c hx
  | next i => exact rd i .none hx
  | drain i => exact rd i .inf hx
  | skip i n => exact wrap i (.skipper n) (SIt.skipperS n) (fun _ => rfl) hx
  | limit i n => exact wrap i (.islice n) (SIt.isliceS n) (fun _ => rfl) hx
  | append i ys => exact wrap i (fun it => .chain it (.src ys)) (fun t => t.chainS (.evs ys)) (fun _ => rfl) hx
  | map i g => exact wrap i (.map g) (SIt.mapS g) (fun _ => rfl) hx
  | filter i p => exact wrap i (.filter p) (SIt.filterS p) (fun _ => rfl) hx
  | skipBad i e => exact wrap i (fun _ => .src [.error e]) (fun _ => .evs [.error e]) (fun _ => rfl) hx
  | nextAttr i =>
    simp only [xstep] at hx
    simp only [sstep]
    rw [hpool, absPool_get]
    cases hi : st.pool[i]? with
    | none => simp [hi] at hx ⊢; obtain ⟨rfl, rfl⟩ := hx; exact ⟨rfl, rfl⟩
    | some x =>
      cases x with
      | none => simp [hi] at hx ⊢; obtain ⟨rfl, rfl⟩ := hx; exact ⟨rfl, rfl⟩
      | some it => simp [hi] at hx ⊢; obtain ⟨rfl, rfl⟩ := hx; exact ⟨rfl, rfl⟩
  | attr i g =>
    simp only [xstep] at hx
    simp only [sstep]
    rw [hpool, absPool_get]
    cases hi : st.pool[i]? with
    | none => simp [hi] at hx ⊢; obtain ⟨rfl, rfl⟩ := hx; exact ⟨rfl, rfl⟩
    | some x =>
      cases x with
      | none => simp [hi] at hx ⊢; obtain ⟨rfl, rfl⟩ := hx; exact ⟨rfl, rfl⟩
      | some it =>
        simp [hi] at hx ⊢; obtain ⟨rfl, rfl⟩ := hx
        simp [XSt.abs, absPool_len, XIt.abs]
        simp [absPool]
  | copy i =>
    simp only [xstep] at hx
    simp only [sstep]
    rw [hpool, absPool_get, hheap]
    cases hi : st.pool[i]? with
    | none => simp [hi] at hx ⊢; obtain ⟨rfl, rfl⟩ := hx; exact ⟨rfl, rfl⟩
    | some x =>
      cases x with
      | none => simp [hi] at hx ⊢; obtain ⟨rfl, rfl⟩ := hx; exact ⟨rfl, rfl⟩
      | some it =>
        simp [hi] at hx ⊢; obtain ⟨rfl, rfl⟩ := hx
        rw [sshare_abs]
        simp [XSt.abs, absPool_len]
        simp [absPool]
  | peek i c =>
    simp only [xstep] at hx
    simp only [sstep]
    rw [hpool, absPool_get, hheap]
    cases hi : st.pool[i]? with
    | none => simp [hi] at hx ⊢; obtain ⟨rfl, rfl⟩ := hx; exact ⟨rfl, rfl⟩
    | some x =>
      cases x with
      | none => simp [hi] at hx ⊢; obtain ⟨rfl, rfl⟩ := hx; exact ⟨rfl, rfl⟩
      | some it =>
        simp only [hi, Option.map_some] at hx ⊢
        rw [sshare_abs]
        cases h0 : xtakeIt f (xteeOf st.heap it).1 (xteeOf st.heap it).2 c with
        | none => simp [h0] at hx
        | some y =>
          obtain ⟨h1, it1, o1⟩ := y
          simp [h0] at hx; obtain ⟨rfl, rfl⟩ := hx
          simp [stakeIt_abs h0, XSt.abs]
          rfl

/-- histories of any length, with copies: whenever the heap model terminates at every step, the
    specification makes the same observations -/
theorem srun_abs (f : Nat) : ∀ (ops : List (XOp α)) (st : XSt α),
    (∀ o, o ∈ xrun f st ops → o ≠ none) → xrun f st ops = srun f st.abs ops := by
  intro ops
  induction ops with
  | nil => intros; rfl
  | cons op ops ih =>
    intro st hterm
    cases hs : xstep f st op with
    | none => exact absurd rfl (hterm none (by simp [xrun, hs]))
    | some x =>
      obtain ⟨st', o⟩ := x
      have := ih st' (fun o' ho' => hterm o' (by simp [xrun, hs, ho']))
      simp [xrun, srun, hs, sstep_abs hs, this]

end ALV.C03

namespace ALV.C03
variable {α : Type}

theorem set_same {β : Type} {l : List β} {k : Nat} {x : β} (h : l[k]? = some x) : l.set k x = l := by
  obtain ⟨hk, hx⟩ := List.getElem?_eq_some_iff.1 h
  apply List.ext_getElem?
  intro i
  rw [List.getElem?_set]
  split
  · next hki => subst hki; simp [hk, hx]
  · rfl

/-- a reader of a shared sequence whose source is a list of events `L` (nothing shared below): it gets the
    head of its own view `viewOf L buf pos` and keeps the tail; an item leaves the view of EVERY reader
    unchanged; an exception is only ever met at the front, it leaves the shared list — the view of every
    other reader is its old view with that one event erased -/
theorem shared_next (f : Nat) {H : SHeap α} {k : Nat} {L : List (Ev α)} {buf : List α} {pos : Nat}
    (hk : H[k]? = some ⟨.evs L, buf⟩) (hp : pos ≤ buf.length) :
    ∃ (L' : List (Ev α)) (buf' : List α) (pos' : Nat) (r : Res α),
      snext (f + 2) H (.view k pos) = some (H.set k ⟨.evs L', buf'⟩, .view k pos', r) ∧ pos' ≤ buf'.length ∧
      Del (viewOf L buf pos) (viewOf L' buf' pos') r ∧
      (match r with
        | .raise e => pos = buf.length ∧ buf' = buf ∧ L = .error e :: L'
        | _ => ∀ q, q ≤ buf.length → viewOf L' buf' q = viewOf L buf q) := by
  by_cases hlt : pos < buf.length
  · refine ⟨L, buf, pos + 1, .item buf[pos], ?_, by omega, ?_, fun _ _ => rfl⟩
    · have hb : buf[pos]? = some buf[pos] := List.getElem?_eq_getElem hlt
      rw [set_same hk]
      show snext (f + 1 + 1) H (.view k pos) = _
      simp only [snext, hk, hb]
    · rw [viewOf, List.drop_eq_getElem_cons hlt]
      simp only [Del, viewOf, List.map_cons, List.cons_append]
  · have hpos : pos = buf.length := by omega
    subst hpos
    have hn : buf[buf.length]? = none := by simp
    match L, hk with
    | [], hk =>
      refine ⟨[], buf, buf.length, .stop, ?_, Nat.le_refl _, ?_, fun _ _ => rfl⟩
      · simp [snext, hk]
      · simp [Del, viewOf]
    | .ok v :: L', hk =>
      refine ⟨L', buf ++ [v], buf.length + 1, .item v, ?_, by simp, ?_, ?_⟩
      · simp [snext, hk]
      · simp [Del, viewOf]
      · intro q hq
        simp [viewOf, List.drop_append_of_le_length hq]
    | .error e :: L', hk =>
      refine ⟨L', buf, buf.length, .raise e, ?_, Nat.le_refl _, ?_, rfl, rfl, rfl⟩
      · simp [snext, hk]
      · simp [Del, viewOf]

end ALV.C03
