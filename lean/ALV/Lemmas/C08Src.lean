/-
  C08 — the definitions regenerated from the source (`ALV/Gen/C08Src.lean`, translator
  `harness/props/c08_tr.py`) ARE the hand-written model: helper lemmas for `src_*_is_model`.
-/
import ALV.Gen.C08Src
import ALV.Lemmas.C08Call
import ALV.Lemmas.C08Hist
set_option linter.unusedSectionVars false
namespace ALV.C08
variable {α : Type}

section Generic
variable {ι : Type} [Add ι] [Sub ι] [LT ι] [LE ι] [DecidableEq ι]
  [DecidableRel (fun a b : ι => a < b)] [DecidableRel (fun a b : ι => a ≤ b)] [OfNat ι 0] [OfNat ι 1]

/-- the body of the second loop (`hop > size`) is `gstep`, for every index type -/
theorem loop2_step_eq_gstep (maxlen : Nat) (size hop : ι) (hInt : Bool) (s : GState ι α) (x : α) :
    Gen.C08.loop2_step maxlen size hop hInt s x = gstep maxlen (size - 1) (size - hop) hInt s x := by
  unfold Gen.C08.loop2_step gstep
  by_cases h1 : s.idx < 0
  · simp only [if_pos h1]
  · by_cases h2 : s.idx = size - 1
    · simp only [if_neg h1, if_pos h2]
    · simp only [if_neg h1, if_neg h2]

/-- the body of the first loop (`hop <= size`) is `gstep` wherever the index is not negative -/
theorem loop1_step_eq_gstep (maxlen : Nat) (size hop : ι) (hInt : Bool) (s : GState ι α) (x : α)
    (h1 : ¬ s.idx < 0) :
    Gen.C08.loop1_step maxlen size hop hInt s x = gstep maxlen (size - 1) (size - hop) hInt s x := by
  unfold Gen.C08.loop1_step gstep
  by_cases h2 : s.idx = size - 1
  · simp only [if_neg h1, if_pos h2]
  · simp only [if_neg h1, if_neg h2]

theorem forEv_gstep (size : Nat) (last reinit : ι) (rInt : Bool) : ∀ (xs : List α) (s : GState ι α) (n : Nat),
    Py.forEv (gstep size last reinit rInt) s n xs = gloopEv size last reinit rInt s n xs := by
  intro xs
  induction xs with
  | nil => intro s n; rfl
  | cons x xs ih => intro s n; simp only [Py.forEv, gloopEv, ih]

theorem gstep_nonneg (size : Nat) (last reinit : ι) (rInt : Bool) (hr : ¬ reinit < 0)
    (hs : ∀ i : ι, ¬ i < 0 → ¬ i + 1 < 0) (s : GState ι α) (x : α) (h : ¬ s.idx < 0) :
    ¬ (gstep size last reinit rInt s x).1.idx < 0 := by
  unfold gstep
  by_cases h2 : s.idx = last
  · simp only [if_neg h, if_pos h2]; exact hr
  · simp only [if_neg h, if_neg h2]; exact hs _ h

theorem forEv_loop1 (maxlen : Nat) (size hop : ι) (hInt : Bool) (hr : ¬ size - hop < 0)
    (hs : ∀ i : ι, ¬ i < 0 → ¬ i + 1 < 0) : ∀ (xs : List α) (s : GState ι α) (n : Nat), ¬ s.idx < 0 →
    Py.forEv (Gen.C08.loop1_step maxlen size hop hInt) s n xs =
      gloopEv maxlen (size - 1) (size - hop) hInt s n xs := by
  intro xs
  induction xs with
  | nil => intro s n _; rfl
  | cons x xs ih =>
    intro s n h
    have e := loop1_step_eq_gstep maxlen size hop hInt s x h
    have h' := gstep_nonneg maxlen (size - 1) (size - hop) hInt hr hs s x h
    simp only [Py.forEv, gloopEv, e, ih _ _ h']

theorem forEv_loop2 (maxlen : Nat) (size hop : ι) (hInt : Bool) (xs : List α) (s : GState ι α) (n : Nat) :
    Py.forEv (Gen.C08.loop2_step maxlen size hop hInt) s n xs =
      gloopEv maxlen (size - 1) (size - hop) hInt s n xs := by
  have : Gen.C08.loop2_step (α := α) maxlen size hop hInt = gstep maxlen (size - 1) (size - hop) hInt := by
    funext s x; exact loop2_step_eq_gstep maxlen size hop hInt s x
  rw [this, forEv_gstep]

theorem times_pad (maxlen : Nat) (pad : α) : ∀ (n : Nat) (s : GState ι α),
    (Py.times (fun s : GState ι α => { s with res := dqPush maxlen s.res pad }) n s).res =
      padTo maxlen pad s.res n := by
  intro n
  induction n with
  | zero => intro s; rfl
  | succ n ih => intro s; simp only [Py.times, padTo, ih]

/-- the tail clause is `gtail`, for an index type on which `max(r, 0) < i` means `r < i` and `0 < i` -/
theorem tail_eq_gtail (maxlen : Nat) (size hop : ι) (toN : ι → Nat) (pad : α) (s : GState ι α)
    (hm : ∀ i : ι, i > Py.max2 (size - hop) 0 ↔ (size - hop < i ∧ 0 < i)) :
    Gen.C08.tail maxlen size hop toN pad s = gtail maxlen (size - hop) toN pad s := by
  unfold Gen.C08.tail gtail Py.forRange
  by_cases h : s.idx > Py.max2 (size - hop) 0
  · have h' := (hm s.idx).mp h
    simp only [if_pos h, if_pos h']
    cases hi : s.isInt
    · simp
    · simp [times_pad]
  · have h' : ¬ (size - hop < s.idx ∧ 0 < s.idx) := fun c => h ((hm s.idx).mpr c)
    simp only [if_neg h, if_neg h']

/-- the whole run is `grun` -/
theorem blocks_run_eq_grun (maxlen : Nat) (size hop : ι) (hInt : Bool) (toN : ι → Nat) (pad : α)
    (xs : List α) (e : Ending) (h0 : ¬ (0 : ι) < 0) (hr : hop ≤ size → ¬ size - hop < 0)
    (hs : ∀ i : ι, ¬ i < 0 → ¬ i + 1 < 0)
    (hm : ∀ i : ι, i > Py.max2 (size - hop) 0 ↔ (size - hop < i ∧ 0 < i)) :
    Gen.C08.blocks_run maxlen size hop hInt toN pad xs e =
      grun maxlen (size - 1) (size - hop) hInt toN pad xs e := by
  have ht : Gen.C08.tail (α := α) maxlen size hop toN pad = gtail maxlen (size - hop) toN pad := by
    funext s; exact tail_eq_gtail maxlen size hop toN pad s hm
  unfold Gen.C08.blocks_run grun Py.genRun
  rw [ht]
  by_cases hc : hop ≤ size
  · simp only [if_pos hc]
    rw [forEv_loop1 maxlen size hop hInt (hr hc) hs xs _ 0 h0]
    cases e <;> rfl
  · simp only [if_neg hc]
    rw [forEv_loop2]
    cases e <;> rfl

end Generic

/-! ### the three index types of `blocksCall` -/

theorem blocks_run_int (sz : Nat) (h : Int) (hInt : Bool) (pad : α) (xs : List α) (e : Ending) :
    Gen.C08.blocks_run sz (sz : Int) h hInt Int.toNat pad xs e =
      grun sz ((sz : Int) - 1) ((sz : Int) - h) hInt Int.toNat pad xs e :=
  blocks_run_eq_grun sz (sz : Int) h hInt Int.toNat pad xs e (by omega) (by omega) (by intro i; omega)
    (by intro i; unfold Py.max2; split <;> omega)

theorem blocks_run_rat (sz : Nat) (q : Rat) (hInt : Bool) (toN : Rat → Nat) (pad : α) (xs : List α) (e : Ending) :
    Gen.C08.blocks_run sz (sz : Rat) q hInt toN pad xs e =
      grun sz ((sz : Rat) - 1) ((sz : Rat) - q) hInt toN pad xs e :=
  blocks_run_eq_grun sz (sz : Rat) q hInt toN pad xs e (by grind) (by intro h; grind) (by intro i; grind)
    (by intro i; unfold Py.max2; split <;> grind)

theorem xrat_fin_sub_one (q : Rat) : XRat.fin q - 1 = XRat.fin (q - 1) := by
  show XRat.fin (q + -1) = XRat.fin (q - 1)
  rw [Rat.sub_eq_add_neg]

theorem xrat_fin_sub_nonfin (q : Rat) (k : NonFin) : XRat.fin q - XRat.ofNonFin k = XRat.sizeMinus k := by
  cases k <;> rfl

theorem xrat_not_lt_zero_succ (i : XRat) (h : ¬ i < 0) : ¬ i + 1 < 0 := by
  cases i with
  | fin q =>
    have h1 : ¬ (decide (q < 0) = true) := h
    show ¬ (decide (q + 1 < 0) = true)
    simp only [decide_eq_true_eq] at h1 ⊢
    grind
  | pinf => exact h
  | ninf => exact h
  | nan => exact h

theorem xrat_max2_nonfin (k : NonFin) (i : XRat) :
    i > Py.max2 (XRat.sizeMinus k) 0 ↔ (XRat.sizeMinus k < i ∧ 0 < i) := by
  cases k with
  | pinf =>
    -- size - inf = -inf: max(-inf, 0) = 0
    have : Py.max2 (XRat.sizeMinus .pinf) (0 : XRat) = 0 := rfl
    rw [this]
    constructor
    · intro h
      refine ⟨?_, h⟩
      cases i <;> first | rfl | exact h
    · exact fun h => h.2
  | ninf =>
    have : Py.max2 (XRat.sizeMinus .ninf) (0 : XRat) = XRat.pinf := rfl
    rw [this]
    constructor
    · intro h; cases i <;> cases h
    · intro h; exact h.1
  | nan =>
    have : Py.max2 (XRat.sizeMinus .nan) (0 : XRat) = XRat.nan := rfl
    rw [this]
    constructor
    · intro h; cases i <;> cases h
    · intro h; exact h.1

theorem blocks_run_nonfin (sz : Nat) (k : NonFin) (hInt : Bool) (pad : α) (xs : List α) (e : Ending) :
    Gen.C08.blocks_run sz (XRat.fin (sz : Rat)) (XRat.ofNonFin k) hInt XRat.toN pad xs e =
      grun sz (XRat.fin ((sz : Rat) - 1)) (XRat.sizeMinus k) hInt XRat.toN pad xs e := by
  have := blocks_run_eq_grun sz (XRat.fin (sz : Rat)) (XRat.ofNonFin k) hInt XRat.toN pad xs e (by decide)
    (by
      rw [xrat_fin_sub_nonfin]
      cases k with
      | pinf => intro h; exact (Bool.false_ne_true h).elim
      | ninf => intro _ c; exact Bool.false_ne_true c
      | nan => intro h; exact (Bool.false_ne_true h).elim)
    xrat_not_lt_zero_succ (by rw [xrat_fin_sub_nonfin]; exact xrat_max2_nonfin k)
  rw [this, xrat_fin_sub_one, xrat_fin_sub_nonfin]

/-! ### the default of `hop`, `zero_pad` -/

theorem initHop_hop_bound (sz : Nat) (hop : Num) :
    initHop sz (Gen.C08.hop_bound (.int sz) hop) = initHop sz hop := by
  cases hop <;> simp [Gen.C08.hop_bound, initHop]

theorem zero_pad_eq (left right : Nat) (zero : α) (xs : List α) :
    Gen.C08.zero_pad left right zero xs = zeroPad left right zero xs := by
  simp [Gen.C08.zero_pad, zeroPad]

/-- `blocksCall` with the regenerated definitions (`hop_bound`, `blocks_run` at the three index types) in the
place of the hand-written ones; the refusals of `deque(maxlen=size)` / `size - hop` stay the model's -/
def blocksCallSrc (dflt : α) (size hop : Num) (padval : Option α) (iterable : Bool) (xs : List α)
    (e : Ending) : CallRun α :=
  let pad := padval.getD dflt
  match initSize size with
  | .error er => ⟨[], .err er, 0⟩
  | .ok sz =>
    match initHop sz (Gen.C08.hop_bound (.int sz) hop) with
    | .error er => ⟨[], .err er, 0⟩
    | .ok hv =>
      if !iterable then ⟨[], .err .typeError, 0⟩
      else match hv with
        | .int h => Gen.C08.blocks_run sz (sz : Int) h true Int.toNat pad xs e
        | .rat q => Gen.C08.blocks_run sz (sz : Rat) q false (fun r => r.floor.toNat) pad xs e
        | .nonfin k => Gen.C08.blocks_run sz (XRat.fin (sz : Rat)) (XRat.ofNonFin k) false XRat.toN pad xs e

theorem blocksCall_eq_src (dflt : α) (size hop : Num) (padval : Option α) (it : Bool) (xs : List α) (e : Ending) :
    blocksCall dflt size hop padval it xs e = blocksCallSrc dflt size hop padval it xs e := by
  unfold blocksCall blocksCallSrc
  simp only [initHop_hop_bound]
  cases initSize size with
  | error er => rfl
  | ok sz =>
    simp only
    cases initHop sz hop with
    | error er => rfl
    | ok hv =>
      cases it
      · rfl
      · cases hv with
        | int h => simp [blocks_run_int]
        | rat q => simp [blocks_run_rat]
        | nonfin k => simp [blocks_run_nonfin]

/-- parameters without a default, counted from the left -/
def nRequired (ps : List (String × Option Py.Dflt)) : Nat := (ps.takeWhile fun p => p.2.isNone).length

end ALV.C08
