/-
  C02 — closed form of the generator protocol of ANY stage with an exit test, and its composition:
  chains with stopping stages (`buildXChain`) read `needOfXChain` items.

    * `probeFrom_closed` : request `k+1` on `X` delivers iff `k < |X.run xs|` and has pulled
      `min (need_base (k+1) or |xs|) (X.cut xs)` items — for every stage, exit test, source, `k`;
    * `reqReads` = that pull counter as a function; `reqReads_comp` / `reqReads_cap`: how it
      composes with a consumer stage and with a consumer that stops asking;
    * `reqReads_buildX`: induction on the chain.
  Core Lean only.
-/
import ALV.Lemmas.C02Stop
import ALV.Spec.C02
namespace ALV.C02
open ALV ALV.Stage
variable {ι ο π σ τ α : Type}

namespace StopStage

/-- number of outputs still to come from state `s` on the source `xs` (loop outputs up to the exit
    point, then the epilogue) -/
def tailLen (X : StopStage ι ο σ) (s : σ) (xs : List ι) : Nat :=
  (X.base.emitFrom s (xs.take (X.cutFrom s xs))).length +
    (X.base.onEnd (X.base.stateFrom s (xs.take (X.cutFrom s xs)))).length

theorem probeFrom_congr_demand (X : StopStage ι ο σ) (K : Nat) (c c' : Cfg σ ο) (xs xs' : List ι)
    (h : X.demand c xs = X.demand c' xs') :
    X.probeFrom (K + 1) c xs = X.probeFrom (K + 1) c' xs' := by
  simp only [probeFrom, h]

/-- a generator whose source has ended: the pending outputs come, then nothing; no read -/
theorem probeFrom_ended (X : StopStage ι ο σ) (s : σ) (r : Nat) : ∀ (p : List ο) (K k : Nat)
    (xs : List ι), k < K →
    (X.probeFrom K ⟨s, p, r, true⟩ xs)[k]? = some (decide (k < p.length), r) := by
  intro p
  induction p with
  | nil =>
    intro K k xs hk
    rw [probeFrom_dead, List.getElem?_replicate, if_pos hk]
    simp
  | cons o p ih =>
    intro K k xs hk
    cases K with
    | zero => omega
    | succ K =>
      simp only [probeFrom, demand_pend]
      cases k with
      | zero => simp
      | succ k =>
        rw [List.getElem?_cons_succ, ih K k xs (by omega)]
        simp

/-- leaving the loop: the epilogue outputs become pending on an ended generator -/
theorem probeFrom_finish (X : StopStage ι ο σ) (K : Nat) (c : Cfg σ ο) (s : σ) (r : Nat)
    (xs xs' : List ι) (h : X.demand c xs = X.finish s r xs') :
    X.probeFrom (K + 1) c xs = X.probeFrom (K + 1) ⟨s, X.base.onEnd s, r, true⟩ xs' := by
  simp only [probeFrom, h]
  unfold finish
  cases hE : X.base.onEnd s with
  | nil => simp [demand_ended]
  | cons o q => simp [demand_pend]

theorem tailLen_nil (X : StopStage ι ο σ) (s : σ) : X.tailLen s [] = (X.base.onEnd s).length := by
  simp [tailLen, cutFrom, emitFrom, stateFrom]

theorem tailLen_done (X : StopStage ι ο σ) (s : σ) (x : ι) (xs : List ι) (h : X.done s = true) :
    X.tailLen s (x :: xs) = (X.base.onEnd s).length := by
  simp [tailLen, cutFrom, h, emitFrom, stateFrom]

theorem tailLen_read (X : StopStage ι ο σ) (s : σ) (x : ι) (xs : List ι) (h : X.done s = false) :
    X.tailLen s (x :: xs) = (X.base.onItem s x).2.length + X.tailLen (X.base.onItem s x).1 xs := by
  simp [tailLen, cutFrom, h, emitFrom, stateFrom, Nat.add_assoc]

/-- **closed form of the protocol, from any running configuration**: request `k+1` delivers iff
    `k <` the outputs still to come, and the pull counter afterwards is the counter before plus
    `min (what the plain loop needs for k+1 more outputs, or everything) (the exit point)`. -/
theorem probeFrom_closed (X : StopStage ι ο σ) : ∀ (xs : List ι) (s : σ) (p : List ο) (r K k : Nat),
    k < K →
    (X.probeFrom K ⟨s, p, r, false⟩ xs)[k]? =
      some (decide (k < p.length + X.tailLen s xs),
        r + min ((X.base.needFrom s (k + 1 - p.length) xs).getD xs.length) (X.cutFrom s xs)) := by
  intro xs
  induction xs with
  | nil =>
    intro s p
    induction p with
    | nil =>
      intro r K k hk
      cases K with
      | zero => omega
      | succ K =>
        rw [probeFrom_finish X K _ s r [] [] (demand_nil X s r), probeFrom_ended X s r _ _ _ _ hk,
          tailLen_nil]
        simp [cutFrom]
    | cons o p ih =>
      intro r K k hk
      cases K with
      | zero => omega
      | succ K =>
        simp only [probeFrom, demand_pend]
        cases k with
        | zero => simp [needFrom_zero]; omega
        | succ k =>
          rw [List.getElem?_cons_succ, ih r K k (by omega)]
          simp only [List.length_cons]
          have e : k + 1 + 1 - (p.length + 1) = k + 1 - p.length := by omega
          rw [e]
          congr 2
          simp only [decide_eq_decide]; omega
  | cons x xs ihx =>
    intro s p
    induction p with
    | nil =>
      intro r K k hk
      cases K with
      | zero => omega
      | succ K =>
        cases hd : X.done s with
        | true =>
          rw [probeFrom_finish X K _ s r (x :: xs) (x :: xs) (demand_done X s r x xs hd),
            probeFrom_ended X s r _ _ _ _ hk, tailLen_done X s x xs hd]
          simp [cutFrom, hd]
        | false =>
          rw [probeFrom_congr_demand X K _ _ _ _ (demand_read X s r x xs hd),
            ihx (X.base.onItem s x).1 (X.base.onItem s x).2 (r + 1) (K + 1) k hk,
            tailLen_read X s x xs hd]
          have hc : X.cutFrom s (x :: xs) = X.cutFrom (X.base.onItem s x).1 xs + 1 := by
            simp [cutFrom, hd]
          rw [hc]
          simp only [List.length_nil, Nat.sub_zero, Nat.zero_add, needFrom, List.length_cons]
          congr 2
          cases X.base.needFrom (X.base.onItem s x).1 (k + 1 - (X.base.onItem s x).2.length) xs with
          | none => simp only [Option.map_none, Option.getD_none]; omega
          | some j => simp only [Option.map_some, Option.getD_some]; omega
    | cons o p ih =>
      intro r K k hk
      cases K with
      | zero => omega
      | succ K =>
        simp only [probeFrom, demand_pend]
        cases k with
        | zero => simp [needFrom_zero]; omega
        | succ k =>
          rw [List.getElem?_cons_succ, ih r K k (by omega)]
          simp only [List.length_cons]
          have e : k + 1 + 1 - (p.length + 1) = k + 1 - p.length := by omega
          rw [e]
          congr 2
          simp only [decide_eq_decide]; omega

end StopStage

/-! ### the pull counter after `k` requests as a function -/

/-- what the plain loop of `S` needs for `k` outputs — the whole source when it cannot deliver them -/
def needD (S : Stage ι ο σ) (xs : List ι) (k : Nat) : Nat := (S.need xs k).getD xs.length

/-- items pulled from `xs` when `k` requests (successful or not) have been made on `X` -/
def StopStage.reqReads (X : StopStage ι ο σ) (xs : List ι) (k : Nat) : Nat :=
  min (needD X.base xs k) (X.cut xs)

theorem needD_le (S : Stage ι ο σ) (xs : List ι) (k : Nat) : needD S xs k ≤ xs.length := by
  unfold needD
  cases h : S.need xs k with
  | none => simp
  | some j => simpa using need_le_length S xs k j h

theorem needD_mono (S : Stage ι ο σ) (xs : List ι) {k k' : Nat} (hk : k ≤ k') :
    needD S xs k ≤ needD S xs k' := by
  unfold needD
  cases h' : S.need xs k' with
  | none =>
    simp only [Option.getD_none]
    exact needD_le S xs k
  | some j' =>
    cases h : S.need xs k with
    | none =>
      have h1 := (need_eq_none_iff S xs k).1 h
      have h2 := (need_isSome_iff S xs k').1 (by rw [h']; rfl)
      omega
    | some j => simpa using Stage.need_mono S xs hk h h'

/-- **closed form of the protocol**: request `k+1` on `X` delivers iff `k < |X.run xs|`, and the
    source has then been read `reqReads (k+1)` times -/
theorem StopStage.probe_closed (X : StopStage ι ο σ) (xs : List ι) (K k : Nat) (hk : k < K) :
    (X.probe xs K)[k]? = some (decide (k < (X.run xs).length), X.reqReads xs (k + 1)) := by
  unfold StopStage.probe Stage.start
  rw [StopStage.probeFrom_closed X xs _ _ 0 K k hk]
  simp only [StopStage.reqReads, needD, Stage.need, StopStage.cut, StopStage.run, Stage.run,
    Stage.emit, StopStage.tailLen, List.length_append, Nat.zero_add, Nat.add_assoc]
  rfl

theorem StopStage.reqReads_mono (X : StopStage ι ο σ) (xs : List ι) {k k' : Nat} (hk : k ≤ k') :
    X.reqReads xs k ≤ X.reqReads xs k' := by
  unfold StopStage.reqReads
  have := needD_mono X.base xs hk
  omega

/-! ### a consumer stage on top: `X.comp T` -/

/-- `T` needs exactly `f k` items for `k` outputs on every source whose length satisfies `B`:
    `some (f k)` when the source has them, `none` otherwise -/
def ExactNeed (T : Stage π ο τ) (f : Nat → Nat) (B : Nat → Prop) : Prop :=
  ∀ (ys : List π), B ys.length → ∀ k, T.need ys k = if f k ≤ ys.length then some (f k) else none

theorem HasNeed.exact [Inhabited π] {T : Stage π ο τ} {f : Nat → Nat} (h : HasNeed T f) :
    ExactNeed T f (fun _ => True) := by
  intro ys _ k
  split
  · next hle => exact h ys k hle
  · next hgt =>
    cases hn : T.need ys k with
    | none => rfl
    | some j =>
      exfalso
      have hj := need_le_length T ys k j hn
      have h1 := h (ys ++ List.replicate (f k) default) k (by simp)
      have h2 := (Stage.nonInterference T ys (ys ++ List.replicate (f k) default) k j hn
        (by rw [List.take_append_of_le_length hj])).1
      rw [h1] at h2
      cases h2
      omega

theorem StopStage.cutFrom_comp (X : StopStage ι π σ) (T : Stage π ο τ) : ∀ (xs : List ι) (s : σ) (t : τ),
    (X.comp T).cutFrom (s, t) xs = X.cutFrom s xs := by
  intro xs
  induction xs with
  | nil => intro s t; rfl
  | cons x xs ih =>
    intro s t
    simp only [StopStage.cutFrom]
    show (if X.done s = true then 0 else
      (X.comp T).cutFrom ((X.base.onItem s x).1, T.stateFrom t (X.base.onItem s x).2) xs + 1) = _
    rw [ih]

theorem StopStage.cut_comp (X : StopStage ι π σ) (T : Stage π ο τ) (xs : List ι) :
    (X.comp T).cut xs = X.cut xs := StopStage.cutFrom_comp X T xs _ _

/-- reads of `X` followed by `T`: what `X` reads in order to answer the `f k` requests `T` makes -/
theorem StopStage.reqReads_comp (X : StopStage ι π σ) (T : Stage π ο τ) {f : Nat → Nat}
    {B : Nat → Prop} (hT : ExactNeed T f B) (xs : List ι) (hB : B (X.base.emit xs).length) (k : Nat) :
    (X.comp T).reqReads xs k = X.reqReads xs (f k) := by
  unfold StopStage.reqReads
  rw [StopStage.cut_comp]
  congr 1
  unfold needD
  show ((X.base ▷ T).need xs k).getD xs.length = _
  rw [Stage.need_comp, hT _ hB k]
  split
  · rfl
  · next hgt =>
    have : X.base.need xs (f k) = none := (need_eq_none_iff _ _ _).2 (by omega)
    rw [this]; rfl

/-! ### a consumer that stops asking after `c` items: `X.cap c` -/

theorem StopStage.needFrom_cap (X : StopStage ι ο σ) (c : Nat) : ∀ (xs : List ι) (s : σ) (m j : Nat),
    (X.cap c).base.needFrom (s, m) j xs = if j ≤ m then X.base.needFrom s j xs else none := by
  intro xs
  induction xs with
  | nil =>
    intro s m j
    cases j with
    | zero => simp [needFrom_zero]
    | succ j => simp [needFrom]
  | cons x xs ih =>
    intro s m j
    cases j with
    | zero => simp [needFrom_zero]
    | succ j =>
      rw [needFrom, needFrom]
      show Option.map (· + 1) ((X.cap c).base.needFrom ((X.base.onItem s x).1, m - (X.base.onItem s x).2.length)
        (j + 1 - ((X.base.onItem s x).2.take m).length) xs) = _
      rw [ih, List.length_take]
      by_cases hjm : j + 1 ≤ m
      · rw [if_pos hjm, if_pos (by omega)]
        congr 2
        omega
      · rw [if_neg hjm, if_neg (by omega)]
        rfl

theorem StopStage.need_cap (X : StopStage ι ο σ) (c : Nat) (xs : List ι) (k : Nat) :
    (X.cap c).base.need xs k = if k ≤ c then X.base.need xs k else none := by
  unfold Stage.need
  show (X.cap c).base.needFrom (X.base.init, c - X.base.pre.length) (k - (X.base.pre.take c).length) xs = _
  rw [StopStage.needFrom_cap, List.length_take]
  by_cases hk : k ≤ c
  · rw [if_pos hk, if_pos (by omega)]
    congr 1
    omega
  · rw [if_neg hk, if_neg (by omega)]

theorem StopStage.emit_cap_length (X : StopStage ι ο σ) (c : Nat) (xs : List ι) :
    ((X.cap c).base.emit xs).length ≤ c := by
  have h : (X.cap c).base.need xs (c + 1) = none := by
    rw [StopStage.need_cap, if_neg (by omega)]
  have := (need_eq_none_iff _ _ _).1 h
  omega

theorem StopStage.cutFrom_cap_gen (X : StopStage ι ο σ) (c : Nat) : ∀ (xs : List ι) (s : σ) (m : Nat),
    (X.cap c).cutFrom (s, m) xs =
      min (X.cutFrom s xs) ((X.base.needFrom s m xs).getD xs.length) := by
  intro xs
  induction xs with
  | nil => intro s m; simp [StopStage.cutFrom]
  | cons x xs ih =>
    intro s m
    cases hd : X.done s with
    | true => simp [StopStage.cutFrom, StopStage.cap, hd]
    | false =>
      cases m with
      | zero => simp [StopStage.cutFrom, StopStage.cap, hd, needFrom_zero]
      | succ m =>
        have hdc : (X.cap c).done (s, m + 1) = false := by simp [StopStage.cap, hd]
        rw [StopStage.cutFrom, if_neg (by simp [hdc])]
        show (X.cap c).cutFrom ((X.base.onItem s x).1, m + 1 - (X.base.onItem s x).2.length) xs + 1 = _
        rw [ih, StopStage.cutFrom, if_neg (by simp [hd]), needFrom]
        cases X.base.needFrom (X.base.onItem s x).1 (m + 1 - (X.base.onItem s x).2.length) xs with
        | none => simp only [Option.map_none, Option.getD_none, List.length_cons]; omega
        | some j => simp only [Option.map_some, Option.getD_some]; omega

theorem StopStage.cut_cap (X : StopStage ι ο σ) (c : Nat) (xs : List ι) :
    (X.cap c).cut xs = min (X.cut xs) (needD X.base xs c) :=
  StopStage.cutFrom_cap_gen X c xs _ _

/-- reads of `X` under a consumer that asks at most `c` times: the first `min k c` requests -/
theorem StopStage.reqReads_cap (X : StopStage ι ο σ) (c : Nat) (xs : List ι) (k : Nat) :
    (X.cap c).reqReads xs k = X.reqReads xs (min k c) := by
  unfold StopStage.reqReads
  rw [StopStage.cut_cap]
  have hcl := StopStage.cutFrom_le X xs X.base.init
  have hc : X.cut xs ≤ xs.length := hcl
  unfold needD
  rw [StopStage.need_cap]
  by_cases hk : k ≤ c
  · rw [if_pos hk, Nat.min_eq_left hk]
    have := needD_mono X.base xs hk
    unfold needD at this
    omega
  · have e : min k c = c := by omega
    rw [if_neg hk, e, Option.getD_none]
    have := needD_le X.base xs c
    unfold needD at this
    omega

/-! ### the loops of the library's stopping stages, seen by what sits in front of them -/

theorem emitFrom_mapS_length (g : α → ο) : ∀ (l : List α) (u : Unit),
    ((mapS g).emitFrom u l).length = l.length := by
  intro l
  induction l with
  | nil => intro u; rfl
  | cons a l ih =>
    intro u
    rw [emitFrom, List.length_append, ih]
    show 1 + l.length = l.length + 1
    omega

theorem exactNeed_mapS (g : α → ο) : ExactNeed (mapS g) (fun k => k) (fun _ => True) := by
  intro ys _ k
  show (mapS g).need ys k = if k ≤ ys.length then some k else none
  split
  · next h => exact hasNeed_mapS g ys k h
  · next h =>
    rw [need_eq_none_iff]
    have : ((mapS g).emit ys).length = ys.length := by
      unfold Stage.emit
      rw [List.length_append, emitFrom_mapS_length]
      show 0 + _ = _
      omega
    omega

theorem emitFrom_takewhile_length (n : Nat) : ∀ (ys : List α) (i : Nat),
    ((takewhileX (α := α) n).base.emitFrom i ys).length = min ys.length (n - i) := by
  intro ys
  induction ys with
  | nil => intro i; simp [emitFrom]
  | cons y ys ih =>
    intro i
    rw [emitFrom, List.length_append]
    show ((if decide (i < n) = true then [y] else []) : List α).length +
      ((takewhileX (α := α) n).base.emitFrom (i + 1) ys).length = _
    rw [ih]
    by_cases h : i < n
    · simp [h]; omega
    · simp [h]; omega

/-- the loop of `takewhile` (first `n` items pass) in front of at most `n + 1` items: output `k ≤ n`
    needs `k` items, no further output exists -/
theorem exactNeed_takewhile (n : Nat) :
    ExactNeed (takewhileX (α := α) n).base (fun k => if k ≤ n then k else n + 2) (· ≤ n + 1) := by
  intro ys hB k
  have hem : ∀ l : List α, ((takewhileX (α := α) n).base.emit l).length = min l.length n := by
    intro l
    unfold Stage.emit
    rw [List.length_append, emitFrom_takewhile_length]
    show 0 + min l.length (n - 0) = _
    omega
  have hB' : ys.length ≤ n + 1 := hB
  by_cases hk : k ≤ n
  · simp only [if_pos hk]
    split
    · next hle =>
      rw [need_spec]
      refine ⟨hle, ?_, ?_⟩
      · rw [hem, List.length_take]; omega
      · intro j' hj'; rw [hem, List.length_take]; omega
    · next hgt => rw [need_eq_none_iff, hem]; omega
  · simp only [if_neg hk]
    rw [if_neg (by omega), need_eq_none_iff, hem]; omega

/-- the loop of `islice(start, stop, step)` from counter `cnt`, next index `nxt`, in front of at most
    `max nxt stop - cnt` items: output `k` is item `nxt + (k-1)*step` -/
theorem needFrom_isliceX (start stop step : Nat) (hstep : 0 < step) :
    ∀ (ys : List α) (cnt nxt k : Nat), cnt ≤ nxt → cnt + ys.length ≤ max nxt stop →
    (isliceX (α := α) start stop step).base.needFrom (cnt, nxt) k ys =
      if k = 0 then some 0
      else if nxt - cnt + (k - 1) * step + 1 ≤ ys.length then some (nxt - cnt + (k - 1) * step + 1)
      else none := by
  intro ys
  induction ys with
  | nil =>
    intro cnt nxt k _ _
    cases k with
    | zero => simp [needFrom_zero]
    | succ k => simp [needFrom]
  | cons y ys ih =>
    intro cnt nxt k h1 h2
    cases k with
    | zero => simp [needFrom_zero]
    | succ k =>
      rw [needFrom]
      simp only [List.length_cons] at h2
      by_cases hlt : cnt < nxt
      · have e : (isliceX (α := α) start stop step).base.onItem (cnt, nxt) y = ((cnt + 1, nxt), []) := by
          simp [isliceX, hlt]
        rw [e]
        simp only [List.length_nil, Nat.sub_zero]
        rw [ih (cnt + 1) nxt (k + 1) (by omega) (by omega)]
        simp only [Nat.add_sub_cancel, Nat.succ_ne_zero, if_false, List.length_cons]
        generalize k * step = P
        split
        · next h => rw [if_pos (by omega)]; simp only [Option.map_some]; congr 1; omega
        · next h => rw [if_neg (by omega)]; rfl
      · have hc : cnt = nxt := by omega
        subst hc
        have e : (isliceX (α := α) start stop step).base.onItem (cnt, cnt) y =
            ((cnt + 1, min (cnt + step) stop), [y]) := by
          simp [isliceX]
        rw [e]
        simp only [List.length_cons, List.length_nil, Nat.add_sub_cancel, Nat.sub_self, Nat.zero_add,
          Nat.succ_ne_zero, if_false]
        rw [ih (cnt + 1) (min (cnt + step) stop) k (by omega) (by omega)]
        cases k with
        | zero => simp
        | succ k =>
          simp only [Nat.succ_ne_zero, if_false, Nat.add_sub_cancel, Nat.succ_mul]
          generalize k * step = P
          by_cases hs : cnt + step ≤ stop
          · have em : min (cnt + step) stop = cnt + step := by omega
            rw [em]
            split
            · next h => rw [if_pos (by omega)]; simp only [Option.map_some]; congr 1; omega
            · next h => rw [if_neg (by omega)]; rfl
          · rw [if_neg (by omega), if_neg (by omega)]; rfl

theorem exactNeed_isliceX (start stop step : Nat) (hstep : 0 < step) :
    ExactNeed (isliceX (α := α) start stop step).base
      (fun k => if k = 0 then 0 else start + (k - 1) * step + 1) (· ≤ max start stop) := by
  intro ys hB k
  have hB' : ys.length ≤ max start stop := hB
  unfold Stage.need
  show (isliceX (α := α) start stop step).base.needFrom (0, start) (k - 0) ys = _
  rw [needFrom_isliceX start stop step hstep ys 0 start (k - 0) (Nat.zero_le _) (by omega)]
  simp only [Nat.sub_zero]
  by_cases hk : k = 0
  · simp [hk]
  · simp only [if_neg hk]

theorem cutFrom_isliceX (start stop step : Nat) (hstep : 0 < step) :
    ∀ (ys : List α) (cnt nxt : Nat), cnt ≤ nxt →
    (isliceX (α := α) start stop step).cutFrom (cnt, nxt) ys = min (max nxt stop - cnt) ys.length := by
  intro ys
  induction ys with
  | nil => intro cnt nxt _; simp [StopStage.cutFrom]
  | cons y ys ih =>
    intro cnt nxt h
    rw [StopStage.cutFrom]
    show (if decide (nxt ≤ cnt ∧ stop ≤ cnt) = true then 0 else
      (isliceX (α := α) start stop step).cutFrom
        ((isliceX (α := α) start stop step).base.onItem (cnt, nxt) y).1 ys + 1) = _
    by_cases hd : nxt ≤ cnt ∧ stop ≤ cnt
    · rw [if_pos (by simpa using hd)]; omega
    · rw [if_neg (by simpa using hd)]
      by_cases hlt : cnt < nxt
      · have e : (isliceX (α := α) start stop step).base.onItem (cnt, nxt) y = ((cnt + 1, nxt), []) := by
          simp [isliceX, hlt]
        rw [e, ih (cnt + 1) nxt (by omega)]
        simp only [List.length_cons]; omega
      · have hc : cnt = nxt := by omega
        subst hc
        have e : (isliceX (α := α) start stop step).base.onItem (cnt, cnt) y =
            ((cnt + 1, min (cnt + step) stop), [y]) := by
          simp [isliceX]
        rw [e, ih (cnt + 1) (min (cnt + step) stop) (by omega)]
        simp only [List.length_cons]; omega

/-- the pull counters are those on the source cut at the exit point -/
theorem StopStage.reqReads_trunc (X : StopStage ι ο σ) (xs : List ι) (k : Nat) :
    X.reqReads (xs.take (X.cut xs)) k = X.reqReads xs k := by
  cases k with
  | zero =>
    unfold StopStage.reqReads needD Stage.need
    simp [needFrom_zero]
  | succ k =>
    have h1 := StopStage.probe_closed X xs (k + 1) k (Nat.lt_succ_self k)
    have h2 := StopStage.probe_closed X (xs.take (X.cut xs)) (k + 1) k (Nat.lt_succ_self k)
    have ht : X.probe (xs.take (X.cut xs)) (k + 1) = X.probe xs (k + 1) :=
      StopStage.probeFrom_trunc X (k + 1) X.base.start xs
    rw [ht, h1] at h2
    simp only [Option.some.injEq, Prod.mk.injEq] at h2
    exact h2.2.symm

/-- **`islice(seq, start, stop, step)`** (CPython `islice_next`): `k` requests read
    `needIsliceStop` items — output `k` is item `start + (k-1)*step`; once drained `max start stop`
    items have been read (also when `start > stop`), never more. -/
theorem reqReads_isliceX (start stop step : Nat) (hstep : 0 < step) (xs : List α) (k : Nat) :
    (isliceX start stop step).reqReads xs k = min (needIsliceStop start stop step k) xs.length := by
  have hcut : ∀ l : List α, (isliceX start stop step).cut l = min (max start stop) l.length := by
    intro l
    have := cutFrom_isliceX (α := α) start stop step hstep l 0 start (Nat.zero_le _)
    simp only [Nat.sub_zero] at this
    exact this
  rw [← StopStage.reqReads_trunc, hcut xs]
  generalize hl : xs.take (min (max start stop) xs.length) = l
  have hlen : l.length = min (max start stop) xs.length := by
    rw [← hl, List.length_take]; omega
  unfold StopStage.reqReads
  rw [hcut l]
  unfold needD
  rw [exactNeed_isliceX start stop step hstep l (by show l.length ≤ max start stop; omega) k]
  unfold needIsliceStop
  by_cases hk : k = 0
  · subst hk; simp
  · simp only [if_neg hk]
    generalize (k - 1) * step = P
    split
    · simp only [Option.getD_some]; omega
    · simp only [Option.getD_none]; omega

/-! ### chains -/

theorem cutFrom_never (S : Stage ι ο σ) : ∀ (xs : List ι) (s : σ),
    (StopStage.never S).cutFrom s xs = xs.length := by
  intro xs
  induction xs with
  | nil => intro s; rfl
  | cons x xs ih => intro s; simp [StopStage.cutFrom, StopStage.never] at ih ⊢; exact ih _

/-- the source itself (identity stage, no exit test): `k` requests read `min k |xs|` items -/
theorem reqReads_source (xs : List Unit) (k : Nat) :
    (StopStage.never (mapS u1)).reqReads xs k = min k xs.length := by
  unfold StopStage.reqReads StopStage.cut needD
  rw [cutFrom_never]
  show min (((mapS u1).need xs k).getD xs.length) xs.length = _
  have e : (mapS u1).need xs k = if k ≤ xs.length then some k else none :=
    exactNeed_mapS u1 xs trivial k
  rw [e]
  split
  · simp only [Option.getD_some]
  · simp only [Option.getD_none]; omega

/-- **chains with stopping stages**: what the chain built on top of `cur` reads for `k` requests is
    what `cur` reads for `needOfXChain ds k` requests — by induction on the chain. -/
theorem reqReads_buildX : ∀ (ds : List XDesc) (cur : AnyStop), (∀ d ∈ ds, d.Valid) →
    ∀ (xs : List Unit) (k : Nat),
      (buildX cur ds).st.reqReads xs k = cur.st.reqReads xs (needOfXChain ds k) := by
  intro ds
  induction ds with
  | nil => intro cur _ xs k; rfl
  | cons d ds ih =>
    intro cur hv xs k
    have hvd : d.Valid := hv d (List.mem_cons_self ..)
    have hvs : ∀ e ∈ ds, e.Valid := fun e he => hv e (List.mem_cons_of_mem _ he)
    cases d with
    | plain d =>
      show (buildX ⟨_, cur.st.comp (build d).st⟩ ds).st.reqReads xs k = _
      rw [ih _ hvs xs k]
      exact StopStage.reqReads_comp cur.st (build d).st (hasNeed_build d hvd).exact xs trivial _
    | limit N =>
      show (buildX ⟨_, (cur.st.cap N).comp (mapS u1)⟩ ds).st.reqReads xs k = _
      rw [ih _ hvs xs k]
      show ((cur.st.cap N).comp (mapS u1)).reqReads xs _ = _
      rw [StopStage.reqReads_comp _ _ (exactNeed_mapS u1) xs trivial, StopStage.reqReads_cap]
      rfl
    | takewhile n =>
      show (buildX ⟨_, (cur.st.cap (n + 1)).comp (takewhileX n).base⟩ ds).st.reqReads xs k = _
      rw [ih _ hvs xs k]
      show ((cur.st.cap (n + 1)).comp (takewhileX n).base).reqReads xs _ = _
      rw [StopStage.reqReads_comp _ _ (exactNeed_takewhile n) xs
        (StopStage.emit_cap_length cur.st (n + 1) xs), StopStage.reqReads_cap]
      show cur.st.reqReads xs _ = cur.st.reqReads xs (min (needOfXChain ds k) (n + 1))
      congr 1
      split <;> omega
    | islice start stop step =>
      show (buildX ⟨_, (cur.st.cap (max start stop)).comp (isliceX start stop step).base⟩ ds).st.reqReads xs k = _
      rw [ih _ hvs xs k]
      show ((cur.st.cap (max start stop)).comp (isliceX start stop step).base).reqReads xs _ = _
      rw [StopStage.reqReads_comp _ _ (exactNeed_isliceX start stop step hvd) xs
        (StopStage.emit_cap_length cur.st (max start stop) xs), StopStage.reqReads_cap]
      show cur.st.reqReads xs _ = cur.st.reqReads xs (needIsliceStop start stop step (needOfXChain ds k))
      congr 1
      unfold needIsliceStop
      split
      · omega
      · rfl

/-- the pull counter of a chain with stopping stages after request `k+1`, on a source of ANY length
    `n`, asked ANY number of times: the composed closed form, capped by the source -/
theorem chainProbe_reads (ds : List XDesc) (hv : ∀ d ∈ ds, d.Valid) (n K k : Nat) (hk : k < K) :
    ((chainProbe ds n K)[k]?).map (·.2) = some (min (needOfXChain ds (k + 1)) n) := by
  unfold chainProbe
  rw [StopStage.probe_closed _ _ K k hk]
  simp only [Option.map_some]
  unfold buildXChain
  rw [reqReads_buildX ds _ hv, reqReads_source, List.length_replicate]

theorem chainProbe_delivered (ds : List XDesc) (n K k : Nat) (hk : k < K) :
    ((chainProbe ds n K)[k]?).map (·.1) = some (decide (k < chainXOutLen ds n)) := by
  unfold chainProbe chainXOutLen
  rw [StopStage.probe_closed _ _ K k hk]
  rfl

/-- the closed forms are monotone in the number of requests (read off the protocol) -/
theorem needOfXChain_mono (ds : List XDesc) (hv : ∀ d ∈ ds, d.Valid) {k k' : Nat} (hk : k ≤ k') :
    needOfXChain ds k ≤ needOfXChain ds k' := by
  let n := max (needOfXChain ds k) (needOfXChain ds k')
  have h := StopStage.reqReads_mono (buildXChain ds).st (List.replicate n ()) hk
  unfold buildXChain at h
  rw [reqReads_buildX ds _ hv, reqReads_buildX ds _ hv, reqReads_source, reqReads_source,
    List.length_replicate] at h
  omega

end ALV.C02
