/-
  C09 — lemmas about the normalisation gain: the code's
  `max(map(sum, zip(*Stream(wnd).map(abs).blocks(hop).map(tuple))))` is the largest hop-strided
  sum of |w| of the specification.  Uses the C08 theorem (`blocks = blocksSpec`).
-/
import ALV.Lemmas.C08
import ALV.Props.C08
import ALV.Lemmas.C09
import Mathlib.Algebra.Field.Defs
import Mathlib.Tactic.Ring

namespace ALV.C09
open ALV.C08
variable {α : Type}

/-! ### facts about the C08 specification used here and by the inverse theorem -/

theorem blocksSpec_row_length (size hop : Nat) (hs : 0 < size) (hh : 0 < hop) (pad : α) (xs : List α) :
    ∀ B ∈ blocksSpec size hop pad xs, B.length = size := by
  fun_induction blocksSpec size hop pad xs with
  | case1 xs h hc =>
    intro B hB
    simp only [List.mem_singleton] at hB
    subst hB
    simp only [List.length_append, List.length_replicate]
    omega
  | case2 xs h hc => intro B hB; simp at hB
  | case3 xs h ih =>
    intro B hB
    simp only [List.mem_cons] at hB
    rcases hB with rfl | hB
    · simp only [List.length_take]; omega
    · exact ih B hB

theorem blocksSpec_getD (size hop : Nat) (_hh : 0 < hop) (pad : α) (xs : List α) :
    ∀ k, k < (blocksSpec size hop pad xs).length → ∀ i, i < size →
      ((blocksSpec size hop pad xs).getD k []).getD i pad = xs.getD (k * hop + i) pad := by
  fun_induction blocksSpec size hop pad xs with
  | case1 xs h hc =>
    intro k hk i hi
    simp only [List.length_singleton] at hk
    have : k = 0 := by omega
    subst this
    simp only [List.getD_cons_zero, Nat.zero_mul, Nat.zero_add]
    simp only [List.getD_eq_getElem?_getD]
    by_cases hx : i < xs.length
    · rw [List.getElem?_append_left hx]
    · rw [List.getElem?_append_right (by omega), List.getElem?_eq_none (l := xs) (by omega)]
      simp only [List.getElem?_replicate]
      split <;> rfl
  | case2 xs h hc => intro k hk; simp at hk
  | case3 xs h ih =>
    intro k hk i hi
    cases k with
    | zero =>
      simp only [Nat.zero_mul, Nat.zero_add, List.getD_eq_getElem?_getD, List.getElem?_cons_zero,
        Option.getD_some]
      rw [List.getElem?_take_of_lt hi]
    | succ k =>
      simp only [List.length_cons] at hk
      simp only [List.getD_cons_succ]
      rw [ih k (by omega) i hi]
      simp only [List.getD_eq_getElem?_getD, List.getElem?_drop]
      congr 2
      rw [Nat.add_mul]; omega

theorem blocksSpec_length_same (h : Nat) (hh : 0 < h) (pad : α) (xs : List α) :
    (blocksSpec h h pad xs).length = (xs.length + h - 1) / h := by
  fun_induction blocksSpec h h pad xs with
  | case1 xs hc hp =>
    have hlt : xs.length < h := by omega
    simp only [List.length_singleton]
    have e : xs.length + h - 1 = (xs.length - 1) + 1 * h := by omega
    rw [e, Nat.add_mul_div_right _ _ hh, Nat.div_eq_of_lt (by omega)]
  | case2 xs hc hp =>
    have h0 : xs.length = 0 := by omega
    simp only [List.length_nil, h0, Nat.zero_add]
    exact (Nat.div_eq_of_lt (by omega)).symm
  | case3 xs hc ih =>
    simp only [List.length_cons, ih, List.length_drop]
    have e : xs.length + h - 1 = (xs.length - h + h - 1) + 1 * h := by omega
    rw [e, Nat.add_mul_div_right _ _ hh]

/-! ### sums and maxima over `List.range` -/

section
set_option linter.unusedSectionVars false
variable {K : Type} [Field K] [LT K] [DecidableLT K] [DecidableEq K]

theorem absS_zero : absS (0 : K) = 0 := by
  unfold absS
  split
  · exact neg_zero
  · rfl

theorem pyAbs_eq_absS (x : K) : pyAbs x = absS x := rfl

theorem pySum_range_map (m : Nat) (f : Nat → K) : pySum ((List.range m).map f) = sumTo m f := by
  induction m with
  | zero => rfl
  | succ m ih =>
    unfold pySum at ih ⊢
    rw [List.range_succ, List.map_append, List.foldl_append, ih]
    rfl

theorem pyMax_snoc (l : List K) (b y : K) (h : pyMax l = some b) :
    pyMax (l ++ [y]) = some (if b < y then y else b) := by
  cases l with
  | nil => simp [pyMax] at h
  | cons x xs =>
    simp only [pyMax, Option.some.injEq] at h
    simp only [List.cons_append, pyMax, List.foldl_append, h, List.foldl_cons, List.foldl_nil]

theorem pyMax_range_map (h : Nat) (f : Nat → K) :
    pyMax ((List.range (h + 1)).map f) = some (maxTo (h + 1) f) := by
  induction h with
  | zero => rfl
  | succ h ih =>
    rw [List.range_succ, List.map_append, List.map_singleton, pyMax_snoc _ _ _ ih]
    rfl

theorem map_eq_range_map {β γ : Type} (l : List β) (d : β) (g : β → γ) :
    l.map g = (List.range l.length).map fun i => g (l.getD i d) := by
  apply List.ext_getElem
  · simp
  · intro i h1 h2
    simp [List.getD_eq_getElem?_getD, List.getElem?_eq_getElem (by simpa using h1 : i < l.length)]

theorem minLen_fold (h : Nat) (rs : List (List K)) (hr : ∀ r ∈ rs, r.length = h) :
    rs.foldl (fun m row => min m row.length) h = h := by
  induction rs with
  | nil => rfl
  | cons r rs ih =>
    rw [List.foldl_cons, hr r (by simp), Nat.min_self]
    exact ih (fun r' h' => hr r' (by simp [h']))

theorem zipStar_eq (h : Nat) (rows : List (List K)) (hne : rows ≠ []) (hr : ∀ r ∈ rows, r.length = h) :
    zipStar rows = (List.range h).map fun j => rows.map fun row => row.getD j 0 := by
  cases rows with
  | nil => exact absurd rfl hne
  | cons r rs =>
    show (List.range (rs.foldl (fun m row => min m row.length) r.length)).map _ = _
    rw [hr r (by simp), minLen_fold h rs (fun r' h' => hr r' (by simp [h']))]

theorem getD_map_absS (w : List K) (i : Nat) : (w.map absS).getD i 0 = absS (w.getD i 0) := by
  simp only [List.getD_eq_getElem?_getD, List.getElem?_map]
  cases w[i]? with
  | none => exact absS_zero.symm
  | some x => rfl

/-- the code's gain is the specification's largest hop-strided sum of |w| -/
theorem hopGain_eq (h : Nat) (hh : 0 < h) (w : List K) (hw : w ≠ []) :
    hopGain h w = some (maxStrided w h) := by
  show pyMax ((zipStar (ALV.C08.blocks h h (0 : K) (w.map pyAbs))).map pySum) = _
  have hpa : w.map pyAbs = w.map absS := rfl
  rw [hpa, ALV.Props.C08.blocks_eq_spec h h hh hh]
  have hlen := blocksSpec_length_same h hh (0 : K) (w.map absS)
  have hrow := blocksSpec_row_length h h hh hh (0 : K) (w.map absS)
  have hget := blocksSpec_getD h h hh (0 : K) (w.map absS)
  rw [List.length_map] at hlen
  have hpos : 0 < w.length := List.length_pos_iff.2 hw
  have hn : 0 < (w.length + h - 1) / h := by
    apply Nat.div_pos <;> omega
  generalize blocksSpec h h (0 : K) (w.map absS) = rows at hlen hrow hget
  have hne : rows ≠ [] := by
    intro e; rw [e] at hlen; simp at hlen; omega
  rw [zipStar_eq h rows hne hrow, List.map_map]
  obtain ⟨h', rfl⟩ : ∃ h', h = h' + 1 := ⟨h - 1, by omega⟩
  rw [pyMax_range_map]
  unfold maxStrided
  congr 1
  -- the two maxima run over the same column sums
  have hcol : ∀ j, j < h' + 1 →
      (pySum ∘ fun j => rows.map fun row => row.getD j 0) j = stridedAbsSum w (h' + 1) j := by
    intro j hj
    simp only [Function.comp]
    rw [map_eq_range_map rows [] (fun row => row.getD j 0), pySum_range_map, hlen]
    unfold stridedAbsSum
    apply sumTo_congr
    intro i hi
    rw [hget i (by omega) j hj, getD_map_absS]
    congr 2
    omega
  clear hn hne hlen hrow hget
  generalize (pySum ∘ fun j => rows.map fun row => row.getD j 0) = F at hcol
  generalize stridedAbsSum w (h' + 1) = G at hcol
  -- maxTo only looks at indices below its bound
  have : ∀ n, n ≤ h' → maxTo (n + 1) F = maxTo (n + 1) G := by
    intro n
    induction n with
    | zero => intro _; exact hcol 0 (by omega)
    | succ n ih =>
      intro hn
      show (let m := maxTo (n + 1) F; if m < F (n + 1) then F (n + 1) else m) =
        (let m := maxTo (n + 1) G; if m < G (n + 1) then G (n + 1) else m)
      rw [ih (by omega), hcol (n + 1) (by omega)]
  exact this h' (Nat.le_refl _)

end

/-! ### normalising the window = putting the gain in front of the sum -/

section
variable {K : Type} [Field K]

theorem getD_map_div (w : List K) (G : K) (i : Nat) :
    (w.map (· / G)).getD i 0 = w.getD i 0 / G := by
  simp only [List.getD_eq_getElem?_getD, List.getElem?_map]
  cases w[i]? with
  | none => simp
  | some x => rfl

theorem olaSpec_scale (w : List K) (G : K) (size h : Nat) (Bs : List (List K)) :
    olaSpec 1 (w.map (· / G)) size h Bs = olaSpec (1 / G) w size h Bs := by
  unfold olaSpec
  apply List.map_congr_left
  intro n _
  unfold olaAt
  apply sumTo_congr
  intro k _
  split
  · rw [getD_map_div]; ring
  · rfl

theorem replicate_one_div (size : Nat) (c : K) :
    List.replicate size (1 / c) = (List.replicate size (1 : K)).map (· / c) := by
  simp

end

end ALV.C09
