/-
  C08 — the generic-index loop of the call layer against the table `hopTable`:
  generic lemmas about stretches of the loop that hand out nothing (any index type, no algebraic law
  needed: the index sequence is given as a function), then the exact-rational instance for
  `size = 0`, for whole positive hops and for hops that are ≤ 0 or not whole numbers.
  Core Lean only.
-/
import ALV.Lemmas.C08Mut
namespace ALV.C08
variable {α : Type}

section Generic
variable {ι : Type} [Add ι] [LT ι] [DecidableEq ι] [DecidableRel (fun a b : ι => a < b)]
  [OfNat ι 0] [OfNat ι 1]

theorem gloopEv_appendG (size : Nat) (last r : ι) (rInt : Bool) :
    ∀ (a b : List α) (s : GState ι α) (n : Nat),
      gloopEv size last r rInt s n (a ++ b) =
        ((gloopEv size last r rInt s n a).1 ++
            (gloopEv size last r rInt (gloopEv size last r rInt s n a).2 (n + a.length) b).1,
          (gloopEv size last r rInt (gloopEv size last r rInt s n a).2 (n + a.length) b).2) := by
  intro a
  induction a with
  | nil => intro b s n; simp [gloopEv]
  | cons x a ih =>
    intro b s n
    simp only [List.cons_append, gloopEv, ih, List.append_assoc, List.length_cons]
    have : n + 1 + a.length = n + (a.length + 1) := by omega
    rw [this]

/-- a stretch where the index (the values `f j, f (j+1), …`) is never negative and never `last`:
nothing is handed out, every item goes into the deque -/
theorem gloopEv_quietG (size : Nat) (last r : ι) (rInt : Bool) (f : Nat → ι)
    (hf : ∀ k, f (k + 1) = f k + 1) :
    ∀ (xs : List α) (s : GState ι α) (n j : Nat), s.idx = f j →
      (∀ k, j ≤ k → k < j + xs.length → ¬ f k < 0 ∧ f k ≠ last) →
      gloopEv size last r rInt s n xs = ([], ⟨pushAll size s.res xs, f (j + xs.length), s.isInt⟩) := by
  intro xs
  induction xs with
  | nil =>
    intro s n j hj _
    cases s with
    | mk res idx isInt =>
      simp only at hj
      simp [gloopEv, pushAll, hj]
  | cons x xs ih =>
    intro s n j hj hq
    obtain ⟨h1, h2⟩ := hq j (Nat.le_refl _) (by simp)
    rw [← hj] at h1 h2
    have hs : gstep size last r rInt s x = (⟨dqPush size s.res x, s.idx + 1, s.isInt⟩, none) := by
      simp only [gstep, if_neg h1, if_neg h2]
    simp only [gloopEv, hs]
    rw [ih _ (n + 1) (j + 1) (by show s.idx + 1 = f (j + 1); rw [hf, hj]) (by
      intro k hk1 hk2
      simp only [List.length_cons] at hq
      exact hq k (by omega) (by omega))]
    simp only [Option.toList_none, List.map_nil, List.nil_append, pushAll, List.foldl_cons, List.length_cons]
    congr 3
    omega

/-- a stretch where the index is negative or different from `last` at every step: nothing is handed out -/
theorem gloopEv_noYieldG (size : Nat) (last r : ι) (rInt : Bool) (f : Nat → ι)
    (hf : ∀ k, f (k + 1) = f k + 1) :
    ∀ (xs : List α) (s : GState ι α) (n j : Nat), s.idx = f j →
      (∀ k, j ≤ k → k < j + xs.length → f k < 0 ∨ f k ≠ last) →
      (gloopEv size last r rInt s n xs).1 = [] ∧
      (gloopEv size last r rInt s n xs).2.idx = f (j + xs.length) ∧
      (gloopEv size last r rInt s n xs).2.isInt = s.isInt := by
  intro xs
  induction xs with
  | nil => intro s n j hj _; simp [gloopEv, hj]
  | cons x xs ih =>
    intro s n j hj hq
    have h0 := hq j (Nat.le_refl _) (by simp)
    rw [← hj] at h0
    have hs : (gstep size last r rInt s x).2 = none ∧ (gstep size last r rInt s x).1.idx = s.idx + 1 ∧
        (gstep size last r rInt s x).1.isInt = s.isInt := by
      unfold gstep
      by_cases h1 : s.idx < 0
      · simp [h1]
      · have h2 : ¬ s.idx = last := by
          cases h0 with
          | inl h => exact absurd h h1
          | inr h => exact h
        simp [h1, h2]
    obtain ⟨g1, g2, g3⟩ := hs
    obtain ⟨i1, i2, i3⟩ := ih (gstep size last r rInt s x).1 (n + 1) (j + 1) (by rw [g2, hf, hj]) (by
      intro k hk1 hk2
      simp only [List.length_cons] at hq
      exact hq k (by omega) (by omega))
    simp only [gloopEv]
    refine ⟨?_, ?_, ?_⟩
    · rw [g1, i1]; rfl
    · rw [i2]; congr 1; simp only [List.length_cons]; omega
    · rw [i3, g3]

end Generic

/-! ### the exact-rational instance -/

theorem natCast_succ_rat (k : Nat) : ((k + 1 : Nat) : Rat) = (k : Rat) + 1 := by
  simp [Rat.natCast_add]

theorem natCast_floor_toNat (n : Nat) : (n : Rat).floor.toNat = n := by
  rw [← Rat.intCast_natCast, Rat.floor_intCast]; simp

theorem rat_of_den_one (q : Rat) (h : q.den = 1) : q = ((q.num : Int) : Rat) :=
  Rat.ext (by simp) (by simp [h])

theorem pushAll_nil_short (size : Nat) (xs : List α) (h : xs.length ≤ size) : pushAll size [] xs = xs := by
  rw [pushAll_eq size xs [] (by simp)]
  have : xs.length - size = 0 := by omega
  simp [lastSz, this]

theorem padTo_short (size : Nat) (pad : α) (xs : List α) (h : xs.length ≤ size) :
    padTo size pad xs (size - xs.length) = xs ++ List.replicate (size - xs.length) pad := by
  rw [padTo_eq size pad _ _ h]
  have h0 : xs.length + (size - xs.length) - size = 0 := by omega
  rw [h0, List.drop_zero]

/-- the first window over the rationals: fewer than `size` items go into the deque, index = their number -/
theorem gloopEvQ_first (size : Nat) (r : Rat) (rInt : Bool) (xs : List α) (h : xs.length < size) :
    gloopEv size ((size : Rat) - 1) r rInt (⟨[], 0, true⟩ : GState Rat α) 0 xs =
      ([], ⟨xs, (xs.length : Rat), true⟩) := by
  have := gloopEv_quietG size ((size : Rat) - 1) r rInt (fun k : Nat => (k : Rat)) natCast_succ_rat xs
    (⟨[], 0, true⟩ : GState Rat α) 0 0 (by simp) (by
      intro k _ hk
      refine ⟨by grind, fun he => ?_⟩
      have h1 : ((k + 1 : Nat) : Rat) = (size : Rat) := by rw [natCast_succ_rat]; grind
      have := Rat.natCast_inj.mp h1
      omega)
  rw [this, pushAll_nil_short size xs (by omega)]
  simp

/-- `size = 0` over the rationals: the table -/
theorem grunQ_size_zero (sz : Nat) (hsz : sz = 0) (q : Rat) (rInt : Bool) (pad : α) (xs : List α) (e : Ending) :
    grun sz ((sz : Rat) - 1) ((sz : Rat) - q) rInt (fun r : Rat => r.floor.toNat) pad xs e =
      hopTable sz q rInt pad xs e := by
  have hz : (sz : Rat) = 0 := by subst hsz; simp
  have hq := gloopEv_quietG sz ((sz : Rat) - 1) ((sz : Rat) - q) rInt (fun k : Nat => (k : Rat))
    natCast_succ_rat xs (⟨[], 0, true⟩ : GState Rat α) 0 0 (by simp) (by
      intro k _ _
      exact ⟨by grind, by grind⟩)
  have hp : pushAll sz ([] : List α) xs = [] := by
    subst hsz
    rw [pushAll_eq 0 xs [] (by simp)]; simp [lastSz]
  rw [hp] at hq
  simp only [Nat.zero_add] at hq
  unfold grun hopTable
  rw [if_pos hsz]
  cases e with
  | fail => simp only [hq]
  | stop =>
    simp only [hq, gtail, finish]
    by_cases hc : max (-q) 0 < (xs.length : Rat)
    · have hc' : (sz : Rat) - q < (xs.length : Rat) ∧ (0 : Rat) < (xs.length : Rat) := by
        constructor <;> grind
      rw [if_pos hc', decide_eq_true hc]
      subst hsz
      simp only [if_true, Nat.zero_sub, padTo, List.nil_append]
    · have hc' : ¬ ((sz : Rat) - q < (xs.length : Rat) ∧ (0 : Rat) < (xs.length : Rat)) := by
        grind
      rw [if_neg hc', decide_eq_false hc]
      simp only [Bool.false_eq_true, if_false]

/-- whole positive hop over the rationals: the run of the base model -/
theorem grunQ_whole (sz h : Nat) (rInt : Bool) (pad : α) (xs : List α) (e : Ending) :
    grun sz ((sz : Rat) - 1) ((sz : Rat) - ((h : Nat) : Rat)) rInt (fun r : Rat => r.floor.toNat) pad xs e =
      runOfBase sz h rInt pad xs e := by
  have c1 : ((sz : Nat) : Rat) - 1 = (((sz : Int) - 1 : Int) : Rat) := by
    simp [Rat.intCast_sub, Rat.intCast_natCast]
  have c2 : ((sz : Nat) : Rat) - ((h : Nat) : Rat) = (((sz : Int) - (h : Int) : Int) : Rat) := by
    simp [Rat.intCast_sub, Rat.intCast_natCast]
  rw [c1, c2, grun_rat, grun_int]

/-- hop ≤ 0 or not a whole number, at least `size` items: one block in the loop, then nothing -/
theorem grunQ_else_long (a : List α) (x : α) (rest : List α) (q : Rat) (rInt : Bool)
    (hne : ∀ k : Nat, q ≠ ((k + 1 : Nat) : Rat)) (hr : rInt = true → q ≤ 0) (pad : α) (e : Ending) :
    grun (a.length + 1) (((a.length + 1 : Nat) : Rat) - 1) (((a.length + 1 : Nat) : Rat) - q) rInt
        (fun r : Rat => r.floor.toNat) pad (a ++ x :: rest) e =
      (match e with
       | .fail => ⟨[(a.length + 1, a ++ [x])], .srcFail, (a ++ x :: rest).length⟩
       | .stop =>
         finish [(a.length + 1, a ++ [x])] (a ++ x :: rest).length
           (decide (a.length + 1 < (a ++ x :: rest).length ∧ q < ((a ++ x :: rest).length : Rat))) rInt
           (fun _ => lastSz (a.length + 1) (a ++ x :: rest))) := by
  -- phase 1 and the step that completes block 0
  have hph1 := gloopEvQ_first (a.length + 1) (((a.length + 1 : Nat) : Rat) - q) rInt a (by omega)
  have hst : gstep (a.length + 1) (((a.length + 1 : Nat) : Rat) - 1) (((a.length + 1 : Nat) : Rat) - q) rInt
      (⟨a, (a.length : Rat), true⟩ : GState Rat α) x =
      (⟨a ++ [x], ((a.length + 1 : Nat) : Rat) - q, rInt⟩, some (a ++ [x])) := by
    have h1 : ¬ ((a.length : Rat) < 0) := by grind
    have h2 : (a.length : Rat) = ((a.length + 1 : Nat) : Rat) - 1 := by rw [natCast_succ_rat]; grind
    have hd : dqPush (a.length + 1) a x = a ++ [x] := by simp [dqPush]
    simp only [gstep, if_neg h1, if_pos h2, hd]
  -- phase 2: nothing is handed out
  have hf : ∀ k : Nat, ((a.length + 1 : Nat) : Rat) - q + ((k + 1 : Nat) : Rat) =
      ((a.length + 1 : Nat) : Rat) - q + (k : Rat) + 1 := by
    intro k; rw [natCast_succ_rat k]; grind
  have hno := gloopEv_noYieldG (a.length + 1) (((a.length + 1 : Nat) : Rat) - 1)
    (((a.length + 1 : Nat) : Rat) - q) rInt (fun k : Nat => ((a.length + 1 : Nat) : Rat) - q + (k : Rat)) hf rest
    (⟨a ++ [x], ((a.length + 1 : Nat) : Rat) - q, rInt⟩ : GState Rat α) (0 + a.length + 1) 0
    (by show ((a.length + 1 : Nat) : Rat) - q = ((a.length + 1 : Nat) : Rat) - q + ((0 : Nat) : Rat); simp; grind) (by
      intro k _ _
      right
      intro he
      apply hne k
      rw [natCast_succ_rat k]
      grind)
  obtain ⟨n1, n2, n3⟩ := hno
  simp only [Nat.zero_add] at n1 n2 n3
  have hlen : (a ++ x :: rest).length = a.length + 1 + rest.length := by
    simp only [List.length_append, List.length_cons]; omega
  have hlenQ : ((a ++ x :: rest).length : Rat) = ((a.length + 1 : Nat) : Rat) + (rest.length : Rat) := by
    rw [hlen, Rat.natCast_add]
  unfold grun
  rw [gloopEv_appendG, hph1]
  simp only [gloopEv, hst, n1, Option.toList_some, List.map_cons, List.map_nil, List.nil_append,
    List.append_nil, Nat.zero_add]
  cases e with
  | fail => rfl
  | stop =>
    simp only [gtail, n2, n3, finish]
    have hposiff : (0 : Rat) < (rest.length : Rat) ↔ 0 < rest.length := by
      have : ((0 : Nat) : Rat) < (rest.length : Rat) ↔ 0 < rest.length := Rat.natCast_lt_natCast
      simpa using this
    have hiff : (((a.length + 1 : Nat) : Rat) - q < ((a.length + 1 : Nat) : Rat) - q + (rest.length : Rat) ∧
        (0 : Rat) < ((a.length + 1 : Nat) : Rat) - q + (rest.length : Rat)) ↔
        (a.length + 1 < (a ++ x :: rest).length ∧ q < ((a ++ x :: rest).length : Rat)) := by
      rw [hlenQ]
      constructor
      · intro h
        have h1 : (0 : Rat) < (rest.length : Rat) := by grind
        exact ⟨by have := hposiff.mp h1; omega, by grind⟩
      · intro h
        have h1 : (0 : Rat) < (rest.length : Rat) := hposiff.mpr (by omega)
        exact ⟨by grind, by grind⟩
    by_cases hc : a.length + 1 < (a ++ x :: rest).length ∧ q < ((a ++ x :: rest).length : Rat)
    · rw [if_pos (hiff.mpr hc), decide_eq_true hc]
      cases rInt with
      | false => simp only [if_true, Bool.false_eq_true, if_false]
      | true =>
        have hq0 : q ≤ 0 := hr rfl
        -- with an int index the deque content matters: phase 2 is quiet
        have hqu := gloopEv_quietG (a.length + 1) (((a.length + 1 : Nat) : Rat) - 1)
          (((a.length + 1 : Nat) : Rat) - q) true (fun k : Nat => ((a.length + 1 : Nat) : Rat) - q + (k : Rat)) hf rest
          (⟨a ++ [x], ((a.length + 1 : Nat) : Rat) - q, true⟩ : GState Rat α) (a.length + 1) 0
          (by show ((a.length + 1 : Nat) : Rat) - q = ((a.length + 1 : Nat) : Rat) - q + ((0 : Nat) : Rat); simp; grind) (by
            intro k _ _
            have hk : (0 : Rat) ≤ (k : Rat) := by
              have : ((0 : Nat) : Rat) ≤ (k : Rat) := (Rat.natCast_le_natCast).mpr (Nat.zero_le k)
              simpa using this
            have ha : (1 : Rat) ≤ ((a.length + 1 : Nat) : Rat) := by
              have : ((1 : Nat) : Rat) ≤ ((a.length + 1 : Nat) : Rat) := (Rat.natCast_le_natCast).mpr (by omega)
              simpa using this
            refine ⟨by grind, ?_⟩
            intro he
            apply hne k
            rw [natCast_succ_rat k]
            grind)
        have hres : pushAll (a.length + 1) (a ++ [x]) rest = lastSz (a.length + 1) (a ++ x :: rest) := by
          rw [pushAll_eq _ _ _ (by simp)]
          simp
        have hfl : a.length + 1 - (((a.length + 1 : Nat) : Rat) - q + (rest.length : Rat)).floor.toNat = 0 := by
          have hr0 : (0 : Rat) ≤ (rest.length : Rat) := by
            have : ((0 : Nat) : Rat) ≤ (rest.length : Rat) := (Rat.natCast_le_natCast).mpr (Nat.zero_le _)
            simpa using this
          have : ((a.length + 1 : Nat) : Int) ≤ (((a.length + 1 : Nat) : Rat) - q + (rest.length : Rat)).floor := by
            rw [Rat.le_floor_iff, Rat.intCast_natCast]
            grind
          omega
        simp only [hqu, Nat.zero_add, if_true, hfl, padTo, hres]
    · rw [if_neg (fun h => hc (hiff.mp h)), decide_eq_false hc]
      simp only [Bool.false_eq_true, if_false]

/-- fewer than `size` items, any hop: nothing in the loop; the padded block iff more than
`max(size - hop, 0)` items came (the index is still the int it started as) -/
theorem grunQ_short (sz : Nat) (q : Rat) (rInt : Bool) (pad : α) (xs : List α) (h : xs.length < sz) (e : Ending) :
    grun sz ((sz : Rat) - 1) ((sz : Rat) - q) rInt (fun r : Rat => r.floor.toNat) pad xs e =
      (match e with
       | .fail => ⟨[], .srcFail, xs.length⟩
       | .stop => finish [] xs.length (decide (max ((sz : Rat) - q) 0 < (xs.length : Rat))) true
           (fun _ => xs ++ List.replicate (sz - xs.length) pad)) := by
  unfold grun
  rw [gloopEvQ_first sz _ rInt xs h]
  cases e with
  | fail => rfl
  | stop =>
    simp only [gtail, finish]
    by_cases hc : max ((sz : Rat) - q) 0 < (xs.length : Rat)
    · have hc' : (sz : Rat) - q < (xs.length : Rat) ∧ (0 : Rat) < (xs.length : Rat) := by
        constructor <;> grind
      rw [if_pos hc', decide_eq_true hc]
      simp only [if_true, natCast_floor_toNat, padTo_short sz pad xs (by omega), List.nil_append]
    · have hc' : ¬ ((sz : Rat) - q < (xs.length : Rat) ∧ (0 : Rat) < (xs.length : Rat)) := by
        grind
      rw [if_neg hc', decide_eq_false hc]
      simp only [Bool.false_eq_true, if_false]

/-- a hop that is not a positive whole number is none of 1, 2, 3, … -/
theorem not_whole_pos (q : Rat) (h : ¬ (q.den = 1 ∧ 1 ≤ q.num)) : ∀ k : Nat, q ≠ ((k + 1 : Nat) : Rat) := by
  intro k hk
  apply h
  rw [hk]
  refine ⟨Rat.den_natCast _, ?_⟩
  rw [Rat.num_natCast]
  omega

/-- a whole hop that is not positive is ≤ 0 -/
theorem whole_nonpos (q : Rat) (h : ¬ (q.den = 1 ∧ 1 ≤ q.num)) (hd : q.den = 1) : q ≤ 0 := by
  have hn : q.num ≤ 0 := by
    have : ¬ (1 ≤ q.num) := fun h1 => h ⟨hd, h1⟩
    omega
  rw [rat_of_den_one q hd]
  have : ((q.num : Int) : Rat) ≤ ((0 : Int) : Rat) := Rat.intCast_le_intCast.mpr hn
  simpa using this

/-- a positive whole hop is a natural number -/
theorem whole_pos_nat (q : Rat) (h : q.den = 1 ∧ 1 ≤ q.num) : q = ((q.num.toNat : Nat) : Rat) ∧ 0 < q.num.toNat := by
  refine ⟨?_, by omega⟩
  have h1 := rat_of_den_one q h.1
  have h2 : q.num = ((q.num.toNat : Nat) : Int) := by omega
  rw [← Rat.intCast_natCast, ← h2]
  exact h1

end ALV.C08
