/-
  C17 — from "the control script has finished" to the state the property promises after `close`:
  `close` has returned, every stream is closed, the backend is terminated exactly once, nobody is
  alive; existence of maximal runs.  Core Lean only.
-/
import ALV.Lemmas.C17Live
namespace ALV.C17

/-- in a terminal state every player that is started, and not blocked in `go.wait()` on a cleared
    event, is finished -/
theorem player_done_of_terminal {cfg : Cfg} {script : List Cmd} {s : State}
    (hr : Reach cfg script s) (ht : terminal cfg s = true) {k : Nat} {p : Player}
    (hp : s.players[k]? = some p) (hnew : p.pc ≠ .new)
    (hgo : p.pc = .goWait → p.go = true) : p.pc = .done := by
  by_cases hd : p.pc = .done
  · exact hd
  · obtain ⟨t, htm, hen⟩ := player_progress hr hp hnew hd hgo
    rw [not_enabled_of_terminal ht htm] at hen; cases hen

/-- terminal + everything shut ⇒ no player thread is alive -/
theorem noneAlive_of_closedAfter {cfg : Cfg} {script : List Cmd} {s : State}
    (hr : Reach cfg script s) (ht : terminal cfg s = true) (hc : closedAfter s = true) :
    noneAlive s = true := by
  unfold noneAlive
  rw [List.all_eq_true]
  intro p hp
  obtain ⟨k, hk⟩ := List.getElem?_of_mem hp
  have hex : exiting p = true := by
    unfold closedAfter at hc
    simp only [Bool.and_eq_true, List.all_eq_true] at hc
    exact (hc.2 p hp).2
  have : p.pc = .done := by
    refine player_done_of_terminal hr ht hk ?_ ?_ <;> intro h <;> simp [exiting, h] at hex
  simp [this]

/-- the control script has finished and the script contained a `close`: the property's
    "afterwards" -/
theorem after_done {cfg : Cfg} {script : List Cmd} {s : State} (hr : Reach cfg script s)
    (ht : terminal cfg s = true) (hd : s.mpc = .done) (hc : Cmd.close ∈ script) :
    (∃ al n, Ev.closeOk al n ∈ s.log) ∧ closedAfter s = true ∧ noneAlive s = true ∧
      s.terminated = 1 := by
  have scr := scr_reach hr
  have hok : ∃ al n, Ev.closeOk al n ∈ s.log := by
    rcases scr.closeSeen hc with h | h | h | h
    · rw [scr.doneNil hd] at h; cases h
    · rw [hd] at h; simp [inClose, closeBody] at h
    · exact h
    · exact absurd h (li_reach hr).noAssert
  obtain ⟨al, n, hmem⟩ := hok
  have hterm := (li_reach hr).okTerm al n hmem
  have hca := closedAfter_of_terminated hr (by rw [hterm]; exact Nat.le_refl 1)
  exact ⟨⟨al, n, hmem⟩, hca, noneAlive_of_closedAfter hr ht hca, hterm⟩

/-- the control script has finished and nobody is blocked on `go`: everybody is finished -/
theorem allDone_of_done {cfg : Cfg} {script : List Cmd} {s : State} (hr : Reach cfg script s)
    (ht : terminal cfg s = true) (hd : s.mpc = .done)
    (hgo : ∀ (k : Nat) (p : Player), s.players[k]? = some p → p.pc = .goWait → p.go = true) :
    allDone s = true := by
  unfold allDone
  rw [hd]
  simp only [beq_self_eq_true, Bool.true_and]
  rw [List.all_eq_true]
  intro p hp
  obtain ⟨k, hk⟩ := List.getElem?_of_mem hp
  have hnew : p.pc ≠ .new := by
    intro h; have := ((si_reach hr).p k p hk).newMain h; rw [hd] at this; cases this
  simp [player_done_of_terminal hr ht hk hnew (hgo k p hk)]

/-! ### maximal runs exist -/

theorem runSched_append (cfg : Cfg) : ∀ (a : List Tid) (s : State) (b : List Tid),
    (runSched cfg s a).2 = [] → runSched cfg s (a ++ b) = runSched cfg (runSched cfg s a).1 b := by
  intro a
  induction a with
  | nil => intro s b _; rfl
  | cons t ts ih =>
    intro s b h
    cases hs : step cfg s t with
    | none => simp only [runSched, hs] at h; cases h
    | some s' => simp only [List.cons_append, runSched, hs] at h ⊢; exact ih s' b h

theorem exists_enabled_of_not_terminal {cfg : Cfg} {s : State} (h : terminal cfg s = false) :
    ∃ t s', step cfg s t = some s' := by
  unfold terminal at h
  have : ¬ (∀ t ∈ tids s, (!enabled cfg s t) = true) := by
    intro hall; rw [List.all_eq_true.mpr hall] at h; cases h
  have hex : ∃ t, t ∈ tids s ∧ enabled cfg s t = true := by
    apply Classical.byContradiction
    intro hne
    apply this
    intro t ht
    cases he : enabled cfg s t
    · rfl
    · exact absurd ⟨t, ht, he⟩ hne
  obtain ⟨t, _, he⟩ := hex
  unfold enabled at he
  cases hs : step cfg s t with
  | none => rw [hs] at he; cases he
  | some s' => exact ⟨t, s', hs⟩

/-- from every reachable state the run can be continued to a terminal state (it has to end:
    every step consumes rank) -/
theorem exists_maximal {cfg : Cfg} {script : List Cmd} : ∀ (n : Nat) (s : State),
    Reach cfg script s → phi cfg s ≤ n →
    ∃ ext, (runSched cfg s ext).2 = [] ∧ terminal cfg (runSched cfg s ext).1 = true := by
  intro n
  induction n with
  | zero =>
    intro s hr hn
    cases ht : terminal cfg s with
    | true => exact ⟨[], rfl, ht⟩
    | false =>
      obtain ⟨t, s', hs⟩ := exists_enabled_of_not_terminal ht
      have := phi_step hr hs; omega
  | succ n ih =>
    intro s hr hn
    cases ht : terminal cfg s with
    | true => exact ⟨[], rfl, ht⟩
    | false =>
      obtain ⟨t, s', hs⟩ := exists_enabled_of_not_terminal ht
      have hlt := phi_step hr hs
      obtain ⟨ext, h1, h2⟩ := ih s' (Reach.step hr hs) (by omega)
      refine ⟨t :: ext, ?_, ?_⟩ <;> (unfold runSched; rw [hs]; assumption)

end ALV.C17
