/-
  C19 — helper lemmas: floored modulo over a linearly ordered field with floor,
  and the refinement of every branch of `modulo_counter` to the specification.
-/
import ALV.Model.C19
import ALV.Spec.C19
import Mathlib.Algebra.Order.Floor.Ring
import Mathlib.Data.Rat.Floor
import Mathlib.Tactic.Ring
import Mathlib.Tactic.Linarith
import Mathlib.Tactic.FieldSimp

namespace ALV.C19
set_option linter.unusedSectionVars false

variable {K : Type} [Field K] [LinearOrder K] [IsStrictOrderedRing K] [FloorRing K]

/-- the floor of the model, for any floor ring (at `ℚ` it is the driver's `Rat.floor`,
    see `Props.C19.rat_floor_agrees`) -/
instance (priority := 100) floorOfFloorRing : Floor K := ⟨Int.floor⟩

theorem fmod_def (a m : K) : fmod a m = a - m * ((⌊a / m⌋ : ℤ) : K) := rfl

/-- adding an integer multiple of the modulo does not change the residue -/
theorem fmod_add_int_mul (a m : K) (z : ℤ) : fmod (a + z * m) m = fmod a m := by
  by_cases h : m = 0
  · subst h; simp [fmod_def]
  · have e : (a + z * m) / m = a / m + z := by field_simp
    rw [fmod_def, fmod_def, e, Int.floor_add_intCast]
    push_cast; ring

theorem fmod_eq_add_int_mul (a m : K) : ∃ z : ℤ, fmod a m = a + z * m :=
  ⟨-⌊a / m⌋, by rw [fmod_def]; push_cast; ring⟩

/-- congruent arguments have the same residue -/
theorem fmod_congr {a b m : K} (h : ∃ z : ℤ, a = b + z * m) : fmod a m = fmod b m := by
  obtain ⟨z, rfl⟩ := h; exact fmod_add_int_mul b m z

/-- the key floored-modulo lemma: no drift -/
theorem fmod_fmod_add (a b m : K) : fmod (fmod a m + b) m = fmod (a + b) m := by
  obtain ⟨z, hz⟩ := fmod_eq_add_int_mul a m
  exact fmod_congr ⟨z, by rw [hz]; ring⟩

theorem fmod_idem (a m : K) : fmod (fmod a m) m = fmod a m := by
  simpa using fmod_fmod_add a 0 m

theorem mod2_eq (a m : K) : mod2 a m = fmod a m := fmod_idem a m

theorem fmod_eq_mul_fract {a m : K} (h : m ≠ 0) : fmod a m = m * Int.fract (a / m) := by
  rw [fmod_def, Int.fract]; field_simp

theorem fmod_nonneg {a m : K} (h : 0 < m) : 0 ≤ fmod a m := by
  rw [fmod_eq_mul_fract h.ne']; exact mul_nonneg h.le (Int.fract_nonneg _)

theorem fmod_lt {a m : K} (h : 0 < m) : fmod a m < m := by
  rw [fmod_eq_mul_fract h.ne']
  calc m * Int.fract (a / m) < m * 1 := by
        exact mul_lt_mul_of_pos_left (Int.fract_lt_one _) h
    _ = m := mul_one m

theorem fmod_nonpos {a m : K} (h : m < 0) : fmod a m ≤ 0 := by
  rw [fmod_eq_mul_fract h.ne]; exact mul_nonpos_of_nonpos_of_nonneg h.le (Int.fract_nonneg _)

theorem fmod_gt {a m : K} (h : m < 0) : m < fmod a m := by
  rw [fmod_eq_mul_fract h.ne]
  have := Int.fract_lt_one (a / m)
  nlinarith [Int.fract_nonneg (a / m)]

/-- a value already in `[0, m)` is its own residue -/
theorem fmod_of_mem {a m : K} (h0 : 0 ≤ a) (h1 : a < m) : fmod a m = a := by
  have hm : 0 < m := lt_of_le_of_lt h0 h1
  have : ⌊a / m⌋ = 0 := by
    rw [Int.floor_eq_iff]; constructor
    · simpa using div_nonneg h0 hm.le
    · simpa using (div_lt_one hm).2 h1
  simp [fmod_def, this]

/-! ### every plain loop of `modulo_counter` refines the recursive specification

State relation: the code's `c` (after `c += s`) is `cPrev + sPrev`, its `lastp` is `pPrev`. -/

theorem loopPMS_rec (n : Nat) : ∀ (c p0 s0 : K) (ps ms ss : List K),
    (loopPMS (c + s0) p0 ps ms ss).take n
      = mcRecNext c p0 s0 (ps.take n) (ms.take n) (ss.take n) := by
  induction n with
  | zero => intros; simp [mcRecNext]
  | succ n ih =>
    intro c p0 s0 ps ms ss
    rcases ps with _ | ⟨p, ps⟩ <;> rcases ms with _ | ⟨m, ms⟩ <;> rcases ss with _ | ⟨s, ss⟩ <;>
      simp [loopPMS, mcRecNext, mod2_eq, ih]

theorem loopPS_rec (m : K) (n : Nat) : ∀ (c p0 s0 : K) (ps ss : List K),
    (loopPS m (c + s0) p0 ps ss).take n
      = mcRecNext c p0 s0 (ps.take n) (List.replicate n m) (ss.take n) := by
  induction n with
  | zero => intros; simp [mcRecNext]
  | succ n ih =>
    intro c p0 s0 ps ss
    rcases ps with _ | ⟨p, ps⟩ <;> rcases ss with _ | ⟨s, ss⟩ <;>
      simp [loopPS, mcRecNext, mod2_eq, ih, List.replicate_succ]

theorem loopPM_rec (s : K) (n : Nat) : ∀ (c p0 s0 : K) (ps ms : List K),
    (loopPM s (c + s0) p0 ps ms).take n
      = mcRecNext c p0 s0 (ps.take n) (ms.take n) (List.replicate n s) := by
  induction n with
  | zero => intros; simp [mcRecNext]
  | succ n ih =>
    intro c p0 s0 ps ms
    rcases ps with _ | ⟨p, ps⟩ <;> rcases ms with _ | ⟨m, ms⟩ <;>
      simp [loopPM, mcRecNext, mod2_eq, ih, List.replicate_succ]

theorem loopP_rec (m s : K) (n : Nat) : ∀ (c p0 s0 : K) (ps : List K),
    (loopP m s (c + s0) p0 ps).take n
      = mcRecNext c p0 s0 (ps.take n) (List.replicate n m) (List.replicate n s) := by
  induction n with
  | zero => intros; simp [mcRecNext]
  | succ n ih =>
    intro c p0 s0 ps
    rcases ps with _ | ⟨p, ps⟩ <;>
      simp [loopP, mcRecNext, mod2_eq, ih, List.replicate_succ]

theorem loopMS_rec (a : K) (n : Nat) : ∀ (c s0 : K) (ms ss : List K),
    (loopMS (c + s0) ms ss).take n
      = mcRecNext c a s0 (List.replicate n a) (ms.take n) (ss.take n) := by
  induction n with
  | zero => intros; simp [mcRecNext]
  | succ n ih =>
    intro c s0 ms ss
    rcases ms with _ | ⟨m, ms⟩ <;> rcases ss with _ | ⟨s, ss⟩ <;>
      simp [loopMS, mcRecNext, mod2_eq, ih, List.replicate_succ]

theorem loopS_rec (a m : K) (n : Nat) : ∀ (c s0 : K) (ss : List K),
    (loopS m (c + s0) ss).take n
      = mcRecNext c a s0 (List.replicate n a) (List.replicate n m) (ss.take n) := by
  induction n with
  | zero => intros; simp [mcRecNext]
  | succ n ih =>
    intro c s0 ss
    rcases ss with _ | ⟨s, ss⟩ <;>
      simp [loopS, mcRecNext, mod2_eq, ih, List.replicate_succ]

theorem loopM_rec (a s : K) (n : Nat) : ∀ (c s0 : K) (ms : List K),
    (loopM s (c + s0) ms).take n
      = mcRecNext c a s0 (List.replicate n a) (ms.take n) (List.replicate n s) := by
  induction n with
  | zero => intros; simp [mcRecNext]
  | succ n ih =>
    intro c s0 ms
    rcases ms with _ | ⟨m, ms⟩ <;>
      simp [loopM, mcRecNext, mod2_eq, ih, List.replicate_succ]

theorem loopN_rec (a m s : K) (n : Nat) : ∀ (c s0 : K),
    loopN m s n (c + s0)
      = mcRecNext c a s0 (List.replicate n a) (List.replicate n m) (List.replicate n s) := by
  induction n with
  | zero => intros; simp [loopN, mcRecNext]
  | succ n ih =>
    intro c s0
    simp [loopN, mcRecNext, mod2_eq, ih, List.replicate_succ]

/-! ### constant modulo: recursive layer = closed layer (no drift) -/

theorem mcRecNext_closed (m : K) : ∀ (ps ss : List K) (k : Nat) (c p0 s0 acc : K),
    min ps.length ss.length ≤ k → (∃ z : ℤ, c + s0 - p0 = acc + z * m) →
    mcRecNext c p0 s0 ps (List.replicate k m) ss = mcClosedFrom m acc ps ss := by
  intro ps
  induction ps with
  | nil => intros; simp [mcRecNext, mcClosedFrom]
  | cons p ps ih =>
    intro ss k c p0 s0 acc hk hz
    rcases ss with _ | ⟨s, ss⟩
    · simp [mcRecNext, mcClosedFrom]
    · rcases k with _ | k
      · simp at hk
      · obtain ⟨z, hz⟩ := hz
        have e : fmod (c + s0 + (p - p0)) m = fmod (p + acc) m :=
          fmod_congr ⟨z, by linarith⟩
        simp only [List.replicate_succ, mcRecNext, mcClosedFrom, e]
        congr 1
        apply ih
        · simp only [List.length_cons] at hk; omega
        · obtain ⟨z', hz'⟩ := fmod_eq_add_int_mul (p + acc) m
          exact ⟨z', by rw [hz']; ring⟩

theorem mcRec_closed (m : K) (ps ss : List K) (k : Nat) (hk : min ps.length ss.length ≤ k) :
    mcRec ps (List.replicate k m) ss = mcClosed m ps ss := by
  rcases ps with _ | ⟨p, ps⟩
  · simp [mcRec, mcClosed, mcClosedFrom]
  rcases ss with _ | ⟨s, ss⟩
  · simp [mcRec, mcClosed, mcClosedFrom]
  rcases k with _ | k
  · simp at hk
  simp only [List.replicate_succ, mcRec, mcClosed, mcClosedFrom, add_zero, zero_add]
  congr 1
  apply mcRecNext_closed
  · simp only [List.length_cons] at hk; omega
  · obtain ⟨z', hz'⟩ := fmod_eq_add_int_mul p m
    exact ⟨z', by rw [hz']; ring⟩

/-- closed layer with all-constant arguments = `(a + k·s) mod m` -/
theorem mcClosedFrom_numbers (a m s : K) (n : Nat) : ∀ (t : Nat),
    mcClosedFrom m (((t : ℤ) : K) * s) (List.replicate n a) (List.replicate n s)
      = (List.range' t n).map fun (k : Nat) => fmod (a + (((k : Nat) : ℤ) : K) * s) m := by
  induction n with
  | zero => intro t; simp [mcClosedFrom]
  | succ n ih =>
    intro t
    have e : ((t : ℤ) : K) * s + s = (((t + 1 : Nat) : ℤ) : K) * s := by push_cast; ring
    simp only [List.replicate_succ, mcClosedFrom, List.range'_succ, List.map_cons, e, ih (t + 1)]

theorem mcClosed_numbers (a m s : K) (n : Nat) :
    mcClosed m (List.replicate n a) (List.replicate n s) = mcNumbers a m s n := by
  have := mcClosedFrom_numbers a m s n 0
  simpa [mcClosed, mcNumbers, List.range_eq_range'] using this

/-! ### the batched fast paths and the `step == 0` shortcuts refine the closed layer

Invariant of the fast path: `c + n·step - lastp ≡ acc (mod m)`, `acc` = sum of the steps so far. -/

theorem fastP_closed (m s : K) (steps : ℤ) (n : Nat) : ∀ (ps : List K) (c lastp acc : K) (k : ℤ),
    (∃ z : ℤ, c + k * s - lastp = acc + z * m) →
    (fastP m s steps c lastp k ps).take n
      = mcClosedFrom m acc (ps.take n) (List.replicate n s) := by
  induction n with
  | zero => intros; simp [mcClosedFrom]
  | succ n ih =>
    intro ps c lastp acc k hz
    rcases ps with _ | ⟨p, ps⟩
    · simp [fastP, mcClosedFrom]
    obtain ⟨z, hz⟩ := hz
    have e : mod2 (c + (p - lastp) + (k : K) * s) m = fmod (p + acc) m := by
      rw [mod2_eq]; exact fmod_congr ⟨z, by linarith⟩
    simp only [fastP, List.replicate_succ, List.take_succ_cons, mcClosedFrom]
    split
    · next hk =>
      simp only [List.take_succ_cons, e]
      congr 1
      apply ih
      obtain ⟨z', hz'⟩ := fmod_eq_add_int_mul (c + (p - lastp) + (steps : K) * s) m
      refine ⟨z + z', ?_⟩
      rw [mod2_eq, hz', ← hk]; push_cast; linarith
    · simp only [List.take_succ_cons, e]
      congr 1
      apply ih
      exact ⟨z, by push_cast; linarith⟩

theorem loopP0_closed (m : K) (n : Nat) : ∀ (ps : List K),
    (loopP0 m ps).take n = mcClosedFrom m 0 (ps.take n) (List.replicate n 0) := by
  induction n with
  | zero => intros; simp [mcClosedFrom]
  | succ n ih =>
    intro ps
    rcases ps with _ | ⟨p, ps⟩
    · simp [loopP0, mcClosedFrom]
    · have := ih ps
      simp only [loopP0, mod2_eq] at this
      simp [loopP0, mcClosedFrom, mod2_eq, List.replicate_succ, this]

theorem fastN_closed (a m s : K) (steps : ℤ) (n : Nat) : ∀ (c acc : K) (k : ℤ),
    (∃ z : ℤ, c + k * s - a = acc + z * m) →
    fastN m s steps n c k = mcClosedFrom m acc (List.replicate n a) (List.replicate n s) := by
  induction n with
  | zero => intros; simp [fastN, mcClosedFrom]
  | succ n ih =>
    intro c acc k hz
    obtain ⟨z, hz⟩ := hz
    have e : mod2 (c + (k : K) * s) m = fmod (a + acc) m := by
      rw [mod2_eq]; exact fmod_congr ⟨z, by linarith⟩
    simp only [fastN, List.replicate_succ, mcClosedFrom]
    split
    · next hk =>
      simp only [e]
      congr 1
      apply ih
      obtain ⟨z', hz'⟩ := fmod_eq_add_int_mul (c + (steps : K) * s) m
      refine ⟨z + z', ?_⟩
      rw [mod2_eq, hz', ← hk]; push_cast; linarith
    · simp only [e]
      congr 1
      apply ih
      exact ⟨z, by push_cast; linarith⟩

theorem replicate_closed (a m : K) (n : Nat) :
    List.replicate n (mod2 a m) = mcClosedFrom m 0 (List.replicate n a) (List.replicate n 0) := by
  induction n with
  | zero => simp [mcClosedFrom]
  | succ n ih => simp [List.replicate_succ, mcClosedFrom, mod2_eq, ← ih]

/-! ### glue: initial states -/

theorem mcRecNext_init (ps ms ss : List K) : mcRecNext 0 0 0 ps ms ss = mcRec ps ms ss := by
  rcases ps with _ | ⟨p, ps⟩ <;> rcases ms with _ | ⟨m, ms⟩ <;> rcases ss with _ | ⟨s, ss⟩ <;>
    simp [mcRecNext, mcRec]

theorem mcRecNext_init_num (a : K) (n : Nat) (ms ss : List K) :
    mcRecNext a a 0 (List.replicate n a) ms ss = mcRec (List.replicate n a) ms ss := by
  rcases n with _ | n <;> rcases ms with _ | ⟨m, ms⟩ <;> rcases ss with _ | ⟨s, ss⟩ <;>
    simp [mcRecNext, mcRec, List.replicate_succ]

/-- the main refinement: every branch of the code, fast paths included, is the recursive layer -/
theorem moduloCounter_rec (A M S : Arg K) (n : Nat) :
    moduloCounter A M S n = mcRec (A.expand n) (M.expand n) (S.expand n) := by
  rcases A with a | ps <;> rcases M with m | ms <;> rcases S with s | ss <;>
    simp only [moduloCounter, Arg.expand]
  · -- no iterable
    have hcl : ∀ s' : K, mcRec (List.replicate n a) (List.replicate n m) (List.replicate n s')
        = mcClosedFrom m 0 (List.replicate n a) (List.replicate n s') :=
      fun s' => mcRec_closed m _ _ n (by simp)
    split
    · next h => subst h; rw [hcl]; exact replicate_closed a m n
    · split
      · rw [hcl]; exact fastN_closed a m s _ n a 0 0 ⟨0, by simp⟩
      · rw [← mcRecNext_init_num]
        simpa using loopN_rec a m s n a 0
  · -- only step iterable
    rw [← mcRecNext_init_num]
    simpa using loopS_rec a m n a 0 ss
  · -- only modulo iterable
    rw [← mcRecNext_init_num]
    simpa using loopM_rec a s n a 0 ms
  · -- modulo and step iterable
    rw [← mcRecNext_init_num]
    simpa using loopMS_rec a n a 0 ms ss
  · -- only start iterable
    have hcl : ∀ s' : K, mcRec (ps.take n) (List.replicate n m) (List.replicate n s')
        = mcClosedFrom m 0 (ps.take n) (List.replicate n s') :=
      fun s' => mcRec_closed m _ _ n (by simp)
    split
    · next h => subst h; rw [hcl]; exact loopP0_closed m n ps
    · split
      · rw [hcl]; exact fastP_closed m s _ n ps 0 0 0 0 ⟨0, by simp⟩
      · rw [← mcRecNext_init]
        simpa using loopP_rec m s n 0 0 0 ps
  · -- start and step iterable
    rw [← mcRecNext_init]
    simpa using loopPS_rec m n 0 0 0 ps ss
  · -- start and modulo iterable
    rw [← mcRecNext_init]
    simpa using loopPM_rec s n 0 0 0 ps ms
  · -- all iterable
    rw [← mcRecNext_init]
    simpa using loopPMS_rec n 0 0 0 ps ms ss

/-! ### range and length of the recursive layer -/

/-- `c` lies in the half-open interval between `0` and `m` on the side of `m`'s sign -/
def InRange (c m : K) : Prop := (0 < m → 0 ≤ c ∧ c < m) ∧ (m < 0 → m < c ∧ c ≤ 0)

theorem fmod_inRange (a m : K) : InRange (fmod a m) m :=
  ⟨fun h => ⟨fmod_nonneg h, fmod_lt h⟩, fun h => ⟨fmod_gt h, fmod_nonpos h⟩⟩

theorem mcRecNext_inRange : ∀ (ps ms ss : List K) (c p0 s0 : K) (i : Nat) (x m : K),
    (mcRecNext c p0 s0 ps ms ss)[i]? = some x → ms[i]? = some m → InRange x m := by
  intro ps
  induction ps with
  | nil => intro ms ss c p0 s0 i x m h; simp [mcRecNext] at h
  | cons p ps ih =>
    intro ms ss c p0 s0 i x m hx hm
    rcases ms with _ | ⟨m', ms⟩
    · simp at hm
    rcases ss with _ | ⟨s, ss⟩
    · simp [mcRecNext] at hx
    rcases i with _ | i
    · simp only [mcRecNext, List.getElem?_cons_zero, Option.some.injEq] at hx hm
      subst hx hm; exact fmod_inRange _ _
    · simp only [mcRecNext, List.getElem?_cons_succ] at hx hm
      exact ih ms ss _ _ _ i x m hx hm

theorem mcRec_inRange (ps ms ss : List K) (i : Nat) (x m : K)
    (hx : (mcRec ps ms ss)[i]? = some x) (hm : ms[i]? = some m) : InRange x m := by
  rw [← mcRecNext_init] at hx
  exact mcRecNext_inRange ps ms ss 0 0 0 i x m hx hm

theorem mcRecNext_length : ∀ (ps ms ss : List K) (c p0 s0 : K),
    (mcRecNext c p0 s0 ps ms ss).length = min ps.length (min ms.length ss.length) := by
  intro ps
  induction ps with
  | nil => intros; simp [mcRecNext]
  | cons p ps ih =>
    intro ms ss c p0 s0
    rcases ms with _ | ⟨m, ms⟩ <;> rcases ss with _ | ⟨s, ss⟩ <;> simp [mcRecNext, ih]

theorem mcRec_length (ps ms ss : List K) :
    (mcRec ps ms ss).length = min ps.length (min ms.length ss.length) := by
  rw [← mcRecNext_init]; exact mcRecNext_length ps ms ss 0 0 0

end ALV.C19
