/-
  C12 — helper lemmas, part 8: the link to C04.  The FIR loop of this slice (`firRun`) and C04's
  specification of calling a filter (`C04.fspec`, the difference equation over unbounded histories,
  here with denominator 1, zero memory, zero value 0) are the same function; hence the steady
  state of a complex exponential, stated on C04's run.
-/
import ALV.Lemmas.C04Index
import ALV.Lemmas.C12Time

set_option linter.unusedSectionVars false
set_option linter.unusedSimpArgs false

namespace ALV.C12
open Finset
variable {K : Type} [Field K]

theorem c04_sigma_eq_sum (n : Nat) (f : Nat → K) : C04.sigma n f = ∑ k ∈ range n, f k := by
  induction n with
  | zero => simp [C04.sigma]
  | succ n ih => rw [C04.sigma, ih, Finset.sum_range_succ]

theorem c04_dot_nil (v : List K) : C04.dot ([] : List K) v = 0 := by
  cases v <;> simp [C04.dot]

theorem c04_xAt (xs : List K) (n k : Nat) :
    C04.xAt 0 xs ((n : Int) - k) = if k ≤ n then xs.getD (n - k) 0 else 0 := by
  unfold C04.xAt
  by_cases hk : k ≤ n
  · have h1 : ¬ ((n : Int) - (k : Int) < 0) := by omega
    have h2 : ((n : Int) - (k : Int)).toNat = n - k := by omega
    simp only [h1, if_false, h2, hk, if_true]
  · have h1 : (n : Int) - (k : Int) < 0 := by omega
    simp only [h1, if_true, hk, if_false]

/-- C04's run of the FIR filter `b` (denominator 1, no memory, zero = 0), sample `n`: the convolution -/
theorem c04_fspec_fir_getD (b xs : List K) (n : Nat) (hn : n < xs.length) :
    (C04.fspec b [] 1 0 [] [] xs).getD n 0 = convAt b xs n := by
  rw [C04.fspec_getD b [] 1 0 xs [] [] n hn, c04_dot_nil, sub_zero, div_one, C04.dot_eq_sigma,
    c04_sigma_eq_sum, convAt_eq_sum]
  apply Finset.sum_congr rfl
  intro k hk
  have hk' : k < b.length := by simpa using hk
  rw [C04.takeP_getD _ _ _ _ hk', C04.rev_take_getD 0 xs n k hn, c04_xAt]
  split <;> simp

variable [DecidableEq K]

/-- **the two slices run the same filter**: C04's specification of `ZFilter(b)(xs, zero=0)` is this
    slice's FIR loop, for every coefficient list and every input -/
theorem c04_fspec_eq_firRun (b xs : List K) : C04.fspec b [] 1 0 [] [] xs = firRun b xs := by
  apply List.ext_getElem
  · rw [C04.fspec_length, firRun_length]
  · intro n h1 h2
    have hn : n < xs.length := by rwa [C04.fspec_length] at h1
    have e1 := c04_fspec_fir_getD b xs n hn
    have e2 := firRun_getD b xs n hn
    rw [List.getD_eq_getElem (hn := h1)] at e1
    rw [List.getD_eq_getElem (hn := h2)] at e2
    rw [e1, e2]

/-- C04's machine (`frun`: bounded shifting state) as well -/
theorem c04_frun_eq_firRun (b xs : List K) :
    C04.frun b [] 1 ⟨[], C04.takeP 0 (b.length - 1) []⟩ xs = firRun b xs := by
  have := C04.frun_eq_fspec b ([] : List K) 1 0 xs [] [] (by simp)
  simp only [List.length_nil, List.take_nil] at this
  rw [this, c04_fspec_eq_firRun]

end ALV.C12

/-! #### `dft` as coded: linear in the block; the DC bin -/
namespace ALV.C12
open Finset
variable {K : Type} [Field K]

theorem zipWith_map_same {φ β : Type} (g : β → β → β) (F G : φ → β) (l : List φ) :
    List.zipWith g (l.map F) (l.map G) = l.map fun f => g (F f) (G f) := by
  induction l with
  | nil => rfl
  | cons x xs ih => simp [ih]

theorem dftSum_linear (E : ℕ → K) (c : K) (xs ys : List K) (h : xs.length = ys.length) :
    dftSum E (List.zipWith (fun x y => c * x + y) xs ys) = c * dftSum E xs + dftSum E ys := by
  have := dftSumFrom_linear E c xs ys h 0 0 0
  simp only [mul_zero, add_zero] at this
  simp only [dftSum, this]

/-- `dft(c·x + y, freqs, normalize)` is `c·dft(x, …) + dft(y, …)`, bin by bin, in both modes; the
    three calls raise together (ZeroDivisionError: empty blocks, normalised, some frequency) -/
theorem dft_linear_coded {φ : Type} (kern : φ → ℕ → K) (c : K) (xs ys : List K)
    (h : xs.length = ys.length) (freqs : List φ) (normalize : Bool) :
    dft kern (List.zipWith (fun x y => c * x + y) xs ys) freqs normalize =
      match dft kern xs freqs normalize, dft kern ys freqs normalize with
      | some X, some Y => some (List.zipWith (fun x y => c * x + y) X Y)
      | _, _ => none := by
  have hl : (List.zipWith (fun x y => c * x + y) xs ys).length = ys.length := by simp [h]
  cases normalize with
  | false =>
    simp only [dft, Bool.false_eq_true, if_false, zipWith_map_same]
    congr 1
    apply List.map_congr_left
    intro f _
    exact dftSum_linear _ c xs ys h
  | true =>
    by_cases hc : ys.length = 0 ∧ freqs ≠ []
    · simp [dft, hl, h, hc]
    · simp only [dft, if_true, hl, h, hc, if_false, List.map_map, zipWith_map_same]
      congr 1
      apply List.map_congr_left
      intro f _
      simp only [Function.comp, dftSum_linear _ c xs ys h]
      ring

theorem evalDirect_one (c : List K) : evalDirect c 1 = c.sum := by
  have h1 : ∀ (i : ℕ) (c : List K), evalFrom (1 : K) i c = c.sum := by
    intro i c
    induction c generalizing i with
    | nil => rfl
    | cons x xs ih => simp [evalFrom, ih, pw_eq_pow]
  exact h1 0 c

theorem dftSum_pw (w : K) (blk : List K) : dftSum (fun n => pw w n) blk = evalDirect blk w := by
  have := dftSum_pow w blk
  simpa [pw_eq_pow] using this

end ALV.C12
