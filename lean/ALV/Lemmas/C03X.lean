/-
  C03 — raising elements: on iterators without tee leaves, whenever `xnext` returns it delivers the
  head event of the denotation and leaves an iterator denoting the tail (`xnext_sound`); `take(n)`
  is `takeE` (`xtakeN_sound`, `xdrain_sound`, `xtakeIt_sound`).
-/
import ALV.Spec.C03X
namespace ALV.C03
variable {α : Type}

/-- `d` delivers `r` and `d'` remains -/
def Del (d d' : List (Ev α)) : Res α → Prop
  | .stop => d = [] ∧ d' = []
  | .item v => d = .ok v :: d'
  | .raise e => d = .error e :: d'

theorem xnext_sound : ∀ (f : Nat) (h : XHeap α) (it : XIt α) (h' : XHeap α) (it' : XIt α) (r : Res α),
    it.teeFree = true → xnext f h it = some (h', it', r) →
    h' = h ∧ it'.teeFree = true ∧ Del (xden it) (xden it') r := by
  intro f
  induction f with
  | zero => intro h it h' it' r _ hx; simp [xnext] at hx
  | succ f ih =>
    intro h it h' it' r ht hx
    cases it with
    | src es =>
      match es with
      | [] => simp [xnext] at hx; obtain ⟨rfl, rfl, rfl⟩ := hx; exact ⟨rfl, rfl, rfl, rfl⟩
      | .ok v :: r' => simp [xnext] at hx; obtain ⟨rfl, rfl, rfl⟩ := hx; exact ⟨rfl, rfl, rfl⟩
      | .error e :: r' => simp [xnext] at hx; obtain ⟨rfl, rfl, rfl⟩ := hx; exact ⟨rfl, rfl, rfl⟩
    | tee k pos => simp [XIt.teeFree] at ht
    | map g it0 =>
      simp only [XIt.teeFree] at ht
      simp only [xnext] at hx
      cases h0 : xnext f h it0 with
      | none => simp [h0] at hx
      | some x =>
        obtain ⟨h1, it1, r1⟩ := x
        obtain ⟨e1, t1, d1⟩ := ih h it0 h1 it1 r1 ht h0
        subst e1
        rw [h0] at hx
        cases r1 with
        | stop =>
          simp at hx; obtain ⟨rfl, rfl, rfl⟩ := hx
          exact ⟨rfl, t1, by simp [xden, d1.1, mapE], by simp [xden, d1.2, mapE]⟩
        | raise e =>
          simp at hx; obtain ⟨rfl, rfl, rfl⟩ := hx
          exact ⟨rfl, t1, by simp only [Del] at d1 ⊢; simp [xden, d1, mapE]⟩
        | item v =>
          simp only [Del] at d1
          cases hg : g v with
          | ok w =>
            simp [hg] at hx; obtain ⟨rfl, rfl, rfl⟩ := hx
            exact ⟨rfl, t1, by simp [Del, xden, d1, mapE, hg]⟩
          | error e =>
            simp [hg] at hx; obtain ⟨rfl, rfl, rfl⟩ := hx
            exact ⟨rfl, t1, by simp [Del, xden, d1, mapE, hg]⟩
    | filter p it0 =>
      simp only [XIt.teeFree] at ht
      simp only [xnext] at hx
      cases h0 : xnext f h it0 with
      | none => simp [h0] at hx
      | some x =>
        obtain ⟨h1, it1, r1⟩ := x
        obtain ⟨e1, t1, d1⟩ := ih h it0 h1 it1 r1 ht h0
        subst e1
        rw [h0] at hx
        cases r1 with
        | stop =>
          simp at hx; obtain ⟨rfl, rfl, rfl⟩ := hx
          exact ⟨rfl, t1, by simp [xden, d1.1, filterE], by simp [xden, d1.2, filterE]⟩
        | raise e =>
          simp at hx; obtain ⟨rfl, rfl, rfl⟩ := hx
          exact ⟨rfl, t1, by simp only [Del] at d1 ⊢; simp [xden, d1, filterE]⟩
        | item v =>
          simp only [Del] at d1
          cases hp : p v with
          | error e =>
            simp [hp] at hx; obtain ⟨rfl, rfl, rfl⟩ := hx
            exact ⟨rfl, t1, by simp [Del, xden, d1, filterE, hp]⟩
          | ok b =>
            cases b with
            | true =>
              simp [hp] at hx; obtain ⟨rfl, rfl, rfl⟩ := hx
              exact ⟨rfl, t1, by simp [Del, xden, d1, filterE, hp]⟩
            | false =>
              simp [hp] at hx
              obtain ⟨e2, t2, d2⟩ := ih h1 (.filter p it1) h' it' r (by simpa [XIt.teeFree] using t1) hx
              refine ⟨e2, t2, ?_⟩
              have : xden (.filter p it0) = xden (.filter p it1) := by simp [xden, d1, filterE, hp]
              rw [this]; exact d2
    | chain a b =>
      simp only [XIt.teeFree, Bool.and_eq_true] at ht
      simp only [xnext] at hx
      cases h0 : xnext f h a with
      | none => simp [h0] at hx
      | some x =>
        obtain ⟨h1, a1, r1⟩ := x
        obtain ⟨e1, t1, d1⟩ := ih h a h1 a1 r1 ht.1 h0
        subst e1
        rw [h0] at hx
        cases r1 with
        | item v =>
          simp at hx; obtain ⟨rfl, rfl, rfl⟩ := hx
          simp only [Del] at d1
          exact ⟨rfl, by simp [XIt.teeFree, t1, ht.2], by simp [Del, xden, d1]⟩
        | raise e =>
          simp at hx; obtain ⟨rfl, rfl, rfl⟩ := hx
          simp only [Del] at d1
          exact ⟨rfl, by simp [XIt.teeFree, t1, ht.2], by simp [Del, xden, d1]⟩
        | stop =>
          simp at hx
          obtain ⟨e2, t2, d2⟩ := ih h1 b h' it' r ht.2 hx
          refine ⟨e2, t2, ?_⟩
          have : xden (.chain a b) = xden b := by simp [xden, d1.1]
          rw [this]; exact d2
    | islice n it0 =>
      simp only [XIt.teeFree] at ht
      cases n with
      | zero =>
        simp [xnext] at hx; obtain ⟨rfl, rfl, rfl⟩ := hx
        exact ⟨rfl, rfl, by simp [xden, limE], by simp [xden, XIt.done]⟩
      | succ n =>
        simp only [xnext] at hx
        cases h0 : xnext f h it0 with
        | none => simp [h0] at hx
        | some x =>
          obtain ⟨h1, it1, r1⟩ := x
          obtain ⟨e1, t1, d1⟩ := ih h it0 h1 it1 r1 ht h0
          subst e1
          rw [h0] at hx
          cases r1 with
          | stop =>
            simp at hx; obtain ⟨rfl, rfl, rfl⟩ := hx
            exact ⟨rfl, rfl, by simp [xden, d1.1, limE], by simp [xden, XIt.done]⟩
          | raise e =>
            simp at hx; obtain ⟨rfl, rfl, rfl⟩ := hx
            simp only [Del] at d1
            exact ⟨rfl, rfl, by simp [Del, xden, d1, limE, XIt.done]⟩
          | item v =>
            simp at hx; obtain ⟨rfl, rfl, rfl⟩ := hx
            simp only [Del] at d1
            exact ⟨rfl, t1, by simp [Del, xden, d1, limE]⟩
    | skipper n it0 =>
      simp only [XIt.teeFree] at ht
      cases n with
      | zero =>
        simp only [xnext] at hx
        cases h0 : xnext f h it0 with
        | none => simp [h0] at hx
        | some x =>
          obtain ⟨h1, it1, r1⟩ := x
          obtain ⟨e1, t1, d1⟩ := ih h it0 h1 it1 r1 ht h0
          subst e1
          rw [h0] at hx
          cases r1 with
          | stop =>
            simp at hx; obtain ⟨rfl, rfl, rfl⟩ := hx
            exact ⟨rfl, rfl, by simp [xden, d1.1, skipE, untilErr], by simp [xden, XIt.done]⟩
          | raise e =>
            simp at hx; obtain ⟨rfl, rfl, rfl⟩ := hx
            simp only [Del] at d1
            exact ⟨rfl, rfl, by simp [Del, xden, d1, skipE, untilErr, XIt.done]⟩
          | item v =>
            simp at hx; obtain ⟨rfl, rfl, rfl⟩ := hx
            simp only [Del] at d1
            exact ⟨rfl, t1, by simp [Del, xden, d1, skipE, untilErr]⟩
      | succ n =>
        simp only [xnext] at hx
        cases h0 : xnext f h it0 with
        | none => simp [h0] at hx
        | some x =>
          obtain ⟨h1, it1, r1⟩ := x
          obtain ⟨e1, t1, d1⟩ := ih h it0 h1 it1 r1 ht h0
          subst e1
          rw [h0] at hx
          cases r1 with
          | stop =>
            simp at hx; obtain ⟨rfl, rfl, rfl⟩ := hx
            exact ⟨rfl, rfl, by simp [xden, d1.1, skipE], by simp [xden, XIt.done]⟩
          | raise e =>
            simp at hx; obtain ⟨rfl, rfl, rfl⟩ := hx
            simp only [Del] at d1
            exact ⟨rfl, rfl, by simp [Del, xden, d1, skipE, XIt.done]⟩
          | item v =>
            simp at hx
            simp only [Del] at d1
            obtain ⟨e2, t2, d2⟩ := ih h1 (.skipper n it1) h' it' r (by simpa [XIt.teeFree] using t1) hx
            refine ⟨e2, t2, ?_⟩
            have : xden (.skipper (n + 1) it0) = xden (.skipper n it1) := by simp [xden, d1, skipE]
            rw [this]; exact d2

end ALV.C03

namespace ALV.C03
variable {α : Type}

theorem xtakeN_sound (f : Nat) : ∀ (n : Nat) (h : XHeap α) (it : XIt α) (h' : XHeap α) (it' : XIt α)
    (r : Except String (List α)), it.teeFree = true → xtakeN f n h it = some (h', it', r) →
    h' = h ∧ it'.teeFree = true ∧ takeE n (xden it) = (r, xden it') := by
  intro n
  induction n with
  | zero => intro h it h' it' r ht hx; simp [xtakeN] at hx; obtain ⟨rfl, rfl, rfl⟩ := hx; exact ⟨rfl, ht, rfl⟩
  | succ n ih =>
    intro h it h' it' r ht hx
    simp only [xtakeN] at hx
    cases h0 : xnext f h it with
    | none => simp [h0] at hx
    | some x =>
      obtain ⟨h1, it1, r1⟩ := x
      obtain ⟨e1, t1, d1⟩ := xnext_sound f h it h1 it1 r1 ht h0
      subst e1
      rw [h0] at hx
      cases r1 with
      | stop =>
        simp at hx; obtain ⟨rfl, rfl, rfl⟩ := hx
        exact ⟨rfl, t1, by simp [d1.1, d1.2, takeE]⟩
      | raise e =>
        simp at hx; obtain ⟨rfl, rfl, rfl⟩ := hx
        simp only [Del] at d1
        exact ⟨rfl, t1, by simp [d1, takeE]⟩
      | item v =>
        simp only [Del] at d1
        simp only at hx
        cases h2 : xtakeN f n h1 it1 with
        | none => simp [h2] at hx
        | some y =>
          obtain ⟨h3, it3, r3⟩ := y
          obtain ⟨e3, t3, d3⟩ := ih h1 it1 h3 it3 r3 t1 h2
          subst e3
          rw [h2] at hx
          cases r3 with
          | ok vs =>
            simp at hx; obtain ⟨rfl, rfl, rfl⟩ := hx
            exact ⟨rfl, t3, by simp [d1, takeE, d3]⟩
          | error e =>
            simp at hx; obtain ⟨rfl, rfl, rfl⟩ := hx
            exact ⟨rfl, t3, by simp [d1, takeE, d3]⟩

theorem takeE_nil (n : Nat) : takeE n ([] : List (Ev α)) = (.ok [], []) := by
  cases n <;> rfl

theorem xdrain_sound (f : Nat) : ∀ (g : Nat) (h : XHeap α) (it : XIt α) (h' : XHeap α) (it' : XIt α)
    (r : Except String (List α)), it.teeFree = true → xdrain f g h it = some (h', it', r) →
    h' = h ∧ it'.teeFree = true ∧ ∀ n, (xden it).length ≤ n → takeE n (xden it) = (r, xden it') := by
  intro g
  induction g with
  | zero => intro h it h' it' r ht hx; simp [xdrain] at hx
  | succ g ih =>
    intro h it h' it' r ht hx
    simp only [xdrain] at hx
    cases h0 : xnext f h it with
    | none => simp [h0] at hx
    | some x =>
      obtain ⟨h1, it1, r1⟩ := x
      obtain ⟨e1, t1, d1⟩ := xnext_sound f h it h1 it1 r1 ht h0
      subst e1
      rw [h0] at hx
      cases r1 with
      | stop =>
        simp at hx; obtain ⟨rfl, rfl, rfl⟩ := hx
        exact ⟨rfl, t1, fun n _ => by simp [d1.1, d1.2, takeE_nil]⟩
      | raise e =>
        simp at hx; obtain ⟨rfl, rfl, rfl⟩ := hx
        simp only [Del] at d1
        refine ⟨rfl, t1, fun n hn => ?_⟩
        rw [d1] at hn ⊢
        cases n with
        | zero => simp at hn
        | succ n => simp [takeE]
      | item v =>
        simp only [Del] at d1
        simp only at hx
        cases h2 : xdrain f g h1 it1 with
        | none => simp [h2] at hx
        | some y =>
          obtain ⟨h3, it3, r3⟩ := y
          obtain ⟨e3, t3, d3⟩ := ih h1 it1 h3 it3 r3 t1 h2
          subst e3
          rw [h2] at hx
          have key : ∀ n, (xden it).length ≤ n → takeE n (xden it) =
              (match r3 with | .ok vs => (.ok (v :: vs), xden it3) | .error e => (.error e, xden it3)) := by
            intro n hn
            rw [d1] at hn ⊢
            cases n with
            | zero => simp at hn
            | succ n =>
              have := d3 n (by simpa using hn)
              simp only [takeE, this]
              cases r3 <;> rfl
          cases r3 with
          | ok vs =>
            simp at hx; obtain ⟨rfl, rfl, rfl⟩ := hx
            exact ⟨rfl, t3, key⟩
          | error e =>
            simp at hx; obtain ⟨rfl, rfl, rfl⟩ := hx
            exact ⟨rfl, t3, key⟩

/-- `Stream.take` — any count — on an iterator without tee leaves: whenever it returns, it returns what
    `specTakeX` returns on the events the iterator denotes and leaves an iterator denoting the rest -/
theorem xtakeIt_sound {f : Nat} {h : XHeap α} {it : XIt α} {c : Cnt} {h' : XHeap α} {it' : XIt α} {o : Obs α}
    (ht : it.teeFree = true) (hx : xtakeIt f h it c = some (h', it', o)) :
    h' = h ∧ it'.teeFree = true ∧ specTakeX (xden it) c = (xden it', o) := by
  unfold xtakeIt at hx
  unfold specTakeX
  cases hm : takeMode c with
  | one =>
    simp only [hm] at hx ⊢
    cases h0 : xnext f h it with
    | none => simp [h0] at hx
    | some x =>
      obtain ⟨h1, it1, r1⟩ := x
      obtain ⟨e1, t1, d1⟩ := xnext_sound f h it h1 it1 r1 ht h0
      subst e1
      rw [h0] at hx
      cases r1 with
      | stop => simp at hx; obtain ⟨rfl, rfl, rfl⟩ := hx; exact ⟨rfl, t1, by simp [d1.1, d1.2]⟩
      | raise e => simp at hx; obtain ⟨rfl, rfl, rfl⟩ := hx; simp only [Del] at d1; exact ⟨rfl, t1, by simp [d1]⟩
      | item v => simp at hx; obtain ⟨rfl, rfl, rfl⟩ := hx; simp only [Del] at d1; exact ⟨rfl, t1, by simp [d1]⟩
  | all =>
    simp only [hm] at hx ⊢
    cases h0 : xdrain f f h it with
    | none => simp [h0] at hx
    | some x =>
      obtain ⟨h1, it1, r1⟩ := x
      obtain ⟨e1, t1, d1⟩ := xdrain_sound f f h it h1 it1 r1 ht h0
      subst e1
      simp [h0] at hx; obtain ⟨rfl, rfl, rfl⟩ := hx
      exact ⟨rfl, t1, by simp [d1 _ (Nat.le_refl _)]⟩
  | n k =>
    simp only [hm] at hx ⊢
    cases h0 : xtakeN f k h it with
    | none => simp [h0] at hx
    | some x =>
      obtain ⟨h1, it1, r1⟩ := x
      obtain ⟨e1, t1, d1⟩ := xtakeN_sound f k h it h1 it1 r1 ht h0
      subst e1
      simp [h0] at hx; obtain ⟨rfl, rfl, rfl⟩ := hx
      exact ⟨rfl, t1, by simp [d1]⟩

/-! ### histories without copies -/

/-- what the pool denotes -/
def dens (pool : List (Option (XIt α))) : XPool α := pool.map (Option.map xden)

def PoolFree (pool : List (Option (XIt α))) : Prop := ∀ it, some it ∈ pool → it.teeFree = true

theorem poolFree_set {pool : List (Option (XIt α))} (hp : PoolFree pool) (i : Nat) (x : Option (XIt α))
    (hx : ∀ it, x = some it → it.teeFree = true) : PoolFree (pool.set i x) := by
  intro it hit
  rcases List.mem_or_eq_of_mem_set hit with h | h
  · exact hp it h
  · exact hx it h.symm

theorem poolFree_append {pool : List (Option (XIt α))} (hp : PoolFree pool) (x : XIt α) (hx : x.teeFree = true) :
    PoolFree (pool ++ [some x]) := by
  intro it hit
  rcases List.mem_append.1 hit with h | h
  · exact hp it h
  · simp at h; subst h; exact hx

theorem dens_get {pool : List (Option (XIt α))} {i : Nat} {it : XIt α} (h : pool[i]? = some (some it)) :
    (dens pool)[i]? = some (some (xden it)) := by simp [dens, h]

theorem dens_get_none {pool : List (Option (XIt α))} {i : Nat}
    (h : ∀ it, pool[i]? ≠ some (some it)) : ∀ es, (dens pool)[i]? ≠ some (some es) := by
  intro es hes
  simp only [dens, List.getElem?_map] at hes
  cases hp : pool[i]? with
  | none => simp [hp] at hes
  | some x =>
    cases x with
    | none => simp [hp] at hes
    | some it => exact h it hp

end ALV.C03

namespace ALV.C03
variable {α : Type}

theorem dens_set (pool : List (Option (XIt α))) (i : Nat) (x : Option (XIt α)) :
    dens (pool.set i x) = (dens pool).set i (x.map xden) := by simp [dens, List.map_set]

theorem dens_len (pool : List (Option (XIt α))) : (dens pool).length = pool.length := by simp [dens]

/-- one step of a history without copies: whenever the model returns, the event-list model makes the
    same step with the same observation -/
theorem xstep_sound {f : Nat} {st st' : XSt α} {op : XOp α} {o : Obs α} (hp : PoolFree st.pool)
    (hop : op.teeFree = true) (hx : xstep f st op = some (st', o)) :
    xspecStep (dens st.pool) op = some (dens st'.pool, o) ∧ PoolFree st'.pool := by
  have rd : ∀ (i : Nat) (c : Cnt),
      (match st.pool[i]? with
        | some (some it) => (xtakeIt f st.heap it c).map fun (h', it', o) => (⟨h', st.pool.set i (some it')⟩, o)
        | _ => some (st, .err "noobj")) = some (st', o) →
      (match (dens st.pool)[i]? with
        | some (some es) => let r := specTakeX es c; some ((dens st.pool).set i (some r.1), r.2)
        | _ => some (dens st.pool, .err "noobj")) = some (dens st'.pool, o) ∧ PoolFree st'.pool := by
    intro i c hx
    cases hi : st.pool[i]? with
    | none => simp [hi] at hx; obtain ⟨rfl, rfl⟩ := hx; simp [dens, hi]; exact hp
    | some x =>
      cases x with
      | none => simp [hi] at hx; obtain ⟨rfl, rfl⟩ := hx; simp [dens, hi]; exact hp
      | some it =>
        have ht := hp it (List.mem_of_getElem? hi)
        simp only [hi] at hx
        cases h0 : xtakeIt f st.heap it c with
        | none => simp [h0] at hx
        | some y =>
          obtain ⟨h1, it1, o1⟩ := y
          obtain ⟨e1, t1, d1⟩ := xtakeIt_sound ht h0
          simp [h0] at hx; obtain ⟨rfl, rfl⟩ := hx
          refine ⟨?_, poolFree_set hp i _ (fun it' h => by injection h with h; subst h; exact t1)⟩
          simp [dens_get hi, d1, dens_set]
  have wrap : ∀ (i : Nat) (w : XIt α → XIt α) (we : List (Ev α) → List (Ev α)),
      (∀ it, it.teeFree = true → (w it).teeFree = true ∧ xden (w it) = we (xden it)) →
      (match st.pool[i]? with
        | some (some it) => some ((⟨st.heap, st.pool.set i (some (w it))⟩ : XSt α), Obs.unit)
        | _ => some (st, .err "noobj")) = some (st', o) →
      (match (dens st.pool)[i]? with
        | some (some es) => some ((dens st.pool).set i (some (we es)), Obs.unit)
        | _ => some (dens st.pool, .err "noobj")) = some (dens st'.pool, o) ∧ PoolFree st'.pool := by
    intro i w we hw hx
    cases hi : st.pool[i]? with
    | none => simp [hi] at hx; obtain ⟨rfl, rfl⟩ := hx; simp [dens, hi]; exact hp
    | some x =>
      cases x with
      | none => simp [hi] at hx; obtain ⟨rfl, rfl⟩ := hx; simp [dens, hi]; exact hp
      | some it =>
        have ht := hp it (List.mem_of_getElem? hi)
        simp [hi] at hx; obtain ⟨rfl, rfl⟩ := hx
        refine ⟨?_, poolFree_set hp i _ (fun it' h => by injection h with h; subst h; exact (hw it ht).1)⟩
        simp [dens_get hi, dens_set, (hw it ht).2]
  cases op with
  | peek i c => simp [XOp.teeFree] at hop
  | copy i => simp [XOp.teeFree] at hop
  | new es =>
    simp [xstep] at hx; obtain ⟨rfl, rfl⟩ := hx
    exact ⟨by simp [xspecStep, dens, xden], poolFree_append hp _ rfl⟩
  | take i c => exact rd i c hx
  | next i => exact rd i .none hx
  | drain i => exact rd i .inf hx
  | skip i n => exact wrap i (.skipper n) (skipE n) (fun it ht => ⟨ht, rfl⟩) hx
  | limit i n => exact wrap i (.islice n) (limE n) (fun it ht => ⟨ht, rfl⟩) hx
  | append i ys =>
    exact wrap i (fun it => .chain it (.src ys)) (fun es => es ++ ys)
      (fun it ht => ⟨by simp [XIt.teeFree, ht], rfl⟩) hx
  | map i g => exact wrap i (.map g) (mapE g) (fun it ht => ⟨ht, rfl⟩) hx
  | filter i p => exact wrap i (.filter p) (filterE p) (fun it ht => ⟨ht, rfl⟩) hx
  | skipBad i e => exact wrap i (fun _ => .src [.error e]) (fun _ => [.error e]) (fun it ht => ⟨rfl, rfl⟩) hx
  | nextAttr i =>
    simp only [xstep] at hx
    simp only [xspecStep]
    cases hi : st.pool[i]? with
    | none => simp [hi] at hx; obtain ⟨rfl, rfl⟩ := hx; simp [dens, hi]; exact hp
    | some x =>
      cases x with
      | none => simp [hi] at hx; obtain ⟨rfl, rfl⟩ := hx; simp [dens, hi]; exact hp
      | some it => simp [hi] at hx; obtain ⟨rfl, rfl⟩ := hx; simp [dens_get hi]; exact hp
  | attr i g =>
    simp only [xstep] at hx
    simp only [xspecStep]
    cases hi : st.pool[i]? with
    | none => simp [hi] at hx; obtain ⟨rfl, rfl⟩ := hx; simp [dens, hi]; exact hp
    | some x =>
      cases x with
      | none => simp [hi] at hx; obtain ⟨rfl, rfl⟩ := hx; simp [dens, hi]; exact hp
      | some it =>
        have ht := hp it (List.mem_of_getElem? hi)
        simp [hi] at hx; obtain ⟨rfl, rfl⟩ := hx
        refine ⟨?_, poolFree_append (poolFree_set hp i none (fun _ h => by cases h)) _ ht⟩
        simp [dens_get hi, dens_len]
        simp [dens, List.map_set, xden]

/-- histories of any length without copies, over sources and element functions that raise anywhere:
    whenever the model terminates at every step, every observation is the event-list model's -/
theorem xrun_sound (f : Nat) : ∀ (ops : List (XOp α)) (st : XSt α), PoolFree st.pool →
    (∀ op, op ∈ ops → op.teeFree = true) → (∀ o, o ∈ xrun f st ops → o ≠ none) →
    xrun f st ops = xspecRun (dens st.pool) ops := by
  intro ops
  induction ops with
  | nil => intros; rfl
  | cons op ops ih =>
    intro st hp hops hterm
    cases hs : xstep f st op with
    | none => exact absurd rfl (hterm none (by simp [xrun, hs]))
    | some x =>
      obtain ⟨st', o⟩ := x
      obtain ⟨spec, hp'⟩ := xstep_sound hp (hops op (by simp)) hs
      have := ih st' hp' (fun op' h' => hops op' (by simp [h'])) (fun o' ho' => hterm o' (by simp [xrun, hs, ho']))
      simp [xrun, xspecRun, hs, spec, this]

end ALV.C03

namespace ALV.C03
variable {α : Type}

/-! ### without raising elements the event model is the list model -/

/-- a sequence in which nothing raises -/
def okList (xs : List α) : List (Ev α) := xs.map Except.ok

theorem mapE_ok (f : α → α) (xs : List α) : mapE (fun v => .ok (f v)) (okList xs) = okList (xs.map f) := by
  induction xs with
  | nil => rfl
  | cons x xs ih => simp only [okList, List.map] at ih ⊢; simp [mapE, ih]

theorem filterE_ok (p : α → Bool) (xs : List α) :
    filterE (fun v => .ok (p v)) (okList xs) = okList (xs.filter p) := by
  induction xs with
  | nil => rfl
  | cons x xs ih =>
    simp only [okList, List.map] at ih ⊢
    cases hp : p x <;> simp [filterE, hp, ih, List.filter]

theorem untilErr_ok (xs : List α) : untilErr (okList xs) = okList xs := by
  induction xs with
  | nil => rfl
  | cons x xs ih => simp only [okList, List.map] at ih ⊢; simp [untilErr, ih]

theorem limE_ok (n : Nat) (xs : List α) : limE n (okList xs) = okList (xs.take n) := by
  induction n generalizing xs with
  | zero => simp [limE, okList]
  | succ n ih =>
    cases xs with
    | nil => rfl
    | cons x xs => have := ih xs; simp only [okList, List.map] at this ⊢; simp [limE, this]

theorem skipE_ok (n : Nat) (xs : List α) : skipE n (okList xs) = okList (xs.drop n) := by
  induction n generalizing xs with
  | zero => simp [skipE, untilErr_ok]
  | succ n ih =>
    cases xs with
    | nil => rfl
    | cons x xs => have := ih xs; simp only [okList, List.map] at this ⊢; simp [skipE, this]

theorem takeE_ok (n : Nat) (xs : List α) : takeE n (okList xs) = (.ok (xs.take n), okList (xs.drop n)) := by
  induction n generalizing xs with
  | zero => simp [takeE]
  | succ n ih =>
    cases xs with
    | nil => rfl
    | cons x xs => have := ih xs; simp only [okList, List.map] at this ⊢; simp [takeE, this]

/-- an exception coming out of a tee's source is handed to the copy that asked and is NOT stored: the
    buffer and the position of the copy are what they were, only the source has moved on -/
theorem tee_raise_not_stored {f : Nat} {h h' : XHeap α} {k : Nat} {parent p' : XIt α} {buf : List α} {e : String}
    (hk : h[k]? = some ⟨parent, buf⟩) (hp : xnext f h parent = some (h', p', .raise e)) :
    xnext (f + 1) h (.tee k buf.length) = some (h'.set k ⟨p', buf⟩, .tee k buf.length, .raise e) := by
  simp [xnext, hk, hp]

end ALV.C03
