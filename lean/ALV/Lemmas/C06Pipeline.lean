/-
  C06 — helper lemmas, part 6: the whole pipeline from the raw constructor pairs
  (`Poly(dict)` with sorted inserts and zero compaction at the coefficient type `Coef K`,
  `LinearFilter.__init__` normalisation, causality test, gain test / variable-gain rewriting,
  memory normalisation, generated time-varying loop) to the specification `specCallTV`.

  The dictionary lemmas are C04's (`ALV.Lemmas.C04Poly / C04Pipeline`), which are stated for any
  coefficient type with a zero and decidable equality and are instantiated here at `Coef K`.
-/
import ALV.Lemmas.C06Gain
import ALV.Lemmas.C04Pipeline

set_option linter.unusedSectionVars false
set_option linter.unusedSimpArgs false
set_option linter.unusedVariables false
namespace ALV.C06
open ALV.C04
variable {K : Type} [Field K] [DecidableEq K]

/-! ### only the first `as.length` items of the memory are read -/

theorem tvspec_congr_hy (b as : List (Coef K)) (a0 : Coef K) (zero : K) :
    ∀ (xs : List K) (n : Nat) (hy hy' hx : List K), hy.take as.length = hy'.take as.length →
      tvspec b as a0 zero n hy hx xs = tvspec b as a0 zero n hy' hx xs := by
  intro xs
  induction xs with
  | nil => intros; simp [tvspec]
  | cons x xs ih =>
    intro n hy hy' hx h
    cases hb : row? b n with
    | none => simp [tvspec, hb]
    | some bn =>
      cases ha : row? as n with
      | none => simp [tvspec, hb, ha]
      | some an =>
        cases hg : a0.get? n with
        | none => simp [tvspec, hb, ha, hg]
        | some g =>
          have hd : dot an hy = dot an hy' := by
            rw [← dot_take an hy, ← dot_take an hy', row?_length ha, h]
          simp only [tvspec, hb, ha, hg, hd]
          congr 1
          apply ih
          cases hn : as.length with
          | zero => simp
          | succ m =>
            rw [hn] at h
            simp only [List.take_succ_cons]
            rw [take_eq_of_take_succ _ _ _ h]

theorem tvspec_specMem (b as : List (Coef K)) (a0 : Coef K) (zero : K) (m : Mem K) (xs : List K) :
    tvspec b as a0 zero 0 (specMem zero as.length m) [] xs
      = tvspec b as a0 zero 0 (memoryOf zero as.length m) [] xs := by
  apply tvspec_congr_hy
  rw [specMem_take, List.take_of_length_le (by rw [memoryOf_length])]

/-! ### shape of a normalised filter object -/

theorem shiftKeys_sorted (p : Int) (t : Terms (Coef K))
    (h : List.Pairwise (fun x y : Int × Coef K => x.1 < y.1) t) :
    List.Pairwise (fun x y : Int × Coef K => x.1 < y.1) (shiftKeys p t) := by
  unfold shiftKeys
  rw [List.pairwise_map]
  exact h.imp (fun h => by simp only; omega)

theorem shiftKeys_nonzero (p : Int) (t : Terms (Coef K)) (h : ∀ kv ∈ t, kv.2 ≠ 0) :
    ∀ kv ∈ shiftKeys p t, kv.2 ≠ 0 := by
  intro kv hkv
  obtain ⟨kv', hkv', rfl⟩ := List.mem_map.1 hkv
  exact h kv' hkv'

/-- a sorted causal dictionary whose delay-0 coefficient is not the constant zero starts with it -/
theorem sorted_head_zero (t : Terms (Coef K))
    (hs : List.Pairwise (fun x y : Int × Coef K => x.1 < y.1) t) (hc : ∀ kv ∈ t, 0 ≤ kv.1)
    (h0 : coefAt t 0 ≠ 0) : ∃ rest, t = ((0 : Int), coefAt t 0) :: rest := by
  cases t with
  | nil => exact absurd (coefAt_nil 0) h0
  | cons kv r =>
    obtain ⟨k, v⟩ := kv
    by_cases hk : k = 0
    · subst hk
      rw [coefAt_cons_self]
      exact ⟨r, rfl⟩
    · exfalso
      apply h0
      apply coefAt_of_lt
      intro kv hkv
      rcases List.mem_cons.1 hkv with h | h
      · have := hc (k, v) (by simp)
        rw [h]
        simp only at this ⊢
        omega
      · have h1 := (List.pairwise_cons.1 hs).1 kv h
        have h2 := hc (k, v) (by simp)
        simp only at h1 h2
        omega

/-- in a sorted dictionary a stored pair is what the look-up finds -/
theorem coefAt_of_mem_sorted (t : Terms (Coef K))
    (hs : List.Pairwise (fun x y : Int × Coef K => x.1 < y.1) t) (k : Int) (v : Coef K)
    (h : (k, v) ∈ t) : coefAt t k = v := by
  induction t with
  | nil => simp at h
  | cons kv r ih =>
    obtain ⟨k', v'⟩ := kv
    rcases List.mem_cons.1 h with h | h
    · cases h
      exact coefAt_cons_self k v r
    · have hlt := (List.pairwise_cons.1 hs).1 (k, v) h
      simp only at hlt
      rw [coefAt_cons_ne k' k v' r (by omega)]
      exact ih (List.pairwise_cons.1 hs).2 h

/-- every stored coefficient of a causal sorted dictionary occurs in `values()` -/
theorem mem_dense_of_mem (t : Terms (Coef K))
    (hs : List.Pairwise (fun x y : Int × Coef K => x.1 < y.1) t) (k : Int) (v : Coef K)
    (h : (k, v) ∈ t) (hk : 0 ≤ k) : v ∈ dense t := by
  have hne : t.isEmpty = false := by
    cases t with
    | nil => simp at h
    | cons _ _ => rfl
  simp only [dense, hne, Bool.false_eq_true, if_false, List.mem_map, List.mem_range]
  refine ⟨k.toNat, ?_, ?_⟩
  · have := le_order t (k, v) h
    simp only at this
    omega
  · have : Int.ofNat k.toNat = k := by simp only [Int.ofNat_eq_natCast]; omega
    rw [this]
    exact coefAt_of_mem_sorted t hs k v h

/-- … and a stored coefficient at a delay ≥ 1 occurs in `values()[1:]` -/
theorem mem_dense_tail_of_mem (c : Coef K) (rest : Terms (Coef K))
    (hs : List.Pairwise (fun x y : Int × Coef K => x.1 < y.1) (((0 : Int), c) :: rest))
    (k : Int) (v : Coef K) (h : (k, v) ∈ rest) : v ∈ (dense (((0 : Int), c) :: rest)).tail := by
  have hpos : (0 : Int) < k := (List.pairwise_cons.1 hs).1 (k, v) h
  have hmem : (k, v) ∈ ((0 : Int), c) :: rest := List.mem_cons_of_mem _ h
  simp only [dense, List.isEmpty_cons, Bool.false_eq_true, if_false, List.range_succ_eq_map,
    List.map_cons, List.tail_cons, List.map_map, List.mem_map, List.mem_range, Function.comp]
  refine ⟨k.toNat - 1, ?_, ?_⟩
  · have := le_order _ (k, v) hmem
    simp only at this
    omega
  · have : Int.ofNat (Nat.succ (k.toNat - 1)) = k := by
      simp only [Int.ofNat_eq_natCast, Nat.succ_eq_add_one]; omega
    rw [this]
    exact coefAt_of_mem_sorted _ hs k v hmem

/-- **the all-zero corner, as a shape**: a normalised filter object (`terms()` sorted, no stored
constant zero, causal) whose `values()` are all the constant zero besides the gain stores nothing
but its gain -/
theorem allzero_shape (num rest : Terms (Coef K)) (c : Coef K)
    (hnum : List.Pairwise (fun x y : Int × Coef K => x.1 < y.1) num)
    (hden : List.Pairwise (fun x y : Int × Coef K => x.1 < y.1) (((0 : Int), c) :: rest))
    (hstored : ∀ kv ∈ num ++ rest, kv.2 ≠ Coef.const 0) (hcn : ∀ kv ∈ num, 0 ≤ kv.1)
    (hz : (∀ c ∈ dense num, c = Coef.const 0)
      ∧ (∀ c' ∈ (dense (((0 : Int), c) :: rest)).tail, c' = Coef.const 0)) :
    num = [] ∧ rest = [] := by
  constructor
  · cases hn : num with
    | nil => rfl
    | cons kv r =>
      exfalso
      have hm : kv ∈ num := by rw [hn]; simp
      exact hstored kv (by simp [hm]) (hz.1 _ (mem_dense_of_mem num hnum kv.1 kv.2 hm (hcn kv hm)))
  · cases hr : rest with
    | nil => rfl
    | cons kv r =>
      exfalso
      have hm : kv ∈ rest := by rw [hr]; simp
      exact hstored kv (by simp [hm]) (hz.2 _ (mem_dense_tail_of_mem c rest hden kv.1 kv.2 hm))

/-! ### the all-zero filter through `__call__` -/

theorem itsOf_consts (b as : List (Coef K)) (hb : ∀ c ∈ b, c = Coef.const 0)
    (ha : ∀ c ∈ as, c = Coef.const 0) :
    itsOf b as = ⟨List.replicate b.length [], List.replicate as.length []⟩ := by
  have h : ∀ l : List (Coef K), (∀ c ∈ l, c = Coef.const 0) →
      l.map Coef.items = List.replicate l.length [] := by
    intro l hl
    induction l with
    | nil => rfl
    | cons c cs ih =>
      have hc : c = Coef.const 0 := hl c (by simp)
      subst hc
      simp only [List.map_cons, List.length_cons, List.replicate_succ, Coef.items]
      rw [ih (fun c hc => hl c (by simp [hc]))]
  simp only [itsOf, h b hb, h as ha]

/-- the part of `__call__` after the gain test on the all-zero filter with a constant gain:
`for unused in seq: yield zero`; no coefficient iterator exists -/
theorem callConst_allzero (num den : Terms (Coef K)) (mem : Mem K) (zero : K) (xs : List K) (g : K)
    (hc : ∀ kv ∈ num ++ den, 0 ≤ kv.1) (h0 : coefAt den 0 = Coef.const g) (hg : g ≠ 0)
    (hz : (∀ c ∈ dense num, c = Coef.const 0) ∧ (∀ c ∈ (dense den).tail, c = Coef.const 0)) :
    callConst num den mem zero xs
      = .ok (xs.map (fun _ => zero), itsOf (dense num) (dense den).tail) := by
  have hcausal := checkCausal_of_nonneg num den hc
  have hd := dense_cons_coef den g h0 hg
  simp only [callConst, hcausal, Bool.not_true, Bool.false_eq_true, if_false, h0, hg]
  rw [hd, compileTV_const _ _ _ zero (by simpa using hz)]
  simp [evalTV]

theorem callTV_const_allzero (num den : Terms (Coef K)) (mem : Mem K) (zero : K) (xs : List K) (g : K)
    (hc : ∀ kv ∈ num ++ den, 0 ≤ kv.1) (h0 : coefAt den 0 = Coef.const g) (hg : g ≠ 0)
    (hz : (∀ c ∈ dense num, c = Coef.const 0) ∧ (∀ c ∈ (dense den).tail, c = Coef.const 0)) :
    callTV num den mem zero xs
      = .ok (xs.map (fun _ => zero), itsOf (dense num) (dense den).tail) := by
  have hcausal := checkCausal_of_nonneg num den hc
  rw [← callConst_allzero num den mem zero xs g hc h0 hg hz]
  simp only [callTV, hcausal, Bool.not_true, Bool.false_eq_true, if_false, h0]

/-- **the all-zero filter with a Stream gain**: `ZFilter([], [Stream(…)])` and every other way to
write it.  The variable-gain rewriting leaves the empty numerator and the denominator `{0: 1}`, the
generated source is `for unused in seq: yield zero`: the zero value once per input, whatever the
gain stream holds and however short it is; no iterator over it (nor over anything else) is ever
created. -/
theorem callTV_gain_allzero (gs : List K) (mem : Mem K) (zero : K) (xs : List K) :
    callTV ([] : Terms (Coef K)) [((0 : Int), Coef.strm gs)] mem zero xs
      = .ok (xs.map (fun _ => zero), ⟨[], []⟩) := by
  have hg := gainPath_eq ([] : Terms (Coef K)) [] gs List.Pairwise.nil (by simp)
  have hcausal : checkCausal ([] : Terms (Coef K)) [((0 : Int), Coef.strm gs)] = true :=
    checkCausal_of_nonneg _ _ (by simp)
  have hg0 : coefAt [((0 : Int), Coef.strm gs)] 0 = Coef.strm gs := by simp [coefAt]
  simp only [callTV, hcausal, Bool.not_true, Bool.false_eq_true, if_false, hg0]
  rw [hg]
  simp only [List.map_nil, List.nil_append]
  have hnorm : normalise ([] : Terms (Coef K)) [((0 : Int), (1 : Coef K))]
      = .ok ([], [((0 : Int), (1 : Coef K))]) := by
    simp [normalise, minKey]
  simp only [hnorm]
  have h1 : coefAt [((0 : Int), (1 : Coef K))] 0 = Coef.const 1 := by simp [coefAt]; rfl
  rw [callConst_allzero _ _ mem zero xs 1 (by simp) h1 one_ne_zero
    (by simp [dense, order])]
  simp [dense, order, itsOf]

/-! ### the whole call on any normalised filter object -/

/-- `LinearFilter.__call__` on a normalised filter object (what `__init__` leaves: `terms()` sorted,
no stored constant zero, denominator starting at delay 0) that is causal: any gain — a non-zero
constant or a Stream —, any coefficients. -/
theorem callTV_normalised (num den : Terms (Coef K)) (mem : Mem K) (zero : K) (xs : List K)
    (hnum : List.Pairwise (fun x y : Int × Coef K => x.1 < y.1) num)
    (hden : List.Pairwise (fun x y : Int × Coef K => x.1 < y.1) den)
    (hstored : ∀ kv ∈ num ++ den, kv.2 ≠ Coef.const 0) (hc : ∀ kv ∈ num ++ den, 0 ≤ kv.1)
    (h0 : coefAt den 0 ≠ Coef.const 0) :
    ((∀ c ∈ dense num, c = Coef.const 0) ∧ (∀ c ∈ (dense den).tail, c = Coef.const 0) →
      (callTV num den mem zero xs).map Prod.fst = .ok (xs.map (fun _ => zero)))
    ∧ (¬ ((∀ c ∈ dense num, c = Coef.const 0) ∧ (∀ c ∈ (dense den).tail, c = Coef.const 0)) →
      (callTV num den mem zero xs).map Prod.fst
        = .ok (tvspec (dense num) (dense den).tail (coefAt den 0) zero 0
                (memoryOf zero (dense den).tail.length mem) [] xs)) := by
  obtain ⟨rest, hD⟩ := sorted_head_zero den hden (fun kv hkv => hc kv (by simp [hkv])) h0
  cases ha : coefAt den 0 with
  | const g =>
    have hg : g ≠ 0 := by
      intro h; subst h; exact h0 ha
    constructor
    · intro hz
      rw [callTV_const_allzero num den mem zero xs g hc ha hg hz]
      rfl
    · intro hnz
      exact callTV_const_eq num den mem zero xs g hc ha hg hnz
  | strm gs =>
    rw [ha] at hD
    subst hD
    have hst : ∀ kv ∈ num ++ rest, kv.2 ≠ Coef.const 0 := by
      intro kv hkv
      apply hstored kv
      rcases List.mem_append.1 hkv with h | h
      · simp [h]
      · simp [h]
    have hcn : ∀ kv ∈ num, 0 ≤ kv.1 := fun kv hkv => hc kv (by simp [hkv])
    constructor
    · intro hz
      obtain ⟨rfl, rfl⟩ := allzero_shape num rest (Coef.strm gs) hnum hden hst hcn hz
      rw [callTV_gain_allzero gs mem zero xs]
      rfl
    · intro hnz
      exact callTV_gain_eq num rest gs mem zero xs hnum hden hst hcn hnz

/-! ### end to end from the constructor arguments -/

theorem all_beq_zero_coef (l : List (Coef K)) :
    (l.all (fun c => c == 0)) = true ↔ ∀ c ∈ l, c = Coef.const 0 :=
  all_beq_zero l

/-- **end to end**: raw `(power, coefficient)` pairs (any order, duplicates, stored zeros, any
integer powers, Stream coefficients anywhere incl. the gain) through `Poly(dict)`,
`LinearFilter.__init__`, `__call__` with its variable-gain rewriting, and the generated
time-varying loop = the contract `specCallTV`. -/
theorem filterCallTV_eq_specCallTV_full (numPairs denPairs : List (Int × Coef K)) (mem : Mem K)
    (zero : K) (xs : List K) :
    (filterCallTV numPairs denPairs mem zero xs).map Prod.fst
      = specCallTV numPairs denPairs mem zero xs := by
  unfold filterCallTV specCallTV
  rw [← minKey_mkPoly denPairs]
  cases hmin : minKey (mkPoly denPairs) with
  | none => simp [normalise, hmin]; rfl
  | some p =>
    rw [normalise_ok _ _ p hmin]
    show (callTV (shiftKeys p (mkPoly numPairs)) (shiftKeys p (mkPoly denPairs)) mem zero xs).map
      Prod.fst = _
    have hminl : listMin (keys (mkPoly denPairs)) = some p := by
      rw [← minKey_eq_listMin]; exact hmin
    obtain ⟨hpmem, hple⟩ : p ∈ keys (mkPoly denPairs) ∧ ∀ k ∈ keys (mkPoly denPairs), p ≤ k := by
      rcases listMin_spec (keys (mkPoly denPairs)) with ⟨h1, _⟩ | ⟨q, h1, h2, h3⟩
      · rw [h1] at hminl; simp at hminl
      · rw [h1] at hminl
        have : q = p := by simpa using hminl
        subst this; exact ⟨h2, h3⟩
    by_cases hany : (keysNZ numPairs).any (fun k => decide (k < p)) = true
    · -- a numerator term at a negative delay after normalisation
      simp only [hany, if_true]
      obtain ⟨k, hk, hlt⟩ := List.any_eq_true.1 hany
      have hk' : k ∈ keys (mkPoly numPairs) := (mem_keys_mkPoly numPairs k).2 hk
      obtain ⟨kv, hkv, hkk⟩ := List.mem_map.1 hk'
      have hcheck : checkCausal (shiftKeys p (mkPoly numPairs)) (shiftKeys p (mkPoly denPairs))
          = false := by
        simp only [checkCausal, Bool.not_eq_false', List.any_eq_true]
        refine ⟨(kv.1 - p, kv.2), ?_, ?_⟩
        · simp only [List.mem_append, shiftKeys, List.mem_map]
          exact Or.inl ⟨kv, hkv, rfl⟩
        · have : k < p := by simpa using hlt
          simp only [decide_eq_true_eq]; omega
      simp [callTV, hcheck]
      rfl
    · simp only [hany, Bool.false_eq_true, if_false]
      have hcausal : ∀ kv ∈ shiftKeys p (mkPoly numPairs) ++ shiftKeys p (mkPoly denPairs),
          0 ≤ kv.1 := by
        intro kv hkv
        simp only [List.mem_append, shiftKeys, List.mem_map] at hkv
        rcases hkv with ⟨kv', hm, rfl⟩ | ⟨kv', hm, rfl⟩
        · have hk : kv'.1 ∈ keysNZ numPairs :=
            (mem_keys_mkPoly numPairs kv'.1).1 (List.mem_map.2 ⟨kv', hm, rfl⟩)
          have : ¬ (kv'.1 < p) := by
            intro hlt
            exact hany (List.any_eq_true.2 ⟨kv'.1, hk, by simpa using hlt⟩)
          simp only; omega
        · have := hple kv'.1 (List.mem_map.2 ⟨kv', hm, rfl⟩)
          simp only; omega
      have ha0 : coefAt (shiftKeys p (mkPoly denPairs)) 0 = coefLast denPairs p := by
        rw [coefAt_shiftKeys, coefAt_mkPoly]; simp
      have ha0ne : coefAt (shiftKeys p (mkPoly denPairs)) 0 ≠ Coef.const 0 := by
        rw [ha0]
        exact (mem_keysNZ_iff denPairs p).1 ((mem_keys_mkPoly denPairs p).1 hpmem)
      have hb : dense (shiftKeys p (mkPoly numPairs)) = coeffsFrom numPairs p :=
        dense_shift_mkPoly _ _
      have ha : dense (shiftKeys p (mkPoly denPairs)) = coeffsFrom denPairs p :=
        dense_shift_mkPoly _ _
      have hstored : ∀ kv ∈ shiftKeys p (mkPoly numPairs) ++ shiftKeys p (mkPoly denPairs),
          kv.2 ≠ Coef.const 0 := by
        intro kv hkv
        rcases List.mem_append.1 hkv with h | h
        · exact shiftKeys_nonzero p _ (mkPoly_nonzero numPairs) kv h
        · exact shiftKeys_nonzero p _ (mkPoly_nonzero denPairs) kv h
      have hmain := callTV_normalised (shiftKeys p (mkPoly numPairs)) (shiftKeys p (mkPoly denPairs))
        mem zero xs (shiftKeys_sorted p _ (mkPoly_sorted numPairs))
        (shiftKeys_sorted p _ (mkPoly_sorted denPairs)) hstored hcausal ha0ne
      rw [hb, ha, ha0] at hmain
      by_cases hz : (∀ c ∈ coeffsFrom numPairs p, c = Coef.const 0)
          ∧ (∀ c ∈ (coeffsFrom denPairs p).tail, c = Coef.const 0)
      · have hz' : ((coeffsFrom numPairs p).all (fun c => c == 0) = true)
            ∧ ((coeffsFrom denPairs p).tail.all (fun c => c == 0) = true) :=
          ⟨(all_beq_zero_coef _).2 hz.1, (all_beq_zero_coef _).2 hz.2⟩
        simp only [hz', and_self, if_true]
        exact hmain.1 hz
      · have hz' : ¬ (((coeffsFrom numPairs p).all (fun c => c == 0) = true)
            ∧ ((coeffsFrom denPairs p).tail.all (fun c => c == 0) = true)) := by
          intro h
          exact hz ⟨(all_beq_zero_coef _).1 h.1, (all_beq_zero_coef _).1 h.2⟩
        simp only [hz', if_false]
        rw [hmain.2 hz, tvspec_specMem]

end ALV.C06
