/-
  C04 — pieces of the end-to-end statement `filterCall = specCall`: dense coefficient lists of
  the normalised polynomials, causality test, memory normalisation.
-/
import ALV.Lemmas.C04Poly
import ALV.Lemmas.C04Index

set_option linter.unusedSectionVars false
set_option linter.unusedSimpArgs false
namespace ALV.C04

section generic
variable {K : Type} [OfNat K 0] [DecidableEq K]

theorem keys_shiftKeys (p : Int) (t : Terms K) : keys (shiftKeys p t) = (keys t).map (· - p) := by
  simp [keys, shiftKeys, List.map_map, Function.comp]

theorem listMax_map_sub (p : Int) (l : List Int) :
    listMax (l.map (· - p)) = (listMax l).map (· - p) := by
  induction l with
  | nil => rfl
  | cons k r ih =>
    simp only [List.map_cons, listMax, ih]
    cases h : listMax r with
    | none => simp
    | some k' =>
      simp only [Option.map_some]
      by_cases hlt : k < k'
      · have : k - p < k' - p := by omega
        simp [hlt, this]
      · have : ¬ (k - p < k' - p) := by omega
        simp [hlt, this]

/-- `values()` of the normalised polynomial = the specification's coefficient list from delay `p` -/
theorem dense_shift_mkPoly (pairs : List (Int × K)) (p : Int) :
    dense (shiftKeys p (mkPoly pairs)) = coeffsFrom pairs p := by
  have hmax : listMax (keys (mkPoly pairs)) = listMax (keysNZ pairs) :=
    listMax_congr _ _ (mem_keys_mkPoly pairs)
  rcases order_eq_listMax (shiftKeys p (mkPoly pairs)) with ⟨h1, h2, _⟩ | ⟨hi', h1, h2⟩
  · -- empty polynomial
    rw [keys_shiftKeys, listMax_map_sub, hmax] at h1
    have hnone : listMax (keysNZ pairs) = none := by
      cases h : listMax (keysNZ pairs) with
      | none => rfl
      | some x => rw [h] at h1; simp at h1
    simp [dense, h2, coeffsFrom, hnone]
  · rw [keys_shiftKeys, listMax_map_sub, hmax] at h1
    cases h : listMax (keysNZ pairs) with
    | none => rw [h] at h1; simp at h1
    | some hi =>
      rw [h] at h1
      simp only [Option.map_some, Option.some.injEq] at h1
      have hne : (shiftKeys p (mkPoly pairs)).isEmpty = false := by
        cases hh : shiftKeys p (mkPoly pairs) with
        | nil =>
          rw [hh] at h2
          have hk : keys (shiftKeys p (mkPoly pairs)) = [] := by rw [hh]; rfl
          have : listMax (keys (shiftKeys p (mkPoly pairs))) = none := by rw [hk]; rfl
          rw [keys_shiftKeys, listMax_map_sub, hmax, h] at this
          simp at this
        | cons _ _ => rfl
      simp only [dense, hne, Bool.false_eq_true, if_false, coeffsFrom, h, h2, ← h1]
      apply List.map_congr_left
      intro i _
      rw [coefAt_shiftKeys, coefAt_mkPoly]
      congr 1
      simp only [Int.ofNat_eq_natCast]
      omega

theorem all_beq_zero (l : List K) : (l.all (fun c => c == 0)) = true ↔ ∀ c ∈ l, c = 0 := by
  simp [List.all_eq_true]

end generic

variable {K : Type} [Field K] [DecidableEq K]

/-- the specification's memory and the coded memory normalisation feed the same `lm` items -/
theorem specMem_take (zero : K) (lm : Nat) (m : Mem K) :
    (specMem zero lm m).take lm = memoryOf zero lm m := by
  cases m with
  | none => simp [specMem, memoryOf]
  | iter l =>
    simp only [specMem, memoryOf, memFromIter]
    by_cases h : lm ≤ l.length
    · simp [h, List.length_take, Nat.min_eq_left h]
    · have h' : l.length ≤ lm := by omega
      simp only [h, if_false, List.take_of_length_le h']
      rw [List.take_of_length_le (by simp; omega)]
  | gen g =>
    simp [specMem, memoryOf, memFromIter]
  | callable f =>
    simp only [specMem, memoryOf, memFromIter]
    by_cases h : lm ≤ (f lm).length
    · simp [h, List.length_take, Nat.min_eq_left h]
    · have h' : (f lm).length ≤ lm := by omega
      simp only [h, if_false, List.take_of_length_le h']
      rw [List.take_of_length_le (by simp; omega)]

theorem memoryOf_length (zero : K) (lm : Nat) (m : Mem K) : (memoryOf zero lm m).length = lm := by
  cases m <;> simp [memoryOf, memFromIter, List.length_take]

theorem fspec_specMem (b as : List K) (a0 zero : K) (m : Mem K) (xs : List K) :
    fspec b as a0 zero (specMem zero as.length m) [] xs
      = fspec b as a0 zero (memoryOf zero as.length m) [] xs := by
  apply fspec_congr_hy
  rw [specMem_take, List.take_of_length_le (by rw [memoryOf_length])]

end ALV.C04
