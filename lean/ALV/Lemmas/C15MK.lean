/-
  C15 — the simulation of `MultiKeyDict.__delitem__` / `__setitem__` by the abstract map.
-/
import ALV.Lemmas.C15

set_option linter.unusedSectionVars false

namespace ALV.C15
variable {K V : Type} [DecidableEq K] [DecidableEq V]

/-! ## the abstract map -/

theorem mem_keysOf {l : Log K V} {k : K} {v : V} : k ∈ keysOf l v ↔ (k, v) ∈ l := by
  simp only [keysOf, List.mem_map, List.mem_filter, decide_eq_true_eq]
  constructor
  · rintro ⟨⟨a, b⟩, ⟨h1, h2⟩, h3⟩
    simp only at h2 h3; subst h2; subst h3; exact h1
  · intro h; exact ⟨(k, v), ⟨h, rfl⟩, rfl⟩

theorem keysOf_filter (l : Log K V) (p : K → Bool) (v : V) :
    keysOf (l.filter (fun e => p e.1)) v = (keysOf l v).filter p := by
  simp only [keysOf, List.filter_filter, List.filter_map]
  congr 1
  apply List.filter_congr
  intro e _
  simp [Bool.and_comm]

theorem keysOf_append (l l' : Log K V) (v : V) : keysOf (l ++ l') v = keysOf l v ++ keysOf l' v := by
  simp [keysOf]

theorem keysOf_map_same (ks : List K) (v : V) : keysOf (ks.map (fun k => (k, v))) v = ks := by
  induction ks with
  | nil => rfl
  | cons k r ih => simp only [keysOf] at ih ⊢; simp [ih]

theorem keysOf_map_other (ks : List K) {v w : V} (h : v ≠ w) : keysOf (ks.map (fun k => (k, v))) w = [] := by
  induction ks with
  | nil => rfl
  | cons k r ih => simp only [keysOf] at ih ⊢; simp [ih, h]

/-! ## consequences of the invariant -/

theorem Inv.inv_get {s : St K V} (h : Inv s) {v : V} {t : List K} (hm : (v, t) ∈ s.invDict) :
    dget s.invDict v = some t := dget_of_mem_nodup h.invNodup hm

theorem Inv.store_get {s : St K V} (h : Inv s) {v : V} {t : List K} (hm : (v, t) ∈ s.invDict) :
    dget s.store t = some v := by
  rw [h.storeEq]
  apply dget_of_mem_unique
  · exact List.mem_map.mpr ⟨(v, t), hm, rfl⟩
  · intro e he het
    obtain ⟨e0, he0, rfl⟩ := List.mem_map.mp he
    simp only at het ⊢
    obtain ⟨k, hk⟩ := List.exists_mem_of_ne_nil _ (h.tupNe _ hm)
    have := h.disj e0 he0 (v, t) hm k (by rw [het]; exact hk) hk
    rw [this]

theorem Inv.v2k_of_mem {s : St K V} (h : Inv s) {v : V} {t : List K} (hm : (v, t) ∈ s.invDict) :
    value2keys s v = t := by
  simp [value2keys, h.inv_get hm]

theorem Inv.mem_v2k {s : St K V} (h : Inv s) {v : V} {k : K} :
    k ∈ value2keys s v ↔ ∃ t, (v, t) ∈ s.invDict ∧ k ∈ t := by
  constructor
  · intro hk
    unfold value2keys at hk
    cases hg : dget s.invDict v with
    | none => simp [hg] at hk
    | some t => simp [hg] at hk; exact ⟨t, dget_some_mem hg, hk⟩
  · rintro ⟨t, hm, hk⟩; rw [h.v2k_of_mem hm]; exact hk

theorem Rep.mem_log {s : St K V} {l : Log K V} (h : Rep s l) {k : K} {v : V} :
    (k, v) ∈ l ↔ ∃ t, (v, t) ∈ s.invDict ∧ k ∈ t := by
  rw [← mem_keysOf, ← h.groups, h.inv.mem_v2k]

/-- `d[k]` of the three maps is the value bound to `k` -/
theorem Rep.getitem_eq {s : St K V} {l : Log K V} (h : Rep s l) (k : K) : getitem s k = dget l k := by
  unfold getitem
  cases hk : dget s.keysDict k with
  | some kt =>
    obtain ⟨v, hm, hkt⟩ := (h.inv.keys k kt).mp hk
    simp only
    rw [h.inv.store_get hm]
    exact (dget_of_mem_nodup h.logNodup (h.mem_log.mpr ⟨kt, hm, hkt⟩)).symm
  | none =>
    simp only
    cases hl : dget l k with
    | none => rfl
    | some v =>
      obtain ⟨t, hm, hkt⟩ := h.mem_log.mp (dget_some_mem hl)
      have := (h.inv.keys k t).mpr ⟨v, hm, hkt⟩
      rw [hk] at this; cases this

theorem Rep.key2keys_eq {s : St K V} {l : Log K V} (h : Rep s l) (k : K) :
    key2keys s k = specKey2keys l k := by
  unfold key2keys specKey2keys
  cases hk : dget s.keysDict k with
  | some kt =>
    obtain ⟨v, hm, hkt⟩ := (h.inv.keys k kt).mp hk
    rw [dget_of_mem_nodup h.logNodup (h.mem_log.mpr ⟨kt, hm, hkt⟩)]
    simp [← h.groups, h.inv.v2k_of_mem hm]
  | none =>
    have := h.getitem_eq k
    simp only [getitem, hk] at this
    rw [← this]; rfl

/-! ## `__delitem__` -/

/-- what `__delitem__` leaves behind, both branches at once (`tail` is empty when the tuple of
    the value has lost its last key) -/
def delState (s : St K V) (key : K) (kt : List K) (value : V) : St K V :=
  let newKey := kt.filter (fun k => k ≠ key)
  let tail := if newKey = [] then [] else [(value, newKey)]
  { keysDict := newKey.foldl (fun d k => dset d k newKey) (derase s.keysDict key)
    invDict := derase s.invDict value ++ tail
    store := (derase s.invDict value ++ tail).map (fun e => (e.2, e.1)) }

theorem Inv.derase_store {s : St K V} (h : Inv s) {value : V} {kt : List K}
    (hm : (value, kt) ∈ s.invDict) :
    derase s.store kt = (derase s.invDict value).map (fun e => (e.2, e.1)) := by
  rw [h.storeEq]
  unfold derase
  rw [List.filter_map]
  congr 1
  apply List.filter_congr
  intro e he
  simp only [Function.comp, ne_eq, decide_eq_decide]
  constructor
  · intro h1 h2
    apply h1
    have := h.inv_get he
    have hv : e = (value, e.2) := by rw [← h2]
    rw [hv] at he
    have := h.inv_get he
    rw [h.inv_get hm] at this
    cases this; rfl
  · intro h1 h2
    apply h1
    obtain ⟨k, hk⟩ := List.exists_mem_of_ne_nil _ (h.tupNe _ hm)
    have := h.disj e he (value, kt) hm k (by rw [h2]; exact hk) hk
    rw [this]

theorem delitem_eq {s : St K V} (h : Inv s) {key : K} {kt : List K} {value : V}
    (hk : dget s.keysDict key = some kt) (hm : (value, kt) ∈ s.invDict) :
    delitem s key = some (delState s key kt value) := by
  have hst := h.store_get hm
  have hinv := h.inv_get hm
  have hder := h.derase_store hm
  -- the tuple left over is absent from the remaining maps
  have habs_inv : dget (derase s.invDict value) value = none := by rw [dget_derase]; simp
  have habs_st : ∀ t, dget (derase s.store kt) t = some value → False := by
    intro t ht
    rw [hder] at ht
    obtain ⟨e, he, heq⟩ := List.mem_map.mp (dget_some_mem ht)
    simp only [Prod.mk.injEq] at heq
    exact (mem_derase.mp he).2 heq.2
  unfold delitem getitem delState
  simp only [hk, hst, ddel_of_get hk, ddel_of_get hinv, ddel_of_get hst]
  by_cases hnk : kt.filter (fun k => k ≠ key) = []
  · simp only [hnk, if_true, List.foldl_nil, List.append_nil, hder, List.length_nil, gt_iff_lt,
      Nat.lt_irrefl, if_false]
  · have hlen : (kt.filter (fun k => k ≠ key)).length > 0 := List.length_pos_iff.mpr hnk
    simp only [hlen, if_true, hnk, if_false]
    rw [dset_of_absent _ habs_inv]
    have : dget (derase s.store kt) (kt.filter (fun k => k ≠ key)) = none := by
      cases hg : dget (derase s.store kt) (kt.filter (fun k => k ≠ key)) with
      | none => rfl
      | some w =>
        exfalso
        rw [hder] at hg
        obtain ⟨e, he, heq⟩ := List.mem_map.mp (dget_some_mem hg)
        simp only [Prod.mk.injEq] at heq
        obtain ⟨he1, he2⟩ := mem_derase.mp he
        obtain ⟨k', hk'⟩ := List.exists_mem_of_ne_nil _ hnk
        have hk'kt : k' ∈ kt := (List.mem_filter.mp hk').1
        have := h.disj e he1 (value, kt) hm k' (by rw [heq.1]; exact hk') hk'kt
        exact he2 (by rw [this])
    rw [dset_of_absent _ this, hder, List.map_append]
    rfl

theorem mem_delState_inv {s : St K V} {key : K} {kt : List K} {value : V} {e : V × List K} :
    e ∈ (delState s key kt value).invDict ↔
      (e ∈ s.invDict ∧ e.1 ≠ value) ∨
      (kt.filter (fun k => k ≠ key) ≠ [] ∧ e = (value, kt.filter (fun k => k ≠ key))) := by
  unfold delState
  simp only [List.mem_append, mem_derase]
  by_cases hnk : kt.filter (fun k => k ≠ key) = []
  · simp only [hnk, if_true, List.not_mem_nil, or_false, ne_eq, not_true_eq_false, false_and]
  · simp only [hnk, if_false, List.mem_singleton, ne_eq, not_false_eq_true, true_and]

theorem delState_inv {s : St K V} (h : Inv s) {key : K} {kt : List K} {value : V}
    (hk : dget s.keysDict key = some kt) (hm : (value, kt) ∈ s.invDict) :
    Inv (delState s key kt value) := by
  have hkey : key ∈ kt := by
    obtain ⟨v, hv, hkk⟩ := (h.keys key kt).mp hk; exact hkk
  have hsub : ∀ x, x ∈ kt.filter (fun k => k ≠ key) ↔ x ∈ kt ∧ x ≠ key := by
    intro x; simp [List.mem_filter]
  have hmem := @mem_delState_inv K V _ _ s key kt value
  -- an old entry with another value shares no key with `kt`
  have hother : ∀ e ∈ s.invDict, e.1 ≠ value → ∀ x, x ∈ e.2 → x ∈ kt → False := by
    intro e he hne x hx hxkt
    have := h.disj e he (value, kt) hm x hx hxkt
    exact hne (by rw [this])
  refine ⟨?_, rfl, ?_, ?_, ?_, ?_, ?_⟩
  · -- one entry per value
    show (List.map (·.1) (derase s.invDict value ++ _)).Nodup
    rw [List.map_append, List.nodup_append]
    refine ⟨nodup_keys_derase value h.invNodup, ?_, ?_⟩
    · split <;> simp
    · intro a ha b hb
      obtain ⟨e, he, rfl⟩ := List.mem_map.mp ha
      have h1 := (mem_derase.mp he).2
      split at hb
      · simp at hb
      · simp at hb; subst hb; exact h1
  · intro e he
    rcases hmem.mp he with ⟨h1, _⟩ | ⟨h1, rfl⟩
    · exact h.tupNe e h1
    · exact h1
  · intro e he
    rcases hmem.mp he with ⟨h1, _⟩ | ⟨_, rfl⟩
    · exact h.tupNodup e h1
    · exact List.Nodup.sublist List.filter_sublist (h.tupNodup _ hm)
  · intro e he e' he' x hx hx'
    rcases hmem.mp he with ⟨h1, h2⟩ | ⟨_, rfl⟩ <;> rcases hmem.mp he' with ⟨h1', h2'⟩ | ⟨_, rfl⟩
    · exact h.disj e h1 e' h1' x hx hx'
    · exact (hother e h1 h2 x hx ((hsub x).mp hx').1).elim
    · exact (hother e' h1' h2' x hx' ((hsub x).mp hx).1).elim
    · rfl
  · -- `_keys_dict`
    intro x t
    show dget (List.foldl _ (derase s.keysDict key) _) x = some t ↔ _
    rw [dget_foldl_dset, dget_derase]
    by_cases hx : x ∈ kt.filter (fun k => k ≠ key)
    · have hne : kt.filter (fun k => k ≠ key) ≠ [] := List.ne_nil_of_mem hx
      simp only [hx, if_true, Option.some.injEq]
      constructor
      · intro ht; subst ht
        exact ⟨value, hmem.mpr (Or.inr ⟨hne, rfl⟩), hx⟩
      · rintro ⟨v, hv, hxt⟩
        rcases hmem.mp hv with ⟨h1, h2⟩ | ⟨_, h2⟩
        · exact (hother _ h1 h2 x hxt ((hsub x).mp hx).1).elim
        · exact (Prod.mk.inj h2).2.symm
    · simp only [hx, if_false]
      by_cases hxk : x = key
      · subst hxk
        simp only [if_true]
        constructor
        · intro hc; cases hc
        · rintro ⟨v, hv, hxt⟩
          rcases hmem.mp hv with ⟨h1, h2⟩ | ⟨_, h2⟩
          · exact (hother _ h1 h2 x hxt hkey).elim
          · rw [(Prod.mk.inj h2).2] at hxt; exact (hx hxt).elim
      · simp only [hxk, if_false]
        rw [h.keys]
        constructor
        · rintro ⟨v, hv, hxt⟩
          refine ⟨v, hmem.mpr (Or.inl ⟨hv, ?_⟩), hxt⟩
          intro hvv
          simp only at hvv; subst hvv
          have := h.inv_get hv
          rw [h.inv_get hm] at this
          cases this
          exact hx ((hsub x).mpr ⟨hxt, hxk⟩)
        · rintro ⟨v, hv, hxt⟩
          rcases hmem.mp hv with ⟨h1, _⟩ | ⟨_, h2⟩
          · exact ⟨v, h1, hxt⟩
          · rw [(Prod.mk.inj h2).2] at hxt; exact (hx hxt).elim
  · exact nodup_keys_foldl_dset _ _ (nodup_keys_derase key h.keysNodup)

theorem v2k_eq_nil_of_not_mem {s : St K V} {v : V} (h : ∀ t, (v, t) ∉ s.invDict) :
    value2keys s v = [] := by
  have : dget s.invDict v = none := by
    apply dget_eq_none_iff.mpr
    intro e he hev
    exact h e.2 (by rw [← hev]; exact he)
  simp [value2keys, this]

theorem filter_ne_eq_self {t : List K} {key : K} (h : key ∉ t) : t.filter (fun k => k ≠ key) = t := by
  apply List.filter_eq_self.mpr
  intro a ha
  simp only [ne_eq, decide_eq_true_eq]
  intro hak; exact h (hak ▸ ha)

theorem delState_rep {s : St K V} {l : Log K V} (h : Rep s l) {key : K} {kt : List K} {value : V}
    (hk : dget s.keysDict key = some kt) (hm : (value, kt) ∈ s.invDict) :
    Rep (delState s key kt value) (l.filter (fun e => e.1 ≠ key)) := by
  have hinv' := delState_inv h.inv hk hm
  have hmem := @mem_delState_inv K V _ _ s key kt value
  refine ⟨hinv', ?_, ?_⟩
  · exact List.Nodup.sublist (List.Sublist.map _ List.filter_sublist) h.logNodup
  · intro v
    have hf := keysOf_filter l (fun k => decide (k ≠ key)) v
    rw [hf, ← h.groups v]
    by_cases hv : v = value
    · subst hv
      rw [h.inv.v2k_of_mem hm]
      by_cases hnk : kt.filter (fun k => k ≠ key) = []
      · rw [hnk]
        apply v2k_eq_nil_of_not_mem
        intro t ht
        rcases hmem.mp ht with ⟨_, h2⟩ | ⟨h1, _⟩
        · exact h2 rfl
        · exact h1 hnk
      · exact hinv'.v2k_of_mem (hmem.mpr (Or.inr ⟨hnk, rfl⟩))
    · cases hg : dget s.invDict v with
      | some t =>
        have hvt := dget_some_mem hg
        have hkey : key ∉ t := by
          intro hkt
          have := h.inv.disj (v, t) hvt (value, kt) hm key hkt
            (by obtain ⟨_, _, hkk⟩ := (h.inv.keys key kt).mp hk; exact hkk)
          exact hv (Prod.mk.inj this).1
        rw [hinv'.v2k_of_mem (hmem.mpr (Or.inl ⟨hvt, hv⟩)), h.inv.v2k_of_mem hvt, filter_ne_eq_self hkey]
      | none =>
        have h0 : value2keys s v = [] := by simp [value2keys, hg]
        rw [h0]
        apply v2k_eq_nil_of_not_mem
        intro t ht
        rcases hmem.mp ht with ⟨h1, _⟩ | ⟨_, h2⟩
        · have := h.inv.inv_get h1
          rw [hg] at this; cases this
        · exact hv (Prod.mk.inj h2).1

/-- **`__delitem__` simulates the removal of one binding**; a missing key raises `KeyError`
    (before anything is changed) -/
theorem delitem_sim {s : St K V} {l : Log K V} (h : Rep s l) (key : K) :
    (dget l key = none ∧ delitem s key = none) ∨
    (∃ s', (dget l key).isSome ∧ delitem s key = some s' ∧ Rep s' (l.filter (fun e => e.1 ≠ key))) := by
  have hget := h.getitem_eq key
  cases hk : dget s.keysDict key with
  | none =>
    left
    simp only [getitem, hk] at hget
    exact ⟨hget.symm, by simp [delitem, hk]⟩
  | some kt =>
    right
    obtain ⟨value, hm, hkk⟩ := (h.inv.keys key kt).mp hk
    refine ⟨delState s key kt value, ?_, delitem_eq h.inv hk hm, delState_rep h hk hm⟩
    simp only [getitem, hk, h.inv.store_get hm] at hget
    rw [← hget]; rfl

/-! ## `__setitem__` -/

theorem log_unique {l : Log K V} (hn : (l.map (·.1)).Nodup) {k : K} {v w : V}
    (h1 : (k, v) ∈ l) (h2 : (k, w) ∈ l) : v = w := by
  have a := dget_of_mem_nodup hn h1
  have b := dget_of_mem_nodup hn h2
  rw [a] at b; exact Option.some.inj b

theorem keysOf_nodup {l : Log K V} (hn : (l.map (·.1)).Nodup) (v : V) : (keysOf l v).Nodup :=
  List.Nodup.sublist (List.Sublist.map _ List.filter_sublist) hn

theorem Rep.congr {s : St K V} {l l' : Log K V} (h : Rep s l) (hn : (l'.map (·.1)).Nodup)
    (hg : ∀ v, keysOf l' v = keysOf l v) : Rep s l' :=
  ⟨h.inv, hn, fun v => by rw [hg, h.groups]⟩

/-- "Remove the overwritten data": the loop removes exactly the bindings of the given keys -/
theorem delLoop_sim (p : List K) : ∀ {s : St K V} {l : Log K V}, Rep s l →
    ∃ s1, delLoop s p = some s1 ∧ Rep s1 (l.filter (fun e => e.1 ∉ p)) := by
  induction p with
  | nil =>
    intro s l h
    refine ⟨s, rfl, ?_⟩
    have : l.filter (fun e => e.1 ∉ ([] : List K)) = l := by
      apply List.filter_eq_self.mpr; intro a _; simp
    rw [this]; exact h
  | cons k r ih =>
    intro s l h
    rcases delitem_sim h k with ⟨hl, hd⟩ | ⟨s', hl, hd, hrep⟩
    · -- not bound: nothing to delete
      have hk : dhas s.keysDict k = false := by
        have := h.getitem_eq k
        rw [hl] at this
        cases hg : dget s.keysDict k with
        | none => simp [dhas, hg]
        | some kt =>
          obtain ⟨v, hm, _⟩ := (h.inv.keys k kt).mp hg
          simp [getitem, hg, h.inv.store_get hm] at this
      obtain ⟨s1, h1, h2⟩ := ih h
      refine ⟨s1, by simp [delLoop, hk, h1], ?_⟩
      have : l.filter (fun e => e.1 ∉ k :: r) = l.filter (fun e => e.1 ∉ r) := by
        apply List.filter_congr
        intro e he
        have := dget_eq_none_iff.mp hl e he
        simp [this]
      rw [this]; exact h2
    · have hk : dhas s.keysDict k = true := by
        cases hg : dget s.keysDict k with
        | none => simp [delitem, hg] at hd
        | some kt => simp [dhas, hg]
      obtain ⟨s1, h1, h2⟩ := ih hrep
      refine ⟨s1, by simp [delLoop, hk, hd, h1], ?_⟩
      have : l.filter (fun e => e.1 ∉ k :: r)
          = (l.filter (fun e => e.1 ≠ k)).filter (fun e => e.1 ∉ r) := by
        rw [List.filter_filter]
        apply List.filter_congr
        intro e _
        simp [Bool.and_comm]
      rw [this]; exact h2

/-- "Do the assignment": a fresh value gets a tuple of fresh keys -/
theorem assign_rep {s : St K V} {l : Log K V} (h : Rep s l) {key : List K} {value : V}
    (hnd : key.Nodup) (hne : key ≠ []) (hfresh : ∀ k ∈ key, dget l k = none)
    (hval : keysOf l value = []) :
    Rep { keysDict := key.foldl (fun d k => dset d k key) s.keysDict
          invDict := dset s.invDict value key
          store := dset s.store key value }
        (l ++ key.map (fun k => (k, value))) := by
  -- no old tuple meets `key`
  have hno : ∀ e ∈ s.invDict, ∀ x, x ∈ e.2 → x ∈ key → False := by
    intro e he x hx hxk
    have hb := dget_isSome_of_mem (h.mem_log.mpr ⟨e.2, he, hx⟩)
    rw [hfresh x hxk] at hb; cases hb
  have hvabs : ∀ t, (value, t) ∉ s.invDict := by
    intro t ht
    have := h.inv.v2k_of_mem ht
    rw [h.groups, hval] at this
    exact h.inv.tupNe _ ht this.symm
  have hv0 : dget s.invDict value = none := by
    apply dget_eq_none_iff.mpr
    intro e he hev; exact hvabs e.2 (by rw [← hev]; exact he)
  have hk0 : dget s.store key = none := by
    cases hg : dget s.store key with
    | none => rfl
    | some w =>
      exfalso
      rw [h.inv.storeEq] at hg
      obtain ⟨e, he, heq⟩ := List.mem_map.mp (dget_some_mem hg)
      obtain ⟨x, hx⟩ := List.exists_mem_of_ne_nil _ hne
      exact hno e he x (by rw [(Prod.mk.inj heq).1]; exact hx) hx
  rw [dset_of_absent _ hv0, dset_of_absent _ hk0]
  have hmem : ∀ e, e ∈ s.invDict ++ [(value, key)] ↔ e ∈ s.invDict ∨ e = (value, key) := by
    intro e; simp
  have hinv' : Inv ({ keysDict := key.foldl (fun d k => dset d k key) s.keysDict
                      invDict := s.invDict ++ [(value, key)]
                      store := s.store ++ [(key, value)] } : St K V) := by
    refine ⟨?_, ?_, ?_, ?_, ?_, ?_, ?_⟩
    · show (List.map (·.1) (s.invDict ++ [(value, key)])).Nodup
      rw [List.map_append, List.nodup_append]
      refine ⟨h.inv.invNodup, by simp, ?_⟩
      intro a ha b hb
      obtain ⟨e, he, rfl⟩ := List.mem_map.mp ha
      simp at hb; subst hb
      intro hev; exact hvabs e.2 (by rw [← hev]; exact he)
    · show s.store ++ [(key, value)] = List.map _ (s.invDict ++ [(value, key)])
      rw [List.map_append, ← h.inv.storeEq]; rfl
    · intro e he
      rcases (hmem e).mp he with h1 | rfl
      · exact h.inv.tupNe e h1
      · exact hne
    · intro e he
      rcases (hmem e).mp he with h1 | rfl
      · exact h.inv.tupNodup e h1
      · exact hnd
    · intro e he e' he' x hx hx'
      rcases (hmem e).mp he with h1 | rfl <;> rcases (hmem e').mp he' with h1' | rfl
      · exact h.inv.disj e h1 e' h1' x hx hx'
      · exact (hno e h1 x hx hx').elim
      · exact (hno e' h1' x hx' hx).elim
      · rfl
    · intro x t
      show dget (List.foldl _ s.keysDict key) x = some t ↔ _
      rw [dget_foldl_dset]
      by_cases hx : x ∈ key
      · simp only [hx, if_true, Option.some.injEq]
        constructor
        · intro ht; subst ht; exact ⟨value, (hmem _).mpr (Or.inr rfl), hx⟩
        · rintro ⟨v, hv, hxt⟩
          rcases (hmem _).mp hv with h1 | h2
          · exact (hno _ h1 x hxt hx).elim
          · exact (Prod.mk.inj h2).2.symm
      · simp only [hx, if_false]
        rw [h.inv.keys]
        constructor
        · rintro ⟨v, hv, hxt⟩; exact ⟨v, (hmem _).mpr (Or.inl hv), hxt⟩
        · rintro ⟨v, hv, hxt⟩
          rcases (hmem _).mp hv with h1 | h2
          · exact ⟨v, h1, hxt⟩
          · rw [(Prod.mk.inj h2).2] at hxt; exact (hx hxt).elim
    · exact nodup_keys_foldl_dset _ _ h.inv.keysNodup
  refine ⟨hinv', ?_, ?_⟩
  · rw [List.map_append, List.nodup_append]
    refine ⟨h.logNodup, ?_, ?_⟩
    · simp only [List.map_map]
      have : (fun x : K × V => x.1) ∘ (fun k : K => (k, value)) = id := rfl
      rw [this, List.map_id]; exact hnd
    · intro a ha b hb
      obtain ⟨e, he, rfl⟩ := List.mem_map.mp ha
      simp only [List.map_map, List.mem_map, Function.comp] at hb
      obtain ⟨x, hx, rfl⟩ := hb
      exact dget_eq_none_iff.mp (hfresh x hx) e he
  · intro v
    rw [keysOf_append]
    by_cases hv : v = value
    · subst hv
      rw [hval, keysOf_map_same, List.nil_append]
      exact hinv'.v2k_of_mem ((hmem _).mpr (Or.inr rfl))
    · rw [keysOf_map_other key (Ne.symm hv), List.append_nil, ← h.groups v]
      cases hg : dget s.invDict v with
      | some t =>
        have hvt := dget_some_mem hg
        rw [hinv'.v2k_of_mem ((hmem _).mpr (Or.inl hvt)), h.inv.v2k_of_mem hvt]
      | none =>
        have h0 : value2keys s v = [] := by simp [value2keys, hg]
        rw [h0]
        apply v2k_eq_nil_of_not_mem
        intro t ht
        rcases (hmem _).mp ht with h1 | h2
        · have := h.inv.inv_get h1
          rw [hg] at this; cases this
        · exact hv (Prod.mk.inj h2).1

theorem specSet_nodup {l : Log K V} (hn : (l.map (·.1)).Nodup) (keys : List K) (v : V) :
    ((specSet l keys v).map (·.1)).Nodup := by
  unfold specSet
  rw [List.map_append, List.nodup_append]
  refine ⟨List.Nodup.sublist (List.Sublist.map _ List.filter_sublist) hn, ?_, ?_⟩
  · simp only [List.map_map]
    have : (fun x : K × V => x.1) ∘ (fun k : K => (k, v)) = id := rfl
    rw [this, List.map_id]; exact nodup_dedupLast keys
  · intro a ha b hb
    obtain ⟨e, he, rfl⟩ := List.mem_map.mp ha
    simp only [List.map_map, List.mem_map, Function.comp] at hb
    obtain ⟨x, hx, rfl⟩ := hb
    have h1 := (List.mem_filter.mp he).2
    simp only [decide_eq_true_eq] at h1
    intro heq
    exact h1 (heq ▸ mem_dedupLast.mp hx)

theorem setitem_eq {s s1 : St K V} {keys : List K} {value : V}
    (h : delLoop s (dedupLast (value2keys s value ++ keys)) = some s1) :
    setitem s keys value = some
      { keysDict := (dedupLast (value2keys s value ++ keys)).foldl
          (fun d k => dset d k (dedupLast (value2keys s value ++ keys))) s1.keysDict
        invDict := dset s1.invDict value (dedupLast (value2keys s value ++ keys))
        store := dset s1.store (dedupLast (value2keys s value ++ keys)) value } := by
  unfold setitem
  unfold value2keys at h ⊢
  cases hd : dget s.invDict value with
  | none =>
    simp only [hd, Option.getD_none, List.nil_append, dedupLastCode_eq] at h ⊢
    simp only [h]
  | some old =>
    simp only [hd, Option.getD_some, dedupLastCode_eq] at h ⊢
    simp only [h]

/-- **`__setitem__` simulates the assignment of the abstract map** (non-empty key tuple) -/
theorem setitem_sim {s : St K V} {l : Log K V} (h : Rep s l) {keys : List K} (hne : keys ≠ [])
    (value : V) : ∃ s', setitem s keys value = some s' ∧ Rep s' (specSet l keys value) := by
  have hold := keysOf_nodup h.logNodup value
  obtain ⟨s1, hloop, hrep1⟩ := delLoop_sim (dedupLast (keysOf l value ++ keys)) h
  have hmemkey : ∀ x, x ∈ dedupLast (keysOf l value ++ keys) ↔ x ∈ keysOf l value ∨ x ∈ keys := by
    intro x; rw [mem_dedupLast, List.mem_append]
  have hrep' := assign_rep (key := dedupLast (keysOf l value ++ keys)) (value := value) hrep1
    (nodup_dedupLast _)
    (by
      intro hc
      have := dedupLast_eq_nil.mp hc
      exact hne (List.append_eq_nil_iff.mp this).2)
    (by
      intro k hk
      apply dget_eq_none_iff.mpr
      intro e he hek
      have := (List.mem_filter.mp he).2
      simp only [decide_eq_true_eq] at this
      exact this (hek ▸ hk))
    (by
      have := keysOf_filter l (fun k => decide (k ∉ dedupLast (keysOf l value ++ keys))) value
      rw [this]
      apply List.filter_eq_nil_iff.mpr
      intro a ha
      simp only [decide_eq_true_eq, Decidable.not_not]
      exact (hmemkey a).mpr (Or.inl ha))
  refine ⟨_, ?_, hrep'.congr (specSet_nodup h.logNodup keys value) ?_⟩
  · rw [← h.groups value] at hloop ⊢
    exact setitem_eq hloop
  · intro v
    unfold specSet
    rw [keysOf_append, keysOf_append]
    have hf1 := keysOf_filter l (fun k => decide (k ∉ keys)) v
    have hf2 := keysOf_filter l (fun k => decide (k ∉ dedupLast (keysOf l value ++ keys))) v
    rw [hf1, hf2]
    by_cases hv : v = value
    · subst hv
      have hnil : (keysOf l v).filter (fun k => decide (k ∉ dedupLast (keysOf l v ++ keys))) = [] := by
        apply List.filter_eq_nil_iff.mpr
        intro a ha
        simp only [decide_eq_true_eq, Decidable.not_not]
        exact (hmemkey a).mpr (Or.inl ha)
      rw [keysOf_map_same, keysOf_map_same, hnil, List.nil_append, dedupLast_append,
        dedupLast_of_nodup hold]
    · rw [keysOf_map_other _ (Ne.symm hv), keysOf_map_other _ (Ne.symm hv)]
      congr 1
      apply List.filter_congr
      intro x hx
      have hxv : ¬ x ∈ keysOf l value := by
        intro hxval
        exact hv (log_unique h.logNodup (mem_keysOf.mp hx) (mem_keysOf.mp hxval))
      simp only [hmemkey, hxv, false_or]

/-! ## observations -/

theorem rep_empty : Rep (St.empty : St K V) [] := by
  refine ⟨⟨?_, rfl, ?_, ?_, ?_, ?_, ?_⟩, ?_, ?_⟩ <;> simp [St.empty, value2keys, keysOf]

theorem Rep.value2keys_eq {s : St K V} {l : Log K V} (h : Rep s l) (v : V) :
    value2keys s v = keysOf l v := h.groups v

theorem mem_specValues {l : Log K V} {v : V} : v ∈ specValues l ↔ ∃ k, (k, v) ∈ l := by
  unfold specValues
  rw [mem_dedupLast, List.mem_map]
  constructor
  · rintro ⟨⟨k, w⟩, he, rfl⟩; exact ⟨k, he⟩
  · rintro ⟨k, hk⟩; exact ⟨(k, v), hk, rfl⟩

theorem Rep.mem_iter {s : St K V} {l : Log K V} (h : Rep s l) (v : V) :
    v ∈ iterValues s ↔ v ∈ specValues l := by
  rw [mem_specValues]
  unfold iterValues
  rw [List.mem_map]
  constructor
  · rintro ⟨⟨w, t⟩, he, rfl⟩
    obtain ⟨k, hk⟩ := List.exists_mem_of_ne_nil _ (h.inv.tupNe _ he)
    exact ⟨k, h.mem_log.mpr ⟨t, he, hk⟩⟩
  · rintro ⟨k, hk⟩
    obtain ⟨t, ht, _⟩ := h.mem_log.mp hk
    exact ⟨(v, t), ht, rfl⟩

/-- iteration yields every bound value exactly once -/
theorem Rep.iter_perm {s : St K V} {l : Log K V} (h : Rep s l) :
    (iterValues s).Perm (specValues l) :=
  (List.perm_ext_iff_of_nodup h.inv.invNodup (nodup_dedupLast _)).mpr (fun v => h.mem_iter v)

theorem Rep.len_eq {s : St K V} {l : Log K V} (h : Rep s l) : len s = specLen l := by
  unfold len specLen
  rw [← h.iter_perm.length_eq, h.inv.storeEq]
  simp [iterValues]

/-- the storage holds one key tuple per value: the tuple of that value's keys -/
theorem Rep.items_perm {s : St K V} {l : Log K V} (h : Rep s l) : s.store.Perm (specItems l) := by
  have : s.store = (iterValues s).map (fun v => (keysOf l v, v)) := by
    rw [h.inv.storeEq]
    unfold iterValues
    rw [List.map_map]
    apply List.map_congr_left
    intro e he
    simp only [Function.comp]
    rw [← h.groups, h.inv.v2k_of_mem he]
  rw [this]
  exact h.iter_perm.map _

theorem find?_unique {α : Type} {p : α → Bool} {l : List α} {a : α} (ha : a ∈ l) (hp : p a = true)
    (hu : ∀ b ∈ l, p b = true → b = a) : l.find? p = some a := by
  induction l with
  | nil => simp at ha
  | cons x r ih =>
    rw [List.find?_cons]
    cases hx : p x with
    | true => simp only; rw [hu x List.mem_cons_self hx]
    | false =>
      simp only
      apply ih
      · rcases List.mem_cons.mp ha with rfl | h
        · rw [hp] at hx; cases hx
        · exact h
      · intro b hb; exact hu b (List.mem_cons_of_mem _ hb)

/-- lookup by a whole key tuple -/
theorem Rep.getTuple_eq {s : St K V} {l : Log K V} (h : Rep s l) (t : List K) :
    getTuple s t = specGetT l t := by
  unfold getTuple specGetT
  cases hg : dget s.store t with
  | some v =>
    symm
    have hm : (v, t) ∈ s.invDict := by
      have := dget_some_mem hg
      rw [h.inv.storeEq] at this
      obtain ⟨e, he, heq⟩ := List.mem_map.mp this
      obtain ⟨h1, h2⟩ := Prod.mk.inj heq
      rw [← h1, ← h2]; exact he
    have hkv : keysOf l v = t := by rw [← h.groups, h.inv.v2k_of_mem hm]
    apply find?_unique
    · exact (h.mem_iter v).mp (List.mem_map.mpr ⟨(v, t), hm, rfl⟩)
    · simp [hkv]
    · intro w _ hw
      simp only [decide_eq_true_eq] at hw
      obtain ⟨k, hk⟩ := List.exists_mem_of_ne_nil _ (h.inv.tupNe _ hm)
      simp only at hk
      have h1 : (k, v) ∈ l := mem_keysOf.mp (hkv ▸ hk)
      have h2 : (k, w) ∈ l := mem_keysOf.mp (hw ▸ hk)
      exact log_unique h.logNodup h2 h1
  | none =>
    symm
    apply List.find?_eq_none.mpr
    intro w hw hkw
    simp only [decide_eq_true_eq] at hkw
    obtain ⟨k, hk⟩ := mem_specValues.mp hw
    obtain ⟨t', ht', _⟩ := h.mem_log.mp hk
    have : t' = t := by rw [← hkw, ← h.groups, h.inv.v2k_of_mem ht']
    subst this
    rw [h.inv.store_get ht'] at hg
    cases hg

/-! ## every coherent state represents its canonical abstract map -/

theorem keysOf_flatMap (d : Dict V (List K)) (hn : (d.map (·.1)).Nodup) (v : V) :
    keysOf (d.flatMap (fun e => e.2.map (fun k => (k, e.1)))) v = (dget d v).getD [] := by
  induction d with
  | nil => rfl
  | cons e r ih =>
    obtain ⟨w, t⟩ := e
    simp only [List.map_cons, List.nodup_cons] at hn
    rw [List.flatMap_cons, keysOf_append, ih hn.2, dget_cons]
    by_cases hw : w = v
    · subst hw
      have : dget r w = none := by
        apply dget_eq_none_iff.mpr
        intro e he hew
        exact hn.1 (List.mem_map.mpr ⟨e, he, hew⟩)
      simp [keysOf_map_same, this]
    · simp [keysOf_map_other t hw, hw]

theorem Inv.rep_absLog {s : St K V} (h : Inv s) : Rep s (absLog s) := by
  refine ⟨h, ?_, fun v => (keysOf_flatMap s.invDict h.invNodup v).symm⟩
  unfold absLog
  have : (s.invDict.flatMap (fun e => e.2.map (fun k => (k, e.1)))).map (·.1)
      = s.invDict.flatMap (·.2) := by
    rw [List.map_flatMap]
    congr 1
    funext e
    rw [List.map_map]
    exact List.map_id _
  rw [this]
  unfold List.Nodup
  rw [List.pairwise_flatMap]
  refine ⟨fun e he => h.tupNodup e he, ?_⟩
  have hp : List.Pairwise (fun a b : V × List K => a.1 ≠ b.1) s.invDict := by
    have := h.invNodup
    unfold List.Nodup at this
    rwa [List.pairwise_map] at this
  apply List.Pairwise.imp_of_mem _ hp
  intro a b ha hb hab x hx y hy hxy
  subst hxy
  exact hab (by rw [h.disj a ha b hb x hx hy])

/-! ## histories -/

/-- the quantifier of the property: key tuples are non-empty.  Every operation that raises is
    inside (since the repair 9cbe718 none of them fails half-way). -/
def Op.valid : Op K V → Prop
  | .set keys _ => keys ≠ []
  | _ => True

/-- nothing the coherence invariant needs is excluded: only the empty key tuple -/
def Op.nonEmpty : Op K V → Prop
  | .set keys _ => keys ≠ []
  | _ => True

/-- the deletion loop over keys that hold no value does nothing -/
theorem delLoop_unbound (p : List K) (s : St K V) (h : ∀ k ∈ p, dhas s.keysDict k = false) :
    delLoop s p = some s := by
  induction p with
  | nil => rfl
  | cons k r ih =>
    have hk := h k List.mem_cons_self
    simp only [delLoop, hk, Bool.false_eq_true, if_false]
    exact ih (fun x hx => h x (List.mem_cons_of_mem _ hx))

/-- an assignment whose key tuple holds an unhashable key, as the code was BEFORE the repair
    9cbe718: the exception is raised, the three maps are still coherent, and they represent the map
    WITHOUT the keys that stood in front of the unhashable one (`badKeyPrefix`) -/
theorem setBadKey_sim {s : St K V} {l : Log K V} (h : Rep s l) (before after : List K) (v : V) :
    Rep (setitemBadKey s before after v).1
        (l.filter (fun e => e.1 ∉ badKeyPrefix s before after v)) ∧
      (setitemBadKey s before after v).2 = .rejected := by
  obtain ⟨s1, h1, h2⟩ := delLoop_sim (badKeyPrefix s before after v) h
  simp only [setitemBadKey, h1]
  exact ⟨h2, trivial⟩

theorem step_sim {s : St K V} {l : Log K V} (h : Rep s l) (op : Op K V) (hv : Op.valid op) :
    Rep (step s op).1 (specStep l op).1 ∧ (step s op).2 = (specStep l op).2 := by
  cases op with
  | set keys v =>
    obtain ⟨s', h1, h2⟩ := setitem_sim h hv v
    simp only [step, h1, specStep]
    exact ⟨h2, trivial⟩
  | del k =>
    rcases delitem_sim h k with ⟨hl, hd⟩ | ⟨s', hl, hd, hrep⟩
    · have : specDel l k = none := by simp [specDel, dhas, hl]
      simp only [step, hd, specStep, this]
      exact ⟨h, trivial⟩
    · have : specDel l k = some (l.filter (fun e => e.1 ≠ k)) := by simp [specDel, dhas, hl]
      simp only [step, hd, specStep, this]
      exact ⟨hrep, trivial⟩
  | get k => exact ⟨h, by simp only [step, specStep, specGet, h.getitem_eq]⟩
  | getT t => exact ⟨h, by simp only [step, specStep, h.getTuple_eq]⟩
  | key2keys k => exact ⟨h, by simp only [step, specStep, h.key2keys_eq]⟩
  | value2keys v => exact ⟨h, by simp only [step, specStep, h.groups]⟩
  | len => exact ⟨h, by simp only [step, specStep, h.len_eq]⟩
  | setUnhashable keys => exact ⟨h, rfl⟩
  | setBadKey before after v => exact ⟨h, rfl⟩
  | badOperand => exact ⟨h, rfl⟩
  | const r => exact ⟨h, rfl⟩
  | contains t =>
    refine ⟨h, ?_⟩
    have := h.getTuple_eq t
    simp only [getTuple] at this
    simp only [step, specStep, dhas, this]
  | dictGet t => exact ⟨h, by simp only [step, specStep, h.getTuple_eq]⟩

/-- coherence survives EVERY operation -/
theorem step_inv_any {s : St K V} (h : Inv s) (op : Op K V) (hv : Op.nonEmpty op) : Inv (step s op).1 := by
  cases op with
  | setBadKey before after v => exact h
  | const r => exact h
  | contains t => exact h
  | dictGet t => exact h
  | set keys v => exact (step_sim h.rep_absLog (.set keys v) hv).1.inv
  | del k => exact (step_sim h.rep_absLog (.del k) trivial).1.inv
  | get k => exact h
  | getT t => exact h
  | key2keys k => exact h
  | value2keys v => exact h
  | len => exact h
  | setUnhashable keys => exact h
  | badOperand => exact h

theorem run_sim (ops : List (Op K V)) : ∀ {s : St K V} {l : Log K V}, Rep s l →
    (∀ op ∈ ops, Op.valid op) →
    Rep (run s ops).1 (specRun l ops).1 ∧ (run s ops).2 = (specRun l ops).2 := by
  induction ops with
  | nil => intro s l h _; exact ⟨h, rfl⟩
  | cons op r ih =>
    intro s l h hv
    obtain ⟨h1, h2⟩ := step_sim h op (hv op List.mem_cons_self)
    obtain ⟨h3, h4⟩ := ih h1 (fun o ho => hv o (List.mem_cons_of_mem _ ho))
    exact ⟨h3, by simp only [run, specRun, h2, h4]⟩

/-! ## the abstract map, read off the history -/

theorem dget_specSet (l : Log K V) (keys : List K) (v : V) (k : K) :
    dget (specSet l keys v) k = if k ∈ keys then some v else dget l k := by
  unfold specSet
  rw [dget_append, dget_filter_key l (fun x => decide (x ∉ keys)), dget_map_const]
  by_cases hk : k ∈ keys
  · simp [hk]
  · simp only [hk, not_false_eq_true, decide_true, if_true, mem_dedupLast, if_false]
    cases dget l k <;> rfl

theorem last_assigned_spec (k : K) (ops : List (Op K V)) : ∀ l : Log K V,
    dget (specRun l ops).1 k = lastAssigned k ops (dget l k) := by
  induction ops with
  | nil => intro l; rfl
  | cons op r ih =>
    intro l
    cases op with
    | set keys v => simp only [specRun, specStep, lastAssigned, ih, dget_specSet]
    | del k' =>
      simp only [specRun, specStep, lastAssigned, specDel]
      cases hd : dhas l k' with
      | true =>
        simp only [if_true, ih]
        rw [dget_filter_key l (fun x => decide (x ≠ k'))]
        by_cases hkk : k' = k
        · subst hkk; simp
        · have : ¬ k = k' := fun h => hkk h.symm
          simp [hkk, this]
      | false =>
        simp only [Bool.false_eq_true, if_false, ih]
        by_cases hkk : k' = k
        · subst hkk
          have : dget l k' = none := by
            cases hg : dget l k' with
            | none => rfl
            | some _ => simp [dhas, hg] at hd
          simp [this]
        · simp [hkk]
    | get _ => simp only [specRun, specStep, lastAssigned, ih]
    | getT _ => simp only [specRun, specStep, lastAssigned, ih]
    | key2keys _ => simp only [specRun, specStep, lastAssigned, ih]
    | value2keys _ => simp only [specRun, specStep, lastAssigned, ih]
    | len => simp only [specRun, specStep, lastAssigned, ih]
    | setUnhashable _ => simp only [specRun, specStep, lastAssigned, ih]
    | setBadKey _ _ _ => simp only [specRun, specStep, lastAssigned, ih]
    | badOperand => simp only [specRun, specStep, lastAssigned, ih]
    | const _ => simp only [specRun, specStep, lastAssigned, ih]
    | contains _ => simp only [specRun, specStep, lastAssigned, ih]
    | dictGet _ => simp only [specRun, specStep, lastAssigned, ih]

end ALV.C15
