/-
  C09 — window objects: the object-level resolution (`Model/C09Wnd.lean`) refines to the classified
  window argument of `Model/C09.lean`, so that every theorem about `overlapAddList` / `stftRun`
  applies to `overlapAddListObj` / `stftRunObj`; the binding of `ola_params` to the strategy's
  signature.
-/
import ALV.Lemmas.C09StftRun
import ALV.Lemmas.C09Stft
import ALV.Model.C09Wnd
namespace ALV.C09
variable {K : Type}

theorem resolveWnd_ofResolved (size : Nat) (w? : Option (List K)) :
    resolveWnd size (ofResolved w?) = .ok w? := by
  cases w? <;> rfl

theorem resolveWndStft_ofResolved (size : Nat) (w? : Option (List K))
    (h : ∀ w, w? = some w → w.length = size) : resolveWndStft size (ofResolved w?) = .ok w? := by
  cases w? with
  | none => rfl
  | some w => simp [ofResolved, resolveWndStft, h w rfl]

theorem resolveStftObj_length (size : Nat) (p : PyWnd K) (w : List K)
    (h : resolveStftObj size p = .ok (some w)) : w.length = size := by
  cases p with
  | none => simp [resolveStftObj] at h
  | obj o =>
    simp only [resolveStftObj] at h
    split at h
    · split at h
      · split at h
        · simp at h
        · rename_i hl
          simp only [Except.ok.injEq, Option.some.injEq] at h
          subst h
          simpa using hl
      · simp at h
    · simp at h
    · simp at h

/-- a window that resolves has no opaque item -/
theorem opaqueItems_of_ok (size : Nat) (p : PyWnd K) (w? : Option (List K))
    (h : resolveOlaObj size p = .ok w?) : opaqueItems size p = none := by
  cases p with
  | none => rfl
  | obj o =>
    simp only [resolveOlaObj] at h
    simp only [opaqueItems]
    cases hc : callStep size o with
    | iterable r =>
      rcases r with l | n
      · rfl
      · cases n with
        | zero => rfl
        | succ n => simp [hc, listStep] at h
    | pyNone => rfl
    | other => rfl

/-- a window whose resolution fails otherwise than on its items has no opaque item -/
theorem opaqueItems_of_err (size : Nat) (p : PyWnd K) (e : Err)
    (h : resolveOlaObj size p = .error e) (he : e ≠ .windowItems) : opaqueItems size p = none := by
  cases p with
  | none => rfl
  | obj o =>
    simp only [resolveOlaObj] at h
    simp only [opaqueItems]
    cases hc : callStep size o with
    | iterable r =>
      rcases r with l | n
      · rfl
      · cases n with
        | zero => rfl
        | succ n =>
          simp only [hc, listStep, Except.error.injEq] at h
          exact absurd h.symm he
    | pyNone => rfl
    | other => rfl

section top
variable [Add K] [Mul K] [Neg K] [Div K] [OfNat K 0] [OfNat K 1] [NatCast K] [LT K] [DecidableLT K] [DecidableEq K]

/-- a window object that resolves: the object-level model is the classified model on the resolved
    window -/
theorem overlapAddListObj_eq (blks : List (List K)) (size? hop? : Option Nat) (p : PyWnd K)
    (normalize : Bool) (size : Nat) (hsz : detectSize size? blks = some size)
    (w? : Option (List K)) (h : resolveOlaObj size p = .ok w?) :
    overlapAddListObj blks size? hop? p normalize =
      overlapAddList blks size? hop? (ofResolved w?) normalize := by
  unfold overlapAddListObj overlapAddList
  simp only [hsz, h, resolveWnd_ofResolved, opaqueItems_of_ok size p w? h]
  rfl

/-- a window object that does not resolve: that error at the first `next`, no sample -/
theorem overlapAddListObj_err (blks : List (List K)) (size? hop? : Option Nat) (p : PyWnd K)
    (normalize : Bool) (size : Nat) (hsz : detectSize size? blks = some size)
    (e : Err) (h : resolveOlaObj size p = .error e) (he : e ≠ .windowItems) :
    overlapAddListObj blks size? hop? p normalize = ⟨[], some e⟩ := by
  unfold overlapAddListObj
  simp only [hsz, h, opaqueItems_of_err size p e h he]

omit [Mul K] in
theorem olaPrologueErrObj_eq (size hop : Nat) (p : PyWnd K) (normalize : Bool)
    (w? : Option (List K)) (h : resolveOlaObj size p = .ok w?) :
    olaPrologueErrObj size hop p normalize = olaPrologueErr size hop (ofResolved w?) normalize := by
  unfold olaPrologueErrObj olaPrologueErr
  simp only [h, resolveWnd_ofResolved]
  rfl

theorem overlapAddFromObj_eq (src : Except Err (List (List K))) (size : Nat) (hop? : Option Nat)
    (p : PyWnd K) (normalize : Bool) (w? : Option (List K)) (h : resolveOlaObj size p = .ok w?) :
    overlapAddFromObj src (some size) hop? p normalize =
      overlapAddFrom src (some size) hop? (ofResolved w?) normalize := by
  unfold overlapAddFromObj overlapAddFrom
  cases src with
  | ok blks => exact overlapAddListObj_eq blks (some size) hop? p normalize size rfl w? h
  | error e =>
    simp only [olaPrologueErrObj_eq size _ p normalize w? h]
    rfl
end top

section blkgen
variable [Mul K] [OfNat K 0]

theorem blkGenObj_eq (size : Nat) (hop? : Option Nat) (p : PyWnd K) (st : Stages K) (sig : List K)
    (w? : Option (List K)) (h : resolveStftObj size p = .ok w?) :
    blkGenObj size hop? p st sig = blkGen size hop? (ofResolved w?) st sig ∧
    blkGenTraceObj size hop? p st sig = blkGenTrace size hop? (ofResolved w?) st sig := by
  have hl : ∀ w, w? = some w → w.length = size := fun w e =>
    resolveStftObj_length size p w (e ▸ h)
  unfold blkGenObj blkGen blkGenTraceObj blkGenTrace
  simp only [h, resolveWndStft_ofResolved size w? hl, and_self]
end blkgen

section run
variable [Add K] [Mul K] [Neg K] [Div K] [OfNat K 0] [OfNat K 1] [NatCast K] [LT K] [DecidableLT K] [DecidableEq K]

/-- the wrapper with window objects (analysis window `wa`, synthesis window `c.wnd`) is the wrapper
    of `Model/C09.lean` on the resolved windows -/
theorem stftRunObj_eq (needsNumpy : Bool) (size : Nat) (hop? : Option Nat) (wa : PyWnd K)
    (st : Stages K) (c : OlaCallObj K) (x : List K) (osize : Nat) (hcs : c.size? = some osize)
    (wa? : Option (List K)) (hwa : resolveStftObj size wa = .ok wa?)
    (ws? : Option (List K)) (hws : resolveOlaObj osize c.wnd = .ok ws?) :
    stftRunObj needsNumpy size hop? wa st (some c) x =
      stftRun needsNumpy size hop? (ofResolved wa?) st
        (some ⟨c.size?, c.hop?, ofResolved ws?, c.normalize⟩) x := by
  unfold stftRunObj stftRun
  simp only [(blkGenObj_eq size hop? wa st x wa? hwa).1, hcs,
    overlapAddFromObj_eq _ osize c.hop? c.wnd c.normalize ws? hws]

/-- analysis only (`ola=None`) -/
theorem stftRunObj_noola_eq (size : Nat) (hop? : Option Nat) (wa : PyWnd K)
    (st : Stages K) (x : List K) (wa? : Option (List K)) (hwa : resolveStftObj size wa = .ok wa?) :
    stftRunObj false size hop? wa st none x = stftRun false size hop? (ofResolved wa?) st none x := by
  unfold stftRunObj stftRun
  simp only [(blkGenObj_eq size hop? wa st x wa? hwa).1]
  rfl
end run

/-! ### binding of `ola_params` -/

theorem bindOla_ok (d : Dict) (b : OlaBound) (h : bindOla d = .ok b) :
    (∀ kv ∈ d, kv.1 ∈ olaSigNames) ∧
    b.size = (dictGet d "size").getD .none ∧ b.hop = (dictGet d "hop").getD .none ∧
    b.wnd = (dictGet d "wnd").getD .none ∧ b.normalize = (dictGet d "normalize").getD (.int 1) := by
  unfold bindOla at h
  split at h
  · simp at h
  · rename_i hf
    simp only [Except.ok.injEq] at h
    subst h
    refine ⟨?_, rfl, rfl, rfl, rfl⟩
    intro kv hkv
    have := List.find?_eq_none.1 hf kv hkv
    simpa using this

theorem bindOla_error (d : Dict) (k : String) (h : bindOla d = .error k) :
    k ∉ olaSigNames ∧ ∃ v, (k, v) ∈ d := by
  unfold bindOla at h
  split at h
  · rename_i kv hf
    simp only [Except.error.injEq] at h
    subst h
    have h1 := List.find?_some hf
    have h2 := List.mem_of_find?_eq_some hf
    exact ⟨by simpa using h1, kv.2, h2⟩
  · simp at h

theorem dictGet_of_mem (d : Dict) (k : String) (v : PV) (h : (k, v) ∈ d) : ∃ v', dictGet d k = some v' := by
  unfold dictGet
  cases hf : d.find? (fun kv => decide (kv.1 = k)) with
  | some kv => exact ⟨kv.2, rfl⟩
  | none =>
    have := List.find?_eq_none.1 hf (k, v) h
    simp at this

/-- the lookup specification when the option is not given: only `size` / `hop` have a value -/
theorem olaKwSpec_absent {β : Type} (size hop : β) (merged : List (String × β)) (k : String)
    (h : ∀ kv ∈ merged, kv.1 ≠ "ola_" ++ k) :
    olaKwSpec size hop merged k =
      if k = "size" then some size else if k = "hop" then some hop else none := by
  unfold olaKwSpec
  have : merged.filter (fun kv => decide (kv.1 = "ola_" ++ k)) = [] := by
    apply List.filter_eq_nil_iff.2
    intro kv hkv
    simpa using h kv hkv
  rw [this]; rfl

/-- the lookup specification when the option is given (once: the merged keywords are a dict) -/
theorem olaKwSpec_present {β : Type} (size hop : β) (merged : List (String × β)) (k : String) (v : β)
    (h : merged.filter (fun kv => decide (kv.1 = "ola_" ++ k)) = [("ola_" ++ k, v)]) :
    olaKwSpec size hop merged k = some v := by
  unfold olaKwSpec
  rw [h]; rfl

theorem olaKwSpec_some_mem {β : Type} (size hop : β) (merged : List (String × β)) (k : String)
    (hk1 : k ≠ "size") (hk2 : k ≠ "hop") (v : β) (h : olaKwSpec size hop merged k = some v) :
    ("ola_" ++ k, v) ∈ merged := by
  unfold olaKwSpec at h
  split at h
  · rename_i kv hl
    simp only [Option.some.injEq] at h
    have hm := List.mem_of_getLast? hl
    rw [List.mem_filter] at hm
    have : kv.1 = "ola_" ++ k := by simpa using hm.2
    rw [← this, ← h]
    exact hm.1
  · simp [hk1, hk2] at h

end ALV.C09
