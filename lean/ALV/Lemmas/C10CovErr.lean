/-
  C10 — helper lemmas, part 10: when `lpc.kcovar` does NOT return.
  * the only exits of the loop are line 326 (`… / beta[m-1]`: ZeroDivisionError) and line 329
    (`k >= 1 or k <= -1`: ValueError); the unguarded divisions of line 337 (`gamma`) never raise,
    because every `beta[q]` they use was a non-zero divisor of an earlier pass;
  * ZeroDivisionError at pass m+1 ⇔ `beta[m] = ⟨B_m, B_m⟩ = 0` with all earlier `beta` non-zero;
  * over the lag table of a block: `beta[m] = 0` makes `B_m` a linear dependency of the delayed
    copies of the block on the window (ordered field), and a dependency excludes a return (any field).
-/
import ALV.Lemmas.C10CovMin
import ALV.Spec.C10Call

namespace ALV.C10
open Finset
variable {K : Type} [Field K] [DecidableEq K]

/-- the two exits of the first half of a pass -/
theorem kcUpdate_error {phi : List (List K)} {u : K → Bool} {m : ℕ} {s : KState K} {e : String}
    (h : kcUpdate phi u m s = .error e) :
    (e = "ZeroDivisionError" ∧ coef s.beta (m - 1) = 0) ∨
    (e = "ValueError" ∧ coef s.beta (m - 1) ≠ 0 ∧
      u (-(innerM phi s.A (delay m)) / coef s.beta (m - 1)) = true) := by
  unfold kcUpdate at h
  dsimp only at h
  split at h
  · next hb => injection h with h; exact .inl ⟨h.symm, hb⟩
  · next hb =>
    split at h
    · next hu => injection h with h; exact .inr ⟨h.symm, hb, hu⟩
    · cases h

theorem kcUpdate_zero {phi : List (List K)} {u : K → Bool} {m : ℕ} {s : KState K}
    (hb : coef s.beta (m - 1) = 0) : kcUpdate phi u m s = .error "ZeroDivisionError" := by
  unfold kcUpdate
  simp [hb]

theorem kcUpdate_ok_beta {phi : List (List K)} {u : K → Bool} {m : ℕ} {s s1 : KState K}
    (h : kcUpdate phi u m s = .ok s1) : coef s.beta (m - 1) ≠ 0 ∧ s1.beta = s.beta ∧ s1.B = s.B := by
  unfold kcUpdate at h
  dsimp only at h
  split at h
  · cases h
  · next hb =>
    split at h
    · cases h
    · injection h with h; subst h; exact ⟨hb, rfl, rfl⟩

/-- the divisions of `gamma` are safe once `beta[0..m-1]` are non-zero -/
theorem kcGamma_ok {phi : List (List K)} {m : ℕ} {s : KState K}
    (h : ∀ q, q < m → coef s.beta q ≠ 0) : ∃ g, kcGamma phi m s = .ok g := by
  unfold kcGamma
  have : (List.range m).any (fun q => decide (coef s.beta q = 0)) = false := by
    rw [List.any_eq_false]
    intro q hq
    simpa using h q (by simpa using hq)
  simp [this]

theorem kcExtend_ok_beta {phi : List (List K)} {m : ℕ} {s s2 : KState K}
    (h : kcExtend phi m s = .ok s2) : ∃ y, s2.beta = s.beta ++ [y] := by
  unfold kcExtend at h
  cases hg : kcGamma phi m s with
  | error e => simp [hg, bind, Except.bind] at h
  | ok g =>
    simp only [hg, bind, Except.bind, pure, Except.pure] at h
    injection h with h; subst h
    exact ⟨_, rfl⟩

theorem kcExtend_total {phi : List (List K)} {m : ℕ} {s : KState K}
    (h : ∀ q, q < m → coef s.beta q ≠ 0) : ∃ s2, kcExtend phi m s = .ok s2 := by
  obtain ⟨g, hg⟩ := kcGamma_ok (phi := phi) h
  unfold kcExtend
  simp [hg, bind, Except.bind, pure, Except.pure]

/-- after n complete passes `beta` has n+1 entries and the first n are non-zero -/
theorem kcIter_beta {phi : List (List K)} {u : K → Bool} (n : ℕ) (s : KState K)
    (h : kcIter phi u n = .ok s) : s.beta.length = n + 1 ∧ ∀ q, q < n → coef s.beta q ≠ 0 := by
  induction n generalizing s with
  | zero =>
    simp only [kcIter] at h
    injection h with h; subst h
    exact ⟨rfl, fun q hq => by omega⟩
  | succ n ih =>
    simp only [kcIter] at h
    cases h0 : kcIter phi u n with
    | error e => rw [h0] at h; cases h
    | ok s0 =>
      rw [h0] at h
      obtain ⟨hl, hne⟩ := ih s0 h0
      cases h1 : kcUpdate phi u (n + 1) s0 with
      | error e => simp [h1, bind, Except.bind] at h
      | ok s1 =>
        simp only [h1, bind, Except.bind] at h
        obtain ⟨hb, hbeta, _⟩ := kcUpdate_ok_beta h1
        simp only [Nat.add_sub_cancel] at hb
        obtain ⟨y, hy⟩ := kcExtend_ok_beta h
        rw [hy, hbeta]
        refine ⟨by simp [hl], fun q hq => ?_⟩
        rw [coef_append_left _ _ _ (by omega)]
        by_cases hq' : q < n
        · exact hne q hq'
        · have : q = n := by omega
          subst this; exact hb

/-- a failing loop failed in the first half of some pass (lines 326 / 329): never in `gamma` -/
theorem kcIter_error {phi : List (List K)} {u : K → Bool} (n : ℕ) (e : String)
    (h : kcIter phi u n = .error e) :
    ∃ m, m < n ∧ ∃ s, kcIter phi u m = .ok s ∧ kcUpdate phi u (m + 1) s = .error e := by
  induction n with
  | zero => simp [kcIter] at h
  | succ n ih =>
    simp only [kcIter] at h
    cases h0 : kcIter phi u n with
    | error e' =>
      rw [h0] at h
      have : e' = e := by simpa [bind, Except.bind] using h
      subst this
      obtain ⟨m, hm, s, h1, h2⟩ := ih h0
      exact ⟨m, by omega, s, h1, h2⟩
    | ok s0 =>
      rw [h0] at h
      cases h1 : kcUpdate phi u (n + 1) s0 with
      | error e' =>
        have : e' = e := by simpa [h1, bind, Except.bind] using h
        subst this
        exact ⟨n, by omega, s0, h0, h1⟩
      | ok s1 =>
        simp only [h1, bind, Except.bind] at h
        obtain ⟨hb, hbeta, _⟩ := kcUpdate_ok_beta h1
        simp only [Nat.add_sub_cancel] at hb
        obtain ⟨_, hne⟩ := kcIter_beta n s0 h0
        obtain ⟨s2, hs2⟩ := kcExtend_total (phi := phi) (m := n + 1) (s := s1) (fun q hq => by
          rw [hbeta]
          by_cases hq' : q < n
          · exact hne q hq'
          · have : q = n := by omega
            subst this; exact hb)
        rw [hs2] at h; cases h

theorem kcIter_error_mono {phi : List (List K)} {u : K → Bool} (n n' : ℕ) (e : String)
    (h : kcIter phi u n = .error e) (hn : n ≤ n') : kcIter phi u n' = .error e := by
  induction n' with
  | zero => have : n = 0 := by omega
            subst this; exact h
  | succ k ih =>
    by_cases hk : n = k + 1
    · subst hk; exact h
    · simp only [kcIter, ih (by omega)]
      rfl

/-- **when `kcovarOn` does not return** (table with ≥ 2 rows): exactly when the first half of some
    pass m+1 ≤ order fails, with the exception of that pass -/
theorem kcovarOn_error_iff {phi : List (List K)} {u : K → Bool} (h2 : 2 ≤ phi.length) (e : String) :
    kcovarOn phi u = .error e ↔
      ∃ m, m < phi.length - 1 ∧ ∃ s, kcIter phi u m = .ok s ∧ kcUpdate phi u (m + 1) s = .error e := by
  obtain ⟨p, hp⟩ : ∃ p, phi.length = p + 2 := ⟨phi.length - 2, by omega⟩
  have e1 : phi.length - 1 = p + 1 := by omega
  have hnot : ¬ phi.length ≤ 1 := by omega
  unfold kcovarOn
  simp only [hnot, if_false, e1, Nat.add_sub_cancel]
  constructor
  · intro h
    cases h0 : kcIter phi u p with
    | error e' =>
      rw [h0] at h
      have : e' = e := by simpa [bind, Except.bind] using h
      subst this
      obtain ⟨m, hm, s, h1, h3⟩ := kcIter_error p _ h0
      exact ⟨m, by omega, s, h1, h3⟩
    | ok s0 =>
      simp only [h0, bind, Except.bind] at h
      cases h1 : kcUpdate phi u (p + 1) s0 with
      | error e' =>
        rw [h1] at h
        have : e' = e := by simpa using h
        subst this
        exact ⟨p, by omega, s0, h0, h1⟩
      | ok s1 => rw [h1] at h; cases h
  · rintro ⟨m, hm, s, h1, h3⟩
    by_cases hmp : m = p
    · subst hmp
      simp [h1, h3, bind, Except.bind]
    · have : kcIter phi u (m + 1) = .error e := by
        simp only [kcIter, h1, h3, bind, Except.bind]
      rw [kcIter_error_mono (m + 1) p e this (by omega)]
      rfl

/-- ZeroDivisionError ⇔ the first zero `beta[m] = ⟨B_m, B_m⟩` appears at an m < order -/
theorem kcovarOn_zeroDiv_iff {phi : List (List K)} {u : K → Bool} (h2 : 2 ≤ phi.length) :
    kcovarOn phi u = .error "ZeroDivisionError" ↔
      ∃ m, m < phi.length - 1 ∧ ∃ s, kcIter phi u m = .ok s ∧ coef s.beta m = 0 := by
  rw [kcovarOn_error_iff h2]
  constructor
  · rintro ⟨m, hm, s, h1, h3⟩
    rcases kcUpdate_error h3 with ⟨_, hb⟩ | ⟨he, _⟩
    · exact ⟨m, hm, s, h1, by simpa using hb⟩
    · exact absurd he (by decide)
  · rintro ⟨m, hm, s, h1, hb⟩
    exact ⟨m, hm, s, h1, kcUpdate_zero (by simpa using hb)⟩

/-- the exceptions of `kcovarOn` -/
theorem kcovarOn_error_kind {phi : List (List K)} {u : K → Bool} {e : String}
    (h : kcovarOn phi u = .error e) :
    (e = "IndexError" ∧ phi.length ≤ 1) ∨ e = "ZeroDivisionError" ∨ e = "ValueError" := by
  by_cases h2 : 2 ≤ phi.length
  · obtain ⟨m, _, s, _, h3⟩ := (kcovarOn_error_iff h2 e).1 h
    rcases kcUpdate_error h3 with ⟨he, _⟩ | ⟨he, _⟩
    · exact .inr (.inl he)
    · exact .inr (.inr he)
  · have h1 : phi.length ≤ 1 := by omega
    unfold kcovarOn at h
    simp only [h1, if_true] at h
    injection h with h
    exact .inl ⟨h.symm, h1⟩


/-- a returning `kcovarOn` divided by `beta[0..order-1]`: all of them are non-zero -/
theorem kcovarOn_ok_betas {phi : List (List K)} {u : K → Bool} {x : List K × K}
    (h : kcovarOn phi u = .ok x) :
    ∃ m s, phi.length = m + 2 ∧ kcIter phi u m = .ok s ∧ ∀ q, q ≤ m → coef s.beta q ≠ 0 := by
  unfold kcovarOn at h
  split at h
  · cases h
  · next hlen =>
    obtain ⟨m, hm⟩ : ∃ m, phi.length = m + 2 := ⟨phi.length - 2, by omega⟩
    have e2 : phi.length - 1 = m + 1 := by omega
    simp only [e2, Nat.add_sub_cancel] at h
    cases h0 : kcIter phi u m with
    | error e' => simp [h0, bind, Except.bind] at h
    | ok s0 =>
      simp only [h0, bind, Except.bind] at h
      cases h1 : kcUpdate phi u (m + 1) s0 with
      | error e' => simp [h1] at h
      | ok s1 =>
        obtain ⟨hb, _, _⟩ := kcUpdate_ok_beta h1
        simp only [Nat.add_sub_cancel] at hb
        obtain ⟨_, hne⟩ := kcIter_beta m s0 h0
        refine ⟨m, s0, hm, h0, fun q hq => ?_⟩
        by_cases hq' : q < m
        · exact hne q hq'
        · have : q = m := by omega
          subst this; exact hb

/-- with the exit test always true (samples without an order: `k >= 1` raises) no pass completes -/
theorem kcUpdate_const_true {phi : List (List K)} {m : ℕ} {s s1 : KState K} :
    kcUpdate phi (fun _ => true) m s ≠ .ok s1 := by
  intro h
  unfold kcUpdate at h
  dsimp only at h
  split at h
  · cases h
  · simp at h

theorem kcovarOn_const_true {phi : List (List K)} (x : List K × K) :
    kcovarOn phi (fun _ => true) ≠ .ok x := by
  intro h
  unfold kcovarOn at h
  split at h
  · cases h
  · cases h0 : kcIter phi (fun _ => true) (phi.length - 1 - 1) with
    | error e' => simp [h0, bind, Except.bind] at h
    | ok s0 =>
      simp only [h0, bind, Except.bind] at h
      cases h1 : kcUpdate phi (fun _ => true) (phi.length - 1) s0 with
      | error e' => simp [h1] at h
      | ok s1 => exact kcUpdate_const_true h1

/-! ### `kcovarWith`: which table the loop runs on -/

theorem kcovarWith_eq (u : K → Bool) (blk : List K) (order : Option ℕ)
    (h : blkOrder blk order < blk.length) :
    kcovarWith u blk order = kcovarOn (lagTable blk (blkOrder blk order)) u := by
  unfold kcovarWith lagMatrix
  cases order with
  | none =>
    simp only [blkOrder, Option.getD_none] at h ⊢
    have h0 : blk.length ≠ 0 := by omega
    simp [h0, bind, Except.bind]
  | some L =>
    simp only [blkOrder, Option.getD_some] at h ⊢
    have h0 : ¬ L ≥ blk.length := by omega
    simp only [h0, if_false, bind, Except.bind]

theorem kcovarWith_short (u : K → Bool) (blk : List K) (order : Option ℕ)
    (h : blk.length ≤ blkOrder blk order) :
    (kcovarWith u blk order = .error "ValueError" ∧ order ≠ none) ∨
    (kcovarWith u blk order = .error "IndexError" ∧ order = none ∧ blk = []) := by
  unfold kcovarWith lagMatrix
  cases order with
  | none =>
    simp only [blkOrder, Option.getD_none] at h
    have h0 : blk.length = 0 := by omega
    right
    refine ⟨?_, rfl, List.length_eq_zero_iff.1 h0⟩
    simp [h0, bind, Except.bind, kcovarOn]
  | some L =>
    simp only [blkOrder, Option.getD_some] at h
    left
    have h0 : L ≥ blk.length := h
    simp [h0, bind, Except.bind]

/-! ### over the lag table of a block -/

omit [DecidableEq K] in
theorem winOut_eq (b blk : List K) (p k : ℕ) :
    winOut b blk p k = ∑ j ∈ range (p + 1), coef b j * coef blk (p + k - j) := by
  unfold winOut; rw [sumL_map_range]

/-- a dependency `b` of the delayed copies excludes a return: with `t` its top index,
    `0 = ⟨B_{t-1}, b⟩ = b_t · beta[t-1]`, but every `beta` a returning call divides by is non-zero -/
theorem no_dependent_of_betas {blk : List K} {p : ℕ} {u : K → Bool} {s : KState K} {m : ℕ}
    (hm : m + 1 = p) (hs : kcIter (lagTable blk p) u m = .ok s)
    (hbeta : ∀ q, q ≤ m → coef s.beta q ≠ 0) (b : List K) (hb : CovDependent blk p b) : False := by
  obtain ⟨hb0, hblen, ⟨j0, hj0⟩, hwin⟩ := hb
  have hlen : (lagTable blk p).length = p + 1 := lagTable_length blk p
  have hinv := kcIter_inv (phiOf_lagTable_symm blk p) m s (by rw [hlen]; omega) hs
  -- claim: all coefficients above t vanish ⇒ so does coefficient t (1 ≤ t ≤ p)
  have claim : ∀ t, 1 ≤ t → t ≤ p → (∀ j, t < j → coef b j = 0) → coef b t = 0 := by
    intro t ht1 htp habove
    obtain ⟨q, hq⟩ : ∃ q, t = q + 1 := ⟨t - 1, by omega⟩
    subst hq
    have hB := hinv.binv q (by omega)
    set Bq := s.B.getD q [] with hBq
    have hzero : bil (phiOf (lagTable blk p)) (p + 1) (coef Bq) (coef b) = 0 := by
      rw [bil_lagTable_eq]
      refine Finset.sum_eq_zero fun k hk => ?_
      rw [← winOut_eq b, hwin k (by simpa using hk), mul_zero]
    rw [bil_expand_right, Finset.sum_eq_single (q + 1)] at hzero
    · have hself : bil (phiOf (lagTable blk p)) (p + 1) (coef Bq) (unitv (q + 1)) = coef s.beta q := by
        rw [hinv.beta q (by omega), hlen, ← hlen, hB.self (by rw [hlen]; omega)]
      rw [hself] at hzero
      rcases mul_eq_zero.1 hzero with h | h
      · exact h
      · exact absurd h (hbeta q (by omega))
    · intro l hl hne
      rcases Nat.lt_or_gt_of_ne hne with h | h
      · rcases Nat.eq_zero_or_pos l with h0 | h0
        · subst h0; rw [hb0, zero_mul]
        · have := hB.orth l h0 (by omega)
          rw [hlen] at this
          rw [this, mul_zero]
      · rw [habove l h, zero_mul]
    · intro hnot
      exact absurd (by simp; omega) hnot
  have all : ∀ d j, p - d < j → coef b j = 0 := by
    intro d
    induction d with
    | zero => intro j hj; exact coef_of_length_le b j (by omega)
    | succ d ih =>
      intro j hj
      by_cases hj' : p - d < j
      · exact ih j hj'
      · have hjeq : j = p - d := by omega
        exact claim j (by omega) (by omega) (fun l hl => ih l (by omega))
  rcases Nat.eq_zero_or_pos j0 with h | h
  · subst h; exact hj0 hb0
  · exact hj0 (all p j0 (by omega))

section ordered
variable [LinearOrder K] [IsStrictOrderedRing K]

/-- `beta[m] = 0` over the lag table of a block (ordered field): `B_m` annihilates the window -/
theorem dependent_of_beta_zero {blk : List K} {p : ℕ} {u : K → Bool} {s : KState K} {m : ℕ}
    (hm : m < p) (hs : kcIter (lagTable blk p) u m = .ok s) (hz : coef s.beta m = 0) :
    CovDependent blk p (s.B.getD m []) := by
  have hlen : (lagTable blk p).length = p + 1 := lagTable_length blk p
  have hinv := kcIter_inv (phiOf_lagTable_symm blk p) m s (by rw [hlen]; omega) hs
  have hB := hinv.binv m le_rfl
  set Bm := s.B.getD m [] with hBm
  refine ⟨hB.c0, by have := hB.len; omega, ⟨m + 1, by rw [hB.lead]; exact one_ne_zero⟩, ?_⟩
  have h0 : bil (phiOf (lagTable blk p)) (p + 1) (coef Bm) (coef Bm) = 0 := by
    rw [← hlen, ← hinv.beta m le_rfl, hz]
  rw [bil_lagTable_eq] at h0
  have := (Finset.sum_eq_zero_iff_of_nonneg (fun k _ => mul_self_nonneg _)).1 h0
  intro k hk
  rw [winOut_eq]
  exact mul_self_eq_zero.1 (this k (by simpa using hk))

end ordered
end ALV.C10
