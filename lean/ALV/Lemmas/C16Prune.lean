/-
  C16 — the prune step of the generator-level machine, with the identities kept.

  `for snd in _playing: try: data += next(snd) except StopIteration: to_remove.append(snd)` followed by
  `for snd in to_remove: _playing.remove(snd)`: however many events finish at the same sample (chords
  of equal-length notes, different starts and lengths that end together), `to_remove` is exactly the
  exhausted objects in playing order and `_playing` afterwards is exactly the objects that still gave
  an item, in their order, each advanced by one item.  Also: the traced runs the driver prints
  (`ptrace` / `xtrace`) are the runs `prun` / `xrun` on the prefixes of the history.
-/
import ALV.Lemmas.C16Gen
import ALV.Lemmas.C16X

namespace ALV.C16
variable {α ε : Type}

/-- the object still has an item to give (its `next` will not raise StopIteration) -/
def Snd.live (s : Snd α) : Bool := !s.rest.isEmpty

/-- the object after one `next` -/
def Snd.advance (s : Snd α) : Snd α := ⟨s.id, s.rest.tail⟩

/-- `to_remove` = the exhausted objects, in playing order -/
theorem sumLoop_toRemove [Add α] : ∀ (pl : List (Snd α)) (d : α),
    (sumLoop d pl).2.2 = (pl.filter (fun s => !s.live)).map (·.id)
  | [], _ => rfl
  | ⟨i, []⟩ :: ps, d => by simp [sumLoop, Snd.live, sumLoop_toRemove ps d]
  | ⟨i, x :: xs⟩ :: ps, d => by simp [sumLoop, Snd.live, sumLoop_toRemove ps (d + x)]

/-- summing pass + removal pass on distinct objects: exactly the live objects stay, in order, each
    advanced by one item — whatever the number of objects that finish together -/
theorem prune_exact [Add α] : ∀ (pl : List (Snd α)) (d : α), (pl.map (·.id)).Nodup →
    removeAll (sumLoop d pl).2.2 (sumLoop d pl).2.1 = (pl.filter Snd.live).map Snd.advance
  | [], _, _ => by simp [sumLoop, removeAll]
  | ⟨j, []⟩ :: ps, d, h => by
    have hn : (ps.map (·.id)).Nodup := (List.nodup_cons.1 h).2
    have ih := prune_exact ps d hn
    simp only [sumLoop, removeAll, removeFirst, if_true]
    rw [ih]
    simp [Snd.live]
  | ⟨j, x :: xs⟩ :: ps, d, h => by
    have hn : (ps.map (·.id)).Nodup := (List.nodup_cons.1 h).2
    have hj : j ∉ ps.map (·.id) := (List.nodup_cons.1 h).1
    have ih := prune_exact ps (d + x) hn
    have hnot : (⟨j, xs⟩ : Snd α).id ∉ (sumLoop (d + x) ps).2.2 :=
      fun hm => hj (sumLoop_rem_sub ps (d + x) j hm)
    simp only [sumLoop]
    rw [removeAll_cons_of_not_mem _ _ _ hnot, ih]
    simp [Snd.live, Snd.advance]

/-- the start loop moves a prefix of the queue, in order, to the end of `_playing` -/
theorem pstartLoop_prefix : ∀ (q : List (Rat × Snd α)) (c : Rat) (pl : List (Snd α)),
    ∃ k, k ≤ q.length ∧ (pstartLoop c q pl).2.2 = pl ++ (q.take k).map (·.2) ∧
      (pstartLoop c q pl).2.1 = q.drop k
  | [], c, pl => ⟨0, by simp [pstartLoop]⟩
  | (d, x) :: q, c, pl => by
    by_cases h : c ≥ d
    · obtain ⟨k, hk, h1, h2⟩ := pstartLoop_prefix q (c - d) (pl ++ [x])
      refine ⟨k + 1, by simpa using hk, ?_, ?_⟩
      · simp only [pstartLoop, if_pos h, h1]; simp
      · simp only [pstartLoop, if_pos h, h2]; simp
    · exact ⟨0, by simp [pstartLoop, if_neg h]⟩

/-- one `next` of a live generator: `_playing` afterwards -/
theorem pnext_playing [Add α] (zero : α) (s : PState α) (hi : PInv s) (he : s.ended = false) :
    (pnext zero s).1.playing =
      ((pstartLoop (if s.suspended then s.count + 1 else s.count) s.notPlaying s.playing).2.2.filter
        Snd.live).map Snd.advance := by
  obtain ⟨_, hs2, _⟩ :=
    pstartLoop_abs s.notPlaying (if s.suspended then s.count + 1 else s.count) s.playing
  generalize hr : pstartLoop (if s.suspended then s.count + 1 else s.count) s.notPlaying s.playing = r
    at hs2
  obtain ⟨c, q', pl'⟩ := r
  simp only at hs2
  have hnd : (pl'.map (·.id) ++ q'.map (·.2.id)).Nodup := by rw [hs2]; exact hi.nodup
  have hnd1 : (pl'.map (·.id)).Nodup := (List.nodup_append.1 hnd).1
  rw [pnext_live zero s he hr, ← prune_exact pl' zero hnd1]
  split <;> rfl

/-! ### the traced runs are the runs -/

theorem ptrace_obs [Add α] (zero : α) : ∀ (ops : List (Op α)) (s : PState α),
    (ptrace zero s ops).map (·.2) = (prun zero s ops).2
  | [], _ => rfl
  | op :: ops, s => by simp [ptrace, prun, ptrace_obs zero ops]

theorem ptrace_length [Add α] (zero : α) : ∀ (ops : List (Op α)) (s : PState α),
    (ptrace zero s ops).length = ops.length
  | [], _ => rfl
  | op :: ops, s => by simp [ptrace, ptrace_length zero ops]

theorem prun_append [Add α] (zero : α) : ∀ (a b : List (Op α)) (s : PState α),
    prun zero s (a ++ b) =
      ((prun zero (prun zero s a).1 b).1, (prun zero s a).2 ++ (prun zero (prun zero s a).1 b).2)
  | [], _, _ => rfl
  | op :: a, b, s => by simp [prun, prun_append zero a b]

/-- the state the trace shows after operation `k` is the state of `prun` on the first `k+1` operations -/
theorem ptrace_state [Add α] (zero : α) : ∀ (ops : List (Op α)) (s : PState α) (k : Nat), k < ops.length →
    ((ptrace zero s ops)[k]?).map (·.1) = some (prun zero s (ops.take (k + 1))).1
  | [], _, _, h => by simp at h
  | op :: ops, s, 0, _ => by simp [ptrace, prun]
  | op :: ops, s, k + 1, h => by
    have := ptrace_state zero ops (pstep zero s op).1 k (by simpa using h)
    simpa [ptrace, prun] using this

theorem xtrace_obs [XAdd ε α] (zero : α) : ∀ (ops : List (XOp ε α)) (s : PState (Except ε α)),
    (xtrace zero s ops).map (·.2) = (xrun zero s ops).2
  | [], _ => rfl
  | op :: ops, s => by simp [xtrace, xrun, xtrace_obs zero ops]

theorem xtrace_state [XAdd ε α] (zero : α) : ∀ (ops : List (XOp ε α)) (s : PState (Except ε α)) (k : Nat),
    k < ops.length → ((xtrace zero s ops)[k]?).map (·.1) = some (xrun zero s (ops.take (k + 1))).1
  | [], _, _, h => by simp at h
  | op :: ops, s, 0, _ => by simp [xtrace, xrun]
  | op :: ops, s, k + 1, h => by
    have := xtrace_state zero ops (xstep zero s op).1 k (by simpa using h)
    simpa [xtrace, xrun] using this

/-- an exception leaves the summing loop with the same objects in `_playing` -/
theorem xsumLoop_err_ids [XAdd ε α] : ∀ (pl : List (Snd (Except ε α))) (d : α) (e : ε)
    (pl' : List (Snd (Except ε α))), xsumLoop d pl = .error (e, pl') → pl'.map (·.id) = pl.map (·.id)
  | [], d, e, pl', h => by simp [xsumLoop] at h
  | ⟨i, []⟩ :: ps, d, e, pl', h => by
    simp only [xsumLoop] at h
    cases hx : xsumLoop d ps with
    | ok r => rw [hx] at h; simp at h
    | error p =>
      obtain ⟨e', pl''⟩ := p
      rw [hx] at h
      simp only [Except.error.injEq, Prod.mk.injEq] at h
      obtain ⟨_, rfl⟩ := h
      simp [xsumLoop_err_ids ps d e' pl'' hx]
  | ⟨i, .error e' :: xs⟩ :: ps, d, e, pl', h => by
    simp only [xsumLoop, Except.error.injEq, Prod.mk.injEq] at h
    obtain ⟨_, rfl⟩ := h
    simp
  | ⟨i, .ok x :: xs⟩ :: ps, d, e, pl', h => by
    simp only [xsumLoop] at h
    cases ha : XAdd.xadd (ε := ε) d x with
    | error e' =>
      rw [ha] at h
      simp only [Except.error.injEq, Prod.mk.injEq] at h
      obtain ⟨_, rfl⟩ := h
      simp
    | ok d' =>
      rw [ha] at h
      simp only at h
      cases hx : xsumLoop d' ps with
      | ok r => rw [hx] at h; simp at h
      | error p =>
        obtain ⟨e'', pl''⟩ := p
        rw [hx] at h
        simp only [Except.error.injEq, Prod.mk.injEq] at h
        obtain ⟨_, rfl⟩ := h
        simp [xsumLoop_err_ids ps d' e'' pl'' hx]

/-- the machine with exceptions keeps the objects distinct as well -/
theorem xstep_pinv [XAdd ε α] (zero : α) (s : PState (Except ε α)) (hi : PInv s) (op : XOp ε α) :
    PInv (xstep zero s op).1 := by
  cases op with
  | add d x =>
    have := (pstep_refines (Except.ok zero : Except ε α) s hi (.add d x)).2.2
    by_cases hd : d < 0
    · simpa [xstep, xadd, hd] using hi
    · simpa [xstep, xadd, pstep, padd, hd] using this
  | addFail d e => by_cases hd : d < 0 <;> simpa [xstep, xaddFail, hd] using hi
  | setKeep b => exact ⟨hi.nodup, hi.bound⟩
  | next =>
    by_cases he : s.ended = true
    · simpa [xstep, xnext, he] using hi
    have he' : s.ended = false := by simpa using he
    obtain ⟨_, hs2, _⟩ :=
      pstartLoop_abs s.notPlaying (if s.suspended then s.count + 1 else s.count) s.playing
    generalize hr : pstartLoop (if s.suspended then s.count + 1 else s.count) s.notPlaying s.playing = r
      at hs2
    cases hx : xsumLoop zero r.2.2 with
    | ok sm =>
      rcases xnext_spec zero s with ⟨h1, _, _⟩ | ⟨e, k, _, h2, _⟩
      · have := (pstep_refines (Except.ok zero : Except ε α) s hi .next).2.2
        simp only [xstep, h1]; exact this
      · exfalso
        simp only [xnext, he', hr, hx] at h2
        rw [if_neg (by simp)] at h2
        by_cases hc : s.keep = false ∧ (removeAll sm.2.2 sm.2.1).isEmpty = true ∧ r.2.1.isEmpty = true
        · rw [if_pos hc] at h2; cases h2
        · rw [if_neg hc] at h2; cases h2
    | error p =>
      obtain ⟨e, pl'⟩ := p
      have hids := xsumLoop_err_ids _ _ _ _ hx
      have hst : (xstep zero s .next).1 =
          { s with count := r.1, notPlaying := r.2.1, playing := pl', suspended := false, ended := true } := by
        simp only [xstep, xnext, he', hr, hx]; rfl
      rw [hst]
      refine ⟨?_, ?_⟩
      · show (pl'.map (·.id) ++ r.2.1.map (·.2.id)).Nodup
        rw [hids, hs2]; exact hi.nodup
      · intro i hmem
        have hmem' : i ∈ pl'.map (·.id) ++ r.2.1.map (·.2.id) := hmem
        rw [hids, hs2] at hmem'
        exact hi.bound i hmem'

theorem xrun_pinv [XAdd ε α] (zero : α) : ∀ (ops : List (XOp ε α)) (s : PState (Except ε α)),
    PInv s → PInv (xrun zero s ops).1
  | [], _, h => h
  | op :: ops, s, h => by
    simp only [xrun]
    exact xrun_pinv zero ops _ (xstep_pinv zero s h op)

/-- one `next` of the machine with exceptions that does not raise: `_playing` afterwards -/
theorem xnext_playing [XAdd ε α] (zero : α) (s : PState (Except ε α)) (hi : PInv s) (he : s.ended = false)
    (hno : ∀ e, (xnext zero s).2 ≠ .raised e) :
    (xnext zero s).1.playing =
      ((pstartLoop (if s.suspended then s.count + 1 else s.count) s.notPlaying s.playing).2.2.filter
        Snd.live).map Snd.advance := by
  rcases xnext_spec zero s with ⟨h1, _, _⟩ | ⟨e, k, _, h2, _⟩
  · rw [h1]; exact pnext_playing (Except.ok zero : Except ε α) s hi he
  · exact absurd h2 (hno e)

end ALV.C16
