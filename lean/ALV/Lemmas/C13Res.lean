/-
  C13 — helper lemmas, part 8: poles of `1 - 2·R·ct·z⁻¹ + R²·z⁻²`.
-/
import ALV.Lemmas.C13Second
import ALV.Lemmas.C13Complex

set_option linter.unusedSectionVars false
set_option linter.unusedSimpArgs false

namespace ALV.C13
open ALV ALV.TrigField Complex

theorem norm_eq_of_normSq (p : ℂ) (R : ℝ) (hR : 0 ≤ R) (h : Complex.normSq p = R ^ 2) : ‖p‖ = R := by
  rw [Complex.normSq_eq_norm_sq] at h
  have hp := norm_nonneg p
  have hf : (‖p‖ - R) * (‖p‖ + R) = 0 := by ring_nf; linarith
  rcases mul_eq_zero.1 hf with h' | h'
  · linarith
  · have h1 : ‖p‖ = 0 := by linarith
    have h2 : R = 0 := by linarith
    rw [h1, h2]

theorem norm_lt_one_of_normSq (p : ℂ) (h : Complex.normSq p < 1) : ‖p‖ < 1 := by
  rw [Complex.normSq_eq_norm_sq] at h
  nlinarith [norm_nonneg p]

/-- complex-conjugate (or double) poles: radius `R` -/
theorem res_pole_radius (b : List ℝ) (R ct : ℝ) (hR : 0 < R) (hct : ct ^ 2 ≤ 1) (p : ℂ)
    (hp : IsPole (mk b [1, -(2 * R * ct), R ^ 2]) p) : ‖p‖ = R := by
  rw [isPole_second] at hp
  apply norm_eq_of_normSq p R hR.le
  apply quad_root_normSq _ _ p _ hp.2
  nlinarith [sq_nonneg R, mul_nonneg (sq_nonneg R) (by linarith : (0:ℝ) ≤ 1 - ct ^ 2)]

/-- stability whenever `|2·R·ct| < 1 + R²` and `R < 1` -/
theorem res_stable (b : List ℝ) (R ct : ℝ) (hR0 : 0 < R) (hR1 : R < 1)
    (h : |2 * R * ct| < 1 + R ^ 2) (p : ℂ)
    (hp : IsPole (mk b [1, -(2 * R * ct), R ^ 2]) p) : ‖p‖ < 1 := by
  rw [isPole_second] at hp
  apply norm_lt_one_of_normSq
  apply quad_root_stable _ _ p _ _ hp.2
  · rwa [abs_neg]
  · nlinarith

theorem abs_two_R_ct_lt (R ct : ℝ) (hR0 : 0 < R) (hR1 : R < 1) (hct : ct ^ 2 ≤ 1) :
    |2 * R * ct| < 1 + R ^ 2 := by
  have h1 : -1 ≤ ct := by
    by_contra hcon
    push Not at hcon
    nlinarith
  have h2 : ct ≤ 1 := by
    by_contra hcon
    push Not at hcon
    nlinarith
  rw [abs_lt]
  constructor <;> nlinarith [sq_nonneg (1 - R), mul_nonneg hR0.le (by linarith : (0:ℝ) ≤ 1 - ct),
    mul_nonneg hR0.le (by linarith : (0:ℝ) ≤ 1 + ct), mul_pos hR0 (by linarith : (0:ℝ) < 1 - R)]

/-- the denominator does not vanish on the unit circle when `|2·R·ct| < 1 + R²`, `0 < R < 1` -/
theorem resDenSq_pos_of_stable (R ct x : ℝ) (hR0 : 0 < R) (hR1 : R < 1) (h : |2 * R * ct| < 1 + R ^ 2)
    (hx1 : -1 ≤ x) (hx2 : x ≤ 1) : 0 < resDenSq R ct x := by
  obtain ⟨ha, hb⟩ := abs_lt.1 h
  unfold resDenSq
  have h1 : 0 < (1 - R ^ 2) ^ 2 := by
    have : 0 < 1 - R ^ 2 := by nlinarith
    positivity
  have h2 : 0 ≤ 1 - x ^ 2 := by nlinarith
  by_cases hx : x ^ 2 < 1
  · nlinarith [sq_nonneg ((1 + R ^ 2) * x - 2 * R * ct), mul_pos h1 (by linarith : (0:ℝ) < 1 - x ^ 2)]
  · have hx' : x ^ 2 = 1 := by nlinarith
    have hne : (1 + R ^ 2) * x - 2 * R * ct ≠ 0 := by
      have : x = 1 ∨ x = -1 := by
        have : (x - 1) * (x + 1) = 0 := by nlinarith
        rcases mul_eq_zero.1 this with h' | h'
        · left; linarith
        · right; linarith
      rcases this with h' | h' <;> rw [h'] <;> intro h0 <;> nlinarith
    have : 0 < ((1 + R ^ 2) * x - 2 * R * ct) ^ 2 := by positivity
    nlinarith [mul_nonneg h1.le h2]

/-- `resonator.z_exp`: `2·R·cost = (1+R²)·cos f`, so `|2·R·cost| < 1 + R²` for `f ∈ (0, π)` -/
theorem abs_two_R_ctZ_lt (f R : ℝ) (hR0 : 0 < R) (hf : Real.cos f ^ 2 < 1) :
    |2 * R * ctZ f R| < 1 + R ^ 2 := by
  rw [ctZ_mul f R hR0.ne', abs_mul, abs_of_pos (by positivity : (0:ℝ) < 1 + R ^ 2)]
  have : |Real.cos f| < 1 := by
    rw [abs_lt]
    constructor <;> nlinarith
  nlinarith [abs_nonneg (Real.cos f), sq_nonneg R]

/-- the real-pole regime of `resonator.z_exp`: for `cost > 1` the number `R·(cost + sqrt(cost²-1))`
is a (real) pole strictly between `R` and 1 -/
theorem res_real_pole (b : List ℝ) (R ct : ℝ) (hR0 : 0 < R) (hct : 1 < ct) :
    IsPole (mk b [1, -(2 * R * ct), R ^ 2]) ((R * (ct + Real.sqrt (ct ^ 2 - 1)) : ℝ) : ℂ)
      ∧ R < R * (ct + Real.sqrt (ct ^ 2 - 1)) := by
  have hs0 : 0 ≤ ct ^ 2 - 1 := by nlinarith
  have hs := Real.sq_sqrt hs0
  have hsn := Real.sqrt_nonneg (ct ^ 2 - 1)
  have hgt : R < R * (ct + Real.sqrt (ct ^ 2 - 1)) := by nlinarith
  refine ⟨?_, hgt⟩
  rw [isPole_second]
  constructor
  · have : R * (ct + Real.sqrt (ct ^ 2 - 1)) ≠ 0 := by nlinarith
    exact_mod_cast this
  · have hq : (R * (ct + Real.sqrt (ct ^ 2 - 1))) ^ 2 + -(2 * R * ct) * (R * (ct + Real.sqrt (ct ^ 2 - 1)))
        + R ^ 2 = 0 := by nlinarith
    exact_mod_cast hq

end ALV.C13

namespace ALV.C13
open ALV Complex

/-- complex-pole regime (`ct² ≤ 1`): `R·(ct + j·√(1-ct²))` IS a pole (the poles exist: the radius
statement `res_pole_radius` is not vacuous) -/
theorem res_pole_exists (b : List ℝ) (R ct : ℝ) (hR : 0 < R) (hct : ct ^ 2 ≤ 1) :
    IsPole (mk b [1, -(2 * R * ct), R ^ 2]) ((R : ℂ) * ((ct : ℂ) + (Real.sqrt (1 - ct ^ 2) : ℂ) * I)) := by
  rw [isPole_second]
  have hs : Real.sqrt (1 - ct ^ 2) ^ 2 = 1 - ct ^ 2 := Real.sq_sqrt (by linarith)
  constructor
  · intro h
    have hre := congrArg Complex.re h
    have him := congrArg Complex.im h
    simp at hre him
    rcases hre with h1 | h1
    · exact absurd h1 hR.ne'
    · rcases him with h2 | h2
      · exact absurd h2 hR.ne'
      · rw [h2] at hs; rw [h1] at hs; norm_num at hs
  · have hs' : ((Real.sqrt (1 - ct ^ 2) : ℝ) : ℂ) ^ 2 = 1 - (ct : ℂ) ^ 2 := by
      rw [← Complex.ofReal_pow, hs]; push_cast; ring
    push_cast
    have : ((R : ℂ) * ((ct : ℂ) + (Real.sqrt (1 - ct ^ 2) : ℂ) * I)) ^ 2
        + -(2 * (R : ℂ) * (ct : ℂ)) * ((R : ℂ) * ((ct : ℂ) + (Real.sqrt (1 - ct ^ 2) : ℂ) * I)) + (R : ℂ) ^ 2
        = (R : ℂ) ^ 2 * (1 - (ct : ℂ) ^ 2 - ((Real.sqrt (1 - ct ^ 2) : ℝ) : ℂ) ^ 2) := by
      ring_nf
      rw [Complex.I_sq]; ring
    rw [this, hs']; ring

end ALV.C13
