/-
  C08 — helper lemmas for the refinement `Model.blocks = Spec.blocksSpec`.
  Core Lean only.
-/
import ALV.Model.C08
import ALV.Spec.C08
namespace ALV.C08
variable {α : Type}

/-- last `k` items -/
def lastN (l : List α) (k : Nat) : List α := l.drop (l.length - k)

theorem lastN_length (l : List α) (k : Nat) (h : k ≤ l.length) : (lastN l k).length = k := by
  simp [lastN]; omega

theorem dqPush_length (size : Nat) (res : List α) (x : α) :
    (dqPush size res x).length = min (res.length + 1) size := by
  simp [dqPush]; omega

theorem dqPush_lastN (size : Nat) (res : List α) (x : α) (k : Nat)
    (hk : k ≤ size) (hk' : k ≤ res.length + 1) :
    lastN (dqPush size res x) k = lastN (res ++ [x]) k := by
  simp only [lastN, dqPush, List.drop_drop, List.length_drop, List.length_append, List.length_cons,
    List.length_nil]
  congr 1
  omega

theorem lastN_snoc (l : List α) (x : α) (k : Nat) (h : k ≤ l.length) :
    lastN (l ++ [x]) (k + 1) = lastN l k ++ [x] := by
  simp only [lastN, List.length_append, List.length_cons, List.length_nil]
  rw [List.drop_append_of_le_length (by omega)]
  congr 2
  omega

/-- the virtual input still to be blocked, given the machine state -/
def virt (s : BState α) (xs : List α) : List α :=
  if s.idx < 0 then xs.drop (-s.idx).toNat else lastN s.res s.idx.toNat ++ xs

structure BInv (size : Nat) (s : BState α) : Prop where
  lt : s.idx < size
  len : s.res.length ≤ size
  le : 0 ≤ s.idx → s.idx.toNat ≤ s.res.length

theorem padTo_eq (size : Nat) (pad : α) : ∀ (k : Nat) (res : List α), res.length ≤ size →
    padTo size pad res k = (res ++ List.replicate k pad).drop (res.length + k - size) := by
  intro k
  induction k with
  | zero =>
    intro res h
    have h0 : res.length - size = 0 := by omega
    simp only [padTo, List.replicate_zero, List.append_nil, Nat.add_zero]
    rw [h0, List.drop_zero]
  | succ k ih =>
    intro res h
    have hl := dqPush_length size res pad
    rw [padTo, ih _ (hl ▸ Nat.min_le_right _ _), hl]
    simp only [dqPush, List.length_append, List.length_cons, List.length_nil]
    rw [← List.drop_append_of_le_length (by simp <;> omega), List.drop_drop]
    simp only [List.append_assoc, List.singleton_append, ← List.replicate_succ]
    congr 1
    omega

theorem btail_eq (size hop : Nat) (hs : 0 < size) (pad : α) (s : BState α) (inv : BInv size s) :
    btail size hop pad s = blocksSpec size hop pad (virt s []) := by
  obtain ⟨hlt, hlen, hle⟩ := inv
  unfold btail virt
  by_cases hneg : s.idx < 0
  · have : ¬ (s.idx > max ((size:Int) - hop) 0) := by omega
    rw [if_neg this, if_pos hneg, blocksSpec]
    have hc : ([] : List α).length < size ∨ hop = 0 ∨ size = 0 := by left; simpa using hs
    have hd : ¬ ((([] : List α).drop (-s.idx).toNat).length < size ∨ hop = 0 ∨ size = 0) → False := by
      intro h; apply h; left; simpa using hs
    simp only [List.drop_nil] at *
    rw [dif_pos hc, if_neg (by simp; omega)]
  · have h0 : 0 ≤ s.idx := by omega
    have hle' := hle h0
    rw [if_neg hneg, List.append_nil, blocksSpec]
    have hlen' : (lastN s.res s.idx.toNat).length = s.idx.toNat := lastN_length _ _ hle'
    have hcond : (lastN s.res s.idx.toNat).length < size ∨ hop = 0 ∨ size = 0 := by
      left; rw [hlen']; omega
    rw [dif_pos hcond, hlen']
    have hidx : ((s.idx.toNat : Nat) : Int) = s.idx := by omega
    rw [hidx]
    by_cases hc : s.idx > max ((size:Int) - hop) 0
    · rw [if_pos hc, if_pos hc, padTo_eq size pad _ _ hlen]
      congr 1
      rw [List.drop_append_of_le_length (by omega)]
      congr 2
      omega
    · rw [if_neg hc, if_neg hc]

theorem bstep_inv (size hop : Nat) (hs : 0 < size) (hh : 0 < hop) (s : BState α) (x : α) (inv : BInv size s) :
    BInv size (bstep size hop s x).1 := by
  obtain ⟨hlt, hlen, hle⟩ := inv
  unfold bstep
  by_cases hneg : s.idx < 0
  · simp only [if_pos hneg]
    exact ⟨show s.idx + 1 < size by omega, hlen, fun h => by
      have : s.idx + 1 = 0 := by
        have h' : (0:Int) ≤ s.idx + 1 := h
        omega
      show (s.idx + 1).toNat ≤ s.res.length
      omega⟩
  · simp only [if_neg hneg]
    have hl := dqPush_length size s.res x
    have hle' := hle (by omega)
    by_cases hy : s.idx = (size:Int) - 1
    · simp only [if_pos hy]
      refine ⟨show (size:Int) - hop < size by omega, ?_, fun h => ?_⟩
      · show (dqPush size s.res x).length ≤ size
        rw [hl]; omega
      · show ((size:Int) - hop).toNat ≤ (dqPush size s.res x).length
        rw [hl]; omega
    · simp only [if_neg hy]
      refine ⟨show s.idx + 1 < size by omega, ?_, fun h => ?_⟩
      · show (dqPush size s.res x).length ≤ size
        rw [hl]; omega
      · show (s.idx + 1).toNat ≤ (dqPush size s.res x).length
        rw [hl]; omega

theorem bstep_spec (size hop : Nat) (hs : 0 < size) (hh : 0 < hop) (pad : α)
    (s : BState α) (x : α) (xs : List α) (inv : BInv size s) :
    blocksSpec size hop pad (virt s (x :: xs)) =
      (bstep size hop s x).2.toList ++ blocksSpec size hop pad (virt (bstep size hop s x).1 xs) := by
  obtain ⟨hlt, hlen, hle⟩ := inv
  unfold bstep
  by_cases hneg : s.idx < 0
  · simp only [if_pos hneg, Option.toList_none, List.nil_append]
    congr 1
    unfold virt
    rw [if_pos hneg]
    by_cases h1 : s.idx + 1 < 0
    · rw [if_pos h1]
      have : (-s.idx).toNat = (-(s.idx + 1)).toNat + 1 := by omega
      rw [this, List.drop_succ_cons]
    · rw [if_neg h1]
      have h2 : (-s.idx).toNat = 1 := by omega
      have h3 : (s.idx + 1).toNat = 0 := by omega
      rw [h2, h3]
      simp [lastN]
  · have h0 : 0 ≤ s.idx := by omega
    have hle' := hle h0
    simp only [if_neg hneg]
    have hw : (lastN s.res s.idx.toNat).length = s.idx.toNat := lastN_length _ _ hle'
    by_cases hy : s.idx = (size:Int) - 1
    · -- the block is complete: yield
      simp only [if_pos hy, Option.toList_some, List.singleton_append]
      have hk : s.idx.toNat + 1 = size := by omega
      have hblk : dqPush size s.res x = lastN s.res s.idx.toNat ++ [x] := by
        have h1 := dqPush_lastN size s.res x size (Nat.le_refl _) (by omega)
        have h2 : lastN (dqPush size s.res x) size = dqPush size s.res x := by
          unfold lastN
          rw [dqPush_length]
          have : min (s.res.length + 1) size - size = 0 := by omega
          rw [this, List.drop_zero]
        rw [← h2, h1, ← hk, lastN_snoc _ _ _ hle']
      have hv : virt s (x :: xs) = (lastN s.res s.idx.toNat ++ [x]) ++ xs := by
        unfold virt
        rw [if_neg hneg]
        simp
      rw [hv, blocksSpec]
      have hlen1 : (lastN s.res s.idx.toNat ++ [x]).length = size := by
        rw [List.length_append, hw]; simpa using hk
      have hc : ¬ (((lastN s.res s.idx.toNat ++ [x]) ++ xs).length < size ∨ hop = 0 ∨ size = 0) := by
        rw [List.length_append, hlen1]; omega
      rw [dif_neg hc, List.take_left' hlen1, hblk]
      congr 2
      -- remaining virtual input
      unfold virt
      by_cases hgt : ((size:Int) - hop) < 0
      · simp only [if_pos hgt]
        have : hop = size + (-((size:Int) - hop)).toNat := by omega
        rw [List.drop_append]
        conv => lhs; rw [this]
        rw [hlen1]
        have hd : List.drop (size + (-((size:Int) - ↑hop)).toNat) (lastN s.res s.idx.toNat ++ [x]) = [] := by
          apply List.drop_of_length_le; omega
        rw [hd, List.nil_append]
        congr 1
        omega
      · simp only [if_neg hgt]
        rw [List.drop_append_of_le_length (by rw [hlen1]; omega)]
        congr 1
        generalize lastN s.res s.idx.toNat ++ [x] = B at hlen1
        unfold lastN
        rw [hlen1]
        congr 1
        omega
    · simp only [if_neg hy, Option.toList_none, List.nil_append]
      congr 1
      unfold virt
      have h1 : ¬ (s.idx + 1 < 0) := by omega
      rw [if_neg hneg, if_neg h1]
      have h2 : (s.idx + 1).toNat = s.idx.toNat + 1 := by omega
      rw [h2, dqPush_lastN size s.res x _ (by omega) (by omega), lastN_snoc _ _ _ hle']
      simp

theorem bloop_spec (size hop : Nat) (hs : 0 < size) (hh : 0 < hop) (pad : α) :
    ∀ (xs : List α) (s : BState α), BInv size s →
      (bloop size hop s xs).1 ++ btail size hop pad (bloop size hop s xs).2 =
        blocksSpec size hop pad (virt s xs) := by
  intro xs
  induction xs with
  | nil => intro s inv; simp [bloop, btail_eq size hop hs pad s inv]
  | cons x xs ih =>
    intro s inv
    rw [bstep_spec size hop hs hh pad s x xs inv, ← ih _ (bstep_inv size hop hs hh s x inv)]
    simp [bloop]



/-! ### closed (indexed) form of the specification -/

theorem nFull_step (size hop len : Nat) (hs : 0 < size) (hh : 0 < hop) (h : size ≤ len) :
    nFull size hop len = nFull size hop (len - hop) + 1 := by
  unfold nFull
  have h1 : ¬ len < size := by omega
  rw [if_neg h1]
  by_cases h2 : len - hop < size
  · rw [if_pos h2]
    have : (len - size) / hop = 0 := by
      apply Nat.div_eq_of_lt; omega
    omega
  · rw [if_neg h2]
    have : len - size = (len - hop - size) + hop := by omega
    rw [this, Nat.add_div_right _ hh]

theorem blocksClosed_step (size hop : Nat) (hs : 0 < size) (hh : 0 < hop) (pad : α) (xs : List α)
    (h : size ≤ xs.length) :
    blocksClosed size hop pad xs = xs.take size :: blocksClosed size hop pad (xs.drop hop) := by
  unfold blocksClosed
  simp only [List.length_drop]
  rw [nFull_step size hop xs.length hs hh h]
  simp only [List.range_succ_eq_map, List.map_cons, List.map_map, Nat.zero_mul, List.drop_zero,
    List.cons_append, List.drop_drop]
  congr 1
  have e1 : ∀ k, k * hop + hop = (k + 1) * hop := by intro k; rw [Nat.add_mul]; omega
  have e2 : ∀ k, hop + k * hop = (k + 1) * hop := by intro k; rw [Nat.add_mul]; omega
  congr 1
  · apply List.map_congr_left
    intro k _
    simp only [Function.comp, Nat.succ_eq_add_one, e2]
  · have e3 : xs.length - hop - nFull size hop (xs.length - hop) * hop
        = xs.length - (nFull size hop (xs.length - hop) + 1) * hop := by
      rw [← e2]; omega
    simp only [e2, e3]

theorem blocksSpec_eq_closed (size hop : Nat) (hs : 0 < size) (hh : 0 < hop) (pad : α) :
    ∀ (n : Nat) (xs : List α), xs.length = n → blocksSpec size hop pad xs = blocksClosed size hop pad xs := by
  intro n
  induction n using Nat.strongRecOn with
  | _ n ih =>
    intro xs hn
    rw [blocksSpec]
    by_cases hc : xs.length < size ∨ hop = 0 ∨ size = 0
    · rw [dif_pos hc]
      have hlt : xs.length < size := by omega
      unfold blocksClosed nFull
      simp [hlt]
    · rw [dif_neg hc]
      have hge : size ≤ xs.length := by omega
      rw [blocksClosed_step size hop hs hh pad xs hge]
      congr 1
      apply ih (xs.drop hop).length _ _ rfl
      simp only [List.length_drop]; omega


end ALV.C08
