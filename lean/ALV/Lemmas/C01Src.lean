/-
  C01 — lemmas about the program type of `Model/C01Src.lean`: how its interpreter plugs into the
  hand-written model (`evalPy`, `callDunder`).  Core Lean only.
-/
import ALV.Model.C01Src
namespace ALV.C01.Src
open ALV.C01

/-- the `meth` case of `evalPy` is `methStream` applied to the evaluated receiver -/
theorem evalPy_meth (tbl : List (Name × Dunder)) (g : Bool) (l : Name) (s : Py) :
    evalPy tbl (.meth g l s) = (do
      let vs ← evalPy tbl s
      let it ← asStream vs
      pure (methStream g l it)) := by
  simp [evalPy, methStream]

/-- three closures that interpret to the model's dunders can replace them in `callDunder` -/
theorem callDunderSrc_eq (un bin rbin : Closure)
    (hu : un.run1 = unaryDunder) (hb : bin.run2 = binaryDunder) (hr : rbin.run2 = rbinaryDunder) :
    callDunderSrc un bin rbin = callDunder := by
  funext tbl dname self arg
  unfold callDunderSrc callDunder
  rw [hu, hb, hr]
  cases tbl.lookup dname with
  | none => rfl
  | some d => cases d.builder <;> cases arg <;> rfl

/-- the arguments of a lambda are the constants before the bound variable, the variable, the constants after it -/
theorem splitArgs_spec (pre post : List Term) :
    splitArgs (pre.map some ++ none :: post.map some) = some (pre, post) := by
  induction pre with
  | nil =>
    have : ∀ l : List Term, (l.map some).mapM id = some l := by
      intro l; induction l with
      | nil => rfl
      | cons x xs ih => simp [List.mapM_cons, ih]
    simp [splitArgs, this]
  | cons c r ih => simp [splitArgs, ih]

end ALV.C01.Src
