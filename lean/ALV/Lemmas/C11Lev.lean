/-
  C11 — helper lemmas, part 5: `levinson_durbin` as coded is the step-up of its own reflection
  coefficients and its `error` is `r₀ · Π (1 − k_m²)`.

  `corr R a j = Σ_i R|i−j| a_i` (= ⟨a, z^-j⟩).  Invariant of the loop before step m (|A| = m):
  A₀ = 1,  corr A j = 0 for 1 ≤ j < m (normal equations),  corr A 0 = E = r₀ Π (1 − k²).
  Toeplitz symmetry gives corr B j = corr A (m − j) for B = z^-m A(1/z), hence ⟨B,B⟩ = ⟨A,A⟩ = E.
-/
import ALV.Lemmas.C11
import Mathlib.Algebra.BigOperators.Intervals
import Mathlib.Algebra.BigOperators.Ring.Finset

set_option linter.unusedSectionVars false
set_option linter.unusedVariables false

namespace ALV.C11
variable {K : Type} [Field K] [DecidableEq K]
open Finset

/-- `|i − j|` as the code computes the lag -/
def lag (i j : ℕ) : ℕ := if i ≤ j then j - i else i - j

def cf (a : List K) (i : ℕ) : K := a.getD i 0

theorem cf_of_le (a : List K) (i : ℕ) (h : a.length ≤ i) : cf a i = 0 := by
  unfold cf; rw [List.getD_eq_getElem?_getD, List.getElem?_eq_none h]; rfl

theorem lsum_eq (l : List K) : lsum l = l.sum := by
  unfold lsum
  have : ∀ (acc : K) (l : List K), l.foldl (· + ·) acc = acc + l.sum := by
    intro acc l
    induction l generalizing acc with
    | nil => simp
    | cons x t ih => rw [List.foldl_cons, ih, List.sum_cons]; ring
  rw [this]; simp

theorem sum_map_range (f : ℕ → K) (n : ℕ) : ((List.range n).map f).sum = ∑ i ∈ range n, f i := by
  induction n with
  | zero => simp
  | succ n ih => rw [List.range_succ, List.map_append, List.sum_append, ih, sum_range_succ]; simp

theorem sum_flatMap_range (g : ℕ → List K) (n : ℕ) :
    ((List.range n).flatMap g).sum = ∑ i ∈ range n, (g i).sum := by
  induction n with
  | zero => simp
  | succ n ih =>
    rw [List.range_succ, List.flatMap_append, List.sum_append, ih, sum_range_succ]; simp

theorem inner_eq (r a b : List K) :
    inner r a b = ∑ i ∈ range a.length, ∑ j ∈ range b.length, cf r (lag i j) * cf a i * cf b j := by
  unfold inner
  rw [lsum_eq, sum_flatMap_range]
  apply sum_congr rfl
  intro i _
  rw [sum_map_range]
  rfl

/-- `⟨a, z^-j⟩` -/
def corr (r a : List K) (j : ℕ) : K := ∑ i ∈ range a.length, cf r (lag i j) * cf a i

theorem inner_eq_corr (r a b : List K) :
    inner r a b = ∑ j ∈ range b.length, cf b j * corr r a j := by
  rw [inner_eq, sum_comm]
  apply sum_congr rfl
  intro j _
  unfold corr
  rw [mul_sum]
  apply sum_congr rfl
  intro i _
  ring

theorem cf_append_zero (a : List K) (i : ℕ) : cf (a ++ [0]) i = cf a i := by
  unfold cf
  rw [List.getD_eq_getElem?_getD, List.getD_eq_getElem?_getD]
  by_cases h : i < a.length
  · rw [List.getElem?_append_left h]
  · rw [List.getElem?_eq_none (l := a) (by omega)]
    by_cases h2 : i = a.length
    · subst h2; simp
    · rw [List.getElem?_eq_none (by simp; omega)]

theorem cf_zero_cons_reverse (a : List K) (j : ℕ) (hj : j ≤ a.length) :
    cf ((0 : K) :: a.reverse) j = if j = 0 then 0 else cf a (a.length - j) := by
  unfold cf
  cases j with
  | zero => simp
  | succ n =>
    simp only [List.getD_cons_succ, Nat.succ_ne_zero, if_false]
    rw [List.getD_eq_getElem?_getD, List.getD_eq_getElem?_getD, List.getElem?_reverse (by omega)]
    congr 2
    omega

theorem cf_zipWith_sub (q : K) (u v : List K) (h : u.length = v.length) (i : ℕ) :
    cf (List.zipWith (fun x y => x - q * y) u v) i = cf u i - q * cf v i := by
  unfold cf
  rw [List.getD_eq_getElem?_getD, List.getD_eq_getElem?_getD, List.getD_eq_getElem?_getD,
    List.getElem?_zipWith]
  by_cases hi : i < u.length
  · rw [List.getElem?_eq_getElem hi, List.getElem?_eq_getElem (by omega)]; rfl
  · rw [List.getElem?_eq_none (by omega), List.getElem?_eq_none (by omega)]; simp

theorem cf_delay (m j : ℕ) : cf (delay m : List K) j = if j = m then 1 else 0 := by
  unfold cf delay
  rw [List.getD_eq_getElem?_getD]
  by_cases h : j < m
  · rw [List.getElem?_append_left (by simpa using h), if_neg (by omega)]
    simp [h]
  · rw [List.getElem?_append_right (by simpa using h)]
    simp only [List.length_replicate]
    by_cases h2 : j = m
    · subst h2; simp
    · rw [if_neg h2, List.getElem?_eq_none (by simp; omega)]; rfl

/-- Toeplitz symmetry: the reversed filter sees the lags mirrored -/
theorem corr_reverse (r a : List K) (j : ℕ) (hj : j ≤ a.length) :
    corr r ((0 : K) :: a.reverse) j = corr r a (a.length - j) := by
  unfold corr
  rw [List.length_cons, List.length_reverse, sum_range_succ']
  have h0 : cf ((0 : K) :: a.reverse) 0 = 0 := by simp [cf]
  rw [h0, mul_zero, add_zero, ← sum_range_reflect]
  apply sum_congr rfl
  intro i hi
  rw [mem_range] at hi
  rw [cf_zero_cons_reverse a _ (by omega), if_neg (by omega)]
  have e1 : a.length - (a.length - 1 - i + 1) = i := by omega
  have e2 : lag (a.length - 1 - i + 1) j = lag i (a.length - j) := by
    unfold lag; split <;> split <;> omega
  rw [e1, e2]

theorem corr_step (r a : List K) (q : K) (j : ℕ) (hj : j ≤ a.length) :
    corr r (List.zipWith (fun x y => x - q * y) (a ++ [0]) ((0 : K) :: a.reverse)) j
      = corr r a j - q * corr r a (a.length - j) := by
  rw [← corr_reverse r a j hj]
  unfold corr
  simp only [List.length_zipWith, List.length_append, List.length_cons, List.length_nil,
    List.length_reverse, Nat.min_self, zero_add]
  have e : ∑ i ∈ range a.length, cf r (lag i j) * cf a i
      = ∑ i ∈ range (a.length + 1), cf r (lag i j) * cf a i := by
    rw [sum_range_succ, cf_of_le a a.length (le_refl _), mul_zero, add_zero]
  rw [e, mul_sum, ← sum_sub_distrib]
  apply sum_congr rfl
  intro i _
  rw [cf_zipWith_sub q _ _ (by simp), cf_append_zero]
  ring

theorem corr_delay (r a : List K) (m : ℕ) : inner r a (delay m) = corr r a m := by
  rw [inner_eq_corr]
  have : (delay m : List K).length = m + 1 := by simp [delay]
  rw [this]
  simp only [cf_delay]
  rw [sum_range_succ, sum_eq_zero (fun j hj => by
    rw [mem_range] at hj; rw [if_neg (by omega), zero_mul])]
  simp

/-- loop invariant -/
structure LInv (r : List K) (r0 : K) (s : LevState K) : Prop where
  len : s.a.length = s.ks.length + 1
  lead : cf s.a 0 = 1
  normal : ∀ j, 1 ≤ j → j < s.a.length → corr r s.a j = 0
  err : corr r s.a 0 = errorSpec r0 s.ks
  up : s.a = stepUp s.ks

/-- with the normal equations, `⟨A, A⟩` collapses to `corr A 0` -/
theorem inner_self (r : List K) (r0 : K) (s : LevState K) (h : LInv r r0 s) :
    inner r s.a s.a = errorSpec r0 s.ks := by
  rw [inner_eq_corr]
  have hpos : 0 < s.a.length := by rw [h.len]; omega
  obtain ⟨n, hn⟩ : ∃ n, s.a.length = n + 1 := ⟨s.a.length - 1, by omega⟩
  rw [hn, sum_range_succ', h.lead, one_mul, h.err, sum_eq_zero, zero_add]
  intro j hj
  rw [mem_range] at hj
  rw [h.normal (j + 1) (by omega) (by omega), mul_zero]

theorem errorSpec_append (r0 : K) (ks : List K) (k : K) :
    errorSpec r0 (ks ++ [k]) = errorSpec r0 ks * (1 - k * k) := by
  simp [errorSpec]

theorem levStep_inv (r : List K) (r0 : K) (s s' : LevState K) (h : LInv r r0 s)
    (hs : levStep r s = some s') : LInv r r0 s' := by
  unfold levStep at hs
  set m := s.a.length with hm
  set b := (0 : K) :: s.a.reverse with hb
  -- ⟨B, B⟩ = ⟨A, A⟩
  have hbb : inner r b b = errorSpec r0 s.ks := by
    rw [← inner_self r r0 s h, inner_eq_corr, inner_eq_corr, hb, List.length_cons,
      List.length_reverse, sum_range_succ']
    have h0 : cf ((0 : K) :: s.a.reverse) 0 = 0 := by simp [cf]
    rw [h0, zero_mul, add_zero, ← sum_range_reflect]
    apply sum_congr rfl
    intro i hi
    rw [mem_range] at hi
    rw [cf_zero_cons_reverse s.a _ (by omega), if_neg (by omega), corr_reverse r s.a _ (by omega)]
    have e1 : s.a.length - (s.a.length - 1 - i + 1) = i := by omega
    rw [e1]
  by_cases hz : inner r b b = 0
  · simp [hz] at hs
  · simp only [hz, if_false, Option.some.injEq] at hs
    set q := inner r s.a (delay m) / inner r b b with hq
    have hE : errorSpec r0 s.ks ≠ 0 := by rw [← hbb]; exact hz
    have hqv : q * errorSpec r0 s.ks = corr r s.a m := by
      rw [hq, hbb, corr_delay, div_mul_cancel₀ _ hE]
    subst hs
    have hup : List.zipWith (fun x y => x - q * y) (s.a ++ [0]) b = stepUp1 s.a (-q) := by
      unfold stepUp1
      congr 1
      funext x y; ring
    refine ⟨by
      simp only [List.length_zipWith, List.length_append, List.length_nil, hb,
        List.length_cons, List.length_reverse, h.len]; omega, ?_, ?_, ?_, ?_⟩
    · show cf (List.zipWith (fun x y => x - q * y) (s.a ++ [0]) b) 0 = 1
      rw [cf_zipWith_sub q _ _ (by simp [hb]), cf_append_zero, h.lead]
      simp [hb, cf]
    · intro j hj1 hj2
      show corr r (List.zipWith (fun x y => x - q * y) (s.a ++ [0]) b) j = 0
      have hlen : (List.zipWith (fun x y => x - q * y) (s.a ++ [0]) b).length = m + 1 := by
        simp [hb, hm]
      change j < (List.zipWith (fun x y => x - q * y) (s.a ++ [0]) b).length at hj2
      rw [hlen] at hj2
      rw [corr_step r s.a q j (by omega)]
      by_cases hjm : j = m
      · rw [hjm, ← hm, Nat.sub_self, h.err, ← hqv]; ring
      · rw [h.normal j hj1 (by omega), h.normal (m - j) (by omega) (by omega)]; ring
    · show corr r (List.zipWith (fun x y => x - q * y) (s.a ++ [0]) b) 0 = errorSpec r0 (s.ks ++ [-q])
      rw [corr_step r s.a q 0 (by omega), Nat.sub_zero, ← hm, ← hqv, h.err, errorSpec_append]
      ring
    · show List.zipWith (fun x y => x - q * y) (s.a ++ [0]) b = stepUp (s.ks ++ [-q])
      rw [stepUp_append, ← h.up, hup]

theorem levLoop_inv (r : List K) (r0 : K) : ∀ (n : ℕ) (s s' : LevState K), LInv r r0 s →
    levLoop r n s = some s' → LInv r r0 s'
  | 0, s, s', h, hs => by
    simp only [levLoop, Option.some.injEq] at hs; rw [← hs]; exact h
  | n + 1, s, s', h, hs => by
    simp only [levLoop] at hs
    cases h1 : levStep r s with
    | none => rw [h1] at hs; simp at hs
    | some s1 =>
      rw [h1] at hs
      exact levLoop_inv r r0 n s1 s' (levStep_inv r r0 s s1 h h1) hs

theorem linv_init (r : List K) : LInv r (cf r 0) (⟨[1], []⟩ : LevState K) := by
  refine ⟨rfl, by simp [cf], ?_, ?_, rfl⟩
  · intro j h1 h2; simp at h2; omega
  · simp [corr, errorSpec, lag, cf]

theorem levLoop_count (r : List K) : ∀ (n : ℕ) (s s' : LevState K),
    levLoop r n s = some s' → s'.ks.length = s.ks.length + n
  | 0, s, s', hs => by
    simp only [levLoop, Option.some.injEq] at hs; rw [← hs]; rfl
  | n + 1, s, s', hs => by
    simp only [levLoop] at hs
    cases h1 : levStep r s with
    | none => rw [h1] at hs; simp at hs
    | some s1 =>
      rw [h1] at hs
      have := levLoop_count r n s1 s' hs
      have h2 : s1.ks.length = s.ks.length + 1 := by
        unfold levStep at h1
        simp only [] at h1
        by_cases hz : inner r ((0 : K) :: s.a.reverse) ((0 : K) :: s.a.reverse) = 0
        · rw [if_pos hz] at h1; simp at h1
        · rw [if_neg hz] at h1
          simp only [Option.some.injEq] at h1; rw [← h1]; simp
      omega

theorem cf_extendAc_zero (r : List K) (order : ℕ) : cf (extendAc r order) 0 = r.headD 0 := by
  unfold extendAc cf
  split
  · cases r with
    | nil => simp [List.replicate_succ]
    | cons x t => simp
  · cases r with
    | nil => simp
    | cons x t => simp

theorem errorSpec_eq_prod (r0 : K) (ks : List K) :
    errorSpec r0 ks = r0 * (ks.map (fun k => 1 - k * k)).prod := by
  induction ks using List.reverseRecOn with
  | nil => simp [errorSpec]
  | append_singleton ks k ih =>
    rw [errorSpec_append, ih, List.map_append, List.prod_append]; simp; ring

end ALV.C11
