/-
  C07 — `lagrange.poly`: the Poly built by running the interpolator's lambda on the
  monomial `x` denotes the Waring–Lagrange polynomial of `K[X]`; evaluating it (any
  scheme, any point, `0` included) gives the Waring–Lagrange sum, hence the ordinates at
  the abscissae.  Also: evaluation of any Poly that denotes an ordinary polynomial.
-/
import Mathlib.Algebra.Polynomial.Eval.Defs
import Mathlib.Algebra.Polynomial.Eval.Coeff
import ALV.Lemmas.C07Lagrange

set_option linter.unusedSectionVars false

open LaurentPolynomial

namespace ALV.C07
variable {K : Type} [Field K] [DecidableEq K]

/-- evaluation of a Poly that denotes the ordinary polynomial `g`: every scheme, every point -/
theorem call_eq_eval_of_toLaurent {P : MPoly K} (hP : (keys P).Nodup) {g : Polynomial K}
    (hg : toLaurent P = Polynomial.toLaurent g) (v : K) (h : Horner) : call P v h = g.eval v := by
  by_cases hv : v = 0
  · subst hv
    rw [call_zero, ← coeff_eq_getD hP, ← coeff_toLaurent, hg, coeff_zero_toLaurent,
      Polynomial.coeff_zero_eq_eval_zero]
  · rw [call_eq_ev (Or.inl hv), ← evalHom_toLaurent v hv, hg]
    unfold evalHom
    rw [eval₂_toLaurent]
    simp [Polynomial.eval₂_eq_eval_map]

/-! ### the pieces of the lambda, on Polys -/

theorem toLaurent_map_div (a : MPoly K) (d : K) :
    toLaurent (a.map fun kv => (kv.1, kv.2 / d)) = toLaurent a * C d⁻¹ := by
  induction a with
  | nil => simp
  | cons x t ih =>
    rw [List.map_cons, toLaurent_cons, toLaurent_cons, ih, add_mul, ← single_eq_C,
      AddMonoidAlgebra.single_mul_single]
    simp [div_eq_mul_inv]

theorem toLaurent_divS {a : MPoly K} (ha : (keys a).Nodup) (d : K) :
    toLaurent (polyOps.divS a d) = toLaurent a * C d⁻¹ := by
  show toLaurent (mk (a.map fun kv => (kv.1, kv.2 / d))) = _
  rw [toLaurent_mk_of_nodup (by rw [keys_map_snd a (fun kv => kv.2 / d)]; exact ha), toLaurent_map_div]

theorem toLaurent_factor (rk d : K) :
    toLaurent (polyOps.divS (polyOps.subS (X : MPoly K) rk) d) =
      Polynomial.toLaurent ((Polynomial.X - Polynomial.C rk) * Polynomial.C d⁻¹) := by
  show toLaurent (polyOps.divS (add X (ofScalar (-rk))) d) = _
  rw [toLaurent_divS (wf_add _ _).1]
  rw [toLaurent_add wf_X.1 (wf_ofScalar _).1, toLaurent_X, toLaurent_ofScalar, map_mul, map_sub,
    Polynomial.toLaurent_X, Polynomial.toLaurent_C, Polynomial.toLaurent_C, map_neg, sub_eq_add_neg]

theorem wf_factor (rk d : K) : WF (polyOps.divS (polyOps.subS (X : MPoly K) rk) d) := wf_mk _

theorem toLaurent_prodFold (fixed : Bool) (fs : List (MPoly K)) (h : fixed = true ∨ fs ≠ []) :
    toLaurent (prodFold polyOps fixed fs) = (fs.map toLaurent).prod := by
  cases fs with
  | nil =>
    rcases h with h | h
    · simp [prodFold, polyOps, toLaurent_ofScalar]
    · exact absurd rfl h
  | cons a t =>
    cases fixed
    · simp only [prodFold, Bool.false_eq_true, if_false]
      show toLaurent (t.foldl mul a) = _
      rw [toLaurent_foldl_mul]; simp
    · simp only [prodFold, if_true]
      show toLaurent ((a :: t).foldl mul (ofScalar 1)) = _
      rw [toLaurent_foldl_mul, toLaurent_ofScalar]; simp

theorem keys_nodup_prodFold (fixed : Bool) (fs : List (MPoly K)) (hfs : ∀ f ∈ fs, WF f) :
    WF (prodFold polyOps fixed fs) := by
  cases fs with
  | nil => exact wf_ofScalar 1
  | cons a t =>
    cases fixed
    · simp only [prodFold, Bool.false_eq_true, if_false]
      exact wf_foldl_mul t (hfs a List.mem_cons_self)
    · simp only [prodFold, if_true]
      exact wf_foldl_mul (a :: t) (wf_ofScalar 1)

theorem toLaurent_foldl_add (l : List (MPoly K)) (hl : ∀ t ∈ l, (keys t).Nodup) {acc : MPoly K}
    (hacc : (keys acc).Nodup) :
    toLaurent (l.foldl add acc) = toLaurent acc + (l.map toLaurent).sum := by
  induction l generalizing acc with
  | nil => simp
  | cons a t ih =>
    rw [List.foldl_cons, ih (fun x hx => hl x (List.mem_cons_of_mem _ hx)) (wf_add _ _).1,
      toLaurent_add hacc (hl a List.mem_cons_self)]
    simp [add_assoc]

theorem toLaurent_sumFold (l : List (MPoly K)) (hl : ∀ t ∈ l, (keys t).Nodup) :
    toLaurent (sumFold polyOps [] l) = (l.map toLaurent).sum := by
  cases l with
  | nil => rfl
  | cons a t =>
    show toLaurent (t.foldl add (add (ofScalar 0) a)) = _
    rw [toLaurent_foldl_add t (fun x hx => hl x (List.mem_cons_of_mem _ hx)) (wf_add _ _).1,
      toLaurent_add (wf_ofScalar 0).1 (hl a List.mem_cons_self), toLaurent_ofScalar]
    simp

theorem wf_foldl_add (l : List (MPoly K)) {acc : MPoly K} (h : WF acc) : WF (l.foldl add acc) := by
  induction l generalizing acc with
  | nil => exact h
  | cons a t ih => exact ih (wf_add _ _)

theorem wf_sumFold (l : List (MPoly K)) : WF (sumFold polyOps [] l) := by
  cases l with
  | nil => exact wf_nil
  | cons a t =>
    show WF (t.foldl add (add (ofScalar 0) a))
    exact wf_foldl_add t (wf_add _ _)

/-! ### the Waring–Lagrange polynomial -/

/-- `Σ_j y_j · Π_{k ≠ j} (X − x_k)·(x_j − x_k)⁻¹ : K[X]` -/
noncomputable def lagPolyX (pairs : List (K × K)) : Polynomial K :=
  (pairs.map fun pr => Polynomial.C pr.2 *
    (((pairs.map (·.1)).filter (fun rk => !decide (pr.1 = rk))).map
      (fun rk => (Polynomial.X - Polynomial.C rk) * Polynomial.C (pr.1 - rk)⁻¹)).prod).sum

theorem eval_lagPolyX (pairs : List (K × K)) (v : K) : (lagPolyX pairs).eval v = lagSum pairs v := by
  unfold lagPolyX lagSum
  rw [Polynomial.eval_listSum, List.map_map]
  congr 1
  apply List.map_congr_left
  intro pr _
  simp only [Function.comp_apply, Polynomial.eval_mul, Polynomial.eval_C, Polynomial.eval_list_prod,
    List.map_map]
  congr 2
  apply List.map_congr_left
  intro rk _
  simp [div_eq_mul_inv]

theorem lagrangePoly_ok {pairs : List (K × K)} (fixed : Bool) (hne : pairs ≠ [])
    (h : fixed = true ∨ ((pairs.map (·.1)).Nodup ∧ 2 ≤ pairs.length)) :
    ∃ P, lagrangePoly pairs fixed = .ok P ∧ WF P ∧
      toLaurent P = Polynomial.toLaurent (lagPolyX pairs) := by
  unfold lagrangePoly
  rw [lagrangeGen_ok polyOps fixed [] pairs X hne
    (h.imp id (fun h => lagFactors_ne_nil polyOps X h.1 h.2))]
  refine ⟨_, rfl, wf_sumFold _, ?_⟩
  have hfne : ∀ pr ∈ pairs, fixed = true ∨ lagFactors polyOps (pairs.map (·.1)) pr.1 X ≠ [] :=
    fun pr hpr => h.imp id (fun h => lagFactors_ne_nil polyOps X h.1 h.2 pr hpr)
  rw [toLaurent_sumFold]
  · unfold lagPolyX
    rw [map_list_sum, List.map_map, List.map_map]
    congr 1
    apply List.map_congr_left
    intro pr hpr
    simp only [Function.comp_apply]
    show toLaurent (mul (ofScalar pr.2) _) = _
    rw [toLaurent_mul, toLaurent_ofScalar, toLaurent_prodFold fixed _ (hfne pr hpr), map_mul,
      Polynomial.toLaurent_C, map_list_prod]
    congr 2
    unfold lagFactors
    rw [List.map_map, List.map_map]
    apply List.map_congr_left
    intro rk _
    simp only [Function.comp_apply]
    exact toLaurent_factor rk (pr.1 - rk)
  · intro t ht
    obtain ⟨pr, _, rfl⟩ := List.mem_map.1 ht
    exact (wf_mul _ _).1

/-- `lagrange.poly(pairs)` evaluates to the Waring–Lagrange sum at every point, every scheme -/
theorem lagrangePoly_call {pairs : List (K × K)} (fixed : Bool) (hne : pairs ≠ [])
    (h : fixed = true ∨ ((pairs.map (·.1)).Nodup ∧ 2 ≤ pairs.length)) (v : K) (hh : Horner) :
    (lagrangePoly pairs fixed).map (fun P => call P v hh) = .ok (lagSum pairs v) := by
  obtain ⟨P, hP, hw, hl⟩ := lagrangePoly_ok fixed hne h
  rw [hP]
  show Except.ok (call P v hh) = _
  rw [call_eq_eval_of_toLaurent hw.1 hl, eval_lagPolyX]

/-! ### `__truediv__` -/

theorem toLaurent_map_divMono (a : MPoly K) (d : ℤ) (w : K) :
    toLaurent (a.map fun kv => (kv.1 - d, kv.2 / w)) =
      toLaurent a * AddMonoidAlgebra.single (-d) w⁻¹ := by
  induction a with
  | nil => simp
  | cons x t ih =>
    rw [List.map_cons, toLaurent_cons, toLaurent_cons, ih, add_mul, AddMonoidAlgebra.single_mul_single]
    simp [div_eq_mul_inv, sub_eq_add_neg]

theorem toLaurent_divScalar {p r : MPoly K} {c : K} (hp : (keys p).Nodup) (h : divScalar p c = .ok r) :
    toLaurent r = toLaurent p * C c⁻¹ := by
  unfold divScalar at h
  split at h
  · rename_i he
    cases h
    have : p = [] := by cases p <;> simp_all
    subst this; simp
  · split at h
    · cases h
    · cases h
      rw [toLaurent_mk_of_nodup (by rw [keys_map_snd p (fun kv => kv.2 / c)]; exact hp), toLaurent_map_div]

theorem toLaurent_divPoly {p r : MPoly K} {d : ℤ} {w : K} (hp : (keys p).Nodup)
    (h : divPoly p [(d, w)] = .ok r) :
    toLaurent r = toLaurent p * AddMonoidAlgebra.single (-d) w⁻¹ := by
  unfold divPoly at h
  simp only at h
  split at h
  · rename_i he
    cases h
    have : p = [] := by cases p <;> simp_all
    subst this; simp
  · split at h
    · cases h
    · cases h
      have hn : (keys (p.map fun kv => (kv.1 - d, kv.2 / w))).Nodup := by
        have : keys (p.map fun kv => (kv.1 - d, kv.2 / w)) = (keys p).map (fun k => k - d) := by
          simp [keys, List.map_map, Function.comp_def]
        rw [this]
        exact hp.map (fun a b e => by omega)
      rw [toLaurent_mk_of_nodup hn, toLaurent_map_divMono]

/-! ### composition of polynomials, every evaluation point (`0` included) -/

theorem call_compose_of_isPoly {p q : MPoly K} (hp : IsPoly p) (hpw : (keys p).Nodup) (hq : IsPoly q)
    (hqw : (keys q).Nodup) (v : K) (h h' h'' : Horner) :
    call (compose p q) v h = call p (call q v h') h'' := by
  -- q denotes the ordinary polynomial g
  have hg := (toLaurent_trunc hq).symm
  set g := trunc (toLaurent q) with hgdef
  have hqv : call q v h' = g.eval v := call_eq_eval_of_toLaurent hqw hg v h'
  -- p(q) denotes Σ c·g^n
  have hc : toLaurent (compose p q) =
      Polynomial.toLaurent ((p.map fun kc => Polynomial.C kc.2 * g ^ kc.1.toNat).sum) := by
    rw [toLaurent_compose_poly hp, map_list_sum, List.map_map]
    congr 1
    apply List.map_congr_left
    intro kc _
    simp only [Function.comp_apply, map_mul, map_pow, Polynomial.toLaurent_C, ← hg]
  rw [call_eq_eval_of_toLaurent (wf_compose p q).1 hc, call_eq_ev (Or.inr hpw), hqv,
    Polynomial.eval_listSum, List.map_map]
  unfold ev
  congr 1
  apply List.map_congr_left
  intro kc hkc
  obtain ⟨n, hn⟩ := Int.eq_ofNat_of_zero_le (hp kc hkc)
  simp [hn]

end ALV.C07
