/-
  C02 — the rounding helpers behind spelled counts: audiolazy's `rint` (half away from zero) used by
  `take` / `peek`, `int(dur + .5)` used by `line` / `attack`, and the spelling-independence of a
  count that is an integer.  Core Lean only.
-/
import ALV.Lemmas.C02Stop
namespace ALV.C02

theorem floor_add_half (z : Int) : ((z : Rat) + 1 / 2).floor = z := by
  apply Int.le_antisymm
  · have := (Rat.floor_lt_iff (a := (z : Rat) + 1 / 2) (x := z + 1)).2 (by push_cast; grind)
    omega
  · rw [Rat.le_floor_iff]; grind

/-- `rint` is a nearest integer: `q - 1/2 < rint q ≤ q + 1/2` -/
theorem rintPos_near (q : Rat) : (rintPos q : Rat) ≤ q + 1 / 2 ∧ q < (rintPos q : Rat) + 1 / 2 := by
  unfold rintPos
  have h1 := Rat.floor_le (q + 1 / 2)
  have h2 := Rat.lt_floor_add_one (q + 1 / 2)
  constructor <;> grind

/-- on a tie `rint` goes AWAY from zero (`take(2.5)` reads 3 items; Python's `round` gives 2) -/
theorem rintPos_tie (z : Int) : rintPos ((z : Rat) + 1 / 2) = z + 1 := by
  unfold rintPos
  have e : (z : Rat) + 1 / 2 + 1 / 2 = ((z + 1 : Int) : Rat) := by push_cast; grind
  rw [e, Rat.floor_intCast]

theorem rintPos_int (z : Int) : rintPos (z : Rat) = z := floor_add_half z

/-- a count spelled as the float `z.0` is the count `z` — for `take`/`peek`, `limit`/`skip` and
    durations alike -/
theorem count_spelling_int (z : Int) :
    takeCount (.float (z : Rat)) = takeCount (.int z) ∧
    roundCount (.float (z : Rat)) = roundCount (.int z) ∧
    durLen (.float (z : Rat)) = durLen (.int z) := by
  refine ⟨?_, ?_, ?_⟩
  · show Except.ok (some (if (0 : Rat) < (z : Rat) then (rintPos (z : Rat)).toNat else 0)) =
      Except.ok (some z.toNat)
    by_cases h : (0 : Rat) < (z : Rat)
    · simp only [if_pos h, rintPos_int]
    · simp only [if_neg h]
      have hz : z ≤ 0 := by
        have : ¬ ((0 : Int) : Rat) < (z : Rat) := by simpa using h
        rw [Rat.intCast_lt_intCast] at this
        omega
      have : z.toNat = 0 := by omega
      rw [this]
  · show Except.ok (pyRound (z : Rat)).toNat = Except.ok z.toNat
    rw [pyRound_int]
  · show ((z : Rat) + 1 / 2).floor.toNat = z.toNat
    rw [floor_add_half]

/-- `int(dur + .5)` of a non-negative duration is `rint(dur)`; a duration below one half (also a
    negative one) gives no sample -/
theorem durLen_law (q : Rat) :
    durLen (.float q) = (rintPos q).toNat ∧ durLen (.frac q) = (rintPos q).toNat ∧
    (q < 1 / 2 → durLen (.float q) = 0) := by
  refine ⟨rfl, rfl, ?_⟩
  intro h
  show (q + 1 / 2).floor.toNat = 0
  have : (q + 1 / 2).floor < 1 := by
    rw [Rat.floor_lt_iff]; push_cast; grind
  omega

end ALV.C02
