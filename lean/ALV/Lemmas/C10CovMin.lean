/-
  C10 — helper lemmas, part 9 (ordered field): a monic solution of the covariance normal
  equations minimises the residual energy over n ≥ p among all monic filters of order ≤ p.
-/
import Mathlib.Algebra.Order.Field.Basic
import Mathlib.Algebra.Order.BigOperators.Ring.Finset
import ALV.Lemmas.C10Cov2

namespace ALV.C10
open Finset
variable {K : Type} [Field K]

/-- the lag-table inner product is a correlation of filter outputs over n = p..N−1 -/
theorem bil_lagTable_eq (blk : List K) (p : ℕ) (u v : ℕ → K) :
    bil (phiOf (lagTable blk p)) (p + 1) u v =
      ∑ k ∈ range (blk.length - p),
        (∑ i ∈ range (p + 1), u i * coef blk (p + k - i)) *
        (∑ j ∈ range (p + 1), v j * coef blk (p + k - j)) := by
  unfold bil
  simp_rw [Finset.sum_mul_sum]
  symm
  rw [Finset.sum_comm]
  refine Finset.sum_congr rfl fun i hi => ?_
  rw [Finset.sum_comm]
  refine Finset.sum_congr rfl fun j hj => ?_
  have hi' : i ≤ p := by simpa [Nat.lt_succ_iff] using hi
  have hj' : j ≤ p := by simpa [Nat.lt_succ_iff] using hj
  rw [phiOf_lagTable, if_pos ⟨hi', hj'⟩, lagAt_eq_sum, mul_assoc, Finset.sum_mul]
  refine Finset.sum_congr rfl fun k _ => ?_
  ring

theorem bil_add_add (φ : ℕ → ℕ → K) (hs : ∀ i j, φ i j = φ j i) (n : ℕ) (a d : ℕ → K) :
    bil φ n (fun i => a i + d i) (fun i => a i + d i) =
      bil φ n a a + 2 * bil φ n a d + bil φ n d d := by
  rw [two_mul]
  nth_rewrite 2 [bil_symm φ hs n a d]
  unfold bil
  simp only [← Finset.sum_add_distrib]
  refine Finset.sum_congr rfl fun i _ => Finset.sum_congr rfl fun j _ => ?_
  ring

theorem bil_orth_right (φ : ℕ → ℕ → K) (n : ℕ) (a d : ℕ → K) (hd : d 0 = 0)
    (ha : ∀ i, 1 ≤ i → i < n → bil φ n a (unitv i) = 0) : bil φ n a d = 0 := by
  rw [bil_expand_right]
  refine Finset.sum_eq_zero fun l hl => ?_
  rcases Nat.eq_zero_or_pos l with h | h
  · subst h; simp [hd]
  · rw [ha l h (by simpa using hl), mul_zero]

variable [LinearOrder K] [IsStrictOrderedRing K]

theorem bil_lagTable_self_nonneg (blk : List K) (p : ℕ) (u : ℕ → K) :
    0 ≤ bil (phiOf (lagTable blk p)) (p + 1) u u := by
  rw [bil_lagTable_eq]
  exact Finset.sum_nonneg fun k _ => mul_self_nonneg _

theorem bil_lagTable_minimal (blk : List K) (p : ℕ) (a b : ℕ → K) (ha0 : a 0 = 1) (hb0 : b 0 = 1)
    (ha : ∀ i, 1 ≤ i → i < p + 1 → bil (phiOf (lagTable blk p)) (p + 1) a (unitv i) = 0) :
    bil (phiOf (lagTable blk p)) (p + 1) a a ≤ bil (phiOf (lagTable blk p)) (p + 1) b b := by
  have hb : b = fun i => a i + (b i - a i) := funext fun i => by ring
  rw [hb, bil_add_add _ (phiOf_lagTable_symm blk p),
    bil_orth_right _ _ a (fun i => b i - a i) (by simp [ha0, hb0]) ha]
  have := bil_lagTable_self_nonneg blk p (fun i => b i - a i)
  linarith

end ALV.C10
