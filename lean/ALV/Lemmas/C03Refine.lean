/-
  C03 — every operation of the heap model refines the same operation of the list
  specification (`step_refines`), one lemma per method.
-/
import ALV.Lemmas.C03Step

namespace ALV.C03
variable {α : Type}

/-- operations of the theorems: every source is finite (or an existing object) -/
def Op.Fin : Op α → Prop
  | .new s => s.Fin
  | .append _ s => s.Fin
  | .thub (.const _) _ => True
  | .thub s _ => s.Fin
  | _ => True

/-- one step of the model = the same step of the specification -/
structure StepOK (E : List (List α)) (st : St α) (sp : SPool α) (op : Op α)
    (E' : List (List α)) (f : Nat) (st' : St α) (sp' : SPool α) (o : Obs α) : Prop where
  run : ∀ f', f ≤ f' → step f' st op = some (st', o)
  spec : specStep sp op = some (sp', o)
  rel : Rel E' st' sp'
  ext : Ext E st.heap E' st'.heap

abbrev Refines (E : List (List α)) (st : St α) (sp : SPool α) (op : Op α) : Prop :=
  ∃ E' f st' sp' o, StepOK E st sp op E' f st' sp' o

section
variable {E : List (List α)} {st : St α} {sp : SPool α}

theorem relObj_stream {h : Heap α} {it : It α} (ok : Ok h it) :
    RelObj E h (.stream it) (.stream ⟨den E it, []⟩) := ⟨ok, rfl⟩

/-- nothing happens but an exception -/
theorem refines_err (R : Rel E st sp) {op : Op α} (e : String)
    (hm : ∀ f, step f st op = some (st, .err e)) (hs : specStep sp op = some (sp, .err e)) :
    Refines E st sp op :=
  ⟨E, 0, st, sp, .err e, fun f' _ => hm f', hs, R, Ext.refl E st.heap⟩

theorem refines_new (R : Rel E st sp) (s : Src α) (hs : s.Fin) : Refines E st sp (.new s) := by
  rcases mkSrc_ok R s hs with ⟨e, hm, hq⟩ | ⟨st1, it, sp1, hm, hq, R1, hh, ok⟩
  · exact refines_err R e (fun f => by simp [step, hm]) (by simp [specStep, hq])
  · refine ⟨E, 0, ⟨st1.heap, st1.pool ++ [.stream it]⟩, sp1 ++ [.stream ⟨den E it, []⟩], .new st1.pool.length,
      fun f' _ => by simp [step, hm], by simp [specStep, hq, R1.len],
      ⟨R1.hok, relO_append R1.objs (relO_single (relObj_stream (hh ▸ ok)))⟩, hh ▸ Ext.refl E st.heap⟩

/-- a read (`take`, `next`, `list`) from the Stream at index `i` -/
theorem refines_read (R : Rel E st sp) (i : Nat) (c : Cnt) {it : It α}
    (ok : Ok st.heap it) :
    ∃ f h' it' o, (∀ f', f ≤ f' → takeIt f' st.heap it c = some (h', it', o)) ∧
      specTake ⟨den E it, []⟩ c = some (⟨den E it', []⟩, o) ∧
      Rel E ⟨h', st.pool.set i (.stream it')⟩ (sp.set i (.stream ⟨den E it', []⟩)) ∧
      Ext E st.heap E h' := by
  obtain ⟨f, h', it', o, run, spec, Rd⟩ := takeIt_ok R.hok ok c
  have R1 := R.ext (Ext.ofGrow Rd.grow) Rd.hok
  exact ⟨f, h', it', o, run, spec, ⟨Rd.hok, relO_set R1.objs i ⟨Rd.ok, rfl⟩⟩, Ext.ofGrow Rd.grow⟩

theorem refines_take (R : Rel E st sp) (i : Nat) (c : Cnt) : Refines E st sp (.take i c) := by
  cases R.lookup i with
  | missing hp hq => exact refines_err R "noobj" (fun f => by simp [step, hp]) (by simp [specStep, hq])
  | dead hp hq => exact refines_err R "noobj" (fun f => by simp [step, hp]) (by simp [specStep, hq])
  | hub uses q hp hq ok =>
    exact refines_err R "AttributeError" (fun f => by simp [step, hp]) (by simp [specStep, hq])
  | stream it hp hq ok =>
    obtain ⟨f, h', it', o, run, spec, R', e⟩ := refines_read R i c ok
    exact ⟨E, f, _, _, o, fun f' hf => by simp [step, hp, run f' hf], by simp [specStep, hq, spec], R', e⟩

/-- a read from the last use of the hub at index `i` (`next(iter(hub))`, `list(hub)`) -/
theorem refines_hubread (R : Rel E st sp) (i : Nat) (c : Cnt) {ys : List (It α)} {u : It α} {q : LSeq α}
    (ok : ∀ w, w ∈ ys ++ [u] → Ok st.heap w ∧ q = ⟨den E w, []⟩) :
    ∃ f h' it' o s', (∀ f', f ≤ f' → takeIt f' st.heap u c = some (h', it', o)) ∧
      specTake q c = some (s', o) ∧
      Rel E ⟨h', st.pool.set i (.hub ys)⟩ (sp.set i (.hub q ys.length)) ∧ Ext E st.heap E h' := by
  obtain ⟨ou, du⟩ := ok u (by simp)
  obtain ⟨f, h', it', o, run, spec, Rd⟩ := takeIt_ok R.hok ou c
  have e := Ext.ofGrow (E := E) Rd.grow
  have R1 := R.ext e Rd.hok
  refine ⟨f, h', it', o, _, run, du ▸ spec, ⟨Rd.hok, relO_set R1.objs i ⟨rfl, fun w hw => ?_⟩⟩, e⟩
  obtain ⟨ow, dw⟩ := ok w (by simp [hw])
  exact ⟨(e w ow).1, dw⟩

theorem refines_next_drain (R : Rel E st sp) (i : Nat) :
    Refines E st sp (.next i) ∧ Refines E st sp (.drain i) := by
  cases R.lookup i with
  | missing hp hq =>
    exact ⟨refines_err R "noobj" (fun f => by simp [step, hp]) (by simp [specStep, hq]),
      refines_err R "noobj" (fun f => by simp [step, hp]) (by simp [specStep, hq])⟩
  | dead hp hq =>
    exact ⟨refines_err R "noobj" (fun f => by simp [step, hp]) (by simp [specStep, hq]),
      refines_err R "noobj" (fun f => by simp [step, hp]) (by simp [specStep, hq])⟩
  | stream it hp hq ok =>
    constructor
    · obtain ⟨f, h', it', o, run, spec, R', e⟩ := refines_read R i .none ok
      exact ⟨E, f, _, _, o, fun f' hf => by simp [step, hp, run f' hf], by simp [specStep, hq, spec], R', e⟩
    · obtain ⟨f, h', it', o, run, spec, R', e⟩ := refines_read R i .inf ok
      exact ⟨E, f, _, _, o, fun f' hf => by simp [step, hp, run f' hf], by simp [specStep, hq, spec], R', e⟩
  | hub uses q hp hq ok =>
    cases hg : uses.getLast? with
    | none =>
      have : uses = [] := List.getLast?_eq_none_iff.1 hg
      subst this
      exact ⟨refines_err R "IndexError" (fun f => by simp [step, hp]) (by simp [specStep, hq]),
        refines_err R "IndexError" (fun f => by simp [step, hp]) (by simp [specStep, hq])⟩
    | some u =>
      obtain ⟨ys, rfl⟩ := List.getLast?_eq_some_iff.1 hg
      simp at hq
      constructor
      · obtain ⟨f, h', it', o, s', run, spec, R', e⟩ := refines_hubread R i .none ok
        exact ⟨E, f, _, _, o, fun f' hf => by simp [step, hp, run f' hf], by simp [specStep, hq, spec], R', e⟩
      · obtain ⟨f, h', it', o, s', run, spec, R', e⟩ := refines_hubread R i .inf ok
        exact ⟨E, f, _, _, o, fun f' hf => by simp [step, hp, run f' hf], by simp [specStep, hq, spec], R', e⟩

/-- the in-place methods: resolve the target, wrap its iterator, rebind -/
theorem refines_wrap (R : Rel E st sp) (i : Nat) {op : Op α} (wrap : It α → It α)
    (swrap : LSeq α → LSeq α)
    (hok : ∀ (h : Heap α) it, Ok h it → Ok h (wrap it))
    (hden : ∀ it, swrap ⟨den E it, []⟩ = ⟨den E (wrap it), []⟩)
    (hm : ∀ f, step f st op = match target st i with
      | .error e => some (st, .err e)
      | .ok (st', k, it) => some (rebind st' i k (wrap it)))
    (hs : specStep sp op = match specTarget sp i with
      | .error e => some (sp, .err e)
      | .ok (sp', k, s) => some (specRebind sp' i k (swrap s))) :
    Refines E st sp op := by
  rcases target_ok R i with ⟨e, ht, hq⟩ | ⟨st1, k, it, sp1, ht, hq, R1, hh, ok, _⟩
  · exact refines_err R e (fun f => by rw [hm, ht]) (by rw [hs, hq])
  · obtain ⟨R2, ho⟩ := rebind_ok R1 i k (hok st1.heap it (hh ▸ ok))
    refine ⟨E, 0, (rebind st1 i k (wrap it)).1, (specRebind sp1 i k ⟨den E (wrap it), []⟩).1,
      (rebind st1 i k (wrap it)).2, fun f' _ => by rw [hm, ht], ?_, R2, ?_⟩
    · rw [hs, hq]; simp only []; rw [hden, ho]
    · show Ext E st.heap E st1.heap
      rw [hh]; exact Ext.refl E st.heap

theorem refines_map (R : Rel E st sp) (i : Nat) (g : α → α) : Refines E st sp (.map i g) :=
  refines_wrap R i (.map g) (LSeq.map g) (fun _ _ o => o) (fun _ => by simp [den])
    (fun f => by simp only [step]; cases target st i <;> rfl)
    (by simp only [specStep]; cases specTarget sp i <;> rfl)

theorem refines_filter (R : Rel E st sp) (i : Nat) (p : α → Bool) : Refines E st sp (.filter i p) :=
  refines_wrap R i (.filter p) (LSeq.filter p) (fun _ _ o => o) (fun _ => by simp [den])
    (fun f => by simp only [step]; cases target st i <;> rfl)
    (by simp only [specStep]; cases specTarget sp i <;> rfl)

theorem refines_skip (R : Rel E st sp) (i : Nat) (c : Cnt) : Refines E st sp (.skip i c) := by
  cases hc : roundCount c with
  | error e =>
    rcases target_ok R i with ⟨e', ht, hq⟩ | ⟨st1, k, it, sp1, ht, hq, R1, hh, ok, _⟩
    · exact refines_err R e' (fun f => by simp [step, ht]) (by simp [specStep, hq])
    · exact refines_err R "unsupported" (fun f => by simp [step, ht, hc]) (by simp [specStep, hq, hc])
  | ok n =>
    exact refines_wrap R i (.skipper n) (fun s => s.drop n) (fun _ _ o => o) (fun _ => by simp [den])
      (fun f => by simp only [step, hc]; cases target st i <;> rfl)
      (by simp only [specStep, hc]; cases specTarget sp i <;> rfl)

theorem refines_limit (R : Rel E st sp) (i : Nat) (c : Cnt) : Refines E st sp (.limit i c) := by
  cases hc : roundCount c with
  | error e =>
    rcases target_ok R i with ⟨e', ht, hq⟩ | ⟨st1, k, it, sp1, ht, hq, R1, hh, ok, _⟩
    · exact refines_err R e' (fun f => by simp [step, ht]) (by simp [specStep, hq])
    · exact ⟨E, 0, st1, sp1, .err e, fun f' _ => by simp [step, ht, hc], by simp [specStep, hq, hc], R1,
        hh ▸ Ext.refl E st.heap⟩
  | ok n =>
    exact refines_wrap R i (.limiter n) (fun s => ⟨s.take n, []⟩) (fun _ _ o => o) (fun _ => by simp [den])
      (fun f => by simp only [step, hc]; cases target st i <;> rfl)
      (by simp only [specStep, hc]; cases specTarget sp i <;> rfl)

theorem refines_append (R : Rel E st sp) (i : Nat) (s : Src α) (hs : s.Fin) :
    Refines E st sp (.append i s) := by
  rcases target_ok R i with ⟨e', ht, hq⟩ | ⟨st1, k, it, sp1, ht, hq, R1, hh, ok, _⟩
  · exact refines_err R e' (fun f => by simp [step, ht]) (by simp [specStep, hq])
  · rcases mkSrc_ok R1 s hs with ⟨e, hm, hq2⟩ | ⟨st2, it2, sp2, hm, hq2, R2, hh2, ok2⟩
    · exact ⟨E, 0, st1, sp1, .err e, fun f' _ => by simp [step, ht, hm], by simp [specStep, hq, hq2], R1,
        hh ▸ Ext.refl E st.heap⟩
    · have okc : Ok st2.heap (.chain it it2) := by rw [hh2]; exact ⟨hh ▸ ok, ok2⟩
      obtain ⟨R3, ho⟩ := rebind_ok R2 i k okc
      refine ⟨E, 0, (rebind st2 i k (.chain it it2)).1,
        (specRebind sp2 i k ⟨den E (.chain it it2), []⟩).1, (rebind st2 i k (.chain it it2)).2,
        fun f' _ => by simp [step, ht, hm], ?_, R3, ?_⟩
      · simp [specStep, hq, hq2, ho, den]
      · show Ext E st.heap E st2.heap
        rw [hh2, hh]; exact Ext.refl E st.heap

/-- `copy()` of the Stream / hub at `i` and `peek`: a tee over the current iterator -/
theorem refines_copy (R : Rel E st sp) (i : Nat) : Refines E st sp (.copy i) := by
  cases R.lookup i with
  | missing hp hq => exact refines_err R "noobj" (fun f => by simp [step, hp]) (by simp [specStep, hq])
  | dead hp hq => exact refines_err R "noobj" (fun f => by simp [step, hp]) (by simp [specStep, hq])
  | stream it hp hq ok =>
    obtain ⟨hok1, ext1, okt, dent⟩ := teeOf_ok R.hok ok
    have R1 := R.ext ext1 hok1
    have hset := relO_set R1.objs i (x := .stream (.tee st.heap.length 0))
      (y := .stream ⟨den E it, []⟩) ⟨okt, by rw [dent]⟩
    rw [set_self hq] at hset
    exact ⟨_, 0, ⟨st.heap ++ [⟨it, []⟩], st.pool.set i (.stream (.tee st.heap.length 0)) ++
        [.stream (.tee st.heap.length 0)]⟩, sp ++ [.stream ⟨den E it, []⟩], .new st.pool.length,
      fun f' _ => by simp [step, hp, teeOf], by simp [specStep, hq, R.len],
      ⟨hok1, relO_append hset (relO_single (x := .stream (.tee st.heap.length 0))
        (y := .stream ⟨den E it, []⟩) ⟨okt, by rw [dent]⟩)⟩, ext1⟩
  | hub uses q hp hq ok =>
    cases uses with
    | nil => exact refines_err R "IndexError" (fun f => by simp [step, hp]) (by simp [specStep, hq])
    | cons u us =>
      obtain ⟨ou, du⟩ := ok u (by simp)
      obtain ⟨hok1, ext1, okt, dent⟩ := teeOf_ok R.hok ou
      have R1 := R.ext ext1 hok1
      have hset := relO_set R1.objs i (x := .hub (.tee st.heap.length 0 :: us))
        (y := .hub q (u :: us).length) ⟨by simp, fun w hw => by
          rcases List.mem_cons.1 hw with rfl | hw
          · exact ⟨okt, by rw [dent]; exact du⟩
          · obtain ⟨ow, dw⟩ := ok w (by simp [hw])
            exact ⟨(ext1 w ow).1, by rw [(ext1 w ow).2]; exact dw⟩⟩
      rw [set_self hq] at hset
      simp at hq
      exact ⟨_, 0, ⟨st.heap ++ [⟨u, []⟩], st.pool.set i (.hub (.tee st.heap.length 0 :: us)) ++
          [.stream (.tee st.heap.length 0)]⟩, sp ++ [.stream q], .new st.pool.length,
        fun f' _ => by simp [step, hp, teeOf], by simp [specStep, hq, R.len],
        ⟨hok1, relO_append hset (relO_single (x := .stream (.tee st.heap.length 0))
          (y := .stream q) ⟨okt, by rw [dent]; exact du⟩)⟩, ext1⟩

theorem refines_peek (R : Rel E st sp) (i : Nat) (c : Cnt) : Refines E st sp (.peek i c) := by
  cases R.lookup i with
  | missing hp hq => exact refines_err R "noobj" (fun f => by simp [step, hp]) (by simp [specStep, hq])
  | dead hp hq => exact refines_err R "noobj" (fun f => by simp [step, hp]) (by simp [specStep, hq])
  | stream it hp hq ok =>
    obtain ⟨hok1, ext1, okt, dent⟩ := teeOf_ok R.hok ok
    obtain ⟨f, h', it', o, run, spec, Rd⟩ := takeIt_ok hok1 okt c
    have ext2 := ext1.trans (Ext.ofGrow Rd.grow)
    have R2 := R.ext ext2 Rd.hok
    have hset := relO_set R2.objs i (x := .stream (.tee st.heap.length 0))
      (y := .stream ⟨den E it, []⟩) ⟨Ok.grow Rd.grow okt, by rw [dent]⟩
    rw [set_self hq] at hset
    rw [dent] at spec
    exact ⟨_, f, ⟨h', st.pool.set i (.stream (.tee st.heap.length 0))⟩, sp, o,
      fun f' hf => by simp [step, hp, teeOf, run f' hf],
      by simp [specStep, hq, spec], ⟨Rd.hok, hset⟩, ext2⟩
  | hub uses q hp hq ok =>
    cases uses with
    | nil => exact refines_err R "IndexError" (fun f => by simp [step, hp]) (by simp [specStep, hq])
    | cons u us =>
      obtain ⟨ou, du⟩ := ok u (by simp)
      obtain ⟨hok1, ext1, okt, dent⟩ := teeOf_ok R.hok ou
      obtain ⟨f, h', it', o, run, spec, Rd⟩ := takeIt_ok hok1 okt c
      have ext2 := ext1.trans (Ext.ofGrow Rd.grow)
      have R2 := R.ext ext2 Rd.hok
      have hset := relO_set R2.objs i (x := .hub (.tee st.heap.length 0 :: us))
        (y := .hub q (u :: us).length) ⟨by simp, fun w hw => by
          rcases List.mem_cons.1 hw with rfl | hw
          · exact ⟨Ok.grow Rd.grow okt, by rw [dent]; exact du⟩
          · obtain ⟨ow, dw⟩ := ok w (by simp [hw])
            exact ⟨(ext2 w ow).1, by rw [(ext2 w ow).2]; exact dw⟩⟩
      rw [set_self hq] at hset
      rw [dent, ← du] at spec
      simp at hq
      exact ⟨_, f, ⟨h', st.pool.set i (.hub (.tee st.heap.length 0 :: us))⟩, sp, o,
        fun f' hf => by simp [step, hp, teeOf, run f' hf],
        by simp [specStep, hq, spec], ⟨Rd.hok, hset⟩, ext2⟩

/-- after resolving a source: a new hub over it with `n` outputs (`thub`, `lazy_itertools.tee`) -/
theorem refines_thub (R : Rel E st sp) (s : Src α) (n : Nat) (hs : (Op.thub s n).Fin) :
    Refines E st sp (.thub s n) := by
  have key : ∀ s : Src α, s.Fin → (∀ v, s ≠ .const v) → Refines E st sp (.thub s n) := by
    intro s hs hne
    have hstep : ∀ f, step f st (.thub s n) = match mkSrc st s with
        | .error e => some (st, .err e)
        | .ok (st', it) => some (⟨(teeOf st'.heap it).1, st'.pool ++ [.hub (List.replicate n (teeOf st'.heap it).2)]⟩,
            .new st'.pool.length) := by
      intro f; cases s <;> first | rfl | exact absurd rfl (hne _)
    have hspec : specStep sp (.thub s n) = match specSrc sp s with
        | .error e => some (sp, .err e)
        | .ok (sp', q) => some (sp' ++ [.hub q n], .new sp'.length) := by
      cases s <;> first | rfl | exact absurd rfl (hne _)
    rcases mkSrc_ok R s hs with ⟨e, hm, hq⟩ | ⟨st1, it, sp1, hm, hq, R1, hh, ok⟩
    · exact refines_err R e (fun f => by rw [hstep, hm]) (by rw [hspec, hq])
    · have ok1 : Ok st1.heap it := hh ▸ ok
      obtain ⟨hok1, ext1, okt, dent⟩ := teeOf_ok R1.hok ok1
      have R2 := R1.ext ext1 hok1
      refine ⟨_, 0, ⟨st1.heap ++ [⟨it, []⟩], st1.pool ++ [.hub (List.replicate n (.tee st1.heap.length 0))]⟩,
        sp1 ++ [.hub ⟨den E it, []⟩ n], .new st1.pool.length,
        fun f' _ => by rw [hstep, hm]; rfl, by rw [hspec, hq, R1.len],
        ⟨hok1, relO_append R2.objs (relO_single (x := .hub (List.replicate n (.tee st1.heap.length 0)))
          (y := .hub ⟨den E it, []⟩ n) ⟨by simp, fun w hw => ?_⟩)⟩, ?_⟩
      · obtain ⟨_, rfl⟩ := List.mem_replicate.1 hw
        exact ⟨okt, by rw [dent]⟩
      · show Ext E st.heap _ (st1.heap ++ _)
        rw [← hh]; exact ext1
  cases s with
  | const v => exact ⟨E, 0, st, sp, .const v, fun f' _ => rfl, rfl, R, Ext.refl E st.heap⟩
  | list xs => exact key _ trivial (fun v hv => by cases hv)
  | chain xss => exact key _ trivial (fun v hv => by cases hv)
  | obj j => exact key _ trivial (fun v hv => by cases hv)
  | mixed pre j post => exact key _ trivial (fun v hv => by cases hv)
  | cyc xs => exact absurd hs id

theorem refines_tee (R : Rel E st sp) (i n : Nat) : Refines E st sp (.tee i n) := by
  rcases mkSrc_ok R (.obj i) trivial with ⟨e, hm, hq⟩ | ⟨st1, it, sp1, hm, hq, R1, hh, ok⟩
  · exact refines_err R e (fun f => by simp only [step, hm]) (by simp only [specStep, hq])
  · have ok1 : Ok st1.heap it := hh ▸ ok
    obtain ⟨hok1, ext1, okt, dent⟩ := teeOf_ok R1.hok ok1
    have R2 := R1.ext ext1 hok1
    refine ⟨_, 0, ⟨st1.heap ++ [⟨it, []⟩], st1.pool ++ List.replicate n (.stream (.tee st1.heap.length 0))⟩,
      sp1 ++ List.replicate n (.stream ⟨den E it, []⟩),
      .news ((List.range n).map (· + st1.pool.length)),
      fun f' _ => by simp only [step, hm]; rfl, by simp only [specStep, hq, R1.len],
      ⟨hok1, relO_append R2.objs (relO_replicate (x := .stream (.tee st1.heap.length 0))
        (y := .stream ⟨den E it, []⟩) ⟨okt, by rw [dent]⟩ n)⟩, ?_⟩
    show Ext E st.heap _ (st1.heap ++ _)
    rw [← hh]; exact ext1

/-- **every operation of the model refines the list specification** -/
theorem step_refines (R : Rel E st sp) (op : Op α) (hop : op.Fin) : Refines E st sp op := by
  cases op with
  | new s => exact refines_new R s hop
  | take i c => exact refines_take R i c
  | peek i c => exact refines_peek R i c
  | skip i c => exact refines_skip R i c
  | limit i c => exact refines_limit R i c
  | append i s => exact refines_append R i s hop
  | map i g => exact refines_map R i g
  | filter i p => exact refines_filter R i p
  | copy i => exact refines_copy R i
  | next i => exact (refines_next_drain R i).1
  | drain i => exact (refines_next_drain R i).2
  | thub s n => exact refines_thub R s n hop
  | tee i n => exact refines_tee R i n

end
end ALV.C03
