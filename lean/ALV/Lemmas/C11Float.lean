/-
  C11 — helper lemmas, part 8: the loop parameterised by the squaring function
  (`ALV/Model/C11Float.lean`) with `sq k = k * k` IS the loop of `ALV/Model/C11.lean` — for any
  carrier with the operations (no field law is used), in particular for `Rat`, ℝ and `F64`.
-/
import ALV.Model.C11Float

namespace ALV.C11
variable {α : Type} [Add α] [Mul α] [Sub α] [Neg α] [Div α] [OfNat α 0] [OfNat α 1]
  [DecidableEq α]

theorem pstepG_mul (n : Nat) (d : α) (w : List α) (m : Nat) :
    pstepG (fun k => k * k) n d w m = pstep n d w m := rfl

theorem ploopG_mul (n : Nat) (d : α) : ∀ (m : Nat) (w : List α),
    ploopG (fun k => k * k) n d m w = ploop n d m w
  | 0, _ => rfl
  | m + 1, w => by
    unfold ploopG ploop
    rw [pstepG_mul]
    rcases pstep n d w (m + 1) with ⟨k, _ | w'⟩
    · rfl
    · simp only [ploopG_mul n d m w']

theorem parcorFixedG_mul (num : List α) : parcorFixedG (fun k => k * k) num = parcorFixed num := by
  unfold parcorFixedG parcorFixed
  exact ploopG_mul _ _ _ _

theorem pstepG_fst (sq : α → α) (n : Nat) (d : α) (w : List α) (m : Nat) :
    (pstepG sq n d w m).1 = lget n w m := by
  unfold pstepG
  simp only []
  split <;> rfl

theorem ploopG_head_mem (sq : α → α) (n : Nat) (d : α) (m : Nat) (w : List α) :
    lget n w ((m + 1 : Nat) : Int) ∈ (ploopG sq n d (m + 1) w).1 := by
  have h1 := pstepG_fst sq n d w (m + 1)
  unfold ploopG
  rcases hq : pstepG sq n d w (m + 1) with ⟨k, _ | w'⟩ <;> rw [hq] at h1 <;> simp at h1 <;> simp [h1]

/-- the squaring function matters only through its values on the yielded coefficients: two
    squaring functions that agree on every `k` the loop meets give the same run -/
theorem ploopG_congr (sq sq' : α → α) (n : Nat) (d : α) : ∀ (m : Nat) (w : List α),
    (∀ k ∈ (ploopG sq n d m w).1, sq k = sq' k) → ploopG sq' n d m w = ploopG sq n d m w
  | 0, _, _ => rfl
  | m + 1, w, h => by
    have hk := h _ (ploopG_head_mem sq n d m w)
    have hp : pstepG sq' n d w (m + 1) = pstepG sq n d w (m + 1) := by
      unfold pstepG
      simp only [hk]
    unfold ploopG at h ⊢
    rw [hp]
    rcases hq : pstepG sq n d w (m + 1) with ⟨k, _ | w'⟩
    · rfl
    · rw [hq] at h
      simp only [] at h ⊢
      rw [ploopG_congr sq sq' n d m w' (fun x hx => h x (by simp [hx]))]

section Order
variable [LT α] [DecidableLT α]

theorem stableLoopG_mul (n : Nat) (d : α) : ∀ (m : Nat) (w : List α),
    stableLoopG (fun k => k * k) n d m w = stableLoop n d m w
  | 0, _ => rfl
  | m + 1, w => by
    unfold stableLoopG stableLoop
    rw [pstepG_mul]
    rcases pstep n d w (m + 1) with ⟨k, _ | w'⟩
    · rfl
    · simp only [stableLoopG_mul n d m w']

theorem parcorStableFixedG_mul (den : List α) :
    parcorStableFixedG (fun k => k * k) den = parcorStableFixed den := by
  unfold parcorStableFixedG parcorStableFixed
  exact stableLoopG_mul _ _ _ _

/-- lazily consumed under `all(...)` = drained, for any squaring function (binary64 included) -/
theorem stableLoopG_eq (sq : α → α) (n : Nat) (d : α) : ∀ (m : Nat) (w : List α),
    stableLoopG sq n d m w = (!(ploopG sq n d m w).2 && (ploopG sq n d m w).1.all absLt1)
  | 0, _ => rfl
  | m + 1, w => by
    unfold stableLoopG ploopG
    rcases h : pstepG sq n d w (m + 1) with ⟨k, _ | w'⟩
    · simp
    · simp only [stableLoopG_eq sq n d m w', List.all_cons]
      cases absLt1 k <;> simp

end Order

end ALV.C11
