/-
  C11 — helper lemmas, part 8: the loop parameterised by the squaring function
  (`ALV/Model/C11Float.lean`) with `sq k = k * k` IS the loop of `ALV/Model/C11.lean` — for any
  carrier with the operations (no field law is used), in particular for `Rat`, ℝ and `F64`.
-/
import ALV.Model.C11Float

set_option linter.unusedSectionVars false

namespace ALV.C11
variable {α : Type} [Add α] [Mul α] [Sub α] [Neg α] [Div α] [OfNat α 0] [OfNat α 1]
  [DecidableEq α]

theorem pstepG_mul (n : Nat) (d : α) (w : List α) (m : Nat) :
    pstepG (fun k => k * k) n d w m = pstep n d w m := rfl

theorem ploopG_mul (n : Nat) (d : α) : ∀ (m : Nat) (w : List α),
    ploopG (fun k => k * k) n d m w = ploop n d m w
  | 0, _ => rfl
  | m + 1, w => by
    unfold ploopG ploop
    rw [pstepG_mul]
    rcases pstep n d w (m + 1) with ⟨k, _ | w'⟩
    · rfl
    · simp only [ploopG_mul n d m w']

theorem parcorFixedG_mul (num : List α) : parcorFixedG (fun k => k * k) num = parcorFixed num := by
  unfold parcorFixedG parcorFixed
  exact ploopG_mul _ _ _ _

theorem pstepG_fst (sq : α → α) (n : Nat) (d : α) (w : List α) (m : Nat) :
    (pstepG sq n d w m).1 = lget n w m := by
  unfold pstepG
  simp only []
  split <;> rfl

theorem ploopG_head_mem (sq : α → α) (n : Nat) (d : α) (m : Nat) (w : List α) :
    lget n w ((m + 1 : Nat) : Int) ∈ (ploopG sq n d (m + 1) w).1 := by
  have h1 := pstepG_fst sq n d w (m + 1)
  unfold ploopG
  rcases hq : pstepG sq n d w (m + 1) with ⟨k, _ | w'⟩ <;> rw [hq] at h1 <;> simp at h1 <;> simp [h1]

/-- the squaring function matters only through its values on the yielded coefficients: two
    squaring functions that agree on every `k` the loop meets give the same run -/
theorem ploopG_congr (sq sq' : α → α) (n : Nat) (d : α) : ∀ (m : Nat) (w : List α),
    (∀ k ∈ (ploopG sq n d m w).1, sq k = sq' k) → ploopG sq' n d m w = ploopG sq n d m w
  | 0, _, _ => rfl
  | m + 1, w, h => by
    have hk := h _ (ploopG_head_mem sq n d m w)
    have hp : pstepG sq' n d w (m + 1) = pstepG sq n d w (m + 1) := by
      unfold pstepG
      simp only [hk]
    unfold ploopG at h ⊢
    rw [hp]
    rcases hq : pstepG sq n d w (m + 1) with ⟨k, _ | w'⟩
    · rfl
    · rw [hq] at h
      simp only [] at h ⊢
      rw [ploopG_congr sq sq' n d m w' (fun x hx => h x (by simp [hx]))]

/-! ### the yields depend on the coefficients at delays 1 … m only

No law of arithmetic is used, so this holds for binary64 (`F64`) as it does for a field: whatever
sits at delay 0 (a leading coefficient `g * (1 / g) = 0.9999999999999999`), beyond delay `m` (the
residue `k - k * a₀ ≈ 1e-17` of the previous step) or at negative delays (its mirror image) never
reaches a yielded coefficient, nor does the constant denominator `d`. -/

theorem lget_wtab' (n : Nat) (g : Int → α) (i : Int) :
    lget n (wtab n g) i = if -(n : Int) ≤ i ∧ i ≤ (n : Int) then g i else 0 := by
  unfold lget
  split
  · rename_i h
    have hj : (i + (n : Int)).toNat < 2 * n + 1 := by omega
    unfold wtab
    rw [List.getD_eq_getElem?_getD, List.getElem?_map, List.getElem?_range hj]
    simp only [Option.map_some, Option.getD_some]
    congr 1
    omega
  · rfl

theorem lget_w2 (n : Nat) (g : Int → α) (x : α) (i : Int) (hi : i ≠ 0) :
    lget n (wtab n (fun j => if j = 0 then x else lget n (wtab n g) j)) i
      = if -(n : Int) ≤ i ∧ i ≤ (n : Int) then g i else 0 := by
  rw [lget_wtab']
  by_cases hr : -(n : Int) ≤ i ∧ i ≤ (n : Int)
  · rw [if_pos hr, if_neg hi, lget_wtab', if_pos hr]
  · rw [if_neg hr, if_neg hr]

/-- two windows that agree on delays `1 … m` -/
def InnerEq (n m : Nat) (w w' : List α) : Prop :=
  ∀ i : Int, 1 ≤ i → i ≤ (m : Int) → lget n w i = lget n w' i

theorem pstepG_inner (sq : α → α) (n : Nat) (d d' : α) (w w' : List α) (m : Nat)
    (h : InnerEq n (m + 1) w w') :
    (pstepG sq n d w (m + 1)).1 = (pstepG sq n d' w' (m + 1)).1 ∧
    ((pstepG sq n d w (m + 1)).2 = none ↔ (pstepG sq n d' w' (m + 1)).2 = none) ∧
    ∀ v v', (pstepG sq n d w (m + 1)).2 = some v → (pstepG sq n d' w' (m + 1)).2 = some v' →
      InnerEq n m v v' := by
  have hk : lget n w ((m + 1 : Nat) : Int) = lget n w' ((m + 1 : Nat) : Int) :=
    h _ (by omega) (by omega)
  unfold pstepG
  simp only [hk]
  generalize lget n w' ((m + 1 : Nat) : Int) = kk
  by_cases hz : 1 - sq kk = 0
  · simp only [hz, if_true]
    refine ⟨?_, ?_, ?_⟩
    · trivial
    · first | trivial | exact Iff.rfl
    · intro v v' hv; cases hv
  · simp only [hz, if_false]
    refine ⟨?_, ?_, ?_⟩
    · trivial
    · constructor <;> (intro hh; cases hh)
    · intro v v' hv hv' i h1 h2
      simp only [Option.some.injEq] at hv hv'
      have hi : i ≠ 0 := by omega
      rw [← hv, ← hv', lget_w2 _ _ _ _ hi, lget_w2 _ _ _ _ hi]
      by_cases hr : -(n : Int) ≤ i ∧ i ≤ (n : Int)
      · rw [if_pos hr, if_pos hr]
        rw [h i h1 (by omega), h (((m + 1 : Nat) : Int) - i) (by omega) (by omega)]
      · rw [if_neg hr, if_neg hr]

/-- **the yields and the break-down depend on delays `1 … m` only** (and not on `d`) -/
theorem ploopG_inner (sq : α → α) (n : Nat) (d d' : α) : ∀ (m : Nat) (w w' : List α),
    InnerEq n m w w' → ploopG sq n d m w = ploopG sq n d' m w'
  | 0, _, _, _ => rfl
  | m + 1, w, w', h => by
    obtain ⟨h1, h2, h3⟩ := pstepG_inner sq n d d' w w' m h
    unfold ploopG
    rcases hp : pstepG sq n d w (m + 1) with ⟨k, _ | v⟩ <;>
      rcases hp' : pstepG sq n d' w' (m + 1) with ⟨k', _ | v'⟩ <;>
      rw [hp, hp'] at h1 h2 h3 <;> simp only [] at h1 h2 h3
    · rw [h1]
    · simp at h2
    · simp at h2
    · simp only []
      rw [h1, ploopG_inner sq n d d' m v v' (h3 v v' rfl rfl)]

section Order
variable [LT α] [DecidableLT α]

theorem stableLoopG_mul (n : Nat) (d : α) : ∀ (m : Nat) (w : List α),
    stableLoopG (fun k => k * k) n d m w = stableLoop n d m w
  | 0, _ => rfl
  | m + 1, w => by
    unfold stableLoopG stableLoop
    rw [pstepG_mul]
    rcases pstep n d w (m + 1) with ⟨k, _ | w'⟩
    · rfl
    · simp only [stableLoopG_mul n d m w']

theorem parcorStableFixedG_mul (den : List α) :
    parcorStableFixedG (fun k => k * k) den = parcorStableFixed den := by
  unfold parcorStableFixedG parcorStableFixed
  exact stableLoopG_mul _ _ _ _

/-- lazily consumed under `all(...)` = drained, for any squaring function (binary64 included) -/
theorem stableLoopG_eq (sq : α → α) (n : Nat) (d : α) : ∀ (m : Nat) (w : List α),
    stableLoopG sq n d m w = (!(ploopG sq n d m w).2 && (ploopG sq n d m w).1.all absLt1)
  | 0, _ => rfl
  | m + 1, w => by
    unfold stableLoopG ploopG
    rcases h : pstepG sq n d w (m + 1) with ⟨k, _ | w'⟩
    · simp
    · simp only [stableLoopG_eq sq n d m w', List.all_cons]
      cases absLt1 k <;> simp

end Order

end ALV.C11
