/-
  C18 — helper lemmas: the WAV reader chain on a whole PCM file, and its lazy / closing
  behaviour.  Core Lean only.
-/
import ALV.Lemmas.C18
namespace ALV.C18

theorem genMap_all_ok {β γ ε : Type} (F : β → Except ε γ) (G : β → γ) : ∀ bl : List β,
    (∀ b ∈ bl, F b = .ok (G b)) → genMap F bl = ⟨bl.map G, none⟩ := by
  intro bl
  induction bl with
  | nil => intro _; rfl
  | cons b bs ih =>
    intro h
    rw [genMap, h b (by simp), ih (fun b' hb' => h b' (by simp [hb']))]
    simp [Gen.cons]

/-! ### block_reader on a data chunk made of whole frames -/

theorem blockReader_nil (fs : Nat) : blockReader fs [] = [] := by
  rw [blockReader]; simp

theorem blockReader_cons_block (fs : Nat) (hfs : 0 < fs) (blk rest : Bytes) (h : blk.length = fs) :
    blockReader fs (blk ++ rest) = blk :: blockReader fs rest := by
  rw [blockReader]
  have hne : ¬ (blk ++ rest = [] ∨ fs = 0) := by
    intro hh
    rcases hh with hh | hh
    · have := congrArg List.length hh
      rw [List.length_append, List.length_nil] at this; omega
    · omega
  rw [dif_neg hne, List.take_left' h, List.drop_left' h]

theorem blockReader_step (fs : Nat) (data : Bytes) (h : ¬ (data = [] ∨ fs = 0)) :
    blockReader fs data = data.take fs :: blockReader fs (data.drop fs) := by
  rw [blockReader, dif_neg h]

theorem blockReader_done (fs : Nat) (data : Bytes) (h : data = [] ∨ fs = 0) : blockReader fs data = [] := by
  rw [blockReader, dif_pos h]

theorem pcmSample_length (bits : Nat) (n : Int) : (pcmSample bits n).length = bits / 8 := by
  simp [pcmSample, twosLE]

theorem pcmData_cons (bits : Nat) (n : Int) (ns : List Int) :
    pcmData bits (n :: ns) = pcmSample bits n ++ pcmData bits ns := by
  simp [pcmData]

/-- mono: the sample reader returns the PCM images of the samples, one per frame -/
theorem sampleReader_mono (bits : Nat) (hw : 0 < bits / 8) : ∀ samples : List Int,
    sampleReader 1 (bits / 8) (blockReader (bits / 8 * 1) (pcmData bits samples)) =
      samples.map (pcmSample bits) := by
  intro samples
  simp only [sampleReader, if_pos, Nat.mul_one]
  induction samples with
  | nil => simp [pcmData, blockReader_nil]
  | cons n ns ih =>
    rw [pcmData_cons, blockReader_cons_block _ hw _ _ (pcmSample_length bits n), ih, List.map_cons]

/-- stereo: every frame is split into its two samples, in file order -/
theorem sampleReader_stereo (bits : Nat) (hw : 0 < bits / 8) : ∀ (k : Nat) (samples : List Int),
    samples.length = 2 * k →
    sampleReader 2 (bits / 8) (blockReader (bits / 8 * 2) (pcmData bits samples)) =
      samples.map (pcmSample bits) := by
  intro k
  induction k with
  | zero =>
    intro samples h
    have : samples = [] := List.eq_nil_of_length_eq_zero (by omega)
    simp [this, sampleReader, pcmData, blockReader_nil]
  | succ k ih =>
    intro samples h
    match samples, h with
    | a :: b :: rest, h =>
      have hr : rest.length = 2 * k := by simp at h; omega
      have ih' := ih rest hr
      simp only [sampleReader, show (2 : Nat) ≠ 1 by omega, if_false] at ih' ⊢
      rw [pcmData_cons, pcmData_cons, ← List.append_assoc,
        blockReader_cons_block _ (by omega) _ _
          (by rw [List.length_append, pcmSample_length, pcmSample_length]; omega),
        List.flatMap_cons, ih', List.take_left' (pcmSample_length bits a),
        List.drop_left' (pcmSample_length bits a)]
      simp

/-! ### the unpackers invert the PCM image on the stored range -/

theorem unpacker_pcm (bits : Nat) (hb : bits = 8 ∨ bits = 16 ∨ bits = 24 ∨ bits = 32) (n : Int)
    (hs : stored bits n) : ∃ up, unpacker bits = some up ∧ up (pcmSample bits n) = .ok n := by
  unfold pcmSample
  rw [← leBytes_eq_twosLE]
  rcases hb with rfl | rfl | rfl | rfl
  · refine ⟨unpack8, rfl, ?_⟩
    simp [stored] at hs
    exact unpack8_pcm n hs.1 hs.2
  · refine ⟨unpack16, rfl, ?_⟩
    simp [stored] at hs
    exact unpack16_pcm n (by simpa [inRange] using hs)
  · refine ⟨unpack24, rfl, ?_⟩
    simp [stored] at hs
    exact unpack24_pcm n (by simpa [inRange] using hs)
  · refine ⟨unpack32, rfl, ?_⟩
    simp [stored] at hs
    exact unpack32_pcm n (by simpa [inRange] using hs)

section norm
variable {K : Type} [IntCast K] [Div K]

theorem dataGenerator_pcm (bits : Nat) (hb : bits = 8 ∨ bits = 16 ∨ bits = 24 ∨ bits = 32) (keep : Bool)
    (samples : List Int) (hst : ∀ n ∈ samples, stored bits n) :
    (dataGenerator bits keep (samples.map (pcmSample bits)) : Gen (Sample K) WavErr) =
      ⟨wavSpec bits keep samples, none⟩ := by
  have hup : ∀ n ∈ samples, ∃ up, unpacker bits = some up ∧ up (pcmSample bits n) = .ok n :=
    fun n hn => unpacker_pcm bits hb n (hst n hn)
  unfold dataGenerator wavSpec
  cases samples with
  | nil =>
    rcases hb with rfl | rfl | rfl | rfl <;> cases keep <;> simp [unpacker, genMap]
  | cons s ss =>
    obtain ⟨up, hu, _⟩ := hup s (by simp)
    rw [hu]
    simp only
    have hup' : ∀ n ∈ s :: ss, up (pcmSample bits n) = .ok n := by
      intro n hn
      obtain ⟨up', hu', h⟩ := hup n hn
      rw [hu] at hu'
      cases hu'
      exact h
    cases keep with
    | true =>
      simp only [if_true]
      rw [genMap_all_ok _ (fun el => Sample.raw (match up el with | .ok n => n | .error _ => 0))]
      · congr 1
        rw [List.map_map]
        apply List.map_congr_left
        intro n hn
        simp [hup' n hn]
      · intro el hel
        obtain ⟨n, hn, rfl⟩ := List.mem_map.mp hel
        simp [hup' n hn, Except.map]
    | false =>
      simp only [Bool.false_eq_true, if_false]
      by_cases h8 : bits = 8
      · subst h8
        have hu8 : up = unpack8 := by
          have : unpacker 8 = some unpack8 := rfl
          rw [this] at hu; cases hu; rfl
        subst hu8
        simp only [if_true]
        rw [genMap_all_ok _ (fun el => Sample.scaled (normalise 8
          ((match unpack8 el with | .ok n => n | .error _ => 0) - 128)))]
        · congr 1
          rw [List.map_map]
          apply List.map_congr_left
          intro n hn
          simp [hup' n hn, normalise]
        · intro el hel
          obtain ⟨n, hn, rfl⟩ := List.mem_map.mp hel
          simp [hup' n hn, Except.map]
      · simp only [if_neg h8]
        rw [genMap_all_ok _ (fun el => Sample.scaled (normalise bits
          (match up el with | .ok n => n | .error _ => 0)))]
        · congr 1
          rw [List.map_map]
          apply List.map_congr_left
          intro n hn
          simp [hup' n hn, normalise]
        · intro el hel
          obtain ⟨n, hn, rfl⟩ := List.mem_map.mp hel
          simp [hup' n hn, Except.map]

end norm

/-! ### every unpacked value lies in the range of its width, whatever the bytes -/

theorem mem_genMap_out {β γ ε : Type} (F : β → Except ε γ) : ∀ (l : List β) (y : γ),
    y ∈ (genMap F l).out → ∃ x ∈ l, F x = .ok y := by
  intro l
  induction l with
  | nil => intro y h; simp [genMap] at h
  | cons x xs ih =>
    intro y h
    rw [genMap] at h
    cases hx : F x with
    | error e => rw [hx] at h; simp at h
    | ok v =>
      rw [hx] at h
      simp only [Gen.cons, List.mem_cons] at h
      rcases h with h | h
      · exact ⟨x, by simp, by rw [hx, h]⟩
      · obtain ⟨x', hx', hF⟩ := ih y h
        exact ⟨x', by simp [hx'], hF⟩

theorem unpackInt_range (w : Nat) (hw : 0 < w) (o : Order) (bs : Bytes) (n : Int)
    (h : unpackInt w o bs = some n) : inRange w n := by
  unfold unpackInt at h
  by_cases hl : bs.length = w
  · rw [if_pos hl] at h
    cases h
    have h0 := leValue_nonneg (orderBytes o bs)
    have h1 := leValue_lt (orderBytes o bs)
    rw [orderBytes_length, hl, pow256] at h1
    exact toSigned_range (8 * w) (by omega) _ h0 h1
  · rw [if_neg hl] at h; cases h

theorem unpacker_range (bits : Nat) (up : Bytes → Except WavErr Int) (hu : unpacker bits = some up)
    (bs : Bytes) (n : Int) (h : up bs = .ok n) :
    (bits = 8 → 0 ≤ n ∧ n < 256) ∧ (bits ≠ 8 → -(2 ^ (bits - 1)) ≤ n ∧ n < 2 ^ (bits - 1)) := by
  unfold unpacker at hu
  by_cases h8 : bits = 8
  · rw [if_pos h8] at hu; cases hu
    refine ⟨fun _ => ?_, fun hne => absurd h8 hne⟩
    match bs, h with
    | [b], h =>
      simp only [unpack8] at h
      cases h
      have := b.toNat_lt
      omega
  · rw [if_neg h8] at hu
    refine ⟨fun he => absurd he h8, fun _ => ?_⟩
    by_cases h16 : bits = 16
    · rw [if_pos h16] at hu; cases hu
      subst h16
      unfold unpack16 at h
      cases hh : unpackInt 2 .little bs with
      | none => rw [hh] at h; simp [ofOpt] at h
      | some v =>
        rw [hh] at h; simp only [ofOpt] at h; cases h
        simpa [inRange] using unpackInt_range 2 (by omega) _ _ _ hh
    · rw [if_neg h16] at hu
      by_cases h24 : bits = 24
      · rw [if_pos h24] at hu; cases hu
        subst h24
        by_cases hl : bs.length = 3
        · rw [unpack24_eq bs hl] at h
          cases h
          have h0 := leValue_nonneg bs
          have h1 := leValue_lt bs
          rw [hl] at h1
          exact toSigned_range 24 (by omega) _ h0 (by simpa using h1)
        · rw [unpack24_wrong_length bs hl] at h; cases h
      · rw [if_neg h24] at hu
        by_cases h32 : bits = 32
        · rw [if_pos h32] at hu; cases hu
          subst h32
          unfold unpack32 at h
          cases hh : unpackInt 4 .little bs with
          | none => rw [hh] at h; simp [ofOpt] at h
          | some v =>
            rw [hh] at h; simp only [ofOpt] at h; cases h
            simpa [inRange] using unpackInt_range 4 (by omega) _ _ _ hh
        · rw [if_neg h32] at hu; cases hu

/-! ### laziness and closing -/

/-- what a stream in state `s` still has to deliver -/
def remaining (channels sw fs : Nat) (s : WState) : List Bytes :=
  s.pending ++ sampleReader channels sw (blockReader fs s.data)

theorem wavTake_spec (channels sw fs : Nat) : ∀ (k : Nat) (s : WState),
    (s.closed = true → (s.data = [] ∨ fs = 0)) →
    (wavTake channels sw fs k s).1 = (remaining channels sw fs s).take k ∧
    (wavTake channels sw fs k s).2.closed =
      (s.closed || decide ((remaining channels sw fs s).length < k)) := by
  intro k
  induction k with
  | zero => intro s _; simp [wavTake]
  | succ k ih =>
    intro s hinv
    obtain ⟨data, pending, closed⟩ := s
    cases pending with
    | cons p ps =>
      have hn : wavNext channels sw fs ⟨data, p :: ps, closed⟩ = (some p, ⟨data, ps, closed⟩) := rfl
      have := ih ⟨data, ps, closed⟩ hinv
      simp only [wavTake, hn, remaining, List.cons_append, List.take_succ_cons, List.length_cons] at this ⊢
      refine ⟨by rw [this.1], ?_⟩
      rw [this.2]
      congr 1
      simp
    | nil =>
      cases closed with
      | true =>
        have hd := hinv rfl
        have hn : wavNext channels sw fs ⟨data, [], true⟩ = (none, ⟨data, [], true⟩) := rfl
        simp [wavTake, hn, remaining, blockReader_done fs data hd, sampleReader]
      | false =>
        by_cases hd : data = [] ∨ fs = 0
        · have hn : wavNext channels sw fs ⟨data, [], false⟩ = (none, ⟨data, [], true⟩) := by
            simp [wavNext, hd]
          simp [wavTake, hn, remaining, blockReader_done fs data hd, sampleReader]
        · by_cases hc : channels = 1
          · have hn : wavNext channels sw fs ⟨data, [], false⟩ =
                (some (data.take fs), ⟨data.drop fs, [], false⟩) := by
              simp [wavNext, hd, hc]
            have := ih ⟨data.drop fs, [], false⟩ (by simp)
            simp only [wavTake, hn, remaining, List.nil_append, blockReader_step fs data hd,
              sampleReader, if_pos hc, List.take_succ_cons, List.length_cons] at this ⊢
            refine ⟨by rw [this.1], ?_⟩
            rw [this.2]
            simp
          · have hn : wavNext channels sw fs ⟨data, [], false⟩ =
                (some ((data.take fs).take sw), ⟨data.drop fs, [(data.take fs).drop sw], false⟩) := by
              simp [wavNext, hd, hc]
            have := ih ⟨data.drop fs, [(data.take fs).drop sw], false⟩ (by simp)
            simp only [wavTake, hn, remaining, List.nil_append, blockReader_step fs data hd,
              sampleReader, if_neg hc, List.flatMap_cons, List.cons_append, List.take_succ_cons,
              List.length_cons] at this ⊢
            refine ⟨by rw [this.1], ?_⟩
            rw [this.2]
            simp

theorem wavTake_fresh (channels sw fs : Nat) (data : Bytes) (k : Nat) :
    (wavTake channels sw fs k ⟨data, [], false⟩).1 = (sampleReader channels sw (blockReader fs data)).take k ∧
    (wavTake channels sw fs k ⟨data, [], false⟩).2.closed =
      closedAfter (sampleReader channels sw (blockReader fs data)).length k := by
  have h := wavTake_spec channels sw fs k ⟨data, [], false⟩ (by simp)
  refine ⟨by simpa [remaining] using h.1, ?_⟩
  rw [h.2]
  unfold closedAfter
  simp only [Bool.false_or]
  apply decide_eq_decide.mpr
  simp [remaining]

end ALV.C18
