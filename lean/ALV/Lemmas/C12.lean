/-
  C12 — helper lemmas, part 1: the code-shaped evaluation of `Poly.__call__` / `freq_response`
  equals the transfer function, in every field.
-/
import ALV.Model.C12
import ALV.Spec.C12
import Mathlib.Algebra.Field.Basic
import Mathlib.Algebra.GroupWithZero.Units.Basic
import Mathlib.Algebra.BigOperators.Group.List.Basic
import Mathlib.Tactic.Ring
import Mathlib.Tactic.FieldSimp

set_option linter.unusedSectionVars false
set_option linter.unusedSimpArgs false

namespace ALV.C12
variable {K : Type} [Field K]

theorem pw_eq_pow (w : K) (k : Nat) : pw w k = w ^ k := by
  induction k with
  | zero => simp [pw]
  | succ k ih => simp [pw, ih, pow_succ]

theorem zpw_eq_zpow (w : K) (k : Int) : zpw w k = w ^ k := by
  cases k with
  | ofNat k => simp [zpw, pw_eq_pow]
  | negSucc k => simp [zpw, pw_eq_pow, zpow_negSucc]

theorem natC_eq (n : Nat) : (natC n : K) = (n : K) := by
  induction n with
  | zero => simp [natC]
  | succ n ih => simp [natC, ih]

/-- `Σ coeff * w ^ power` over the stored terms -/
def termSum (ts : Terms K) (w : K) : K := (ts.map fun t => t.2 * w ^ t.1).sum

@[simp] theorem termSum_nil (w : K) : termSum ([] : Terms K) w = 0 := rfl
@[simp] theorem termSum_cons (t : Int × K) (ts : Terms K) (w : K) :
    termSum (t :: ts) w = t.2 * w ^ t.1 + termSum ts w := by simp [termSum]

theorem termSum_append (ts us : Terms K) (w : K) :
    termSum (ts ++ us) w = termSum ts w + termSum us w := by simp [termSum]

theorem termSum_reverse (ts : Terms K) (w : K) : termSum ts.reverse w = termSum ts w := by
  induction ts with
  | nil => rfl
  | cons t ts ih => simp [termSum_append, ih, add_comm]

theorem termSum_insertTerm (t : Int × K) (us : Terms K) (w : K) :
    termSum (insertTerm t us) w = t.2 * w ^ t.1 + termSum us w := by
  induction us with
  | nil => simp [insertTerm]
  | cons u us ih =>
    simp only [insertTerm]
    split
    · simp
    · simp only [termSum_cons, ih]; ring

/-- `sorted()` only reorders the terms -/
theorem termSum_sortTerms (ts : Terms K) (w : K) : termSum (sortTerms ts) w = termSum ts w := by
  induction ts with
  | nil => rfl
  | cons t ts ih => simp [sortTerms, termSum_insertTerm, ih]

theorem evalFrom_eq_pow (w : K) (i : Nat) (c : List K) :
    evalFrom w i c = w ^ i * evalFrom w 0 c := by
  induction c generalizing i with
  | nil => simp [evalFrom]
  | cons x xs ih =>
    simp only [evalFrom, pw_eq_pow]
    rw [ih (i + 1), ih (0 + 1)]
    ring

variable [DecidableEq K]

theorem termSum_polyFrom (w : K) (i : Nat) (c : List K) :
    termSum (polyFrom i c) w = evalFrom w i c := by
  induction c generalizing i with
  | nil => simp [polyFrom, evalFrom]
  | cons x xs ih =>
    by_cases hx : x = 0
    · simp [polyFrom, evalFrom, hx, ih]
    · simp [polyFrom, evalFrom, hx, ih, pw_eq_pow]

theorem termSum_shift (p : Int) (ts : Terms K) (w : K) (hw : w ≠ 0) :
    termSum (shiftTerms p ts) w = termSum ts w / w ^ p := by
  induction ts with
  | nil => simp [shiftTerms]
  | cons t ts ih =>
    have ih' : termSum (List.map (fun t => (t.1 - p, t.2)) ts) w = termSum ts w / w ^ p := ih
    simp only [shiftTerms, List.map_cons, termSum_cons, ih', zpow_sub₀ hw]
    ring

/-! #### the three evaluation paths of `Poly.__call__` -/

theorem general_path (ts : Terms K) (w acc : K) :
    ts.foldl (fun acc t => acc + t.2 * zpw w t.1) acc = acc + termSum ts w := by
  induction ts generalizing acc with
  | nil => simp
  | cons t ts ih =>
    simp only [List.foldl_cons, termSum_cons]
    rw [ih, zpw_eq_zpow]
    ring

theorem hornerStep_fst (w : K) (o n : Int × K) : (hornerStep w o n).1 = n.1 := rfl

theorem hornerStep_val (w : K) (hw : w ≠ 0) (o n : Int × K) :
    (hornerStep w o n).2 * w ^ (hornerStep w o n).1 = n.2 * w ^ n.1 + o.2 * w ^ o.1 := by
  have hscale : (if o.1 = n.1 + 1 then w else zpw w (o.1 - n.1)) = w ^ (o.1 - n.1) := by
    split
    · next h => rw [h]; simp
    · exact zpw_eq_zpow _ _
  simp only [hornerStep, hscale]
  rw [zpow_sub₀ hw]
  have : w ^ n.1 ≠ 0 := zpow_ne_zero _ hw
  field_simp

theorem horner_path (w : K) (hw : w ≠ 0) (rest : Terms K) (t : Int × K) :
    (rest.foldl (hornerStep w) t).2 * w ^ (rest.foldl (hornerStep w) t).1
      = t.2 * w ^ t.1 + termSum rest w := by
  induction rest generalizing t with
  | nil => simp
  | cons u us ih =>
    simp only [List.foldl_cons, termSum_cons]
    rw [ih, hornerStep_val w hw]
    ring

theorem coeffAt_polyFrom_zero (i : Nat) (c : List K) :
    coeffAt (polyFrom i c) 0 = evalFrom (0 : K) i c := by
  induction c generalizing i with
  | nil => simp [polyFrom, coeffAt, evalFrom]
  | cons x xs ih =>
    have hz : evalFrom (0 : K) (i + 1) xs = 0 := by
      rw [evalFrom_eq_pow]; simp
    by_cases hx : x = 0
    · simp [polyFrom, evalFrom, hx, ih]
    · cases i with
      | zero => simp [polyFrom, evalFrom, hx, coeffAt, pw, hz]
      | succ j =>
        have : ¬ ((j : Int) + 1 = 0) := by omega
        simp [polyFrom, evalFrom, hx, coeffAt, pw_eq_pow, ih, hz, this]

/-- **`Poly.__call__` at a non-zero point is the sum of its terms**, whichever path is taken. -/
theorem evalPoly_termSum (ts : Terms K) (w : K) (hw : w ≠ 0) : evalPoly ts w = termSum ts w := by
  cases ts with
  | nil => simp [evalPoly]
  | cons t ts =>
    simp only [evalPoly, hw, if_false]
    split
    · -- Horner
      have hrev := termSum_reverse (sortTerms (t :: ts)) w
      rw [termSum_sortTerms] at hrev
      generalize (sortTerms (t :: ts)).reverse = r at hrev
      cases r with
      | nil => rw [← hrev]; rfl
      | cons u us =>
        simp only [zpw_eq_zpow]
        rw [horner_path w hw, ← hrev, termSum_cons]
    · rw [general_path, termSum_sortTerms]; simp

/-- `Poly(c)(w)` is `Σ c_k w^k` for every `w` (also `w = 0`). -/
theorem evalPoly_polyFrom (c : List K) (w : K) : evalPoly (polyFrom 0 c) w = evalDirect c w := by
  by_cases hw : w = 0
  · subst hw
    cases h : polyFrom 0 c with
    | nil =>
      have := termSum_polyFrom (0 : K) 0 c
      rw [h] at this
      simp [evalPoly, evalDirect, ← this]
    | cons t ts =>
      have := coeffAt_polyFrom_zero 0 c
      rw [h] at this
      simp [evalPoly, evalDirect, this]
  · rw [evalPoly_termSum _ _ hw, termSum_polyFrom]; rfl

theorem evalPoly_shift_polyFrom (p : Int) (c : List K) (w : K) (hw : w ≠ 0) :
    evalPoly (shiftTerms p (polyFrom 0 c)) w = evalDirect c w / w ^ p := by
  rw [evalPoly_termSum _ _ hw, termSum_shift _ _ _ hw, termSum_polyFrom]; rfl

/-! #### the constructor -/

theorem minKey_eq_none (ts : Terms K) : minKey ts = none ↔ ts = [] := by
  cases ts with
  | nil => simp [minKey]
  | cons t ts =>
    obtain ⟨k, c⟩ := t
    simp only [minKey]
    cases minKey ts <;> simp

theorem polyFrom_eq_nil (i : Nat) (c : List K) :
    polyFrom i c = [] ↔ c.all (fun x => decide (x = 0)) = true := by
  induction c generalizing i with
  | nil => simp [polyFrom]
  | cons x xs ih =>
    by_cases hx : x = 0
    · simp [polyFrom, hx, ih]
    · simp [polyFrom, hx]

theorem minKey_isNone (ts : Terms K) : minKey ts = none ↔ ts.isEmpty = true := by
  rw [minKey_eq_none]; cases ts <;> simp

/-- the constructor's normalisation followed by `freq_response`, for arbitrary stored terms -/
theorem resp_finishFilter (num den : Terms K) (w : K) (hw : w ≠ 0) :
    respOfMk (finishFilter num den) w
      = if den.isEmpty then Resp.valueError
        else if termSum den w = 0 then Resp.nan
        else Resp.val (termSum num w / termSum den w) := by
  unfold finishFilter respOfMk
  cases hm : minKey den with
  | none =>
    have := (minKey_isNone den).1 hm
    simp only [this, if_true]
  | some p =>
    have hne : ¬ (den.isEmpty = true) := by
      intro h
      rw [(minKey_isNone den).2 h] at hm; cases hm
    have hp : w ^ p ≠ 0 := zpow_ne_zero _ hw
    simp only [hne, if_false, Bool.false_eq_true]
    by_cases hp0 : p = 0
    · simp only [ne_eq, hp0, not_true_eq_false, if_false, freqResponse, evalPoly_termSum _ _ hw]
      by_cases hd : termSum den w = 0
      · simp [hd]
      · simp [hd]
    · simp only [ne_eq, hp0, not_false_eq_true, if_true, freqResponse, evalPoly_termSum _ _ hw,
        termSum_shift _ _ _ hw]
      by_cases hd : termSum den w = 0
      · simp [hd]
      · have : termSum den w / w ^ p ≠ 0 := div_ne_zero hd hp
        simp only [this, hd, if_false]
        congr 1
        field_simp

theorem polyFrom_isEmpty (i : Nat) (c : List K) :
    (polyFrom i c).isEmpty = c.all (fun x => decide (x = 0)) := by
  have := polyFrom_eq_nil i c
  cases h : polyFrom i c with
  | nil => rw [h] at this; simp [this.1 rfl]
  | cons t ts =>
    rw [h] at this
    simp only [List.isEmpty_cons]
    cases hc : c.all (fun x => decide (x = 0)) with
    | false => rfl
    | true => exact absurd (this.2 hc) (by simp)

/-- **freq_response is the transfer function** (any field, any non-zero point). -/
theorem respOfFilter_eq_spec (b a : List K) (w : K) (hw : w ≠ 0) :
    respOfFilter b a w = respSpec b a w := by
  unfold respOfFilter mkFilter
  rw [resp_finishFilter _ _ _ hw, polyFrom_isEmpty, termSum_polyFrom, termSum_polyFrom]
  unfold respSpec Hspec evalDirect
  split
  · rfl
  · split <;> rfl

/-! #### filters given as `{delay: coefficient}` dicts -/

theorem termSum_compact (ts : Terms K) (w : K) : termSum (compact ts) w = termSum ts w := by
  induction ts with
  | nil => rfl
  | cons t ts ih =>
    have ih' : termSum (List.filter (fun t => !decide (t.2 = 0)) ts) w = termSum ts w := ih
    by_cases ht : t.2 = 0
    · simp [compact, List.filter_cons, ht, ih']
    · simp [compact, List.filter_cons, ht, ih']

theorem compact_isEmpty (ts : Terms K) :
    (compact ts).isEmpty = ts.all (fun t => decide (t.2 = 0)) := by
  induction ts with
  | nil => rfl
  | cons t ts ih =>
    have ih' : (List.filter (fun t => !decide (t.2 = 0)) ts).isEmpty = ts.all (fun t => decide (t.2 = 0)) := ih
    by_cases ht : t.2 = 0
    · simp [compact, List.filter_cons, ht, ih']
    · simp [compact, List.filter_cons, ht]

theorem evalTerms_eq (ts : Terms K) (w : K) : evalTerms ts w = termSum ts w := by
  induction ts with
  | nil => rfl
  | cons t ts ih => simp [evalTerms, ih, zpw_eq_zpow]

/-- **freq_response of a dict-defined (possibly non-causal, sparse, unordered) filter** -/
theorem respOfTerms_eq_spec (num den : Terms K) (w : K) (hw : w ≠ 0) :
    respOfTerms num den w = respSpecTerms num den w := by
  unfold respOfTerms mkFilterTerms
  rw [resp_finishFilter _ _ _ hw, compact_isEmpty, termSum_compact, termSum_compact]
  unfold respSpecTerms HspecTerms
  simp only [evalTerms_eq]
  split
  · rfl
  · split <;> rfl

/-- a denominator whose constant term is stored: no shift, the equality holds at every point -/
theorem respOfFilter_eq_spec_of_head (b a : List K) (a0 : K) (h0 : a0 ≠ 0) (w : K) :
    respOfFilter b (a0 :: a) w = respSpec b (a0 :: a) w := by
  unfold respOfFilter respOfMk respSpec mkFilter finishFilter
  have hmin : minKey (polyFrom 0 (a0 :: a)) = some 0 := by
    simp only [polyFrom, h0, if_false]
    -- every later key is ≥ 1
    have key : ∀ (i : Nat) (c : List K) (m : Int), minKey (polyFrom (i + 1) c) = some m → 0 ≤ m := by
      intro i c
      induction c generalizing i with
      | nil => simp [polyFrom, minKey]
      | cons x xs ih =>
        intro m
        by_cases hx : x = 0
        · simpa [polyFrom, hx] using ih (i + 1) m
        · simp only [polyFrom, hx, if_false, minKey]
          cases hmk : minKey (polyFrom (i + 1 + 1) xs) with
          | none => simp; omega
          | some m' =>
            have := ih (i + 1) m' hmk
            simp only [Option.some.injEq]
            split <;> omega
    simp only [minKey]
    cases hmk : minKey (polyFrom (0 + 1) a) with
    | none => simp
    | some m =>
      have := key 0 a m hmk
      simp [this]
  simp [hmin, h0, freqResponse, Hspec, evalPoly_polyFrom]
  split <;> rename_i h <;> rw [h]

end ALV.C12
