/-
  C19 — helper lemmas for the duration / piecewise-linear generators
  (`line`, fades, `ones`, `zeros`, `impulse`, `adsr`, `attack`).
-/
import ALV.Lemmas.C19
import Mathlib.Tactic.NormNum

namespace ALV.C19
set_option linter.unusedSectionVars false

variable {K : Type} [Field K] [LinearOrder K] [IsStrictOrderedRing K] [FloorRing K]

theorem floor_def (x : K) : (Floor.floor x : ℤ) = ⌊x⌋ := rfl

theorem half_eq : (half : K) = 1 / 2 := by rw [half, one_add_one_eq_two]

theorem pyInt_of_nonneg {x : K} (h : 0 ≤ x) : pyInt x = ⌊x⌋ := by
  simp [pyInt, not_lt.mpr h, floor_def]

/-- truncation and floor give the same `xrange` length -/
theorem pyLen_eq (x : K) : pyLen x = ⌊x⌋.toNat := by
  unfold pyLen pyInt
  split
  · next h =>
    have h1 : ⌊x⌋ < 0 := by
      rw [Int.floor_lt]; simpa using h
    have h2 : 0 ≤ ⌊-x⌋ := Int.floor_nonneg.mpr (by linarith)
    rw [floor_def]; omega
  · rfl

theorem pyLen_half (x : K) : pyLen (x + half) = durLen x := pyLen_eq _

theorem pyInt_half_nonneg {x : K} (h : 0 ≤ x) : 0 ≤ pyInt (x + half) := by
  have : (0 : K) ≤ x + half := by rw [half_eq]; linarith
  rw [pyInt_of_nonneg this]; exact Int.floor_nonneg.mpr this

theorem pyInt_half_toNat (x : K) : (pyInt (x + half)).toNat = durLen x := pyLen_eq _

/-! ### list glue -/

theorem map_range_add {β : Type} (g : Nat → β) (a b : Nat) :
    (List.range (a + b)).map g = (List.range a).map g ++ (List.range b).map fun j => g (a + j) := by
  rw [List.range_add, List.map_append, List.map_map]; rfl

theorem cons_replicate_eq_map_range {β : Type} (one zero : β) (k : Nat) :
    one :: List.replicate k zero = (List.range (k + 1)).map fun i => if i = 0 then one else zero := by
  rw [Nat.add_comm, map_range_add]
  simp only [List.range_one, List.map_cons, List.map_nil, List.singleton_append]
  congr 1
  symm
  rw [List.eq_replicate_iff]
  simp

theorem take_map_range {β : Type} (g : Nat → β) (n m : Nat) :
    ((List.range m).map g).take n = (List.range (min n m)).map g := by
  rw [← List.map_take, List.take_range]

/-! ### generators -/

theorem line_ok (dur b e : K) (fin : Bool) (h : dur - (if fin then 1 else 0) ≠ 0) :
    line dur b e fin = .ok (lineSpec dur b e fin) := by
  unfold line lineSpec
  simp only [h, if_false, pyLen_half]
  congr 1
  apply List.map_congr_left
  intro i _
  rw [mul_div_assoc]

theorem line_err (dur b e : K) (fin : Bool) (h : dur - (if fin then 1 else 0) = 0) :
    line dur b e fin = .error "ZeroDivisionError" := by
  unfold line; simp [h]

theorem constGen_eq (v : K) (dur : Option K) (n : Nat) : constGen v dur n = constSpec v dur n := by
  rcases dur with _ | d
  · rfl
  · simp only [constGen, constSpec, add_comm half d, pyLen_half, List.take_replicate]

theorem durLen_of_lt_half {d : K} (h : d < half) : durLen d = 0 := by
  unfold durLen
  rw [floor_def]
  have : ⌊d + half⌋ < 1 := by
    rw [Int.floor_lt]; rw [half_eq] at *; push_cast; linarith
  omega

theorem durLen_of_ge_half {d : K} (h : ¬ d < half) : durLen d = pyLen (d - half) + 1 := by
  have h0 : (0 : K) ≤ d - half := by linarith [not_lt.mp h]
  have e : d + half = (d - half) + ((1 : ℤ) : K) := by rw [half_eq]; push_cast; ring
  rw [pyLen_eq, durLen, floor_def, e, Int.floor_add_intCast]
  have := Int.floor_nonneg.mpr h0
  omega

theorem impulse_eq {β : Type} (dur : Option K) (one zero : β) (n : Nat) :
    impulse dur one zero n = impulseSpec dur one zero n := by
  rcases dur with _ | d
  · simp only [impulse, impulseSpec]
    rcases n with _ | n
    · simp
    · rw [cons_replicate_eq_map_range, take_map_range]; simp
  · simp only [impulse, impulseSpec]
    split
    · next h => simp [durLen_of_lt_half h]
    · next h =>
      rw [cons_replicate_eq_map_range, take_map_range, durLen_of_ge_half h]

theorem adsr_ok (dur a d s r : K) (ha : 0 < a) (hd : 0 < d) (hr : 0 < r) :
    adsr dur a d s r = .ok (adsrSpec dur a d s r) := by
  unfold adsr adsrSpec
  have hn : ¬ (a = 0 ∨ d = 0 ∨ r = 0) := by
    rintro (h | h | h) <;> simp [h] at ha hd hr
  simp only [hn, if_false]
  have la := pyInt_half_nonneg ha.le
  have ld := pyInt_half_nonneg hd.le
  have lr := pyInt_half_nonneg hr.le
  have ea := pyInt_half_toNat a
  have ed := pyInt_half_toNat d
  have er := pyInt_half_toNat r
  have edur := pyInt_half_toNat dur
  have els : (pyInt (dur + half) - pyInt (a + half) - pyInt (d + half) - pyInt (r + half)).toNat
      = durLen dur - durLen a - durLen d - durLen r := by omega
  rw [els, ea, ed, er]
  generalize durLen a = A
  generalize durLen d = D
  generalize durLen r = R
  generalize durLen dur - A - D - R = S
  congr 1
  rw [map_range_add, map_range_add, map_range_add]
  congr 1
  · congr 1
    · congr 1
      · apply List.map_congr_left
        intro i hi
        have : i < A := List.mem_range.mp hi
        simp [adsrAt, this, div_eq_mul_inv]
      · apply List.map_congr_left
        intro i hi
        have : i < D := List.mem_range.mp hi
        simp only [adsrAt, Nat.not_lt.mpr (Nat.le_add_right A i), if_false,
          Nat.add_lt_add_left this A, if_true, Nat.add_sub_cancel_left, mul_div_assoc]
    · symm
      rw [List.eq_replicate_iff]
      refine ⟨by simp, ?_⟩
      intro x hx
      obtain ⟨i, hi, rfl⟩ := List.mem_map.mp hx
      have : i < S := List.mem_range.mp hi
      have h1 : ¬ (A + D + i < A) := by omega
      have h2 : ¬ (A + D + i < A + D) := by omega
      have h3 : A + D + i < A + D + S := by omega
      simp [adsrAt, h1, h2, h3]
  · apply List.map_congr_left
    intro i hi
    have h1 : ¬ (A + D + S + i < A) := by omega
    have h2 : ¬ (A + D + S + i < A + D) := by omega
    have h3 : ¬ (A + D + S + i < A + D + S) := by omega
    have h4 : A + D + S + i - A - D - S = i := by omega
    simp only [adsrAt, h1, h2, h3, if_false, h4]
    ring

theorem adsr_err (dur a d s r : K) (h : a = 0 ∨ d = 0 ∨ r = 0) :
    adsr dur a d s r = .error "ZeroDivisionError" := by
  unfold adsr; simp [h]

/-- with enough room for attack, decay and release the envelope lasts `durLen dur` samples -/
theorem adsrSpec_length (dur a d s r : K) (h : durLen a + durLen d + durLen r ≤ durLen dur) :
    (adsrSpec dur a d s r).length = durLen dur := by
  simp [adsrSpec]; omega

theorem attack_head (a d s0 : K) :
    ((List.range (pyLen (a + half))).map fun (i : Nat) => ((i : Int) : K) * (1 / a))
      ++ ((List.range (pyLen (d + half))).map fun (i : Nat) => 1 + ((i : Int) : K) * ((s0 - 1) / d))
    = (List.range (durLen a + durLen d)).map fun (i : Nat) =>
        if i < durLen a then (((i : Int) : K)) / a
        else 1 + ((((i - durLen a : Nat) : Int) : K)) * (s0 - 1) / d := by
  rw [pyLen_half, pyLen_half, map_range_add]
  congr 1
  · apply List.map_congr_left
    intro i hi
    have : i < durLen a := List.mem_range.mp hi
    simp [this, div_eq_mul_inv]
  · apply List.map_congr_left
    intro i _
    simp only [Nat.not_lt.mpr (Nat.le_add_right (durLen a) i), if_false,
      Nat.add_sub_cancel_left, mul_div_assoc]

theorem attack_num_ok (a d x : K) (n : Nat) (ha : a ≠ 0) (hd : d ≠ 0) :
    attack a d (.num x) n = .ok (attackSpec a d x (List.replicate n x) n) := by
  simp only [attack, attackSpec, ha, hd, or_self, if_false, attack_head]

theorem attack_strm_ok (a d x : K) (xs : List K) (n : Nat) (ha : a ≠ 0) (hd : d ≠ 0) :
    attack a d (.strm (x :: xs)) n = .ok (attackSpec a d x xs n) := by
  simp only [attack, attackSpec, ha, hd, or_self, if_false, attack_head, List.head?_cons,
    List.tail_cons]

/-! ### `rint` (duration of the noise generators) -/

theorem rint_toNat (x : K) : (rint x).toNat = durLen x := by
  unfold rint durLen
  simp only [floor_def]
  have hfl := Int.floor_le x
  have hlt := Int.lt_floor_add_one x
  have herr : (half : K) / (1 + 1 + 1 + 1 + 1) = 1 / 10 := by rw [half_eq]; norm_num
  rw [herr, half_eq]
  rcases lt_trichotomy x 0 with hx | hx | hx
  · -- negative: no sample either way
    have hd : ⌊x⌋ ≤ -1 := by
      have : ⌊x⌋ < 0 := Int.floor_lt.mpr (by simpa using hx)
      omega
    have hdK : ((⌊x⌋ : ℤ) : K) ≤ -1 := by exact_mod_cast hd
    have h1 : ⌊x + 1 / 2⌋ ≤ 0 := by
      have : ⌊x + 1 / 2⌋ < 1 := Int.floor_lt.mpr (by push_cast; linarith)
      omega
    have h2 : ∀ b : Bool, pyInt (if b = true then ((⌊x⌋ : ℤ) : K) - 1 / 10 + 1 else ((⌊x⌋ : ℤ) : K) - 1 / 10) ≤ 0 := by
      intro b
      have hneg : (if b = true then ((⌊x⌋ : ℤ) : K) - 1 / 10 + 1 else ((⌊x⌋ : ℤ) : K) - 1 / 10) < 0 := by
        split <;> linarith
      unfold pyInt
      rw [if_pos hneg]
      have : 0 ≤ ⌊-(if b = true then ((⌊x⌋ : ℤ) : K) - 1 / 10 + 1 else ((⌊x⌋ : ℤ) : K) - 1 / 10)⌋ :=
        Int.floor_nonneg.mpr (by linarith)
      rw [floor_def]; omega
    simp only [not_lt.mpr hx.le, if_false, hx, if_true]
    have := h2 (decide (1 < (1 + 1) * (x - ((⌊x⌋ : ℤ) : K))))
    omega
  · subst hx
    have e0 : ⌊(0 : K) + 1 / 2⌋ = 0 := by rw [Int.floor_eq_iff]; norm_num
    have hdec : decide (¬ ((1 : K) + 1) * ((0 : K) - ((⌊(0 : K)⌋ : ℤ) : K)) < 1) = false :=
      decide_eq_false (not_not_intro (by simp))
    simp only [lt_irrefl, if_false, hdec, Bool.false_eq_true, e0]
    simp [pyInt, floor_def]
  · have hd : 0 ≤ ⌊x⌋ := Int.floor_nonneg.mpr hx.le
    have hdK : (0 : K) ≤ ((⌊x⌋ : ℤ) : K) := by exact_mod_cast hd
    simp only [hx, if_true, not_lt.mpr hx.le, if_false]
    by_cases hup : ((1 : K) + 1) * (x - ((⌊x⌋ : ℤ) : K)) < 1
    · have e1 : ⌊x + 1 / 2⌋ = ⌊x⌋ := by
        rw [Int.floor_eq_iff]; constructor <;> linarith
      have e2 : pyInt (((⌊x⌋ : ℤ) : K) + 1 / 10) = ⌊x⌋ := by
        rw [pyInt_of_nonneg (by linarith), Int.floor_eq_iff]; constructor <;> linarith
      rw [decide_eq_false (not_not_intro hup)]
      simp only [Bool.false_eq_true, if_false, e1, e2]
    · have e1 : ⌊x + 1 / 2⌋ = ⌊x⌋ + 1 := by
        rw [Int.floor_eq_iff]; push_cast; constructor <;> linarith
      have e2 : pyInt (((⌊x⌋ : ℤ) : K) + 1 / 10 + 1) = ⌊x⌋ + 1 := by
        rw [pyInt_of_nonneg (by linarith), Int.floor_eq_iff]; push_cast; constructor <;> linarith
      rw [decide_eq_true hup]
      simp only [if_true, e1, e2]

end ALV.C19
