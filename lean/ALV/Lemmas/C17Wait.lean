/-
  C17 — `wait=True`: `close` never stops a player, so a player is only ever halted by a `stop()`
  call of the script itself.  Core Lean only.
-/
import ALV.Lemmas.C17Live
namespace ALV.C17

/-- the control script is inside the `thread.stop()` that `close` issues when `wait` is false -/
def inCloseStop : MPc → Bool
  | .kSAcq _ | .kSEvt _ | .kSRel _ => true
  | _ => false

theorem inCloseStop_of_closeBody {m : MPc} (h : closeBody m = false) : inCloseStop m = false := by
  cases m <;> simp_all [closeBody, inCloseStop]

structure HN (s : State) : Prop where
  noStop : inCloseStop s.mpc = false
  noHalt : ∀ (k : Nat) (p : Player), s.players[k]? = some p → p.halting = false

/-- every record of `l'` comes from one of `l` with the same `halting` -/
def HBack (l l' : List Player) : Prop :=
  ∀ (k : Nat) (q' : Player), l'[k]? = some q' → ∃ q, l[k]? = some q ∧ q'.halting = q.halting

theorem hback_refl (l : List Player) : HBack l l := fun _ q h => ⟨q, h, rfl⟩

theorem hback_set {l : List Player} {i : Nat} {p p' : Player} (hp : l[i]? = some p)
    (hh : p'.halting = p.halting) : HBack l (l.set i p') := by
  intro k q' hk
  rcases getElem?_set_cases hk with ⟨hki, hq⟩ | ⟨hki, hq⟩
  · subst hki; subst hq; exact ⟨p, hp, hh⟩
  · exact ⟨q', hq, rfl⟩

theorem hn_frame {s s' : State} (inv : HN s) (hb : HBack s.players s'.players)
    (hm : inCloseStop s'.mpc = false) : HN s' := by
  refine ⟨hm, ?_⟩
  intro k q' hk
  obtain ⟨q, hq, hh⟩ := hb k q' hk
  rw [hh]; exact inv.noHalt k q hq

theorem hn_stepMain (cfg : Cfg) (s s' : State) (h : stepMain cfg s = some s')
    (hw : cfg.wait = true) (hns : ∀ i, s.mpc ≠ .cAcq .stop i) (inv : HN s) : HN s' := by
  have hno := inv.noStop
  unfold stepMain at h
  cases hm : s.mpc <;> simp only [hm] at h hns hno
  case kSAcq i => simp [inCloseStop] at hno
  case kSEvt i => simp [inCloseStop] at hno
  case kSRel i => simp [inCloseStop] at hno
  case pAcq a =>
    split at h
    · cases h
    split at h
    · cases h; exact hn_frame inv (hback_refl _) rfl
    · cases h
      refine ⟨rfl, ?_⟩
      intro k q hk
      by_cases hlt : k < s.players.length
      · exact inv.noHalt k q (by simpa [List.getElem?_append_left hlt] using hk)
      · by_cases heq : k = s.players.length
        · subst heq; simp at hk; subst hk; rfl
        · simp only at hk
          rw [List.getElem?_eq_none (by simp; omega)] at hk; cases hk
  case cAcq c i =>
    split at h
    · rename_i p hp
      split at h
      · cases h
      cases h
      refine hn_frame inv ?_ rfl
      simp only [setP]
      refine hback_set hp ?_
      have : c ≠ .stop := fun e => hns i (by rw [e])
      cases c <;> simp_all
    · cases h
  case kMRel f =>
    cases f with
    | none => simp only at h; split at h <;> cases h <;> exact hn_frame inv (hback_refl _) rfl
    | some j => simp only [hw] at h; cases h; exact hn_frame inv (hback_refl _) rfl
  all_goals
    (try split at h) <;> (try split at h) <;> (try split at h) <;> (try cases h) <;>
    (refine hn_frame inv ?_ ?_
     · first
         | exact hback_refl _
         | (simp only [next_players, nextCmd_players, setP]
            first
              | exact hback_refl _
              | exact hback_set (by assumption) (by rfl))
     · first
         | exact inCloseStop_of_closeBody (next_startPc _ _).2.2.2.1
         | exact inCloseStop_of_closeBody (nextCmd_startPc _ _).2.2.2.1
         | rfl)

/-- `wait=True` and no `stop()` call in the script: no player is ever halted -/
theorem hn_reach {cfg : Cfg} {script : List Cmd} {s : State} (hw : cfg.wait = true)
    (hns : ∀ i, Cmd.ctl .stop i ∉ script) (h : Reach cfg script s) : HN s := by
  induction h with
  | init => exact ⟨rfl, by intro k p hk; simp [init] at hk⟩
  | step hr hs ih =>
    rename_i s s' t
    cases t with
    | main =>
      refine hn_stepMain cfg s s' hs hw ?_ ih
      intro i hm
      exact hns i ((scr_reach hr).cur _ (by rw [hm]; rfl))
    | player j =>
      obtain ⟨h1, _⟩ := stepPlayer_frame cfg s s' j hs
      obtain ⟨p, p', hp, hs', hgo, hh, _⟩ := stepPlayer_shape cfg s s' j hs
      refine hn_frame ih ?_ (by rw [h1]; exact ih.noStop)
      rw [hs']
      exact hback_set hp hh

end ALV.C17
