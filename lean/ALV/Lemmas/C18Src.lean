/-
  C18 — lemmas for the translator theorems (`src_*_is_model` in `Props/C18.lean`): the regenerated
  definitions of `ALV/Gen/C18Src.lean` are the hand-written model functions.  Core Lean only.
-/
import ALV.Gen.C18Src
import ALV.Lemmas.C18Chunks
namespace ALV.C18

/-! ### the `_unpackers` table as programs -/

theorem unpacker_eq_table (bits : Nat) : unpacker bits = (lookupNat bits unpackersModel).map IExp.run := by
  unfold unpacker unpackersModel
  by_cases h8 : bits = 8
  · subst h8; rfl
  by_cases h16 : bits = 16
  · subst h16; rfl
  by_cases h24 : bits = 24
  · subst h24; rfl
  by_cases h32 : bits = 32
  · subst h32; rfl
  simp [lookupNat, h8, h16, h24, h32]

theorem unpacker8_run : IExp.run unpacker8Model = fun v => (unpack8 v).map fun (n : Int) => n - 128 := rfl

/-! ### `data_generator` -/

section norm
variable {K : Type} [IntCast K] [Div K]

theorem trueDiv_shift (bits : Nat) (n : Int) : (trueDiv n (1 <<< (bits - 1)) : K) = normalise bits n := by
  unfold trueDiv normalise
  rw [Nat.one_shiftLeft, Int.natCast_pow]
  rfl

theorem gen_dataGenerator_eq (bits : Nat) (keep : Bool) (samples : List Bytes) :
    (ALV.Gen.C18.dataGenerator bits keep samples : Gen (Sample K) WavErr) = dataGenerator bits keep samples := by
  unfold ALV.Gen.C18.dataGenerator dataGenerator
  have hu : ALV.Gen.C18.unpackers = unpackersModel := by decide
  rw [hu, unpacker_eq_table]
  cases hl : lookupNat bits unpackersModel with
  | none => rfl
  | some p =>
    simp only [Option.map_some]
    cases keep with
    | true => rfl
    | false =>
      simp only [Bool.false_eq_true, if_false, trueDiv_shift]
      by_cases h8 : bits = 8
      · simp only [h8, if_true]
        rfl
      · simp only [h8, if_false]

end norm

/-! ### `chunks.struct` -/

theorem blocks_lengths {α : Type} (size : Nat) (hs : 0 < size) (pad : α) (xs : List α) :
    ∀ b ∈ ALV.C08.blocks size size pad xs, b.length = size := by
  have inv : ALV.C08.BInv size (⟨[], 0⟩ : ALV.C08.BState α) := ⟨by simpa using hs, by simp, fun _ => by simp⟩
  have hb : ALV.C08.blocks size size pad xs = ALV.C08.blocksSpec size size pad xs := by
    have := ALV.C08.bloop_spec size size hs hs pad xs ⟨[], 0⟩ inv
    simpa [ALV.C08.blocks, ALV.C08.virt, ALV.C08.lastN] using this
  rw [hb, blocksSpec_eq_split size hs pad _ xs rfl]
  refine splitEvery_lengths size hs _ _ rfl ?_
  unfold padded
  rw [List.length_append, List.length_replicate]
  exact padLen_dvd size xs.length hs

theorem genMap_congr_someErr {α β ε : Type} (F : α → Except (Option ε) β) (G : α → Except ε β) :
    ∀ l : List α, (∀ x ∈ l, F x = liftErr (G x)) →
      genMap F l = (genMap G l).someErr := by
  intro l
  induction l with
  | nil => intro _; rfl
  | cons x xs ih =>
    intro h
    have hx := h x (List.mem_cons_self ..)
    have ih' := ih fun y hy => h y (List.mem_cons_of_mem _ hy)
    rw [genMap, genMap, hx]
    cases G x with
    | error e => rfl
    | ok b => simp only [ih']; rfl

theorem gen_chunksStruct_eq (native : Order) (a : OrderArg) (fmt : Fmt) (size : Nat) (hs : 0 < size)
    (pad : PVal) (xs : List PVal) :
    ALV.Gen.C18.chunksStruct native a fmt size pad xs = (chunksStructPy native a fmt size pad xs).someErr := by
  unfold ALV.Gen.C18.chunksStruct chunksStructPy chunksStruct
  apply genMap_congr_someErr
  intro b hb
  have hl := blocks_lengths size hs pad xs b hb
  cases a <;> simp [OrderArg.isNone, mkStruct, packWith, StructStr.pack, hl, OrderArg.order, resolveOrder]

/-! ### the byte-order table of `chunks.array` -/

theorem orderGet_model (native : Order) (a : OrderArg) :
    orderGet orderTableModel native a = resolveOrder native a.order := by
  cases a <;> rfl

end ALV.C18
