/-
  C17 — liveness of `close`: the invariants that were missing (handle range, origin of the
  pending call in the script, "stop() of the repaired code leaves `go` set", "without pause calls
  nobody ever waits on `go`", "`go` flags are not cleared inside `close`"), and from them the
  analysis of the terminal states: the only way a run can end with somebody unfinished is the
  control script joining (`th.join()` of the script, or `thread.join()` inside `close`) a player
  that is blocked in `go.wait()` on a cleared event.  Core Lean only.
-/
import ALV.Lemmas.C17Measure
import ALV.Lemmas.C17Close
namespace ALV.C17

/-! ### handles are in range -/

theorem range_stepMain (cfg : Cfg) (s s' : State) (h : stepMain cfg s = some s') (th : TH s)
    (inv : ∀ i, mainRef s.mpc = some i → i < s.players.length) :
    ∀ i, mainRef s'.mpc = some i → i < s'.players.length := by
  unfold stepMain at h
  cases hm : s.mpc <;> simp only [hm] at h inv
  case kMAcq =>
    split at h
    · cases h
    cases h
    intro i hi
    cases hh : s.threads.head? with
    | none => rw [hh] at hi; cases hi
    | some j =>
      rw [hh] at hi
      simp only [mainRef, Option.some.injEq] at hi
      subst hi
      have hmem : j ∈ s.threads := by
        cases ht : s.threads with
        | nil => rw [ht] at hh; cases hh
        | cons a l => rw [ht] at hh; simp at hh; subst hh; simp
      obtain ⟨q, hq, _⟩ := th.live j hmem
      exact lt_of_getElem? hq
  all_goals
    (try split at h) <;> (try split at h) <;> (try split at h) <;> (try cases h) <;>
    (first
      | (intro i hi
         have := (next_startPc _ _).2.2.2.2.2.2.2.2.2 i hi
         simpa [setP] using this)
      | (intro i hi
         have := (nextCmd_startPc _ _).2.2.2.2.2.2.2.2.2 i hi
         simpa [setP] using this)
      | (simp_all [mainRef, setP]; done)
      | (intro i hi; cases hw : cfg.wait <;> simp_all [mainRef]; done))

theorem range_reach {cfg : Cfg} {script : List Cmd} {s : State} (h : Reach cfg script s) :
    ∀ i, mainRef s.mpc = some i → i < s.players.length := by
  induction h with
  | init => intro i hi; simp [init, mainRef] at hi
  | step hr hs ih =>
    rename_i s s' t
    cases t with
    | main => exact range_stepMain cfg s s' hs (th_reach hr) ih
    | player j =>
      obtain ⟨h1, _, _, _, _, _, h7⟩ := stepPlayer_frame cfg s s' j hs
      rw [h1, h7]; exact ih

/-! ### where the pending call comes from -/

/-- the call of the script the control thread is executing, for the calls on a thread handle -/
def curCmd : MPc → Option Cmd
  | .cAcq k i | .cEvt k i | .cRel k i => some (.ctl k i)
  | .jJoin i => some (.join i)
  | _ => none

/-- the control thread is inside `close` -/
def inClose (m : MPc) : Bool := m == .kHAcq || closeBody m

structure SCR (script : List Cmd) (s : State) : Prop where
  sub : ∀ c, c ∈ s.script → c ∈ script
  cur : ∀ c, curCmd s.mpc = some c → c ∈ script
  doneNil : s.mpc = .done → s.script = []
  closeSeen : Cmd.close ∈ script → Cmd.close ∈ s.script ∨ inClose s.mpc = true ∨
    (∃ al n, Ev.closeOk al n ∈ s.log) ∨ Ev.closeAssertionError ∈ s.log

theorem scr_nextCmd (sc : List Cmd) : ∀ (X : State),
    (∀ c, c ∈ (nextCmd X sc).script → c ∈ sc) ∧
    (∀ c, curCmd (nextCmd X sc).mpc = some c → c ∈ sc) ∧
    ((nextCmd X sc).mpc = .done → (nextCmd X sc).script = []) ∧
    (Cmd.close ∈ sc → Cmd.close ∈ (nextCmd X sc).script ∨ (nextCmd X sc).mpc = .kHAcq) := by
  induction sc with
  | nil => intro X; simp [nextCmd, curCmd]
  | cons c rest ih =>
    intro X
    cases c with
    | play a => simp [nextCmd, curCmd]; intro c hc; exact Or.inr hc
    | close => simp [nextCmd, curCmd]; intro c hc; exact Or.inr hc
    | ctl k i =>
      simp only [nextCmd]; split
      · simp [curCmd]; intro c hc; exact Or.inr hc
      · obtain ⟨a, b, c, d⟩ := ih { X with log := X.log ++ [.skipped] }
        refine ⟨fun x hx => List.mem_cons_of_mem _ (a x hx), fun x hx => List.mem_cons_of_mem _ (b x hx),
          c, fun hx => d ?_⟩
        simpa using hx
    | join i =>
      simp only [nextCmd]; split
      · simp [curCmd]; intro c hc; exact Or.inr hc
      · obtain ⟨a, b, c, d⟩ := ih { X with log := X.log ++ [.skipped] }
        refine ⟨fun x hx => List.mem_cons_of_mem _ (a x hx), fun x hx => List.mem_cons_of_mem _ (b x hx),
          c, fun hx => d ?_⟩
        simpa using hx

/-- a step that stays inside the current call -/
theorem scr_same {script : List Cmd} {s s' : State} (inv : SCR script s)
    (hsc : s'.script = s.script) (hlog : s'.log = s.log)
    (hcur : ∀ c, curCmd s'.mpc = some c → curCmd s.mpc = some c) (hnd : s'.mpc ≠ .done)
    (hcl : inClose s.mpc = true → inClose s'.mpc = true) : SCR script s' := by
  refine ⟨by rw [hsc]; exact inv.sub, fun c hc => inv.cur c (hcur c hc), fun h => absurd h hnd, ?_⟩
  intro hc
  rw [hsc, hlog]
  rcases inv.closeSeen hc with h | h | h
  · exact Or.inl h
  · exact Or.inr (Or.inl (hcl h))
  · exact Or.inr (Or.inr h)

/-- a step that ends the current call and fetches the next one -/
theorem scr_nextCmd' {script : List Cmd} {s X : State} (inv : SCR script s)
    (hsc : X.script = s.script)
    (hlog : ∀ e, e ∈ s.log → e ∈ X.log)
    (hcl : inClose s.mpc = true → (∃ al n, Ev.closeOk al n ∈ X.log) ∨ Ev.closeAssertionError ∈ X.log) :
    SCR script (nextCmd X X.script) := by
  obtain ⟨a, b, c, d⟩ := scr_nextCmd X.script X
  rw [hsc] at a b d
  refine ⟨fun x hx => inv.sub x (a x (by rw [← hsc]; exact hx)),
    fun x hx => inv.sub x (b x (by rw [← hsc]; exact hx)), c, ?_⟩
  intro hc
  have mono : ∀ e, e ∈ X.log → e ∈ (nextCmd X X.script).log := fun e he =>
    mem_nextCmd_log_of_mem e _ _ he
  rcases inv.closeSeen hc with h | h | h | h
  · rcases d h with h' | h'
    · left; rw [hsc]; exact h'
    · right; left; rw [hsc, h']; rfl
  · rcases hcl h with ⟨al, n, h'⟩ | h'
    · exact Or.inr (Or.inr (Or.inl ⟨al, n, mono _ h'⟩))
    · exact Or.inr (Or.inr (Or.inr (mono _ h')))
  · obtain ⟨al, n, h'⟩ := h
    exact Or.inr (Or.inr (Or.inl ⟨al, n, mono _ (hlog _ h')⟩))
  · exact Or.inr (Or.inr (Or.inr (mono _ (hlog _ h))))

theorem scr_stepMain (cfg : Cfg) (script : List Cmd) (s s' : State) (h : stepMain cfg s = some s')
    (inv : SCR script s) : SCR script s' := by
  unfold stepMain at h
  cases hm : s.mpc <;> simp only [hm] at h <;>
    (try split at h) <;> (try split at h) <;> (try split at h) <;> (try cases h) <;>
  (first
    | (refine scr_same inv rfl rfl ?_ ?_ ?_ <;> simp [hm, curCmd, inClose, closeBody] <;> done)
    | (refine scr_same inv rfl rfl ?_ ?_ ?_ <;> cases cfg.wait <;>
         simp [hm, curCmd, inClose, closeBody, setP] <;> done)
    | (refine scr_nextCmd' (X := s) inv rfl (fun _ h => h) ?_
       simp [hm, inClose, closeBody]; done)
    | (unfold State.next
       refine scr_nextCmd' inv rfl (fun e he => by simp [setP, he]) ?_
       simp [hm, inClose, closeBody, setP]
       first | done | exact Or.inl ⟨_, _, Or.inr ⟨rfl, rfl⟩⟩))

theorem scr_reach {cfg : Cfg} {script : List Cmd} {s : State} (h : Reach cfg script s) :
    SCR script s := by
  induction h with
  | init =>
    refine ⟨fun c hc => hc, by simp [init, curCmd], by simp [init], fun hc => Or.inl hc⟩
  | step hr hs ih =>
    rename_i s s' t
    cases t with
    | main => exact scr_stepMain cfg script s s' hs ih
    | player j =>
      obtain ⟨h1, h2, _, _, _, h6, _⟩ := stepPlayer_frame cfg s s' j hs
      obtain ⟨a, b, c, d⟩ := ih
      exact ⟨by rw [h2]; exact a, by rw [h1]; exact b, by rw [h1, h2]; exact c,
        by rw [h1, h2, h6]; exact d⟩

/-! ### the repaired `stop()` leaves `go` set while `close` joins the thread -/

def GF (cfg : Cfg) (s : State) : Prop :=
  cfg.fixed = true → cfg.wait = false → ∀ i, (s.mpc = .kSRel i ∨ s.mpc = .kJoin i) →
    ∃ p, s.players[i]? = some p ∧ p.go = true

theorem not_loop_of_start {m : MPc} (h : closeBody m = false) (i : Nat) :
    ¬ (m = .kSRel i ∨ m = .kJoin i) := by
  intro hi; rcases hi with hi | hi <;> rw [hi] at h <;> cases h

theorem gf_stepMain (cfg : Cfg) (s s' : State) (h : stepMain cfg s = some s') (inv : GF cfg s) :
    GF cfg s' := by
  intro hf hw i hi
  have inv' := inv hf hw
  unfold stepMain at h
  cases hm : s.mpc <;> simp only [hm] at h inv'
  case kSEvt j =>
    split at h
    · rename_i p hp
      cases h
      simp only [MPc.kSRel.injEq, reduceCtorEq, or_false] at hi
      subst hi
      exact ⟨_, by simp only [setP]; exact getElem?_set_self' hp, by simp [ctlGo, hf]⟩
    · cases h
  case kSRel j =>
    split at h
    · rename_i p hp
      cases h
      simp only [MPc.kJoin.injEq, reduceCtorEq, false_or] at hi
      subst hi
      obtain ⟨q, hq, hgo⟩ := inv' _ (Or.inl rfl)
      rw [hp] at hq; cases hq
      exact ⟨{ p with lk := none }, by simp only [setP]; exact getElem?_set_self' hp, hgo⟩
    · cases h
  case kMRel f =>
    cases f with
    | none => simp only at h; split at h <;> cases h <;> simp at hi
    | some j => simp only at h; cases h; simp [hw] at hi
  all_goals
    (try split at h) <;> (try split at h) <;> (try split at h) <;> (try cases h) <;>
    (first
      | exact absurd hi (not_loop_of_start (next_startPc _ _).2.2.2.1 i)
      | exact absurd hi (not_loop_of_start (nextCmd_startPc _ _).2.2.2.1 i)
      | (simp at hi; done))

theorem gf_reach {cfg : Cfg} {script : List Cmd} {s : State} (h : Reach cfg script s) : GF cfg s := by
  induction h with
  | init => intro _ _ i hi; simp [init] at hi
  | step hr hs ih =>
    rename_i s s' t
    cases t with
    | main => exact gf_stepMain cfg s s' hs ih
    | player j =>
      obtain ⟨h1, _⟩ := stepPlayer_frame cfg s s' j hs
      obtain ⟨p, p', hp, hs', hgo, _⟩ := stepPlayer_shape cfg s s' j hs
      intro hf hw i hi
      rw [h1] at hi
      obtain ⟨q, hq, hq2⟩ := ih hf hw i hi
      rw [hs']
      by_cases hij : i = j
      · subst hij; rw [hp] at hq; cases hq
        exact ⟨p', getElem?_set_self' hp, by rw [hgo]; exact hq2⟩
      · exact ⟨q, by rw [getElem?_set_ne' hij]; exact hq, hq2⟩

/-! ### without `pause` calls nobody ever waits on `go` -/

structure NPk (s : State) (k : Nat) (p : Player) : Prop where
  goH : p.go = false → p.halting = true ∨ s.mpc = .pGoSet k
  stopH : p.pc = .stopStream → p.halting = true
  noWait : p.pc ≠ .goWait
  evtH : (s.mpc = .cEvt .stop k ∨ s.mpc = .kSEvt k) → p.halting = true

def NP (s : State) : Prop := ∀ (k : Nat) (p : Player), s.players[k]? = some p → NPk s k p

theorem np_set {s s' : State} {i : Nat} {p p' : Player} (inv : NP s)
    (hp : s.players[i]? = some p) (hs : s'.players = s.players.set i p')
    (hi : NPk s i p → NPk s' i p')
    (ho : ∀ (k : Nat) (q : Player), k ≠ i → NPk s k q → NPk s' k q) : NP s' := by
  intro k q hk
  rw [hs] at hk
  rcases getElem?_set_cases hk with ⟨hki, hq⟩ | ⟨hki, hq⟩
  · subst hki; subst hq; exact hi (inv k p hp)
  · exact ho k q hki (inv k q hq)

theorem np_stepPlayer (cfg : Cfg) (s s' : State) (i : Nat) (h : stepPlayer cfg s i = some s')
    (hcreat : ∀ i, creating s.mpc = some i → pcAt s i = some .new) (inv : NP s) : NP s' := by
  unfold stepPlayer at h
  split at h
  · cases h
  · rename_i p hp
    have hng : s.mpc = .pGoSet i → p.pc = .new := by
      intro hm
      have := hcreat i (by rw [hm]; rfl); rw [pcAt_of_get hp] at this; simpa using this
    simp only at h
    cases hpcv : p.pc <;> simp only [hpcv] at h <;> (try split at h) <;> (try cases h) <;> (try split at h) <;> (try cases h) <;>
    (refine np_set inv hp rfl ?_ ?_
     · intro ⟨a, b, c, d⟩
       rcases loopHead_cases p with ⟨ht, hl⟩ | ⟨ht, hl⟩ <;>
       (constructor <;> (try split) <;> simp_all [setP])
     · intro k q _ hq; exact ⟨hq.goH, hq.stopH, hq.noWait, hq.evtH⟩)

/-- every record of `l'` comes from one of `l` with the same `go`/`halting` and the same
    program counter (or `begin`: the thread was started) -/
def Back (l l' : List Player) : Prop :=
  ∀ (k : Nat) (q' : Player), l'[k]? = some q' → ∃ q, l[k]? = some q ∧ q'.go = q.go ∧
    q'.halting = q.halting ∧ (q'.pc = q.pc ∨ q'.pc = .begin)

theorem back_refl (l : List Player) : Back l l := fun _ q h => ⟨q, h, rfl, rfl, Or.inl rfl⟩

theorem back_set {l : List Player} {i : Nat} {p p' : Player} (hp : l[i]? = some p)
    (hgo : p'.go = p.go) (hh : p'.halting = p.halting)
    (hpc : p'.pc = p.pc ∨ p'.pc = .begin) : Back l (l.set i p') := by
  intro k q' hk
  rcases getElem?_set_cases hk with ⟨hki, hq⟩ | ⟨hki, hq⟩
  · subst hki; subst hq; exact ⟨p, hp, hgo, hh, hpc⟩
  · exact ⟨q', hq, rfl, rfl, Or.inl rfl⟩

theorem np_frame {s s' : State} (inv : NP s) (hb : Back s.players s'.players)
    (hm1 : ∀ k, s.mpc ≠ .pGoSet k) (hm2 : ∀ k, mainHoldsT s'.mpc k = false) : NP s' := by
  intro k q' hk
  obtain ⟨q, hq, hgo, hh, hpc⟩ := hb k q' hk
  obtain ⟨a, b, c, d⟩ := inv k q hq
  refine ⟨?_, ?_, ?_, ?_⟩
  · intro h; rw [hgo] at h
    rcases a h with h' | h'
    · left; rw [hh]; exact h'
    · exact absurd h' (hm1 k)
  · intro h
    rcases hpc with h' | h'
    · rw [hh]; exact b (by rw [← h']; exact h)
    · rw [h'] at h; cases h
  · intro h
    rcases hpc with h' | h'
    · exact c (by rw [← h']; exact h)
    · rw [h'] at h; cases h
  · intro h
    have := hm2 k
    rcases h with h | h <;> rw [h] at this <;> simp [mainHoldsT] at this

theorem np_stepMain (cfg : Cfg) (s s' : State) (h : stepMain cfg s = some s')
    (hnp : ∀ i, s.mpc ≠ .cEvt .pause i) (inv : NP s) : NP s' := by
  unfold stepMain at h
  cases hm : s.mpc <;> simp only [hm] at h hnp
  case pAcq a =>
    split at h
    · cases h
    split at h
    · cases h
      exact np_frame inv (back_refl _) (by simp [hm]) (by simp [mainHoldsT])
    · cases h
      intro k q hk
      by_cases hlt : k < s.players.length
      · have hk' : s.players[k]? = some q := by
          simpa [List.getElem?_append_left hlt] using hk
        obtain ⟨a, b, c, d⟩ := inv k q hk'
        refine ⟨fun h => ?_, b, c, fun h => ?_⟩
        · rcases a h with h' | h'
          · exact Or.inl h'
          · rw [hm] at h'; cases h'
        · simp at h
      · by_cases heq : k = s.players.length
        · subst heq
          simp at hk; subst hk
          constructor <;> simp
        · simp only at hk
          rw [List.getElem?_eq_none (by simp; omega)] at hk; cases hk
  case pGoSet i =>
    split at h
    · rename_i p hp
      cases h
      refine np_set inv hp rfl ?_ ?_
      · intro ⟨a, b, c, d⟩; constructor <;> simp_all
      · intro k q hki ⟨a, b, c, d⟩
        refine ⟨fun h => ?_, b, c, fun h => by simp at h⟩
        rcases a h with h' | h'
        · exact Or.inl h'
        · rw [hm] at h'; simp at h'; exact absurd h'.symm hki
    · cases h
  case cAcq c i =>
    split at h
    · rename_i p hp
      split at h
      · cases h
      cases h
      refine np_set inv hp rfl ?_ ?_
      · intro ⟨a, b, c, d⟩; constructor <;> simp_all
      · intro k q hki ⟨a, b, c, d⟩
        refine ⟨fun h => ?_, b, c, fun h => ?_⟩
        · rcases a h with h' | h'
          · exact Or.inl h'
          · rw [hm] at h'; cases h'
        · simp at h; exact absurd h.2.symm hki
    · cases h
  case cEvt c i =>
    split at h
    · rename_i p hp
      cases h
      refine np_set inv hp rfl ?_ ?_
      · intro ⟨a, b, c', d⟩
        cases c <;> (constructor <;> simp_all [ctlGo])
      · intro k q hki ⟨a, b, c, d⟩
        refine ⟨fun h => ?_, b, c, fun h => by simp at h⟩
        rcases a h with h' | h'
        · exact Or.inl h'
        · rw [hm] at h'; cases h'
    · cases h
  case kSAcq i =>
    split at h
    · rename_i p hp
      split at h
      · cases h
      cases h
      refine np_set inv hp rfl ?_ ?_
      · intro ⟨a, b, c, d⟩; constructor <;> simp_all
      · intro k q hki ⟨a, b, c, d⟩
        refine ⟨fun h => ?_, b, c, fun h => ?_⟩
        · rcases a h with h' | h'
          · exact Or.inl h'
          · rw [hm] at h'; cases h'
        · simp at h; exact absurd h.symm hki
    · cases h
  case kSEvt i =>
    split at h
    · rename_i p hp
      cases h
      refine np_set inv hp rfl ?_ ?_
      · intro ⟨a, b, c', d⟩
        constructor <;> simp_all [ctlGo]
      · intro k q hki ⟨a, b, c, d⟩
        refine ⟨fun h => ?_, b, c, fun h => by simp at h⟩
        rcases a h with h' | h'
        · exact Or.inl h'
        · rw [hm] at h'; cases h'
    · cases h
  all_goals
    (try split at h) <;> (try split at h) <;> (try split at h) <;> (try cases h) <;>
    (refine np_frame inv ?_ (by simp [hm]) ?_
     · first
         | exact back_refl _
         | (simp only [next_players, nextCmd_players, setP]
            first
              | exact back_refl _
              | exact back_set (by assumption) (by rfl) (by rfl) (Or.inl (by rfl))
              | exact back_set (by assumption) (by rfl) (by rfl) (Or.inr (by rfl)))
     · first
         | exact (next_startPc _ _).2.2.2.2.2.1
         | exact (nextCmd_startPc _ _).2.2.2.2.2.1
         | (intro k; simp [mainHoldsT]; done)
         | (intro k; cases cfg.wait <;> simp [mainHoldsT]; done))

theorem np_reach {cfg : Cfg} {script : List Cmd} {s : State}
    (hnp : ∀ i, Cmd.ctl .pause i ∉ script) (h : Reach cfg script s) : NP s := by
  induction h with
  | init => intro k p hk; simp [init] at hk
  | step hr hs ih =>
    rename_i s s' t
    cases t with
    | main =>
      refine np_stepMain cfg s s' hs ?_ ih
      intro i hm
      exact hnp i ((scr_reach hr).cur _ (by rw [hm]; rfl))
    | player j => exact np_stepPlayer cfg s s' j hs (si_reach hr).g.creat ih

/-! ### who can still move -/

theorem mem_tids_main (s : State) : Tid.main ∈ tids s := by simp [tids]

theorem mem_tids_player {s : State} {i : Nat} (h : i < s.players.length) : Tid.player i ∈ tids s := by
  simp [tids, h]

theorem not_enabled_of_terminal {cfg : Cfg} {s : State} (ht : terminal cfg s = true) {t : Tid}
    (hm : t ∈ tids s) : enabled cfg s t = false := by
  unfold terminal at ht
  rw [List.all_eq_true] at ht
  have := ht t hm
  simpa using this

/-- the holder of the manager lock is a thread of the system and can move -/
theorem mlock_holder_moves {cfg : Cfg} {script : List Cmd} {s : State} (hr : Reach cfg script s)
    (t : Tid) (ht : s.mlock = some t) : t ∈ tids s ∧ enabled cfg s t = true := by
  refine ⟨?_, mlock_holder_enabled' hr t ht⟩
  cases t with
  | main => exact mem_tids_main s
  | player j =>
    have := (lk_reach hr).mlP j ht
    unfold pcAt at this
    cases hq : s.players[j]? with
    | none => rw [hq] at this; cases this
    | some q => exact mem_tids_player (lt_of_getElem? hq)

/-- the control script at an operation on a thread it holds the lock of can move -/
theorem main_moves_of_holdsT {cfg : Cfg} {s : State} {i : Nat} {p : Player}
    (hp : s.players[i]? = some p) (hm : mainHoldsT s.mpc i = true) : enabled cfg s .main = true := by
  unfold enabled step stepMain
  cases hmp : s.mpc <;> rw [hmp] at hm <;> simp only [mainHoldsT] at hm <;>
    (try (cases hm; done)) <;> (have hij := of_decide_eq_true hm; subst hij; simp only [hp]; rfl)

/-- **progress of a player**: a started, unfinished player that is not blocked in `go.wait()` on
    a cleared event can move, or waits for a lock whose holder can move -/
theorem player_progress {cfg : Cfg} {script : List Cmd} {s : State} (hr : Reach cfg script s)
    {i : Nat} {p : Player} (hp : s.players[i]? = some p) (hnew : p.pc ≠ .new) (hdone : p.pc ≠ .done)
    (hgo : p.pc = .goWait → p.go = true) : ∃ t, t ∈ tids s ∧ enabled cfg s t = true := by
  have hself : Tid.player i ∈ tids s := mem_tids_player (lt_of_getElem? hp)
  have hwr := (ploc_reach hr i p hp).wr
  have htl := (lk_reach hr).tl i p hp
  by_cases hfa : p.pc = .finAcq
  · cases hlk : p.lk with
    | none =>
      refine ⟨_, hself, ?_⟩
      simp [enabled, step, stepPlayer, hp, hfa, hlk]
    | some t =>
      rcases htl t hlk with ⟨_, hm⟩ | ⟨_, hsel⟩
      · exact ⟨_, mem_tids_main s, main_moves_of_holdsT hp hm⟩
      · rw [hfa] at hsel; cases hsel
  · by_cases htf : p.pc = .tfAcq
    · cases hml : s.mlock with
      | none =>
        refine ⟨_, hself, ?_⟩
        simp [enabled, step, stepPlayer, hp, htf, hml]
      | some t => exact ⟨t, mlock_holder_moves hr t hml⟩
    · refine ⟨_, hself, ?_⟩
      unfold enabled step stepPlayer
      simp only [hp]
      cases hpc : p.pc <;> simp only [hpc] at hnew hdone hgo hfa htf hwr ⊢ <;>
        (try (exact absurd rfl hnew)) <;> (try (exact absurd rfl hdone)) <;>
        (try (exact absurd trivial hfa)) <;> (try (exact absurd trivial htf)) <;> (try rfl)
      · cases htodo : p.todo with
        | nil =>
          rcases hwr trivial with hw | hw
          · exact absurd htodo hw
          · simp [hw]
        | cons c rest => rfl
      · simp [hgo trivial]

theorem exists_of_range {s : State} {i : Nat} (h : i < s.players.length) :
    ∃ p, s.players[i]? = some p := ⟨s.players[i], by simp [h]⟩

/-- in a terminal state, a joined player that is not finished is blocked in `go.wait()` on a
    cleared event -/
theorem join_blocked {cfg : Cfg} {script : List Cmd} {s : State} (hr : Reach cfg script s)
    (ht : terminal cfg s = true) {i : Nat} {p : Player} (hp : s.players[i]? = some p)
    (hnd : isDone s i = false) (hcr : creating s.mpc = none) : p.pc = .goWait ∧ p.go = false := by
  have hnew : p.pc ≠ .new := by
    intro h; have := ((si_reach hr).p i p hp).newMain h; rw [hcr] at this; cases this
  have hdone : p.pc ≠ .done := by
    intro h; simp [isDone, hp, h] at hnd
  by_cases hw : p.pc = .goWait ∧ p.go = false
  · exact hw
  · exfalso
    have hgo : p.pc = .goWait → p.go = true := by
      intro h
      cases hg : p.go
      · exact absurd ⟨h, hg⟩ hw
      · rfl
    obtain ⟨t, htm, hen⟩ := player_progress hr hp hnew hdone hgo
    rw [not_enabled_of_terminal ht htm] at hen; cases hen

/-- a thread lock the control script waits for is held by a player that can move, or that waits
    for the manager lock whose holder can move -/
theorem tlock_wait_moves {cfg : Cfg} {script : List Cmd} {s : State} (hr : Reach cfg script s)
    {i : Nat} {p : Player} (hp : s.players[i]? = some p) (hlk : p.lk.isSome = true)
    (hm : mainHoldsT s.mpc i = false) : ∃ t, t ∈ tids s ∧ enabled cfg s t = true := by
  cases hl : p.lk with
  | none => rw [hl] at hlk; cases hlk
  | some t =>
    rcases (lk_reach hr).tl i p hp t hl with ⟨_, h⟩ | ⟨_, hsel⟩
    · rw [hm] at h; cases h
    · refine player_progress hr hp ?_ ?_ ?_ <;> intro h <;> rw [h] at hsel <;> cases hsel

/-- **the shape of every terminal state** (both variants of `stop()`, wait true/false, any
    script): the control script has finished, or it is joining — by a `join` call of its own or
    inside `close` — a player that is blocked in `go.wait()` on a cleared event. -/
theorem terminal_shape {cfg : Cfg} {script : List Cmd} {s : State} (hr : Reach cfg script s)
    (ht : terminal cfg s = true) :
    s.mpc = .done ∨ ∃ i p, (s.mpc = .jJoin i ∨ s.mpc = .kJoin i) ∧ s.players[i]? = some p ∧
      p.pc = .goWait ∧ p.go = false := by
  have hmain : stepMain cfg s = none := by
    have := not_enabled_of_terminal ht (mem_tids_main s)
    simpa [enabled, step] using this
  have hcontra : (∃ t, t ∈ tids s ∧ enabled cfg s t = true) → False := by
    intro ⟨t, htm, hen⟩
    rw [not_enabled_of_terminal ht htm] at hen; cases hen
  have hrange := range_reach hr
  have hlkO := (lk_reach hr).hlO
  unfold stepMain at hmain
  cases hm : s.mpc <;> simp only [hm] at hmain hrange <;> (try (cases hmain; done))
  case done => exact Or.inl rfl
  case pAcq a =>
    exfalso
    cases hml : s.mlock with
    | none => simp [hml] at hmain; split at hmain <;> cases hmain
    | some t => exact hcontra ⟨t, mlock_holder_moves hr t hml⟩
  case kMAcq =>
    exfalso
    cases hml : s.mlock with
    | none => simp [hml] at hmain
    | some t => exact hcontra ⟨t, mlock_holder_moves hr t hml⟩
  case kHAcq =>
    exfalso
    cases hhl : s.hlock with
    | none => simp [hhl] at hmain; split at hmain <;> cases hmain
    | some t => have := (hlkO t hhl).2; rw [hm] at this; cases this
  case kMRel f =>
    exfalso
    cases f with
    | none => simp only at hmain; split at hmain <;> cases hmain
    | some j => simp only at hmain; cases hmain
  case jJoin i =>
    obtain ⟨p, hp⟩ := exists_of_range (hrange i rfl)
    right
    cases hd : isDone s i with
    | true => simp [hd] at hmain
    | false =>
      obtain ⟨h1, h2⟩ := join_blocked hr ht hp hd (by rw [hm]; rfl)
      exact ⟨i, p, Or.inl rfl, hp, h1, h2⟩
  case kJoin i =>
    obtain ⟨p, hp⟩ := exists_of_range (hrange i rfl)
    right
    cases hd : isDone s i with
    | true => simp [hd] at hmain
    | false =>
      obtain ⟨h1, h2⟩ := join_blocked hr ht hp hd (by rw [hm]; rfl)
      exact ⟨i, p, Or.inr rfl, hp, h1, h2⟩
  case cAcq k i =>
    exfalso
    obtain ⟨p, hp⟩ := exists_of_range (hrange i rfl)
    simp only [hp] at hmain
    split at hmain
    · rename_i hlk
      exact hcontra (tlock_wait_moves hr hp hlk (by rw [hm]; rfl))
    · cases hmain
  case kSAcq i =>
    exfalso
    obtain ⟨p, hp⟩ := exists_of_range (hrange i rfl)
    simp only [hp] at hmain
    split at hmain
    · rename_i hlk
      exact hcontra (tlock_wait_moves hr hp hlk (by rw [hm]; rfl))
    · cases hmain
  all_goals
    exfalso
    obtain ⟨p, hp⟩ := exists_of_range (hrange _ rfl)
    simp [hp] at hmain

/-! ### `wait=True`: nothing clears a `go` event while `close` runs -/

/-- hypothesis of the wait clause: whenever the script calls `close` on a manager that is not yet
    finished, no player that still is in (or before) its loop has its `go` event cleared — no
    player is paused at the time `close` is called (nothing can resume it afterwards: the
    control script is the only caller of `play()`, and it is inside `close`). -/
def UnpausedAtClose (cfg : Cfg) (script : List Cmd) : Prop :=
  ∀ s, Reach cfg script s → s.mpc = .kHAcq → s.finished = false →
    ∀ (k : Nat) (p : Player), s.players[k]? = some p → p.go = true ∨ afterLoop p.pc = true

def GC (s : State) : Prop :=
  preTerm s.mpc = true → ∀ (k : Nat) (p : Player), s.players[k]? = some p →
    p.go = true ∨ afterLoop p.pc = true

theorem stepPlayer_afterLoop (cfg : Cfg) (s s' : State) (i : Nat) (h : stepPlayer cfg s i = some s') :
    ∃ p p', s.players[i]? = some p ∧ s'.players = s.players.set i p' ∧ p'.go = p.go ∧
      (afterLoop p.pc = true → afterLoop p'.pc = true) := by
  unfold stepPlayer at h
  split at h
  · cases h
  · rename_i p hp
    simp only at h
    cases hpcv : p.pc <;> simp only [hpcv] at h <;> (try split at h) <;> (try cases h) <;> (try split at h) <;> (try cases h) <;>
      (refine ⟨p, _, hp, rfl, rfl, ?_⟩) <;> (try split) <;> simp [afterLoop, hpcv]

theorem gc_set {s : State} {i : Nat} {p p' : Player}
    (inv : ∀ (k : Nat) (q : Player), s.players[k]? = some q → q.go = true ∨ afterLoop q.pc = true)
    (hp : s.players[i]? = some p) (hi : p.go = true ∨ afterLoop p.pc = true → p'.go = true ∨ afterLoop p'.pc = true) :
    ∀ (k : Nat) (q : Player), (s.players.set i p')[k]? = some q → q.go = true ∨ afterLoop q.pc = true := by
  intro k q hk
  rcases getElem?_set_cases hk with ⟨hki, hq⟩ | ⟨hki, hq⟩
  · subst hki; subst hq; exact hi (inv k p hp)
  · exact inv k q hq

theorem gc_stepMain (cfg : Cfg) (script : List Cmd) (s s' : State) (h : stepMain cfg s = some s')
    (hf : cfg.fixed = true) (H : UnpausedAtClose cfg script) (hr : Reach cfg script s)
    (inv : GC s) : GC s' := by
  unfold stepMain at h
  cases hm : s.mpc <;> simp only [hm] at h
  case kHAcq =>
    split at h
    · cases h
    split at h
    · cases h; intro hp; simp [preTerm] at hp
    · rename_i hfin
      cases h
      intro _
      exact H s hr hm (by simpa using hfin)
  case kMAcq =>
    split at h
    · cases h
    cases h
    intro _; exact inv (by rw [hm]; rfl)
  case kMRel f =>
    have inv' := inv (by rw [hm]; rfl)
    cases f with
    | none => simp only at h; split at h <;> cases h <;> intro _ <;> exact inv'
    | some j => simp only at h; cases h; intro _; exact inv'
  case kJoin j =>
    split at h
    · cases h; intro _; exact inv (by rw [hm]; rfl)
    · cases h
  case kSAcq j =>
    split at h
    · rename_i p hp
      split at h
      · cases h
      cases h
      intro _
      exact gc_set (inv (by rw [hm]; rfl)) hp (fun h => h)
    · cases h
  case kSEvt j =>
    split at h
    · rename_i p hp
      cases h
      intro _
      exact gc_set (inv (by rw [hm]; rfl)) hp (fun _ => Or.inl (by simp [ctlGo, hf]))
    · cases h
  case kSRel j =>
    split at h
    · rename_i p hp
      cases h
      intro _
      exact gc_set (inv (by rw [hm]; rfl)) hp (fun h => h)
    · cases h
  all_goals
    (try split at h) <;> (try split at h) <;> (try split at h) <;> (try cases h) <;>
    (intro hp
     first
       | (rw [(next_startPc _ _).1] at hp; cases hp)
       | (rw [(nextCmd_startPc _ _).1] at hp; cases hp)
       | (simp [preTerm] at hp; done))

theorem gc_reach {cfg : Cfg} {script : List Cmd} {s : State} (hf : cfg.fixed = true)
    (H : UnpausedAtClose cfg script) (h : Reach cfg script s) : GC s := by
  induction h with
  | init => intro hp; simp [init, preTerm] at hp
  | step hr hs ih =>
    rename_i s s' t
    cases t with
    | main => exact gc_stepMain cfg script s s' hs hf H hr ih
    | player j =>
      obtain ⟨h1, _⟩ := stepPlayer_frame cfg s s' j hs
      obtain ⟨p, p', hp, hs', hgo, hal⟩ := stepPlayer_afterLoop cfg s s' j hs
      intro hpre
      rw [h1] at hpre
      rw [hs']
      refine gc_set (ih hpre) hp ?_
      intro h
      rcases h with h | h
      · exact Or.inl (by rw [hgo]; exact h)
      · exact Or.inr (hal h)

end ALV.C17
