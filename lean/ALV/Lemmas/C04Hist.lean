/-
  C04 — histories: lemmas.
   1. the suspended generator (`Gen.feed`) run piecewise = the generated loop run at once;
   2. `call` / `filterCall` = create the suspended generator, then feed it;
   3. a generic simulation lemma for the history skeleton `hrun` (two representations of filter
      objects / streams related step by step show the same observations);
   4. the model representation (normalised polynomials, suspended generator) simulates the
      specification representation (constructor arguments as they were, inputs delivered so far),
      given the end-to-end statement of one call (`filterCall = specCall`, proved in Props);
   5. frame facts: uses never change the caller's objects, a step touches one name only.
-/
import ALV.Lemmas.C04Pipeline
import ALV.Spec.C04Hist

set_option linter.unusedSectionVars false
set_option linter.unusedSimpArgs false
set_option linter.unusedVariables false
namespace ALV.C04

/-! ### 1. piecewise consumption -/
section gen
variable {K : Type} [Field K] [DecidableEq K]

theorem runLoop_append (sum : List (Atom K)) (gain : Gain K) (shifts : List (Var × Var))
    (e : Env K) (xs zs : List K) :
    runLoop sum gain shifts e (xs ++ zs)
      = runLoop sum gain shifts e xs ++ runLoop sum gain shifts (envAfter sum gain shifts e xs) zs := by
  induction xs generalizing e with
  | nil => simp [runLoop, envAfter]
  | cons x xs ih => simp [runLoop, envAfter, ih]

theorem envAfter_append (sum : List (Atom K)) (gain : Gain K) (shifts : List (Var × Var))
    (e : Env K) (xs zs : List K) :
    envAfter sum gain shifts e (xs ++ zs)
      = envAfter sum gain shifts (envAfter sum gain shifts e xs) zs := by
  induction xs generalizing e with
  | nil => simp [envAfter]
  | cons x xs ih => simp [envAfter, ih]

theorem runLoop_length (sum : List (Atom K)) (gain : Gain K) (shifts : List (Var × Var))
    (e : Env K) (xs : List K) : (runLoop sum gain shifts e xs).length = xs.length := by
  induction xs generalizing e with
  | nil => simp [runLoop]
  | cons x xs ih => simp [runLoop, ih]

theorem Gen.feed_nil (g : Gen K) : g.feed [] = ([], g) := by
  cases g <;> simp [Gen.feed, runLoop, envAfter]

theorem Gen.feed_length (g : Gen K) (xs : List K) : (g.feed xs).1.length = xs.length := by
  cases g <;> simp [Gen.feed, runLoop_length]

/-- consuming `xs` and later `zs` = consuming `xs ++ zs` at once: same outputs, same suspended
generator afterwards -/
theorem Gen.feed_append (g : Gen K) (xs zs : List K) :
    g.feed (xs ++ zs) = ((g.feed xs).1 ++ ((g.feed xs).2.feed zs).1, ((g.feed xs).2.feed zs).2) := by
  cases g with
  | const z => simp [Gen.feed]
  | loop sum gain shifts e => simp [Gen.feed, runLoop_append, envAfter_append]

/-- feeding a freshly created generator = running the generated source at once -/
theorem start_feed (ir : IR K) (memory : List K) (zero : K) (xs : List K) :
    ((Gen.start ir memory zero).feed xs).1 = evalIR ir memory zero xs := by
  cases ir <;> simp [Gen.start, Gen.feed, evalIR]

/-! ### 2. the call = create, then feed -/

theorem call_eq_callGen (num den : Terms K) (mem : Mem K) (zero : K) (xs : List K) :
    call num den mem zero xs = (callGen num den mem zero).map (fun g => (g.feed xs).1) := by
  unfold call callGen
  by_cases h1 : checkCausal num den = true
  · by_cases h2 : coefAt den 0 = 0
    · simp [h1, h2, Except.map]
    · simp [h1, h2, Except.map, start_feed]
  · simp [h1, Except.map]

/-- `ZFilter(num, den)(…)` up to the consumption -/
def filterGen (n d : List (Int × K)) (mem : Mem K) (zero : K) : Except Err (Gen K) :=
  match normalise (mkPoly n) (mkPoly d) with
  | .error e => .error e
  | .ok o => callGen o.1 o.2 mem zero

theorem filterCall_eq_filterGen (n d : List (Int × K)) (mem : Mem K) (zero : K) (xs : List K) :
    filterCall n d mem zero xs = (filterGen n d mem zero).map (fun g => (g.feed xs).1) := by
  unfold filterCall filterGen
  cases h : normalise (mkPoly n) (mkPoly d) with
  | error e => rfl
  | ok o =>
    obtain ⟨a, b⟩ := o
    show call a b mem zero xs = _
    rw [call_eq_callGen]

end gen

/-! ### 3. simulation of two representations -/
section sim
variable {α F₁ S₁ F₂ S₂ : Type}

def ExRel {A B : Type} (R : A → B → Prop) : Except Err A → Except Err B → Prop
  | .error e, .error e' => e = e'
  | .ok a, .ok b => R a b
  | _, _ => False

def OptRel {A B : Type} (R : A → B → Prop) : Option A → Option B → Prop
  | none, none => True
  | some a, some b => R a b
  | _, _ => False

theorem optRel_upd {A B : Type} (R : A → B → Prop) (f : Nat → Option A) (g : Nat → Option B)
    (h : ∀ i, OptRel R (f i) (g i)) (j : Nat) (x : Option A) (y : Option B) (hxy : OptRel R x y) :
    ∀ i, OptRel R (upd f j x i) (upd g j y i) := by
  intro i
  unfold upd
  by_cases hij : i = j
  · simp [hij, hxy]
  · simp [hij, h i]

/-- streams related: generators related, same list iterator -/
def StrmRel (RS : S₁ → S₂ → Prop) (t : Strm S₁) (u : Strm S₂) : Prop :=
  RS t.gen u.gen ∧ t.src = u.src ∧ t.pos = u.pos ∧ t.done = u.done

structure StRel (RF : F₁ → F₂ → Prop) (RS : S₁ → S₂ → Prop)
    (a : HState α F₁ S₁) (b : HState α F₂ S₂) : Prop where
  nums : a.nums = b.nums
  coefs : a.coefs = b.coefs
  filts : ∀ i, OptRel RF (a.filts i) (b.filts i)
  strms : ∀ i, OptRel (StrmRel RS) (a.strms i) (b.strms i)

theorem hstep_sim (I₁ : Impl α F₁ S₁) (I₂ : Impl α F₂ S₂) (RF : F₁ → F₂ → Prop) (RS : S₁ → S₂ → Prop)
    (hb : ∀ n d, ExRel RF (I₁.build n d) (I₂.build n d))
    (hc : ∀ o₁ o₂ mem zero, RF o₁ o₂ → ExRel RS (I₁.call o₁ mem zero) (I₂.call o₂ mem zero))
    (hf : ∀ g s xs, RS g s → (I₁.feed g xs).1 = (I₂.feed s xs).1 ∧ RS (I₁.feed g xs).2 (I₂.feed s xs).2)
    (a : HState α F₁ S₁) (b : HState α F₂ S₂) (hab : StRel RF RS a b) (op : HOp α) :
    (hstep I₁ a op).1 = (hstep I₂ b op).1 ∧ StRel RF RS (hstep I₁ a op).2 (hstep I₂ b op).2 := by
  obtain ⟨an, ac, af, as_⟩ := a
  obtain ⟨bn, bc, bf, bs⟩ := b
  obtain ⟨hn, hco, hfl, hst⟩ := hab
  simp only at hn hco hfl hst
  subst hn
  subst hco
  cases op with
  | setNums c v => exact ⟨rfl, ⟨rfl, rfl, hfl, hst⟩⟩
  | setCoefs c v => exact ⟨rfl, ⟨rfl, rfl, hfl, hst⟩⟩
  | build f n d =>
    have h := hb (ac n) (ac d)
    cases h1 : I₁.build (ac n) (ac d) with
    | error e =>
      cases h2 : I₂.build (ac n) (ac d) with
      | error e' =>
        rw [h1, h2] at h
        have : e = e' := h
        subst this
        simp only [hstep, h1, h2]
        exact ⟨trivial, ⟨rfl, rfl, optRel_upd RF _ _ hfl f none none trivial, hst⟩⟩
      | ok o' => rw [h1, h2] at h; exact absurd h (by simp [ExRel])
    | ok o =>
      cases h2 : I₂.build (ac n) (ac d) with
      | error e' => rw [h1, h2] at h; exact absurd h (by simp [ExRel])
      | ok o' =>
        rw [h1, h2] at h
        simp only [hstep, h1, h2]
        exact ⟨trivial, ⟨rfl, rfl, optRel_upd RF _ _ hfl f (some o) (some o') h, hst⟩⟩
  | call s f x mem zero =>
    have hff := hfl f
    cases h1 : af f with
    | none =>
      cases h2 : bf f with
      | none =>
        simp only [hstep, h1, h2]
        exact ⟨trivial, ⟨rfl, rfl, hfl, optRel_upd _ _ _ hst s none none trivial⟩⟩
      | some o' => rw [h1, h2] at hff; exact absurd hff (by simp [OptRel])
    | some o =>
      cases h2 : bf f with
      | none => rw [h1, h2] at hff; exact absurd hff (by simp [OptRel])
      | some o' =>
        rw [h1, h2] at hff
        have h := hc o o' (memArg an mem) zero hff
        cases h3 : I₁.call o (memArg an mem) zero with
        | error e =>
          cases h4 : I₂.call o' (memArg an mem) zero with
          | error e' =>
            rw [h3, h4] at h
            have : e = e' := h
            subst this
            simp only [hstep, h1, h2, h3, h4]
            exact ⟨trivial, ⟨rfl, rfl, hfl, optRel_upd _ _ _ hst s none none trivial⟩⟩
          | ok g' => rw [h3, h4] at h; exact absurd h (by simp [ExRel])
        | ok g =>
          cases h4 : I₂.call o' (memArg an mem) zero with
          | error e' => rw [h3, h4] at h; exact absurd h (by simp [ExRel])
          | ok g' =>
            rw [h3, h4] at h
            simp only [hstep, h1, h2, h3, h4]
            exact ⟨trivial, ⟨rfl, rfl, hfl,
              optRel_upd _ _ _ hst s (some ⟨g, x, 0, false⟩) (some ⟨g', x, 0, false⟩) ⟨h, rfl, rfl, rfl⟩⟩⟩
  | take s k =>
    have hss := hst s
    cases h1 : as_ s with
    | none =>
      cases h2 : bs s with
      | none =>
        simp only [hstep, h1, h2]
        exact ⟨trivial, ⟨rfl, rfl, hfl, hst⟩⟩
      | some u => rw [h1, h2] at hss; exact absurd hss (by simp [OptRel])
    | some t =>
      cases h2 : bs s with
      | none => rw [h1, h2] at hss; exact absurd hss (by simp [OptRel])
      | some u =>
        rw [h1, h2] at hss
        obtain ⟨tg, tsrc, tpos, tdone⟩ := t
        obtain ⟨ug, usrc, upos, udone⟩ := u
        obtain ⟨hg, hsrc, hpos, hdone⟩ := hss
        simp only at hg hsrc hpos hdone
        subst hsrc; subst hpos; subst hdone
        cases tdone with
        | true =>
          simp only [hstep, h1, h2, if_true]
          exact ⟨trivial, ⟨rfl, rfl, hfl, hst⟩⟩
        | false =>
          simp only [hstep, h1, h2, Bool.false_eq_true, if_false]
          have hfd := hf tg ug (List.take k (List.drop tpos (an tsrc))) hg
          refine ⟨by rw [hfd.1], ⟨rfl, rfl, hfl, ?_⟩⟩
          exact optRel_upd _ _ _ hst s _ _ ⟨hfd.2, rfl, rfl, rfl⟩

theorem hrun_sim (I₁ : Impl α F₁ S₁) (I₂ : Impl α F₂ S₂) (RF : F₁ → F₂ → Prop) (RS : S₁ → S₂ → Prop)
    (hb : ∀ n d, ExRel RF (I₁.build n d) (I₂.build n d))
    (hc : ∀ o₁ o₂ mem zero, RF o₁ o₂ → ExRel RS (I₁.call o₁ mem zero) (I₂.call o₂ mem zero))
    (hf : ∀ g s xs, RS g s → (I₁.feed g xs).1 = (I₂.feed s xs).1 ∧ RS (I₁.feed g xs).2 (I₂.feed s xs).2)
    (ops : List (HOp α)) :
    ∀ (a : HState α F₁ S₁) (b : HState α F₂ S₂), StRel RF RS a b → hrun I₁ a ops = hrun I₂ b ops := by
  induction ops with
  | nil => intros; rfl
  | cons op ops ih =>
    intro a b hab
    obtain ⟨h1, h2⟩ := hstep_sim I₁ I₂ RF RS hb hc hf a b hab op
    simp only [hrun]
    rw [h1, ih _ _ h2]

theorem stRel_empty (RF : F₁ → F₂ → Prop) (RS : S₁ → S₂ → Prop) :
    StRel RF RS (HState.empty : HState α F₁ S₁) (HState.empty : HState α F₂ S₂) :=
  ⟨rfl, rfl, fun _ => trivial, fun _ => trivial⟩

end sim

/-! ### 4. the model simulates the specification -/
section modelspec
variable {K : Type} [Field K] [DecidableEq K]

/-- a filter object of the model is the normalised copy of the constructor arguments the
specification remembers -/
def RFilt (o : Terms K × Terms K) (f : SFilt K) : Prop :=
  normalise (mkPoly f.num) (mkPoly f.den) = .ok o

/-- a suspended generator of the model is the one created from the specification's snapshot, fed
with the items delivered so far -/
def RStrm (g : Gen K) (s : SStrm K) : Prop :=
  ∃ g0, filterGen s.num s.den s.mem s.zero = .ok g0 ∧ (g0.feed s.seen).2 = g

theorem build_rel (n d : List (Int × K)) :
    ExRel RFilt ((modelImpl (α := K)).build n d) ((specImpl (α := K)).build n d) := by
  simp only [modelImpl, specImpl]
  rw [← minKey_mkPoly d]
  cases h : minKey (mkPoly d) with
  | none => simp [normalise, h, ExRel]
  | some p =>
    rw [normalise_ok _ _ p h]
    simp only [ExRel, RFilt]
    exact normalise_ok _ _ p h

theorem call_rel
    (hfs : ∀ (n d : List (Int × K)) mem zero xs, filterCall n d mem zero xs = specCall n d mem zero xs)
    (o : Terms K × Terms K) (f : SFilt K) (mem : Mem K) (zero : K) (hof : RFilt o f) :
    ExRel RStrm ((modelImpl (α := K)).call o mem zero) ((specImpl (α := K)).call f mem zero) := by
  have h := hfs f.num f.den mem zero []
  rw [filterCall_eq_filterGen] at h
  have hg : filterGen f.num f.den mem zero = callGen o.1 o.2 mem zero := by
    unfold filterGen
    rw [hof]
  rw [hg] at h
  simp only [modelImpl, specImpl]
  cases h1 : callGen o.1 o.2 mem zero with
  | error e =>
    rw [h1] at h
    simp only [Except.map] at h
    rw [← h]
    simp [ExRel]
  | ok g =>
    rw [h1] at h
    simp only [Except.map] at h
    rw [← h]
    simp only [ExRel, RStrm]
    exact ⟨g, by rw [hg, h1], by rw [Gen.feed_nil]⟩

theorem feed_rel
    (hfs : ∀ (n d : List (Int × K)) mem zero xs, filterCall n d mem zero xs = specCall n d mem zero xs)
    (g : Gen K) (s : SStrm K) (xs : List K) (hgs : RStrm g s) :
    ((modelImpl (α := K)).feed g xs).1 = ((specImpl (α := K)).feed s xs).1
      ∧ RStrm ((modelImpl (α := K)).feed g xs).2 ((specImpl (α := K)).feed s xs).2 := by
  obtain ⟨g0, hg0, rfl⟩ := hgs
  have h := hfs s.num s.den s.mem s.zero (s.seen ++ xs)
  rw [filterCall_eq_filterGen, hg0] at h
  simp only [Except.map] at h
  simp only [modelImpl, specImpl]
  rw [← h, Gen.feed_append]
  refine ⟨?_, ⟨g0, hg0, by rw [Gen.feed_append]⟩⟩
  simp only []
  rw [← Gen.feed_length g0 s.seen, List.drop_left]

/-- what the specification answers is itself independent of the chunking of the requests: the
outputs for `xs` followed by the outputs for `zs` are the outputs for `xs ++ zs` (and the stream is
left with the same snapshot and the same delivered items) -/
theorem spec_feed_append
    (hfs : ∀ (n d : List (Int × K)) mem zero xs, filterCall n d mem zero xs = specCall n d mem zero xs)
    (s : SStrm K) (xs zs : List K) :
    (specImpl (α := K)).feed s (xs ++ zs)
      = (((specImpl (α := K)).feed s xs).1 ++ ((specImpl (α := K)).feed ((specImpl (α := K)).feed s xs).2 zs).1,
         ((specImpl (α := K)).feed ((specImpl (α := K)).feed s xs).2 zs).2) := by
  have h1 := hfs s.num s.den s.mem s.zero (s.seen ++ (xs ++ zs))
  have h2 := hfs s.num s.den s.mem s.zero (s.seen ++ xs)
  have h3 := hfs s.num s.den s.mem s.zero (s.seen ++ xs ++ zs)
  rw [filterCall_eq_filterGen] at h1 h2 h3
  simp only [specImpl, List.append_assoc]
  cases hg : filterGen s.num s.den s.mem s.zero with
  | error e =>
    rw [hg] at h1 h2 h3
    simp only [Except.map] at h1 h2 h3
    simp only [List.append_assoc] at h3
    rw [← h1, ← h2]
    simp
  | ok g0 =>
    rw [hg] at h1 h2 h3
    simp only [Except.map] at h1 h2 h3
    simp only [List.append_assoc] at h3
    rw [← h1, ← h2]
    simp only [Prod.mk.injEq, and_true]
    rw [← List.append_assoc, Gen.feed_append g0 (s.seen ++ xs) zs]
    simp only []
    rw [Gen.feed_append g0 s.seen xs]
    simp only [List.drop_append, List.length_append, Gen.feed_length]
    have hl : (g0.feed s.seen).1.length = s.seen.length := Gen.feed_length g0 s.seen
    have hl2 : ((g0.feed s.seen).2.feed xs).1.length = xs.length := Gen.feed_length _ xs
    simp [hl, hl2, List.drop_append, List.drop_eq_nil_of_le]

theorem histModel_eq_histSpec
    (hfs : ∀ (n d : List (Int × K)) mem zero xs, filterCall n d mem zero xs = specCall n d mem zero xs)
    (ops : List (HOp K)) : histModel ops = histSpec ops :=
  hrun_sim modelImpl specImpl RFilt RStrm build_rel (fun o f mem zero h => call_rel hfs o f mem zero h)
    (fun g s xs h => feed_rel hfs g s xs h) ops _ _ (stRel_empty _ _)

end modelspec

/-! ### 5. frame facts (any representation) -/
section frame
variable {α F S : Type}

/-- a use of the filter (constructor, call, consumption) never changes a caller's object -/
theorem hstep_use_nums (I : Impl α F S) (st : HState α F S) (op : HOp α) (h : op.isStore = false) :
    (hstep I st op).2.nums = st.nums ∧ (hstep I st op).2.coefs = st.coefs := by
  cases op with
  | setNums c v => simp [HOp.isStore] at h
  | setCoefs c v => simp [HOp.isStore] at h
  | build f n d =>
    simp only [hstep]
    cases I.build (st.coefs n) (st.coefs d) <;> exact ⟨rfl, rfl⟩
  | call s f x mem zero =>
    simp only [hstep]
    cases st.filts f with
    | none => exact ⟨rfl, rfl⟩
    | some o => simp only []; cases I.call o (memArg st.nums mem) zero <;> exact ⟨rfl, rfl⟩
  | take s k =>
    simp only [hstep]
    cases st.strms s with
    | none => exact ⟨rfl, rfl⟩
    | some t => simp only []; split <;> exact ⟨rfl, rfl⟩

/-- the caller's objects after a history are what its mutations alone leave -/
theorem hfinal_stores (I : Impl α F S) (ops : List (HOp α)) :
    ∀ st : HState α F S,
      (hfinal I st ops).nums = (hfinal I st (ops.filter HOp.isStore)).nums
      ∧ (hfinal I st ops).coefs = (hfinal I st (ops.filter HOp.isStore)).coefs := by
  induction ops with
  | nil => intro st; exact ⟨rfl, rfl⟩
  | cons op ops ih =>
    intro st
    by_cases h : op.isStore = true
    · simp only [List.filter_cons, h, if_true, hfinal]
      exact ih _
    · have h' : op.isStore = false := by simpa using h
      simp only [List.filter_cons, h', hfinal]
      have hu := hstep_use_nums I st op h'
      -- the uses leave nums/coefs alone, and later stores do not look at filters / streams
      have key : ∀ (ops' : List (HOp α)) (a b : HState α F S), a.nums = b.nums → a.coefs = b.coefs →
          (∀ o ∈ ops', HOp.isStore o = true) →
          (hfinal I a ops').nums = (hfinal I b ops').nums ∧ (hfinal I a ops').coefs = (hfinal I b ops').coefs := by
        intro ops'
        induction ops' with
        | nil => intro a b h1 h2 _; exact ⟨h1, h2⟩
        | cons o os ih' =>
          intro a b h1 h2 hall
          have ho := hall o (by simp)
          simp only [hfinal]
          apply ih'
          · cases o <;> simp [HOp.isStore] at ho <;> simp [hstep, h1]
          · cases o <;> simp [HOp.isStore] at ho <;> simp [hstep, h2]
          · intro o' ho'; exact hall o' (by simp [ho'])
      obtain ⟨i1, i2⟩ := ih (hstep I st op).2
      obtain ⟨k1, k2⟩ := key (ops.filter HOp.isStore) (hstep I st op).2 st hu.1 hu.2
        (by intro o ho; exact (List.mem_filter.1 ho).2)
      exact ⟨i1.trans k1, i2.trans k2⟩

/-- a caller's mutation of a list that is not the stream's INPUT list — in particular of the list
that was given as `memory=`, and of every coefficient container — changes nothing in what the
stream yields next -/
theorem take_after_setNums (I : Impl α F S) (st : HState α F S) (c : Nat) (v : List α) (s k : Nat)
    (h : ∀ t, st.strms s = some t → t.src ≠ c) :
    (hstep I (hstep I st (.setNums c v)).2 (.take s k)).1 = (hstep I st (.take s k)).1 := by
  simp only [hstep]
  cases hs : st.strms s with
  | none => rfl
  | some t =>
    have hne := h t hs
    simp only [upd, hne, if_false]
    cases t.done <;> rfl

/-- the same for any number of mutations in a row: whatever the caller does to its lists and
containers between two requests — short of touching the stream's own input list — the next request
is answered as if nothing had happened -/
theorem take_after_stores (I : Impl α F S) (s k : Nat) (stores : List (HOp α)) :
    ∀ st : HState α F S,
      (∀ o ∈ stores, HOp.isStore o = true) →
      (∀ c v, HOp.setNums c v ∈ stores → ∀ t, st.strms s = some t → t.src ≠ c) →
      (hstep I (hfinal I st stores) (.take s k)).1 = (hstep I st (.take s k)).1 := by
  induction stores with
  | nil => intro st _ _; rfl
  | cons o os ih =>
    intro st hall hsrc
    simp only [hfinal]
    have hstr : (hstep I st o).2.strms = st.strms := by
      have ho := hall o (by simp)
      cases o <;> simp [HOp.isStore] at ho <;> rfl
    rw [ih (hstep I st o).2 (fun o' ho' => hall o' (by simp [ho']))
      (fun c v hm t ht => hsrc c v (by simp [hm]) t (by rw [← hstr]; exact ht))]
    have ho := hall o (by simp)
    cases o with
    | setNums c v =>
      exact take_after_setNums I st c v s k (fun t ht => hsrc c v (by simp) t ht)
    | setCoefs c v =>
      simp only [hstep]
      cases st.strms s with
      | none => rfl
      | some t => simp only []; cases t.done <;> rfl
    | build f n d => simp [HOp.isStore] at ho
    | call s' f x mem zero => simp [HOp.isStore] at ho
    | take s' k' => simp [HOp.isStore] at ho

theorem take_after_setCoefs (I : Impl α F S) (st : HState α F S) (c : Nat) (v : List (Int × α)) (s k : Nat) :
    (hstep I (hstep I st (.setCoefs c v)).2 (.take s k)).1 = (hstep I st (.take s k)).1 := by
  simp only [hstep]
  cases st.strms s with
  | none => rfl
  | some t => simp only []; cases t.done <;> rfl

/-- … and an already built filter object is not affected by what happens to the containers it
was built from: a later call behaves the same -/
theorem call_after_setCoefs (I : Impl α F S) (st : HState α F S) (c : Nat) (v : List (Int × α))
    (s f x : Nat) (mem : Option Nat) (zero : α) :
    (hstep I (hstep I st (.setCoefs c v)).2 (.call s f x mem zero)).1 = (hstep I st (.call s f x mem zero)).1 := by
  simp only [hstep]
  cases st.filts f with
  | none => rfl
  | some o => simp only []; cases I.call o (memArg st.nums mem) zero <;> rfl

/-- a step on one stream leaves every other stream as it was suspended -/
theorem take_frame (I : Impl α F S) (st : HState α F S) (s k s' : Nat) (h : s' ≠ s) :
    (hstep I st (.take s k)).2.strms s' = st.strms s' ∧ (hstep I st (.take s k)).2.filts = st.filts := by
  simp only [hstep]
  cases st.strms s with
  | none => exact ⟨rfl, rfl⟩
  | some t =>
    simp only []
    split
    · exact ⟨rfl, rfl⟩
    · simp [upd, h]

/-- calling a filter (again) leaves the filter objects and every other live stream untouched -/
theorem call_frame (I : Impl α F S) (st : HState α F S) (s f x : Nat) (mem : Option Nat) (zero : α)
    (s' : Nat) (h : s' ≠ s) :
    (hstep I st (.call s f x mem zero)).2.strms s' = st.strms s'
      ∧ (hstep I st (.call s f x mem zero)).2.filts = st.filts := by
  simp only [hstep]
  cases st.filts f with
  | none => simp [upd, h]
  | some o =>
    simp only []
    cases I.call o (memArg st.nums mem) zero <;> simp [upd, h]

end frame

end ALV.C04
