/-
  C16 — ControlStream: the generator model shows, at every read, the value most recently
  assigned before it.  Core Lean only.
-/
import ALV.Model.C16
import ALV.Spec.C16

namespace ALV.C16
variable {β : Type}

theorem lastAssigned_cons (init : β) (op : COp β) (h : List (COp β)) :
    lastAssigned init (op :: h) = lastAssigned (cstep init op).1 h := by
  cases op <;> rfl

theorem cspec_cons (init : β) (op : COp β) (ops : List (COp β)) :
    cspec init (op :: ops) = (cstep init op).2 :: cspec (cstep init op).1 ops := by
  unfold cspec
  rw [List.length_cons, List.range_succ_eq_map, List.map_cons, List.map_map]
  congr 1
  · cases op <;> simp [cstep, lastAssigned]
  · apply List.map_congr_left
    intro k _
    simp only [Function.comp, List.getElem?_cons_succ, List.take_succ_cons, lastAssigned_cons]

theorem crun_eq_cspec : ∀ (ops : List (COp β)) (init : β), crun init ops = cspec init ops
  | [], _ => by simp [crun, cspec]
  | op :: ops, init => by
    rw [cspec_cons, crun, crun_eq_cspec ops]

end ALV.C16
