/-
  C08 — lemmas for the histories: prefixes / failing sources, read counts, caller edits,
  live sources.  Core Lean only.
-/
import ALV.Lemmas.C08
import ALV.Model.C08Hist
import ALV.Spec.C08Hist
namespace ALV.C08
variable {α : Type}

/-! ### one step of the loop, in terms of the virtual remaining input -/

theorem bstep_none (size hop : Nat) (s : BState α) (x : α) (xs : List α) (inv : BInv size s)
    (h : (bstep size hop s x).2 = none) :
    virt s (x :: xs) = virt (bstep size hop s x).1 xs := by
  obtain ⟨hlt, hlen, hle⟩ := inv
  unfold bstep at h ⊢
  by_cases hneg : s.idx < 0
  · simp only [if_pos hneg]
    unfold virt
    rw [if_pos hneg]
    by_cases h1 : s.idx + 1 < 0
    · rw [if_pos h1]
      have : (-s.idx).toNat = (-(s.idx + 1)).toNat + 1 := by omega
      rw [this, List.drop_succ_cons]
    · rw [if_neg h1]
      have h2 : (-s.idx).toNat = 1 := by omega
      have h3 : (s.idx + 1).toNat = 0 := by omega
      rw [h2, h3]
      simp [lastN]
  · have h0 : 0 ≤ s.idx := by omega
    have hle' := hle h0
    simp only [if_neg hneg] at h ⊢
    by_cases hy : s.idx = (size:Int) - 1
    · simp [if_pos hy] at h
    · simp only [if_neg hy]
      unfold virt
      have h1 : ¬ (s.idx + 1 < 0) := by omega
      rw [if_neg hneg, if_neg h1]
      have h2 : (s.idx + 1).toNat = s.idx.toNat + 1 := by omega
      rw [h2, dqPush_lastN size s.res x _ (by omega) (by omega), lastN_snoc _ _ _ hle']
      simp

theorem bstep_some (size hop : Nat) (s : BState α) (x : α) (xs : List α) (inv : BInv size s)
    (b : List α) (h : (bstep size hop s x).2 = some b) :
    b.length = size ∧ virt s (x :: xs) = b ++ xs ∧ (bstep size hop s x).1 = ⟨b, (size:Int) - hop⟩ := by
  obtain ⟨hlt, hlen, hle⟩ := inv
  unfold bstep at h ⊢
  by_cases hneg : s.idx < 0
  · simp [if_pos hneg] at h
  · have h0 : 0 ≤ s.idx := by omega
    have hle' := hle h0
    simp only [if_neg hneg] at h ⊢
    by_cases hy : s.idx = (size:Int) - 1
    · simp only [if_pos hy, Option.some.injEq] at h ⊢
      subst h
      have hw : (lastN s.res s.idx.toNat).length = s.idx.toNat := lastN_length _ _ hle'
      have hk : s.idx.toNat + 1 = size := by omega
      have hblk : dqPush size s.res x = lastN s.res s.idx.toNat ++ [x] := by
        have h1 := dqPush_lastN size s.res x size (Nat.le_refl _) (by omega)
        have h2 : lastN (dqPush size s.res x) size = dqPush size s.res x := by
          unfold lastN
          rw [dqPush_length]
          have : min (s.res.length + 1) size - size = 0 := by omega
          rw [this, List.drop_zero]
        rw [← h2, h1, ← hk, lastN_snoc _ _ _ hle']
      refine ⟨?_, ?_, rfl⟩
      · rw [hblk, List.length_append, hw]; simpa using hk
      · unfold virt
        rw [if_neg hneg, hblk]
        simp
    · simp [if_neg hy] at h

/-- the state right after a yield (deque = the `size` items `b`, idx = size - hop) stands for the
virtual input `(b ++ xs).drop hop` -/
theorem virt_yielded (size hop : Nat) (b : List α) (hb : b.length = size) (xs : List α) :
    virt (⟨b, (size:Int) - hop⟩ : BState α) xs = (b ++ xs).drop hop := by
  unfold virt
  by_cases hgt : ((size:Int) - hop) < 0
  · simp only [if_pos hgt]
    have : hop = size + (-((size:Int) - hop)).toNat := by omega
    rw [List.drop_append]
    conv => rhs; rw [this]
    rw [hb]
    have hd : List.drop (size + (-((size:Int) - ↑hop)).toNat) b = [] := by
      apply List.drop_of_length_le; omega
    rw [hd, List.nil_append]
    congr 1
    omega
  · simp only [if_neg hgt]
    rw [List.drop_append_of_le_length (by rw [hb]; omega)]
    congr 1
    unfold lastN
    rw [hb]
    congr 1
    omega

theorem binv_yielded (size hop : Nat) (hs : 0 < size) (hh : 0 < hop) (b : List α) (hb : b.length = size) :
    BInv size (⟨b, (size:Int) - hop⟩ : BState α) :=
  ⟨show (size:Int) - hop < size by omega, by show b.length ≤ size; omega,
   fun _ => by show ((size:Int) - hop).toNat ≤ b.length; omega⟩

theorem binv_init (size : Nat) (hs : 0 < size) : BInv size (⟨[], 0⟩ : BState α) :=
  ⟨by simpa using hs, by simp, fun _ => by simp⟩

/-! ### complete blocks of a prefix -/

theorem fullBlocks_short (size hop : Nat) (v : List α) (h : v.length < size) :
    fullBlocks size hop v = [] := by
  simp [fullBlocks, nFull, h]

theorem fullBlocks_step (size hop : Nat) (hs : 0 < size) (hh : 0 < hop) (v : List α)
    (h : size ≤ v.length) :
    fullBlocks size hop v = v.take size :: fullBlocks size hop (v.drop hop) := by
  unfold fullBlocks
  simp only [List.length_drop]
  rw [nFull_step size hop v.length hs hh h]
  simp only [List.range_succ_eq_map, List.map_cons, List.map_map, Nat.zero_mul, List.drop_zero,
    List.drop_drop]
  congr 1
  apply List.map_congr_left
  intro k _
  have e2 : hop + k * hop = (k + 1) * hop := by rw [Nat.add_mul]; omega
  simp only [Function.comp, Nat.succ_eq_add_one, e2]

theorem virt_nil_length (size : Nat) (s : BState α) (inv : BInv size s) (hs : 0 < size) :
    (virt s []).length < size := by
  obtain ⟨hlt, hlen, hle⟩ := inv
  unfold virt
  by_cases hneg : s.idx < 0
  · simp [if_pos hneg, hs]
  · rw [if_neg hneg, List.append_nil, lastN_length _ _ (hle (by omega))]
    omega

/-- the blocks handed out while consuming `xs` (no end-of-input clause) are the complete blocks of
the virtual input -/
theorem bloop_full (size hop : Nat) (hs : 0 < size) (hh : 0 < hop) :
    ∀ (xs : List α) (s : BState α), BInv size s →
      (bloop size hop s xs).1 = fullBlocks size hop (virt s xs) := by
  intro xs
  induction xs with
  | nil =>
    intro s inv
    rw [fullBlocks_short size hop _ (virt_nil_length size s inv hs)]
    rfl
  | cons x xs ih =>
    intro s inv
    have inv' := bstep_inv size hop hs hh s x inv
    show (bstep size hop s x).2.toList ++ (bloop size hop (bstep size hop s x).1 xs).1 = _
    rw [ih _ inv']
    cases hr : (bstep size hop s x).2 with
    | none => rw [bstep_none size hop s x xs inv hr]; rfl
    | some b =>
      obtain ⟨hb, hv, hst⟩ := bstep_some size hop s x xs inv b hr
      rw [hv, fullBlocks_step size hop hs hh (b ++ xs) (by rw [List.length_append]; omega),
        List.take_left' hb, hst, virt_yielded size hop b hb xs]
      rfl

theorem bloop_append (size hop : Nat) : ∀ (pre suf : List α) (s : BState α),
    bloop size hop s (pre ++ suf) =
      ((bloop size hop s pre).1 ++ (bloop size hop (bloop size hop s pre).2 suf).1,
       (bloop size hop (bloop size hop s pre).2 suf).2) := by
  intro pre
  induction pre with
  | nil => intro suf s; simp [bloop]
  | cons x pre ih =>
    intro suf s
    simp only [List.cons_append, bloop, ih, List.append_assoc]

/-! ### events: blocks with the number of items pulled -/

theorem bloopEv_snd (size hop : Nat) : ∀ (xs : List α) (s : BState α) (n : Nat),
    (bloopEv size hop s n xs).1.map Prod.snd = (bloop size hop s xs).1 ∧
    (bloopEv size hop s n xs).2 = (bloop size hop s xs).2 := by
  intro xs
  induction xs with
  | nil => intro s n; simp [bloopEv, bloop]
  | cons x xs ih =>
    intro s n
    obtain ⟨h1, h2⟩ := ih (bstep size hop s x).1 (n + 1)
    simp only [bloopEv, bloop, List.map_append, h1, h2, List.map_map, and_true]
    congr 1
    cases (bstep size hop s x).2 <;> simp

theorem bloopEv_fst (size hop : Nat) : ∀ (xs : List α) (s : BState α) (n : Nat),
    (bloopEv size hop s n xs).1.map Prod.fst = bloopReads size hop s n xs := by
  intro xs
  induction xs with
  | nil => intro s n; simp [bloopEv, bloopReads]
  | cons x xs ih =>
    intro s n
    simp only [bloopEv, bloopReads, List.map_append, ih, List.map_map]
    congr 1
    cases (bstep size hop s x).2 <;> simp

theorem nFull_succ (d hop len : Nat) :
    nFull (d + 1) hop (len + 1) = nFull d hop len := by
  unfold nFull
  by_cases h : len < d
  · rw [if_pos h, if_pos (by omega)]
  · rw [if_neg h, if_neg (by omega)]
    have : len + 1 - (d + 1) = len - d := by omega
    rw [this]

theorem nFull_one (hop len : Nat) (hh : 0 < hop) :
    nFull 1 hop (len + 1) = nFull hop hop len + 1 := by
  unfold nFull
  rw [if_neg (by omega)]
  have e : len + 1 - 1 = len := by omega
  rw [e]
  by_cases h : len < hop
  · rw [if_pos h, Nat.div_eq_of_lt h]
  · rw [if_neg h]
    have : len = (len - hop) + hop := by omega
    conv => lhs; rw [this, Nat.add_div_right _ hh]

/-- read counts from any state: the next block comes after `d = size - idx` more items, the
following ones every `hop` items -/
theorem bloopReads_closed (size hop : Nat) (hs : 0 < size) (hh : 0 < hop) :
    ∀ (xs : List α) (s : BState α) (n : Nat), s.idx < size →
      bloopReads size hop s n xs =
        (List.range (nFull ((size:Int) - s.idx).toNat hop xs.length)).map
          fun k => n + ((size:Int) - s.idx).toNat + k * hop := by
  intro xs
  induction xs with
  | nil =>
    intro s n hlt
    have : nFull ((size:Int) - s.idx).toNat hop 0 = 0 := by
      unfold nFull; rw [if_pos (by omega)]
    simp [bloopReads, this]
  | cons x xs ih =>
    intro s n hlt
    unfold bloopReads
    simp only
    unfold bstep
    by_cases hneg : s.idx < 0
    · simp only [if_pos hneg, List.nil_append]
      rw [ih ⟨s.res, s.idx + 1⟩ (n + 1) (by show s.idx + 1 < (size:Int); omega)]
      dsimp only
      show _ = List.map _ (List.range (nFull _ hop (xs.length + 1)))
      have hd : ((size:Int) - s.idx).toNat = ((size:Int) - (s.idx + 1)).toNat + 1 := by omega
      rw [hd, nFull_succ _ hop _]
      apply List.map_congr_left
      intro k _
      omega
    · simp only [if_neg hneg]
      by_cases hy : s.idx = (size:Int) - 1
      · simp only [if_pos hy]
        rw [ih ⟨dqPush size s.res x, (size:Int) - hop⟩ (n + 1) (by show (size:Int) - hop < (size:Int); omega)]
        dsimp only
        show _ = List.map _ (List.range (nFull _ hop (xs.length + 1)))
        have hd : ((size:Int) - s.idx).toNat = 1 := by omega
        have hd' : ((size:Int) - ((size:Int) - hop)).toNat = hop := by omega
        rw [hd, hd', nFull_one hop _ hh, List.range_succ_eq_map]
        simp only [List.map_cons, List.map_map, Nat.zero_mul, Nat.add_zero, List.singleton_append]
        congr 1
        apply List.map_congr_left
        intro k _
        simp only [Function.comp, Nat.succ_eq_add_one, Nat.add_mul, Nat.one_mul]
        omega
      · simp only [if_neg hy, List.nil_append]
        rw [ih ⟨dqPush size s.res x, s.idx + 1⟩ (n + 1) (by show s.idx + 1 < (size:Int); omega)]
        dsimp only
        show _ = List.map _ (List.range (nFull _ hop (xs.length + 1)))
        have hd : ((size:Int) - s.idx).toNat = ((size:Int) - (s.idx + 1)).toNat + 1 := by omega
        rw [hd, nFull_succ _ hop _]
        apply List.map_congr_left
        intro k _
        omega

/-! ### the caller edits the yielded container -/

theorem mutSpec_short (size hop : Nat) (pad : α) (edit : Nat → LenPres α) (k : Nat) (v : List α)
    (h : v.length < size) : mutSpec size hop pad edit k v = blocksSpec size hop pad v := by
  rw [mutSpec, blocksSpec, dif_pos (Or.inl h), dif_pos (Or.inl h)]

theorem mutSpec_step (size hop : Nat) (hs : 0 < size) (hh : 0 < hop) (pad : α) (edit : Nat → LenPres α)
    (k : Nat) (v : List α) (h : size ≤ v.length) :
    mutSpec size hop pad edit k v =
      v.take size :: mutSpec size hop pad edit (k + 1) (((edit k).1 (v.take size) ++ v.drop size).drop hop) := by
  rw [mutSpec, dif_neg (by omega)]

theorem bloopMut_spec (size hop : Nat) (hs : 0 < size) (hh : 0 < hop) (pad : α) (edit : Nat → LenPres α) :
    ∀ (xs : List α) (s : BState α) (k : Nat), BInv size s →
      (bloopMut size hop (fun k => (edit k).1) s k xs).1 ++
          btail size hop pad (bloopMut size hop (fun k => (edit k).1) s k xs).2 =
        mutSpec size hop pad edit k (virt s xs) := by
  intro xs
  induction xs with
  | nil =>
    intro s k inv
    rw [mutSpec_short size hop pad edit k _ (virt_nil_length size s inv hs)]
    simp [bloopMut, btail_eq size hop hs pad s inv]
  | cons x xs ih =>
    intro s k inv
    cases hr : (bstep size hop s x).2 with
    | none =>
      have inv' := bstep_inv size hop hs hh s x inv
      rw [bstep_none size hop s x xs inv hr, ← ih _ k inv']
      simp only [bloopMut, hr]
    | some b =>
      obtain ⟨hb, hv, hst⟩ := bstep_some size hop s x xs inv b hr
      have he : ((edit k).1 b).length = size := by rw [(edit k).2, hb]
      have inv' := binv_yielded size hop hs hh ((edit k).1 b) he
      rw [hv, mutSpec_step size hop hs hh pad edit k (b ++ xs) (by rw [List.length_append]; omega),
        List.take_left' hb, List.drop_left' hb, ← virt_yielded size hop _ he xs, ← ih _ (k + 1) inv']
      simp only [bloopMut, hr, hst, List.cons_append]

/-! ### live source -/

theorem nFull_of_phase (size hop i ph : Nat) (idx : Int)
    (hi : (i : Int) = (ph * hop : Nat) + idx) (hlt : idx < size)
    (h0 : ph = 0 → 0 ≤ idx) (h1 : 0 < ph → (size : Int) - hop ≤ idx) :
    nFull size hop i = ph := by
  unfold nFull
  cases ph with
  | zero =>
    have := h0 rfl
    rw [if_pos (by omega)]
  | succ p =>
    have h1' := h1 (by omega)
    have e : (p + 1) * hop = p * hop + hop := by rw [Nat.add_mul]; omega
    rw [e] at hi
    generalize hP : p * hop = P at hi
    rw [if_neg (by omega)]
    have : (i - size) / hop = p := by
      apply Nat.div_eq_of_lt_le
      · rw [hP]; omega
      · rw [Nat.add_mul, hP]; omega
    omega

structure LInv (size hop : Nat) (s : BState α) (i ph : Nat) : Prop where
  pos : (i : Int) = (ph * hop : Nat) + s.idx
  lt : s.idx < size
  first : ph = 0 → 0 ≤ s.idx
  later : 0 < ph → (size : Int) - hop ≤ s.idx

theorem bstep_linv (size hop : Nat) (hs : 0 < size) (hh : 0 < hop) (s : BState α) (x : α) (i ph : Nat)
    (inv : LInv size hop s i ph) :
    LInv size hop (bstep size hop s x).1 (i + 1) (ph + (bstep size hop s x).2.toList.length) := by
  obtain ⟨hpos, hlt, h0, h1⟩ := inv
  unfold bstep
  by_cases hneg : s.idx < 0
  · simp only [if_pos hneg, Option.toList_none, List.length_nil, Nat.add_zero]
    refine ⟨?_, ?_, ?_, ?_⟩
    · show ((i + 1 : Nat) : Int) = (ph * hop : Nat) + (s.idx + 1); omega
    · show s.idx + 1 < size; omega
    · intro h; have := h0 h; omega
    · intro h; have := h1 h; show (size : Int) - hop ≤ s.idx + 1; omega
  · simp only [if_neg hneg]
    by_cases hy : s.idx = (size:Int) - 1
    · simp only [if_pos hy, Option.toList_some, List.length_cons, List.length_nil, Nat.zero_add]
      have e : (ph + 1) * hop = ph * hop + hop := by rw [Nat.add_mul]; omega
      refine ⟨?_, ?_, ?_, ?_⟩
      · show ((i + 1 : Nat) : Int) = ((ph + 1) * hop : Nat) + ((size : Int) - hop)
        rw [e]; omega
      · show (size : Int) - hop < size; omega
      · intro h; omega
      · intro _; show (size : Int) - hop ≤ (size : Int) - hop; omega
    · simp only [if_neg hy, Option.toList_none, List.length_nil, Nat.add_zero]
      refine ⟨?_, ?_, ?_, ?_⟩
      · show ((i + 1 : Nat) : Int) = (ph * hop : Nat) + (s.idx + 1); omega
      · show s.idx + 1 < size; omega
      · intro _; show (0 : Int) ≤ s.idx + 1; omega
      · intro h; have := h1 h; show (size : Int) - hop ≤ s.idx + 1; omega

/-- over a live source the loop behaves as over the fixed sequence whose item `j` is what the source
delivers when `nFull size hop j` blocks have been handed out -/
theorem bloopLive_eq (size hop : Nat) (hs : 0 < size) (hh : 0 < hop) (item : Nat → Nat → α) :
    ∀ (n : Nat) (s : BState α) (i ph : Nat), LInv size hop s i ph →
      bloopLive size hop item s i ph n =
        bloop size hop s ((List.range' i n).map fun j => item j (nFull size hop j)) := by
  intro n
  induction n with
  | zero => intro s i ph _; simp [bloopLive, bloop]
  | succ n ih =>
    intro s i ph inv
    have hph : nFull size hop i = ph := nFull_of_phase size hop i ph s.idx inv.pos inv.lt inv.first inv.later
    simp only [bloopLive, List.range'_succ, List.map_cons, bloop, hph]
    rw [ih _ _ _ (bstep_linv size hop hs hh s (item i ph) i ph inv)]

/-! ### corollaries used by the property theorems -/

theorem bloopMut_id (size hop : Nat) : ∀ (xs : List α) (s : BState α) (k : Nat),
    bloopMut size hop (fun _ b => b) s k xs = bloop size hop s xs := by
  intro xs
  induction xs with
  | nil => intro s k; rfl
  | cons x xs ih =>
    intro s k
    unfold bloopMut bloop
    simp only
    unfold bstep
    by_cases hneg : s.idx < 0
    · simp only [if_pos hneg, ih, Option.toList_none, List.nil_append]
    · simp only [if_neg hneg]
      by_cases hy : s.idx = (size:Int) - 1
      · simp only [if_pos hy, ih, Option.toList_some, List.singleton_append]
      · simp only [if_neg hy, ih, Option.toList_none, List.nil_append]

theorem mutSpec_hop_ge (size hop : Nat) (hs : 0 < size) (hh : 0 < hop) (hge : size ≤ hop) (pad : α)
    (edit : Nat → LenPres α) :
    ∀ (n : Nat) (v : List α) (k : Nat), v.length = n →
      mutSpec size hop pad edit k v = blocksSpec size hop pad v := by
  intro n
  induction n using Nat.strongRecOn with
  | _ n ih =>
    intro v k hn
    by_cases hc : v.length < size
    · exact mutSpec_short size hop pad edit k v hc
    · rw [mutSpec_step size hop hs hh pad edit k v (by omega), blocksSpec, dif_neg (by omega)]
      congr 1
      have he : ((edit k).1 (v.take size)).length = size := by
        rw [(edit k).2, List.length_take]; omega
      have hd : ((edit k).1 (List.take size v) ++ List.drop size v).drop hop = v.drop hop := by
        rw [List.drop_append, he, List.drop_of_length_le (by omega), List.nil_append, List.drop_drop]
        congr 1; omega
      rw [hd]
      apply ih (v.drop hop).length _ _ _ rfl
      simp only [List.length_drop]; omega

end ALV.C08
