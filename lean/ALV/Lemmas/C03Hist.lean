/-
  C03 — `hist` histories: method calls interleaved with what the caller does to the containers
  he owns (those handed out by take / peek / list(), and the lists he passes in).

  * `hrun_refines_from` : the heap-of-iterators model with the caller's lists refines the list
    model with the caller's lists, for every history (every step, and the lists at the end);
  * `hrun_plain`        : when the caller only mutates (never passes a container back in), the
    observations of the method calls are those of the plain history without the mutations;
  * `hstep_lists_frame` : no method call writes into a container of the caller;
  * `hstep_mut_state`   : a mutation by the caller changes no stream.
-/
import ALV.Lemmas.C03Run

namespace ALV.C03
variable {α : Type}

def HOp.Fin : HOp α → Prop
  | .op o => o.Fin
  | _ => True

/-- the operation on streams that a `hist` step performs (none for `lit`, `mut`, a missing list) -/
def HOp.resolve (ls : List (List α)) : HOp α → Option (Op α)
  | .op o => some o
  | .lit _ => none
  | .edit _ _ => none
  | .newRef j => (ls[j]?).map fun xs => .new (.list xs)
  | .appendRef i j => (ls[j]?).map fun xs => .append i (.list xs)
  | .thubRef j n => (ls[j]?).map fun xs => .thub (.list xs) n

theorem resolve_fin {ls : List (List α)} {hop : HOp α} {o : Op α} (hf : hop.Fin)
    (h : hop.resolve ls = some o) : o.Fin := by
  cases hop with
  | op o' => simp [HOp.resolve] at h; subst h; exact hf
  | lit xs => simp [HOp.resolve] at h
  | edit j m => simp [HOp.resolve] at h
  | newRef j =>
    simp [HOp.resolve] at h; obtain ⟨xs, _, rfl⟩ := h; trivial
  | appendRef i j =>
    simp [HOp.resolve] at h; obtain ⟨xs, _, rfl⟩ := h; trivial
  | thubRef j n =>
    simp [HOp.resolve] at h; obtain ⟨xs, _, rfl⟩ := h; trivial

/-- a step that resolves to a stream operation is that operation, the container kept -/
theorem hstep_resolve {f : Nat} {s : HSt α} {hop : HOp α} {o : Op α}
    (h : hop.resolve s.lists = some o) : hstep f s hop = stepKeep f s o := by
  cases hop with
  | op o' => simp [HOp.resolve] at h; subst h; rfl
  | lit xs => simp [HOp.resolve] at h
  | edit j m => simp [HOp.resolve] at h
  | newRef j =>
    simp [HOp.resolve] at h; obtain ⟨xs, hx, rfl⟩ := h; simp [hstep, hx]
  | appendRef i j =>
    simp [HOp.resolve] at h; obtain ⟨xs, hx, rfl⟩ := h; simp [hstep, hx]
  | thubRef j n =>
    simp [HOp.resolve] at h; obtain ⟨xs, hx, rfl⟩ := h; simp [hstep, hx]

theorem hspecStep_resolve {s : HSp α} {hop : HOp α} {o : Op α}
    (h : hop.resolve s.lists = some o) : hspecStep s hop = specKeep s o := by
  cases hop with
  | op o' => simp [HOp.resolve] at h; subst h; rfl
  | lit xs => simp [HOp.resolve] at h
  | edit j m => simp [HOp.resolve] at h
  | newRef j =>
    simp [HOp.resolve] at h; obtain ⟨xs, hx, rfl⟩ := h; simp [hspecStep, hx]
  | appendRef i j =>
    simp [HOp.resolve] at h; obtain ⟨xs, hx, rfl⟩ := h; simp [hspecStep, hx]
  | thubRef j n =>
    simp [HOp.resolve] at h; obtain ⟨xs, hx, rfl⟩ := h; simp [hspecStep, hx]

/-- a step that resolves to nothing does not look at the streams at all -/
theorem hstep_unresolved {f : Nat} {s : HSt α} {hop : HOp α} (h : hop.resolve s.lists = none) :
    ∃ ls o, hstep f s hop = some (⟨s.st, ls⟩, o) ∧
      ∀ sp : SPool α, hspecStep ⟨sp, s.lists⟩ hop = some (⟨sp, ls⟩, o) := by
  cases hop with
  | op o' => simp [HOp.resolve] at h
  | lit xs => exact ⟨_, _, rfl, fun _ => rfl⟩
  | edit j m =>
    cases hx : s.lists[j]? with
    | none => exact ⟨s.lists, .err "nolist", by simp [hstep, hx], fun sp => by simp [hspecStep, hx]⟩
    | some xs =>
      exact ⟨s.lists.set j (m.apply xs), .unit, by simp [hstep, hx], fun sp => by simp [hspecStep, hx]⟩
  | newRef j =>
    simp [HOp.resolve] at h
    exact ⟨s.lists, .err "nolist", by simp [hstep, h], fun sp => by simp [hspecStep, h]⟩
  | appendRef i j =>
    simp [HOp.resolve] at h
    exact ⟨s.lists, .err "nolist", by simp [hstep, h], fun sp => by simp [hspecStep, h]⟩
  | thubRef j n =>
    simp [HOp.resolve] at h
    exact ⟨s.lists, .err "nolist", by simp [hstep, h], fun sp => by simp [hspecStep, h]⟩

/-- histories with the caller's lists: model = list model, observations and final lists -/
theorem hrun_refines_from {E : List (List α)} {st : St α} {sp : SPool α} (R : Rel E st sp)
    (ls : List (List α)) (hops : List (HOp α)) (hfin : ∀ hop, hop ∈ hops → hop.Fin) :
    ∃ F, ∀ f, F ≤ f → hrun f ⟨st, ls⟩ hops = hspecRun ⟨sp, ls⟩ hops := by
  induction hops generalizing E st sp ls with
  | nil => exact ⟨0, fun f _ => rfl⟩
  | cons hop hops ih =>
    have hrest : ∀ x, x ∈ hops → x.Fin := fun x hx => hfin x (by simp [hx])
    cases hr : hop.resolve ls with
    | none =>
      obtain ⟨ls', o, h1, h2⟩ := hstep_unresolved (f := 0) (s := ⟨st, ls⟩) (hop := hop) hr
      obtain ⟨F, hF⟩ := ih R ls' hrest
      refine ⟨F, fun f hf => ?_⟩
      obtain ⟨ls'', o', h1', h2'⟩ := hstep_unresolved (f := f) (s := ⟨st, ls⟩) (hop := hop) hr
      have e := h2 sp
      have e' := h2' sp
      rw [e] at e'
      injection e' with e'
      injection e' with e1 e2
      injection e1 with _ e3
      subst e2 e3
      simp only [hrun, hspecRun, h1', e, hF f hf]
    | some o =>
      obtain ⟨E', F1, st', sp', ob, S⟩ := step_refines R o (resolve_fin (hfin hop (by simp)) hr)
      obtain ⟨F2, h2⟩ := ih S.rel (keep ls ob) hrest
      refine ⟨max F1 F2, fun f hf => ?_⟩
      have r1 := S.run f (Nat.le_trans (Nat.le_max_left _ _) hf)
      have r2 := h2 f (Nat.le_trans (Nat.le_max_right _ _) hf)
      have a : hstep f ⟨st, ls⟩ hop = some (⟨st', keep ls ob⟩, ob) := by
        rw [hstep_resolve (s := ⟨st, ls⟩) hr]; simp [stepKeep, r1]
      have b : hspecStep ⟨sp, ls⟩ hop = some (⟨sp', keep ls ob⟩, ob) := by
        rw [hspecStep_resolve (s := ⟨sp, ls⟩) hr]; simp [specKeep, S.spec]
      simp only [hrun, hspecRun, a, b, r2]

/-! ### mutations of containers that are never passed back in are invisible -/

/-- the caller only keeps / builds / mutates containers; he passes none of them to a stream -/
def HOp.NoRef : HOp α → Prop
  | .op _ => True
  | .lit _ => True
  | .edit _ _ => True
  | _ => False

def HOp.plain : HOp α → Option (Op α)
  | .op o => some o
  | _ => none

/-- the observations of the method calls of a `hist` run (its `op` steps) -/
def opObs : List (HOp α) → List (Option (Obs α)) → List (Option (Obs α))
  | .op _ :: hs, o :: os => o :: opObs hs os
  | _ :: hs, _ :: os => opObs hs os
  | _, _ => []

theorem hrun_plain (f : Nat) (st : St α) (ls : List (List α)) (hops : List (HOp α))
    (h : ∀ hop, hop ∈ hops → hop.NoRef) :
    opObs hops (hrun f ⟨st, ls⟩ hops).1 = run f st (hops.filterMap HOp.plain) := by
  induction hops generalizing st ls with
  | nil => rfl
  | cons hop hops ih =>
    have hrest : ∀ x, x ∈ hops → x.NoRef := fun x hx => h x (by simp [hx])
    cases hop with
    | op o =>
      cases hs : step f st o with
      | none => simp [hrun, hstep, stepKeep, hs, opObs, HOp.plain, run]
      | some r =>
        obtain ⟨st', ob⟩ := r
        have := ih st' (keep ls ob) hrest
        simp [hrun, hstep, stepKeep, hs, opObs, HOp.plain, run, this]
    | lit xs =>
      have := ih st (ls ++ [xs]) hrest
      rw [List.filterMap_cons]
      simp [hrun, hstep, opObs, HOp.plain, this]
    | edit j m =>
      cases hx : ls[j]? with
      | none =>
        have := ih st ls hrest
        rw [List.filterMap_cons]
        simp [hrun, hstep, hx, opObs, HOp.plain, this]
      | some xs =>
        have := ih st (ls.set j (m.apply xs)) hrest
        rw [List.filterMap_cons]
        simp [hrun, hstep, hx, opObs, HOp.plain, this]
    | newRef j => exact (h (.newRef j) (by simp)).elim
    | appendRef i j => exact (h (.appendRef i j) (by simp)).elim
    | thubRef j n => exact (h (.thubRef j n) (by simp)).elim

/-- no method call writes into a container of the caller: every step except the caller's own
    `mut` leaves the existing lists as they are (it can only add new ones) -/
theorem hstep_lists_frame {f : Nat} {s s' : HSt α} {hop : HOp α} {o : Obs α}
    (h : hstep f s hop = some (s', o)) (hm : ∀ j m, hop ≠ .edit j m) :
    ∃ extra, s'.lists = s.lists ++ extra := by
  have key : ∀ op, stepKeep f s op = some (s', o) → ∃ extra, s'.lists = s.lists ++ extra := by
    intro op hk
    simp only [stepKeep] at hk
    split at hk
    · cases hk
    · injection hk with hk; injection hk with h1 h2
      subst h1 h2
      rename_i st' ob _
      cases ob with
      | items vs => exact ⟨[vs], rfl⟩
      | _ => exact ⟨[], by simp [keep]⟩
  cases hop with
  | op op => exact key op h
  | lit xs => simp [hstep] at h; obtain ⟨rfl, _⟩ := h; exact ⟨[xs], rfl⟩
  | edit j m => exact absurd rfl (hm j m)
  | newRef j =>
    simp only [hstep] at h
    split at h
    · injection h with h; injection h with h1 _; subst h1; exact ⟨[], by simp⟩
    · exact key _ h
  | appendRef i j =>
    simp only [hstep] at h
    split at h
    · injection h with h; injection h with h1 _; subst h1; exact ⟨[], by simp⟩
    · exact key _ h
  | thubRef j n =>
    simp only [hstep] at h
    split at h
    · injection h with h; injection h with h1 _; subst h1; exact ⟨[], by simp⟩
    · exact key _ h

/-- a mutation by the caller changes no stream (the state of every object is what it was) -/
theorem hstep_mut_state (f : Nat) (s : HSt α) (j : Nat) (m : Mut α) :
    ∃ s' o, hstep f s (.edit j m) = some (s', o) ∧ s'.st = s.st ∧ s'.lists.length = s.lists.length := by
  cases hx : s.lists[j]? with
  | none => exact ⟨s, .err "nolist", by simp [hstep, hx], rfl, rfl⟩
  | some xs => exact ⟨⟨s.st, s.lists.set j (m.apply xs)⟩, .unit, by simp [hstep, hx], rfl, by simp⟩

end ALV.C03
