/-
  C04 — helper lemmas, part 8: coefficient kinds.  The special-cased summands against the plain
  products, the open unit test, the Gaussian rationals as an instance, ring homomorphisms.
-/
import ALV.Lemmas.C04Field
import ALV.Lemmas.C04Pipeline
import ALV.Lemmas.C12Gauss
import ALV.Model.C04Cx

set_option linter.unusedSectionVars false
set_option linter.unusedSimpArgs false

namespace ALV.C04
variable {K : Type} [Field K] [DecidableEq K]

/-! ### plain products -/

theorem sumAtoms_plainNum (e : Env K) (b : List K) (k : Nat) :
    sumAtoms e (plainNum k b) = dot b (e.d.drop k) := by
  induction b generalizing k with
  | nil => simp [plainNum, sumAtoms, dot]
  | cons c cs ih =>
    simp only [plainNum, sumAtoms, ih]
    by_cases hk : k < e.d.length
    · rw [getD_drop_cons _ _ hk]
      simp [dot, evalAtom, Env.get]
    · have h0 : e.d.drop k = [] := List.drop_eq_nil_of_le (by omega)
      have h1 : e.d.drop (k + 1) = [] := List.drop_eq_nil_of_le (by omega)
      have h2 : e.d[k]?.getD 0 = 0 := by
        simp [List.getElem?_eq_none (show e.d.length ≤ k by omega)]
      rw [h0, h1, dot_nil_right, dot_nil_right]
      simp [evalAtom, Env.get, h2]

theorem sumAtoms_plainDen (e : Env K) (as : List K) (k : Nat) :
    sumAtoms e (plainDen k as) = - dot as (e.m.drop k) := by
  induction as generalizing k with
  | nil => simp [plainDen, sumAtoms, dot]
  | cons c cs ih =>
    simp only [plainDen, sumAtoms, ih]
    by_cases hk : k < e.m.length
    · rw [getD_drop_cons _ _ hk]
      simp only [dot, neg_add]
      simp [evalAtom, Env.get]
    · have h0 : e.m.drop k = [] := List.drop_eq_nil_of_le (by omega)
      have h1 : e.m.drop (k + 1) = [] := List.drop_eq_nil_of_le (by omega)
      have h2 : e.m[k]?.getD 0 = 0 := by
        simp [List.getElem?_eq_none (show e.m.length ≤ k by omega)]
      rw [h0, h1, dot_nil_right, dot_nil_right]
      simp [evalAtom, Env.get, h2]

theorem evalSum_plain (b as : List K) (g x : K) (ms ds : List K) :
    evalSum (⟨g :: ms, x :: ds⟩ : Env K) (plainNum 0 b ++ plainDen 1 as)
      = dot b (x :: ds) - dot as ms := by
  rw [evalSum_eq, sumAtoms_append, sumAtoms_plainNum, sumAtoms_plainDen]
  simp [sub_eq_add_neg]

/-- `runLoop_eq_frun` for ANY summand list that evaluates to `Σ b_k d_k − Σ a_k m_k` -/
theorem runLoop_eq_frun_of (b as : List K) (a0 : K) (sum : List (Atom K)) (gain : Gain K)
    (hs : ∀ (g x : K) (ms ds : List K), evalSum (⟨g :: ms, x :: ds⟩ : Env K) sum
        = dot b (x :: ds) - dot as ms)
    (hg : ∀ s, applyGain gain s = s / a0) (xs : List K) :
    ∀ (g h : K) (ms ds : List K), ms.length = as.length → ds.length = b.length - 1 →
      runLoop sum gain (mShifts as.length ++ dShifts (b.length - 1)) ⟨g :: ms, h :: ds⟩ xs
        = frun b as a0 ⟨ms, ds⟩ xs := by
  induction xs with
  | nil => intros; simp [runLoop, frun]
  | cons x xs ih =>
    intro g h ms ds hm hd
    simp only [runLoop, frun, fstep, Env.set, List.set_cons_zero, runShifts_shifts]
    rw [hs, hg]
    congr 1
    rw [← hm, ← hd, shiftList_cons, shiftList_cons]
    have := ih ((dot b (x :: ds) - dot as ms) / a0) x
      (List.take ms.length ((dot b (x :: ds) - dot as ms) / a0 :: ms)) (List.take ds.length (x :: ds))
      (by simp [hm]) (by simp [hd])
    rw [← hm, ← hd] at this
    exact this

/-- the loop without special cases computes the difference equation (no exception at all) -/
theorem compilePlain_eq_fspec (b as : List K) (a0 zero : K) (mem xs : List K)
    (hmem : mem.length = as.length) :
    evalIR (compilePlain b (a0 :: as)) mem zero xs = fspec b as a0 zero mem [] xs := by
  have h1 := runLoop_eq_frun_of b as a0 (plainNum 0 b ++ plainDen 1 as) (Gain.div a0)
    (evalSum_plain b as) (fun s => rfl) xs 0 0 mem (List.replicate (b.length - 1) zero) hmem (by simp)
  have h2 := frun_eq_fspec b as a0 zero xs mem [] (by omega)
  rw [takeP_nil, ← hmem, List.take_length] at h2
  simp only [compilePlain, List.tail_cons, List.headD_cons, List.length_cons, Nat.add_sub_cancel,
    evalIR]
  rw [h1, h2]

/-! ### the open unit test -/

theorem numAtomsBy_code (k : Nat) (b : List K) : numAtomsBy isPlusMinusOne k b = numAtoms k b := by
  induction b generalizing k with
  | nil => rfl
  | cons c cs ih =>
    simp only [numAtomsBy, numAtoms, ih, isPlusMinusOne]
    congr 1
    by_cases h1 : c = 1
    · simp [h1]
    · by_cases h2 : c = -1
      · simp [h1, h2]
      · simp [h1, h2]

theorem denAtomsBy_code (k : Nat) (as : List K) : denAtomsBy isPlusMinusOne k as = denAtoms k as := by
  induction as generalizing k with
  | nil => rfl
  | cons c cs ih =>
    simp only [denAtomsBy, denAtoms, ih, isPlusMinusOne]
    congr 1
    by_cases h2 : c = -1
    · simp [h2]
    · by_cases h1 : c = 1
      · simp [h1, h2]
      · simp [h1, h2]

theorem compileBy_code (b a : List K) (zero : K) : compileBy isPlusMinusOne b a zero = compile b a zero := by
  simp only [compileBy, compile, numAtomsBy_code, denAtomsBy_code]

/-- value of one numerator summand under a unit test `u` -/
theorem evalSum_numAtomsBy_one (u : K → Bool) (c : K) (e : Env K) (k : Nat) :
    evalSum e (numAtomsBy u k [c]) =
      if u c = true then (if c = 1 then e.get (.d k) else - e.get (.d k))
      else c * e.get (.d k) := by
  simp only [numAtomsBy, List.append_nil]
  by_cases hu : u c = true
  · by_cases h1 : c = 1
    · subst h1; simp [hu, evalSum, evalAtom]
    · simp [hu, h1, evalSum, evalAtom]
  · by_cases h0 : c = 0
    · subst h0; simp [hu, evalSum]
    · simp [hu, h0, evalSum, evalAtom]

theorem evalSum_denAtomsBy_one (u : K → Bool) (c : K) (e : Env K) (k : Nat) :
    evalSum e (denAtomsBy u k [c]) =
      if u c = true then (if c = -1 then e.get (.m k) else - e.get (.m k))
      else -(c * e.get (.m k)) := by
  simp only [denAtomsBy, List.append_nil]
  by_cases hu : u c = true
  · by_cases h1 : c = -1
    · subst h1; simp [hu, evalSum, evalAtom]
    · simp [hu, h1, evalSum, evalAtom]
  · by_cases h0 : c = 0
    · subst h0; simp [hu, evalSum]
    · simp [hu, h0, evalSum, evalAtom]

/-! ### ring homomorphisms: the run over ℚ(i) is the run over ℂ -/
section hom
variable {L : Type} [Field L] (φ : K →+* L)

theorem dot_hom (c v : List K) : φ (dot c v) = dot (c.map φ) (v.map φ) := by
  induction c generalizing v with
  | nil => simp [dot]
  | cons a cs ih =>
    cases v with
    | nil => simp [dot]
    | cons x vs => simp [dot, ih]

theorem takeP_map (z : K) (n : Nat) (l : List K) :
    (takeP z n l).map φ = takeP (φ z) n (l.map φ) := by
  induction n generalizing l with
  | zero => simp [takeP]
  | succ n ih =>
    cases l with
    | nil => simpa [takeP] using ih []
    | cons x xs => simp [takeP, ih]

theorem fspec_hom (b as : List K) (a0 zero : K) (hy hx xs : List K) :
    (fspec b as a0 zero hy hx xs).map φ
      = fspec (b.map φ) (as.map φ) (φ a0) (φ zero) (hy.map φ) (hx.map φ) (xs.map φ) := by
  induction xs generalizing hy hx with
  | nil => simp [fspec]
  | cons x xs ih =>
    simp only [fspec, List.map_cons, List.length_map]
    rw [ih]
    simp only [List.map_cons, map_div₀, map_sub, dot_hom, takeP_map]

end hom

end ALV.C04
