/-
  C18 — helper lemmas: what the chunks contain when every item encodes, and the round trip
  "concatenate, cut every w bytes, decode".  Core Lean only.
-/
import ALV.Lemmas.C18Chunks
import ALV.Lemmas.C18Wav
namespace ALV.C18
variable {α ε : Type}

theorem packSeq_all_ok (enc : α → Except ε Bytes) (g : α → Bytes) (l : List α)
    (h : ∀ x ∈ l, enc x = .ok (g x)) : packSeq enc l = .ok ((l.map g).flatten) := by
  have hm : l.map enc = (l.map g).map Except.ok := by
    rw [List.map_map]
    exact List.map_congr_left h
  have := packSeq_ok_prefix enc l (l.map g) [] hm
  have hnil : packSeq enc ([] : List α) = .ok [] := rfl
  rw [hnil] at this
  simpa using this

theorem flatten_map_flatten {β γ : Type} (g : β → List γ) (bl : List (List β)) :
    (bl.map fun b => (b.map g).flatten).flatten = ((bl.flatten).map g).flatten := by
  induction bl with
  | nil => rfl
  | cons b bs ih => simp [ih]

theorem flatten_length_const {β γ : Type} (g : β → List γ) (w : Nat) (b : List β)
    (h : ∀ x ∈ b, (g x).length = w) : ((b.map g).flatten).length = b.length * w := by
  induction b with
  | nil => simp
  | cons x xs ih =>
    simp only [List.map_cons, List.flatten_cons, List.length_append, List.length_cons]
    rw [h x (by simp), ih (fun y hy => h y (by simp [hy])), Nat.add_mul, Nat.one_mul, Nat.add_comm]

theorem mem_padded (size : Nat) (pad : α) (xs : List α) (x : α) (h : x ∈ padded size pad xs) :
    x ∈ pad :: xs := by
  unfold padded at h
  rcases List.mem_append.mp h with h | h
  · exact List.mem_cons_of_mem _ h
  · rw [List.mem_replicate] at h
    rw [h.2]; exact List.mem_cons_self

theorem mem_of_mem_splitEvery (n : Nat) (hn : 0 < n) (l b : List α) (hb : b ∈ splitEvery n l) (x : α)
    (hx : x ∈ b) : x ∈ l := by
  rw [← splitEvery_flatten n hn l.length l rfl]
  exact List.mem_flatten.mpr ⟨b, hb, hx⟩

/-- the spec when every item of the sequence and the pad value encode -/
theorem chunksSpec_all_ok (enc : α → Except ε Bytes) (g : α → Bytes) (size : Nat) (hs : 0 < size)
    (pad : α) (xs : List α) (h : ∀ x ∈ pad :: xs, enc x = .ok (g x)) :
    chunksSpec enc size pad xs =
      ⟨(splitEvery size (padded size pad xs)).map (fun b => (b.map g).flatten), none⟩ := by
  unfold chunksSpec
  apply genMap_all_ok
  intro b hb
  apply packSeq_all_ok
  intro x hx
  exact h x (mem_padded size pad xs x (mem_of_mem_splitEvery size hs _ b hb x hx))

theorem padded_length (size : Nat) (pad : α) (xs : List α) :
    (padded size pad xs).length = xs.length + padLen size xs.length := by
  simp [padded]

/-- cut every `w` bytes and decode: inverse of "encode every item and concatenate" -/
theorem unpackSeq_flatten (dec : Bytes → Option α) (g : α → Bytes) (w : Nat) (hw : 0 < w) (l : List α)
    (h : ∀ x ∈ l, (g x).length = w ∧ dec (g x) = some x) :
    unpackSeq dec w ((l.map g).flatten) = some l := by
  unfold unpackSeq
  induction l with
  | nil => simp [splitEvery_nil]
  | cons x xs ih =>
    have hx := h x (by simp)
    rw [List.map_cons, List.flatten_cons, splitEvery_cons_block w hw _ _ hx.1, List.mapM_cons, hx.2,
      ih (fun y hy => h y (by simp [hy]))]
    rfl

theorem padLen_lt_size (size len : Nat) (hs : 0 < size) : padLen size len < size :=
  Nat.mod_lt _ hs

/-- `padLen size len` is `(−len) mod size` -/
theorem padLen_eq_neg_emod (size len : Nat) (hs : 0 < size) :
    ((padLen size len : Nat) : Int) = (-(len : Int)) % (size : Int) := by
  obtain ⟨q, hq⟩ := padLen_dvd size len hs
  have hlt := padLen_lt_size size len hs
  have h1 : (-(len : Int)) = (padLen size len : Int) + (size : Int) * (-(q : Int)) := by
    have : ((len + padLen size len : Nat) : Int) = ((size * q : Nat) : Int) := by rw [hq]
    rw [Int.natCast_add, Int.natCast_mul] at this
    rw [Int.mul_neg]
    omega
  rw [h1, Int.add_mul_emod_self_left]
  exact (Int.emod_eq_of_lt (by omega) (by omega)).symm

end ALV.C18
