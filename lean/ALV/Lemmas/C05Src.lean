/-
  C05 — the regenerated definitions (`ALV/Gen/C05Src.lean`, written by `harness/props/c05_tr.py` from the source
  text of `audiolazy/lazy_filters.py`) ARE the hand-written model functions of `ALV/Model/C05.lean`.
  Core Lean only.
-/
import ALV.Gen.C05Src
import ALV.Model.C05Lin
import ALV.Model.C05List
set_option linter.unusedSectionVars false
namespace ALV.C05.Src
open ALV.C07
variable {α : Type} [Add α] [Mul α] [Sub α] [Neg α] [Div α] [OfNat α 0] [OfNat α 1] [DecidableEq α]

local notation "R" => Except PyErr (ZF α)

theorem ofPolys_is_model : (ALV.Gen.C05.ofPolys : MPoly α → MPoly α → R) = ALV.C05.ofPolys := rfl
theorem defaultDen_is_model : (ALV.Gen.C05.defaultDen : MPoly α) = C07.mk [(0, 1)] := rfl
theorem ofScalar_is_model (c : α) : ALV.Gen.C05.ofPolys (C07.ofList [c]) ALV.Gen.C05.defaultDen = ALV.C05.ofScalar c := rfl
theorem z_is_model : (ALV.Gen.C05.z : R) = ALV.C05.z := rfl
theorem eq_is_model : (ALV.Gen.C05.eq : ZF α → ZF α → Bool) = ALV.C05.eq := rfl
theorem ne_is_model : (ALV.Gen.C05.ne : ZF α → ZF α → Bool) = ALV.C05.neFixed := rfl
theorem hashKey_is_model : (ALV.Gen.C05.hashKey : ZF α → List Int) = ALV.C05.hashKey := rfl
theorem neg_is_model : (ALV.Gen.C05.neg : ZF α → R) = ALV.C05.neg := rfl
theorem pos_is_model : (ALV.Gen.C05.pos : ZF α → R) = ALV.C05.pos := rfl
theorem add_is_model : (ALV.Gen.C05.add : ZF α → ZF α → R) = ALV.C05.add := rfl
theorem addScalar_is_model : (ALV.Gen.C05.addScalar : ZF α → α → R) = ALV.C05.addScalar := rfl
theorem sub_is_model : (ALV.Gen.C05.sub : ZF α → ZF α → R) = ALV.C05.sub := rfl
theorem subScalar_is_model : (ALV.Gen.C05.subScalar : ZF α → α → R) = ALV.C05.subScalar := rfl
theorem mul_is_model : (ALV.Gen.C05.mul : ZF α → ZF α → R) = ALV.C05.mul := rfl
theorem mulScalar_is_model : (ALV.Gen.C05.mulScalar : ZF α → α → R) = ALV.C05.mulScalar := rfl
theorem truediv_is_model : (ALV.Gen.C05.truediv : ZF α → ZF α → R) = ALV.C05.truediv := rfl
theorem raddScalar_is_model : (ALV.Gen.C05.raddScalar : α → ZF α → R) = ALV.C05.raddScalar := rfl
theorem rsubScalar_is_model : (ALV.Gen.C05.rsubScalar : α → ZF α → R) = ALV.C05.rsubScalar := rfl
theorem rmulScalar_is_model : (ALV.Gen.C05.rmulScalar : α → ZF α → R) = ALV.C05.rmulScalar := rfl
theorem rdivScalar_is_model : (ALV.Gen.C05.rdivScalar : α → ZF α → R) = ALV.C05.rdivScalar := rfl


/-- `self / number` : the ZeroDivisionError of `operator.truediv(1, other)` comes before the multiplication -/
theorem divScalar_is_model : (ALV.Gen.C05.divScalar : ZF α → α → R) = ALV.C05.divScalar := by
  funext f c
  unfold ALV.Gen.C05.divScalar ALV.C05.divScalar numTruediv
  by_cases h : c = 0
  · simp only [h, if_true]; rfl
  · simp only [h, if_false]; rfl

/-- `self ** n` : the regenerated body calls `**` again; with every recursion budget of at least 2 this is the
model (the flipped filter is raised to `-n > 0`, which takes the other branch at once) -/
theorem powFuel_is_model (k : Nat) (f : ZF α) (n : Int) : ALV.Gen.C05.powFuel (k + 2) f n = ALV.C05.pow f n := by
  unfold ALV.C05.pow
  rw [ALV.Gen.C05.powFuel]
  by_cases h : n < 0 ∧ (f.num.length ≥ 2 ∨ f.den.length ≥ 2)
  · rw [if_pos h, if_pos h]
    rw [ofPolys_is_model]
    cases ALV.C05.ofPolys f.den f.num with
    | error e => rfl
    | ok r =>
      show ALV.Gen.C05.powFuel (k + 1) r (-n) = _
      rw [ALV.Gen.C05.powFuel]
      have : ¬ (-n < 0 ∧ (r.num.length ≥ 2 ∨ r.den.length ≥ 2)) := by omega
      rw [if_neg this]; rfl
  · rw [if_neg h, if_neg h]; rfl

theorem pow_is_model : (ALV.Gen.C05.pow : ZF α → Int → R) = ALV.C05.pow := by
  funext f n; exact powFuel_is_model 0 f n


/-- one `sum(v * seq ** -k for k, v in poly.terms())` of the regenerated `__call__` is the model's `substSum` -/
theorem sumTerms_is_model (p : MPoly α) (g : ZF α) :
    sumTerms (ALV.Gen.C05.ofPolys (C07.ofList [0]) ALV.Gen.C05.defaultDen) ALV.Gen.C05.add
      (fun k v => do
        let x ← ALV.Gen.C05.pow g (-k)
        ALV.Gen.C05.rmulScalar v x) p = substSum p g := by
  unfold sumTerms substSum
  rw [pow_is_model, add_is_model, rmulScalar_is_model]
  have hF : (fun (acc : ZF α) (kv : Int × α) => do
        let t ← (do
          let x ← ALV.C05.pow g (-kv.1)
          ALV.C05.rmulScalar kv.2 x)
        ALV.C05.add acc t) = (fun acc kv => do
        let gk ← ALV.C05.pow g (-kv.1)
        let c ← ALV.C05.ofScalar kv.2
        let t ← ALV.C05.mul c gk
        ALV.C05.add acc t) := by
    funext acc kv
    cases ALV.C05.pow g (-kv.1) with
    | error e => rfl
    | ok gk =>
      show (ALV.C05.rmulScalar kv.2 gk >>= fun t => ALV.C05.add acc t) = _
      unfold ALV.C05.rmulScalar
      cases ALV.C05.ofScalar kv.2 with
      | error e => rfl
      | ok c => rfl
  rw [hF]; rfl

/-- `ZFilter.__call__` with a ZFilter argument (substitution) -/
theorem subst_is_model : (ALV.Gen.C05.subst : ZF α → ZF α → R) = ALV.C05.subst := by
  funext f g
  unfold ALV.Gen.C05.subst ALV.C05.subst
  rw [sumTerms_is_model, sumTerms_is_model, truediv_is_model]

/-- operators with a `LinearFilter` that is not a `ZFilter`, `number == filter`, reflected operators reached
with a ZFilter -/
theorem addForeign_is_model (f : ZF α) : ALV.Gen.C05.addForeign f = .error (opForeign .add) := rfl
theorem subForeign_is_model (f : ZF α) : ALV.Gen.C05.subForeign f = .error (opForeign .sub) := rfl
theorem mulForeign_is_model (f : ZF α) : ALV.Gen.C05.mulForeign f = .error (opForeign .mul) := rfl
theorem divForeign_is_model (f : ZF α) : ALV.Gen.C05.divForeign f = .error (opForeign .div) := rfl
theorem ropZFilter_is_model (f g : ZF α) (op : BinOp) : ALV.Gen.C05.ropZFilter f g = .error (ropZFilter op) := rfl
theorem eqNumber_is_model (f : ZF α) (c : α) : ALV.Gen.C05.eqNumber f c = FL.eq (.leaf f) (.num c) := by
  simp [ALV.Gen.C05.eqNumber, FL.eq]

/-! ### the filter list classes -/

/-- `FilterList.__init__`: the regenerated argument rule is the model's `resolve` -/
theorem filterListInit_is_model : (ALV.Gen.C05.filterListInit : List (Arg α) → Option (FLs α)) = resolve := by
  funext args
  match args with
  | [] => rfl
  | [a] => cases a <;> rfl
  | a :: b :: t =>
    simp [ALV.Gen.C05.filterListInit, resolve, extendTuple]

theorem construct_is_model : (ALV.Gen.C05.construct : Kind → List (Arg α) → Option (FL α)) = ALV.C05.construct := by
  funext k args
  unfold ALV.Gen.C05.construct ALV.C05.construct
  rw [filterListInit_is_model]

/-- `FilterList.__eq__` / `__ne__` between two filter lists -/
theorem flEq_is_model (k k' : Kind) (a b : FLs α) : ALV.Gen.C05.flEq k k' a b = FL.eq (.node k a) (.node k' b) := by
  simp only [ALV.Gen.C05.flEq, FL.eq]
theorem flNe_is_model (k k' : Kind) (a b : FLs α) : ALV.Gen.C05.flNe k k' a b = FL.ne (.node k a) (.node k' b) := by
  simp only [ALV.Gen.C05.flNe, FL.ne]

theorem reraiseAttribute_id {β : Type} (r : Except PyErr β) : reraiseAttribute r = r := by
  cases r with
  | ok v => rfl
  | error e => cases e <;> rfl

/-- the running products of the model, numerator side, are the flat left fold of `operator.mul` -/
theorem prodP_flat_fst : ∀ (t : FLs α) (acc : MPoly α × MPoly α),
    (t.prodP (some acc)).map (fun o => o.map Prod.fst) =
      (((t.toList.map FL.polys).map fun (p : Except PyErr (MPoly α × MPoly α)) => do
          let filt ← p
          pure filt.1).foldlM (fun a y => do
            let v ← y
            (.ok (C07.mul a v) : Except PyErr (MPoly α))) acc.1).map some
  | .nil, acc => rfl
  | .cons p t, acc => by
    simp only [FLs.prodP, FLs.toList, List.map_cons, List.foldlM_cons]
    cases p.polys with
    | error e => rfl
    | ok nd => exact prodP_flat_fst t _

theorem prodP_flat_snd : ∀ (t : FLs α) (acc : MPoly α × MPoly α),
    (t.prodP (some acc)).map (fun o => o.map Prod.snd) =
      (((t.toList.map FL.polys).map fun (p : Except PyErr (MPoly α × MPoly α)) => do
          let filt ← p
          pure filt.2).foldlM (fun a y => do
            let v ← y
            (.ok (C07.mul a v) : Except PyErr (MPoly α))) acc.2).map some
  | .nil, acc => rfl
  | .cons p t, acc => by
    simp only [FLs.prodP, FLs.toList, List.map_cons, List.foldlM_cons]
    cases p.polys with
    | error e => rfl
    | ok nd => exact prodP_flat_snd t _

/-- the running sum of the model is the flat left fold of the filter addition -/
theorem sumF_flat : ∀ (t : FLs α) (acc : ZF α),
    t.sumF (some acc) =
      (((t.toList.map FL.polys).map fun (p : Except PyErr (MPoly α × MPoly α)) => do
          let filt ← p
          ALV.C05.ofPolys filt.1 filt.2).foldlM (fun a y => do
            let v ← y
            ALV.C05.add a v) acc).map some
  | .nil, acc => rfl
  | .cons p t, acc => by
    simp only [FLs.sumF, FLs.toList, List.map_cons, List.foldlM_cons]
    cases p.polys with
    | error e => rfl
    | ok nd =>
      show (ALV.C05.ofPolys nd.1 nd.2 >>= fun z => ALV.C05.add acc z >>= fun s => t.sumF (some s)) =
        Except.map some ((ALV.C05.ofPolys nd.1 nd.2 >>= fun v => ALV.C05.add acc v) >>= fun init => List.foldlM _ init _)
      cases ALV.C05.ofPolys nd.1 nd.2 with
      | error e => rfl
      | ok z =>
        show (ALV.C05.add acc z >>= fun s => t.sumF (some s)) =
          Except.map some ((ALV.C05.add acc z) >>= fun init => List.foldlM _ init _)
        cases ALV.C05.add acc z with
        | error e => rfl
        | ok s => exact sumF_flat t s

/-- the accumulator of the model (`none` = no part yet: TypeError of `reduce`) against the flat fold -/
theorem unwrap_flat {X Y : Type} (f : X → Y) (r : Except PyErr (Option X)) (q : Except PyErr Y)
    (h : r.map (fun o => o.map f) = q.map some) :
    q = Except.map f (r >>= fun o => match o with
      | none => .error .type
      | some nd => pure nd) := by
  cases r with
  | error e => cases q with
    | error e' => cases h; rfl
    | ok v => cases h
  | ok o => cases o with
    | none => cases q with
      | error e' => cases h
      | ok v => cases h
    | some x => cases q with
      | error e' => cases h
      | ok v => cases h; rfl

/-- `CascadeFilter.numpoly` / `denpoly`: the flat `reduce(operator.mul, …)` over the parts' polynomials is what the
model's mutual recursion `FL.polys` computes for a cascade node (of any subclass depth `s`) -/
theorem cascadeNumpoly_is_model (s : Nat) (ps : FLs α) :
    ALV.Gen.C05.cascadeNumpoly (ps.toList.map FL.polys) = (FL.polys (.node ⟨false, s⟩ ps)).map Prod.fst := by
  unfold ALV.Gen.C05.cascadeNumpoly
  rw [reraiseAttribute_id]
  simp only [FL.polys, Bool.false_eq_true, ↓reduceIte]
  match ps with
  | .nil => rfl
  | .cons p t =>
    simp only [FLs.prodP, FLs.toList, List.map_cons, reduceGen]
    cases p.polys with
    | error e => rfl
    | ok nd =>
      refine Eq.trans ?_ (Eq.trans (unwrap_flat Prod.fst _ _ (prodP_flat_fst t nd)) ?_)
      · rfl
      · show _ = Except.map Prod.fst ((t.prodP (some nd)) >>= _)
        cases t.prodP (some nd) with
        | error e => rfl
        | ok o => cases o <;> rfl

theorem cascadeDenpoly_is_model (s : Nat) (ps : FLs α) :
    ALV.Gen.C05.cascadeDenpoly (ps.toList.map FL.polys) = (FL.polys (.node ⟨false, s⟩ ps)).map Prod.snd := by
  unfold ALV.Gen.C05.cascadeDenpoly
  rw [reraiseAttribute_id]
  simp only [FL.polys, Bool.false_eq_true, ↓reduceIte]
  match ps with
  | .nil => rfl
  | .cons p t =>
    simp only [FLs.prodP, FLs.toList, List.map_cons, reduceGen]
    cases p.polys with
    | error e => rfl
    | ok nd =>
      refine Eq.trans ?_ (Eq.trans (unwrap_flat Prod.snd _ _ (prodP_flat_snd t nd)) ?_)
      · rfl
      · show _ = Except.map Prod.snd ((t.prodP (some nd)) >>= _)
        cases t.prodP (some nd) with
        | error e => rfl
        | ok o => cases o <;> rfl

/-- `ParallelFilter._sum_filter`: the flat `reduce(operator.add, (ZFilter(filt.numpoly, filt.denpoly) …))` is the
model's running sum `FLs.sumF` started without accumulator (`none` = no part: the TypeError of `reduce`) -/
theorem sumFilter_is_model (ps : FLs α) :
    ALV.Gen.C05.sumFilter (ps.toList.map FL.polys) = (ps.sumF none >>= fun o => match o with
      | none => .error .type
      | some h => pure h) := by
  unfold ALV.Gen.C05.sumFilter
  rw [add_is_model, ofPolys_is_model]
  match ps with
  | .nil => rfl
  | .cons p t =>
    simp only [FLs.sumF, FLs.toList, List.map_cons, reduceGen]
    cases p.polys with
    | error e => rfl
    | ok nd =>
      show (ALV.C05.ofPolys nd.1 nd.2 >>= fun x0 => List.foldlM _ x0 _) =
        ((ALV.C05.ofPolys nd.1 nd.2 >>= fun z => t.sumF (some z)) >>= _)
      cases ALV.C05.ofPolys nd.1 nd.2 with
      | error e => rfl
      | ok z =>
        show List.foldlM _ z _ = (t.sumF (some z) >>= _)
        rw [sumF_flat t z]
        cases List.foldlM (fun a (y : Except PyErr (ZF α)) => do
            let v ← y
            ALV.C05.add a v) z
          ((t.toList.map FL.polys).map fun (p : Except PyErr (MPoly α × MPoly α)) => do
            let filt ← p
            ALV.C05.ofPolys filt.1 filt.2) with
        | error e => rfl
        | ok v => rfl

/-- `ParallelFilter.numpoly` / `denpoly` (the repair of D22): with `linear` = the model's `is_linear()` and the parts'
polynomial pairs, the regenerated property is what `FL.polys` computes for a parallel node -/
theorem parallelNumpoly_is_model (s : Nat) (ps : FLs α) :
    ALV.Gen.C05.parallelNumpoly ps.linear (ps.toList.map FL.polys) = (FL.polys (.node ⟨true, s⟩ ps)).map Prod.fst := by
  unfold ALV.Gen.C05.parallelNumpoly
  rw [sumFilter_is_model]
  simp only [FL.polys, ↓reduceIte]
  cases ps.linear with
  | false => rfl
  | true =>
    show _ = Except.map Prod.fst (ps.sumF none >>= _)
    cases ps.sumF none with
    | error e => rfl
    | ok o => cases o <;> rfl

theorem parallelDenpoly_is_model (s : Nat) (ps : FLs α) :
    ALV.Gen.C05.parallelDenpoly ps.linear (ps.toList.map FL.polys) = (FL.polys (.node ⟨true, s⟩ ps)).map Prod.snd := by
  unfold ALV.Gen.C05.parallelDenpoly
  rw [sumFilter_is_model]
  simp only [FL.polys, ↓reduceIte]
  cases ps.linear with
  | false => rfl
  | true =>
    show _ = Except.map Prod.snd (ps.sumF none >>= _)
    cases ps.sumF none with
    | error e => rfl
    | ok o => cases o <;> rfl

end ALV.C05.Src
