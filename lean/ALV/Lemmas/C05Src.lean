/-
  C05 — the regenerated definitions (`ALV/Gen/C05Src.lean`, written by `harness/props/c05_tr.py` from the source
  text of `audiolazy/lazy_filters.py`) ARE the hand-written model functions of `ALV/Model/C05.lean`.
  Core Lean only.
-/
import ALV.Gen.C05Src
import ALV.Model.C05Lin
import ALV.Model.C05List
set_option linter.unusedSectionVars false
namespace ALV.C05.Src
open ALV.C07
variable {α : Type} [Add α] [Mul α] [Sub α] [Neg α] [Div α] [OfNat α 0] [OfNat α 1] [DecidableEq α]

local notation "R" => Except PyErr (ZF α)

theorem ofPolys_is_model : (ALV.Gen.C05.ofPolys : MPoly α → MPoly α → R) = ALV.C05.ofPolys := rfl
theorem defaultDen_is_model : (ALV.Gen.C05.defaultDen : MPoly α) = C07.mk [(0, 1)] := rfl
theorem ofScalar_is_model (c : α) : ALV.Gen.C05.ofPolys (C07.ofList [c]) ALV.Gen.C05.defaultDen = ALV.C05.ofScalar c := rfl
theorem z_is_model : (ALV.Gen.C05.z : R) = ALV.C05.z := rfl
theorem eq_is_model : (ALV.Gen.C05.eq : ZF α → ZF α → Bool) = ALV.C05.eq := rfl
theorem ne_is_model : (ALV.Gen.C05.ne : ZF α → ZF α → Bool) = ALV.C05.neFixed := rfl
theorem hashKey_is_model : (ALV.Gen.C05.hashKey : ZF α → List Int) = ALV.C05.hashKey := rfl
theorem neg_is_model : (ALV.Gen.C05.neg : ZF α → R) = ALV.C05.neg := rfl
theorem pos_is_model : (ALV.Gen.C05.pos : ZF α → R) = ALV.C05.pos := rfl
theorem add_is_model : (ALV.Gen.C05.add : ZF α → ZF α → R) = ALV.C05.add := rfl
theorem addScalar_is_model : (ALV.Gen.C05.addScalar : ZF α → α → R) = ALV.C05.addScalar := rfl
theorem sub_is_model : (ALV.Gen.C05.sub : ZF α → ZF α → R) = ALV.C05.sub := rfl
theorem subScalar_is_model : (ALV.Gen.C05.subScalar : ZF α → α → R) = ALV.C05.subScalar := rfl
theorem mul_is_model : (ALV.Gen.C05.mul : ZF α → ZF α → R) = ALV.C05.mul := rfl
theorem mulScalar_is_model : (ALV.Gen.C05.mulScalar : ZF α → α → R) = ALV.C05.mulScalar := rfl
theorem truediv_is_model : (ALV.Gen.C05.truediv : ZF α → ZF α → R) = ALV.C05.truediv := rfl
theorem raddScalar_is_model : (ALV.Gen.C05.raddScalar : α → ZF α → R) = ALV.C05.raddScalar := rfl
theorem rsubScalar_is_model : (ALV.Gen.C05.rsubScalar : α → ZF α → R) = ALV.C05.rsubScalar := rfl
theorem rmulScalar_is_model : (ALV.Gen.C05.rmulScalar : α → ZF α → R) = ALV.C05.rmulScalar := rfl
theorem rdivScalar_is_model : (ALV.Gen.C05.rdivScalar : α → ZF α → R) = ALV.C05.rdivScalar := rfl


/-- `self / number` : the ZeroDivisionError of `operator.truediv(1, other)` comes before the multiplication -/
theorem divScalar_is_model : (ALV.Gen.C05.divScalar : ZF α → α → R) = ALV.C05.divScalar := by
  funext f c
  unfold ALV.Gen.C05.divScalar ALV.C05.divScalar numTruediv
  by_cases h : c = 0
  · simp only [h, if_true]; rfl
  · simp only [h, if_false]; rfl

/-- `self ** n` : the regenerated body calls `**` again; with every recursion budget of at least 2 this is the
model (the flipped filter is raised to `-n > 0`, which takes the other branch at once) -/
theorem powFuel_is_model (k : Nat) (f : ZF α) (n : Int) : ALV.Gen.C05.powFuel (k + 2) f n = ALV.C05.pow f n := by
  unfold ALV.C05.pow
  rw [ALV.Gen.C05.powFuel]
  by_cases h : n < 0 ∧ (f.num.length ≥ 2 ∨ f.den.length ≥ 2)
  · rw [if_pos h, if_pos h]
    rw [ofPolys_is_model]
    cases ALV.C05.ofPolys f.den f.num with
    | error e => rfl
    | ok r =>
      show ALV.Gen.C05.powFuel (k + 1) r (-n) = _
      rw [ALV.Gen.C05.powFuel]
      have : ¬ (-n < 0 ∧ (r.num.length ≥ 2 ∨ r.den.length ≥ 2)) := by omega
      rw [if_neg this]; rfl
  · rw [if_neg h, if_neg h]; rfl

theorem pow_is_model : (ALV.Gen.C05.pow : ZF α → Int → R) = ALV.C05.pow := by
  funext f n; exact powFuel_is_model 0 f n


/-- one `sum(v * seq ** -k for k, v in poly.terms())` of the regenerated `__call__` is the model's `substSum` -/
theorem sumTerms_is_model (p : MPoly α) (g : ZF α) :
    sumTerms (ALV.Gen.C05.ofPolys (C07.ofList [0]) ALV.Gen.C05.defaultDen) ALV.Gen.C05.add
      (fun k v => do
        let x ← ALV.Gen.C05.pow g (-k)
        ALV.Gen.C05.rmulScalar v x) p = substSum p g := by
  unfold sumTerms substSum
  rw [pow_is_model, add_is_model, rmulScalar_is_model]
  have hF : (fun (acc : ZF α) (kv : Int × α) => do
        let t ← (do
          let x ← ALV.C05.pow g (-kv.1)
          ALV.C05.rmulScalar kv.2 x)
        ALV.C05.add acc t) = (fun acc kv => do
        let gk ← ALV.C05.pow g (-kv.1)
        let c ← ALV.C05.ofScalar kv.2
        let t ← ALV.C05.mul c gk
        ALV.C05.add acc t) := by
    funext acc kv
    cases ALV.C05.pow g (-kv.1) with
    | error e => rfl
    | ok gk =>
      show (ALV.C05.rmulScalar kv.2 gk >>= fun t => ALV.C05.add acc t) = _
      unfold ALV.C05.rmulScalar
      cases ALV.C05.ofScalar kv.2 with
      | error e => rfl
      | ok c => rfl
  rw [hF]; rfl

/-- `ZFilter.__call__` with a ZFilter argument (substitution) -/
theorem subst_is_model : (ALV.Gen.C05.subst : ZF α → ZF α → R) = ALV.C05.subst := by
  funext f g
  unfold ALV.Gen.C05.subst ALV.C05.subst
  rw [sumTerms_is_model, sumTerms_is_model, truediv_is_model]

/-- operators with a `LinearFilter` that is not a `ZFilter`, `number == filter`, reflected operators reached
with a ZFilter -/
theorem addForeign_is_model (f : ZF α) : ALV.Gen.C05.addForeign f = .error (opForeign .add) := rfl
theorem subForeign_is_model (f : ZF α) : ALV.Gen.C05.subForeign f = .error (opForeign .sub) := rfl
theorem mulForeign_is_model (f : ZF α) : ALV.Gen.C05.mulForeign f = .error (opForeign .mul) := rfl
theorem divForeign_is_model (f : ZF α) : ALV.Gen.C05.divForeign f = .error (opForeign .div) := rfl
theorem ropZFilter_is_model (f g : ZF α) (op : BinOp) : ALV.Gen.C05.ropZFilter f g = .error (ropZFilter op) := rfl
theorem eqNumber_is_model (f : ZF α) (c : α) : ALV.Gen.C05.eqNumber f c = FL.eq (.leaf f) (.num c) := by
  simp [ALV.Gen.C05.eqNumber, FL.eq]

end ALV.C05.Src
