/-
  C03 — histories over finite and periodic sources for which enough fuel exists.

  `SpecLive sp ops` is a condition on the history stated on the list specification alone (and
  decidable: `specLiveB`): the list model never answers "never returns" (`list()` / `take(inf)`
  of an endless sequence) and no `filter` is applied to an endless sequence whose whole period it
  rejects.  Under it the model returns at every step for all large enough fuel (`step_total`),
  and so (`step_sound`) its run is the run of the list model (`run_total_from`).
-/
import ALV.Lemmas.C03PTotal
import ALV.Lemmas.C03PRun

namespace ALV.C03
variable {α : Type}
open LSeq

/-! ### the steps that read no iterator do not look at the fuel -/

def Op.Reads : Op α → Prop
  | .take _ _ => True
  | .peek _ _ => True
  | .next _ => True
  | .drain _ => True
  | _ => False

theorem step_nofuel_eq (st : St α) (op : Op α) (h : ¬ op.Reads) (f : Nat) : step f st op = step 0 st op := by
  cases op <;> first | rfl | exact absurd trivial h

theorem step_nofuel_ne (st : St α) (op : Op α) (h : ¬ op.Reads) : step 0 st op ≠ none := by
  cases op with
  | take i c => exact absurd trivial h
  | peek i c => exact absurd trivial h
  | next i => exact absurd trivial h
  | drain i => exact absurd trivial h
  | new s => simp only [step]; split <;> simp
  | skip i c => simp only [step]; repeat' split; all_goals simp
  | limit i c => simp only [step]; repeat' split; all_goals simp
  | append i s => simp only [step]; repeat' split; all_goals simp
  | map i g => simp only [step]; repeat' split; all_goals simp
  | filter i p => simp only [step]; repeat' split; all_goals simp
  | copy i => simp only [step]; repeat' split; all_goals simp
  | thub s n => simp only [step]; repeat' split; all_goals simp
  | tee i n => simp only [step]; repeat' split; all_goals simp

theorem specTake_fin {q : LSeq α} {c : Cnt} (h : specTake q c ≠ none) (hm : takeMode c = .all) :
    q.per = [] := by
  simp only [specTake, hm] at h
  cases hp : q.per with
  | nil => rfl
  | cons x r => simp [LSeq.endless, hp] at h

theorem map_ne_none {β γ : Type} {f : β → γ} {x : Option β} (h : x.map f ≠ none) : x ≠ none := by
  cases x with
  | none => exact absurd rfl h
  | some _ => simp

section
variable {E : List (LSeq α)} {st : St α} {sp : SPool α}

/-- a read from an iterator of the pool returns (with enough fuel) -/
theorem read_total (R : PRel true E st sp) {it : It α} (ok : WF true E st.heap it) {q : LSeq α}
    (e : Eqv q (pden E it)) (c : Cnt) (hs : specTake q c ≠ none) :
    ∃ f h' it' o, ∀ f', f ≤ f' → takeIt f' st.heap it c = some (h', it', o) :=
  takeIt_total R.hok ok c (fun hm => e.fin_aux.1.1 (specTake_fin hs hm))

/-- a read from a fresh tee output over an iterator of the pool (`peek`) returns -/
theorem peek_total (R : PRel true E st sp) {it : It α} (ok : WF true E st.heap it) {q : LSeq α}
    (e : Eqv q (pden E it)) (c : Cnt) (hs : specTake q c ≠ none) :
    ∃ f h' it' o, ∀ f', f ≤ f' →
      takeIt f' (st.heap ++ [⟨it, []⟩]) (.tee st.heap.length 0) c = some (h', it', o) := by
  obtain ⟨hok1, _, okt, dent⟩ := teeOf_sound R.hok ok
  exact takeIt_total hok1 okt c (fun hm => by rw [dent]; exact e.fin_aux.1.1 (specTake_fin hs hm))

/-- **every step returns with enough fuel** whenever the list model's step does -/
theorem step_total (R : PRel true E st sp) (op : Op α) (hs : specStep sp op ≠ none) :
    ∃ F st' o, ∀ f, F ≤ f → step f st op = some (st', o) := by
  have nofuel : ¬ op.Reads → ∃ F st' o, ∀ f, F ≤ f → step f st op = some (st', o) := by
    intro h
    cases hr : step 0 st op with
    | none => exact absurd hr (step_nofuel_ne st op h)
    | some x => exact ⟨0, x.1, x.2, fun f _ => by rw [step_nofuel_eq st op h f, hr]⟩
  cases op with
  | new s => exact nofuel id
  | skip i c => exact nofuel id
  | limit i c => exact nofuel id
  | append i s => exact nofuel id
  | map i g => exact nofuel id
  | filter i p => exact nofuel id
  | copy i => exact nofuel id
  | thub s n => exact nofuel id
  | tee i n => exact nofuel id
  | take i c =>
    cases R.lookup i with
    | missing hp hq => exact ⟨0, st, .err "noobj", fun f _ => by simp [step, hp]⟩
    | dead hp hq => exact ⟨0, st, .err "noobj", fun f _ => by simp [step, hp]⟩
    | hub uses q hp hq ok => exact ⟨0, st, .err "AttributeError", fun f _ => by simp [step, hp]⟩
    | stream it q hp hq ok e =>
      simp only [specStep, hq] at hs
      obtain ⟨F, h', it', o, run⟩ := read_total R ok e c (map_ne_none hs)
      exact ⟨F, ⟨h', st.pool.set i (.stream it')⟩, o, fun f hf => by simp [step, hp, run f hf]⟩
  | peek i c =>
    cases R.lookup i with
    | missing hp hq => exact ⟨0, st, .err "noobj", fun f _ => by simp [step, hp]⟩
    | dead hp hq => exact ⟨0, st, .err "noobj", fun f _ => by simp [step, hp]⟩
    | stream it q hp hq ok e =>
      simp only [specStep, hq] at hs
      obtain ⟨F, h', it', o, run⟩ := peek_total R ok e c (map_ne_none hs)
      exact ⟨F, ⟨h', st.pool.set i (.stream (.tee st.heap.length 0))⟩, o,
        fun f hf => by simp [step, hp, teeOf, run f hf]⟩
    | hub uses q hp hq ok =>
      cases uses with
      | nil => exact ⟨0, st, .err "IndexError", fun f _ => by simp [step, hp]⟩
      | cons u us =>
        obtain ⟨ou, du⟩ := ok u (by simp)
        simp at hq
        simp only [specStep, hq] at hs
        obtain ⟨F, h', it', o, run⟩ := peek_total R ou du c (map_ne_none hs)
        exact ⟨F, ⟨h', st.pool.set i (.hub (.tee st.heap.length 0 :: us))⟩, o,
          fun f hf => by simp [step, hp, teeOf, run f hf]⟩
  | next i =>
    cases R.lookup i with
    | missing hp hq => exact ⟨0, st, .err "noobj", fun f _ => by simp [step, hp]⟩
    | dead hp hq => exact ⟨0, st, .err "noobj", fun f _ => by simp [step, hp]⟩
    | stream it q hp hq ok e =>
      simp only [specStep, hq] at hs
      obtain ⟨F, h', it', o, run⟩ := read_total R ok e .none (map_ne_none hs)
      exact ⟨F, ⟨h', st.pool.set i (.stream it')⟩, o, fun f hf => by simp [step, hp, run f hf]⟩
    | hub uses q hp hq ok =>
      cases hg : uses.getLast? with
      | none => exact ⟨0, st, .err "IndexError", fun f _ => by simp [step, hp, hg]⟩
      | some u =>
        obtain ⟨ys, rfl⟩ := List.getLast?_eq_some_iff.1 hg
        obtain ⟨ou, du⟩ := ok u (by simp)
        simp at hq
        simp only [specStep, hq] at hs
        obtain ⟨F, h', it', o, run⟩ := read_total R ou du .none (map_ne_none hs)
        exact ⟨F, ⟨h', st.pool.set i (.hub ys)⟩, o, fun f hf => by simp [step, hp, run f hf]⟩
  | drain i =>
    cases R.lookup i with
    | missing hp hq => exact ⟨0, st, .err "noobj", fun f _ => by simp [step, hp]⟩
    | dead hp hq => exact ⟨0, st, .err "noobj", fun f _ => by simp [step, hp]⟩
    | stream it q hp hq ok e =>
      simp only [specStep, hq] at hs
      obtain ⟨F, h', it', o, run⟩ := read_total R ok e .inf (map_ne_none hs)
      exact ⟨F, ⟨h', st.pool.set i (.stream it')⟩, o, fun f hf => by simp [step, hp, run f hf]⟩
    | hub uses q hp hq ok =>
      cases hg : uses.getLast? with
      | none => exact ⟨0, st, .err "IndexError", fun f _ => by simp [step, hp, hg]⟩
      | some u =>
        obtain ⟨ys, rfl⟩ := List.getLast?_eq_some_iff.1 hg
        obtain ⟨ou, du⟩ := ok u (by simp)
        simp at hq
        simp only [specStep, hq] at hs
        obtain ⟨F, h', it', o, run⟩ := read_total R ou du .inf (map_ne_none hs)
        exact ⟨F, ⟨h', st.pool.set i (.hub ys)⟩, o, fun f hf => by simp [step, hp, run f hf]⟩

end

/-! ### the condition on the history, on the list specification alone -/

/-- the list model returns at every step, and every `filter` is applied to a sequence it hits
    (finite, or with an item of the period that passes) -/
def SpecLive : SPool α → List (Op α) → Prop
  | _, [] => True
  | sp, op :: ops => OpLive true sp op ∧
      match specStep sp op with
      | none => False
      | some (sp', _) => SpecLive sp' ops

theorem specLive_no_none : ∀ (ops : List (Op α)) (sp : SPool α), SpecLive sp ops →
    ∀ o, o ∈ specRun sp ops → o ≠ none
  | [], _, _, o, ho => by simp [specRun] at ho
  | op :: ops, sp, hl, o, ho => by
    obtain ⟨_, h2⟩ := hl
    cases hs : specStep sp op with
    | none => simp [hs] at h2
    | some x =>
      obtain ⟨sp', ob⟩ := x
      simp only [hs] at h2
      simp only [specRun, hs, List.mem_cons] at ho
      rcases ho with rfl | ho
      · simp
      · exact specLive_no_none ops sp' h2 o ho

/-- **histories for which enough fuel exists**: the run of the model is the run of the list model -/
theorem run_total_from {E : List (LSeq α)} {st : St α} {sp : SPool α} (R : PRel true E st sp)
    (ops : List (Op α)) (hl : SpecLive sp ops) :
    ∃ F, ∀ f, F ≤ f → run f st ops = specRun sp ops := by
  induction ops generalizing E st sp with
  | nil => exact ⟨0, fun f _ => rfl⟩
  | cons op ops ih =>
    obtain ⟨h1, h2⟩ := hl
    cases hs : specStep sp op with
    | none => simp [hs] at h2
    | some x =>
      obtain ⟨sp', ob⟩ := x
      simp only [hs] at h2
      obtain ⟨F1, st', o, run1⟩ := step_total R op (by rw [hs]; simp)
      obtain ⟨E', sp'', spec, R'⟩ := step_sound R op h1 F1 st' o (run1 F1 (Nat.le_refl _))
      rw [hs] at spec
      injection spec with spec; injection spec with e1 e2
      subst e1 e2
      obtain ⟨F2, run2⟩ := ih R' h2
      refine ⟨max F1 F2, fun f hf => ?_⟩
      have r1 := run1 f (Nat.le_trans (Nat.le_max_left _ _) hf)
      have r2 := run2 f (Nat.le_trans (Nat.le_max_right _ _) hf)
      simp [run, specRun, r1, hs, r2]

/-! ### the condition is decidable -/

def hitsB (p : α → Bool) (s : LSeq α) : Bool := s.per.isEmpty || s.per.any p

theorem hitsB_sound {p : α → Bool} {s : LSeq α} (h : hitsB p s = true) : Hits p s := by
  simp only [hitsB, Bool.or_eq_true, List.isEmpty_iff, List.any_eq_true] at h
  exact h

def opLiveB (sp : SPool α) : Op α → Bool
  | .filter i p =>
    match specTarget sp i with
    | .ok (_, _, s) => hitsB p s
    | .error _ => true
  | _ => true

theorem opLiveB_sound {sp : SPool α} {op : Op α} (h : opLiveB sp op = true) : OpLive true sp op := by
  cases op with
  | filter i p =>
    intro _
    simp only [opLiveB] at h
    split at h
    · rename_i heq; simp only [heq]; exact hitsB_sound h
    · rename_i heq; simp only [heq]
  | _ => trivial

def specLiveB : SPool α → List (Op α) → Bool
  | _, [] => true
  | sp, op :: ops => opLiveB sp op &&
      match specStep sp op with
      | none => false
      | some (sp', _) => specLiveB sp' ops

theorem specLiveB_sound : ∀ (ops : List (Op α)) (sp : SPool α), specLiveB sp ops = true → SpecLive sp ops
  | [], _, _ => trivial
  | op :: ops, sp, h => by
    simp only [specLiveB, Bool.and_eq_true] at h
    refine ⟨opLiveB_sound h.1, ?_⟩
    cases hs : specStep sp op with
    | none => simp [hs] at h
    | some x =>
      obtain ⟨sp', ob⟩ := x
      have h2 := h.2
      simp only [hs] at h2
      exact specLiveB_sound ops sp' h2

end ALV.C03

namespace ALV.C03
variable {α : Type}
open LSeq

/-! ### the same with the caller's containers -/

def HSpecLive : HSp α → List (HOp α) → Prop
  | _, [] => True
  | s, hop :: hops =>
    (match hop.resolve s.lists with
      | some op => OpLive true s.sp op
      | none => True) ∧
    match hspecStep s hop with
    | none => False
    | some (s', _) => HSpecLive s' hops

theorem hrun_total_from {E : List (LSeq α)} {st : St α} {sp : SPool α} (R : PRel true E st sp)
    (ls : List (List α)) (hops : List (HOp α)) (hl : HSpecLive ⟨sp, ls⟩ hops) :
    ∃ F, ∀ f, F ≤ f → hrun f ⟨st, ls⟩ hops = hspecRun ⟨sp, ls⟩ hops := by
  induction hops generalizing E st sp ls with
  | nil => exact ⟨0, fun f _ => rfl⟩
  | cons hop hops ih =>
    obtain ⟨h1, h2⟩ := hl
    cases hr : hop.resolve ls with
    | none =>
      obtain ⟨ls', o, _, e⟩ := hstep_unresolved (f := 0) (s := ⟨st, ls⟩) (hop := hop) hr
      have e' := e sp
      rw [e'] at h2
      obtain ⟨F, hF⟩ := ih R ls' h2
      refine ⟨F, fun f hf => ?_⟩
      obtain ⟨ls'', o', a', e''⟩ := hstep_unresolved (f := f) (s := ⟨st, ls⟩) (hop := hop) hr
      have e2 := e'' sp
      rw [e'] at e2
      injection e2 with e2; injection e2 with e3 e4; injection e3 with _ e5
      subst e4 e5
      simp only [hrun, hspecRun, a', e', hF f hf]
    | some op =>
      simp only [hr] at h1
      have hk : hspecStep ⟨sp, ls⟩ hop = specKeep ⟨sp, ls⟩ op := hspecStep_resolve (s := ⟨sp, ls⟩) hr
      rw [hk] at h2
      cases hs : specStep sp op with
      | none => simp [specKeep, hs] at h2
      | some x =>
        obtain ⟨sp', ob⟩ := x
        simp only [specKeep, hs] at h2
        obtain ⟨F1, st', o, run1⟩ := step_total R op (by rw [hs]; simp)
        obtain ⟨E', sp'', spec, R'⟩ := step_sound R op h1 F1 st' o (run1 F1 (Nat.le_refl _))
        rw [hs] at spec
        injection spec with spec; injection spec with e1 e2
        subst e1 e2
        obtain ⟨F2, run2⟩ := ih R' (keep ls ob) h2
        refine ⟨max F1 F2, fun f hf => ?_⟩
        have r1 := run1 f (Nat.le_trans (Nat.le_max_left _ _) hf)
        have r2 := run2 f (Nat.le_trans (Nat.le_max_right _ _) hf)
        have a : hstep f ⟨st, ls⟩ hop = some (⟨st', keep ls ob⟩, ob) := by
          rw [hstep_resolve (s := ⟨st, ls⟩) hr]; simp [stepKeep, r1]
        have b : hspecStep ⟨sp, ls⟩ hop = some (⟨sp', keep ls ob⟩, ob) := by
          rw [hk]; simp [specKeep, hs]
        simp only [hrun, hspecRun, a, b, r2]

end ALV.C03
