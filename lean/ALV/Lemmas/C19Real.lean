/-
  C19 — the sinusoid over ℝ: `Real.sin` has period `2π`.
-/
import ALV.Lemmas.C19Table
import Mathlib.Analysis.SpecialFunctions.Trigonometric.Basic

namespace ALV.C19

theorem real_sin_periodic (x : ℝ) (z : ℤ) : Real.sin (x + z * (2 * Real.pi)) = Real.sin x :=
  Real.sin_add_int_mul_two_pi x z

theorem sinusoid_real (freq phase : Arg ℝ) (n : Nat) :
    sinusoid Real.sin (2 * Real.pi) freq phase n = sinusoidSpec Real.sin freq phase n :=
  sinusoid_eq Real.sin (2 * Real.pi) real_sin_periodic freq phase n

end ALV.C19
