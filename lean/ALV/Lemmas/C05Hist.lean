/-
  C05 — filter list objects: `is_linear`, `len`, and histories with in-place replacement of parts.
-/
import ALV.Lemmas.C05Nested
import ALV.Model.C05Hist

set_option linter.unusedSectionVars false
set_option linter.unusedSimpArgs false
set_option linter.unusedVariables false

namespace ALV.C05
open ALV.C07
variable {K : Type} [Field K] [DecidableEq K] (env : ℕ → K → K)

/-! ### `is_linear` and `numpoly` / `denpoly` -/

/-- `numpoly` / `denpoly` raise AttributeError only for a structure with a non-linear part, and a
structure with a non-linear part never returns polynomials -/
theorem polys_linear_aux :
    (∀ o : FL K, (o.polys = .error .attribute → o.linear = false) ∧ (o.linear = false → ∀ nd, o.polys ≠ .ok nd)) ∧
    (∀ ps : FLs K,
      (∀ acc, ps.prodP acc = .error .attribute → ps.linear = false) ∧
      (∀ acc, ps.sumF acc = .error .attribute → ps.linear = false) ∧
      (ps.linear = false → ∀ acc r, ps.prodP acc ≠ .ok r)) := by
  have ofPolys_attr : ∀ (n d : MPoly K), ofPolys n d ≠ .error .attribute := by
    intro n d h
    unfold ofPolys at h
    simp only at h
    split at h
    · cases h
    · split at h <;> cases h
  have add_attr : ∀ (a b : ZF K), add a b ≠ .error .attribute := by
    intro a b h
    unfold add at h
    split at h <;> exact ofPolys_attr _ _ h
  apply FL.joint
  · intro f; exact ⟨fun h => by simp [FL.polys] at h, fun h => by simp [FL.linear] at h⟩
  · intro c
    refine ⟨fun h => ?_, fun h => by simp [FL.linear] at h⟩
    simp only [FL.polys, castNum, ofScalar] at h
    cases e : ofPolys (ofList [c]) (C07.mk [((0 : ℤ), (1 : K))]) with
    | error err =>
      rw [e] at h
      have : err = .attribute := by simpa using h
      exact absurd (this ▸ e) (ofPolys_attr _ _)
    | ok v => rw [e] at h; simp at h
  · intro i; exact ⟨fun _ => rfl, fun _ nd h => by simp [FL.polys] at h⟩
  · intro k ps ⟨ihp, ihs, ihn⟩
    constructor
    · intro h
      simp only [FL.polys] at h
      simp only [FL.linear]
      by_cases hk : k.par = true
      · rw [if_pos hk] at h
        cases hl : ps.linear with
        | false => rfl
        | true =>
          exfalso
          simp only [hl, Bool.not_true, Bool.false_eq_true, if_false] at h
          cases e : ps.sumF none with
          | error err =>
            have h' : (ps.sumF none >>= fun (x : Option (ZF K)) => match x with
              | none => (Except.error PyErr.type : Except PyErr (MPoly K × MPoly K))
              | some hh => pure (hh.num, hh.den)) = .error .attribute := h
            rw [e] at h'
            have : err = .attribute := by simpa [bind, Except.bind] using h'
            have := ihs none (this ▸ e)
            rw [hl] at this; cases this
          | ok v =>
            have h' : (ps.sumF none >>= fun (x : Option (ZF K)) => match x with
              | none => (Except.error PyErr.type : Except PyErr (MPoly K × MPoly K))
              | some hh => pure (hh.num, hh.den)) = .error .attribute := h
            rw [e] at h'
            cases v <;> simp [bind, Except.bind, pure, Except.pure] at h'
      · rw [if_neg hk] at h
        cases e : ps.prodP none with
        | error err =>
          have h' : (ps.prodP none >>= fun (x : Option (MPoly K × MPoly K)) => match x with
            | none => (Except.error PyErr.type : Except PyErr (MPoly K × MPoly K))
            | some nd => pure nd) = .error .attribute := h
          rw [e] at h'
          have : err = .attribute := by simpa [bind, Except.bind] using h'
          exact ihp none (this ▸ e)
        | ok v =>
          have h' : (ps.prodP none >>= fun (x : Option (MPoly K × MPoly K)) => match x with
            | none => (Except.error PyErr.type : Except PyErr (MPoly K × MPoly K))
            | some nd => pure nd) = .error .attribute := h
          rw [e] at h'
          cases v <;> simp [bind, Except.bind, pure, Except.pure] at h'
    · intro hl nd h
      simp only [FL.linear] at hl
      simp only [FL.polys] at h
      by_cases hk : k.par = true
      · rw [if_pos hk] at h
        simp [hl] at h
        cases h
      · rw [if_neg hk] at h
        cases e : ps.prodP none with
        | error err =>
          have h' : (ps.prodP none >>= fun (x : Option (MPoly K × MPoly K)) => match x with
            | none => (Except.error PyErr.type : Except PyErr (MPoly K × MPoly K))
            | some nd => pure nd) = .ok nd := h
          rw [e] at h'; simp [bind, Except.bind] at h'
        | ok v => exact ihn hl none v e
  · refine ⟨fun acc h => by simp [FLs.prodP] at h, fun acc h => by simp [FLs.sumF] at h, fun h => by simp [FLs.linear] at h⟩
  · intro p t ⟨ip1, ip2⟩ ⟨it1, it2, it3⟩
    refine ⟨fun acc h => ?_, fun acc h => ?_, fun hl acc r h => ?_⟩
    · simp only [FLs.prodP] at h
      simp only [FLs.linear]
      cases e : p.polys with
      | error err =>
        rw [e] at h
        have : err = .attribute := by simpa [bind, Except.bind] using h
        rw [ip1 (this ▸ e)]; rfl
      | ok nd =>
        rw [e] at h
        have := it1 _ h
        rw [this]; simp
    · simp only [FLs.sumF] at h
      simp only [FLs.linear]
      cases e : p.polys with
      | error err =>
        rw [e] at h
        have : err = .attribute := by simpa [bind, Except.bind] using h
        rw [ip1 (this ▸ e)]; rfl
      | ok nd =>
        rw [e] at h
        have h' : (ofPolys nd.1 nd.2 >>= fun z => match acc with
          | none => t.sumF (some z)
          | some a => add a z >>= fun s => t.sumF (some s)) = .error .attribute := h
        cases ez : ofPolys nd.1 nd.2 with
        | error err =>
          rw [ez] at h'
          have : err = .attribute := by simpa [bind, Except.bind] using h'
          exact absurd (this ▸ ez) (ofPolys_attr _ _)
        | ok z =>
          rw [ez] at h'
          cases acc with
          | none =>
            have := it2 _ (show t.sumF (some z) = .error .attribute from h')
            rw [this]; simp
          | some a =>
            have h'' : (add a z >>= fun s => t.sumF (some s)) = .error .attribute := h'
            cases ea : add a z with
            | error err =>
              rw [ea] at h''
              have : err = .attribute := by simpa [bind, Except.bind] using h''
              exact absurd (this ▸ ea) (add_attr _ _)
            | ok s =>
              rw [ea] at h''
              have := it2 _ (show t.sumF (some s) = .error .attribute from h'')
              rw [this]; simp
    · simp only [FLs.linear, Bool.and_eq_false_iff] at hl
      simp only [FLs.prodP] at h
      cases e : p.polys with
      | error err => rw [e] at h; simp [bind, Except.bind] at h
      | ok nd =>
        rw [e] at h
        rcases hl with hl | hl
        · exact ip2 hl nd e
        · exact it3 hl _ r h

/-! ### `len` -/

theorem FLs.length_toList (ps : FLs K) : ps.length = ps.toList.length := by
  induction ps using FLs.induct with
  | nil => rfl
  | cons p t ih => simp [FLs.length, FLs.toList, ih]

theorem FLs.append_def (a b : FLs K) : a ++ b = FLs.append a b := rfl

theorem FLs.length_append (a b : FLs K) : (a ++ b).length = a.length + b.length := by
  induction a using FLs.induct with
  | nil => simp [FLs.append_def, FLs.append, FLs.length]
  | cons p t ih =>
    rw [FLs.append_def] at ih ⊢
    simp only [FLs.append, FLs.length, ih]; omega

theorem FLs.length_rep (a : FLs K) (n : ℕ) : (a.rep n).length = n * a.length := by
  induction n with
  | zero => simp [FLs.rep, FLs.length]
  | succ n ih => simp only [FLs.rep, FLs.length_append, ih]; ring

/-- the result of a metaclass dunder of a user subclass holds ONE part (the library-class result) -/
theorem len_wrap (par : Bool) (n : ℕ) (ps : FLs K) :
    Obj.len (.fl (wrap par n ps)) = some (if n = 0 then ps.length else 1) := by
  cases n with
  | zero => rfl
  | succ n => simp [wrap, Obj.len, FLs.length]

/-! ### histories -/

theorem afterEvs_append (ps : FLs K) (pre post : List (Ev K)) :
    afterEvs ps (pre ++ post) = (afterEvs ps pre).bind fun qs => afterEvs qs post := by
  induction pre generalizing ps with
  | nil => simp [afterEvs]
  | cons e r ih =>
    cases e with
    | act m =>
      simp only [List.cons_append, afterEvs]
      cases m.apply ps with
      | none => rfl
      | some qs => simp [ih]
    | polys => simp only [List.cons_append, afterEvs, ih]
    | lists => simp only [List.cons_append, afterEvs, ih]
    | call xs => simp only [List.cons_append, afterEvs, ih]

/-- reads do not act on the object -/
theorem afterEvs_reads (ps : FLs K) (evs : List (Ev K)) (h : ∀ e ∈ evs, e.isRead = true) :
    afterEvs ps evs = some ps := by
  induction evs with
  | nil => rfl
  | cons e r ih =>
    have hr := ih (fun x hx => h x (List.mem_cons_of_mem _ hx))
    have he := h e List.mem_cons_self
    cases e with
    | act m => simp [Ev.isRead] at he
    | polys => simpa [afterEvs] using hr
    | lists => simpa [afterEvs] using hr
    | call xs => simpa [afterEvs] using hr

/-- **every read is a function of the CURRENT parts**: the observations of a history followed by more
events are the observations of the history followed by the observations of the rest started from the
parts as they are then -/
theorem runHist_append (k : Kind) (ps : FLs K) (pre post : List (Ev K)) :
    runHist env k ps (pre ++ post) =
      (runHist env k ps pre).bind fun a => (afterEvs ps pre).bind fun qs =>
        (runHist env k qs post).map fun b => a ++ b := by
  induction pre generalizing ps with
  | nil => simp [runHist, afterEvs]
  | cons e r ih =>
    cases e with
    | act m =>
      simp only [List.cons_append, runHist, afterEvs]
      cases m.apply ps with
      | none => rfl
      | some qs => simp [ih]
    | polys =>
      simp only [List.cons_append, runHist, afterEvs, ih]
      cases runHist env k ps r <;> simp
      cases afterEvs ps r <;> simp
      cases runHist env k _ post <;> simp
    | lists =>
      simp only [List.cons_append, runHist, afterEvs, ih]
      cases runHist env k ps r <;> simp
      cases afterEvs ps r <;> simp
      cases runHist env k _ post <;> simp
    | call xs =>
      simp only [List.cons_append, runHist, afterEvs, ih]
      cases runHist env k ps r <;> simp
      cases afterEvs ps r <;> simp
      cases runHist env k _ post <;> simp

theorem runHist_read (k : Kind) (ps : FLs K) (e : Ev K) (h : e.isRead = true) :
    runHist env k ps [e] = some [readObs env k ps e] := by
  cases e with
  | act m => simp [Ev.isRead] at h
  | polys => rfl
  | lists => rfl
  | call xs => rfl

end ALV.C05
