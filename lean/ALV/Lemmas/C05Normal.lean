/-
  C05 — what the normalisation of `LinearFilter.__init__` achieves, semantically:
  every constructed filter has a denominator that is a polynomial in `z⁻¹` with non-zero
  constant term (`ofPolys_normal`), and such a filter is causal as soon as it denotes the same
  rational function as some causal filter (`causal_of_val_eq`) — e.g. `(f/g)·g` for causal `f`, `g`,
  whatever common delay the constructor had to cancel on the way.
-/
import ALV.Lemmas.C05Causal

set_option linter.unusedSectionVars false
set_option linter.unusedSimpArgs false

open LaurentPolynomial

namespace ALV.C05
open ALV.C07
variable {K : Type} [Field K] [DecidableEq K]

theorem coeff_ne_zero_of_mem_keys {p : MPoly K} (hp : WF p) {k : ℤ} (hk : k ∈ keys p) : C07.coeff p k ≠ 0 := by
  obtain ⟨kv, hkv, rfl⟩ := List.mem_map.1 hk
  rw [coeff_eq_getD hp.1]
  unfold C07.getD
  rw [find?_of_mem hp.1 (k := kv.1) (v := kv.2) hkv]
  exact hp.2 kv hkv

theorem mem_keys_iff_coeff {p : MPoly K} (hp : WF p) (k : ℤ) : k ∈ keys p ↔ (toLaurent p).coeff k ≠ 0 := by
  rw [C07.coeff_toLaurent]
  exact ⟨coeff_ne_zero_of_mem_keys hp, mem_keys_of_coeff_ne_zero⟩

/-- a well-formed dictionary whose lowest power is 0 is a polynomial with non-zero constant term -/
theorem normal_of_minKey {r : MPoly K} (hr : WF r) (h : C04.minKey r = some 0) :
    IsPoly r ∧ C07.coeff r 0 ≠ 0 := by
  rw [C04.minKey_eq_listMin] at h
  rcases C04.listMin_spec (C04.keys r) with ⟨h1, _⟩ | ⟨q, h1, h2, h3⟩
  · rw [h1] at h; simp at h
  · rw [h1] at h
    obtain rfl : q = 0 := by simpa using h
    exact ⟨fun kv hkv => h3 kv.1 (List.mem_map.2 ⟨kv, hkv, rfl⟩), coeff_ne_zero_of_mem_keys hr h2⟩

theorem toLaurent_shiftKeys (p : ℤ) (d : MPoly K) : toLaurent (C04.shiftKeys p d) = toLaurent d * T (-p) := by
  induction d with
  | nil => simp [C04.shiftKeys]
  | cons a t ih =>
    have ih' : toLaurent (List.map (fun kv : ℤ × K => (kv.1 - p, kv.2)) t) = toLaurent t * T (-p) := ih
    simp only [C04.shiftKeys, List.map_cons, toLaurent_cons, ih', add_mul]
    congr 1
    rw [single_eq_C_mul_T, single_eq_C_mul_T, mul_assoc, ← T_add, sub_eq_add_neg]

theorem wf_shiftKeys (p : ℤ) {d : MPoly K} (hd : WF d) : WF (C04.shiftKeys p d) := by
  constructor
  · have : keys (C04.shiftKeys p d) = (keys d).map (· - p) := by
      simp [keys, C04.shiftKeys, List.map_map, Function.comp_def]
    rw [this]
    exact hd.1.map (fun a b h => by simpa using h)
  · intro kv hkv
    obtain ⟨kv', hkv', rfl⟩ := List.mem_map.1 hkv
    exact hd.2 kv' hkv'

/-- two well-formed dictionaries denoting the same Laurent polynomial have the same lowest power -/
theorem minKey_congr {r s : MPoly K} (hr : WF r) (hs : WF s) (h : toLaurent r = toLaurent s) :
    C04.minKey r = C04.minKey s := by
  rw [C04.minKey_eq_listMin, C04.minKey_eq_listMin]
  apply C04.listMin_congr
  intro k
  show k ∈ keys r ↔ k ∈ keys s
  rw [mem_keys_iff_coeff hr, mem_keys_iff_coeff hs, h]

/-- **the constructor normalises**: whatever the arguments, the denominator of the constructed
filter is a polynomial in `z⁻¹` with a non-zero constant term -/
theorem ofPolys_normal {n d : MPoly K} (hn : WF n) (hd : WF d) {h : ZF K} (e : ofPolys n d = .ok h) :
    IsPoly h.den ∧ C07.coeff h.den 0 ≠ 0 := by
  unfold ofPolys at e
  rw [mk_of_wf hn, mk_of_wf hd] at e
  cases hm : C04.minKey d with
  | none => simp [hm] at e
  | some p =>
    by_cases hp : p = 0
    · subst hp
      simp [hm] at e
      subst e
      exact normal_of_minKey hd hm
    · simp [hm, hp] at e
      subst e
      have hw : WF (C07.mul d (polyDelta p)) := wf_mul _ _
      apply normal_of_minKey hw
      rw [minKey_congr hw (wf_shiftKeys p hd)
        (by rw [toLaurent_mul, toLaurent_polyDelta, toLaurent_shiftKeys]),
        C04.minKey_shiftKeys, hm]
      simp

/-- a valid filter with normalised denominator that denotes the same rational function as a
causal filter is causal: no negative delay can be left in its numerator -/
theorem causal_of_val_eq {r f : ZF K} (hr : Valid r) (hrd : IsPoly r.den) (hr0 : C07.coeff r.den 0 ≠ 0)
    (hf : Causal f) (e : val r = val f) : Causal r := by
  refine ⟨hr, ?_, hrd, hr0⟩
  by_contra hnp
  -- the lowest power m of the numerator is negative
  have hne : r.num ≠ [] := by
    rintro h0; apply hnp; rw [h0]; intro kv hkv; simp at hkv
  cases hm : C04.minKey r.num with
  | none => exact hne ((C04.minKey_eq_none _).1 hm)
  | some m =>
    have hml := hm
    rw [C04.minKey_eq_listMin] at hml
    have hmlt : m < 0 := by
      rcases C04.listMin_spec (C04.keys r.num) with ⟨h1, _⟩ | ⟨q, h1, h2, h3⟩
      · rw [h1] at hml; simp at hml
      · rw [h1] at hml
        obtain rfl : q = m := by simpa using hml
        by_contra hge
        apply hnp
        intro kv hkv
        have := h3 kv.1 (List.mem_map.2 ⟨kv, hkv, rfl⟩)
        omega
    -- shift the numerator so that it starts at power 0
    have hs : WF (C04.shiftKeys m r.num) := wf_shiftKeys m hr.1
    have hs0 : C04.minKey (C04.shiftKeys m r.num) = some 0 := by
      rw [C04.minKey_shiftKeys, hm]; simp
    obtain ⟨hsp, hsc⟩ := normal_of_minKey hs hs0
    obtain ⟨j, hj⟩ : ∃ j : ℕ, -m = (j : ℤ) + 1 := ⟨(-m - 1).toNat, by omega⟩
    have hx : N r * D f = N f * D r := (equiv_iff_val hr hf.1).2 e
    have hx2 : toLaurent (C04.shiftKeys m r.num) * D f = N f * D r * T (-m) := by
      rw [toLaurent_shiftKeys]
      show N r * T (-m) * D f = _
      rw [mul_right_comm, hx]
    have hDr : D r = Polynomial.toLaurent (toPolyL r.den) := (toLaurent_toPolyL hrd).symm
    have hDf : D f = Polynomial.toLaurent (toPolyL f.den) := (toLaurent_toPolyL hf.2.2.1).symm
    have hNf : N f = Polynomial.toLaurent (toPolyL f.num) := (toLaurent_toPolyL hf.2.1).symm
    rw [← toLaurent_toPolyL hsp, hDf, hNf, hDr, hj,
      show ((j : ℤ) + 1) = ((j + 1 : ℕ) : ℤ) by push_cast; rfl, ← Polynomial.toLaurent_X_pow,
      ← map_mul, ← map_mul, ← map_mul] at hx2
    have hpoly := Polynomial.toLaurent_injective hx2
    have hc := congrArg (fun P : Polynomial K => P.coeff 0) hpoly
    simp only [Polynomial.mul_coeff_zero, Polynomial.coeff_X_pow] at hc
    rw [coeff_toPolyL hsp, coeff_toPolyL hf.2.2.1] at hc
    simp at hc
    rcases hc with h | h
    · exact hsc h
    · exact hf.2.2.2 h

end ALV.C05
