/-
  C20 — lemmas of the call layer: when a parameter value does not matter
  (`max_delta` below `step/2`, a clip limit beyond every sample, a hysteresis above every sample).
-/
import ALV.Model.C20Call
import ALV.Lemmas.C20Unwrap
import ALV.Lemmas.C20Clip
import ALV.Lemmas.C20Zcross

namespace ALV.C20
variable {K : Type} [Field K] [LinearOrder K] [IsStrictOrderedRing K]
set_option linter.unusedSectionVars false

/-! ### unwrap: a jump below half a step is its own nearest residue -/

theorem nearRes_small (fl : K → K) (hf : IsFloor fl) (step d : K) (hs : 0 < step)
    (hd : |d| < step / 2) : nearRes fl step d = d := by
  obtain ⟨k, hk⟩ := nearRes_sub_multiple fl hf step d
  have hb := nearRes_abs_le fl hf step d hs
  have h1 : |(k : K) * step| < step := by
    rw [← hk]
    calc |nearRes fl step d - d| ≤ |nearRes fl step d| + |d| := abs_sub _ _
      _ < step / 2 + step / 2 := by linarith
      _ = step := by ring
  rw [abs_mul, abs_of_pos hs] at h1
  have h2 : |(k : K)| < 1 := by
    by_contra hc
    have : 1 ≤ |(k : K)| := not_lt.mp hc
    nlinarith
  have h3 : |k| < 1 := by
    have : ((|k| : ℤ) : K) < ((1 : ℤ) : K) := by push_cast; exact h2
    exact_mod_cast this
  have h4 : k = 0 := Int.abs_lt_one_iff.mp h3
  rw [h4] at hk
  simp at hk
  linarith

/-- below half a step the threshold does not matter: the "correction" of a jump in
    `(md, md']` is zero -/
theorem corr_md_irrelevant (fl : K → K) (hf : IsFloor fl) (md md' step : K) (hs : 0 < step)
    (h1 : md ≤ md') (h2 : md' < step / 2) (d : K) : corr fl md step d = corr fl md' step d := by
  unfold corr
  rw [absG_eq_abs]
  by_cases ha : |d| > md'
  · have : |d| > md := lt_of_le_of_lt h1 ha
    simp [ha, this]
  · by_cases hb : |d| > md
    · have hd : |d| < step / 2 := lt_of_le_of_lt (not_lt.mp ha) h2
      simp [ha, hb, nearRes_small fl hf step d hs hd]
    · simp [ha, hb]

theorem unwrapSpec_md_irrelevant (fl : K → K) (hf : IsFloor fl) (md md' step : K) (hs : 0 < step)
    (h1 : md ≤ md') (h2 : md' < step / 2) (xs : List K) :
    unwrapSpec fl md step xs = unwrapSpec fl md' step xs := by
  unfold unwrapSpec
  have : corr fl md step = corr fl md' step := funext (corr_md_irrelevant fl hf md md' step hs h1 h2)
  rw [this]

/-! ### hasJumpAbove -/

theorem hasJumpAbove_false_iff (md : K) : ∀ xs : List K,
    hasJumpAbove md xs = false ↔ AdjAll (fun a b => ¬ |b - a| > md) xs
  | [] => by simp [hasJumpAbove, AdjAll]
  | [_] => by simp [hasJumpAbove, AdjAll]
  | x :: y :: rest => by
    simp only [hasJumpAbove, AdjAll, Bool.or_eq_false_iff, decide_eq_false_iff_not, absG_eq_abs]
    rw [hasJumpAbove_false_iff md (y :: rest)]

/-! ### clip: a limit strictly beyond every sample is as good as `None` -/

omit [Field K] [IsStrictOrderedRing K] in
theorem clip_low_beyond (lo : K) (high : Option K) (xs : List K)
    (hok : ∀ hi, high = some hi → ¬ hi < lo) (h : ∀ x ∈ xs, lo < x) :
    clip (some lo) high xs = clip none high xs := by
  cases high with
  | none =>
    simp only [clip]
    congr 1
    have : ∀ x ∈ xs, (if x > lo then x else lo) = x := fun x hx => by simp [h x hx]
    rw [List.map_congr_left this]; simp
  | some hi =>
    have hn := hok hi rfl
    simp only [clip, hn, if_false]
    congr 1
    apply List.map_congr_left
    intro x hx
    have hlx := h x hx
    have : ¬ x < lo := not_lt.mpr hlx.le
    simp only [this, if_false]
    by_cases hh : x > hi
    · simp [hh, not_lt.mpr (le_of_lt hh)]
    · have : x < hi ∨ x = hi := lt_or_eq_of_le (not_lt.mp hh)
      rcases this with h' | h'
      · simp [h', hh]
      · simp [h']

omit [Field K] [IsStrictOrderedRing K] in
theorem clip_high_beyond (low : Option K) (hi : K) (xs : List K)
    (hok : ∀ lo, low = some lo → ¬ hi < lo) (h : ∀ x ∈ xs, x < hi) :
    clip low (some hi) xs = clip low none xs := by
  cases low with
  | none =>
    simp only [clip]
    congr 1
    have : ∀ x ∈ xs, (if x < hi then x else hi) = x := fun x hx => by simp [h x hx]
    rw [List.map_congr_left this]; simp
  | some lo =>
    have hn := hok lo rfl
    simp only [clip, hn, if_false]
    congr 1
    apply List.map_congr_left
    intro x hx
    have hxh := h x hx
    have : ¬ x > hi := not_lt.mpr hxh.le
    simp only [this, if_false]
    by_cases hl : x < lo
    · simp [hl, not_lt.mpr (le_of_lt hl)]
    · have : x > lo ∨ x = lo := by
        rcases lt_or_eq_of_le (not_lt.mp hl) with h' | h'
        · exact Or.inl h'
        · exact Or.inr h'.symm
      rcases this with h' | h'
      · simp [h', hl]
      · simp [h']

/-! ### zcross: a hysteresis that no sample exceeds -/

theorem zphase2_all_inside (h : K) (s : K) (hs : s = 1 ∨ s = -1) : ∀ xs : List K,
    (∀ x ∈ xs, |x| ≤ h) → zphase2 h s xs = List.replicate xs.length 0
  | [], _ => by simp [zphase2]
  | x :: rest, hx => by
    have hx0 := abs_le.mp (hx x (by simp))
    have : ¬ x * s < -h := by
      rcases hs with rfl | rfl <;> simp <;> linarith [hx0.1, hx0.2]
    simp only [zphase2, this, if_false, List.length_cons, List.replicate_succ]
    rw [zphase2_all_inside h s hs rest (fun y hy => hx y (by simp [hy]))]

theorem zphase1_all_inside (h : K) : ∀ xs : List K,
    (∀ x ∈ xs, |x| ≤ h) → zphase1 h xs = List.replicate xs.length 0
  | [], _ => by simp [zphase1]
  | x :: rest, hx => by
    have hx0 := abs_le.mp (hx x (by simp))
    have : ¬ (x > h ∨ x < -h) := by
      rw [not_or, gt_iff_lt, not_lt, not_lt]; exact ⟨hx0.2, hx0.1⟩
    simp only [zphase1, this, if_false, List.length_cons, List.replicate_succ]
    rw [zphase1_all_inside h rest (fun y hy => hx y (by simp [hy]))]

end ALV.C20
