/-
  C10 — helper lemmas, part 11: the call layer (`Model/C10Call.lean`) reduced to the function bodies.
-/
import ALV.Lemmas.C10CovErr
import ALV.Lemmas.C10LevErr

namespace ALV.C10
variable {K : Type} [Field K] [DecidableEq K]

omit [Field K] [DecidableEq K] in
theorem length_pred_succ {l : List K} (h : l ≠ []) : l.length - 1 + 1 = l.length := by
  have := List.length_pos_iff.2 h; omega

/-- a non-negative int, or any int on a non-empty lag list, is the body at `order = max(i, 0)` -/
theorem levinsonCall_int (r : List K) (i : Int) (h : 0 ≤ i ∨ r ≠ []) :
    levinsonCall r (.int i) = levinson r (some i.toNat) := by
  by_cases hi : i < 0
  · have hr : r ≠ [] := by
      rcases h with h | h
      · omega
      · exact h
    have hl : r.length ≠ 0 := fun h0 => hr (List.length_eq_zero_iff.1 h0)
    have h0 : i.toNat = 0 := by omega
    have hz : ¬ 0 ≥ r.length := by omega
    simp [levinsonCall, hi, hl, h0, levinson, zeroExt, hz, levIter, bind, Except.bind, pure, Except.pure]
  · simp [levinsonCall, hi]

/-- the lag vector a returning `lpc.kautocor` call works on, and its order -/
theorem kautocorCall_ok {blk : List K} {o : OrdArg} {x : List K × K}
    (h : kautocorCall blk o = .ok x) :
    kautocor blk o.toOption = .ok x ∧ blkOrder blk o.toOption = callOrder blk.length o := by
  unfold kautocorCall at h
  cases o with
  | omitted => exact ⟨by simpa [acorrCall, levinsonCall, bind, Except.bind, kautocor, OrdArg.toOption] using h, rfl⟩
  | none => exact ⟨by simpa [acorrCall, levinsonCall, bind, Except.bind, kautocor, OrdArg.toOption] using h, rfl⟩
  | int i =>
    by_cases hi : i < 0
    · simp [acorrCall, levinsonCall, hi, bind, Except.bind] at h
    · simp only [acorrCall, hi, if_false, bind, Except.bind] at h
      rw [levinsonCall_int _ _ (.inl (by omega))] at h
      exact ⟨h, rfl⟩
  | real q fl => simp [acorrCall, bind, Except.bind] at h

theorem kcovarCallWith_ok {u : K → Bool} {blk : List K} {o : OrdArg} {x : List K × K}
    (h : kcovarCallWith u blk o = .ok x) :
    kcovarWith u blk o.toOption = .ok x ∧ blkOrder blk o.toOption = callOrder blk.length o := by
  unfold kcovarCallWith at h
  cases o with
  | omitted => exact ⟨by simpa [lagMatrixCall, kcovarWith, OrdArg.toOption] using h, rfl⟩
  | none => exact ⟨by simpa [lagMatrixCall, kcovarWith, OrdArg.toOption] using h, rfl⟩
  | int i =>
    by_cases hi : i < 0
    · simp [lagMatrixCall, hi, bind, Except.bind, kcovarOn] at h
    · simp only [lagMatrixCall, hi, if_false] at h
      exact ⟨h, rfl⟩
  | real q fl =>
    simp only [lagMatrixCall] at h
    split at h <;> simp [bind, Except.bind] at h

theorem levinson_none_eq (r : List K) (h : r ≠ []) :
    levinson r none = levinson r (some (r.length - 1)) := by
  have hl : r.length ≠ 0 := fun h0 => h (List.length_eq_zero_iff.1 h0)
  have hz : ¬ r.length - 1 ≥ r.length := by omega
  simp [levinson, zeroExt, hl, hz]

end ALV.C10
