/-
  C03 — the regenerated programs (`ALV.Gen.C03`, written by harness/props/c03_tr.py from
  audiolazy/lazy_stream.py) mean what the hand-written model says: one lemma per translated method.
-/
import ALV.Gen.C03Src
namespace ALV.C03.Src
open ALV.C03
variable {α : Type}

theorem takeIt_eq_takeWith (f : Nat) (h : Heap α) (it : It α) (c : Cnt) :
    takeIt f h it c = takeWith f h it (takeMode c) := by
  unfold takeIt takeWith
  cases takeMode c <;> rfl

theorem toNat_max_zero (k : Int) : (if 0 > k then (0 : Int) else k).toNat = k.toNat := by
  split <;> omega

theorem toNat_max_zero' (k : Int) : (if k > 0 then k else (0 : Int)).toNat = k.toNat := by
  split <;> omega

/-- `Stream.take`: the guards and the rounding of the regenerated body decide the mode `takeMode` decides -/
theorem takeModeP_gen (c : Cnt) : takeModeP ALV.Gen.C03.take c = .ok (takeMode c) := by
  cases c with
  | none => rfl
  | int n =>
    simp [takeModeP, ALV.Gen.C03.take, exec, envOf, evalCond, evalRet, evalCE, takeMode, Except.map, toNat_max_zero, toNat_max_zero']
  | flt x =>
    by_cases hx : x > 0
    · simp [takeModeP, ALV.Gen.C03.take, exec, envOf, evalCond, evalRet, evalCE, takeMode, Except.map, hx, toNat_max_zero, toNat_max_zero']
    · simp [takeModeP, ALV.Gen.C03.take, exec, envOf, evalCond, evalRet, evalCE, takeMode, Except.map, hx]
  | inf => rfl
  | ninf => rfl
  | nan => rfl

theorem takeP_gen (f : Nat) (h : Heap α) (it : It α) (c : Cnt) :
    takeP ALV.Gen.C03.take f h it c = takeIt f h it c := by
  rw [takeIt_eq_takeWith, takeP, takeModeP_gen]

theorem copyP_gen (h : Heap α) (it : It α) :
    copyP ALV.Gen.C03.copy h it = .ok ((teeOf h it).1, (teeOf h it).2, (teeOf h it).2) := by
  rfl

theorem hubCopyP_gen (h : Heap α) (it : It α) :
    hubCopyP ALV.Gen.C03.hubCopy h it = .ok ((teeOf h it).1, (teeOf h it).2, (teeOf h it).2) := by
  rfl

theorem peekArgP_gen (c : Cnt) : peekArgP ALV.Gen.C03.peek c = .ok c := by
  rfl

theorem wrapP_skip (it : It α) (c : Cnt) (g : α → α) (p : α → Bool) (o : Option (It α)) :
    wrapP ALV.Gen.C03.skip it c g p o =
      match roundCount c with
      | .error _ => .error .refused
      | .ok n => .ok (.skipper n it) := by
  cases c <;> rfl

theorem wrapP_limit (it : It α) (c : Cnt) (g : α → α) (p : α → Bool) (o : Option (It α)) :
    wrapP ALV.Gen.C03.limit it c g p o =
      match roundCount c with
      | .error e => .error (.eager e)
      | .ok n => .ok (.limiter n it) := by
  cases c with
  | int n => simp [wrapP, ALV.Gen.C03.limit, exec, evalIE, evalCE, evalRet, roundCount, Except.map, toNat_max_zero, toNat_max_zero']
  | flt x => simp [wrapP, ALV.Gen.C03.limit, exec, evalIE, evalCE, evalRet, roundCount, Except.map, toNat_max_zero, toNat_max_zero']
  | none => rfl
  | inf => rfl
  | ninf => rfl
  | nan => rfl

theorem wrapP_append (it it2 : It α) (c : Cnt) (g : α → α) (p : α → Bool) :
    wrapP ALV.Gen.C03.append it c g p (some it2) = .ok (.chain it it2) := by
  rfl

theorem wrapP_map (it : It α) (c : Cnt) (g : α → α) (p : α → Bool) (o : Option (It α)) :
    wrapP ALV.Gen.C03.map it c g p o = .ok (.map g it) := by
  rfl

theorem wrapP_filter (it : It α) (c : Cnt) (g : α → α) (p : α → Bool) (o : Option (It α)) :
    wrapP ALV.Gen.C03.filter it c g p o = .ok (.filter p it) := by
  rfl

theorem stepP_take (f : Nat) (st : St α) (i : Nat) (c : Cnt) :
    stepP ALV.Gen.C03.progs f st (.take i c) = step f st (.take i c) := by
  simp only [stepP, step, ALV.Gen.C03.progs, takeP_gen]
  rfl

theorem stepP_peek (f : Nat) (st : St α) (i : Nat) (c : Cnt) :
    stepP ALV.Gen.C03.progs f st (.peek i c) = step f st (.peek i c) := by
  simp only [stepP, step, ALV.Gen.C03.progs, takeP_gen, peekArgP_gen, copyP_gen, hubCopyP_gen]
  rfl

theorem stepP_copy (f : Nat) (st : St α) (i : Nat) :
    stepP ALV.Gen.C03.progs f st (.copy i) = step f st (.copy i) := by
  simp only [stepP, step, ALV.Gen.C03.progs, copyP_gen, hubCopyP_gen]
  rfl

theorem stepP_skip (f : Nat) (st : St α) (i : Nat) (c : Cnt) :
    stepP ALV.Gen.C03.progs f st (.skip i c) = step f st (.skip i c) := by
  simp only [stepP, step, ALV.Gen.C03.progs, inPlace, wrapP_skip]
  cases target st i with
  | error e => rfl
  | ok r => cases roundCount c <;> rfl

theorem stepP_limit (f : Nat) (st : St α) (i : Nat) (c : Cnt) :
    stepP ALV.Gen.C03.progs f st (.limit i c) = step f st (.limit i c) := by
  simp only [stepP, step, ALV.Gen.C03.progs, inPlace, wrapP_limit]
  cases target st i with
  | error e => rfl
  | ok r => cases roundCount c <;> rfl

theorem stepP_append (f : Nat) (st : St α) (i : Nat) (s : Src α) :
    stepP ALV.Gen.C03.progs f st (.append i s) = step f st (.append i s) := by
  simp only [stepP, step, ALV.Gen.C03.progs, inPlace, wrapP_append]
  rfl

theorem stepP_map (f : Nat) (st : St α) (i : Nat) (g : α → α) :
    stepP ALV.Gen.C03.progs f st (.map i g) = step f st (.map i g) := by
  simp only [stepP, step, ALV.Gen.C03.progs, inPlace, wrapP_map]
  rfl

theorem stepP_filter (f : Nat) (st : St α) (i : Nat) (p : α → Bool) :
    stepP ALV.Gen.C03.progs f st (.filter i p) = step f st (.filter i p) := by
  simp only [stepP, step, ALV.Gen.C03.progs, inPlace, wrapP_filter]
  rfl

theorem hubInitP_gen (st : St α) (s : Src α) (n : Nat) :
    hubInitP ALV.Gen.C03.hubInit st s n =
      match mkSrc st s with
      | .error e => some (st, .err e)
      | .ok (st', it) =>
        some (⟨(teeOf st'.heap it).1, st'.pool ++ [.hub (List.replicate n (teeOf st'.heap it).2)]⟩, .new st'.pool.length) := by
  simp only [hubInitP, ALV.Gen.C03.hubInit, execHI]
  cases mkSrc st s with
  | error e => rfl
  | ok r => rfl

theorem stepP_thub (f : Nat) (st : St α) (s : Src α) (n : Nat) :
    stepP ALV.Gen.C03.progs f st (.thub s n) = step f st (.thub s n) := by
  simp only [stepP, thubP, ALV.Gen.C03.progs, ALV.Gen.C03.thub, hubInitP_gen]
  cases s <;> simp only [step] <;> (try rfl) <;> (split <;> rfl)

theorem initP_gen (args : List (CArg α)) : initP ALV.Gen.C03.init args = elabArgs args := by
  match args with
  | [] => rfl
  | [a] => cases a <;> rfl
  | a :: b :: r =>
    simp only [initP, ALV.Gen.C03.init, evalICond, evalIData, chainItersOf, elabArgs]
    by_cases h1 : (a :: b :: r).all CArg.iterable
    · simp [h1]; rfl
    · by_cases h2 : (a :: b :: r).all (fun a => !a.iterable)
      · simp [h1, h2]
      · simp [h1, h2]

theorem stepP_tee (f : Nat) (st : St α) (i n : Nat) :
    stepP ALV.Gen.C03.progs f st (.tee i n) = step f st (.tee i n) := by
  simp only [stepP, teeP, ALV.Gen.C03.progs, ALV.Gen.C03.tee, step]
  cases mkSrc st (.obj i) with
  | error e => rfl
  | ok r => rfl

/-- the step function of the history model IS the interpretation of the regenerated programs -/
theorem stepP_gen (f : Nat) (st : St α) (op : Op α) : stepP ALV.Gen.C03.progs f st op = step f st op := by
  cases op with
  | take i c => exact stepP_take f st i c
  | peek i c => exact stepP_peek f st i c
  | skip i c => exact stepP_skip f st i c
  | limit i c => exact stepP_limit f st i c
  | append i s => exact stepP_append f st i s
  | map i g => exact stepP_map f st i g
  | filter i p => exact stepP_filter f st i p
  | copy i => exact stepP_copy f st i
  | new s => rfl
  | next i => rfl
  | drain i => rfl
  | thub s n => exact stepP_thub f st s n
  | tee i n => exact stepP_tee f st i n

end ALV.C03.Src
