/-
  C10 — helper lemmas, part 8: when `levinson_durbin` raises.  The divisor of pass m+1 is the
  prediction error of order m, so ParCorError is raised exactly when an intermediate prediction
  error is zero; nothing else is raised for a definite order.
-/
import ALV.Lemmas.C10Lev

namespace ALV.C10
open Finset
variable {K : Type} [Field K] [DecidableEq K]

omit [DecidableEq K] in
theorem inner_congr (r r' a b : List K) (h : ∀ k, coef r k = coef r' k) :
    inner r a b = inner r' a b := by
  unfold inner
  simp only [h]

theorem levStep_congr (r r' : List K) (h : ∀ k, coef r k = coef r' k) (m : ℕ) (A : List K) :
    levStep r m A = levStep r' m A := by
  unfold levStep
  simp only [inner_congr r r' _ _ h]

theorem levIter_congr (r r' : List K) (h : ∀ k, coef r k = coef r' k) (m : ℕ) :
    levIter r m = levIter r' m := by
  induction m with
  | zero => rfl
  | succ m ih => simp only [levIter, ih, levStep_congr r r' h]

/-- an error persists through the remaining passes -/
theorem levIter_error_mono (r : List K) (n n' : ℕ) (e : String) (h : levIter r n = .error e)
    (hn : n ≤ n') : levIter r n' = .error e := by
  induction n' with
  | zero =>
    have : n = 0 := by omega
    subst this; exact h
  | succ k ih =>
    rcases Nat.lt_or_ge n (k + 1) with h1 | h1
    · simp only [levIter, ih (by omega)]
      rfl
    · have : n = k + 1 := by omega
      subst this; exact h

/-- pass m+1 raises iff the prediction error of order m is zero -/
theorem levStep_error_iff {r : List K} {m : ℕ} {A : List K} (h : LevInv r m A) :
    (∃ e, levStep r (m + 1) A = .error e) ↔ inner r A A = 0 := by
  unfold levStep
  simp only
  rw [h.inner_rev, ← h.inner_self]
  by_cases h0 : inner r A A = 0 <;> simp [h0]

theorem levStep_error_kind {r : List K} {m : ℕ} {A : List K} {e : String}
    (h : levStep r m A = .error e) : e = "ParCorError" := by
  unfold levStep at h
  simp only at h
  split at h
  · injection h with h; exact h.symm
  · cases h

/-- a raising loop: the kind is ParCorError and some earlier order has zero prediction error -/
theorem levIter_error {r : List K} {p : ℕ} {e : String} (h : levIter r p = .error e) :
    e = "ParCorError" ∧ ∃ m, m < p ∧ ∃ A, levIter r m = .ok A ∧ inner r A A = 0 := by
  induction p with
  | zero => simp [levIter] at h
  | succ p ih =>
    simp only [levIter] at h
    cases hA : levIter r p with
    | error e' =>
      rw [hA] at h
      injection h with h; subst h
      obtain ⟨h1, m, hm, A, h2, h3⟩ := ih hA
      exact ⟨h1, m, by omega, A, h2, h3⟩
    | ok A =>
      rw [hA] at h
      have hinv := levIter_inv r p A hA
      exact ⟨levStep_error_kind h, p, by omega, A, hA, (levStep_error_iff hinv).1 ⟨e, h⟩⟩

/-- conversely, a zero prediction error at order m makes every larger order raise -/
theorem levIter_error_of_zero {r : List K} {m p : ℕ} {A : List K} (hA : levIter r m = .ok A)
    (h0 : inner r A A = 0) (hmp : m < p) : levIter r p = .error "ParCorError" := by
  have hinv := levIter_inv r m A hA
  obtain ⟨e, he⟩ := (levStep_error_iff hinv).2 h0
  have hk := levStep_error_kind he
  subst hk
  refine levIter_error_mono r (m + 1) p _ ?_ hmp
  simp only [levIter, hA]
  exact he

/-- the prediction error after pass m+1: `E' = E − Δ²/E` with `Δ = ⟨A, z^-(m+1)⟩` -/
theorem levStep_error {r : List K} {m : ℕ} {A A' : List K} (h : LevInv r m A)
    (hs : levStep r (m + 1) A = .ok A') :
    inner r A' A' = inner r A A - (Nf r (coef A) (m + 2) (m + 1)) ^ 2 / inner r A A := by
  have hinv' := levStep_inv h hs
  rw [hinv'.inner_self, h.inner_self]
  unfold levStep at hs
  simp only at hs
  split at hs
  · cases hs
  · next hden =>
    injection hs with hs
    subst hs
    have htop : coef A (m + 1) = 0 := h.coef_top _ le_rfl
    have hB : ∀ j, j ≤ m + 1 → coef (revShift (m + 1) A) j = coef A (m + 1 - j) :=
      fun j hj => by rw [coef_revShift, if_pos hj]
    rw [h.inner_rev] at hden
    rw [h.inner_rev, inner_delay r A (m + 1) (h.len.trans (by omega))]
    have hfun : coef (subScaled A (Nf r (coef A) (m + 1 + 1) (m + 1) / Nf r (coef A) (m + 1) 0)
        (revShift (m + 1) A)) = fun j => coef A j -
          Nf r (coef A) (m + 1 + 1) (m + 1) / Nf r (coef A) (m + 1) 0 * coef (revShift (m + 1) A) j :=
      funext fun j => coef_subScaled _ _ _ _
    rw [hfun, Nf_sub_smul, Nf_reflect r (m + 1) (coef A) _ hB 0 (by omega), Nat.sub_zero,
      Nf_succ_of_zero r (coef A) (m + 1) 0 htop]
    field_simp

omit [DecidableEq K] in
/-- the normal equations in the matrix form of the docstring (`R . a = -r`, R Toeplitz) -/
theorem yuleWalker_matrix_form (r a : List K) (p : ℕ) (h : IsYuleWalker r a p) (R : List K)
    (hR : ∀ k, k < p → coef R k = coef r k) (i : ℕ) (hi : i < p) :
    ∑ j ∈ range p, coef R (adiff j i) * coef a (j + 1) = - coef r (i + 1) := by
  have h1 := h.2.2 (i + 1) (by omega) (by omega)
  rw [neResidual_eq] at h1
  unfold Nf at h1
  rw [Finset.sum_range_succ', h.1, one_mul] at h1
  have : adiff (i + 1) 0 = i + 1 := by simp [adiff]
  rw [this] at h1
  rw [eq_neg_iff_add_eq_zero, ← h1]
  congr 1
  refine Finset.sum_congr rfl fun j hj => ?_
  have hj' : j < p := by simpa using hj
  have e : adiff (i + 1) (j + 1) = adiff j i := by unfold adiff; split <;> split <;> omega
  have hlt : adiff j i < p := by unfold adiff; split <;> omega
  rw [e, hR _ hlt]
  ring

end ALV.C10
