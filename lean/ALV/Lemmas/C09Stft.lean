/-
  C09 — lemmas about the decision logic of the stft wrapper (keyword dictionaries).
  Core Lean only.
-/
import ALV.Model.C09
import ALV.Spec.C09

namespace ALV.C09

/-! ### `ola_` prefix -/

theorem stripOla_spec (k k' : String) : stripOla k = some k' ↔ k = "ola_" ++ k' := by
  unfold stripOla
  constructor
  · intro h
    split at h
    · rename_i rest hk
      simp only [Option.some.injEq] at h
      subst h
      apply String.toList_inj.1
      rw [hk, String.toList_append]
      simp
    · simp at h
  · intro h
    subst h
    simp [String.toList_append]

/-! ### dictionaries -/

theorem dictGet_dictSet (d : Dict) (k k' : String) (v : PV) :
    dictGet (dictSet d k v) k' = if k' = k then some v else dictGet d k' := by
  induction d with
  | nil =>
    simp only [dictSet, dictGet, List.find?]
    by_cases h : k = k'
    · subst h; simp
    · have : ¬ k' = k := fun e => h e.symm
      simp [h, this]
  | cons kv rest ih =>
    obtain ⟨k0, v0⟩ := kv
    unfold dictSet
    by_cases h0 : k0 = k
    · subst h0
      simp only [if_true]
      by_cases h1 : k' = k0
      · subst h1; simp [dictGet]
      · have : ¬ k0 = k' := fun e => h1 e.symm
        simp [dictGet, List.find?, h1, this]
    · simp only [h0, if_false]
      by_cases h1 : k0 = k'
      · subst h1
        simp [dictGet, List.find?, h0]
      · have e : dictGet ((k0, v0) :: dictSet rest k v) k' = dictGet (dictSet rest k v) k' := by
          simp [dictGet, List.find?, h1]
        have e' : dictGet ((k0, v0) :: rest) k' = dictGet rest k' := by
          simp [dictGet, List.find?, h1]
        rw [e, e', ih]

/-- the last entry of `e` for key `k`, if any -/
def lastFor (e : Dict) (k : String) : Option PV :=
  ((e.filter (fun kv => kv.1 = k)).getLast?).map (·.2)

theorem lastFor_cons (kv : String × PV) (e : Dict) (k : String) :
    lastFor (kv :: e) k = match lastFor e k with
      | some v => some v
      | none => if kv.1 = k then some kv.2 else none := by
  unfold lastFor
  by_cases h : kv.1 = k
  · simp only [List.filter_cons, h, decide_true, if_true]
    generalize e.filter (fun kv => decide (kv.1 = k)) = l
    cases l with
    | nil => rfl
    | cons a as =>
      rw [List.getLast?_cons_cons]
      obtain ⟨x, hx⟩ : ∃ x, (a :: as).getLast? = some x :=
        ⟨(a :: as).getLast (by simp), List.getLast?_eq_some_getLast (by simp)⟩
      rw [hx]; rfl
  · simp only [List.filter_cons, h, decide_false, Bool.false_eq_true, if_false]
    generalize (e.filter (fun kv => decide (kv.1 = k))).getLast? = o
    cases o <;> rfl

/-- `d.update(e)`: the value seen for `k` is the last one in `e`, else the one in `d` -/
theorem dictGet_dictUpdate (d e : Dict) (k : String) :
    dictGet (dictUpdate d e) k = match lastFor e k with
      | some v => some v
      | none => dictGet d k := by
  unfold dictUpdate
  induction e generalizing d with
  | nil => simp [lastFor]
  | cons kv e ih =>
    rw [List.foldl_cons, ih, lastFor_cons]
    cases lastFor e k with
    | some v => rfl
    | none =>
      simp only [dictGet_dictSet]
      by_cases h : kv.1 = k
      · have : k = kv.1 := h.symm
        simp [h]
      · have : ¬ k = kv.1 := fun e => h e.symm
        simp [h, this]

theorem dictUpdate_nil (d : Dict) : dictUpdate d [] = d := rfl

theorem dictUpdate_append (d e f : Dict) :
    dictUpdate d (e ++ f) = dictUpdate (dictUpdate d e) f := by
  simp [dictUpdate, List.foldl_append]

theorem stftDefaults_snoc (chain : List Dict) (d : Dict) :
    stftDefaults (chain ++ [d]) = dictUpdate (stftDefaults chain) d := by
  simp [stftDefaults, List.foldl_append]

theorem stftDefaults_eq_flatten (chain : List Dict) :
    stftDefaults chain = dictUpdate [] chain.flatten := by
  unfold stftDefaults
  suffices h : ∀ acc, chain.foldl dictUpdate acc = dictUpdate acc chain.flatten from h []
  induction chain with
  | nil => intro acc; rfl
  | cons d ds ih =>
    intro acc
    rw [List.foldl_cons, ih, List.flatten_cons, dictUpdate_append]

/-! ### the loop over the remaining keywords -/

/-- `ola_<k> = v`  ↦  `<k> = v` -/
def stripKw (kv : String × PV) : Option (String × PV) := (stripOla kv.1).map fun k' => (k', kv.2)

theorem routeRest_ok (ola : PV) : ∀ (rest acc r : Dict), routeRest ola rest acc = .ok r →
    (∀ kv ∈ rest, ∃ k', kv.1 = "ola_" ++ k') ∧ (rest ≠ [] → ola ≠ .none) ∧
    r = dictUpdate acc (rest.filterMap stripKw) := by
  intro rest
  induction rest with
  | nil =>
    intro acc r h
    simp only [routeRest, Except.ok.injEq] at h
    subst h
    simp [dictUpdate]
  | cons kv rest ih =>
    intro acc r h
    obtain ⟨k, v⟩ := kv
    unfold routeRest at h
    cases hs : stripOla k with
    | none => simp [hs] at h
    | some k' =>
      simp only [hs] at h
      by_cases ho : ola = .none
      · simp [ho] at h
      · simp only [ne_eq, ho, not_false_eq_true, if_true] at h
        obtain ⟨h1, _, h3⟩ := ih _ _ h
        refine ⟨?_, fun _ => ho, ?_⟩
        · intro kv hkv
          simp only [List.mem_cons] at hkv
          rcases hkv with rfl | hkv
          · exact ⟨k', (stripOla_spec _ _).1 hs⟩
          · exact h1 kv hkv
        · rw [h3]
          simp [stripKw, hs, dictUpdate]

theorem lastFor_filterMap_strip (rest : Dict) (k : String) :
    lastFor (rest.filterMap stripKw) k = lastFor rest ("ola_" ++ k) := by
  induction rest with
  | nil => rfl
  | cons kv rest ih =>
    rw [lastFor_cons, ← ih]
    obtain ⟨k0, v0⟩ := kv
    cases hs : stripOla k0 with
    | none =>
      have hne : ¬ k0 = "ola_" ++ k := by
        intro e
        have := (stripOla_spec k0 k).2 e
        rw [hs] at this
        cases this
      simp only [List.filterMap_cons, stripKw, hs, Option.map_none, hne, if_false]
      cases lastFor (List.filterMap stripKw rest) k <;> rfl
    | some k1 =>
      have hk0 : k0 = "ola_" ++ k1 := (stripOla_spec _ _).1 hs
      simp only [List.filterMap_cons, stripKw, hs, Option.map_some]
      rw [lastFor_cons]
      have : (k0 = "ola_" ++ k) ↔ (k1 = k) := by
        constructor
        · intro e
          have h2 := (stripOla_spec k0 k).2 e
          rw [hs] at h2
          exact Option.some.inj h2
        · intro e; rw [hk0, e]
      by_cases hk : k1 = k
      · simp [hk, this.2 hk]
      · have : ¬ k0 = "ola_" ++ k := fun e => hk (this.1 e)
        simp [hk, this]

theorem lastFor_filter_ne (d : Dict) (k0 k : String) (h : k ≠ k0) :
    lastFor (d.filter (fun kv => kv.1 ≠ k0)) k = lastFor d k := by
  unfold lastFor
  rw [List.filter_filter]
  have : (fun a : String × PV => decide (a.1 = k) && decide (a.1 ≠ k0)) =
      fun kv => decide (kv.1 = k) := by
    funext kv
    by_cases e : kv.1 = k
    · simp [e, h]
    · simp [e]
  rw [this]

theorem ola_ne (k s : String) (hs : stripOla s = none) : "ola_" ++ k ≠ s := by
  intro e
  have := (stripOla_spec s k).2 e.symm
  rw [hs] at this
  cases this

theorem strip_size : stripOla "size" = none := by decide
theorem strip_hop : stripOla "hop" = none := by decide
theorem strip_wnd : stripOla "wnd" = none := by decide
theorem strip_ola : stripOla "ola" = none := by decide
theorem strip_tr : stripOla "transform" = none := by decide
theorem strip_itr : stripOla "inverse_transform" = none := by decide
theorem strip_bef : stripOla "before" = none := by decide
theorem strip_aft : stripOla "after" = none := by decide

theorem dictGet_filter_ne (d : Dict) (k0 k : String) (h : k ≠ k0) :
    dictGet (d.filter (fun kv => kv.1 ≠ k0)) k = dictGet d k := by
  unfold dictGet
  induction d with
  | nil => rfl
  | cons kv d ih =>
    by_cases e : kv.1 = k
    · have hk : kv.1 ≠ k0 := by rw [e]; exact h
      rw [List.filter_cons_of_pos (by simpa using hk), List.find?_cons_of_pos (by simpa using e),
        List.find?_cons_of_pos (by simpa using e)]
    · rw [List.find?_cons_of_neg (by simpa using e)]
      by_cases e0 : kv.1 = k0
      · rw [List.filter_cons_of_neg (by simpa using e0)]; exact ih
      · rw [List.filter_cons_of_pos (by simpa using e0), List.find?_cons_of_neg (by simpa using e)]
        exact ih


/-- membership in a popped dictionary -/
theorem mem_filter_ne (d : Dict) (k0 : String) (kv : String × PV) :
    kv ∈ d.filter (fun x => x.1 ≠ k0) ↔ kv ∈ d ∧ kv.1 ≠ k0 := by
  simp [List.mem_filter]

end ALV.C09
