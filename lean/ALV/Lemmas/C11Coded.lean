/-
  C11 — helper lemmas, part 2: the code-shaped model (window of Laurent coefficients,
  forced leading 1, constant denominator `d`) refines the specification whenever the
  coefficient of z^0 is 1 after the code's normalisation.
-/
import ALV.Lemmas.C11
import Mathlib.Tactic.Linarith

set_option linter.unusedSectionVars false
set_option linter.unusedVariables false

namespace ALV.C11
variable {K : Type} [Field K] [DecidableEq K]

/-- a causal coefficient list read at any (integer) delay -/
def emb (f : List K) (i : Int) : K := if 0 ≤ i then f.getD i.toNat 0 else 0

theorem lget_wtab (n : Nat) (g : Int → K) (i : Int) :
    lget n (wtab n g) i = if -(n : Int) ≤ i ∧ i ≤ (n : Int) then g i else 0 := by
  unfold lget
  split
  · rename_i h
    have hj : (i + (n : Int)).toNat < 2 * n + 1 := by omega
    unfold wtab
    rw [List.getD_eq_getElem?_getD, List.getElem?_map, List.getElem?_range hj]
    simp only [Option.map_some, Option.getD_some]
    congr 1
    omega
  · rfl

/-- the window holds exactly the causal list `f` -/
def Rep (n : Nat) (w f : List K) : Prop := f.length ≤ n + 1 ∧ ∀ i : Int, lget n w i = emb f i

theorem emb_of_length_le (f : List K) (i : Int) (h : (f.length : Int) ≤ i) : emb f i = 0 := by
  unfold emb
  split
  · rw [List.getD_eq_getElem?_getD, List.getElem?_eq_none (by omega)]; rfl
  · rfl

theorem emb_neg (f : List K) (i : Int) (h : i < 0) : emb f i = 0 := by
  unfold emb; rw [if_neg (by omega)]

theorem emb_nat (f : List K) (j : Nat) : emb f (j : Int) = f.getD j 0 := by
  unfold emb; simp

theorem rep_wOfList (n : Nat) (f : List K) (h : f.length ≤ n + 1) : Rep n (wOfList n f) f := by
  refine ⟨h, fun i => ?_⟩
  unfold wOfList
  rw [lget_wtab]
  split
  · rfl
  · rename_i hw
    by_cases h0 : i < 0
    · rw [emb_neg f i h0]
    · rw [emb_of_length_le f i (by omega)]

/-- pointwise form of the specification's step-down -/
theorem stepDown1_getD (f : List K) (k : K) (j : Nat) :
    (stepDown1 f k).getD j 0 =
      if j + 1 < f.length then (f.getD j 0 - k * f.getD (f.length - 1 - j) 0) / (1 - k * k) else 0 := by
  unfold stepDown1
  rw [List.getD_eq_getElem?_getD, List.getElem?_dropLast]
  simp only [List.length_zipWith, List.length_reverse, Nat.min_self]
  split
  · rename_i h
    have hj : j < f.length := by omega
    rw [if_pos (by omega), List.getElem?_zipWith, List.getElem?_reverse hj]
    have h2 : f.length - 1 - j < f.length := by omega
    rw [List.getElem?_eq_getElem hj, List.getElem?_eq_getElem h2]
    simp only [Option.getD_some]
    rw [List.getD_eq_getElem?_getD, List.getD_eq_getElem?_getD,
      List.getElem?_eq_getElem hj, List.getElem?_eq_getElem h2]
    rfl
  · rename_i h
    rw [if_neg (by omega)]; rfl

theorem emb_stepDown1 (f : List K) (k : K) (m : Nat) (hlen : f.length = m + 2) (i : Int) :
    emb (stepDown1 f k) i =
      if 0 ≤ i ∧ i ≤ (m : Int) then (emb f i - k * emb f ((m : Int) + 1 - i)) / (1 - k * k) else 0 := by
  by_cases h0 : 0 ≤ i
  · obtain ⟨j, rfl⟩ := Int.eq_ofNat_of_zero_le h0
    rw [emb_nat, stepDown1_getD, hlen]
    by_cases hj : j ≤ m
    · rw [if_pos (by omega), if_pos (by omega), emb_nat]
      have : ((m : Int) + 1 - (j : Int)) = ((m + 1 - j : Nat) : Int) := by omega
      rw [this, emb_nat]
      congr 3
    · rw [if_neg (by omega), if_neg (by omega)]
  · rw [emb_neg _ _ (by omega), if_neg (by omega)]

theorem getD_last (f : List K) (m : Nat) (hlen : f.length = m + 1) : f.getD m 0 = f.getLastD 0 := by
  rw [List.getD_eq_getElem?_getD, List.getLastD_eq_getLast?, List.getLast?_eq_getElem?, hlen]
  simp

/-- one pass of the coded loop body against one specification step -/
theorem pstep_spec (n : Nat) (d : K) (w t : List K) (m : Nat) (hlen : t.length = m + 1)
    (hmn : m + 1 ≤ n) (hrep : Rep n w (1 :: t)) :
    let k := (1 :: t).getLastD 0
    (k * k = 1 → pstep n d w (m + 1) = (k, none)) ∧
    (k * k ≠ 1 → ∃ w', pstep n d w (m + 1) = (k, some w') ∧ Rep n w' (stepDown1 (1 :: t) k)) := by
  intro k
  have hflen : (1 :: t).length = m + 2 := by simp [hlen]
  have hk : lget n w ((m + 1 : Nat) : Int) = k := by
    rw [hrep.2, emb_nat]; exact getD_last _ _ hflen
  have h0 : lget n w 0 = 1 := by
    rw [hrep.2]; simp [emb]
  constructor
  · intro hkk
    unfold pstep
    simp only [hk]
    rw [if_pos (by rw [hkk]; ring)]
  · intro hkk
    have h1 : (1 : K) - k * k ≠ 0 := fun h => hkk (by linear_combination -h)
    unfold pstep
    simp only [hk]
    rw [if_neg h1]
    refine ⟨_, rfl, ?_⟩
    refine ⟨by rw [stepDown1_length]; simp [hlen]; omega, fun i => ?_⟩
    rw [lget_wtab]
    by_cases hw : -(n : Int) ≤ i ∧ i ≤ (n : Int)
    · rw [if_pos hw]
      have hc : lget n (wtab n fun i => (lget n w i - k * lget n w (((m + 1 : Nat) : Int) - i)) * (1 / (1 - k * k))) 0 = 1 := by
        rw [lget_wtab, if_pos (by omega), h0]
        simp only [Int.sub_zero, hk]
        rw [mul_one_div_cancel h1]
      by_cases hi0 : i = 0
      · subst hi0
        rw [if_pos rfl, hc, emb_stepDown1 _ _ m hflen, if_pos (by omega)]
        have e0 : emb (1 :: t) 0 = 1 := by simp [emb]
        have em : emb (1 :: t) ((m : Int) + 1 - 0) = k := by
          have : ((m : Int) + 1 - 0) = ((m + 1 : Nat) : Int) := by omega
          rw [this, emb_nat]; exact getD_last _ _ hflen
        rw [e0, em, div_self h1]
        ring
      · rw [if_neg hi0, lget_wtab, if_pos hw, hrep.2, hrep.2, emb_stepDown1 _ _ m hflen]
        have hcast : (((m + 1 : Nat) : Int) - i) = (m : Int) + 1 - i := by omega
        rw [hcast]
        by_cases hin : 0 ≤ i ∧ i ≤ (m : Int)
        · rw [if_pos hin, mul_one_div]
        · rw [if_neg hin]
          by_cases hneg : i < 0
          · rw [emb_neg _ _ hneg, emb_of_length_le _ _ (by rw [hflen]; omega)]; ring
          · by_cases him : i = (m : Int) + 1
            · have e1 : emb (1 :: t) i = k := by
                rw [him]
                have : ((m : Int) + 1) = ((m + 1 : Nat) : Int) := by omega
                rw [this, emb_nat]; exact getD_last _ _ hflen
              have e2 : emb (1 :: t) ((m : Int) + 1 - i) = 1 := by
                rw [him]; simp [emb]
              rw [e1, e2]; ring
            · rw [emb_of_length_le _ i (by rw [hflen]; omega), emb_neg _ _ (by omega)]; ring
    · rw [if_neg hw]
      by_cases hneg : i < 0
      · rw [emb_neg _ _ hneg]
      · rw [emb_of_length_le _ _ (by rw [stepDown1_length, hflen]; omega)]

theorem ploop_succ (n : Nat) (d : K) (m : Nat) (w : List K) :
    ploop n d (m + 1) w = match pstep n d w (m + 1) with
      | (k, none) => ([k], true)
      | (k, some w') => (k :: (ploop n d m w').1, (ploop n d m w').2) := rfl

/-- the coded loop, started on a window that holds a list with first coefficient 1,
    is the specification's step-down loop -/
theorem ploop_eq_sdLoop (n : Nat) (d : K) : ∀ (m : Nat) (w t : List K), t.length = m → m ≤ n →
    Rep n w (1 :: t) → ploop n d m w = sdLoop m (1 :: t)
  | 0, _, _, _, _, _ => rfl
  | m + 1, w, t, hlen, hmn, hrep => by
    obtain ⟨hnone, hsome⟩ := pstep_spec n d w t m hlen hmn hrep
    rw [sdLoop_succ, ploop_succ]
    by_cases hk : (1 :: t).getLastD 0 * (1 :: t).getLastD 0 = 1
    · rw [if_pos hk, hnone hk]
    · obtain ⟨w', hp, hrep'⟩ := hsome hk
      obtain ⟨t', ht'⟩ := stepDown1_head t _ hk rfl (by omega)
      have hlen' : t'.length = m := by
        have := stepDown1_length (1 :: t) ((1 :: t).getLastD 0)
        rw [ht'] at this; simp at this; omega
      rw [if_neg hk, hp]
      rw [ht'] at hrep' ⊢
      simp only []
      rw [ploop_eq_sdLoop n d m w' t' hlen' (by omega) hrep']

theorem monic_cons (g : K) (t : List K) (hg : g ≠ 0) :
    monic (g :: t) = 1 :: t.map (fun x => x / g) := by
  simp [monic, div_self hg]

theorem normDen_cons (d : K) (t : List K) (hd : d ≠ 0) : normDen d (d :: t) = monic (d :: t) := by
  rw [monic_cons d t hd]
  unfold normDen
  split
  · rename_i h1; subst h1; simp
  · simp only [List.map_cons, List.cons.injEq]
    refine ⟨mul_one_div_cancel hd, ?_⟩
    apply List.map_congr_left
    intro x _
    rw [mul_one_div]

theorem normLead_cons (g : K) (t : List K) (hg : g ≠ 0) : normLead (g :: t) = monic (g :: t) := by
  rw [monic_cons g t hg]
  by_cases h1 : g = 1
  · subst h1; simp [normLead]
  · simp only [normLead, List.headD_cons, if_neg h1, List.map_cons, List.cons.injEq]
    refine ⟨mul_one_div_cancel hg, ?_⟩
    apply List.map_congr_left
    intro x _
    rw [mul_one_div]

theorem ploop_monic (d g : K) (t : List K) (hg : g ≠ 0) :
    ploop ((monic (g :: t)).length - 1) d ((monic (g :: t)).length - 1)
      (wOfList ((monic (g :: t)).length - 1) (monic (g :: t)))
    = sdLoop ((monic (g :: t)).length - 1) (monic (g :: t)) := by
  rw [monic_cons g t hg]
  simp only [List.length_cons, List.length_map, Nat.add_sub_cancel]
  exact ploop_eq_sdLoop _ d _ _ _ (by simp) (Nat.le_refl _) (rep_wOfList _ _ (by simp))

/-- **as coded = specification** when the numerator's leading coefficient equals `den[0]` -/
theorem parcorCoded_eq_spec (d : K) (num t : List K) (hd : d ≠ 0) (hs : stripZeros num = d :: t) :
    parcorCoded d num = parcorSpec num := by
  unfold parcorCoded parcorSpec
  simp only [hs, normDen_cons d t hd]
  exact ploop_monic d d t hd

/-- **repaired code = specification** for every numerator with a non-zero leading coefficient -/
theorem parcorFixed_eq_spec (num : List K) (g : K) (t : List K) (hg : g ≠ 0)
    (hs : stripZeros num = g :: t) : parcorFixed num = parcorSpec num := by
  unfold parcorFixed parcorSpec
  simp only [hs, normLead_cons g t hg]
  exact ploop_monic 1 g t hg

theorem stripZeros_of_last_ne (f : List K) (h : f.getLastD 1 ≠ 0) : stripZeros f = f := by
  cases hf : f with
  | nil => simp [stripZeros]
  | cons x t =>
    have hne : f ≠ [] := by simp [hf]
    have hl : f.getLast hne ≠ 0 := by
      intro h0; apply h
      simp [List.getLastD_eq_getLast?, List.getLast?_eq_some_getLast hne, h0]
    unfold stripZeros
    rw [← hf]
    conv_lhs => rw [← List.dropLast_concat_getLast hne]
    rw [List.reverse_append, List.reverse_singleton, List.singleton_append, List.dropWhile_cons]
    simp only [hl, decide_false]
    simp [List.dropLast_concat_getLast hne]

theorem stepUp_last_ne (ks : List K) (h : ks.getLastD 1 ≠ 0) : (stepUp ks).getLastD 1 ≠ 0 := by
  induction ks using List.reverseRecOn with
  | nil => simp [stepUp]
  | append_singleton ks k _ =>
    obtain ⟨t, ht⟩ := stepUp_head ks
    have hk : k ≠ 0 := by simpa using h
    have h1 := stepUp1_getLast 1 t k
    have hlen := stepUp1_length (1 :: t) k
    rw [stepUp_append, ht]
    have hne : stepUp1 (1 :: t) k ≠ [] := by
      intro h0; rw [h0] at hlen; simp at hlen
    rw [List.getLastD_eq_getLast?, List.getLast?_eq_some_getLast hne] at h1 ⊢
    simp only [Option.getD_some] at h1 ⊢
    rw [h1]; simpa using hk

/-- break-down of the coded loop: exactly when a yielded `k` has `k² = 1` — for EVERY window,
    also outside the domain where the code agrees with the specification -/
theorem ploop_raised_iff (n : Nat) (d : K) : ∀ (m : Nat) (w : List K),
    (ploop n d m w).2 = true ↔ ∃ k ∈ (ploop n d m w).1, k * k = 1
  | 0, _ => by simp [ploop]
  | m + 1, w => by
    rw [ploop_succ]
    unfold pstep
    by_cases h : (1 : K) - lget n w ((m + 1 : Nat) : Int) * lget n w ((m + 1 : Nat) : Int) = 0
    · simp only [h, if_true]
      have : lget n w ((m + 1 : Nat) : Int) * lget n w ((m + 1 : Nat) : Int) = 1 := by
        linear_combination -h
      simp only [List.mem_singleton, exists_eq_left, true_iff]
      exact this
    · simp only [h, if_false]
      have hne : ¬ lget n w ((m + 1 : Nat) : Int) * lget n w ((m + 1 : Nat) : Int) = 1 := by
        intro h1; apply h; rw [h1]; ring
      simp only [List.mem_cons, exists_eq_or_imp, hne, false_or]
      exact ploop_raised_iff n d m _

/-! ### the stability loop -/

section Order
variable {L : Type} [Field L] [LinearOrder L] [IsStrictOrderedRing L]

theorem stableLoop_succ (n : Nat) (d : L) (m : Nat) (w : List L) :
    stableLoop n d (m + 1) w = match pstep n d w (m + 1) with
      | (k, next) => if absLt1 k then
          (match next with
            | none => false
            | some w' => stableLoop n d m w')
        else false := rfl

/-- lazily consuming the generator under `all(...)` inside `try/except` gives the same verdict
    as draining it: no break-down and every yielded |k| < 1 -/
theorem stableLoop_eq (n : Nat) (d : L) : ∀ (m : Nat) (w : List L),
    stableLoop n d m w = (!(ploop n d m w).2 && (ploop n d m w).1.all absLt1)
  | 0, _ => rfl
  | m + 1, w => by
    rw [stableLoop_succ, ploop_succ]
    rcases h : pstep n d w (m + 1) with ⟨k, _ | w'⟩
    · simp
    · simp only [stableLoop_eq n d m w', List.all_cons]
      cases absLt1 k <;> simp

theorem absLt1_iff (k : L) : absLt1 k = (decide (-1 < k) && decide (k < 1)) := by
  unfold absLt1
  rw [Bool.eq_iff_iff]
  simp only [decide_eq_true_eq, Bool.and_eq_true]
  split
  · constructor
    · intro h; constructor <;> linarith
    · intro h; linarith
  · constructor
    · intro h; constructor <;> linarith
    · intro h; exact h.2

theorem parcorStableCoded_eq (den : List L) :
    parcorStableCoded den = (!(parcorCoded 1 den).2 && (parcorCoded 1 den).1.all absLt1) := by
  unfold parcorStableCoded parcorCoded
  exact stableLoop_eq _ _ _ _

theorem parcorStableFixed_eq (den : List L) :
    parcorStableFixed den = (!(parcorFixed den).2 && (parcorFixed den).1.all absLt1) := by
  unfold parcorStableFixed parcorFixed
  exact stableLoop_eq _ _ _ _

end Order

end ALV.C11
