/-
  C12 — helper lemmas, part 4: the FIR loop is the convolution; impulse response; complex
  exponential in steady state; the DFT sum.
-/
import ALV.Lemmas.C12Sum
import Mathlib.Data.List.GetD

set_option linter.unusedSectionVars false
set_option linter.unusedSimpArgs false

namespace ALV.C12
open Finset
variable {K : Type} [Field K]

/-! #### the generated expression -/

def dotTerms (terms : List (Nat × K)) (ds : List K) : K :=
  (terms.map fun t => t.2 * ds.getD t.1 0).sum

theorem foldl_add_eq (f : Nat × K → K) (ts : List (Nat × K)) (acc : K) :
    ts.foldl (fun a u => a + f u) acc = acc + (ts.map f).sum := by
  induction ts generalizing acc with
  | nil => simp
  | cons t ts ih => simp only [List.foldl_cons, List.map_cons, List.sum_cons, ih]; ring

theorem firExpr_eq (terms : List (Nat × K)) (ds : List K) : firExpr terms ds = dotTerms terms ds := by
  cases terms with
  | nil => rfl
  | cons t ts =>
    simp only [firExpr, dotTerms, List.map_cons, List.sum_cons]
    exact foldl_add_eq (fun u => u.2 * ds.getD u.1 0) ts _

/-- the loop with an unbounded history (most recent first) -/
def firIdeal (terms : List (Nat × K)) : List K → List K → List K
  | _, [] => []
  | hist, x :: xs => dotTerms terms (x :: hist) :: firIdeal terms (x :: hist) xs

theorem dotTerms_congr (terms : List (Nat × K)) (L : Nat) (ds es : List K)
    (hidx : ∀ t ∈ terms, t.1 ≤ L) (h : ∀ k ≤ L, ds.getD k 0 = es.getD k 0) :
    dotTerms terms ds = dotTerms terms es := by
  unfold dotTerms
  congr 1
  apply List.map_congr_left
  intro t ht
  rw [h _ (hidx t ht)]

theorem getD_dropLast (l : List K) (k : Nat) (hk : k + 1 < l.length) :
    l.dropLast.getD k 0 = l.getD k 0 := by
  rw [List.dropLast_eq_take]
  simp only [List.getD_eq_getElem?_getD, List.getElem?_take]
  have : k < l.length - 1 := by omega
  simp [this]

theorem firLoop_eq_ideal (terms : List (Nat × K)) (L : Nat) (hidx : ∀ t ∈ terms, t.1 ≤ L)
    (xs : List K) (mem hist : List K) (hlen : mem.length = L)
    (h : ∀ k < L, mem.getD k 0 = hist.getD k 0) :
    firLoop terms mem xs = firIdeal terms hist xs := by
  induction xs generalizing mem hist with
  | nil => rfl
  | cons x xs ih =>
    have hcons : ∀ k ≤ L, (x :: mem).getD k 0 = (x :: hist).getD k 0 := by
      intro k hk
      cases k with
      | zero => rfl
      | succ j => simpa using h j (by omega)
    simp only [firLoop, firIdeal]
    rw [firExpr_eq, dotTerms_congr terms L _ _ hidx hcons]
    congr 1
    apply ih
    · simp [hlen]
    · intro k hk
      rw [getD_dropLast _ _ (by simp [hlen]; omega)]
      exact hcons k (by omega)

theorem firIdeal_length (terms : List (Nat × K)) (hist xs : List K) :
    (firIdeal terms hist xs).length = xs.length := by
  induction xs generalizing hist with
  | nil => rfl
  | cons x xs ih => simp [firIdeal, ih]

theorem firIdeal_getD (terms : List (Nat × K)) (xs hist : List K) (n : Nat) (hn : n < xs.length) :
    (firIdeal terms hist xs).getD n 0 = dotTerms terms ((xs.take (n + 1)).reverse ++ hist) := by
  induction xs generalizing hist n with
  | nil => simp at hn
  | cons x xs ih =>
    cases n with
    | zero => simp [firIdeal]
    | succ m =>
      have hm : m < xs.length := by simpa using hn
      simp only [firIdeal, List.getD_cons_succ]
      rw [ih (x :: hist) m hm]
      simp [List.take_succ_cons]

theorem hist_getD (xs : List K) (n k : Nat) (hn : n < xs.length) :
    ((xs.take (n + 1)).reverse).getD k 0 = if k ≤ n then xs.getD (n - k) 0 else 0 := by
  have hl : (xs.take (n + 1)).length = n + 1 := by simp; omega
  simp only [List.getD_eq_getElem?_getD]
  by_cases hk : k ≤ n
  · rw [List.getElem?_reverse (by omega)]
    simp only [hl, hk, if_true]
    rw [List.getElem?_take]
    have : n + 1 - 1 - k < n + 1 := by omega
    simp only [this, if_true]
    congr 2
  · simp only [hk, if_false]
    rw [List.getElem?_eq_none (by simp; omega)]
    rfl

theorem replicate_getD_zero (m k : Nat) : (List.replicate m (0 : K)).getD k 0 = 0 := by
  simp only [List.getD_eq_getElem?_getD, List.getElem?_replicate]
  split <;> rfl

variable [DecidableEq K]

theorem natTerms_idx (i : Nat) (b : List K) : ∀ t ∈ natTerms i b, t.1 < i + b.length := by
  induction b generalizing i with
  | nil => simp [natTerms]
  | cons c cs ih =>
    intro t ht
    by_cases hc : c = 0
    · simp only [natTerms, hc, if_true] at ht
      have := ih (i + 1) t ht
      simp; omega
    · simp only [natTerms, hc, if_false, List.mem_cons] at ht
      rcases ht with rfl | ht
      · simp
      · have := ih (i + 1) t ht
        simp; omega

theorem dotTerms_natTerms (i : Nat) (b : List K) (xs : List K) (n : Nat) (ds : List K)
    (hds : ∀ k, ds.getD k 0 = if k ≤ n then xs.getD (n - k) 0 else 0) :
    dotTerms (natTerms i b) ds = convAt.evalFromConv b xs n i := by
  induction b generalizing i with
  | nil => simp [natTerms, dotTerms, convAt.evalFromConv]
  | cons c cs ih =>
    have ih' := ih (i + 1)
    unfold dotTerms at ih' ⊢
    by_cases hc : c = 0
    · simp only [natTerms, hc, if_true, convAt.evalFromConv, ih']
      split <;> simp
    · simp only [natTerms, hc, if_false, convAt.evalFromConv, List.map_cons, List.sum_cons]
      rw [ih', hds i]
      split <;> simp

/-- **the FIR loop computes the convolution**, sample by sample -/
theorem firRun_getD (b xs : List K) (n : Nat) (hn : n < xs.length) :
    (firRun b xs).getD n 0 = convAt b xs n := by
  have hidx : ∀ t ∈ natTerms 0 b, t.1 ≤ b.length - 1 := by
    intro t ht
    have := natTerms_idx 0 b t ht
    omega
  unfold firRun
  rw [firLoop_eq_ideal (natTerms 0 b) (b.length - 1) hidx xs _ [] (by simp) (by intro k hk; simp [replicate_getD_zero]),
    firIdeal_getD _ _ _ _ hn, List.append_nil]
  exact dotTerms_natTerms 0 b xs n _ (fun k => hist_getD xs n k hn)

theorem firRun_length (b xs : List K) : (firRun b xs).length = xs.length := by
  have hidx : ∀ t ∈ natTerms 0 b, t.1 ≤ b.length - 1 := by
    intro t ht
    have := natTerms_idx 0 b t ht
    omega
  unfold firRun
  rw [firLoop_eq_ideal (natTerms 0 b) (b.length - 1) hidx xs _ [] (by simp) (by intro k hk; simp [replicate_getD_zero]),
    firIdeal_length]

theorem firRun_eq_firSpec (b xs : List K) : firRun b xs = firSpec b xs := by
  apply List.ext_getElem
  · simp [firRun_length, firSpec]
  · intro n h1 h2
    have hn : n < xs.length := by simpa [firRun_length] using h1
    have := firRun_getD b xs n hn
    rw [List.getD_eq_getElem (hn := h1)] at this
    rw [this]
    simp [firSpec]

omit [DecidableEq K] in
theorem evalFromConv_eq_sum (b xs : List K) (n i : Nat) :
    convAt.evalFromConv b xs n i
      = ∑ k ∈ range b.length, if i + k ≤ n then b.getD k 0 * xs.getD (n - (i + k)) 0 else 0 := by
  induction b generalizing i with
  | nil => simp [convAt.evalFromConv]
  | cons c cs ih =>
    rw [List.length_cons, Finset.sum_range_succ', convAt.evalFromConv, ih (i + 1)]
    simp only [List.getD_cons_succ, List.getD_cons_zero, add_zero]
    rw [add_comm]
    congr 1
    apply Finset.sum_congr rfl
    intro k _
    have : i + 1 + k = i + (k + 1) := by omega
    rw [this]

omit [DecidableEq K] in
theorem convAt_eq_sum (b xs : List K) (n : Nat) :
    convAt b xs n = ∑ k ∈ range b.length, if k ≤ n then b.getD k 0 * xs.getD (n - k) 0 else 0 := by
  simp [convAt, evalFromConv_eq_sum]

/-! #### dft -/

omit [DecidableEq K] in
theorem dftSumFrom_eq (E : Nat → K) (n : Nat) (acc : K) (blk : List K) :
    dftSumFrom E n acc blk = acc + ∑ k ∈ range blk.length, blk.getD k 0 * E (n + k) := by
  induction blk generalizing n acc with
  | nil => simp [dftSumFrom]
  | cons x xs ih =>
    rw [List.length_cons, Finset.sum_range_succ', dftSumFrom, ih]
    simp only [List.getD_cons_succ, List.getD_cons_zero, add_zero]
    rw [add_assoc]
    congr 1
    rw [add_comm]
    congr 1
    apply Finset.sum_congr rfl
    intro k _
    have : n + 1 + k = n + (k + 1) := by omega
    rw [this]

omit [DecidableEq K] in
theorem dftSum_eq (E : Nat → K) (blk : List K) :
    dftSum E blk = ∑ k ∈ range blk.length, blk.getD k 0 * E k := by
  simp [dftSum, dftSumFrom_eq]

omit [DecidableEq K] in
theorem dftSum_pow (w : K) (blk : List K) : dftSum (fun n => w ^ n) blk = evalDirect blk w := by
  rw [dftSum_eq, evalDirect_eq_sum]

omit [DecidableEq K] in
theorem dftSumFrom_linear (E : Nat → K) (c : K) (xs ys : List K) (h : xs.length = ys.length)
    (n : Nat) (a₁ a₂ : K) :
    dftSumFrom E n (c * a₁ + a₂) (List.zipWith (fun x y => c * x + y) xs ys)
      = c * dftSumFrom E n a₁ xs + dftSumFrom E n a₂ ys := by
  induction xs generalizing ys n a₁ a₂ with
  | nil =>
    cases ys with
    | nil => simp [dftSumFrom]
    | cons y ys => simp at h
  | cons x xs ih =>
    cases ys with
    | nil => simp at h
    | cons y ys =>
      simp only [List.zipWith_cons_cons, dftSumFrom]
      rw [← ih ys (by simpa using h)]
      congr 1
      ring


/-! #### impulse response, DFT of it, steady state -/

/-- the unit impulse followed by `m` zeros -/
def impulse (m : Nat) : List K := 1 :: List.replicate m 0

omit [DecidableEq K] in
theorem impulse_getD (m j : Nat) : (impulse m : List K).getD j 0 = if j = 0 then 1 else 0 := by
  cases j with
  | zero => simp [impulse]
  | succ i => simp [impulse, replicate_getD_zero]

theorem firRun_impulse_getD (b : List K) (m n : Nat) (hn : n ≤ m) :
    (firRun b (impulse m)).getD n 0 = b.getD n 0 := by
  rw [firRun_getD b _ n (by simp [impulse]; omega), convAt_eq_sum]
  have : ∀ k ∈ range b.length,
      (if k ≤ n then b.getD k 0 * (impulse m : List K).getD (n - k) 0 else 0)
        = if k = n then b.getD k 0 else 0 := by
    intro k _
    rw [impulse_getD]
    by_cases h1 : k ≤ n
    · by_cases h2 : k = n
      · subst h2; simp
      · have : ¬ (n - k = 0) := by omega
        simp [h1, h2, this]
    · have : ¬ (k = n) := by omega
      simp [h1, this]
  rw [Finset.sum_congr rfl this, Finset.sum_ite_eq']
  simp only [Finset.mem_range, List.getD_eq_getElem?_getD]
  split
  · rfl
  · rw [List.getElem?_eq_none (by omega)]; rfl

/-- the unnormalised DFT sum of the impulse response is the transfer polynomial -/
theorem dftSum_firRun_impulse (b : List K) (m : Nat) (hm : b.length ≤ m + 1) (w : K) :
    dftSum (fun n => w ^ n) (firRun b (impulse m)) = evalDirect b w := by
  rw [dftSum_eq, evalDirect_eq_sum, firRun_length]
  have hl : (impulse m : List K).length = m + 1 := by simp [impulse]
  rw [hl]
  have h1 : ∀ n ∈ range (m + 1), (firRun b (impulse m)).getD n 0 * w ^ n = b.getD n 0 * w ^ n := by
    intro n hn
    rw [firRun_impulse_getD b m n (by simp at hn; omega)]
  rw [Finset.sum_congr rfl h1]
  symm
  apply Finset.sum_subset
  · intro k hk; simp at hk ⊢; omega
  · intro k _ hk
    simp only [Finset.mem_range, not_lt] at hk
    simp only [List.getD_eq_getElem?_getD]
    rw [List.getElem?_eq_none hk]
    simp

/-- the samples `u^0, u^1, …, u^(N-1)` -/
def expoSignal (u : K) (N : Nat) : List K := (List.range N).map fun k => u ^ k

omit [DecidableEq K] in
theorem expoSignal_getD (u : K) (N j : Nat) (hj : j < N) : (expoSignal u N).getD j 0 = u ^ j := by
  simp [expoSignal, List.getD_eq_getElem?_getD, hj]

/-- every output sample (transient included): the partial transfer sum times `u^n` -/
theorem firRun_expo_general (b : List K) (u w : K) (huw : u * w = 1) (N n : Nat) (hn : n < N) :
    (firRun b (expoSignal u N)).getD n 0
      = (∑ k ∈ range b.length, if k ≤ n then b.getD k 0 * w ^ k else 0) * u ^ n := by
  rw [firRun_getD b _ n (by simp [expoSignal]; omega), convAt_eq_sum, Finset.sum_mul]
  apply Finset.sum_congr rfl
  intro k _
  by_cases hk' : k ≤ n
  · simp only [hk', if_true]
    rw [expoSignal_getD u N (n - k) (by omega)]
    have : u ^ n = u ^ (n - k) * u ^ k := by rw [← pow_add]; congr 1; omega
    rw [this]
    have h1 : u ^ k * w ^ k = 1 := by rw [← mul_pow, huw, one_pow]
    calc b.getD k 0 * u ^ (n - k) = b.getD k 0 * u ^ (n - k) * (u ^ k * w ^ k) := by rw [h1, mul_one]
      _ = b.getD k 0 * w ^ k * (u ^ (n - k) * u ^ k) := by ring
  · simp [hk']

theorem firRun_expo (b : List K) (u w : K) (huw : u * w = 1) (N n : Nat) (hn : n < N)
    (hord : b.length ≤ n + 1) :
    (firRun b (expoSignal u N)).getD n 0 = evalDirect b w * u ^ n := by
  rw [firRun_getD b _ n (by simp [expoSignal]; omega), convAt_eq_sum, evalDirect_eq_sum,
    Finset.sum_mul]
  apply Finset.sum_congr rfl
  intro k hk
  have hk' : k ≤ n := by simp at hk; omega
  simp only [hk', if_true]
  rw [expoSignal_getD u N (n - k) (by omega)]
  have : u ^ n = u ^ (n - k) * u ^ k := by rw [← pow_add]; congr 1; omega
  rw [this]
  have h1 : u ^ k * w ^ k = 1 := by rw [← mul_pow, huw, one_pow]
  calc b.getD k 0 * u ^ (n - k) = b.getD k 0 * u ^ (n - k) * (u ^ k * w ^ k) := by rw [h1, mul_one]
    _ = b.getD k 0 * w ^ k * (u ^ (n - k) * u ^ k) := by ring

end ALV.C12
