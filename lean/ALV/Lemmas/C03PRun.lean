/-
  C03 — histories over every kind of source (finite lists, `cycle`, `repeat`): as long as the
  model returns, its observations are those of the list specification (`run_sound_from`,
  `run_sound_prefix`); the same with the caller's containers (`hrun_sound_from`).
-/
import ALV.Lemmas.C03PStep
import ALV.Lemmas.C03Hist

namespace ALV.C03
variable {α : Type} {L : Bool}
open LSeq

theorem prel_empty : PRel L ([] : List (LSeq α)) (St.empty : St α) [] :=
  ⟨⟨rfl, fun k hub hk => by simp [St.empty] at hk⟩, fun i => by simp [St.empty]; exact trivial⟩

/-- a history in which every step of the model returns: the observations are the list model's -/
theorem run_sound_from {E : List (LSeq α)} {st : St α} {sp : SPool α} (R : PRel false E st sp) (f : Nat)
    (ops : List (Op α)) (hterm : ∀ o, o ∈ run f st ops → o ≠ none) :
    run f st ops = specRun sp ops := by
  induction ops generalizing E st sp with
  | nil => rfl
  | cons op ops ih =>
    cases hs : step f st op with
    | none => exact absurd rfl (hterm none (by simp [run, hs]))
    | some x =>
      obtain ⟨st', o⟩ := x
      obtain ⟨E', sp', spec, R'⟩ := step_sound R op (opLive_false sp op) f st' o hs
      have := ih R' (fun o' ho' => hterm o' (by simp [run, hs, ho']))
      simp [run, specRun, hs, spec, this]

/-- every history, whatever the fuel: each observation the model makes before it runs out of
    fuel is the observation of the list model at the same step -/
theorem run_sound_prefix {E : List (LSeq α)} {st : St α} {sp : SPool α} (R : PRel false E st sp) (f : Nat)
    (ops : List (Op α)) (k : Nat) (o : Obs α) (hk : (run f st ops)[k]? = some (some o)) :
    (specRun sp ops)[k]? = some (some o) := by
  induction ops generalizing E st sp k with
  | nil => simp [run] at hk
  | cons op ops ih =>
    cases hs : step f st op with
    | none =>
      simp only [run, hs] at hk
      cases k with
      | zero => simp at hk
      | succ k => simp at hk
    | some x =>
      obtain ⟨st', o'⟩ := x
      obtain ⟨E', sp', spec, R'⟩ := step_sound R op (opLive_false sp op) f st' o' hs
      simp only [run, hs] at hk
      simp only [specRun, spec]
      cases k with
      | zero => simpa using hk
      | succ k => simp at hk ⊢; exact ih R' k hk

/-- the same for histories with the caller's containers: observations and final lists -/
theorem hrun_sound_from {E : List (LSeq α)} {st : St α} {sp : SPool α} (R : PRel false E st sp) (f : Nat)
    (ls : List (List α)) (hops : List (HOp α))
    (hterm : ∀ o, o ∈ (hrun f ⟨st, ls⟩ hops).1 → o ≠ none) :
    hrun f ⟨st, ls⟩ hops = hspecRun ⟨sp, ls⟩ hops := by
  induction hops generalizing E st sp ls with
  | nil => rfl
  | cons hop hops ih =>
    cases hr : hop.resolve ls with
    | none =>
      obtain ⟨ls', o, h1, h2⟩ := hstep_unresolved (f := f) (s := ⟨st, ls⟩) (hop := hop) hr
      have := ih R ls' (fun o' ho' => hterm o' (by simp [hrun, h1, ho']))
      simp only [hrun, hspecRun, h1, h2 sp, this]
    | some op =>
      have hk : hstep f ⟨st, ls⟩ hop = stepKeep f ⟨st, ls⟩ op := hstep_resolve (s := ⟨st, ls⟩) hr
      cases hs : step f st op with
      | none => exact absurd rfl (hterm none (by simp [hrun, hk, stepKeep, hs]))
      | some x =>
        obtain ⟨st', ob⟩ := x
        obtain ⟨E', sp', spec, R'⟩ := step_sound R op (opLive_false sp op) f st' ob hs
        have a : hstep f ⟨st, ls⟩ hop = some (⟨st', keep ls ob⟩, ob) := by
          rw [hk]; simp [stepKeep, hs]
        have b : hspecStep ⟨sp, ls⟩ hop = some (⟨sp', keep ls ob⟩, ob) := by
          rw [hspecStep_resolve (s := ⟨sp, ls⟩) hr]; simp [specKeep, spec]
        have := ih R' (keep ls ob) (fun o' ho' => hterm o' (by simp [hrun, a, ho']))
        simp only [hrun, hspecRun, a, b, this]

end ALV.C03
