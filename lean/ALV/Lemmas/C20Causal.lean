/-
  C20 — causality: the first `n` outputs of every tool depend on the first `n` inputs only.
  (Justifies reading an endless input through `take` / `islice`: the model is given the samples read.)
-/
import ALV.Model.C20Call

namespace ALV.C20
variable {α : Type}
set_option linter.unusedSectionVars false

section
variable [Add α] [Mul α] [Sub α] [OfNat α 0]

theorem floop_prefix (b a : List α) : ∀ (xs ys : List α) (s : FState α),
    (floop b a s (xs ++ ys)).take xs.length = floop b a s xs
  | [], _, _ => by simp [floop]
  | x :: xs, ys, s => by
    simp only [List.cons_append, floop, List.length_cons, List.take_succ_cons]
    rw [floop_prefix b a xs ys]

theorem frun_prefix (b a : List α) (zero : α) (xs ys : List α) :
    (frun b a zero (xs ++ ys)).take xs.length = frun b a zero xs :=
  floop_prefix b a xs ys _

end

section
variable [Add α] [Mul α] [Sub α] [Neg α] [Div α] [OfNat α 0] [OfNat α 1] [NatCast α]

theorem dqLoop_prefix (size : Nat) : ∀ (xs ys : List α) (s : DqState α),
    (dqLoop size s (xs ++ ys)).take xs.length = dqLoop size s xs
  | [], _, _ => by simp [dqLoop]
  | x :: xs, ys, s => by
    simp only [List.cons_append, dqLoop, List.length_cons, List.take_succ_cons]
    rw [dqLoop_prefix size xs ys]

theorem accLoop_prefix : ∀ (xs ys : List α) (s : α),
    (accLoop s (xs ++ ys)).take xs.length = accLoop s xs
  | [], _, _ => by simp [accLoop]
  | x :: xs, ys, s => by
    simp only [List.cons_append, accLoop, List.length_cons, List.take_succ_cons]
    rw [accLoop_prefix xs ys]

end

section
variable [Mul α] [Neg α] [OfNat α 0] [OfNat α 1] [LT α] [DecidableLT α] [DecidableEq α]

theorem zphase2_prefix (h : α) : ∀ (xs ys : List α) (s : α),
    (zphase2 h s (xs ++ ys)).take xs.length = zphase2 h s xs
  | [], _, _ => by simp [zphase2]
  | x :: xs, ys, s => by
    simp only [List.cons_append, zphase2, List.length_cons]
    split <;> simp only [List.take_succ_cons] <;> rw [zphase2_prefix h xs ys]

theorem zphase1_prefix (h : α) : ∀ (xs ys : List α),
    (zphase1 h (xs ++ ys)).take xs.length = zphase1 h xs
  | [], _ => by simp [zphase1]
  | x :: xs, ys => by
    simp only [List.cons_append, zphase1, List.length_cons, List.take_succ_cons]
    split
    · rw [zphase2_prefix h xs ys]
    · rw [zphase1_prefix h xs ys]

end

section
variable [Add α] [Mul α] [Sub α] [Neg α] [Div α] [OfNat α 0] [LT α] [DecidableLT α]

theorem unwrapLoop_prefix (fl : α → α) (md step : α) : ∀ (xs ys : List α) (d0 delta : α),
    (unwrapLoop fl md step d0 delta (xs ++ ys)).take xs.length = unwrapLoop fl md step d0 delta xs
  | [], _, _, _ => by simp [unwrapLoop]
  | x :: xs, ys, d0, delta => by
    simp only [List.cons_append, unwrapLoop, List.length_cons, List.take_succ_cons]
    rw [unwrapLoop_prefix fl md step xs ys]

end

/-- a loop with the prefix property, applied to a list whose first items are `M` -/
theorem take_of_prefix {β : Type} (f : List α → List β)
    (hf : ∀ xs ys, (f (xs ++ ys)).take xs.length = f xs) (L M : List α) (h : L.take M.length = M) :
    (f L).take M.length = f M := by
  have e : M ++ L.drop M.length = L := by
    have := List.take_append_drop M.length L
    rw [h] at this; exact this
  rw [← e]; exact hf M _

section
variable [Add α] [Mul α] [Sub α] [Neg α] [Div α] [OfNat α 0] [OfNat α 1] [NatCast α]

theorem maverageDeque_prefix (size : Nat) (zero : α) (xs ys : List α) :
    (maverageDeque size zero (xs ++ ys)).take xs.length = maverageDeque size zero xs :=
  dqLoop_prefix size xs ys _

theorem accumulateFunc_prefix : ∀ (xs ys : List α),
    (accumulateFunc (xs ++ ys)).take xs.length = accumulateFunc xs
  | [], _ => by simp [accumulateFunc]
  | x :: xs, ys => by
    simp only [List.cons_append, accumulateFunc, List.length_cons, List.take_succ_cons]
    rw [accLoop_prefix xs ys]

variable [LT α] [DecidableLT α]

theorem amdf_prefix (lag size : Nat) (zero : α) (xs ys : List α) :
    (amdf lag size zero (xs ++ ys)).take xs.length = amdf lag size zero xs := by
  unfold amdf
  have hl : ((frun (lagNum lag) [] zero xs).map absG).length = xs.length := by
    simp only [List.length_map]
    have : ∀ (l : List α) (s : FState α), (floop (lagNum lag) [] s l).length = l.length := by
      intro l; induction l with
      | nil => intro s; simp [floop]
      | cons x t ih => intro s; simp [floop, ih]
    exact this xs _
  have := take_of_prefix (maverageDeque size zero) (maverageDeque_prefix size zero)
    ((frun (lagNum lag) [] zero (xs ++ ys)).map absG) ((frun (lagNum lag) [] zero xs).map absG)
    (by rw [hl, ← List.map_take, frun_prefix])
  rw [hl] at this
  exact this

theorem envelope_prefix (b a xs ys : List α) :
    (envelopeAbs b a (xs ++ ys)).take xs.length = envelopeAbs b a xs ∧
    (envelopeSquared b a (xs ++ ys)).take xs.length = envelopeSquared b a xs := by
  constructor
  · have := frun_prefix b a 0 (xs.map absG) (ys.map absG)
    simpa [envelopeAbs] using this
  · have := frun_prefix b a 0 (xs.map fun x => x * x) (ys.map fun x => x * x)
    simpa [envelopeSquared] using this

end

section
variable [Mul α] [Neg α] [OfNat α 0] [OfNat α 1] [LT α] [DecidableLT α] [DecidableEq α]

theorem zcross_prefix (h fs : α) (xs ys : List α) :
    (zcross h fs (xs ++ ys)).take xs.length = zcross h fs xs := by
  unfold zcross
  split
  · exact zphase1_prefix h xs ys
  · exact zphase2_prefix h xs ys _

end

section
variable [Add α] [Mul α] [Sub α] [Neg α] [Div α] [OfNat α 0] [LT α] [DecidableLT α]

theorem unwrap_prefix (fl : α → α) (md step : α) : ∀ (xs ys : List α),
    (unwrap fl md step (xs ++ ys)).take xs.length = unwrap fl md step xs
  | [], _ => by simp [unwrap]
  | x :: xs, ys => by
    simp only [List.cons_append, unwrap, List.length_cons, List.take_succ_cons]
    rw [unwrapLoop_prefix fl md step xs ys]

end

section
variable [LT α] [DecidableLT α]

theorem clip_prefix (low high : Option α) (xs ys zs : List α)
    (h : clip low high (xs ++ ys) = .ok zs) : clip low high xs = .ok (zs.take xs.length) := by
  unfold clip at *
  cases low <;> cases high <;> simp only [] at h ⊢
  · cases h; simp
  · cases h; simp
  · cases h; simp
  · split at h
    · cases h
    · rename_i hn
      simp only [hn, if_false]
      cases h; simp

end

end ALV.C20
