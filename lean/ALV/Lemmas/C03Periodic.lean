/-
  C03 — periodic (endless) sources: `Stream(1, 2, 3)`, `Stream(5)`.
  The specification's eventually periodic sequences: any finite read sees a finite prefix
  (`LSeq.take_prefix`), and the model's `cycle` iterator yields exactly that prefix
  (`takeN_cyc`).  The refinement of whole histories over periodic sources is PENDING
  (see `Props/C03.lean`).
-/
import ALV.Lemmas.C03

namespace ALV.C03
variable {α : Type}

theorem length_flatten_replicate (per : List α) (n : Nat) :
    ((List.replicate n per).flatten).length = n * per.length := by
  induction n with
  | zero => simp
  | succ n ih => simp [List.replicate_succ, ih, Nat.succ_mul, Nat.add_comm]

theorem le_length_flatten_replicate {per : List α} (hp : per ≠ []) (n : Nat) :
    n ≤ ((List.replicate n per).flatten).length := by
  rw [length_flatten_replicate]
  have : 1 ≤ per.length := by
    cases per with
    | nil => exact absurd rfl hp
    | cons _ _ => simp
  exact Nat.le_mul_of_pos_right n this

/-- unrolling more periods than items requested changes nothing -/
theorem take_unroll_more (pre per : List α) {n m : Nat} (hm : n ≤ m) :
    (pre ++ (List.replicate m per).flatten).take n = (pre ++ (List.replicate n per).flatten).take n := by
  by_cases hp : per = []
  · subst hp; simp
  · obtain ⟨d, rfl⟩ : ∃ d, m = n + d := ⟨m - n, by omega⟩
    rw [← List.replicate_append_replicate, List.flatten_append, ← List.append_assoc]
    apply List.take_append_of_le_length
    rw [List.length_append]
    exact Nat.le_trans (le_length_flatten_replicate hp n) (Nat.le_add_left _ _)

/-- **prefix lemma (specification)**: the first `n` items of an eventually periodic sequence
are the first `n` items of the finite list obtained by unrolling at least `n` periods -/
theorem LSeq.take_prefix (s : LSeq α) {n m : Nat} (hm : n ≤ m) :
    s.take n = (LSeq.mk (s.unroll m) []).take n := by
  simp [LSeq.take, LSeq.unroll, take_unroll_more s.pre s.per hm]

theorem LSeq.take_succ_cons (x : α) (r per : List α) (n : Nat) :
    (LSeq.mk (x :: r) per).take (n + 1) = x :: (LSeq.mk r per).take n := by
  simp only [LSeq.take, LSeq.unroll, List.cons_append, List.take_succ_cons]
  rw [take_unroll_more r per (Nat.le_succ n)]

theorem LSeq.take_nil_pre (per : List α) (n : Nat) :
    (LSeq.mk [] per).take n = (LSeq.mk per per).take n := by
  by_cases hp : per = []
  · subst hp; simp [LSeq.take, LSeq.unroll]
  · simp only [LSeq.take, LSeq.unroll, List.nil_append]
    have : per ++ (List.replicate n per).flatten = (List.replicate (n + 1) per).flatten := by
      simp [List.replicate_succ]
    rw [this]
    exact (take_unroll_more [] per (Nat.le_succ n)).symm

/-- **the model's `it.cycle` / `it.repeat`**: `take(n)` on a bare periodic Stream returns the
first `n` items of the periodic sequence, for every `n`, with fuel 1, leaving the heap alone -/
theorem takeN_cyc (per : List α) (hp : per ≠ []) (h : Heap α) : ∀ (n : Nat) (rest : List α),
    ∃ rest', takeN 1 n h (.cyc per rest) = some (h, .cyc per rest', (LSeq.mk rest per).take n) := by
  intro n
  induction n with
  | zero => intro rest; exact ⟨rest, by simp [takeN, LSeq.take]⟩
  | succ n ih =>
    intro rest
    cases rest with
    | cons x r =>
      obtain ⟨rest', hr⟩ := ih r
      exact ⟨rest', by simp [takeN, next, hr, LSeq.take_succ_cons x r per n]⟩
    | nil =>
      cases per with
      | nil => exact absurd rfl hp
      | cons x r =>
        obtain ⟨rest', hr⟩ := ih r
        refine ⟨rest', ?_⟩
        rw [LSeq.take_nil_pre, LSeq.take_succ_cons x r (x :: r) n]
        simp [takeN, next, hr]

end ALV.C03
