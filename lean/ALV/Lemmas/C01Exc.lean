/-
  C01 — helper lemmas for the exception semantics (`Iter.stepE`, `Iter.drainE`, `Iter.takeE`):
  the compositional laws of the iterator machine.  Core Lean only.
-/
import ALV.Spec.C01Exc
import ALV.Lemmas.C01
namespace ALV.C01

variable (bad : Term → Bool)

@[simp] theorem Iter.drainE_zero (e : Iter) : e.drainE bad 0 = [] := rfl

theorem Iter.drainE_stop {e e' : Iter} (n : Nat) (h : e.stepE bad = (.stop, e')) : e.drainE bad (n + 1) = [] := by
  simp [Iter.drainE, Iter.drainS, h]

theorem Iter.drainE_item {e e' : Iter} {x : Term} (n : Nat) (h : e.stepE bad = (.item x, e')) :
    e.drainE bad (n + 1) = .item x :: e'.drainE bad n := by
  simp [Iter.drainE, Iter.drainS, h]

theorem Iter.drainE_raised {e e' : Iter} {t : Term} (n : Nat) (h : e.stepE bad = (.raised t, e')) :
    e.drainE bad (n + 1) = .raised t :: e'.drainE bad n := by
  simp [Iter.drainE, Iter.drainS, h]

theorem Iter.drainE_dead (a : Iter) : ∀ n, (Iter.dead a).drainE bad n = []
  | 0 => rfl
  | n + 1 => Iter.drainE_stop bad n (e' := .dead a) rfl

theorem Iter.drainE_length_le : ∀ (n : Nat) (e : Iter), (e.drainE bad n).length ≤ n := by
  intro n
  induction n with
  | zero => intro e; simp
  | succ n ih =>
    intro e
    cases hs : e.stepE bad with
    | mk o e' =>
      cases o with
      | stop => rw [Iter.drainE_stop bad n hs]; simp
      | item x => rw [Iter.drainE_item bad n hs]; simp; exact ih e'
      | raised t => rw [Iter.drainE_raised bad n hs]; simp; exact ih e'

/-- no `.stop` among the outcomes of a drain -/
theorem Iter.drainE_no_stop : ∀ (n : Nat) (e : Iter), ∀ o ∈ e.drainE bad n, o ≠ .stop := by
  intro n
  induction n with
  | zero => intro e o h; simp at h
  | succ n ih =>
    intro e o h
    cases hs : e.stepE bad with
    | mk o' e' =>
      cases o' with
      | stop => rw [Iter.drainE_stop bad n hs] at h; simp at h
      | item x =>
        rw [Iter.drainE_item bad n hs] at h
        rcases List.mem_cons.mp h with rfl | h'
        · intro hh; cases hh
        · exact ih e' o h'
      | raised t =>
        rw [Iter.drainE_raised bad n hs] at h
        rcases List.mem_cons.mp h with rfl | h'
        · intro hh; cases hh
        · exact ih e' o h'

/-! ### map objects: position by position, also after an exception -/

theorem Iter.drainE_map (f : Name) (pre post : List Term) : ∀ (n : Nat) (a : Iter),
    (Iter.mapc false f pre post a).drainE bad n =
      mapOuts bad (fun x => .app f (pre ++ x :: post)) (a.drainE bad n) := by
  intro n
  induction n with
  | zero => intro a; rfl
  | succ n ih =>
    intro a
    cases hs : a.stepE bad with
    | mk o a' =>
      cases o with
      | stop =>
        rw [Iter.drainE_stop bad n hs, Iter.drainE_stop bad n (e' := .mapc false f pre post a') (by simp [Iter.stepE, hs])]
        rfl
      | raised t =>
        rw [Iter.drainE_raised bad n hs,
          Iter.drainE_raised bad n (e' := .mapc false f pre post a') (t := t) (by simp [Iter.stepE, hs]), ih a']
        rfl
      | item x =>
        rw [Iter.drainE_item bad n hs]
        cases hb : bad (.app f (pre ++ x :: post)) with
        | true =>
          rw [Iter.drainE_raised bad n (e' := .mapc false f pre post a') (t := .app f (pre ++ x :: post))
            (by simp [Iter.stepE, hs, hb]), ih a']
          simp [mapOuts, liftOut, chk, hb]
        | false =>
          rw [Iter.drainE_item bad n (e' := .mapc false f pre post a') (x := .app f (pre ++ x :: post))
            (by simp [Iter.stepE, hs, hb]), ih a']
          simp [mapOuts, liftOut, chk, hb]

/-! ### generator expressions: the same up to the first exception, nothing after it -/

theorem Iter.drainE_gen (f : Name) (pre post : List Term) : ∀ (n : Nat) (a : Iter),
    (Iter.mapc true f pre post a).drainE bad n =
      cutRaise (mapOuts bad (fun x => .app f (pre ++ x :: post)) (a.drainE bad n)) := by
  intro n
  induction n with
  | zero => intro a; rfl
  | succ n ih =>
    intro a
    cases hs : a.stepE bad with
    | mk o a' =>
      cases o with
      | stop =>
        rw [Iter.drainE_stop bad n hs, Iter.drainE_stop bad n (e' := .mapc true f pre post a') (by simp [Iter.stepE, hs])]
        rfl
      | raised t =>
        rw [Iter.drainE_raised bad n hs,
          Iter.drainE_raised bad n (e' := .dead a') (t := t) (by simp [Iter.stepE, hs]), Iter.drainE_dead]
        rfl
      | item x =>
        rw [Iter.drainE_item bad n hs]
        cases hb : bad (.app f (pre ++ x :: post)) with
        | true =>
          rw [Iter.drainE_raised bad n (e' := .dead a') (t := .app f (pre ++ x :: post))
            (by simp [Iter.stepE, hs, hb]), Iter.drainE_dead]
          simp [mapOuts, liftOut, chk, hb, cutRaise]
        | false =>
          rw [Iter.drainE_item bad n (e' := .mapc true f pre post a') (x := .app f (pre ++ x :: post))
            (by simp [Iter.stepE, hs, hb]), ih a']
          simp [mapOuts, liftOut, chk, hb, cutRaise]

/-! ### `map(f, a, b)` -/

theorem Iter.drainE_map2 (f : Name) : ∀ (n m : Nat) (a b : Iter), n ≤ m →
    (Iter.map2 f a b).drainE bad n = merge2 bad f (a.drainE bad n) (b.drainE bad m) := by
  intro n
  induction n with
  | zero => intro m a b _; rfl
  | succ n ih =>
    intro m a b hnm
    cases hsa : a.stepE bad with
    | mk oa a' =>
      cases oa with
      | stop =>
        rw [Iter.drainE_stop bad n hsa, Iter.drainE_stop bad n (e' := .map2 f a' b) (by simp [Iter.stepE, hsa])]
        rfl
      | raised t =>
        rw [Iter.drainE_raised bad n hsa,
          Iter.drainE_raised bad n (e' := .map2 f a' b) (t := t) (by simp [Iter.stepE, hsa]), ih m a' b (by omega)]
        rfl
      | item x =>
        rw [Iter.drainE_item bad n hsa]
        obtain ⟨m', rfl⟩ : ∃ m', m = m' + 1 := ⟨m - 1, by omega⟩
        cases hsb : b.stepE bad with
        | mk ob b' =>
          cases ob with
          | stop =>
            rw [Iter.drainE_stop bad m' hsb, Iter.drainE_stop bad n (e' := .map2 f a' b') (by simp [Iter.stepE, hsa, hsb])]
            rfl
          | raised t =>
            rw [Iter.drainE_raised bad m' hsb,
              Iter.drainE_raised bad n (e' := .map2 f a' b') (t := t) (by simp [Iter.stepE, hsa, hsb]),
              ih m' a' b' (by omega)]
            rfl
          | item y =>
            rw [Iter.drainE_item bad m' hsb]
            cases hb : bad (.app f [x, y]) with
            | true =>
              rw [Iter.drainE_raised bad n (e' := .map2 f a' b') (t := .app f [x, y]) (by simp [Iter.stepE, hsa, hsb, hb]),
                ih m' a' b' (by omega)]
              simp [merge2, chk, hb]
            | false =>
              rw [Iter.drainE_item bad n (e' := .map2 f a' b') (x := .app f [x, y]) (by simp [Iter.stepE, hsa, hsb, hb]),
                ih m' a' b' (by omega)]
              simp [merge2, chk, hb]

/-- when the first operand never raises, `merge2` is the plain zip -/
theorem merge2_eq_zip (f : Name) : ∀ (as bs : List Out), allItems as = true →
    merge2 bad f as bs = zipOuts bad f as bs := by
  intro as
  induction as with
  | nil => intro bs _; cases bs <;> rfl
  | cons a as ih =>
    intro bs h
    cases a with
    | stop => simp [allItems] at h
    | raised t => simp [allItems] at h
    | item x =>
      have h' : allItems as = true := by simpa [allItems] using h
      cases bs with
      | nil => rfl
      | cons b bs =>
        cases b with
        | stop => rfl
        | raised t => simp [merge2, zipOuts, ih bs h']
        | item y => simp [merge2, zipOuts, ih bs h']

theorem zipOuts_length (f : Name) : ∀ (as bs : List Out), allItems as = true → (∀ o ∈ bs, o ≠ .stop) →
    (zipOuts bad f as bs).length = Nat.min as.length bs.length := by
  intro as
  induction as with
  | nil => intro bs _ _; cases bs <;> simp [zipOuts]
  | cons a as ih =>
    intro bs h hb
    cases a with
    | stop => simp [allItems] at h
    | raised t => simp [allItems] at h
    | item x =>
      have h' : allItems as = true := by simpa [allItems] using h
      cases bs with
      | nil => simp [zipOuts]
      | cons b bs =>
        have hb' : ∀ o ∈ bs, o ≠ .stop := fun o ho => hb o (List.mem_cons_of_mem _ ho)
        cases b with
        | stop => exact absurd rfl (hb .stop List.mem_cons_self)
        | raised t => simp [zipOuts, ih bs h' hb', Nat.succ_min_succ]
        | item y => simp [zipOuts, ih bs h' hb', Nat.succ_min_succ]

/-! ### `itertools.chain` -/

theorem Iter.drainE_chain : ∀ (n : Nat) (a b : Iter),
    (Iter.chain a b).drainE bad n = a.drainE bad n ++ b.drainE bad (n - (a.drainE bad n).length) := by
  intro n
  induction n with
  | zero => intro a b; rfl
  | succ n ih =>
    intro a b
    cases hsa : a.stepE bad with
    | mk oa a' =>
      cases oa with
      | stop =>
        rw [Iter.drainE_stop bad n hsa]
        simp only [List.nil_append, List.length_nil, Nat.sub_zero]
        have : (Iter.chain a b).stepE bad = b.stepE bad := by simp [Iter.stepE, hsa]
        simp only [Iter.drainE, Iter.drainS, this]
      | raised t =>
        rw [Iter.drainE_raised bad n hsa,
          Iter.drainE_raised bad n (e' := .chain a' b) (t := t) (by simp [Iter.stepE, hsa]), ih a' b]
        simp
      | item x =>
        rw [Iter.drainE_item bad n hsa,
          Iter.drainE_item bad n (e' := .chain a' b) (x := x) (by simp [Iter.stepE, hsa]), ih a' b]
        simp

/-! ### `take(k)` -/

theorem Iter.takeE_outs : ∀ (k : Nat) (e : Iter), (e.takeE bad k).1 = takeOuts (e.drainE bad k) := by
  intro k
  induction k with
  | zero => intro e; rfl
  | succ k ih =>
    intro e
    cases hs : e.stepE bad with
    | mk o e' =>
      cases o with
      | stop => rw [Iter.drainE_stop bad k hs]; simp [Iter.takeE, hs, takeOuts]
      | raised t => rw [Iter.drainE_raised bad k hs]; simp [Iter.takeE, hs, takeOuts]
      | item x =>
        rw [Iter.drainE_item bad k hs]
        have := ih e'
        simp only [Iter.takeE, hs, takeOuts, ← this]
        cases h : (e'.takeE bad k) with
        | mk r e'' => cases r <;> simp

/-- the Stream after a `take(k)`: where `takeUsed` calls of `next` leave it (through the first
    exception; the end of the data is reached without consuming anything more) -/
theorem Iter.takeE_state : ∀ (k : Nat) (e : Iter), (e.drainE bad k).length = k → ∀ m,
    ((e.takeE bad k).2).drainE bad m = (e.drainE bad (takeUsed (e.drainE bad k) + m)).drop (takeUsed (e.drainE bad k)) := by
  intro k
  induction k with
  | zero => intro e _ m; simp [Iter.takeE, takeUsed]
  | succ k ih =>
    intro e hlen m
    cases hs : e.stepE bad with
    | mk o e' =>
      cases o with
      | stop => rw [Iter.drainE_stop bad k hs] at hlen; simp at hlen
      | raised t =>
        rw [Iter.drainE_raised bad k hs]
        simp only [Iter.takeE, hs, takeUsed]
        rw [Nat.add_comm 1 m, Iter.drainE_raised bad m hs]
        simp
      | item x =>
        rw [Iter.drainE_item bad k hs]
        simp only [takeUsed]
        have h1 : (e.takeE bad (k + 1)).2 = (e'.takeE bad k).2 := by
          simp only [Iter.takeE, hs]
          cases h : (e'.takeE bad k) with
          | mk r e'' => cases r <;> rfl
        rw [Iter.drainE_item bad k hs] at hlen
        rw [h1, ih e' (by simpa using hlen) m, show takeUsed (e'.drainE bad k) + 1 + m = (takeUsed (e'.drainE bad k) + m) + 1 by omega,
          Iter.drainE_item bad _ hs]
        simp

end ALV.C01

/-! ### conservative extension: when no element operation raises, `stepE` is `step` -/

namespace ALV.C01

def liftStep' : Option Term × Iter → Out × Iter
  | (some x, e) => (.item x, e)
  | (none, e) => (.stop, e)

theorem Iter.stepE_total (bad : Term → Bool) (hb : ∀ t, bad t = false) : ∀ (e : Iter), e.stepE bad = liftStep' e.step := by
  intro e
  induction e with
  | list t xs => cases xs <;> rfl
  | rep c => rfl
  | cycle cur all => cases cur <;> cases all <;> rfl
  | dead a _ => rfl
  | chain a b iha ihb =>
    cases hs : a.step with
    | mk o a' =>
      rw [hs] at iha
      cases o with
      | some x => simp [Iter.stepE, Iter.step, hs, iha, liftStep']
      | none => simp [Iter.stepE, Iter.step, hs, iha, liftStep', ihb]
  | mapc g f pre post a ih =>
    cases hs : a.step with
    | mk o a' =>
      rw [hs] at ih
      cases o with
      | some x => simp [Iter.stepE, Iter.step, hs, ih, liftStep', hb]
      | none => simp [Iter.stepE, Iter.step, hs, ih, liftStep']
  | map2 f a b iha ihb =>
    cases hsa : a.step with
    | mk oa a' =>
      rw [hsa] at iha
      cases oa with
      | none => simp [Iter.stepE, Iter.step, hsa, iha, liftStep']
      | some x =>
        cases hsb : b.step with
        | mk ob b' =>
          rw [hsb] at ihb
          cases ob with
          | none => simp [Iter.stepE, Iter.step, hsa, hsb, iha, ihb, liftStep']
          | some y => simp [Iter.stepE, Iter.step, hsa, hsb, iha, ihb, liftStep', hb]

theorem Iter.drainE_total (bad : Term → Bool) (hb : ∀ t, bad t = false) : ∀ (n : Nat) (e : Iter),
    e.drainE bad n = (e.run n).map .item := by
  intro n
  induction n with
  | zero => intro e; rfl
  | succ n ih =>
    intro e
    have h1 := Iter.stepE_total bad hb e
    rw [Iter.run_succ]
    cases hs : e.step with
    | mk o e' =>
      rw [hs] at h1
      cases o with
      | none => rw [Iter.drainE_stop bad n (e' := e') (by rw [h1]; rfl)]; rfl
      | some x => rw [Iter.drainE_item bad n (e' := e') (x := x) (by rw [h1]; rfl), ih e']; rfl

end ALV.C01
