/-
  C09 — helper lemmas for the refinement `olaLoop = olaSpec`.

  The loop is compared with the "hop-shifted sum" `olaSum`, stated on the
  *remaining* blocks (no index arithmetic over block numbers), with `padd`
  (zip-longest addition) as the only operation; `olaSum_getD` then reads one
  sample of that sum as the Σ of the property.
-/
import ALV.Model.C09
import ALV.Spec.C09
import Mathlib.Algebra.Ring.Defs
import Mathlib.Tactic.Ring

namespace ALV.C09
variable {K : Type} [Semiring K]

/-! ### slices with non-negative bounds are `take` / `drop` -/

theorem sliceIdx_nat (len n : Nat) : sliceIdx len (n : Int) = min n len := by
  unfold sliceIdx
  have : ¬ ((n : Int) < 0) := by omega
  simp [this]

theorem pyDrop_nat {α : Type} (l : List α) (n : Nat) : pyDrop l (n : Int) = l.drop n := by
  unfold pyDrop
  rw [sliceIdx_nat]
  by_cases h : n ≤ l.length
  · rw [Nat.min_eq_left h]
  · rw [Nat.min_eq_right (by omega), List.drop_of_length_le (Nat.le_refl _),
      List.drop_of_length_le (by omega)]

theorem pyTake_nat {α : Type} (l : List α) (n : Nat) : pyTake l (n : Int) = l.take n := by
  unfold pyTake
  rw [sliceIdx_nat]
  by_cases h : n ≤ l.length
  · rw [Nat.min_eq_left h]
  · rw [Nat.min_eq_right (by omega), List.take_of_length_le (Nat.le_refl _),
      List.take_of_length_le (by omega)]

/-! ### zip-longest addition -/

/-- pointwise sum, the longer list keeps its tail -/
def padd : List K → List K → List K
  | [], ys => ys
  | x :: xs, [] => x :: xs
  | x :: xs, y :: ys => (x + y) :: padd xs ys

@[simp] theorem padd_nil_left (ys : List K) : padd [] ys = ys := rfl
@[simp] theorem padd_nil_right (xs : List K) : padd xs [] = xs := by cases xs <;> rfl
@[simp] theorem padd_cons (x y : K) (xs ys : List K) :
    padd (x :: xs) (y :: ys) = (x + y) :: padd xs ys := rfl

theorem padd_length (a b : List K) : (padd a b).length = max a.length b.length := by
  induction a generalizing b with
  | nil => simp
  | cons x xs ih =>
    cases b with
    | nil => simp
    | cons y ys => simp only [padd_cons, List.length_cons, ih]; omega

theorem padd_getD (a b : List K) (n : Nat) : (padd a b).getD n 0 = a.getD n 0 + b.getD n 0 := by
  induction a generalizing b n with
  | nil => simp
  | cons x xs ih =>
    cases b with
    | nil => simp
    | cons y ys =>
      cases n with
      | zero => simp
      | succ n => simpa using ih ys n

theorem padd_assoc (a b c : List K) : padd (padd a b) c = padd a (padd b c) := by
  induction a generalizing b c with
  | nil => simp
  | cons x xs ih =>
    cases b with
    | nil => simp
    | cons y ys =>
      cases c with
      | nil => simp
      | cons z zs => simp [ih, add_assoc]

/-- adding something delayed by `h` leaves the first `h` items alone -/
theorem padd_shift (h : Nat) (M S : List K) (hM : h ≤ M.length) :
    padd M (List.replicate h 0 ++ S) = M.take h ++ padd (M.drop h) S := by
  induction h generalizing M with
  | zero => simp
  | succ h ih =>
    cases M with
    | nil => simp at hM
    | cons x xs =>
      simp only [List.replicate_succ, List.cons_append, padd_cons, add_zero, List.take_succ_cons,
        List.drop_succ_cons]
      rw [ih xs (by simpa using hM)]

theorem padd_eq_zipWith_append (a b : List K) (hab : a.length ≤ b.length) :
    padd a b = List.zipWith (· + ·) a b ++ b.drop a.length := by
  induction a generalizing b with
  | nil => simp
  | cons x xs ih =>
    cases b with
    | nil => simp at hab
    | cons y ys => simp [ih ys (by simpa using hab)]

theorem padd_zeros_left (n : Nat) (b : List K) (h : n ≤ b.length) :
    padd (List.replicate n 0) b = b := by
  induction n generalizing b with
  | zero => simp
  | succ n ih =>
    cases b with
    | nil => simp at h
    | cons y ys => simp [List.replicate_succ, ih ys (by simpa using h)]

/-! ### one iteration of the loop -/

theorem olaStep_eq (size hop : Nat) (hh : hop ≤ size) (mem blk : List K)
    (hm : mem.length = size) (hb : blk.length = size) :
    olaStep size hop mem blk = padd (mem.drop hop) blk := by
  unfold olaStep
  have e : ((size : Int) - (hop : Int)) = ((size - hop : Nat) : Int) := by omega
  simp only [e, pyDrop_nat, pyTake_nat]
  have hl : (List.zipWith (· + ·) (mem.drop hop) blk).length = size - hop := by
    simp [hm, hb]
  rw [hl, List.take_left' hl]
  rw [padd_eq_zipWith_append _ _ (by simp [hm, hb])]
  simp [hm]

theorem olaStep_length (size hop : Nat) (hh : hop ≤ size) (mem blk : List K)
    (hm : mem.length = size) (hb : blk.length = size) :
    (olaStep size hop mem blk).length = size := by
  rw [olaStep_eq size hop hh mem blk hm hb, padd_length]
  simp [hm, hb]

/-! ### the hop-shifted sum of the remaining blocks -/

/-- Σ_k (B_k delayed by k*h), as a list -/
def olaSum (h : Nat) : List (List K) → List K
  | [] => []
  | B :: Bs => padd B (List.replicate h 0 ++ olaSum h Bs)

theorem olaLoop_eq (size hop : Nat) (hh : hop ≤ size) :
    ∀ (Bs : List (List K)) (mem : List K), mem.length = size → (∀ B ∈ Bs, B.length = size) →
      (olaLoop size hop mem Bs).out = padd (mem.drop hop) (olaSum hop Bs) ∧
      (olaLoop size hop mem Bs).err = none := by
  intro Bs
  induction Bs with
  | nil => intro mem _ _; simp [olaLoop, olaSum, pyDrop_nat]
  | cons B Bs ih =>
    intro mem hm hB
    have hb : B.length = size := hB B (by simp)
    have hl := olaStep_length size hop hh mem B hm hb
    have := ih (olaStep size hop mem B) hl (fun B' h' => hB B' (by simp [h']))
    simp only [olaLoop, hl, ne_eq, not_true_eq_false, if_false, this.1, this.2, and_true, pyTake_nat]
    rw [olaStep_eq size hop hh mem B hm hb, olaSum, ← padd_assoc,
      padd_shift hop _ _ (by rw [padd_length]; simp [hm, hb]; omega)]

/-! ### reading one sample of the hop-shifted sum -/

theorem sumTo_succ' (m : Nat) (f : Nat → K) :
    sumTo (m + 1) f = f 0 + sumTo m (fun k => f (k + 1)) := by
  induction m with
  | zero => simp [sumTo]
  | succ m ih => rw [sumTo, ih, sumTo, add_assoc]

theorem sumTo_congr (m : Nat) (f g : Nat → K) (h : ∀ k < m, f k = g k) : sumTo m f = sumTo m g := by
  induction m with
  | zero => rfl
  | succ m ih => rw [sumTo, sumTo, ih (fun k hk => h k (by omega)), h m (by omega)]

theorem getD_replicate_append (h n : Nat) (S : List K) :
    (List.replicate h (0 : K) ++ S).getD n 0 = if h ≤ n then S.getD (n - h) 0 else 0 := by
  simp only [List.getD_eq_getElem?_getD]
  by_cases hn : h ≤ n
  · rw [if_pos hn, List.getElem?_append_right (by simpa using hn)]
    simp
  · rw [if_neg hn, List.getElem?_append_left (by simpa using Nat.lt_of_not_le hn)]
    simp [Nat.lt_of_not_le hn]

theorem olaSum_getD (h : Nat) (Bs : List (List K)) (n : Nat) :
    (olaSum h Bs).getD n 0 =
      sumTo Bs.length fun k => if k * h ≤ n then (Bs.getD k []).getD (n - k * h) 0 else 0 := by
  induction Bs generalizing n with
  | nil => simp [olaSum, sumTo]
  | cons B Bs ih =>
    rw [olaSum, padd_getD, getD_replicate_append, List.length_cons, sumTo_succ']
    simp only [Nat.zero_mul, Nat.zero_le, if_true, Nat.sub_zero, List.getD_cons_zero,
      List.getD_cons_succ]
    congr 1
    by_cases hn : h ≤ n
    · rw [if_pos hn, ih]
      apply sumTo_congr
      intro k _
      have e1 : (k + 1) * h ≤ n ↔ k * h ≤ n - h := by
        rw [Nat.add_mul, Nat.one_mul]; omega
      have e2 : n - (k + 1) * h = n - h - k * h := by
        rw [Nat.add_mul, Nat.one_mul]; omega
      simp only [e1, e2]
    · rw [if_neg hn]
      have : ∀ k, ¬ ((k + 1) * h ≤ n) := by
        intro k
        rw [Nat.add_mul, Nat.one_mul]
        omega
      simp only [this, if_false]
      clear ih
      induction Bs.length with
      | zero => rfl
      | succ m ihm => rw [sumTo, ← ihm, add_zero]

theorem olaSum_length (size h : Nat) (hh : h ≤ size) (Bs : List (List K))
    (hB : ∀ B ∈ Bs, B.length = size) :
    (olaSum h Bs).length = if Bs.length = 0 then 0 else (Bs.length - 1) * h + size := by
  induction Bs with
  | nil => simp [olaSum]
  | cons B Bs ih =>
    have hb : B.length = size := hB B (by simp)
    have := ih (fun B' h' => hB B' (by simp [h']))
    rw [olaSum, padd_length, List.length_append, List.length_replicate, this, hb]
    simp only [List.length_cons, Nat.add_one_ne_zero, if_false, Nat.add_sub_cancel]
    by_cases h0 : Bs.length = 0
    · simp [h0]; omega
    · rw [if_neg h0]
      have : Bs.length = (Bs.length - 1) + 1 := by omega
      rw [this, Nat.add_mul]
      simp
      omega

/-! ### windowed blocks -/

theorem applyWnd_getD (w B : List K) (hw : w.length = B.length) (i : Nat) :
    (applyWnd w B).getD i 0 = w.getD i 0 * B.getD i 0 := by
  unfold applyWnd
  induction w generalizing B i with
  | nil =>
    cases B with
    | nil => simp
    | cons b bs => simp at hw
  | cons x xs ih =>
    cases B with
    | nil => simp at hw
    | cons b bs =>
      cases i with
      | zero => simp
      | succ i => simpa using ih bs (by simpa using hw) i

theorem applyWnd_length (w B : List K) (hw : w.length = B.length) :
    (applyWnd w B).length = B.length := by
  unfold applyWnd
  simp [hw]

/-- list extensionality through `getD` -/
theorem ext_getD (a b : List K) (hl : a.length = b.length)
    (h : ∀ n < a.length, a.getD n 0 = b.getD n 0) : a = b := by
  apply List.ext_getElem hl
  intro n h1 h2
  have := h n h1
  simpa [List.getD_eq_getElem?_getD, List.getElem?_eq_getElem h1, List.getElem?_eq_getElem h2] using this

/-! ### the loop started on an all-zero memory, sample by sample -/

/-- Σ_{k<m} B_k[n - k*h] over the blocks that have started at sample n -/
def shiftedAt (h : Nat) (Bs : List (List K)) (n : Nat) : K :=
  sumTo Bs.length fun k => if k * h ≤ n then (Bs.getD k []).getD (n - k * h) 0 else 0

theorem getD_range_map (m n : Nat) (f : Nat → K) (hn : n < m) :
    ((List.range m).map f).getD n 0 = f n := by
  simp [List.getD_eq_getElem?_getD, List.getElem?_range hn]

theorem olaLoop_zero_spec (size hop : Nat) (hh : hop ≤ size) (Bs : List (List K))
    (hB : ∀ B ∈ Bs, B.length = size) :
    (olaLoop size hop (List.replicate size 0) Bs).out =
        (List.range (Bs.length * hop + (size - hop))).map (shiftedAt hop Bs) ∧
    (olaLoop size hop (List.replicate size 0) Bs).err = none := by
  have h := olaLoop_eq size hop hh Bs (List.replicate size (0 : K)) (by simp) hB
  refine ⟨?_, h.2⟩
  rw [h.1]
  have hlen : (padd (List.drop hop (List.replicate size (0 : K))) (olaSum hop Bs)).length =
      Bs.length * hop + (size - hop) := by
    rw [padd_length, olaSum_length size hop hh Bs hB]
    simp only [List.length_drop, List.length_replicate]
    by_cases h0 : Bs.length = 0
    · simp [h0]
    · rw [if_neg h0]
      have : Bs.length = (Bs.length - 1) + 1 := by omega
      rw [this, Nat.add_mul]
      simp
      omega
  apply ext_getD
  · rw [hlen]; simp
  · intro n hn
    rw [hlen] at hn
    rw [getD_range_map _ _ _ hn, padd_getD, olaSum_getD]
    have hz : (List.drop hop (List.replicate size (0 : K))).getD n 0 = 0 := by
      simp only [List.getD_eq_getElem?_getD, List.drop_replicate, List.getElem?_replicate]
      split <;> rfl
    rw [hz, zero_add]
    rfl

end ALV.C09
