/-
  C16 — consequences of the specification: termination clause (length of the finite mix, zero
  afterwards with keep), batch closed form, start times (nearest sample, monotone, no drift),
  the end is final.
-/
import ALV.Lemmas.C16

namespace ALV.C16
variable {α β : Type}

/-! ### length of the mix -/

theorem foldl_max_le (n : Nat) : ∀ (evs : List (SEv α)) (m : Nat),
    evs.foldl (fun m e => max m (e.start + e.data.length)) m ≤ n ↔
      m ≤ n ∧ ∀ e ∈ evs, e.start + e.data.length ≤ n
  | [], m => by simp
  | e :: es, m => by
    rw [List.foldl_cons, foldl_max_le n es]
    constructor
    · rintro ⟨h1, h2⟩
      refine ⟨by omega, ?_⟩
      intro e' he'
      rcases List.mem_cons.1 he' with rfl | h'
      · omega
      · exact h2 e' h'
    · rintro ⟨h1, h2⟩
      have := h2 e (by simp)
      exact ⟨by omega, fun e' h' => h2 e' (by simp [h'])⟩

/-- every event is over before sample `n` iff `n` is at least `max_i (start_i + len_i)` -/
theorem allDone_iff (evs : List (SEv α)) (n : Nat) :
    (∀ e ∈ evs, e.doneAt n) ↔ mixLength evs ≤ n := by
  unfold mixLength SEv.doneAt
  rw [foldl_max_le]
  simp

theorem term_of_done {n : Nat} {e : SEv α} (h : e.doneAt n) : term n e = none := by
  unfold SEv.doneAt at h
  unfold term
  by_cases hs : e.start ≤ n
  · rw [if_pos hs]; exact List.getElem?_eq_none (by omega)
  · rw [if_neg hs]

/-- past its length the mix is the zero value -/
theorem outAt_of_done [Add α] (zero : α) (evs : List (SEv α)) (n : Nat) (h : mixLength evs ≤ n) :
    outAt zero n evs = zero := by
  have h' := (allDone_iff evs n).2 h
  unfold outAt
  have : evs.filterMap (term n) = [] := by
    rw [List.filterMap_eq_nil_iff]
    intro e he
    exact term_of_done (h' e he)
  rw [this]; rfl

/-! ### running the spec -/

theorem srun_append [Add α] (zero : α) : ∀ (a b : List (Op α)) (s : SState α),
    srun zero s (a ++ b) =
      ((srun zero (srun zero s a).1 b).1, (srun zero s a).2 ++ (srun zero (srun zero s a).1 b).2)
  | [], b, s => by simp [srun]
  | op :: a, b, s => by
    simp only [List.cons_append, srun, srun_append zero a b, List.cons_append]

theorem mrun_append [Add α] (zero : α) : ∀ (a b : List (Op α)) (s : MState α),
    mrun zero s (a ++ b) =
      ((mrun zero (mrun zero s a).1 b).1, (mrun zero s a).2 ++ (mrun zero (mrun zero s a).1 b).2)
  | [], b, s => by simp [mrun]
  | op :: a, b, s => by
    simp only [List.cons_append, mrun, mrun_append zero a b, List.cons_append]

/-- a batch of accepted adds: all `ok`, the log grows by `batchLog` -/
theorem srun_addOps [Add α] (zero : α) : ∀ (evs : List (Rat × List α)) (s : SState α),
    (∀ p ∈ evs, 0 ≤ p.1) →
    srun zero s (addOps evs) =
      ({ s with T := s.T + qsum evs, evs := s.evs ++ batchLog s.n s.T evs },
       List.replicate evs.length .ok)
  | [], s, _ => by simp [addOps, srun, qsum, batchLog]
  | p :: r, s, h => by
    have hp : ¬ p.1 < 0 := not_lt.2 (h p (by simp))
    have ih := srun_addOps zero r
      { s with T := s.T + p.1, evs := s.evs ++ [⟨startTime (s.T + p.1) s.n, p.2⟩] }
      (fun q hq => h q (by simp [hq]))
    simp only [addOps, List.map_cons, srun, sstep, if_neg hp] at ih ⊢
    rw [ih]
    simp [qsum, batchLog, List.replicate_succ, add_assoc]

theorem sstep_next_dead [Add α] (zero : α) (s : SState α) (hd : s.dead = true) :
    sstep zero s .next = (s, .stop) := by
  simp only [sstep, hd, if_true]

theorem sstep_next_stop [Add α] (zero : α) (s : SState α) (hd : s.dead = false)
    (h : s.keep = false ∧ ∀ e ∈ s.evs, e.doneAt s.n) :
    sstep zero s .next = ({ s with dead := true }, .stop) := by
  obtain ⟨n, T, evs, keep, dead⟩ := s
  simp only at hd h
  subst hd
  simp only [sstep, Bool.false_eq_true, if_false, if_pos h]

theorem sstep_next_out [Add α] (zero : α) (s : SState α) (hd : s.dead = false)
    (h : ¬ (s.keep = false ∧ ∀ e ∈ s.evs, e.doneAt s.n)) :
    sstep zero s .next = ({ s with n := s.n + 1 }, outObs zero s.evs s.n) := by
  obtain ⟨n, T, evs, keep, dead⟩ := s
  simp only at hd h
  subst hd
  simp only [sstep, Bool.false_eq_true, if_false, if_neg h, outObs]

/-- once ended, every `next` raises StopIteration -/
theorem srun_dead_nexts [Add α] (zero : α) : ∀ (k : Nat) (s : SState α), s.dead = true →
    srun zero s (List.replicate k .next) = (s, List.replicate k .stop)
  | 0, s, _ => by simp [srun]
  | k + 1, s, h => by
    simp only [List.replicate_succ, srun, sstep_next_dead zero s h]
    rw [srun_dead_nexts zero k s h]

/-- **finite mix**: `k` consecutive `next`s without keep, from sample `n`: the samples
    `n … L−1` by the closed formula, then StopIteration for ever, `L = mixLength`. -/
theorem srun_nexts_finite [Add α] (zero : α) : ∀ (k : Nat) (s : SState α),
    s.dead = false → s.keep = false →
    (srun zero s (List.replicate k .next)).2 =
      (List.range' s.n (min k (mixLength s.evs - s.n))).map (outObs zero s.evs) ++
        List.replicate (k - (mixLength s.evs - s.n)) .stop
  | 0, s, _, _ => by simp [srun]
  | k + 1, s, hd, hk => by
    by_cases hL : mixLength s.evs ≤ s.n
    · have hdone := (allDone_iff s.evs s.n).2 hL
      have h0 : mixLength s.evs - s.n = 0 := by omega
      simp only [List.replicate_succ, srun, sstep_next_stop zero s hd ⟨hk, hdone⟩]
      rw [srun_dead_nexts zero k _ rfl, h0]
      simp [List.replicate_succ]
    · have hnd : ¬ (s.keep = false ∧ ∀ e ∈ s.evs, e.doneAt s.n) := by
        rintro ⟨_, h⟩; exact hL ((allDone_iff s.evs s.n).1 h)
      have ih := srun_nexts_finite zero k { s with n := s.n + 1 } hd hk
      simp only [List.replicate_succ, srun, sstep_next_out zero s hd hnd]
      rw [ih]
      have e1 : mixLength s.evs - s.n = (mixLength s.evs - (s.n + 1)) + 1 := by omega
      rw [e1, Nat.add_min_add_right, List.range'_succ, List.map_cons, Nat.add_sub_add_right]
      rfl

/-- **with keep**: never a StopIteration -/
theorem srun_nexts_keep [Add α] (zero : α) : ∀ (k : Nat) (s : SState α),
    s.dead = false → s.keep = true →
    (srun zero s (List.replicate k .next)).2 = (List.range' s.n k).map (outObs zero s.evs)
  | 0, s, _, _ => by simp [srun]
  | k + 1, s, hd, hk => by
    have ih := srun_nexts_keep zero k { s with n := s.n + 1 } hd hk
    have hnd : ¬ (s.keep = false ∧ ∀ e ∈ s.evs, e.doneAt s.n) := by simp [hk]
    simp only [List.replicate_succ, srun, sstep_next_out zero s hd hnd]
    rw [ih, List.range'_succ, List.map_cons]

/-! ### start times -/

theorem forall2_imp {γ δ : Type} {R S : γ → δ → Prop} (H : ∀ a b, R a b → S a b) :
    ∀ {l₁ : List γ} {l₂ : List δ}, List.Forall₂ R l₁ l₂ → List.Forall₂ S l₁ l₂
  | _, _, .nil => .nil
  | _, _, .cons h t => .cons (H _ _ h) (forall2_imp H t)


theorem ceil_mono {a b : Rat} (h : a ≤ b) : a.ceil ≤ b.ceil := by
  rw [Rat.ceil_le_iff]
  exact le_trans h Rat.le_ceil

theorem nearest_mono {a b : Rat} (h : a ≤ b) : nearest a ≤ nearest b := by
  unfold nearest; exact ceil_mono (by linarith)

theorem startTime_mono {T T' : Rat} {n n' : Nat} (hT : T ≤ T') (hn : n ≤ n') :
    startTime T n ≤ startTime T' n' := by
  have := nearest_mono hT
  unfold startTime; omega

/-- the nearest sample is within half a sample of the exact time; a tie goes down -/
theorem nearest_within_half (T : Rat) :
    T - 1/2 ≤ (nearest T : Rat) ∧ (nearest T : Rat) < T + 1/2 := by
  unfold nearest
  refine ⟨Rat.le_ceil, ?_⟩
  have h : ¬ (T - 1/2).ceil ≤ (T - 1/2).ceil - 1 := by omega
  rw [Rat.ceil_le_iff] at h
  push_cast at h
  linarith

theorem nearest_nonneg {T : Rat} (h : 0 ≤ T) : 0 ≤ nearest T := by
  unfold nearest
  by_contra hc
  have h1 : (T - 1/2).ceil ≤ -1 := by omega
  rw [Rat.ceil_le_iff] at h1
  push_cast at h1
  linarith

/-- every logged start is at most the start a new event would get now: log invariant -/
def LogInv (s : SState α) : Prop :=
  0 ≤ s.T ∧ List.Pairwise (fun a b => a.start ≤ b.start) s.evs ∧ ∀ e ∈ s.evs, e.start ≤ startTime s.T s.n

theorem logInv_step [Add α] (zero : α) (s : SState α) (h : LogInv s) (op : Op α) :
    LogInv (sstep zero s op).1 := by
  obtain ⟨hT, hp, hle⟩ := h
  cases op with
  | add d x =>
    by_cases hd : d < 0
    · simp only [sstep, if_pos hd]; exact ⟨hT, hp, hle⟩
    · have hd' : 0 ≤ d := not_lt.1 hd
      simp only [sstep, if_neg hd]
      refine ⟨by show 0 ≤ s.T + d; linarith, ?_, ?_⟩
      · show List.Pairwise _ (s.evs ++ _)
        rw [List.pairwise_append]
        refine ⟨hp, by simp, ?_⟩
        intro a ha b hb
        rw [List.mem_singleton] at hb
        subst hb
        exact le_trans (hle a ha) (startTime_mono (by linarith) (Nat.le_refl _))
      · intro e he
        show e.start ≤ startTime (s.T + d) s.n
        rcases List.mem_append.1 he with h' | h'
        · exact le_trans (hle e h') (startTime_mono (by linarith) (Nat.le_refl _))
        · rw [List.mem_singleton] at h'
          subst h'
          exact Nat.le_refl _
  | setKeep b => exact ⟨hT, hp, hle⟩
  | next =>
    simp only [sstep]
    split
    · exact ⟨hT, hp, hle⟩
    · split
      · exact ⟨hT, hp, hle⟩
      · exact ⟨hT, hp, fun e he => le_trans (hle e he) (startTime_mono (le_refl _) (Nat.le_succ _))⟩

theorem logInv_run [Add α] (zero : α) : ∀ (ops : List (Op α)) (s : SState α), LogInv s →
    LogInv (srun zero s ops).1
  | [], _, h => h
  | op :: ops, s, h => by
    simp only [srun]
    exact logInv_run zero ops _ (logInv_step zero s h op)

theorem logInv_init (keep : Bool) : LogInv (SState.init keep : SState α) := by
  simp [LogInv, SState.init]

/-- batch at moment 0: the starts are the nearest samples of the cumulative times -/
theorem batchLog_starts : ∀ (evs : List (Rat × List α)) (T : Rat), 0 ≤ T → (∀ p ∈ evs, 0 ≤ p.1) →
    List.Forall₂ (fun (e : SEv α) (Ti : Rat) => (e.start : Int) = nearest Ti)
      (batchLog 0 T evs) (cumTimes T (evs.map (·.1)))
  | [], _, _, _ => by simp [batchLog, cumTimes]
  | p :: r, T, hT, h => by
    have hp : 0 ≤ p.1 := h p (by simp)
    simp only [batchLog, List.map_cons, cumTimes]
    refine List.Forall₂.cons ?_ (batchLog_starts r (T + p.1) (by linarith) (fun q hq => h q (by simp [hq])))
    have := nearest_nonneg (show 0 ≤ T + p.1 by linarith)
    show ((startTime (T + p.1) 0 : Nat) : Int) = nearest (T + p.1)
    unfold startTime
    omega

theorem batchLog_data : ∀ (evs : List (Rat × List α)) (n : Nat) (T : Rat),
    (batchLog n T evs).map (·.data) = evs.map (·.2)
  | [], _, _ => rfl
  | p :: r, n, T => by simp [batchLog, batchLog_data r]

/-! ### the end is final (model) -/

theorem mstep_ended [Add α] (zero : α) (m : MState α) (h : m.ended = true) (op : Op α) :
    (mstep zero m op).1.ended = true ∧ ∀ v k, (mstep zero m op).2 ≠ .out v k := by
  cases op with
  | add d x =>
    by_cases hd : d < 0
    · simp [mstep, madd, hd, h]
    · simp [mstep, madd, hd, h]
  | setKeep b => simp [mstep, h]
  | next => simp [mstep, mnext, h]

theorem mrun_ended [Add α] (zero : α) : ∀ (ops : List (Op α)) (m : MState α), m.ended = true →
    (mrun zero m ops).1.ended = true ∧ ∀ o ∈ (mrun zero m ops).2, ∀ v k, o ≠ .out v k
  | [], m, h => by simp [mrun, h]
  | op :: ops, m, h => by
    have h1 := mstep_ended zero m h op
    have h2 := mrun_ended zero ops _ h1.1
    simp only [mrun]
    refine ⟨h2.1, ?_⟩
    intro o ho
    rcases List.mem_cons.1 ho with rfl | h'
    · exact h1.2
    · exact h2.2 o h'

theorem mnext_stop_ended [Add α] (zero : α) (m : MState α) (h : (mnext zero m).2 = .stop) :
    (mnext zero m).1.ended = true := by
  unfold mnext at h ⊢
  by_cases he : m.ended = true
  · simp [he]
  · simp only [he, Bool.false_eq_true, if_false] at h ⊢
    split
    · rfl
    · rename_i hc
      rw [if_neg hc] at h
      exact absurd h (by simp)

/-- with keep on (and never switched off) the generator never ends -/
def keepOn : List (Op α) → Prop
  | [] => True
  | .setKeep b :: ops => b = true ∧ keepOn ops
  | _ :: ops => keepOn ops

theorem mnext_keep [Add α] (zero : α) (m : MState α) (hk : m.keep = true) (he : m.ended = false) :
    (mnext zero m).1.keep = true ∧ (mnext zero m).1.ended = false ∧ (mnext zero m).2 ≠ .stop := by
  obtain ⟨count, q, pl, keep, ended⟩ := m
  simp only at hk he
  subst hk he
  simp [mnext]

theorem mrun_keep [Add α] (zero : α) : ∀ (ops : List (Op α)) (m : MState α),
    m.keep = true → m.ended = false → keepOn ops →
    ∀ o ∈ (mrun zero m ops).2, o ≠ .stop
  | [], _, _, _, _ => by simp [mrun]
  | op :: ops, m, hk, he, hops => by
    intro o ho
    simp only [mrun] at ho
    cases op with
    | add d x =>
      have ih := mrun_keep zero ops (mstep zero m (.add d x)).1
        (by by_cases hd : d < 0 <;> simp [mstep, madd, hd, hk])
        (by by_cases hd : d < 0 <;> simp [mstep, madd, hd, he]) hops
      rcases List.mem_cons.1 ho with rfl | h'
      · by_cases hd : d < 0 <;> simp [mstep, madd, hd]
      · exact ih o h'
    | setKeep b =>
      obtain ⟨hb, hops'⟩ := hops
      have ih := mrun_keep zero ops (mstep zero m (.setKeep b)).1 (by simp [mstep, hb]) (by simp [mstep, he]) hops'
      rcases List.mem_cons.1 ho with rfl | h'
      · simp [mstep]
      · exact ih o h'
    | next =>
      have hst : mstep zero m .next = mnext zero m := rfl
      have hn := mnext_keep zero m hk he
      have ih := mrun_keep zero ops (mstep zero m .next).1 (by rw [hst]; exact hn.1)
        (by rw [hst]; exact hn.2.1) hops
      rcases List.mem_cons.1 ho with rfl | h'
      · rw [hst]; exact hn.2.2
      · exact ih o h'

end ALV.C16
