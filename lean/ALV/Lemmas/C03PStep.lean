/-
  C03 — every source, finite or periodic: the refinement relation `PRel` (each model object
  denotes, up to re-folding, the specification object with the same pool index) and
  `step_sound`: whenever a step of the model returns — whatever the fuel — the specification
  makes the same step with the same observation, and the states are related again.
-/
import ALV.Lemmas.C03PNext
import ALV.Lemmas.C03Step

namespace ALV.C03
variable {α : Type} {L : Bool}
open LSeq

/-! ### the relation -/

def PRelObj (L : Bool) (E : List (LSeq α)) (h : Heap α) : Obj α → SObj α → Prop
  | .stream it, .stream s => WF L E h it ∧ Eqv s (pden E it)
  | .hub uses, .hub s n => uses.length = n ∧ ∀ u, u ∈ uses → WF L E h u ∧ Eqv s (pden E u)
  | .dead, .dead => True
  | _, _ => False

def PRelO (L : Bool) (E : List (LSeq α)) (h : Heap α) : Option (Obj α) → Option (SObj α) → Prop
  | none, none => True
  | some a, some b => PRelObj L E h a b
  | _, _ => False

structure PRel (L : Bool) (E : List (LSeq α)) (st : St α) (sp : SPool α) : Prop where
  hok : PHeapOK L E st.heap
  objs : ∀ i : Nat, PRelO L E st.heap st.pool[i]? sp[i]?

theorem prelO_len {E : List (LSeq α)} {h : Heap α} {pool : List (Obj α)} {sp : SPool α}
    (ho : ∀ i : Nat, PRelO L E h pool[i]? sp[i]?) : pool.length = sp.length := by
  rcases Nat.lt_trichotomy pool.length sp.length with l | l | l
  · have := ho pool.length
    rw [List.getElem?_eq_none (Nat.le_refl _), List.getElem?_eq_getElem l] at this
    exact absurd this id
  · exact l
  · have := ho sp.length
    rw [List.getElem?_eq_none (Nat.le_refl _), List.getElem?_eq_getElem l] at this
    exact absurd this id

theorem PRel.len {E : List (LSeq α)} {st : St α} {sp : SPool α} (R : PRel L E st sp) :
    st.pool.length = sp.length := prelO_len R.objs

def PExt (L : Bool) (E : List (LSeq α)) (h : Heap α) (E' : List (LSeq α)) (h' : Heap α) : Prop :=
  ∀ x : It α, WF L E h x → WF L E' h' x ∧ pden E' x = pden E x

theorem PExt.ofGrow {E : List (LSeq α)} {h h' : Heap α} (g : Grow h h') : PExt L E h E h' :=
  fun _ hx => ⟨WF.grow g hx, rfl⟩

theorem PExt.trans {E1 E2 E3 : List (LSeq α)} {h1 h2 h3 : Heap α} (a : PExt L E1 h1 E2 h2)
    (b : PExt L E2 h2 E3 h3) : PExt L E1 h1 E3 h3 := fun x hx => by
  obtain ⟨o2, d2⟩ := a x hx
  obtain ⟨o3, d3⟩ := b x o2
  exact ⟨o3, d3.trans d2⟩

theorem PRelObj.ext {E E' : List (LSeq α)} {h h' : Heap α} (e : PExt L E h E' h') :
    ∀ {a : Obj α} {b : SObj α}, PRelObj L E h a b → PRelObj L E' h' a b
  | .stream it, .stream s, ⟨o, d⟩ => ⟨(e it o).1, by rw [(e it o).2]; exact d⟩
  | .hub uses, .hub s n, ⟨l, hu⟩ =>
    ⟨l, fun u hm => ⟨(e u (hu u hm).1).1, by rw [(e u (hu u hm).1).2]; exact (hu u hm).2⟩⟩
  | .dead, .dead, _ => trivial
  | .stream _, .hub _ _, hx => hx
  | .stream _, .dead, hx => hx
  | .hub _, .stream _, hx => hx
  | .hub _, .dead, hx => hx
  | .dead, .stream _, hx => hx
  | .dead, .hub _ _, hx => hx

theorem PRelO.ext {E E' : List (LSeq α)} {h h' : Heap α} (e : PExt L E h E' h') :
    ∀ {a : Option (Obj α)} {b : Option (SObj α)}, PRelO L E h a b → PRelO L E' h' a b
  | none, none, _ => trivial
  | some _, some _, hx => PRelObj.ext e hx
  | none, some _, hx => hx
  | some _, none, hx => hx

theorem PRel.ext {E E' : List (LSeq α)} {st : St α} {sp : SPool α} (R : PRel L E st sp) {h' : Heap α}
    (e : PExt L E st.heap E' h') (hH : PHeapOK L E' h') : PRel L E' ⟨h', st.pool⟩ sp :=
  ⟨hH, fun i => PRelO.ext e (R.objs i)⟩

/-! ### pool updates -/

theorem prelO_set {E : List (LSeq α)} {h : Heap α} {pool : List (Obj α)} {sp : SPool α}
    (ho : ∀ i : Nat, PRelO L E h pool[i]? sp[i]?) (j : Nat) {x : Obj α} {y : SObj α} (hxy : PRelObj L E h x y) :
    ∀ i : Nat, PRelO L E h (pool.set j x)[i]? (sp.set j y)[i]? := by
  intro i
  have hl := prelO_len ho
  by_cases e : j = i
  · subst e
    by_cases hj : j < pool.length
    · simp [hj, hl ▸ hj]; exact hxy
    · have hj' : ¬ j < sp.length := hl ▸ hj
      simp [hj, hj']; exact trivial
  · simp [e]; exact ho i

theorem prelO_append {E : List (LSeq α)} {h : Heap α} {pool as : List (Obj α)} {sp bs : SPool α}
    (ho : ∀ i : Nat, PRelO L E h pool[i]? sp[i]?) (ha : ∀ i : Nat, PRelO L E h as[i]? bs[i]?) :
    ∀ i : Nat, PRelO L E h (pool ++ as)[i]? (sp ++ bs)[i]? := by
  intro i
  have hl := prelO_len ho
  by_cases hi : i < pool.length
  · rw [List.getElem?_append_left hi, List.getElem?_append_left (hl ▸ hi)]; exact ho i
  · have hi' : pool.length ≤ i := Nat.le_of_not_lt hi
    rw [List.getElem?_append_right hi', List.getElem?_append_right (hl ▸ hi'), hl]; exact ha _

theorem prelO_single {E : List (LSeq α)} {h : Heap α} {x : Obj α} {y : SObj α} (hxy : PRelObj L E h x y) :
    ∀ i : Nat, PRelO L E h [x][i]? [y][i]? := by
  intro i
  cases i with
  | zero => exact hxy
  | succ i => simp; exact trivial

theorem prelO_replicate {E : List (LSeq α)} {h : Heap α} {x : Obj α} {y : SObj α} (hxy : PRelObj L E h x y)
    (n : Nat) : ∀ i : Nat, PRelO L E h (List.replicate n x)[i]? (List.replicate n y)[i]? := by
  intro i
  by_cases hi : i < n
  · simp [hi]; exact hxy
  · simp [hi]; exact trivial

/-! ### a new tee hub -/

theorem penvAt_append_left {E : List (LSeq α)} {k : Nat} (hk : k < E.length) (ys : LSeq α) :
    penvAt (E ++ [ys]) k = penvAt E k := by
  simp [penvAt, List.getElem?_append_left hk]

theorem pden_append {E : List (LSeq α)} (ys : LSeq α) : ∀ {x : It α}, Below E.length x →
    pden (E ++ [ys]) x = pden E x
  | .src _, _ => rfl
  | .cyc _ _, _ => rfl
  | .tee k pos, hb => by simp only [pden]; rw [penvAt_append_left hb]
  | .map _ it, hb => by simp only [pden]; rw [pden_append ys (x := it) hb]
  | .filter _ it, hb => by simp only [pden]; rw [pden_append ys (x := it) hb]
  | .chain a b, hb => by simp only [pden]; rw [pden_append ys (x := a) hb.1, pden_append ys (x := b) hb.2]
  | .skipper _ it, hb => by simp only [pden]; rw [pden_append ys (x := it) hb]
  | .limiter _ it, hb => by simp only [pden]; rw [pden_append ys (x := it) hb]

theorem WF.append {E : List (LSeq α)} {h : Heap α} (hEl : E.length = h.length) (ys : LSeq α) (hub : Hub α) :
    ∀ {x : It α}, WF L E h x → WF L (E ++ [ys]) (h ++ [hub]) x
  | .src _, _ => trivial
  | .cyc _ _, _ => trivial
  | .tee j pos, ⟨hb, hj, hp⟩ => ⟨hb, by rw [List.getElem?_append_left (getElem?_lt hj)]; exact hj, hp⟩
  | .map _ it, hx => WF.append hEl ys hub (x := it) hx
  | .filter _ it, hx => ⟨WF.append hEl ys hub (x := it) hx.1, fun hl => by
      rw [pden_append ys (hEl ▸ WF.below hx.1)]; exact hx.2 hl⟩
  | .chain a b, hx => ⟨WF.append hEl ys hub (x := a) hx.1, WF.append hEl ys hub (x := b) hx.2⟩
  | .skipper _ it, hx => WF.append hEl ys hub (x := it) hx
  | .limiter _ it, hx => WF.append hEl ys hub (x := it) hx

/-- `itertools.tee`: a new hub over `it`; every output denotes what `it` denoted, every
    other iterator keeps its meaning -/
theorem teeOf_sound {E : List (LSeq α)} {h : Heap α} {it : It α} (hH : PHeapOK L E h) (hO : WF L E h it) :
    PHeapOK L (E ++ [pden E it]) (h ++ [⟨it, []⟩]) ∧ PExt L E h (E ++ [pden E it]) (h ++ [⟨it, []⟩]) ∧
    WF L (E ++ [pden E it]) (h ++ [⟨it, []⟩]) (.tee h.length 0) ∧ pden (E ++ [pden E it]) (.tee h.length 0) = pden E it := by
  have hEl := hH.1
  have ext : PExt L E h (E ++ [pden E it]) (h ++ [⟨it, []⟩]) := fun x hx =>
    ⟨WF.append hEl _ _ hx, pden_append _ (hEl ▸ WF.below hx)⟩
  refine ⟨⟨by simp [hEl], fun k hub hk => ?_⟩, ext, ?_, ?_⟩
  · by_cases hlt : k < h.length
    · rw [List.getElem?_append_left hlt] at hk
      obtain ⟨b, o, ev⟩ := hH.2 k hub hk
      refine ⟨b, WF.append hEl _ _ o, ?_⟩
      rw [penvAt_append_left (hEl ▸ hlt), (ext _ o).2]; exact ev
    · have hge : h.length ≤ k := Nat.le_of_not_lt hlt
      rw [List.getElem?_append_right hge] at hk
      have hk0 : k - h.length = 0 := by
        rcases Nat.eq_zero_or_pos (k - h.length) with z | p
        · exact z
        · rw [List.getElem?_eq_none (by simp; omega)] at hk; cases hk
      have hkeq : k = h.length := by omega
      subst hkeq
      simp at hk; subst hk
      refine ⟨WF.below hO, WF.append hEl _ _ hO, ?_⟩
      simp [penvAt, ← hEl, (ext _ hO).2]
      exact Eqv.refl _
  · exact ⟨⟨it, []⟩, by simp, Nat.zero_le _⟩
  · simp [pden, penvAt, ← hEl]

/-! ### sources and targets -/

theorem chainSrc_pden (E : List (LSeq α)) (h : Heap α) : ∀ xss : List (List α),
    WF L E h (chainSrc xss) ∧ pden E (chainSrc xss) = ⟨xss.flatten, []⟩
  | [] => ⟨trivial, rfl⟩
  | [xs] => ⟨trivial, by simp [chainSrc, pden]⟩
  | xs :: ys :: rest => by
    obtain ⟨o, d⟩ := chainSrc_pden E h (ys :: rest)
    exact ⟨⟨trivial, o⟩, by simp only [chainSrc, pden, d]; simp⟩

/-- `Stream(pre, x, post)`: the specification appends left to right, `it.chain` nests to the right -/
theorem mixed_seq (pre post : List α) {s d : LSeq α} (e : Eqv s d) :
    Eqv (((LSeq.fin pre).append s).append (LSeq.fin post))
      ((LSeq.mk pre []).append (d.append ⟨post, []⟩)) := by
  refine (Eqv.append_left _ (Eqv.append_right _ e)).trans (Eqv.of_eq ?_)
  by_cases hd : d.endless = true
  · simp [LSeq.append, LSeq.endless, LSeq.fin] at hd ⊢
    simp [hd]
  · simp [LSeq.append, LSeq.endless, LSeq.fin] at hd ⊢
    simp [hd]

inductive PLookup (L : Bool) (E : List (LSeq α)) (st : St α) (sp : SPool α) (j : Nat) : Prop where
  | missing (hp : st.pool[j]? = none) (hs : sp[j]? = none)
  | dead (hp : st.pool[j]? = some .dead) (hs : sp[j]? = some .dead)
  | stream (it : It α) (s : LSeq α) (hp : st.pool[j]? = some (.stream it)) (hs : sp[j]? = some (.stream s))
      (ok : WF L E st.heap it) (e : Eqv s (pden E it))
  | hub (uses : List (It α)) (s : LSeq α) (hp : st.pool[j]? = some (.hub uses))
      (hs : sp[j]? = some (.hub s uses.length)) (ok : ∀ u, u ∈ uses → WF L E st.heap u ∧ Eqv s (pden E u))

theorem PRel.lookup {E : List (LSeq α)} {st : St α} {sp : SPool α} (R : PRel L E st sp) (j : Nat) :
    PLookup L E st sp j := by
  have hj := R.objs j
  cases hp : st.pool[j]? with
  | none =>
    cases hs : sp[j]? with
    | none => exact .missing hp hs
    | some so => rw [hp, hs] at hj; exact absurd hj id
  | some o =>
    cases hs : sp[j]? with
    | none => rw [hp, hs] at hj; exact absurd hj id
    | some so =>
      rw [hp, hs] at hj
      cases o with
      | stream it =>
        cases so with
        | stream s => obtain ⟨o1, d1⟩ := hj; exact .stream it s hp hs o1 d1
        | hub s n => exact absurd hj id
        | dead => exact absurd hj id
      | hub uses =>
        cases so with
        | stream s => exact absurd hj id
        | hub s n => obtain ⟨l, hu⟩ := hj; subst l; exact .hub uses s hp hs hu
        | dead => exact absurd hj id
      | dead =>
        cases so with
        | stream s => exact absurd hj id
        | hub s n => exact absurd hj id
        | dead => exact .dead hp hs

/-- every kind of source (finite, `cycle`, `repeat`, existing object): both sides fail alike, or
    both succeed with related results -/
theorem mkSrc_sound {E : List (LSeq α)} {st : St α} {sp : SPool α} (R : PRel L E st sp) (s : Src α) :
    (∃ e, mkSrc st s = .error e ∧ specSrc sp s = .error e) ∨
    (∃ st' it sp' q, mkSrc st s = .ok (st', it) ∧ specSrc sp s = .ok (sp', q) ∧ Eqv q (pden E it) ∧
      PRel L E st' sp' ∧ st'.heap = st.heap ∧ WF L E st.heap it) := by
  cases s with
  | list xs => exact .inr ⟨st, .src xs, sp, _, rfl, rfl, Eqv.refl _, R, rfl, trivial⟩
  | cyc xs => exact .inr ⟨st, .cyc xs [], sp, _, rfl, rfl, Eqv.refl _, R, rfl, trivial⟩
  | const v => exact .inr ⟨st, .cyc [v] [], sp, _, rfl, rfl, Eqv.refl _, R, rfl, trivial⟩
  | chain xss =>
    obtain ⟨o, d⟩ := chainSrc_pden E st.heap xss
    exact .inr ⟨st, chainSrc xss, sp, _, rfl, rfl, Eqv.of_eq (by simp [srcSeq, d]), R, rfl, o⟩
  | obj j =>
    cases R.lookup j with
    | missing hp hq => exact .inl ⟨"noobj", by simp [mkSrc, hp], by simp [specSrc, hq]⟩
    | dead hp hq => exact .inl ⟨"noobj", by simp [mkSrc, hp], by simp [specSrc, hq]⟩
    | stream it q hp hq ok e =>
      exact .inr ⟨⟨st.heap, st.pool.set j .dead⟩, it, sp.set j .dead, q, by simp [mkSrc, hp],
        by simp [specSrc, hq], e, ⟨R.hok, prelO_set R.objs j trivial⟩, rfl, ok⟩
    | hub uses q hp hq ok =>
      cases hg : uses.getLast? with
      | none =>
        have : uses = [] := List.getLast?_eq_none_iff.1 hg
        subst this
        exact .inl ⟨"IndexError", by simp [mkSrc, hp], by simp [specSrc, hq]⟩
      | some u =>
        obtain ⟨ys, rfl⟩ := List.getLast?_eq_some_iff.1 hg
        obtain ⟨ou, du⟩ := ok u (by simp)
        refine .inr ⟨⟨st.heap, st.pool.set j (.hub ys)⟩, u, sp.set j (.hub q ys.length), q,
          by simp [mkSrc, hp], ?_, du, ⟨R.hok, prelO_set R.objs j ⟨rfl, fun w hw => ok w (by simp [hw])⟩⟩, rfl, ou⟩
        simp at hq
        simp [specSrc, hq]
  | mixed pre j post =>
    cases R.lookup j with
    | missing hp hq => exact .inl ⟨"noobj", by simp [mkSrc, hp], by simp [specSrc, hq]⟩
    | dead hp hq => exact .inl ⟨"noobj", by simp [mkSrc, hp], by simp [specSrc, hq]⟩
    | stream it q hp hq ok e =>
      exact .inr ⟨⟨st.heap, st.pool.set j .dead⟩, .chain (.src pre) (.chain it (.src post)), sp.set j .dead,
        _, by simp [mkSrc, hp], by simp [specSrc, hq], mixed_seq pre post e,
        ⟨R.hok, prelO_set R.objs j trivial⟩, rfl, ⟨trivial, ok, trivial⟩⟩
    | hub uses q hp hq ok =>
      cases hg : uses.getLast? with
      | none =>
        have : uses = [] := List.getLast?_eq_none_iff.1 hg
        subst this
        exact .inl ⟨"IndexError", by simp [mkSrc, hp], by simp [specSrc, hq]⟩
      | some u =>
        obtain ⟨ys, rfl⟩ := List.getLast?_eq_some_iff.1 hg
        obtain ⟨ou, du⟩ := ok u (by simp)
        refine .inr ⟨⟨st.heap, st.pool.set j (.hub ys)⟩, .chain (.src pre) (.chain u (.src post)),
          sp.set j (.hub q ys.length), _,
          by simp [mkSrc, hp], ?_, mixed_seq pre post du,
          ⟨R.hok, prelO_set R.objs j ⟨rfl, fun w hw => ok w (by simp [hw])⟩⟩, rfl,
          ⟨trivial, ou, trivial⟩⟩
        simp at hq
        simp [specSrc, hq]

theorem target_sound {E : List (LSeq α)} {st : St α} {sp : SPool α} (R : PRel L E st sp) (i : Nat) :
    (∃ e, target st i = .error e ∧ specTarget sp i = .error e) ∨
    (∃ st' k it sp' q, target st i = .ok (st', k, it) ∧ specTarget sp i = .ok (sp', k, q) ∧
      Eqv q (pden E it) ∧ PRel L E st' sp' ∧ st'.heap = st.heap ∧ WF L E st.heap it) := by
  cases R.lookup i with
  | missing hp hq => exact .inl ⟨"noobj", by simp [target, hp], by simp [specTarget, hq]⟩
  | dead hp hq => exact .inl ⟨"noobj", by simp [target, hp], by simp [specTarget, hq]⟩
  | stream it q hp hq ok e =>
    exact .inr ⟨st, i, it, sp, q, by simp [target, hp], by simp [specTarget, hq], e, R, rfl, ok⟩
  | hub uses q hp hq ok =>
    cases hg : uses.getLast? with
    | none =>
      have : uses = [] := List.getLast?_eq_none_iff.1 hg
      subst this
      exact .inl ⟨"IndexError", by simp [target, hp], by simp [specTarget, hq]⟩
    | some u =>
      obtain ⟨ys, rfl⟩ := List.getLast?_eq_some_iff.1 hg
      obtain ⟨ou, du⟩ := ok u (by simp)
      refine .inr ⟨⟨st.heap, st.pool.set i (.hub ys) ++ [.dead]⟩, st.pool.length, u,
        sp.set i (.hub q ys.length) ++ [.dead], q, by simp [target, hp], ?_, du,
        ⟨R.hok, prelO_append (prelO_set R.objs i ⟨rfl, fun w hw => ok w (by simp [hw])⟩)
          (prelO_single (x := .dead) (y := .dead) trivial)⟩, rfl, ou⟩
      simp at hq
      simp [specTarget, hq, R.len]

theorem rebind_sound {E : List (LSeq α)} {st : St α} {sp : SPool α} (R : PRel L E st sp) (i k : Nat)
    {it : It α} (ok : WF L E st.heap it) {q : LSeq α} (e : Eqv q (pden E it)) :
    PRel L E (rebind st i k it).1 (specRebind sp i k q).1 ∧
      (rebind st i k it).2 = (specRebind sp i k q).2 :=
  ⟨⟨R.hok, prelO_set R.objs k ⟨ok, e⟩⟩, rfl⟩

/-! ### one lemma per method -/

/-- (for `L = true`) a `filter` is only applied to a sequence it `Hits`: finite, or with an item
    of the period that passes -/
def OpLive (L : Bool) (sp : SPool α) : Op α → Prop
  | .filter i p => L = true →
      match specTarget sp i with
      | .ok (_, _, s) => Hits p s
      | .error _ => True
  | _ => True

/-- whenever the step of the model returns, the specification makes the same step -/
abbrev PRefines (L : Bool) (_E : List (LSeq α)) (st : St α) (sp : SPool α) (op : Op α) : Prop :=
  ∀ (f : Nat) (st' : St α) (o : Obs α), step f st op = some (st', o) →
    ∃ E' sp', specStep sp op = some (sp', o) ∧ PRel L E' st' sp'

section
variable {E : List (LSeq α)} {st : St α} {sp : SPool α}

/-- a step that does not read any iterator -/
theorem prefines_of {op : Op α} {E1 : List (LSeq α)} {st1 : St α} {sp1 : SPool α} {o1 : Obs α}
    (hm : ∀ f, step f st op = some (st1, o1)) (hs : specStep sp op = some (sp1, o1))
    (R1 : PRel L E1 st1 sp1) : PRefines L E st sp op := by
  intro f st' o hr
  rw [hm f] at hr; cases hr
  exact ⟨E1, sp1, hs, R1⟩

theorem prefines_err (R : PRel L E st sp) {op : Op α} (e : String)
    (hm : ∀ f, step f st op = some (st, .err e)) (hs : specStep sp op = some (sp, .err e)) :
    PRefines L E st sp op := prefines_of hm hs R

theorem prefines_new (R : PRel L E st sp) (s : Src α) : PRefines L E st sp (.new s) := by
  rcases mkSrc_sound R s with ⟨e, hm, hq⟩ | ⟨st1, it, sp1, q, hm, hq, eq, R1, hh, ok⟩
  · exact prefines_err R e (fun f => by simp [step, hm]) (by simp [specStep, hq])
  · exact prefines_of (E1 := E) (st1 := ⟨st1.heap, st1.pool ++ [.stream it]⟩) (sp1 := sp1 ++ [.stream q])
      (o1 := .new st1.pool.length) (fun f => by simp [step, hm]) (by simp [specStep, hq, R1.len])
      ⟨R1.hok, prelO_append R1.objs (prelO_single (x := .stream it) (y := .stream q) ⟨hh ▸ ok, eq⟩)⟩

/-- a read (`take`, `next`, `list`) from an iterator that returns -/
theorem pread (R : PRel L E st sp) {f : Nat} {it : It α} {c : Cnt} {h' : Heap α} {it' : It α} {o : Obs α}
    (hr : takeIt f st.heap it c = some (h', it', o)) (ok : WF L E st.heap it) {s : LSeq α}
    (e : Eqv s (pden E it)) :
    ∃ s', specTake s c = some (s', o) ∧ Eqv s' (pden E it') ∧ WF L E h' it' ∧
      PRel L E ⟨h', st.pool⟩ sp ∧ PExt L E st.heap E h' := by
  obtain ⟨s', spec, e', hok', wf', g⟩ := takeIt_sound hr R.hok ok e
  exact ⟨s', spec, e', wf', R.ext (PExt.ofGrow g) hok', PExt.ofGrow g⟩

theorem prefines_take (R : PRel L E st sp) (i : Nat) (c : Cnt) : PRefines L E st sp (.take i c) := by
  cases R.lookup i with
  | missing hp hq => exact prefines_err R "noobj" (fun f => by simp [step, hp]) (by simp [specStep, hq])
  | dead hp hq => exact prefines_err R "noobj" (fun f => by simp [step, hp]) (by simp [specStep, hq])
  | hub uses q hp hq ok =>
    exact prefines_err R "AttributeError" (fun f => by simp [step, hp]) (by simp [specStep, hq])
  | stream it q hp hq ok e =>
    intro f st' o hr
    simp only [step, hp] at hr
    cases ht : takeIt f st.heap it c with
    | none => simp [ht] at hr
    | some x =>
      obtain ⟨h1, it1, o1⟩ := x
      obtain ⟨s', spec, e', wf', R1, _⟩ := pread R ht ok e
      simp only [ht] at hr; cases hr
      exact ⟨E, sp.set i (.stream s'), by simp [specStep, hq, spec],
        ⟨R1.hok, prelO_set R1.objs i ⟨wf', e'⟩⟩⟩

theorem prefines_next_drain (R : PRel L E st sp) (i : Nat) :
    PRefines L E st sp (.next i) ∧ PRefines L E st sp (.drain i) := by
  cases R.lookup i with
  | missing hp hq =>
    exact ⟨prefines_err R "noobj" (fun f => by simp [step, hp]) (by simp [specStep, hq]),
      prefines_err R "noobj" (fun f => by simp [step, hp]) (by simp [specStep, hq])⟩
  | dead hp hq =>
    exact ⟨prefines_err R "noobj" (fun f => by simp [step, hp]) (by simp [specStep, hq]),
      prefines_err R "noobj" (fun f => by simp [step, hp]) (by simp [specStep, hq])⟩
  | stream it q hp hq ok e =>
    have key : ∀ c f st' o, (match takeIt f st.heap it c with
          | none => none
          | some (h', it', o) => some (⟨h', st.pool.set i (.stream it')⟩, o)) = some (st', o) →
        ∃ s', specTake q c = some (s', o) ∧ PRel L E st' (sp.set i (.stream s')) := by
      intro c f st' o hr
      cases ht : takeIt f st.heap it c with
      | none => simp [ht] at hr
      | some x =>
        obtain ⟨h1, it1, o1⟩ := x
        obtain ⟨s', spec, e', wf', R1, _⟩ := pread R ht ok e
        simp only [ht] at hr; cases hr
        exact ⟨s', spec, ⟨R1.hok, prelO_set R1.objs i ⟨wf', e'⟩⟩⟩
    constructor
    · intro f st' o hr
      simp only [step, hp] at hr
      obtain ⟨s', spec, R'⟩ := key .none f st' o hr
      exact ⟨E, _, by simp [specStep, hq, spec], R'⟩
    · intro f st' o hr
      simp only [step, hp] at hr
      obtain ⟨s', spec, R'⟩ := key .inf f st' o hr
      exact ⟨E, _, by simp [specStep, hq, spec], R'⟩
  | hub uses q hp hq ok =>
    cases hg : uses.getLast? with
    | none =>
      have : uses = [] := List.getLast?_eq_none_iff.1 hg
      subst this
      exact ⟨prefines_err R "IndexError" (fun f => by simp [step, hp]) (by simp [specStep, hq]),
        prefines_err R "IndexError" (fun f => by simp [step, hp]) (by simp [specStep, hq])⟩
    | some u =>
      obtain ⟨ys, rfl⟩ := List.getLast?_eq_some_iff.1 hg
      obtain ⟨ou, du⟩ := ok u (by simp)
      simp at hq
      have key : ∀ c f st' o, (match takeIt f st.heap u c with
            | none => none
            | some (h', _, o) => some (⟨h', st.pool.set i (.hub ys)⟩, o)) = some (st', o) →
          ∃ s', specTake q c = some (s', o) ∧ PRel L E st' (sp.set i (.hub q ys.length)) := by
        intro c f st' o hr
        cases ht : takeIt f st.heap u c with
        | none => simp [ht] at hr
        | some x =>
          obtain ⟨h1, it1, o1⟩ := x
          obtain ⟨s', spec, e', wf', R1, ext⟩ := pread R ht ou du
          simp only [ht] at hr; cases hr
          refine ⟨s', spec, ⟨R1.hok, prelO_set R1.objs i ⟨rfl, fun w hw => ?_⟩⟩⟩
          obtain ⟨ow, dw⟩ := ok w (by simp [hw])
          exact ⟨(ext w ow).1, dw⟩
      constructor
      · intro f st' o hr
        simp only [step, hp, hg] at hr
        simp only [List.dropLast_concat] at hr
        obtain ⟨s', spec, R'⟩ := key .none f st' o hr
        exact ⟨E, _, by simp [specStep, hq, spec], R'⟩
      · intro f st' o hr
        simp only [step, hp, hg] at hr
        simp only [List.dropLast_concat] at hr
        obtain ⟨s', spec, R'⟩ := key .inf f st' o hr
        exact ⟨E, _, by simp [specStep, hq, spec], R'⟩

/-- the in-place methods: resolve the target, wrap its iterator, rebind -/
theorem prefines_wrap (R : PRel L E st sp) (i : Nat) {op : Op α} (wrap : It α → It α)
    (swrap : LSeq α → LSeq α) (C : LSeq α → Prop)
    (hC : ∀ sp' k q, specTarget sp i = .ok (sp', k, q) → C q)
    (hok : ∀ (h : Heap α) it q, WF L E h it → Eqv q (pden E it) → C q → WF L E h (wrap it))
    (hden : ∀ it q, Eqv q (pden E it) → Eqv (swrap q) (pden E (wrap it)))
    (hm : ∀ f, step f st op = match target st i with
      | .error e => some (st, .err e)
      | .ok (st', k, it) => some (rebind st' i k (wrap it)))
    (hs : specStep sp op = match specTarget sp i with
      | .error e => some (sp, .err e)
      | .ok (sp', k, s) => some (specRebind sp' i k (swrap s))) :
    PRefines L E st sp op := by
  rcases target_sound R i with ⟨e, ht, hq⟩ | ⟨st1, k, it, sp1, q, ht, hq, eq, R1, hh, ok⟩
  · exact prefines_err R e (fun f => by rw [hm, ht]) (by rw [hs, hq])
  · obtain ⟨R2, ho⟩ := rebind_sound R1 i k (hok st1.heap it q (hh ▸ ok) eq (hC _ _ _ hq)) (hden it q eq)
    exact prefines_of (E1 := E) (st1 := (rebind st1 i k (wrap it)).1)
      (sp1 := (specRebind sp1 i k (swrap q)).1) (o1 := (rebind st1 i k (wrap it)).2)
      (fun f => by rw [hm, ht]) (by rw [hs, hq]; simp only []; rw [ho]) R2

theorem prefines_map (R : PRel L E st sp) (i : Nat) (g : α → α) : PRefines L E st sp (.map i g) :=
  prefines_wrap R i (.map g) (LSeq.map g) (fun _ => True) (fun _ _ _ _ => trivial) (fun _ _ _ o _ _ => o) (fun _ _ e => Eqv.map g e)
    (fun f => by simp only [step]; cases target st i <;> rfl)
    (by simp only [specStep]; cases specTarget sp i <;> rfl)

theorem prefines_filter (R : PRel L E st sp) (i : Nat) (p : α → Bool) (hl : OpLive L sp (.filter i p)) :
    PRefines L E st sp (.filter i p) :=
  prefines_wrap R i (.filter p) (LSeq.filter p) (fun q => L = true → Hits p q)
    (fun sp' k q hq hL => by have := hl hL; rw [hq] at this; exact this)
    (fun _ _ _ o e c => ⟨o, fun hL => Hits.eqv e (c hL)⟩) (fun _ _ e => Eqv.filter p e)
    (fun f => by simp only [step]; cases target st i <;> rfl)
    (by simp only [specStep]; cases specTarget sp i <;> rfl)

theorem prefines_skip (R : PRel L E st sp) (i : Nat) (c : Cnt) : PRefines L E st sp (.skip i c) := by
  cases hc : roundCount c with
  | error e =>
    rcases target_sound R i with ⟨e', ht, hq⟩ | ⟨st1, k, it, sp1, q, ht, hq, eq, R1, hh, ok⟩
    · exact prefines_err R e' (fun f => by simp [step, ht]) (by simp [specStep, hq])
    · exact prefines_err R "unsupported" (fun f => by simp [step, ht, hc]) (by simp [specStep, hq, hc])
  | ok n =>
    exact prefines_wrap R i (.skipper n) (fun s => s.drop n) (fun _ => True) (fun _ _ _ _ => trivial) (fun _ _ _ o _ _ => o) (fun _ _ e => Eqv.drop n e)
      (fun f => by simp only [step, hc]; cases target st i <;> rfl)
      (by simp only [specStep, hc]; cases specTarget sp i <;> rfl)

theorem prefines_limit (R : PRel L E st sp) (i : Nat) (c : Cnt) : PRefines L E st sp (.limit i c) := by
  cases hc : roundCount c with
  | error e =>
    rcases target_sound R i with ⟨e', ht, hq⟩ | ⟨st1, k, it, sp1, q, ht, hq, eq, R1, hh, ok⟩
    · exact prefines_err R e' (fun f => by simp [step, ht]) (by simp [specStep, hq])
    · exact prefines_of (E1 := E) (st1 := st1) (sp1 := sp1) (o1 := .err e)
        (fun f => by simp [step, ht, hc]) (by simp [specStep, hq, hc]) R1
  | ok n =>
    exact prefines_wrap R i (.limiter n) (fun s => ⟨s.take n, []⟩) (fun _ => True) (fun _ _ _ _ => trivial)
      (fun _ _ _ o _ _ => o)
      (fun _ _ e => Eqv.of_eq (by simp only [pden]; rw [e.take]))
      (fun f => by simp only [step, hc]; cases target st i <;> rfl)
      (by simp only [specStep, hc]; cases specTarget sp i <;> rfl)

theorem prefines_append (R : PRel L E st sp) (i : Nat) (s : Src α) : PRefines L E st sp (.append i s) := by
  rcases target_sound R i with ⟨e', ht, hq⟩ | ⟨st1, k, it, sp1, q, ht, hq, eq, R1, hh, ok⟩
  · exact prefines_err R e' (fun f => by simp [step, ht]) (by simp [specStep, hq])
  · rcases mkSrc_sound R1 s with ⟨e, hm, hq2⟩ | ⟨st2, it2, sp2, q2, hm, hq2, eq2, R2, hh2, ok2⟩
    · exact prefines_of (E1 := E) (st1 := st1) (sp1 := sp1) (o1 := .err e)
        (fun f => by simp [step, ht, hm]) (by simp [specStep, hq, hq2]) R1
    · have okc : WF L E st2.heap (.chain it it2) := by rw [hh2]; exact ⟨hh ▸ ok, ok2⟩
      have ec : Eqv (q.append q2) (pden E (.chain it it2)) :=
        (Eqv.append_left _ eq).trans (Eqv.append_right _ eq2)
      obtain ⟨R3, ho⟩ := rebind_sound R2 i k okc ec
      exact prefines_of (E1 := E) (st1 := (rebind st2 i k (.chain it it2)).1)
        (sp1 := (specRebind sp2 i k (q.append q2)).1) (o1 := (rebind st2 i k (.chain it it2)).2)
        (fun f => by simp [step, ht, hm]) (by simp [specStep, hq, hq2, ho]) R3

/-- `copy()` of the Stream / hub at `i`: a tee over the current iterator -/
theorem prefines_copy (R : PRel L E st sp) (i : Nat) : PRefines L E st sp (.copy i) := by
  cases R.lookup i with
  | missing hp hq => exact prefines_err R "noobj" (fun f => by simp [step, hp]) (by simp [specStep, hq])
  | dead hp hq => exact prefines_err R "noobj" (fun f => by simp [step, hp]) (by simp [specStep, hq])
  | stream it q hp hq ok e =>
    obtain ⟨hok1, ext1, okt, dent⟩ := teeOf_sound R.hok ok
    have R1 := R.ext ext1 hok1
    have hset := prelO_set R1.objs i (x := .stream (.tee st.heap.length 0))
      (y := .stream q) ⟨okt, by rw [dent]; exact e⟩
    rw [set_self hq] at hset
    exact prefines_of (E1 := E ++ [pden E it])
      (st1 := ⟨st.heap ++ [⟨it, []⟩], st.pool.set i (.stream (.tee st.heap.length 0)) ++
        [.stream (.tee st.heap.length 0)]⟩) (sp1 := sp ++ [.stream q]) (o1 := .new st.pool.length)
      (fun f => by simp [step, hp, teeOf]) (by simp [specStep, hq, R.len])
      ⟨hok1, prelO_append hset (prelO_single (x := .stream (.tee st.heap.length 0))
        (y := .stream q) ⟨okt, by rw [dent]; exact e⟩)⟩
  | hub uses q hp hq ok =>
    cases uses with
    | nil => exact prefines_err R "IndexError" (fun f => by simp [step, hp]) (by simp [specStep, hq])
    | cons u us =>
      obtain ⟨ou, du⟩ := ok u (by simp)
      obtain ⟨hok1, ext1, okt, dent⟩ := teeOf_sound R.hok ou
      have R1 := R.ext ext1 hok1
      have hset := prelO_set R1.objs i (x := .hub (.tee st.heap.length 0 :: us))
        (y := .hub q (u :: us).length) ⟨by simp, fun w hw => by
          rcases List.mem_cons.1 hw with rfl | hw
          · exact ⟨okt, by rw [dent]; exact du⟩
          · obtain ⟨ow, dw⟩ := ok w (by simp [hw])
            exact ⟨(ext1 w ow).1, by rw [(ext1 w ow).2]; exact dw⟩⟩
      rw [set_self hq] at hset
      simp at hq
      exact prefines_of (E1 := E ++ [pden E u])
        (st1 := ⟨st.heap ++ [⟨u, []⟩], st.pool.set i (.hub (.tee st.heap.length 0 :: us)) ++
          [.stream (.tee st.heap.length 0)]⟩) (sp1 := sp ++ [.stream q]) (o1 := .new st.pool.length)
        (fun f => by simp [step, hp, teeOf]) (by simp [specStep, hq, R.len])
        ⟨hok1, prelO_append hset (prelO_single (x := .stream (.tee st.heap.length 0))
          (y := .stream q) ⟨okt, by rw [dent]; exact du⟩)⟩

/-- `peek` = `copy().take`: a tee, then a read from the new output, which is dropped -/
theorem prefines_peek (R : PRel L E st sp) (i : Nat) (c : Cnt) : PRefines L E st sp (.peek i c) := by
  cases R.lookup i with
  | missing hp hq => exact prefines_err R "noobj" (fun f => by simp [step, hp]) (by simp [specStep, hq])
  | dead hp hq => exact prefines_err R "noobj" (fun f => by simp [step, hp]) (by simp [specStep, hq])
  | stream it q hp hq ok e =>
    obtain ⟨hok1, ext1, okt, dent⟩ := teeOf_sound R.hok ok
    intro f st' o hr
    simp only [step, hp, teeOf] at hr
    cases ht : takeIt f (st.heap ++ [⟨it, []⟩]) (.tee st.heap.length 0) c with
    | none => simp [ht] at hr
    | some x =>
      obtain ⟨h1, it1, o1⟩ := x
      obtain ⟨s', spec, _, hok2, _, g⟩ := takeIt_sound ht hok1 okt (s := q) (by rw [dent]; exact e)
      simp only [ht] at hr; cases hr
      have ext2 := ext1.trans (PExt.ofGrow g)
      have R2 := R.ext ext2 hok2
      have hset := prelO_set R2.objs i (x := .stream (.tee st.heap.length 0))
        (y := .stream q) ⟨WF.grow g okt, by rw [dent]; exact e⟩
      rw [set_self hq] at hset
      exact ⟨_, sp, by simp [specStep, hq, spec], ⟨hok2, hset⟩⟩
  | hub uses q hp hq ok =>
    cases uses with
    | nil => exact prefines_err R "IndexError" (fun f => by simp [step, hp]) (by simp [specStep, hq])
    | cons u us =>
      obtain ⟨ou, du⟩ := ok u (by simp)
      obtain ⟨hok1, ext1, okt, dent⟩ := teeOf_sound R.hok ou
      intro f st' o hr
      simp only [step, hp, teeOf] at hr
      cases ht : takeIt f (st.heap ++ [⟨u, []⟩]) (.tee st.heap.length 0) c with
      | none => simp [ht] at hr
      | some x =>
        obtain ⟨h1, it1, o1⟩ := x
        obtain ⟨s', spec, _, hok2, _, g⟩ := takeIt_sound ht hok1 okt (s := q) (by rw [dent]; exact du)
        simp only [ht] at hr; cases hr
        have ext2 := ext1.trans (PExt.ofGrow g)
        have R2 := R.ext ext2 hok2
        have hset := prelO_set R2.objs i (x := .hub (.tee st.heap.length 0 :: us))
          (y := .hub q (u :: us).length) ⟨by simp, fun w hw => by
            rcases List.mem_cons.1 hw with rfl | hw
            · exact ⟨WF.grow g okt, by rw [dent]; exact du⟩
            · obtain ⟨ow, dw⟩ := ok w (by simp [hw])
              exact ⟨(ext2 w ow).1, by rw [(ext2 w ow).2]; exact dw⟩⟩
        rw [set_self hq] at hset
        simp at hq
        exact ⟨_, sp, by simp [specStep, hq, spec], ⟨hok2, hset⟩⟩

/-- after resolving a source: a new hub over it with `n` outputs (`thub`, `lazy_itertools.tee`) -/
theorem prefines_thub (R : PRel L E st sp) (s : Src α) (n : Nat) : PRefines L E st sp (.thub s n) := by
  have key : ∀ s : Src α, (∀ v, s ≠ .const v) → PRefines L E st sp (.thub s n) := by
    intro s hne
    have hstep : ∀ f, step f st (.thub s n) = match mkSrc st s with
        | .error e => some (st, .err e)
        | .ok (st', it) => some (⟨(teeOf st'.heap it).1, st'.pool ++ [.hub (List.replicate n (teeOf st'.heap it).2)]⟩,
            .new st'.pool.length) := by
      intro f; cases s <;> first | rfl | exact absurd rfl (hne _)
    have hspec : specStep sp (.thub s n) = match specSrc sp s with
        | .error e => some (sp, .err e)
        | .ok (sp', q) => some (sp' ++ [.hub q n], .new sp'.length) := by
      cases s <;> first | rfl | exact absurd rfl (hne _)
    rcases mkSrc_sound R s with ⟨e, hm, hq⟩ | ⟨st1, it, sp1, q, hm, hq, eq, R1, hh, ok⟩
    · exact prefines_err R e (fun f => by rw [hstep, hm]) (by rw [hspec, hq])
    · have ok1 : WF L E st1.heap it := hh ▸ ok
      obtain ⟨hok1, ext1, okt, dent⟩ := teeOf_sound R1.hok ok1
      have R2 := R1.ext ext1 hok1
      refine prefines_of (E1 := E ++ [pden E it])
        (st1 := ⟨st1.heap ++ [⟨it, []⟩], st1.pool ++ [.hub (List.replicate n (.tee st1.heap.length 0))]⟩)
        (sp1 := sp1 ++ [.hub q n]) (o1 := .new st1.pool.length)
        (fun f => by rw [hstep, hm]; rfl) (by rw [hspec, hq, R1.len])
        ⟨hok1, prelO_append R2.objs (prelO_single (x := .hub (List.replicate n (.tee st1.heap.length 0)))
          (y := .hub q n) ⟨by simp, fun w hw => ?_⟩)⟩
      obtain ⟨_, rfl⟩ := List.mem_replicate.1 hw
      exact ⟨okt, by rw [dent]; exact eq⟩
  cases s with
  | const v => exact prefines_of (E1 := E) (st1 := st) (sp1 := sp) (o1 := .const v) (fun f => rfl) rfl R
  | list xs => exact key _ (fun v hv => by cases hv)
  | chain xss => exact key _ (fun v hv => by cases hv)
  | obj j => exact key _ (fun v hv => by cases hv)
  | mixed pre j post => exact key _ (fun v hv => by cases hv)
  | cyc xs => exact key _ (fun v hv => by cases hv)

theorem prefines_tee (R : PRel L E st sp) (i n : Nat) : PRefines L E st sp (.tee i n) := by
  rcases mkSrc_sound R (.obj i) with ⟨e, hm, hq⟩ | ⟨st1, it, sp1, q, hm, hq, eq, R1, hh, ok⟩
  · exact prefines_err R e (fun f => by simp only [step, hm]) (by simp only [specStep, hq])
  · have ok1 : WF L E st1.heap it := hh ▸ ok
    obtain ⟨hok1, ext1, okt, dent⟩ := teeOf_sound R1.hok ok1
    have R2 := R1.ext ext1 hok1
    exact prefines_of (E1 := E ++ [pden E it])
      (st1 := ⟨st1.heap ++ [⟨it, []⟩], st1.pool ++ List.replicate n (.stream (.tee st1.heap.length 0))⟩)
      (sp1 := sp1 ++ List.replicate n (.stream q))
      (o1 := .news ((List.range n).map (· + st1.pool.length)))
      (fun f => by simp only [step, hm]; rfl) (by simp only [specStep, hq, R1.len])
      ⟨hok1, prelO_append R2.objs (prelO_replicate (x := .stream (.tee st1.heap.length 0))
        (y := .stream q) ⟨okt, by rw [dent]; exact eq⟩ n)⟩

theorem opLive_false (sp : SPool α) (op : Op α) : OpLive false sp op := by
  cases op <;> first | trivial | (intro h; cases h)

/-- **every operation, over every kind of source: whenever the model's step returns, the list
    specification makes the same step with the same observation** -/
theorem step_sound (R : PRel L E st sp) (op : Op α) (hl : OpLive L sp op) : PRefines L E st sp op := by
  cases op with
  | new s => exact prefines_new R s
  | take i c => exact prefines_take R i c
  | peek i c => exact prefines_peek R i c
  | skip i c => exact prefines_skip R i c
  | limit i c => exact prefines_limit R i c
  | append i s => exact prefines_append R i s
  | map i g => exact prefines_map R i g
  | filter i p => exact prefines_filter R i p hl
  | copy i => exact prefines_copy R i
  | next i => exact (prefines_next_drain R i).1
  | drain i => exact (prefines_next_drain R i).2
  | thub s n => exact prefines_thub R s n
  | tee i n => exact prefines_tee R i n

end
end ALV.C03
