/-
  C13 — lemmas about the tee-hub machine of `ALV/Model/C13Thub.lean`.
-/
import ALV.Model.C13Thub
import ALV.Lemmas.C13Basic
import Mathlib.Data.List.Nodup

namespace ALV.C13
open ALV

section generic
variable {α : Type} [TrigField α] [ZeroTest α]

/-- reading an expression advances every leaf once per occurrence — whatever is shared -/
theorem SE.next_state (p : Nat → Nat → α) (e : SE) (st : Pos) :
    (e.next p st).2 = fun x => st x + e.leaves.count x := by
  induction e generalizing st with
  | k c => funext x; simp [SE.next, SE.leaves]
  | par i =>
    funext x
    by_cases h : x = IObj.par i <;> simp [SE.next, SE.leaves, bumpO, h, List.count_singleton]
    · intro h'; exact absurd h'.symm h
  | copy h n c src _ =>
    funext x
    by_cases hx : x = IObj.copy h c <;> simp [SE.next, SE.leaves, bumpO, hx, List.count_singleton]
    · intro h'; exact absurd h'.symm hx
  | op1 o e ih => simp only [SE.next, SE.leaves, ih]
  | op2 o a b iha ihb =>
    simp only [SE.next, SE.leaves, iha, ihb, List.count_append]
    funext x; omega

/-- an expression whose leaves are pairwise different objects, all at position `k`, yields its value
at instant `k` -/
theorem SE.next_value (p : Nat → Nat → α) (e : SE) (st : Pos) (k : Nat)
    (hk : ∀ o ∈ e.leaves, st o = k) (hnd : e.leaves.Nodup) : (e.next p st).1 = e.at p k := by
  induction e generalizing st with
  | k c => rfl
  | par i => simp [SE.next, SE.at, hk (.par i) (by simp [SE.leaves])]
  | copy h n c src _ => simp [SE.next, SE.at, hk (.copy h c) (by simp [SE.leaves])]
  | op1 o e ih => simp only [SE.next, SE.at, ih st hk hnd]
  | op2 o a b iha ihb =>
    simp only [SE.leaves, List.nodup_append] at hnd
    obtain ⟨ha, hb, hab⟩ := hnd
    have hka : ∀ o ∈ a.leaves, st o = k := fun o ho => hk o (by simp [SE.leaves, ho])
    have hkb : ∀ o ∈ b.leaves, (a.next p st).2 o = k := by
      intro o ho
      rw [SE.next_state]
      have : a.leaves.count o = 0 := List.count_eq_zero.2 (fun h => hab o h o ho rfl)
      simp only [this, Nat.add_zero]
      exact hk o (by simp [SE.leaves, ho])
    simp only [SE.next, SE.at, iha st hka ha, ihb _ hkb hb]

theorem nextL_state (p : Nat → Nat → α) (es : List SE) (st : Pos) :
    (nextL p es st).2 = fun x => st x + (es.flatMap SE.leaves).count x := by
  induction es generalizing st with
  | nil => funext x; simp [nextL]
  | cons e es ih =>
    simp only [nextL, ih, SE.next_state, List.flatMap_cons, List.count_append]
    funext x; omega

theorem nextL_value (p : Nat → Nat → α) (es : List SE) (st : Pos) (k : Nat)
    (hk : ∀ o ∈ es.flatMap SE.leaves, st o = k) (hnd : (es.flatMap SE.leaves).Nodup) :
    (nextL p es st).1 = es.map (SE.at p k) := by
  induction es generalizing st with
  | nil => rfl
  | cons e es ih =>
    simp only [List.flatMap_cons, List.nodup_append] at hnd
    obtain ⟨ha, hb, hab⟩ := hnd
    have hke : ∀ o ∈ e.leaves, st o = k := fun o ho => hk o (by simp [ho])
    have hkr : ∀ o ∈ es.flatMap SE.leaves, (e.next p st).2 o = k := by
      intro o ho
      rw [SE.next_state]
      have : e.leaves.count o = 0 := List.count_eq_zero.2 (fun h => hab o h o ho rfl)
      simp only [this, Nat.add_zero]
      exact hk o (by simp only [List.flatMap_cons, List.mem_append]; exact Or.inr ho)
    simp only [nextL, List.map_cons, SE.next_value p e st k hke ha, ih _ hkr hb]

theorem readSec_state (p : Nat → Nat → α) (s : SSec) (st : Pos) :
    (readSec p s st).2 = fun x => st x + (secLeaves s).count x := by
  simp only [readSec, nextL_state, secLeaves, secExprs, List.flatMap_append, List.count_append]
  funext x; omega

theorem readSec_value (p : Nat → Nat → α) (s : SSec) (st : Pos) (k : Nat)
    (hk : ∀ o ∈ secLeaves s, st o = k) (hnd : (secLeaves s).Nodup) :
    (readSec p s st).1 = secAt p k s := by
  simp only [secLeaves, secExprs, List.flatMap_append, List.nodup_append] at hnd hk
  obtain ⟨ha, hb, hab⟩ := hnd
  have h1 := nextL_value p s.num st k (fun o ho => hk o (List.mem_append.2 (Or.inl ho))) ha
  have hkd : ∀ o ∈ s.den.flatMap SE.leaves, (nextL p s.num st).2 o = k := by
    intro o ho
    rw [nextL_state]
    have : (s.num.flatMap SE.leaves).count o = 0 := List.count_eq_zero.2 (fun h => hab o h o ho rfl)
    simp only [this, Nat.add_zero]
    exact hk o (List.mem_append.2 (Or.inr ho))
  have h2 := nextL_value p s.den _ k hkd hb
  simp only [readSec, secAt, h1, h2]

/-- the sections of a cascade are different objects: no iterator object is read twice -/
def Linear (secs : List SSec) : Prop := (secs.flatMap secLeaves).Nodup

theorem getD_sec (secs : List SSec) (j : Nat) :
    (∃ hj : j < secs.length, secs.getD j emptySec = secs[j]) ∨ secs.getD j emptySec = emptySec := by
  by_cases hj : j < secs.length
  · left; exact ⟨hj, by simp [List.getD_eq_getElem?_getD, List.getElem?_eq_getElem hj]⟩
  · right; simp [List.getD_eq_getElem?_getD, List.getElem?_eq_none (Nat.le_of_not_lt hj)]

theorem linear_sec_nodup (secs : List SSec) (h : Linear secs) (j : Nat) :
    (secLeaves (secs.getD j emptySec)).Nodup := by
  rcases getD_sec secs j with ⟨hj, he⟩ | he
  · rw [he]; exact (List.nodup_flatMap.1 h).1 _ (List.getElem_mem hj)
  · rw [he]; simp [secLeaves, secExprs, emptySec]

theorem linear_disjoint (secs : List SSec) (h : Linear secs) (i j : Nat) (hij : i ≠ j) (o : IObj)
    (hi : o ∈ secLeaves (secs.getD i emptySec)) (hj : o ∈ secLeaves (secs.getD j emptySec)) : False := by
  rcases getD_sec secs i with ⟨hil, hei⟩ | hei
  · rcases getD_sec secs j with ⟨hjl, hej⟩ | hej
    · rw [hei] at hi
      rw [hej] at hj
      have hp := (List.nodup_flatMap.1 h).2
      rw [List.pairwise_iff_getElem] at hp
      rcases Nat.lt_or_gt_of_ne hij with hlt | hgt
      · exact (hp i j hil hjl hlt) hi hj
      · exact (hp j i hjl hil hgt) hj hi
    · rw [hej] at hj; simp [secLeaves, secExprs, emptySec] at hj
  · rw [hei] at hi; simp [secLeaves, secExprs, emptySec] at hi

/-- THE theorem of the machine: in a cascade of different filter objects, read number `k` of the
object at position `j` shows its instant `k` — for every schedule (any order, any rates) -/
theorem runReads_eq_specReads (p : Nat → Nat → α) (secs : List SSec) (h : Linear secs)
    (sched past : List Nat) (st : Pos)
    (hinv : ∀ j o, o ∈ secLeaves (secs.getD j emptySec) → st o = past.count j) :
    runReads p secs sched st = specReads p secs past sched := by
  induction sched generalizing past st with
  | nil => rfl
  | cons j js ih =>
    simp only [runReads, specReads]
    rw [readSec_value p _ st (past.count j) (hinv j) (linear_sec_nodup secs h j)]
    congr 1
    apply ih
    intro j' o ho
    rw [readSec_state]
    by_cases hjj : j' = j
    · subst hjj
      have : (secLeaves (secs.getD j' emptySec)).count o = 1 :=
        List.count_eq_one_of_mem (linear_sec_nodup secs h j') ho
      show st o + _ = _
      rw [this, hinv j' o ho]; simp
    · have : (secLeaves (secs.getD j emptySec)).count o = 0 :=
        List.count_eq_zero.2 (fun hm => linear_disjoint secs h j' j hjj o ho hm)
      have hne : (j == j') = false := by simp; exact fun h' => hjj h'.symm
      show st o + _ = _
      rw [this, hinv j' o ho, List.count_cons, hne]; simp

/-- the same filter object read twice: the second read shows the NEXT instant -/
theorem readSec_twice (p : Nat → Nat → α) (s : SSec) (st : Pos) (k : Nat)
    (hk : ∀ o ∈ secLeaves s, st o = k) (hnd : (secLeaves s).Nodup) :
    (readSec p s st).1 = secAt p k s ∧ (readSec p s (readSec p s st).2).1 = secAt p (k + 1) s := by
  refine ⟨readSec_value p s st k hk hnd, ?_⟩
  apply readSec_value p s _ (k + 1) _ hnd
  intro o ho
  rw [readSec_state]
  simp [List.count_eq_one_of_mem hnd ho, hk o ho]

/-- number arguments (constant sequences): the value does not depend on the instant … -/
theorem SE.at_const (p : Nat → Nat → α) (hp : ∀ i k, p i k = p i 0) (e : SE) (k : Nat) :
    e.at p k = e.at p 0 := by
  induction e with
  | k c => rfl
  | par i => exact hp i k
  | copy h n c src ih => exact ih
  | op1 o e ih => simp only [SE.at, ih]
  | op2 o a b iha ihb => simp only [SE.at, iha, ihb]

/-- … nor on the state: with number arguments ANY sharing of objects is harmless -/
theorem SE.next_const (p : Nat → Nat → α) (hp : ∀ i k, p i k = p i 0) (e : SE) (st : Pos) :
    (e.next p st).1 = e.at p 0 := by
  induction e generalizing st with
  | k c => rfl
  | par i => exact hp i _
  | copy h n c src _ => exact SE.at_const p hp src _
  | op1 o e ih => simp only [SE.next, SE.at, ih]
  | op2 o a b iha ihb => simp only [SE.next, SE.at, iha, ihb]

theorem nextL_const (p : Nat → Nat → α) (hp : ∀ i k, p i k = p i 0) (es : List SE) (st : Pos) :
    (nextL p es st).1 = es.map (SE.at p 0) := by
  induction es generalizing st with
  | nil => rfl
  | cons e es ih => simp only [nextL, List.map_cons, SE.next_const p hp, ih]

theorem readSec_const (p : Nat → Nat → α) (hp : ∀ i k, p i k = p i 0) (s : SSec) (st : Pos) :
    (readSec p s st).1 = secAt p 0 s := by
  simp only [readSec, secAt, nextL_const p hp]

end generic
end ALV.C13

namespace ALV.C13
open ALV

/-- the static check implies that no iterator object is read by two coefficients -/
theorem wf_linear (secs : List SSec) (h : wfDesign secs = true) : Linear secs := by
  simp only [wfDesign, Bool.and_eq_true, decide_eq_true_eq] at h
  exact (List.nodup_append.1 h.1.2).1

section generic
variable {α : Type} [TrigField α] [ZeroTest α]

/-! ### every stream program, instant by instant, IS the constant design of the instant's values -/

theorem lowpassS_at (p : Nat → Nat → α) (k b : Nat) (st : Strategy) (cutoff : SE) :
    trimmed (secAt p k (lowpassS b st cutoff)) = lowpass st (cutoff.at p k) := by
  cases st <;> rfl

theorem highpassS_at (p : Nat → Nat → α) (k b : Nat) (st : Strategy) (cutoff : SE) :
    trimmed (secAt p k (highpassS b st cutoff)) = highpass st (cutoff.at p k) := by
  cases st <;> rfl

theorem resonatorS_at (p : Nat → Nat → α) (k b : Nat) (st : ResStrategy) (freq bw : SE) :
    trimmed (secAt p k (resonatorS b st freq bw)) = resonator st (freq.at p k) (bw.at p k) := by
  cases st <;> rfl

theorem onePlusDelayedS_at (p : Nat → Nat → α) (k d : Nat) (v : SE) :
    (onePlusDelayedS d v).map (SE.at p k) = onePlusDelayed d (v.at p k) := by
  cases d with
  | zero => rfl
  | succ d =>
    simp only [onePlusDelayedS, onePlusDelayed, List.map_cons, List.map_append, List.map_replicate,
      List.map_nil]
    rfl

theorem combS_at (p : Nat → Nat → α) (k d : Nat) (a : SE) :
    trimmed (secAt p k (combFbS d a)) = combFb d (a.at p k) ∧
    trimmed (secAt p k (combTauS d a)) = combTau d (a.at p k) ∧
    trimmed (secAt p k (combFfS d a)) = combFf d (a.at p k) := by
  refine ⟨?_, ?_, ?_⟩
  · simp only [trimmed, secAt, combFbS, combFb, onePlusDelayedS_at]; rfl
  · simp only [trimmed, secAt, combTauS, combFbS, combTau, combFb, onePlusDelayedS_at]; rfl
  · simp only [trimmed, secAt, combFfS, combFf, onePlusDelayedS_at]; rfl

theorem klapuriS_at (p : Nat → Nat → α) (k : Nat) (freq bw : SE) :
    (klapuriS freq bw).map (fun s => trimmed (secAt p k s)) = gammatoneKlapuri (freq.at p k) (bw.at p k) := by
  rfl

theorem progOf_at (kind : Kind) (v1 v2 : List α) (k : Nat) :
    (progOf kind).map (fun s => trimmed (secAt (argSeq v1 v2) k s)) = designOf kind (cyc v1 k) (cyc v2 k) := by
  cases kind with
  | lowpass st => simp only [progOf, List.map_cons, List.map_nil, lowpassS_at, designOf]; rfl
  | highpass st => simp only [progOf, List.map_cons, List.map_nil, highpassS_at, designOf]; rfl
  | resonator st => simp only [progOf, List.map_cons, List.map_nil, resonatorS_at, designOf]; rfl
  | combFb d => simp only [progOf, List.map_cons, List.map_nil, (combS_at _ _ _ _).1, designOf]; rfl
  | combTau d => simp only [progOf, List.map_cons, List.map_nil, (combS_at _ _ _ _).2.1, designOf]; rfl
  | combFf d => simp only [progOf, List.map_cons, List.map_nil, (combS_at _ _ _ _).2.2, designOf]; rfl
  | klapuri => simp only [progOf, klapuriS_at, designOf]; rfl

theorem specReads_trimmed (kind : Kind) (v1 v2 : List α) (past sched : List Nat) :
    (specReads (argSeq v1 v2) (progOf kind) past sched).map trimmed = constReads kind v1 v2 past sched := by
  induction sched generalizing past with
  | nil => rfl
  | cons j js ih =>
    simp only [specReads, constReads, List.map_cons, ih]
    congr 1
    rw [← progOf_at]
    simp only [List.getD_eq_getElem?_getD, List.getElem?_map]
    cases (progOf kind)[j]? <;> rfl

end generic

/-! ### the static conditions hold for every strategy body -/

theorem onePlusDelayedS_leaves (d : Nat) (v : SE) :
    (onePlusDelayedS d v).flatMap SE.leaves = v.leaves ∧ (onePlusDelayedS d v).flatMap SE.hubs = v.hubs := by
  cases d with
  | zero => simp [onePlusDelayedS, S.add, S.one, SE.leaves, SE.hubs]
  | succ d =>
    have h1 : ∀ n : Nat, (List.replicate n (SE.k .zero)).flatMap SE.leaves = [] := by
      intro n; induction n with
      | zero => rfl
      | succ n ih => simp [List.replicate_succ, SE.leaves, ih]
    have h2 : ∀ n : Nat, (List.replicate n (SE.k .zero)).flatMap SE.hubs = [] := by
      intro n; induction n with
      | zero => rfl
      | succ n ih => simp [List.replicate_succ, SE.hubs, ih]
    simp [onePlusDelayedS, S.one, SE.leaves, SE.hubs, List.flatMap_append, h1, h2]

theorem wf_progOf (kind : Kind) : wfDesign (progOf kind) = true := by
  cases kind with
  | lowpass st => cases st <;> decide
  | highpass st => cases st <;> decide
  | resonator st => cases st <;> decide
  | klapuri => decide
  | combFb d =>
    simp [wfDesign, designHubs, designLeaves, progOf, combFbS, secLeaves, secExprs, onePlusDelayedS_leaves,
      S.one, S.neg, SE.leaves, SE.hubs, List.eraseDups]
  | combTau d =>
    simp [wfDesign, designHubs, designLeaves, progOf, combTauS, combFbS, secLeaves, secExprs,
      onePlusDelayedS_leaves, S.one, S.neg, S.div, SE.leaves, SE.hubs, List.eraseDups]
  | combFf d =>
    simp [wfDesign, designHubs, designLeaves, progOf, combFfS, secLeaves, secExprs, onePlusDelayedS_leaves,
      S.one, S.neg, SE.leaves, SE.hubs, List.eraseDups]

/-- the aliased variant is NOT linear: positions 0 and 2 of the cascade read the same objects -/
theorem klapuriAliased_not_linear : ¬ Linear (klapuriAliasedS (.par 0) (.par 1)) := by
  unfold Linear; decide

end ALV.C13
