/-
  C14 — helper lemmas that hold for EVERY number class (`Float` included): the two code
  templates as plain `List.range` maps, lengths, the periodic-prefix relation, the registry
  produced by the model of `_generate_window_strategies`.  Core Lean only.
-/
import ALV.Model.C14
import ALV.Spec.C14
namespace ALV.C14
open ALV ALV.Gen.Windows
variable {α : Type} [TrigField α]

/-! ### the templates -/

/-- `xrange(0, k)` is `xrange(k)` (keeps the proofs below valid for that harmless spelling) -/
@[simp] theorem xrangeFrom_zero (k : Int) : xrangeFrom 0 k = xrange k := by
  simp [xrangeFrom, xrange]

theorem xrange_nat (n : Nat) : xrange (n : Int) = (List.range n).map Int.ofNat := by
  simp [xrange]

theorem periodicT_nat (f : α → α → α) (n : Nat) :
    periodicT f (n : Int)
      = (List.range n).map fun (k : Nat) => f (TrigField.ofInt (n : Int)) (TrigField.ofInt (k : Int)) := by
  simp [periodicT, xrange, List.map_map, Function.comp_def]

theorem symmT_one (f : α → α → α) : symmT f 1 = [TrigField.ofInt 1] := by
  simp [symmT]

theorem symmT_succ (f : α → α → α) (n : Nat) (h : n ≠ 0) :
    symmT f ((n + 1 : Nat) : Int)
      = (List.range (n + 1)).map fun (k : Nat) => f (TrigField.ofInt (n : Int)) (TrigField.ofInt (k : Int)) := by
  have h1 : ¬ (((n + 1 : Nat) : Int) = 1) := by omega
  have h2 : ((n + 1 : Nat) : Int) - 1 = (n : Int) := by omega
  simp only [symmT, h1, if_false, h2, xrange_nat, List.map_map, Function.comp_def]
  rfl

theorem symmT_zero (f : α → α → α) : symmT f 0 = [] := by
  simp [symmT, xrange]

theorem periodicT_length (f : α → α → α) (size : Int) : (periodicT f size).length = size.toNat := by
  simp [periodicT, xrange]

theorem symmT_length (f : α → α → α) (size : Int) : (symmT f size).length = size.toNat := by
  unfold symmT
  split
  · next h => subst h; rfl
  · simp [xrange]

/-- The periodic template yields exactly the first `n` samples of the symmetric template at `n+1`,
    whatever the formula and the number class: both evaluate the *same term* `f n k`. -/
theorem periodicT_prefix (f : α → α → α) (n : Nat) :
    periodicT f (n : Int) = (symmT f ((n + 1 : Nat) : Int)).take n := by
  by_cases h : n = 0
  · subst h; simp [periodicT, xrange]
  · rw [symmT_succ f n h, periodicT_nat, ← List.map_take, List.take_range]
    simp

/-- a formula that ignores `size` (rect): the periodic template is its own prefix -/
theorem periodicT_prefix_const (f : α → α → α) (hf : ∀ s s' x, f s x = f s' x) (n : Nat) :
    periodicT f (n : Int) = (periodicT f ((n + 1 : Nat) : Int)).take n := by
  rw [periodicT_nat, periodicT_nat, ← List.map_take, List.take_range]
  simp only [Nat.le_add_right, Nat.min_eq_left]
  apply List.map_congr_left
  intro k _
  exact hf _ _ _

/-! ### the table: which generated definition belongs to which documented kind -/

/-- the generated formula of a kind, as a function of (size, n, alpha) -/
def genFormula (k : Kind) : α → α → α → α :=
  match k with
  | .hann => fun s n _ => hann s n
  | .hamming => fun s n _ => hamming s n
  | .rect => fun s n _ => rect s n
  | .bartlett => fun s n _ => bartlett s n
  | .triangular => fun s n _ => triangular s n
  | .blackman => fun s n a => blackman s n a
  | .cos => fun s n a => Gen.Windows.cos s n a

theorem formula_sname (k : Kind) : formula (α := α) k.sname = some (genFormula k) := by
  cases k <;> rfl

/-- the generated parameter defaults are the documented ones (0.16 for blackman, 1 for cos) -/
theorem alphaDefault_sname (k : Kind) : alphaDefault (α := α) k.sname = k.alphaDefault := by
  cases k <;> rfl

theorem genFormula_rect_const (s s' x a : α) : genFormula .rect s x a = genFormula .rect s' x a := rfl

/-! ### the registry built by the model of `_generate_window_strategies` -/

theorem window_get : ∀ k ∈ Kind.all, ∀ name ∈ k.names, generated.window.get name = some ⟨k.sname, false⟩ := by
  decide

theorem wsymm_get : ∀ k ∈ Kind.all, ∀ name ∈ k.names, (k.distinct = false → name = k.sname) →
    generated.wsymm.get name = some ⟨k.sname, k.distinct⟩ := by
  decide

theorem mem_all (k : Kind) : k ∈ Kind.all := by cases k <;> decide

theorem sname_mem_names (k : Kind) : k.sname ∈ k.names := by cases k <;> decide

theorem resolve_names : ∀ k ∈ Kind.all, ∀ name ∈ k.names, ∀ b : Bool, resolve b name = some (k, b && k.distinct) := by
  decide

/-- `sdict[name]` for a documented name (the two missing aliases of `wsymm` excepted) -/
theorem dict_get (symmDict : Bool) (k : Kind) (name : String) (hn : name ∈ k.names)
    (hgap : symmDict = true → k.distinct = false → name = k.sname) :
    (generated.dict (if symmDict then .wsymm else .window)).get name = some ⟨k.sname, symmDict && k.distinct⟩ := by
  cases symmDict
  · simpa [State.dict] using window_get k (mem_all k) name hn
  · simpa [State.dict] using wsymm_get k (mem_all k) name hn (hgap rfl)

theorem window_dict_get (k : Kind) (name : String) (hn : name ∈ k.names) :
    (generated.dict .window).get name = some ⟨k.sname, false⟩ :=
  window_get k (mem_all k) name hn

theorem wsymm_dict_get (k : Kind) (name : String) (hn : name ∈ k.names) (hgap : k.distinct = false → name = k.sname) :
    (generated.dict .wsymm).get name = some ⟨k.sname, k.distinct⟩ :=
  wsymm_get k (mem_all k) name hn hgap

/-! ### calls -/

theorem call_some {d : DictId} {name : String} {fn : Func} (h : (generated.dict d).get name = some fn)
    (size : Int) (alpha : Option α) : call d (some name) size alpha = callFunc fn size alpha := by
  simp [call, h]

theorem callFunc_kind (k : Kind) (s : Bool) (size : Int) (alpha : Option α) :
    callFunc ⟨k.sname, s⟩ size alpha =
      match alpha, (k.alphaDefault : Option α) with
      | some _, none => .err "TypeError"
      | a, d => .ok ((if s then symmT else periodicT)
                      (fun x n => genFormula k x n (a.getD (d.getD (TrigField.ofInt 0)))) size) := by
  unfold callFunc
  simp only [formula_sname, alphaDefault_sname]
  cases alpha <;> cases k <;> rfl

theorem callFunc_length (fn : Func) (size : Int) (alpha : Option α) (xs : List α)
    (h : callFunc fn size alpha = .ok xs) : xs.length = size.toNat := by
  unfold callFunc at h
  split at h
  · cases h
  · split at h
    · cases h
    · injection h with h
      subst h
      cases fn.symm <;> simp [periodicT_length, symmT_length]

/-- the list a call returns, when it returns one: template applied to the kind's generated formula -/
theorem callFunc_ok (k : Kind) (s : Bool) (size : Int) (alpha : Option α) (xs : List α)
    (h : callFunc ⟨k.sname, s⟩ size alpha = .ok xs) :
    ∃ a : α, xs = (if s then symmT else periodicT) (fun x n => genFormula k x n a) size ∧
      ∀ (s' : Bool) (size' : Int), callFunc ⟨k.sname, s'⟩ size' alpha
        = .ok ((if s' then symmT else periodicT) (fun x n => genFormula k x n a) size') := by
  rw [callFunc_kind] at h
  cases alpha <;> cases k <;> simp only [Kind.alphaDefault] at h <;> first
    | (injection h with h; exact ⟨_, h.symm, fun s' size' => by rw [callFunc_kind]; rfl⟩)
    | cases h

end ALV.C14
