/-
  C16 — helper lemmas for the refinement `Model.mrun = Spec.srun` (Streamix) and for the
  ControlStream clause.  Single Mathlib tactic modules only (linear arithmetic over `Rat`).
-/
import ALV.Model.C16
import ALV.Spec.C16
import Mathlib.Tactic.Linarith
import Mathlib.Tactic.Ring
import Mathlib.Tactic.NormNum
import Mathlib.Algebra.Order.Field.Rat

namespace ALV.C16
variable {α β : Type}

/-! ### start times -/

theorem startTime_late {T : Rat} {n : Nat} (h : T ≤ n + 1/2) : startTime T n = n := by
  unfold startTime nearest
  have h1 : (T - 1/2).ceil ≤ (n : Int) := by
    rw [Rat.ceil_le_iff]; push_cast; linarith
  omega

theorem startTime_early {T : Rat} {n : Nat} (h : (n : Rat) + 1/2 < T) :
    startTime T n = (nearest T).toNat ∧ n < (nearest T).toNat := by
  unfold startTime nearest
  have h1 : ¬ (T - 1/2).ceil ≤ (n : Int) := by
    rw [Rat.ceil_le_iff]; push_cast; linarith
  omega

theorem startTime_succ_of_early {T : Rat} {n : Nat} (h : (n : Rat) + 1/2 < T) :
    startTime T (n + 1) = startTime T n ∧ n < startTime T n := by
  have := startTime_early h
  refine ⟨?_, by omega⟩
  rw [this.1]; unfold startTime; omega

theorem le_startTime (T : Rat) (n : Nat) : n ≤ startTime T n := by
  unfold startTime; omega

/-! ### the summing loop -/

/-- what is left of event `e` when sample `n` is about to be computed, if `e` is in `_playing` -/
def act (n : Nat) (e : SEv α) : Option (List α) :=
  if e.start ≤ n ∧ n ≤ e.start + e.data.length then some (e.data.drop (n - e.start)) else none

theorem poll_filterMap [Add α] (n : Nat) (es : List (SEv α)) (hs : ∀ e ∈ es, e.start ≤ n) (d : α) :
    poll d (es.filterMap (act n)) =
      ((es.filterMap (term n)).foldl (· + ·) d, es.filterMap (act (n + 1))) := by
  induction es generalizing d with
  | nil => simp [poll]
  | cons e es ih =>
    have he : e.start ≤ n := hs e (by simp)
    have ih' := fun d => ih (fun e' h' => hs e' (by simp [h'])) d
    by_cases h2 : n - e.start < e.data.length
    · -- the event yields an item
      have hdrop : e.data.drop (n - e.start) = e.data[n - e.start] :: e.data.drop (n + 1 - e.start) := by
        rw [List.drop_eq_getElem_cons h2]; congr 2; omega
      have ha : act n e = some (e.data[n - e.start] :: e.data.drop (n + 1 - e.start)) := by
        rw [← hdrop]; unfold act; rw [if_pos ⟨he, by omega⟩]
      have ht : term n e = some e.data[n - e.start] := by
        unfold term; rw [if_pos he]; exact List.getElem?_eq_getElem h2
      have ha' : act (n + 1) e = some (e.data.drop (n + 1 - e.start)) := by
        unfold act; rw [if_pos ⟨by omega, by omega⟩]
      simp only [List.filterMap_cons, ha, ht, ha', poll, List.foldl_cons, ih']
    · -- the event is exhausted (or was removed before)
      have ht : term n e = none := by
        unfold term; rw [if_pos he]; exact List.getElem?_eq_none (by omega)
      have ha' : act (n + 1) e = none := by
        unfold act; rw [if_neg (by omega)]
      by_cases h1 : n ≤ e.start + e.data.length
      · have ha : act n e = some [] := by
          unfold act; rw [if_pos ⟨he, h1⟩, List.drop_eq_nil_of_le (by omega)]
        simp only [List.filterMap_cons, ha, ht, ha', poll, ih']
      · have ha : act n e = none := by
          unfold act; rw [if_neg (by omega)]
        simp only [List.filterMap_cons, ha, ht, ha', ih']

/-! ### the queue and the start loop -/

/-- The queue `q` of the model holds exactly the logged events `pend`, in order; `Tst` is the
    cumulative time of everything started so far, `Tend` of everything accepted so far; every
    pending event's logged start is `startTime` of its cumulative time *at the present sample
    count `n`* (so it is `≥ n`). -/
def QueueOK (n : Nat) (Tend : Rat) : Rat → List (Rat × List α) → List (SEv α) → Prop
  | Tst, [], [] => Tst = Tend
  | Tst, p :: q, e :: es =>
      0 ≤ p.1 ∧ e.data = p.2 ∧ e.start = startTime (Tst + p.1) n ∧ QueueOK n Tend (Tst + p.1) q es
  | _, _, _ => False

theorem queueOK_length {n : Nat} {Tend : Rat} : ∀ (q : List (Rat × List α)) (pend : List (SEv α)) (Tst : Rat),
    QueueOK n Tend Tst q pend → q.length = pend.length
  | [], [], _, _ => rfl
  | [], _ :: _, _, h => by simp [QueueOK] at h
  | _ :: _, [], _, h => by simp [QueueOK] at h
  | _ :: q, _ :: es, _, h => by
    simp only [QueueOK] at h
    simp [queueOK_length q es _ h.2.2.2]

theorem queueOK_le {n : Nat} {Tend : Rat} : ∀ (q : List (Rat × List α)) (pend : List (SEv α)) (Tst : Rat),
    QueueOK n Tend Tst q pend → Tst ≤ Tend
  | [], [], _, h => by simp only [QueueOK] at h; exact le_of_eq h
  | [], _ :: _, _, h => by simp [QueueOK] at h
  | _ :: _, [], _, h => by simp [QueueOK] at h
  | p :: q, _ :: es, Tst, h => by
    simp only [QueueOK] at h
    have := queueOK_le q es _ h.2.2.2
    linarith [h.1]

theorem queueOK_ge {n : Nat} {Tend : Rat} : ∀ (q : List (Rat × List α)) (pend : List (SEv α)) (Tst : Rat),
    QueueOK n Tend Tst q pend → ∀ e ∈ pend, n ≤ e.start
  | [], [], _, _ => by simp
  | [], _ :: _, _, h => by simp [QueueOK] at h
  | _ :: _, [], _, h => by simp [QueueOK] at h
  | p :: q, e :: es, Tst, h => by
    simp only [QueueOK] at h
    intro e' he'
    rcases List.mem_cons.1 he' with rfl | h'
    · rw [h.2.2.1]; exact le_startTime _ _
    · exact queueOK_ge q es _ h.2.2.2 e' h'

/-- when the next sample count is reached without the head being due, nothing in the queue is due -/
theorem queueOK_advance {n : Nat} {Tend : Rat} : ∀ (q : List (Rat × List α)) (pend : List (SEv α)) (Tst : Rat),
    (n : Rat) + 1/2 < Tst → QueueOK n Tend Tst q pend →
    QueueOK (n + 1) Tend Tst q pend ∧ ∀ e ∈ pend, n < e.start
  | [], [], _, _, h => ⟨by simpa [QueueOK] using h, by simp⟩
  | [], _ :: _, _, _, h => by simp [QueueOK] at h
  | _ :: _, [], _, _, h => by simp [QueueOK] at h
  | p :: q, e :: es, Tst, hT, h => by
    simp only [QueueOK] at h
    obtain ⟨hd, hdata, hstart, hrest⟩ := h
    have hT' : (n : Rat) + 1/2 < Tst + p.1 := by linarith
    have ih := queueOK_advance q es (Tst + p.1) hT' hrest
    have hs := startTime_succ_of_early hT'
    refine ⟨?_, ?_⟩
    · simp only [QueueOK]
      exact ⟨hd, hdata, by rw [hs.1]; exact hstart, ih.1⟩
    · intro e' he'
      rcases List.mem_cons.1 he' with rfl | h'
      · rw [hstart]; exact hs.2
      · exact ih.2 e' h'

/-- `add` of an accepted event extends queue and log alike -/
theorem queueOK_append {n : Nat} {Tend : Rat} (d : Rat) (x : List α) (hd : 0 ≤ d) :
    ∀ (q : List (Rat × List α)) (pend : List (SEv α)) (Tst : Rat),
    QueueOK n Tend Tst q pend →
    QueueOK n (Tend + d) Tst (q ++ [(d, x)]) (pend ++ [⟨startTime (Tend + d) n, x⟩])
  | [], [], Tst, h => by
    simp only [QueueOK] at h
    subst h
    simp [QueueOK, hd]
  | [], _ :: _, _, h => by simp [QueueOK] at h
  | _ :: _, [], _, h => by simp [QueueOK] at h
  | p :: q, e :: es, Tst, h => by
    simp only [QueueOK] at h
    simp only [List.cons_append, QueueOK]
    exact ⟨h.1, h.2.1, h.2.2.1, queueOK_append d x hd q es _ h.2.2.2⟩

/-- The start loop at sample `n`: it pops exactly the pending events whose logged start is `n`;
    what stays pending starts later; `count` keeps its form `n + 1/2 − (time of all started)`. -/
theorem startLoop_spec {n : Nat} {Tend : Rat} :
    ∀ (q : List (Rat × List α)) (pend : List (SEv α)) (Tst : Rat) (pl : List (List α)),
    QueueOK n Tend Tst q pend →
    ∃ (popped pend' : List (SEv α)) (Tst' : Rat) (q' : List (Rat × List α)),
      pend = popped ++ pend' ∧ (∀ e ∈ popped, e.start = n) ∧
      startLoop ((n : Rat) + 1/2 - Tst) q pl = ((n : Rat) + 1/2 - Tst', q', pl ++ popped.map (·.data)) ∧
      QueueOK (n + 1) Tend Tst' q' pend' ∧ (∀ e ∈ pend', n < e.start) ∧
      q.length = popped.length + q'.length
  | [], [], Tst, pl, h => ⟨[], [], Tst, [], by simp, by simp, by simp [startLoop], by simpa [QueueOK] using h, by simp, by simp⟩
  | [], _ :: _, _, _, h => by simp [QueueOK] at h
  | _ :: _, [], _, _, h => by simp [QueueOK] at h
  | (d, x) :: q, e :: es, Tst, pl, h => by
    simp only [QueueOK] at h
    obtain ⟨hd, hdata, hstart, hrest⟩ := h
    by_cases hc : (n : Rat) + 1/2 - Tst ≥ d
    · -- the head is due: it starts now
      have hT : Tst + d ≤ (n : Rat) + 1/2 := by linarith
      obtain ⟨popped, pend', Tst', q', hp, hpn, hrun, hq, hlate, hlen⟩ :=
        startLoop_spec q es (Tst + d) (pl ++ [x]) hrest
      refine ⟨e :: popped, pend', Tst', q', by simp [hp], ?_, ?_, hq, hlate, by simp [hlen]; omega⟩
      · intro e' he'
        rcases List.mem_cons.1 he' with rfl | h'
        · rw [hstart]; exact startTime_late hT
        · exact hpn e' h'
      · have hcount : (n : Rat) + 1/2 - Tst - d = (n : Rat) + 1/2 - (Tst + d) := by ring
        rw [startLoop, if_pos hc, hcount, hrun]
        simp [hdata]
    · -- the head is not due: the loop stops, nothing behind it is due either
      have hT : (n : Rat) + 1/2 < Tst + d := by
        have := lt_of_not_ge hc
        linarith
      have hs := startTime_succ_of_early hT
      have ih := queueOK_advance q es (Tst + d) hT hrest
      refine ⟨[], e :: es, Tst, (d, x) :: q, by simp, by simp, by rw [startLoop, if_neg hc]; simp, ?_, ?_, by simp⟩
      · simp only [QueueOK]
        exact ⟨hd, hdata, by rw [hs.1]; exact hstart, ih.1⟩
      · intro e' he'
        rcases List.mem_cons.1 he' with rfl | h'
        · rw [hstart]; exact hs.2
        · exact ih.2 e' h'

/-! ### facts about the log used by one `next` -/

theorem filterMap_act_popped {n : Nat} : ∀ (popped : List (SEv α)), (∀ e ∈ popped, e.start = n) →
    popped.filterMap (act n) = popped.map (·.data)
  | [], _ => rfl
  | e :: es, h => by
    have he : e.start = n := h e (by simp)
    have : act n e = some e.data := by
      unfold act; rw [if_pos ⟨by omega, by omega⟩, he]; simp
    simp [this, filterMap_act_popped es (fun e' h' => h e' (by simp [h']))]

theorem filterMap_term_late {n : Nat} : ∀ (pend : List (SEv α)), (∀ e ∈ pend, n < e.start) →
    pend.filterMap (term n) = []
  | [], _ => rfl
  | e :: es, h => by
    have he : n < e.start := h e (by simp)
    have : term n e = none := by unfold term; rw [if_neg (by omega)]
    simp [this, filterMap_term_late es (fun e' h' => h e' (by simp [h']))]

theorem outAt_split [Add α] (zero : α) {n : Nat} (started pend : List (SEv α))
    (h : ∀ e ∈ pend, n < e.start) :
    outAt zero n (started ++ pend) = (started.filterMap (term n)).foldl (· + ·) zero := by
  unfold outAt
  rw [List.filterMap_append, filterMap_term_late pend h, List.append_nil]

theorem countP_start {n : Nat} (old popped pend : List (SEv α))
    (ho : ∀ e ∈ old, e.start < n) (hp : ∀ e ∈ popped, e.start = n) (hl : ∀ e ∈ pend, n < e.start) :
    (old ++ popped ++ pend).countP (fun e => e.start == n) = popped.length := by
  have h1 : old.countP (fun e => e.start == n) = 0 := by
    rw [List.countP_eq_zero]; intro e he; have := ho e he; simp; omega
  have h2 : pend.countP (fun e => e.start == n) = 0 := by
    rw [List.countP_eq_zero]; intro e he; have := hl e he; simp; omega
  have h3 : popped.countP (fun e => e.start == n) = popped.length := by
    rw [List.countP_eq_length]; intro e he; simp [hp e he]
  simp [List.countP_append, h1, h2, h3]

/-- the model's stop test (nothing left in `_playing`, nothing in `_not_playing`) is the
    property's: every logged event is over -/
theorem stop_iff {n : Nat} (started pend : List (SEv α)) (q' : List (Rat × List α))
    (hs : ∀ e ∈ started, e.start ≤ n) (hl : ∀ e ∈ pend, n < e.start) (hlen : q'.length = pend.length) :
    ((started.filterMap (act (n + 1))).isEmpty = true ∧ q'.isEmpty = true) ↔
      ∀ e ∈ started ++ pend, e.doneAt n := by
  constructor
  · rintro ⟨h1, h2⟩ e he
    have hq : q' = [] := List.isEmpty_iff.1 h2
    have hp : pend = [] := by
      rw [hq] at hlen; exact List.eq_nil_of_length_eq_zero hlen.symm
    subst hp
    rw [List.append_nil] at he
    have h1' := List.isEmpty_iff.1 h1
    rw [List.filterMap_eq_nil_iff] at h1'
    have := h1' e he
    have hes := hs e he
    unfold act at this
    unfold SEv.doneAt
    by_contra hcon
    rw [if_pos ⟨by omega, by omega⟩] at this
    exact absurd this (by simp)
  · intro h
    have hp : pend = [] := by
      cases pend with
      | nil => rfl
      | cons e es =>
        have h1 := h e (by simp)
        have h2 := hl e (by simp)
        unfold SEv.doneAt at h1
        omega
    subst hp
    refine ⟨?_, ?_⟩
    · rw [List.isEmpty_iff, List.filterMap_eq_nil_iff]
      intro e he
      have := h e (by simp [he])
      unfold SEv.doneAt at this
      unfold act
      rw [if_neg (by omega)]
    · rw [List.isEmpty_iff]
      exact List.eq_nil_of_length_eq_zero (by simpa using hlen)

/-! ### the simulation -/

/-- coupling of a live model state with the spec's log: the started events are a prefix `old` of
    the log, `_playing` holds what is left of those not yet removed, `_not_playing` is the rest of
    the log, and `count = n + 1/2 − (cumulative time of the started events)`. -/
structure Live (m : MState α) (s : SState α) : Prop where
  ended : m.ended = false
  dead : s.dead = false
  keep : m.keep = s.keep
  split : ∃ (old pend : List (SEv α)) (Tst : Rat),
    s.evs = old ++ pend ∧ (∀ e ∈ old, e.start < s.n) ∧
    m.playing = old.filterMap (act s.n) ∧ QueueOK s.n s.T Tst m.notPlaying pend ∧
    m.count = (s.n : Rat) + 1/2 - Tst

def Sim (m : MState α) (s : SState α) : Prop :=
  (m.ended = true ∧ s.dead = true) ∨ Live m s

theorem sim_init (keep : Bool) : Sim (MState.init keep : MState α) (SState.init keep) := by
  refine Or.inr ⟨rfl, rfl, rfl, [], [], 0, rfl, by simp, rfl, ?_, ?_⟩
  · simp [MState.init, SState.init, QueueOK]
  · simp [MState.init, SState.init]

theorem mnext_live [Add α] (zero : α) (m : MState α) (hm : m.ended = false)
    {c : Rat} {q' : List (Rat × List α)} {pl' pl'' : List (List α)} {v : α}
    (h1 : startLoop m.count m.notPlaying m.playing = (c, q', pl')) (h2 : poll zero pl' = (v, pl'')) :
    mnext zero m =
      if m.keep = false ∧ pl''.isEmpty = true ∧ q'.isEmpty = true then
        ({ m with count := c, notPlaying := q', playing := pl'', ended := true }, .stop)
      else
        ({ m with count := c + 1, notPlaying := q', playing := pl'' },
         .out v (m.notPlaying.length - q'.length)) := by
  simp only [mnext, hm, h1, h2]
  rfl

theorem next_sim [Add α] (zero : α) (m : MState α) (s : SState α) (h : Live m s) :
    (mnext zero m).2 = (sstep zero s .next).2 ∧ Sim (mnext zero m).1 (sstep zero s .next).1 := by
  obtain ⟨hm, hs, hk, old, pend, Tst, hevs, hold, hplay, hq, hcount⟩ := h
  obtain ⟨popped, pend', Tst', q', hp, hpn, hrun, hq', hlate, hlen⟩ :=
    startLoop_spec m.notPlaying pend Tst m.playing hq
  have hstarted : ∀ e ∈ old ++ popped, e.start ≤ s.n := by
    intro e he
    rcases List.mem_append.1 he with h' | h'
    · exact Nat.le_of_lt (hold e h')
    · exact Nat.le_of_eq (hpn e h')
  have hpl : m.playing ++ popped.map (·.data) = (old ++ popped).filterMap (act s.n) := by
    rw [List.filterMap_append, filterMap_act_popped popped hpn, hplay]
  have hpoll := poll_filterMap s.n (old ++ popped) hstarted zero
  rw [← hcount, hpl] at hrun
  have hmn := mnext_live zero m hm hrun hpoll
  have hevs' : s.evs = (old ++ popped) ++ pend' := by rw [hevs, hp, List.append_assoc]
  have hqlen := queueOK_length q' pend' Tst' hq'
  have hstop := stop_iff (old ++ popped) pend' q' hstarted hlate hqlen
  rw [← hevs'] at hstop
  have hout := outAt_split zero (old ++ popped) pend' hlate
  rw [← hevs'] at hout
  have hcnt := countP_start old popped pend' hold hpn hlate
  rw [← hevs'] at hcnt
  rw [hmn]
  simp only [sstep, hs]
  by_cases hstopm : m.keep = false ∧
      ((old ++ popped).filterMap (act (s.n + 1))).isEmpty = true ∧ q'.isEmpty = true
  · have hstops : s.keep = false ∧ ∀ e ∈ s.evs, e.doneAt s.n :=
      ⟨hk ▸ hstopm.1, hstop.1 hstopm.2⟩
    rw [if_pos hstopm]
    simp only [Bool.false_eq_true, if_false, if_pos hstops]
    exact ⟨trivial, Or.inl ⟨rfl, rfl⟩⟩
  · have hstops : ¬ (s.keep = false ∧ ∀ e ∈ s.evs, e.doneAt s.n) := by
      rintro ⟨h1, h2⟩
      exact hstopm ⟨hk ▸ h1, hstop.2 h2⟩
    rw [if_neg hstopm]
    simp only [Bool.false_eq_true, if_false, if_neg hstops]
    refine ⟨?_, Or.inr ⟨hm, rfl, hk, old ++ popped, pend', Tst', hevs', ?_, rfl, hq', ?_⟩⟩
    · rw [hout, hcnt]
      congr 1
      omega
    · intro e he
      exact Nat.lt_succ_of_le (hstarted e he)
    · show (s.n : Rat) + 1/2 - Tst' + 1 = ((s.n + 1 : Nat) : Rat) + 1/2 - Tst'
      push_cast
      ring

theorem step_sim [Add α] (zero : α) (m : MState α) (s : SState α) (h : Sim m s) (op : Op α) :
    (mstep zero m op).2 = (sstep zero s op).2 ∧ Sim (mstep zero m op).1 (sstep zero s op).1 := by
  cases op with
  | add d x =>
    by_cases hd : d < 0
    · simp only [mstep, madd, sstep, if_pos hd]
      exact ⟨trivial, h⟩
    · simp only [mstep, madd, sstep, if_neg hd]
      refine ⟨trivial, ?_⟩
      rcases h with h | h
      · exact Or.inl h
      · obtain ⟨hm, hs, hk, old, pend, Tst, hevs, hold, hplay, hq, hcount⟩ := h
        refine Or.inr ⟨hm, hs, hk, old, pend ++ [⟨startTime (s.T + d) s.n, x⟩], Tst, ?_, hold, hplay, ?_, hcount⟩
        · show s.evs ++ _ = _
          rw [hevs, List.append_assoc]
        · exact queueOK_append d x (le_of_not_gt hd) _ _ _ hq
  | setKeep b =>
    simp only [mstep, sstep]
    refine ⟨trivial, ?_⟩
    rcases h with h | h
    · exact Or.inl h
    · obtain ⟨hm, hs, _, hsplit⟩ := h
      exact Or.inr ⟨hm, hs, rfl, hsplit⟩
  | next =>
    rcases h with h | h
    · simp only [mstep, mnext, sstep, h.1, h.2, if_true]
      exact ⟨trivial, Or.inl h⟩
    · exact next_sim zero m s h

/-- running a whole history: same observations, related end states -/
theorem run_sim [Add α] (zero : α) : ∀ (ops : List (Op α)) (m : MState α) (s : SState α), Sim m s →
    (mrun zero m ops).2 = (srun zero s ops).2 ∧ Sim (mrun zero m ops).1 (srun zero s ops).1
  | [], _, _, h => ⟨rfl, h⟩
  | op :: ops, m, s, h => by
    have h1 := step_sim zero m s h op
    have h2 := run_sim zero ops _ _ h1.2
    simp only [mrun, srun]
    exact ⟨by rw [h1.1, h2.1], h2.2⟩

end ALV.C16
