/-
  C17 — the chunk SPECIFICATION `chunksSpec` (`groups` of `padded`) is the only sequence of chunks of
  exactly `cs` samples whose concatenation is the audio followed by the zero padding; and what a
  `pull` step of the fine system is.  Core Lean only.
-/
import ALV.Lemmas.C17Chunks
import ALV.Model.C17Fine
namespace ALV.C17

/-- a list of chunks of exactly `cs` samples IS the grouping of its concatenation -/
theorem groups_unique (cs : Nat) (hs : 0 < cs) : ∀ (l : List (List Int)),
    (∀ c ∈ l, c.length = cs) → groups cs l.flatten = l := by
  intro l
  induction l with
  | nil => intro _; simp [groups_nil]
  | cons c l ih =>
    intro hl
    have hc : c.length = cs := hl c List.mem_cons_self
    have hl' : ∀ d ∈ l, d.length = cs := fun d hd => hl d (List.mem_cons_of_mem _ hd)
    rw [groups]
    have hne : ¬ ((c :: l).flatten = [] ∨ cs = 0) := by
      intro h; rcases h with h | h
      · have := congrArg List.length h
        simp only [List.flatten_cons, List.length_append, List.length_nil] at this
        omega
      · omega
    rw [dif_neg hne]
    simp only [List.flatten_cons]
    rw [List.take_left' hc, List.drop_left' hc, ih hl']

/-- prefixes: chunks of exactly `cs` samples whose concatenation is a prefix of `ys` (a whole number
    of chunks) are the first groups of `ys` -/
theorem groups_prefix (cs : Nat) (hs : 0 < cs) : ∀ (l : List (List Int)) (ys : List Int),
    (∀ c ∈ l, c.length = cs) → l.flatten <+: ys → l <+: groups cs ys := by
  intro l
  induction l with
  | nil => intro ys _ _; exact List.nil_prefix
  | cons c l ih =>
    intro ys hl hp
    have hc : c.length = cs := hl c List.mem_cons_self
    have hl' : ∀ d ∈ l, d.length = cs := fun d hd => hl d (List.mem_cons_of_mem _ hd)
    obtain ⟨t, ht⟩ := hp
    rw [groups]
    have hne : ¬ (ys = [] ∨ cs = 0) := by
      intro h; rcases h with h | h
      · have := congrArg List.length ht
        rw [h] at this
        simp only [List.flatten_cons, List.length_append, List.length_nil] at this
        omega
      · omega
    rw [dif_neg hne, ← ht]
    simp only [List.flatten_cons, List.append_assoc]
    rw [List.take_left' hc, List.drop_left' hc]
    exact List.prefix_cons_inj c |>.mpr (ih _ hl' ⟨t, rfl⟩)

/-- a `pull` step: what `stepPlayerF` does when the pending operation of player `i` is a pull -/
theorem pull_step (fc : FCfg) (fs fs' : FState) (i : Nat) (p : Player) (a : Asm)
    (hp : fs.base.players[i]? = some p) (ha : fs.asm[i]? = some a)
    (hpull : pulling fs i = true) (h : stepPlayerF fc fs i = some fs') :
    (∃ x r, a.rest = x :: r ∧ fs'.base = fs.base ∧
      fs'.asm = fs.asm.set i { a with rest := r, buf := a.buf ++ [x] }) ∨
    (a.rest = [] ∧ a.fail = true ∧ fs'.asm = fs.asm ∧
      fs'.base = setP fs.base i { p with pc := if fc.dieFixed then .finAcq else .done }) := by
  unfold pulling at hpull
  rw [hp, ha] at hpull
  simp only [Bool.and_eq_true, beq_iff_eq, Bool.not_eq_true'] at hpull
  obtain ⟨hpc, hnr⟩ := hpull
  unfold stepPlayerF at h
  rw [hp, ha] at h
  simp only [hpc, hnr] at h
  cases hr : a.rest with
  | nil =>
    rw [hr] at h
    simp only [Bool.false_eq_true, if_false, Option.some.injEq] at h
    have hf : a.fail = true := by
      unfold chunkReady at hnr
      rw [hr] at hnr
      cases hfa : a.fail
      · rw [hfa] at hnr; simp at hnr
      · rfl
    exact Or.inr ⟨rfl, hf, by rw [← h], by rw [← h]⟩
  | cons x r =>
    rw [hr] at h
    simp only [Bool.false_eq_true, if_false, Option.some.injEq] at h
    exact Or.inl ⟨x, r, rfl, by rw [← h], by rw [← h]⟩

/-- a pull is always possible -/
theorem pull_enabled (fc : FCfg) (fs : FState) (i : Nat) (hpull : pulling fs i = true) :
    enabledF fc fs (.player i) = true := by
  unfold pulling at hpull
  unfold enabledF stepF stepPlayerF
  cases hp : fs.base.players[i]? with
  | none => rw [hp] at hpull; simp at hpull
  | some p =>
    cases ha : fs.asm[i]? with
    | none => rw [hp, ha] at hpull; simp at hpull
    | some a =>
      rw [hp, ha] at hpull
      simp only [Bool.and_eq_true, beq_iff_eq, Bool.not_eq_true'] at hpull
      simp only [hp, ha, hpull.1, hpull.2]
      cases a.rest <;> simp

end ALV.C17
