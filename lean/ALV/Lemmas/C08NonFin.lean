/-
  C08 — the generic-index loop over `XRat` (a non-finite float hop) against `nonFinTable`.
  Core Lean only.
-/
import ALV.Lemmas.C08Table
namespace ALV.C08
variable {α : Type}

theorem xrat_fin_succ (k : Nat) : XRat.fin ((k + 1 : Nat) : Rat) = XRat.fin (k : Rat) + 1 := by
  show XRat.fin _ = XRat.fin ((k : Rat) + 1)
  rw [natCast_succ_rat]

theorem xrat_fin_not_neg (k : Nat) : ¬ (XRat.fin (k : Rat) < 0) := by
  show ¬ (decide ((k : Rat) < 0) = true)
  have : ¬ ((k : Rat) < 0) := by grind
  simp [this]

theorem xrat_sizeMinus_succ (k : NonFin) : XRat.sizeMinus k + 1 = XRat.sizeMinus k := by
  cases k <;> rfl

theorem xrat_sizeMinus_not_lt_self (k : NonFin) : ¬ (XRat.sizeMinus k < XRat.sizeMinus k) := by
  cases k <;> decide

theorem xrat_sizeMinus_ne_fin (k : NonFin) (q : Rat) : XRat.sizeMinus k ≠ XRat.fin q := by
  cases k <;> intro h <;> cases h

/-- the first window over `XRat`: fewer than `size` items go into the deque, index = their number -/
theorem gloopEvX_first (size : Nat) (r : XRat) (rInt : Bool) (xs : List α) (h : xs.length < size ∨ size = 0) :
    gloopEv size (XRat.fin ((size : Rat) - 1)) r rInt (⟨[], 0, true⟩ : GState XRat α) 0 xs =
      ([], ⟨pushAll size [] xs, XRat.fin (xs.length : Rat), true⟩) := by
  have := gloopEv_quietG size (XRat.fin ((size : Rat) - 1)) r rInt (fun k : Nat => XRat.fin (k : Rat)) xrat_fin_succ xs
    (⟨[], 0, true⟩ : GState XRat α) 0 0 (by show XRat.fin 0 = XRat.fin ((0 : Nat) : Rat); simp) (by
      intro k _ hk
      refine ⟨xrat_fin_not_neg k, fun he => ?_⟩
      have he' : (k : Rat) = (size : Rat) - 1 := by injection he
      have h1 : ((k + 1 : Nat) : Rat) = (size : Rat) := by rw [natCast_succ_rat]; grind
      have := Rat.natCast_inj.mp h1
      omega)
  rw [this]
  simp

/-- the end of a run over `XRat` whose index is still the int `n` it started as -/
theorem gtailX_int (sz : Nat) (k : NonFin) (pad : α) (res : List α) (n : Nat) :
    gtail sz (XRat.sizeMinus k) XRat.toN pad (⟨res, XRat.fin (n : Rat), true⟩ : GState XRat α) =
      if k = .pinf ∧ 0 < n then GTail.block (padTo sz pad res (sz - n)) else GTail.nothing := by
  have hpos : (XRat.fin 0 < XRat.fin (n : Rat)) ↔ 0 < n := by
    show (decide ((0 : Rat) < (n : Rat)) = true) ↔ 0 < n
    have : ((0 : Nat) : Rat) < (n : Rat) ↔ 0 < n := Rat.natCast_lt_natCast
    simpa using this
  unfold gtail
  cases k with
  | pinf =>
    have h1 : XRat.sizeMinus .pinf < XRat.fin (n : Rat) := by
      show XRat.ltb .ninf (.fin _) = true
      rfl
    by_cases hn : 0 < n
    · have hc : XRat.sizeMinus .pinf < XRat.fin (n : Rat) ∧ (0 : XRat) < XRat.fin (n : Rat) := ⟨h1, hpos.mpr hn⟩
      rw [if_pos hc]
      simp only [if_true, XRat.toN, natCast_floor_toNat, hn, and_self]
    · have hc : ¬ (XRat.sizeMinus .pinf < XRat.fin (n : Rat) ∧ (0 : XRat) < XRat.fin (n : Rat)) :=
        fun h => hn (hpos.mp h.2)
      rw [if_neg hc]
      simp [hn]
  | ninf =>
    have hc : ¬ (XRat.sizeMinus .ninf < XRat.fin (n : Rat) ∧ (0 : XRat) < XRat.fin (n : Rat)) := by
      intro h
      have h1 : XRat.ltb .pinf (.fin (n : Rat)) = true := h.1
      simp [XRat.ltb] at h1
    rw [if_neg hc]
    simp
  | nan =>
    have hc : ¬ (XRat.sizeMinus .nan < XRat.fin (n : Rat) ∧ (0 : XRat) < XRat.fin (n : Rat)) := by
      intro h
      have h1 : XRat.ltb .nan (.fin (n : Rat)) = true := h.1
      simp [XRat.ltb] at h1
    rw [if_neg hc]
    simp

/-- a non-finite hop: the table -/
theorem grunX_table (sz : Nat) (k : NonFin) (pad : α) (xs : List α) (e : Ending) :
    grun sz (XRat.fin ((sz : Rat) - 1)) (XRat.sizeMinus k) false XRat.toN pad xs e = nonFinTable sz k pad xs e := by
  unfold nonFinTable
  by_cases hsz : sz = 0
  · rw [if_pos hsz]
    unfold grun
    rw [gloopEvX_first sz _ false xs (Or.inr hsz)]
    have hp : pushAll sz ([] : List α) xs = [] := by
      subst hsz
      rw [pushAll_eq 0 xs [] (by simp)]; simp [lastSz]
    cases e with
    | fail => rfl
    | stop =>
      simp only [gtailX_int, hp, finish]
      by_cases hc : k = .pinf ∧ 0 < xs.length
      · rw [if_pos hc, decide_eq_true hc]
        subst hsz
        simp only [if_true, Nat.zero_sub, padTo, List.nil_append]
      · rw [if_neg hc, decide_eq_false hc]
        simp only [Bool.false_eq_true, if_false]
  · rw [if_neg hsz]
    by_cases hn : xs.length < sz
    · unfold grun
      rw [gloopEvX_first sz _ false xs (Or.inl hn), pushAll_nil_short sz xs (by omega)]
      have hle : ¬ sz ≤ xs.length := by omega
      rw [if_neg hle]
      cases e with
      | fail => rfl
      | stop =>
        simp only [gtailX_int, finish]
        by_cases hc : k = .pinf ∧ 0 < xs.length
        · have hc2 : k = .pinf ∧ 0 < xs.length ∧ xs.length < sz := ⟨hc.1, hc.2, hn⟩
          rw [if_pos hc, decide_eq_true hc2]
          simp only [if_true, padTo_short sz pad xs (by omega), List.nil_append]
        · have hc2 : ¬ (k = .pinf ∧ 0 < xs.length ∧ xs.length < sz) := fun h => hc ⟨h.1, h.2.1⟩
          rw [if_neg hc, decide_eq_false hc2]
          simp only [Bool.false_eq_true, if_false]
    · obtain ⟨a, x, rest, hx, ha⟩ : ∃ a x rest, xs = a ++ x :: rest ∧ a.length + 1 = sz := by
        have hlt : sz - 1 < xs.length := by omega
        refine ⟨xs.take (sz - 1), xs[sz - 1], xs.drop sz, ?_, ?_⟩
        · have h := (List.take_append_drop (sz - 1) xs).symm
          rw [List.drop_eq_getElem_cons hlt] at h
          have e : sz - 1 + 1 = sz := by omega
          rw [e] at h
          exact h
        · simp only [List.length_take]; omega
      subst ha
      subst hx
      have hle : a.length + 1 ≤ (a ++ x :: rest).length := by
        simp only [List.length_append, List.length_cons]; omega
      have htake : (a ++ x :: rest).take (a.length + 1) = a ++ [x] := by
        rw [List.take_append, List.take_of_length_le (by omega)]; simp
      rw [if_pos hle, htake]
      have hph1 := gloopEvX_first (a.length + 1) (XRat.sizeMinus k) false a (Or.inl (by omega))
      rw [pushAll_nil_short (a.length + 1) a (by omega)] at hph1
      have hst : gstep (a.length + 1) (XRat.fin (((a.length + 1 : Nat) : Rat) - 1)) (XRat.sizeMinus k) false
          (⟨a, XRat.fin (a.length : Rat), true⟩ : GState XRat α) x =
          (⟨a ++ [x], XRat.sizeMinus k, false⟩, some (a ++ [x])) := by
        have h1 : ¬ (XRat.fin (a.length : Rat) < 0) := xrat_fin_not_neg _
        have h2 : XRat.fin (a.length : Rat) = XRat.fin (((a.length + 1 : Nat) : Rat) - 1) := by
          congr 1; rw [natCast_succ_rat]; grind
        have hd : dqPush (a.length + 1) a x = a ++ [x] := by simp [dqPush]
        simp only [gstep, if_neg h1, if_pos h2, hd]
      have hno := gloopEv_noYieldG (a.length + 1) (XRat.fin (((a.length + 1 : Nat) : Rat) - 1)) (XRat.sizeMinus k) false
        (fun _ : Nat => XRat.sizeMinus k) (fun _ => (xrat_sizeMinus_succ k).symm) rest
        (⟨a ++ [x], XRat.sizeMinus k, false⟩ : GState XRat α) (a.length + 1) 0 rfl
        (fun _ _ _ => Or.inr (xrat_sizeMinus_ne_fin k _))
      obtain ⟨n1, n2, n3⟩ := hno
      unfold grun
      rw [gloopEv_appendG, hph1]
      simp only [gloopEv, hst, n1, Option.toList_some, List.map_cons, List.map_nil, List.nil_append,
        List.append_nil, Nat.zero_add]
      cases e with
      | fail => rfl
      | stop =>
        have hc : ¬ (XRat.sizeMinus k < XRat.sizeMinus k ∧ (0 : XRat) < XRat.sizeMinus k) :=
          fun h => xrat_sizeMinus_not_lt_self k h.1
        have hc2 : ¬ (k = .pinf ∧ 0 < (a ++ x :: rest).length ∧ (a ++ x :: rest).length < a.length + 1) := by
          intro h; omega
        simp only [gtail, n2, if_neg hc, finish, decide_eq_false hc2, Bool.false_eq_true, if_false]

end ALV.C08
