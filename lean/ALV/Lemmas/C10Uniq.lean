/-
  C10 — helper lemmas, part 10: uniqueness.  When the recursion reaches order p (all divisors
  E_0..E_{p-1} non-zero) the monic order-p solution of the normal equations is unique: the
  backward predictors B_1..B_p of the passes form a unit-triangular family whose images under the
  Toeplitz matrix are triangular with diagonal E_0..E_{p-1}.
-/
import ALV.Lemmas.C10LevErr

namespace ALV.C10
open Finset
variable {K : Type} [Field K] [DecidableEq K]

/-- every intermediate order was reached, with a non-zero prediction error below the last -/
theorem levIter_prefix {r : List K} {p : ℕ} {A : List K} (h : levIter r p = .ok A) (m : ℕ)
    (hm : m ≤ p) : ∃ Am, levIter r m = .ok Am ∧ (m < p → inner r Am Am ≠ 0) := by
  cases hAm : levIter r m with
  | error e =>
    rw [levIter_error_mono r m p e hAm hm] at h; cases h
  | ok Am =>
    refine ⟨Am, rfl, fun hlt h0 => ?_⟩
    rw [levIter_error_of_zero hAm h0 hlt] at h; cases h

omit [DecidableEq K] in
theorem Nf_extend (r : List K) (c : ℕ → K) (n n' i : ℕ) (hn : n ≤ n') (hc : ∀ j, n ≤ j → c j = 0) :
    Nf r c n' i = Nf r c n i := by
  unfold Nf
  symm
  refine Finset.sum_subset (Finset.range_mono hn) fun j _ hj => ?_
  rw [hc j (by simpa using hj), zero_mul]

/-- the backward predictor of pass m+1 under the Toeplitz matrix: zero in rows 1..m, `E_m` in
    row m+1 -/
theorem Nf_revShift {r : List K} {m : ℕ} {A : List K} (h : LevInv r m A) (n : ℕ) (hn : m + 2 ≤ n)
    (i : ℕ) (hi : i ≤ m + 1) :
    Nf r (coef (revShift (m + 1) A)) n i = Nf r (coef A) (m + 1) (m + 1 - i) := by
  rw [Nf_extend r _ (m + 2) n i hn (fun j hj => coef_of_length_le _ j ((revShift_length _ _).trans hj)),
    Nf_reflect r (m + 1) (coef A) _ (fun j hj => by rw [coef_revShift, if_pos hj]) i hi,
    Nf_succ_of_zero _ _ _ _ (h.coef_top _ le_rfl)]

/-- a difference of two monic solutions vanishes -/
theorem yuleWalker_diff_zero {r : List K} {p : ℕ} {A : List K} (hA : levIter r p = .ok A)
    (d : ℕ → K) (hd0 : d 0 = 0) (hdtop : ∀ j, p < j → d j = 0)
    (hd : ∀ i, 1 ≤ i → i ≤ p → Nf r d (p + 1) i = 0) : ∀ j, d j = 0 := by
  -- downward induction: d vanishes above p - k
  have key : ∀ k, k ≤ p → ∀ j, p - k < j → d j = 0 := by
    intro k
    induction k with
    | zero => intro _ j hj; exact hdtop j (by omega)
    | succ k ih =>
      intro hk j hj
      have ih' := ih (by omega)
      by_cases hj' : p - k < j
      · exact ih' j hj'
      · -- j = p - k = m + 1
        obtain ⟨m, hm⟩ : ∃ m, j = m + 1 := ⟨j - 1, by omega⟩
        have hmp : m < p := by omega
        obtain ⟨Am, hAm, hE⟩ := levIter_prefix hA m (by omega)
        have hinv := levIter_inv r m Am hAm
        have hE' : Nf r (coef Am) (m + 1) 0 ≠ 0 := by rw [← hinv.inner_self]; exact hE hmp
        set c := coef (revShift (m + 1) Am) with hc
        have hc0 : c 0 = 0 := by
          rw [hc, coef_revShift, if_pos (by omega)]; exact hinv.coef_top _ (by omega)
        -- Σ_i c_i N(d,i) = 0
        have h1 : bilT r (p + 1) c d = 0 := by
          rw [bilT_eq_sum_Nf]
          refine Finset.sum_eq_zero fun i hi => ?_
          have hi' : i ≤ p := by simpa [Nat.lt_succ_iff] using hi
          rcases Nat.eq_zero_or_pos i with h0 | h0
          · subst h0; rw [hc0, zero_mul]
          · rw [hd i h0 hi', mul_zero]
        -- Σ_i d_i N(c,i) = d_{m+1} E_m
        rw [bilT_symm, bilT_eq_sum_Nf, Finset.sum_eq_single (m + 1)] at h1
        · rw [Nf_revShift hinv (p + 1) (by omega) (m + 1) le_rfl, Nat.sub_self] at h1
          rw [hm]
          exact (mul_eq_zero.1 h1).resolve_right hE'
        · intro i hi hne
          have hi' : i ≤ p := by simpa [Nat.lt_succ_iff] using hi
          rcases Nat.lt_or_gt_of_ne hne with hlt | hgt
          · rcases Nat.eq_zero_or_pos i with h0 | h0
            · subst h0; rw [hd0, zero_mul]
            · rw [Nf_revShift hinv (p + 1) (by omega) i (by omega),
                hinv.ne (m + 1 - i) (by omega) (by omega), mul_zero]
          · rw [ih' i (by omega), zero_mul]
        · intro hnot; exact absurd (by simp; omega) hnot
  intro j
  rcases Nat.eq_zero_or_pos j with h0 | h0
  · subst h0; exact hd0
  · exact key p le_rfl j (by omega)

end ALV.C10
