/-
  C19 — lemmas about the operation-generic generators of `ALV/Model/C19Float.lean`:
    * over the exact operations (`fieldOps`) they ARE the model of `ALV/Model/C19.lean`
      (`mcG_field`) resp. the specification (`lineG_field`, `constG_field`, `impulseG_field`);
    * over ANY operations every output of every path of `modulo_counter` is a double
      reduction `y % m % m` (`mcG_double`);
    * Python's float `%` with any monotone rounding of its single inexact addition: one
      reduction lands in the closed range `[0, m]`, two reductions in `[0, m)` (`fmodR_*`).
-/
import ALV.Model.C19Float
import ALV.Lemmas.C19Shapes

namespace ALV.C19
set_option linter.unusedSectionVars false

/-! ## the generic definitions over the exact operations are the model -/
section Exact
variable {α : Type} [Add α] [Sub α] [Mul α] [Div α] [Neg α] [OfNat α 0] [OfNat α 1]
  [IntCast α] [Floor α] [DecidableEq α] [LT α] [DecidableLT α]

@[simp] theorem mod2G_field (a m : α) : mod2G fieldOps a m = .ok (mod2 a m) := rfl
@[simp] theorem fieldOps_add (a b : α) : (fieldOps (α := α)).add a b = a + b := rfl
@[simp] theorem fieldOps_sub (a b : α) : (fieldOps (α := α)).sub a b = a - b := rfl
@[simp] theorem fieldOps_mul (a b : α) : (fieldOps (α := α)).mul a b = a * b := rfl
@[simp] theorem fieldOps_div (a b : α) : (fieldOps (α := α)).div a b = a / b := rfl
@[simp] theorem fieldOps_neg (a : α) : (fieldOps (α := α)).neg a = -a := rfl
@[simp] theorem fieldOps_ofInt (z : Int) : (fieldOps (α := α)).ofInt z = (z : α) := rfl
@[simp] theorem fieldOps_zero : (fieldOps (α := α)).zero = 0 := rfl
@[simp] theorem fieldOps_one : (fieldOps (α := α)).one = 1 := rfl
@[simp] theorem fieldOps_half : (fieldOps (α := α)).half = half := rfl
@[simp] theorem fieldOps_trunc (a : α) : (fieldOps (α := α)).trunc a = .ok (pyInt a) := rfl
@[simp] theorem fieldOps_isZero (a : α) : (fieldOps (α := α)).isZero a = decide (a = 0) := rfl
@[simp] theorem fieldOps_isInf (a : α) : (fieldOps (α := α)).isInf a = false := rfl
@[simp] theorem fieldOps_le (a b : α) : (fieldOps (α := α)).le a b = decide (¬ b < a) := rfl

theorem gPMS_field (k : Nat) (c lp : α) (ps ms ss : List α) :
    gPMS fieldOps k c lp ps ms ss = ((loopPMS c lp ps ms ss).take k, none) := by
  induction k generalizing c lp ps ms ss with
  | zero => simp [gPMS]
  | succ k ih =>
    rcases ps with _ | ⟨p, ps⟩ <;> rcases ms with _ | ⟨m, ms⟩ <;> rcases ss with _ | ⟨s, ss⟩ <;>
      simp [gPMS, loopPMS, rcons, ih]

theorem gPS_field (m : α) (k : Nat) (c lp : α) (ps ss : List α) :
    gPS fieldOps m k c lp ps ss = ((loopPS m c lp ps ss).take k, none) := by
  induction k generalizing c lp ps ss with
  | zero => simp [gPS]
  | succ k ih =>
    rcases ps with _ | ⟨p, ps⟩ <;> rcases ss with _ | ⟨s, ss⟩ <;>
      simp [gPS, loopPS, rcons, ih]

theorem gPM_field (s : α) (k : Nat) (c lp : α) (ps ms : List α) :
    gPM fieldOps s k c lp ps ms = ((loopPM s c lp ps ms).take k, none) := by
  induction k generalizing c lp ps ms with
  | zero => simp [gPM]
  | succ k ih =>
    rcases ps with _ | ⟨p, ps⟩ <;> rcases ms with _ | ⟨m, ms⟩ <;>
      simp [gPM, loopPM, rcons, ih]

theorem gP0_field (m : α) (k : Nat) (ps : List α) :
    gP0 fieldOps m k ps = ((loopP0 m ps).take k, none) := by
  induction k generalizing ps with
  | zero => simp [gP0]
  | succ k ih =>
    rcases ps with _ | ⟨p, ps⟩ <;> simp [gP0, loopP0, rcons, ih]

theorem gFastP_field (m s : α) (steps : Int) (k : Nat) (c lp : α) (n : Int) (ps : List α) :
    gFastP fieldOps m s steps k c lp n ps = ((fastP m s steps c lp n ps).take k, none) := by
  induction k generalizing c lp n ps with
  | zero => simp [gFastP]
  | succ k ih =>
    rcases ps with _ | ⟨p, ps⟩
    · simp [gFastP, fastP]
    · simp only [gFastP, fastP, mod2G_field]
      split <;> simp [rcons, ih]

theorem gP_field (m s : α) (k : Nat) (c lp : α) (ps : List α) :
    gP fieldOps m s k c lp ps = ((loopP m s c lp ps).take k, none) := by
  induction k generalizing c lp ps with
  | zero => simp [gP]
  | succ k ih =>
    rcases ps with _ | ⟨p, ps⟩ <;> simp [gP, loopP, rcons, ih]

theorem gMS_field (k : Nat) (c : α) (ms ss : List α) :
    gMS fieldOps k c ms ss = ((loopMS c ms ss).take k, none) := by
  induction k generalizing c ms ss with
  | zero => simp [gMS]
  | succ k ih =>
    rcases ms with _ | ⟨m, ms⟩ <;> rcases ss with _ | ⟨s, ss⟩ <;>
      simp [gMS, loopMS, rcons, ih]

theorem gS_field (m : α) (k : Nat) (c : α) (ss : List α) :
    gS fieldOps m k c ss = ((loopS m c ss).take k, none) := by
  induction k generalizing c ss with
  | zero => simp [gS]
  | succ k ih =>
    rcases ss with _ | ⟨s, ss⟩ <;> simp [gS, loopS, rcons, ih]

theorem gM_field (s : α) (k : Nat) (c : α) (ms : List α) :
    gM fieldOps s k c ms = ((loopM s c ms).take k, none) := by
  induction k generalizing c ms with
  | zero => simp [gM]
  | succ k ih =>
    rcases ms with _ | ⟨m, ms⟩ <;> simp [gM, loopM, rcons, ih]

theorem gFastN_field (m s : α) (steps : Int) (k : Nat) (c : α) (n : Int) :
    gFastN fieldOps m s steps k c n = (fastN m s steps k c n, none) := by
  induction k generalizing c n with
  | zero => simp [gFastN, fastN]
  | succ k ih =>
    simp only [gFastN, fastN, mod2G_field]
    split <;> simp [rcons, ih]

theorem gN_field (m s : α) (k : Nat) (c : α) :
    gN fieldOps m s k c = (loopN m s k c, none) := by
  induction k generalizing c with
  | zero => simp [gN, loopN]
  | succ k ih => simp [gN, loopN, rcons, ih]

/-- the operation-generic `modulo_counter` over the exact operations is the model, and raises
    nothing -/
theorem mcG_field (A M S : Arg α) (n : Nat) :
    mcG fieldOps A M S n = (moduloCounter A M S n, none) := by
  rcases A with a | ps <;> rcases M with m | ms <;> rcases S with s | ss <;>
    simp only [mcG, moduloCounter, gPMS_field, gPS_field, gPM_field, gMS_field, gS_field, gM_field,
      fieldOps_zero]
  · -- numbers only
    by_cases h : s = 0
    · simp [h]
    · simp only [fieldOps_isZero, h, decide_false, Bool.false_eq_true, if_false, fieldOps_trunc,
        fieldOps_div]
      split <;> simp [gFastN_field, gN_field]
  · by_cases h : s = 0
    · simp [h, gP0_field]
    · simp only [fieldOps_isZero, h, decide_false, Bool.false_eq_true, if_false, fieldOps_trunc,
        fieldOps_div]
      split <;> simp [gFastP_field, gP_field]

end Exact

/-! ## every output of every path is a double reduction — for ANY number operations -/
section Double
variable {α : Type} (o : NumOps α)

/-- `x` is `y % m % m` for some `y` and a modulo `m` among `ms` -/
def IsDouble (ms : List α) (x : α) : Prop := ∃ y, ∃ m ∈ ms, mod2G o y m = .ok x

theorem IsDouble.mono {ms ms' : List α} {x : α} (h : IsDouble o ms x) (hs : ∀ m ∈ ms, m ∈ ms') :
    IsDouble o ms' x := by
  obtain ⟨y, m, hm, e⟩ := h; exact ⟨y, m, hs m hm, e⟩

theorem gPMS_double (k : Nat) (c lp : α) (ps ms ss : List α) :
    ∀ x ∈ (gPMS o k c lp ps ms ss).1, IsDouble o ms x := by
  induction k generalizing c lp ps ms ss with
  | zero => simp [gPMS]
  | succ k ih =>
    rcases ps with _ | ⟨p, ps⟩ <;> rcases ms with _ | ⟨m, ms⟩ <;> rcases ss with _ | ⟨s, ss⟩ <;>
      simp only [gPMS, List.not_mem_nil, false_imp_iff, implies_true]
    cases e : mod2G o (o.add c (o.sub p lp)) m with
    | error _ => simp
    | ok c1 =>
      simp only [rcons, List.mem_cons]
      rintro x (rfl | hx)
      · exact ⟨_, m, by simp, e⟩
      · exact (ih _ _ _ _ _ x hx).mono o (by simp +contextual)

theorem gPS_double (m : α) (k : Nat) (c lp : α) (ps ss : List α) :
    ∀ x ∈ (gPS o m k c lp ps ss).1, IsDouble o [m] x := by
  induction k generalizing c lp ps ss with
  | zero => simp [gPS]
  | succ k ih =>
    rcases ps with _ | ⟨p, ps⟩ <;> rcases ss with _ | ⟨s, ss⟩ <;>
      simp only [gPS, List.not_mem_nil, false_imp_iff, implies_true]
    cases e : mod2G o (o.add c (o.sub p lp)) m with
    | error _ => simp
    | ok c1 =>
      simp only [rcons, List.mem_cons]
      rintro x (rfl | hx)
      · exact ⟨_, m, by simp, e⟩
      · exact ih _ _ _ _ x hx

theorem gPM_double (s : α) (k : Nat) (c lp : α) (ps ms : List α) :
    ∀ x ∈ (gPM o s k c lp ps ms).1, IsDouble o ms x := by
  induction k generalizing c lp ps ms with
  | zero => simp [gPM]
  | succ k ih =>
    rcases ps with _ | ⟨p, ps⟩ <;> rcases ms with _ | ⟨m, ms⟩ <;>
      simp only [gPM, List.not_mem_nil, false_imp_iff, implies_true]
    cases e : mod2G o (o.add c (o.sub p lp)) m with
    | error _ => simp
    | ok c1 =>
      simp only [rcons, List.mem_cons]
      rintro x (rfl | hx)
      · exact ⟨_, m, by simp, e⟩
      · exact (ih _ _ _ _ x hx).mono o (by simp +contextual)

theorem gP0_double (m : α) (k : Nat) (ps : List α) :
    ∀ x ∈ (gP0 o m k ps).1, IsDouble o [m] x := by
  induction k generalizing ps with
  | zero => simp [gP0]
  | succ k ih =>
    rcases ps with _ | ⟨p, ps⟩ <;> simp only [gP0, List.not_mem_nil, false_imp_iff, implies_true]
    cases e : mod2G o p m with
    | error _ => simp
    | ok c1 =>
      simp only [rcons, List.mem_cons]
      rintro x (rfl | hx)
      · exact ⟨_, m, by simp, e⟩
      · exact ih _ x hx

theorem gFastP_double (m s : α) (steps : Int) (k : Nat) (c lp : α) (n : Int) (ps : List α) :
    ∀ x ∈ (gFastP o m s steps k c lp n ps).1, IsDouble o [m] x := by
  induction k generalizing c lp n ps with
  | zero => simp [gFastP]
  | succ k ih =>
    rcases ps with _ | ⟨p, ps⟩ <;> simp only [gFastP, List.not_mem_nil, false_imp_iff, implies_true]
    cases e : mod2G o (o.add (o.add c (o.sub p lp)) (o.mul (o.ofInt n) s)) m with
    | error _ => simp
    | ok y =>
      simp only
      split
      · cases e2 : mod2G o (o.add (o.add c (o.sub p lp)) (o.mul (o.ofInt steps) s)) m with
        | error _ =>
          simp only [List.mem_singleton]
          rintro x rfl; exact ⟨_, m, by simp, e⟩
        | ok c2 =>
          simp only [rcons, List.mem_cons]
          rintro x (rfl | hx)
          · exact ⟨_, m, by simp, e⟩
          · exact ih _ _ _ _ x hx
      · simp only [rcons, List.mem_cons]
        rintro x (rfl | hx)
        · exact ⟨_, m, by simp, e⟩
        · exact ih _ _ _ _ x hx

theorem gP_double (m s : α) (k : Nat) (c lp : α) (ps : List α) :
    ∀ x ∈ (gP o m s k c lp ps).1, IsDouble o [m] x := by
  induction k generalizing c lp ps with
  | zero => simp [gP]
  | succ k ih =>
    rcases ps with _ | ⟨p, ps⟩ <;> simp only [gP, List.not_mem_nil, false_imp_iff, implies_true]
    cases e : mod2G o (o.add c (o.sub p lp)) m with
    | error _ => simp
    | ok c1 =>
      simp only [rcons, List.mem_cons]
      rintro x (rfl | hx)
      · exact ⟨_, m, by simp, e⟩
      · exact ih _ _ _ x hx

theorem gMS_double (k : Nat) (c : α) (ms ss : List α) :
    ∀ x ∈ (gMS o k c ms ss).1, IsDouble o ms x := by
  induction k generalizing c ms ss with
  | zero => simp [gMS]
  | succ k ih =>
    rcases ms with _ | ⟨m, ms⟩ <;> rcases ss with _ | ⟨s, ss⟩ <;>
      simp only [gMS, List.not_mem_nil, false_imp_iff, implies_true]
    cases e : mod2G o c m with
    | error _ => simp
    | ok c1 =>
      simp only [rcons, List.mem_cons]
      rintro x (rfl | hx)
      · exact ⟨_, m, by simp, e⟩
      · exact (ih _ _ _ x hx).mono o (by simp +contextual)

theorem gS_double (m : α) (k : Nat) (c : α) (ss : List α) :
    ∀ x ∈ (gS o m k c ss).1, IsDouble o [m] x := by
  induction k generalizing c ss with
  | zero => simp [gS]
  | succ k ih =>
    rcases ss with _ | ⟨s, ss⟩ <;> simp only [gS, List.not_mem_nil, false_imp_iff, implies_true]
    cases e : mod2G o c m with
    | error _ => simp
    | ok c1 =>
      simp only [rcons, List.mem_cons]
      rintro x (rfl | hx)
      · exact ⟨_, m, by simp, e⟩
      · exact ih _ _ x hx

theorem gM_double (s : α) (k : Nat) (c : α) (ms : List α) :
    ∀ x ∈ (gM o s k c ms).1, IsDouble o ms x := by
  induction k generalizing c ms with
  | zero => simp [gM]
  | succ k ih =>
    rcases ms with _ | ⟨m, ms⟩ <;> simp only [gM, List.not_mem_nil, false_imp_iff, implies_true]
    cases e : mod2G o c m with
    | error _ => simp
    | ok c1 =>
      simp only [rcons, List.mem_cons]
      rintro x (rfl | hx)
      · exact ⟨_, m, by simp, e⟩
      · exact (ih _ _ x hx).mono o (by simp +contextual)

theorem gFastN_double (m s : α) (steps : Int) (k : Nat) (c : α) (n : Int) :
    ∀ x ∈ (gFastN o m s steps k c n).1, IsDouble o [m] x := by
  induction k generalizing c n with
  | zero => simp [gFastN]
  | succ k ih =>
    simp only [gFastN]
    cases e : mod2G o (o.add c (o.mul (o.ofInt n) s)) m with
    | error _ => simp
    | ok y =>
      simp only
      split
      · cases e2 : mod2G o (o.add c (o.mul (o.ofInt steps) s)) m with
        | error _ =>
          simp only [List.mem_singleton]
          rintro x rfl; exact ⟨_, m, by simp, e⟩
        | ok c2 =>
          simp only [rcons, List.mem_cons]
          rintro x (rfl | hx)
          · exact ⟨_, m, by simp, e⟩
          · exact ih _ _ x hx
      · simp only [rcons, List.mem_cons]
        rintro x (rfl | hx)
        · exact ⟨_, m, by simp, e⟩
        · exact ih _ _ x hx

theorem gN_double (m s : α) (k : Nat) (c : α) :
    ∀ x ∈ (gN o m s k c).1, IsDouble o [m] x := by
  induction k generalizing c with
  | zero => simp [gN]
  | succ k ih =>
    simp only [gN]
    cases e : mod2G o c m with
    | error _ => simp
    | ok c1 =>
      simp only [rcons, List.mem_cons]
      rintro x (rfl | hx)
      · exact ⟨_, m, by simp, e⟩
      · exact ih _ x hx

/-- every output of `modulo_counter`, whichever of the eight branches / fast paths produced it,
    is `y % m % m` for a modulo `m` the `modulo` argument delivers -/
theorem mcG_double (A M S : Arg α) (n : Nat) :
    ∀ x ∈ (mcG o A M S n).1, IsDouble o (Arg.vals M) x := by
  rcases A with a | ps <;> rcases M with m | ms <;> rcases S with s | ss <;>
    simp only [mcG, Arg.vals]
  · split
    · cases e : mod2G o a m with
      | error _ => simp
      | ok c =>
        simp only [List.mem_replicate, and_imp]
        rintro x _ rfl; exact ⟨_, m, by simp, e⟩
    · cases o.trunc (o.div m s) with
      | error _ => simp
      | ok steps =>
        simp only
        split
        · exact gFastN_double o m s steps n a 0
        · exact gN_double o m s n a
  · exact gS_double o m n a ss
  · exact gM_double o s n a ms
  · exact gMS_double o n a ms ss
  · split
    · exact gP0_double o m n ps
    · cases o.trunc (o.div m s) with
      | error _ => simp
      | ok steps =>
        simp only
        split
        · exact gFastP_double o m s steps n o.zero o.zero 0 ps
        · exact gP_double o m s n o.zero o.zero ps
  · exact gPS_double o m n o.zero o.zero ps ss
  · exact gPM_double o s n o.zero o.zero ps ms
  · exact gPMS_double o n o.zero o.zero ps ms ss

end Double

/-! ## the shapes over the exact operations are the specification (today's code: no hypothesis) -/
section Shapes
variable {K : Type} [Field K] [LinearOrder K] [IsStrictOrderedRing K] [FloorRing K]

theorem take_cons_replicate_min {β : Type} (one zero : β) (k n : Nat) :
    List.take n (one :: List.replicate (min k n) zero) = List.take n (one :: List.replicate k zero) := by
  cases n with
  | zero => simp
  | succ n =>
    simp only [List.take_succ_cons, List.take_replicate]
    congr 2; omega

theorem lineG_field (dur b e : K) (fin : Bool) (n : Nat) :
    lineG fieldOps dur b e fin n = ((lineSpec dur b e fin).take n, none) := by
  simp only [lineG, fieldOps, lineSpec, take_map_range]
  rw [pyInt_half_toNat, Nat.min_comm]
  congr 1
  apply List.map_congr_left
  intro i _
  by_cases h : dur - (if fin then 1 else 0) = 0
  · simp [h]
  · simp [h]; ring

theorem constG_field (v : K) (dur : Option K) (n : Nat) :
    constG fieldOps v dur n = (constSpec v dur n, none) := by
  cases dur with
  | none => simp [constG, constSpec]
  | some d =>
    simp only [constG, endlessG, fieldOps, Bool.false_and, Bool.false_eq_true, if_false, constSpec]
    rw [add_comm, pyInt_half_toNat, Nat.min_comm]

theorem impulseG_field {β : Type} (dur : Option K) (one zero : β) (n : Nat) :
    impulseG fieldOps dur one zero n = (impulse dur one zero n, none) := by
  cases dur with
  | none => simp [impulseG, impulse]
  | some d =>
    simp only [impulseG, endlessG, fieldOps, Bool.false_and, Bool.false_eq_true, if_false, impulse]
    by_cases h : d < half
    · simp [h]
    · simp only [h, not_false_eq_true, decide_true, if_true, if_false]
      congr 1
      exact take_cons_replicate_min one zero _ n

end Shapes

/-! ## Python's float `%` under any monotone rounding -/
section Round
variable {K : Type} [Field K] [LinearOrder K] [IsStrictOrderedRing K] [FloorRing K]

/-- C `fmod`: the remainder of the TRUNCATED division (sign of the dividend) -/
def cRem (a m : K) : K := a - m * ((pyInt (a / m) : ℤ) : K)

theorem fmodR_def (rnd : K → K) (a m : K) :
    fmodR rnd a m = if cRem a m = 0 then 0
      else if decide (m < 0) != decide (cRem a m < 0) then rnd (cRem a m + m) else cRem a m := rfl

theorem pyInt_neg_eq_ceil {x : K} (h : x < 0) : pyInt x = ⌈x⌉ := by
  simp [pyInt, h, floor_def, Int.floor_neg]

/-- for a positive divisor: `0 ≤ r < m` for a non-negative dividend, `-m < r ≤ 0` for a negative one -/
theorem cRem_pos {a m : K} (hm : 0 < m) :
    (0 ≤ a → 0 ≤ cRem a m ∧ cRem a m < m) ∧ (a < 0 → -m < cRem a m ∧ cRem a m ≤ 0) := by
  constructor
  · intro ha
    have hq : 0 ≤ a / m := div_nonneg ha hm.le
    have e : cRem a m = fmod a m := by simp [cRem, fmod_def, pyInt_of_nonneg hq]
    rw [e]; exact ⟨fmod_nonneg hm, fmod_lt hm⟩
  · intro ha
    have hq : a / m < 0 := div_neg_of_neg_of_pos ha hm
    have e : cRem a m = a - m * ((⌈a / m⌉ : ℤ) : K) := by simp [cRem, pyInt_neg_eq_ceil hq]
    have h1 : a / m ≤ ((⌈a / m⌉ : ℤ) : K) := Int.le_ceil _
    have h2 : ((⌈a / m⌉ : ℤ) : K) < a / m + 1 := Int.ceil_lt_add_one _
    have e2 : a = m * (a / m) := by field_simp
    rw [e]
    constructor
    · nlinarith
    · nlinarith

/-- one reduction, positive modulo: the CLOSED range `[0, m]` -/
theorem fmodR_closed_range (rnd : K → K) (mono : Monotone rnd) (a m : K) (hm : 0 < m)
    (h0 : rnd 0 = 0) (hmm : rnd m = m) : 0 ≤ fmodR rnd a m ∧ fmodR rnd a m ≤ m := by
  rw [fmodR_def]
  obtain ⟨hp, hn⟩ := cRem_pos (a := a) hm
  split
  · exact ⟨le_refl _, hm.le⟩
  · next hr =>
    rcases le_or_gt 0 a with ha | ha
    · obtain ⟨r0, r1⟩ := hp ha
      have : ¬ cRem a m < 0 := not_lt.mpr r0
      simp [not_lt.mpr hm.le, this, r0, r1.le]
    · obtain ⟨r0, r1⟩ := hn ha
      have hlt : cRem a m < 0 := lt_of_le_of_ne r1 hr
      simp only [not_lt.mpr hm.le, hlt, decide_false, decide_true, bne_iff_ne, ne_eq,
        Bool.false_eq_true, not_false_eq_true, if_true]
      constructor
      · have h := mono (show (0 : K) ≤ cRem a m + m by linarith)
        rw [h0] at h; exact h
      · have h := mono (show cRem a m + m ≤ m by linarith)
        rw [hmm] at h; exact h

/-- a non-negative value (e.g. one in `[0, m]`) reduced once more: `[0, m)` — no rounding happens in
    the second `% m` of `x % m % m` -/
theorem fmodR_of_nonneg (rnd : K → K) (y m : K) (hm : 0 < m) (h0 : 0 ≤ y) :
    0 ≤ fmodR rnd y m ∧ fmodR rnd y m < m := by
  rw [fmodR_def]
  obtain ⟨r0, r1⟩ := (cRem_pos (a := y) hm).1 h0
  split
  · exact ⟨le_refl _, hm⟩
  · have : ¬ cRem y m < 0 := not_lt.mpr r0
    simp [not_lt.mpr hm.le, this, r0, r1]

/-- the double reduction, positive modulo: `[0, m)` -/
theorem fmodR_double_range (rnd : K → K) (mono : Monotone rnd) (a m : K) (hm : 0 < m)
    (h0 : rnd 0 = 0) (hmm : rnd m = m) :
    0 ≤ fmodR rnd (fmodR rnd a m) m ∧ fmodR rnd (fmodR rnd a m) m < m := by
  obtain ⟨l, _⟩ := fmodR_closed_range rnd mono a m hm h0 hmm
  exact fmodR_of_nonneg rnd _ m hm l

/-- without rounding Python's `%` is the floored modulo of the model -/
theorem fmodR_id (a m : K) (hm : 0 < m) : fmodR id a m = fmod a m := by
  rw [fmodR_def]
  obtain ⟨hp, hn⟩ := cRem_pos (a := a) hm
  rcases le_or_gt 0 a with ha | ha
  · have hq : 0 ≤ a / m := div_nonneg ha hm.le
    have e : cRem a m = fmod a m := by simp [cRem, fmod_def, pyInt_of_nonneg hq]
    obtain ⟨r0, r1⟩ := hp ha
    have : ¬ cRem a m < 0 := not_lt.mpr r0
    split
    · next h => rw [← e, h]
    · have hb : (decide (m < 0) != decide (cRem a m < 0)) = false := by
        simp [not_lt.mpr hm.le, this]
      simp only [hb, Bool.false_eq_true, if_false]; exact e
  · obtain ⟨r0, r1⟩ := hn ha
    have hz : ∃ z : ℤ, cRem a m = a + z * m := ⟨-pyInt (a / m), by simp [cRem]; ring⟩
    split
    · next h =>
      obtain ⟨z, hz⟩ := hz
      have : fmod a m = fmod (cRem a m) m := by
        rw [hz]; exact (fmod_add_int_mul a m z).symm
      rw [this, h]; simp [fmod_def]
    · next hr =>
      have hlt : cRem a m < 0 := lt_of_le_of_ne r1 hr
      simp only [not_lt.mpr hm.le, hlt, decide_false, decide_true, bne_iff_ne, ne_eq,
        Bool.false_eq_true, not_false_eq_true, if_true, id]
      obtain ⟨z, hz⟩ := hz
      have e1 : fmod a m = fmod (cRem a m + m) m := by
        rw [hz]
        have : a + z * m + m = a + ((z + 1 : ℤ) : K) * m := by push_cast; ring
        rw [this]; exact (fmod_add_int_mul a m (z + 1)).symm
      rw [e1]
      exact (fmod_of_mem (by linarith) (by linarith)).symm

end Round

end ALV.C19
