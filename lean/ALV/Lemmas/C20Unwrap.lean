/-
  C20 — unwrap: the loop equals the cumulative-correction closed form; corrections are integer
  multiples of `step`; small-jump inputs are untouched; adjacent output jumps are bounded.
-/
import Mathlib.Algebra.Order.Ring.Cast
import ALV.Lemmas.C20Basic

namespace ALV.C20
variable {K : Type} [Field K] [LinearOrder K] [IsStrictOrderedRing K]
set_option linter.unusedSectionVars false

/- `uFrom` (the recursion over the accumulated correction) is defined in `ALV.Spec.C20`. -/

/-! ### the residue of least absolute value -/

theorem pymod_bounds (fl : K → K) (hf : IsFloor fl) (step d : K) (hs : 0 < step) :
    0 ≤ pymod fl d step ∧ pymod fl d step < step := by
  obtain ⟨_, h1, h2⟩ := hf (d / step)
  rw [le_div_iff₀ hs] at h1
  rw [div_lt_iff₀ hs] at h2
  unfold pymod
  constructor <;> nlinarith

/-- `d % -step` is `0` when `d % step = 0`, else `d % step - step` -/
theorem pymod_neg (fl : K → K) (hf : IsFloor fl) (step d : K) (hs : 0 < step) :
    pymod fl d (-step) = if pymod fl d step = 0 then 0 else pymod fl d step - step := by
  obtain ⟨⟨k, hk⟩, h1, h2⟩ := hf (d / step)
  obtain ⟨⟨k', hk'⟩, h1', h2'⟩ := hf (d / -step)
  have hq : d / -step = -(d / step) := by rw [div_neg]
  rw [hq] at hk' h1' h2'
  rw [hk] at h1 h2
  rw [hk'] at h1' h2'
  unfold pymod
  rw [hq, hk, hk']
  -- k' ∈ {-k-1, -k}
  have e1 : k' ≤ -k := by
    have : (k' : K) ≤ -(k : K) := by linarith
    exact_mod_cast this
  have e2 : -k - 1 ≤ k' := by
    have : -(k : K) - 1 < (k' : K) + 1 := by linarith
    have : -k - 1 < k' + 1 := by exact_mod_cast this
    omega
  by_cases hz : d - step * (k : K) = 0
  · -- d/step is the integer k, so k' = -k
    simp only [hz, if_true]
    have hqk : d / step = (k : K) := by
      have : d = step * (k : K) := by linarith
      rw [this]; field_simp
    have : -(k : K) ≤ (k' : K) := by
      rw [hqk] at h2'
      by_contra hc
      have hc' : (k' : K) < -(k : K) := not_le.mp hc
      have : k' < -k := by exact_mod_cast hc'
      have : k' + 1 ≤ -k := by omega
      have : (k' : K) + 1 ≤ -(k : K) := by exact_mod_cast this
      linarith
    have : (k' : K) = -(k : K) := le_antisymm (by exact_mod_cast e1) this
    rw [this]; linarith
  · simp only [hz, if_false]
    -- d/step is not k, so -(d/step) < -k and k' = -k-1
    have hlt : (k : K) < d / step := by
      rcases lt_or_eq_of_le h1 with h | h
      · exact h
      · exfalso; apply hz; rw [h]; field_simp; ring
    have : k' < -k := by
      have : (k' : K) < -(k : K) := by linarith
      exact_mod_cast this
    have : k' = -k - 1 := by omega
    subst this
    push_cast; ring

theorem minAbs_eq_nearRes (fl : K → K) (hf : IsFloor fl) (step d : K) (hs : 0 < step) :
    minAbs (pymod fl d step) (pymod fl d (-step)) = nearRes fl step d := by
  obtain ⟨ha0, ha1⟩ := pymod_bounds fl hf step d hs
  rw [pymod_neg fl hf step d hs]
  unfold minAbs nearRes
  simp only [absG_eq_abs]
  have e : d - step * fl (d / step) = pymod fl d step := rfl
  rw [e]
  generalize pymod fl d step = a at *
  by_cases hz : a = 0
  · subst hz; simp [not_lt.mpr hs.le]
  · have hpos : 0 < a := lt_of_le_of_ne ha0 (Ne.symm hz)
    simp only [hz, if_false]
    rw [abs_of_neg (by linarith : a - step < 0), abs_of_pos hpos]
    simp only [neg_sub]

theorem nearRes_abs_le (fl : K → K) (hf : IsFloor fl) (step d : K) (hs : 0 < step) :
    |nearRes fl step d| ≤ step / 2 := by
  obtain ⟨ha0, ha1⟩ := pymod_bounds fl hf step d hs
  unfold nearRes
  have e : d - step * fl (d / step) = pymod fl d step := rfl
  simp only [e]
  generalize pymod fl d step = a at *
  split_ifs with h
  · rw [abs_of_neg (by linarith)]; linarith
  · rw [abs_of_nonneg ha0]; linarith

theorem nearRes_sub_multiple (fl : K → K) (hf : IsFloor fl) (step d : K) :
    ∃ k : ℤ, nearRes fl step d - d = (k : K) * step := by
  obtain ⟨⟨k, hk⟩, _, _⟩ := hf (d / step)
  unfold nearRes
  simp only [hk]
  split_ifs
  · exact ⟨-k - 1, by push_cast; ring⟩
  · exact ⟨-k, by push_cast; ring⟩

theorem corr_multiple (fl : K → K) (hf : IsFloor fl) (md step d : K) :
    ∃ k : ℤ, corr fl md step d = (k : K) * step := by
  unfold corr
  split_ifs
  · exact nearRes_sub_multiple fl hf step d
  · exact ⟨0, by simp⟩

theorem sumL_corr_multiple (fl : K → K) (hf : IsFloor fl) (md step : K) (l : List K) :
    ∃ k : ℤ, sumL (l.map (corr fl md step)) = (k : K) * step := by
  induction l with
  | nil => exact ⟨0, by simp⟩
  | cons a t ih =>
    obtain ⟨k1, h1⟩ := corr_multiple fl hf md step a
    obtain ⟨k2, h2⟩ := ih
    exact ⟨k1 + k2, by simp only [List.map_cons, sumL_cons, h1, h2]; push_cast; ring⟩

/-! ### loop = recursion = closed form -/

theorem unwrapLoop_eq_uFrom (fl : K → K) (hf : IsFloor fl) (md step : K) (hs : 0 < step)
    (rest : List K) : ∀ d0 delta : K,
    unwrapLoop fl md step d0 delta rest = uFrom fl md step d0 delta rest := by
  induction rest with
  | nil => intro d0 delta; simp [unwrapLoop, uFrom]
  | cons d1 rest ih =>
    intro d0 delta
    have e : (if absG (d1 - d0) > md
        then delta + (-(d1 - d0) + minAbs (pymod fl (d1 - d0) step) (pymod fl (d1 - d0) (-step)))
        else delta) = delta + corr fl md step (d1 - d0) := by
      unfold corr
      rw [minAbs_eq_nearRes fl hf step _ hs]
      split_ifs <;> ring
    simp only [unwrapLoop, uFrom, e, ih]

theorem diffs_snoc : ∀ (l : List K) (a b : K), diffs (l ++ [a, b]) = diffs (l ++ [a]) ++ [b - a]
  | [], a, b => by simp [diffs]
  | [c], a, b => by simp [diffs]
  | c :: c' :: t, a, b => by
    have := diffs_snoc (c' :: t) a b
    simp only [List.cons_append, diffs] at this ⊢
    rw [this]

theorem uFrom_eq (fl : K → K) (md step : K) (rest : List K) : ∀ (pre : List K) (d0 : K),
    uFrom fl md step d0 (sumL ((diffs (pre ++ [d0])).map (corr fl md step))) rest =
      (List.range rest.length).map fun n =>
        rest.getD n 0 + sumL ((diffs (pre ++ [d0] ++ rest.take (n + 1))).map (corr fl md step)) := by
  induction rest with
  | nil => intro pre d0; simp [uFrom]
  | cons d1 rest ih =>
    intro pre d0
    have e : sumL ((diffs (pre ++ [d0])).map (corr fl md step)) + corr fl md step (d1 - d0) =
        sumL ((diffs ((pre ++ [d0]) ++ [d1])).map (corr fl md step)) := by
      have : pre ++ [d0] ++ [d1] = pre ++ [d0, d1] := by simp
      rw [this, diffs_snoc]; simp [sumL_append]
    simp only [uFrom, List.length_cons, List.range_succ_eq_map, List.map_cons, List.map_map]
    rw [e, ih (pre ++ [d0]) d1]
    congr 1
    simp

theorem unwrap_eq_unwrapSpec (fl : K → K) (hf : IsFloor fl) (md step : K) (hs : 0 < step)
    (xs : List K) : unwrap fl md step xs = unwrapSpec fl md step xs := by
  cases xs with
  | nil => simp [unwrap, unwrapSpec]
  | cons d0 rest =>
    have h := uFrom_eq fl md step rest [] d0
    simp only [List.nil_append, diffs, List.map_nil, sumL_nil] at h
    simp only [unwrap, unwrapSpec, unwrapLoop_eq_uFrom fl hf md step hs, sub_self, h,
      List.length_cons, List.range_succ_eq_map, List.map_cons, List.map_map]
    congr 1
    simp [diffs]

/-- the one-pass form of the specification is the closed form (no hypothesis on `fl`, `step`) -/
theorem unwrapSpecRec_eq (fl : K → K) (md step : K) (xs : List K) :
    unwrapSpecRec fl md step xs = unwrapSpec fl md step xs := by
  cases xs with
  | nil => simp [unwrapSpecRec, unwrapSpec]
  | cons d0 rest =>
    have h := uFrom_eq fl md step rest [] d0
    simp only [List.nil_append, diffs, List.map_nil, sumL_nil] at h
    simp only [unwrapSpecRec, unwrapSpec, h,
      List.length_cons, List.range_succ_eq_map, List.map_cons, List.map_map]
    congr 1
    simp [diffs]

/-! ### identity on small-jump inputs; bounded output jumps -/

theorem unwrapLoop_small (fl : K → K) (md step : K) (rest : List K) : ∀ d0 : K,
    AdjAll (fun a b => ¬ absG (b - a) > md) (d0 :: rest) →
    unwrapLoop fl md step d0 0 rest = rest := by
  induction rest with
  | nil => intro d0 _; simp [unwrapLoop]
  | cons d1 rest ih =>
    intro d0 h
    obtain ⟨h1, h2⟩ := h
    simp only [unwrapLoop, h1, if_false, add_zero]
    rw [ih d1 h2]

theorem unwrapLoop_adj (fl : K → K) (hf : IsFloor fl) (md step : K) (hs : 0 < step)
    (rest : List K) : ∀ d0 delta : K,
    AdjAll (fun y0 y1 => |y1 - y0| ≤ max md (step / 2))
      ((d0 + delta) :: unwrapLoop fl md step d0 delta rest) := by
  induction rest with
  | nil => intro d0 delta; simp [unwrapLoop, AdjAll]
  | cons d1 rest ih =>
    intro d0 delta
    simp only [unwrapLoop]
    refine ⟨?_, ih d1 _⟩
    by_cases hb : absG (d1 - d0) > md
    · simp only [hb, if_true]
      rw [minAbs_eq_nearRes fl hf step _ hs]
      have : d1 + (delta + (-(d1 - d0) + nearRes fl step (d1 - d0))) - (d0 + delta) =
          nearRes fl step (d1 - d0) := by ring
      rw [this]
      exact le_trans (nearRes_abs_le fl hf step _ hs) (le_max_right _ _)
    · simp only [hb, if_false]
      have : d1 + delta - (d0 + delta) = d1 - d0 := by ring
      rw [this, ← absG_eq_abs]
      exact le_trans (not_lt.mp hb) (le_max_left _ _)

end ALV.C20
