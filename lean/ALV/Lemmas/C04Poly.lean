/-
  C04 — `Poly(dict)` / `Poly(list)` as the code builds it (sorted inserts, zero compaction) is the
  dictionary the specification reads with plain look-ups: same look-ups, same set of powers, same
  lowest / highest power.
-/
import ALV.Lemmas.C04Sparse

set_option linter.unusedSectionVars false
set_option linter.unusedSimpArgs false
namespace ALV.C04
/- no algebraic law is used in this file: any coefficient type with a zero and decidable equality -/
variable {K : Type} [OfNat K 0] [DecidableEq K]

theorem foldl_tinsert_sorted (pairs : List (Int × K)) : ∀ (acc : Terms K),
    List.Pairwise (fun x y : Int × K => x.1 < y.1) acc →
    List.Pairwise (fun x y : Int × K => x.1 < y.1)
      (pairs.foldl (fun acc kv => tinsert kv.1 kv.2 acc) acc) := by
  induction pairs with
  | nil => intro acc h; exact h
  | cons kv r ih => intro acc h; exact ih _ (tinsert_sorted kv.1 kv.2 acc h)

theorem coefAt_cons (k j : Int) (v : K) (r : Terms K) :
    coefAt ((k, v) :: r) j = if j = k then v else coefAt r j := by
  by_cases h : j = k
  · subst h; simp [coefAt_cons_self]
  · rw [coefAt_cons_ne k j v r (fun h' => h h'.symm)]; simp [h]

theorem coefAt_tinsert (k j : Int) (v : K) (t : Terms K) :
    coefAt (tinsert k v t) j = if j = k then v else coefAt t j := by
  induction t with
  | nil => simp [tinsert, coefAt_cons, coefAt_nil]
  | cons kv' r ih =>
    obtain ⟨k', v'⟩ := kv'
    simp only [tinsert]
    split_ifs with h1 h2 h3 h4 h5
    all_goals (simp only [coefAt_cons, ih]; try split_ifs <;> first | rfl | omega)

/-- last pair with key `j` wins, else the default -/
def lastD (pairs : List (Int × K)) (j : Int) (d : K) : K :=
  match pairs.reverse.find? (fun kv => kv.1 == j) with
  | some kv => kv.2
  | none => d

theorem lastD_cons (kv : Int × K) (r : List (Int × K)) (j : Int) (d : K) :
    lastD (kv :: r) j d = lastD r j (if j = kv.1 then kv.2 else d) := by
  simp only [lastD, List.reverse_cons, List.find?_append]
  cases h : r.reverse.find? (fun kv => kv.1 == j) with
  | some x => simp
  | none =>
    by_cases hj : j = kv.1
    · simp [hj]
    · have : ¬ (kv.1 = j) := fun h' => hj h'.symm
      simp [hj, this]

theorem coefAt_foldl (pairs : List (Int × K)) (j : Int) :
    ∀ acc : Terms K, coefAt (pairs.foldl (fun acc kv => tinsert kv.1 kv.2 acc) acc) j
      = lastD pairs j (coefAt acc j) := by
  induction pairs with
  | nil => intro acc; simp [lastD]
  | cons kv r ih =>
    intro acc
    rw [List.foldl_cons, ih, coefAt_tinsert, lastD_cons]

theorem coefAt_filter (t : Terms K) (hs : List.Pairwise (fun x y : Int × K => x.1 < y.1) t) (j : Int) :
    coefAt (t.filter (fun kv => !(kv.2 == 0))) j = coefAt t j := by
  induction t with
  | nil => rfl
  | cons kv r ih =>
    obtain ⟨k, v⟩ := kv
    have hr := (List.pairwise_cons.1 hs).2
    have hgt := (List.pairwise_cons.1 hs).1
    by_cases hv : v = 0
    · subst hv
      simp only [List.filter_cons, beq_self_eq_true, Bool.not_true, Bool.false_eq_true, if_false]
      rw [ih hr, coefAt_cons]
      by_cases hj : j = k
      · subst hj
        simp only [if_true]
        exact coefAt_of_lt r j (fun kv hkv => hgt kv hkv)
      · simp [hj]
    · have : (!(v == 0)) = true := by simp [hv]
      simp only [List.filter_cons, this, if_true, coefAt_cons, ih hr]

/-- **`Poly(dict)` is the dictionary**: looking a power up in the constructed polynomial gives the
value of the last pair with that power (0 when absent or when that value is zero) -/
theorem coefAt_mkPoly (pairs : List (Int × K)) (j : Int) :
    coefAt (mkPoly pairs) j = coefLast pairs j := by
  have hs := foldl_tinsert_sorted pairs [] List.Pairwise.nil
  rw [mkPoly, coefAt_filter _ hs, coefAt_foldl, coefAt_nil]
  rfl


/-! ### the set of powers -/

def keys (t : Terms K) : List Int := t.map (·.1)

theorem coefAt_of_not_mem (t : Terms K) (k : Int) (h : k ∉ keys t) : coefAt t k = 0 := by
  induction t with
  | nil => rfl
  | cons kv r ih =>
    obtain ⟨k', v⟩ := kv
    simp only [keys, List.map_cons, List.mem_cons, not_or] at h
    rw [coefAt_cons, if_neg h.1]
    exact ih h.2

/-- in a sorted polynomial without stored zero, the stored powers are exactly those with a
non-zero coefficient -/
theorem mem_keys_iff (t : Terms K) (hs : List.Pairwise (fun x y : Int × K => x.1 < y.1) t)
    (hz : ∀ kv ∈ t, kv.2 ≠ 0) (k : Int) : k ∈ keys t ↔ coefAt t k ≠ 0 := by
  constructor
  · intro hk
    induction t with
    | nil => simp [keys] at hk
    | cons kv r ih =>
      obtain ⟨k', v⟩ := kv
      have hr := (List.pairwise_cons.1 hs).2
      have hgt := (List.pairwise_cons.1 hs).1
      rw [coefAt_cons]
      by_cases h : k = k'
      · simp only [h, if_true]; exact hz (k', v) (by simp)
      · simp only [h, if_false]
        have hk' : k ∈ keys r := by
          simp only [keys, List.map_cons, List.mem_cons] at hk
          rcases hk with hk | hk
          · exact absurd hk h
          · exact hk
        exact ih hr (fun kv hkv => hz kv (by simp [hkv])) hk'
  · intro h
    by_contra hn
    exact h (coefAt_of_not_mem t k hn)

theorem coefLast_of_not_mem (pairs : List (Int × K)) (k : Int) (h : k ∉ pairs.map (·.1)) :
    coefLast pairs k = 0 := by
  have : pairs.reverse.find? (fun kv => kv.1 == k) = none := by
    rw [List.find?_eq_none]
    intro kv hkv
    simp only [List.mem_reverse] at hkv
    intro he
    exact h (List.mem_map.2 ⟨kv, hkv, by simpa using he⟩)
  simp [coefLast, this]

theorem mem_keysNZ_iff (pairs : List (Int × K)) (k : Int) :
    k ∈ keysNZ pairs ↔ coefLast pairs k ≠ 0 := by
  simp only [keysNZ, List.mem_filter, Bool.not_eq_true', beq_eq_false_iff_ne, ne_eq]
  constructor
  · exact fun h => h.2
  · intro h
    refine ⟨?_, h⟩
    by_contra hn
    exact h (coefLast_of_not_mem pairs k hn)

/-- the constructed polynomial stores exactly the powers the specification calls non-zero -/
theorem mem_keys_mkPoly (pairs : List (Int × K)) (k : Int) :
    k ∈ keys (mkPoly pairs) ↔ k ∈ keysNZ pairs := by
  rw [mem_keys_iff _ (mkPoly_sorted pairs) (mkPoly_nonzero pairs), coefAt_mkPoly, mem_keysNZ_iff]

/-! ### lowest and highest power depend on the set of powers only -/

theorem minKey_eq_listMin (t : Terms K) : minKey t = listMin (keys t) := by
  induction t with
  | nil => rfl
  | cons kv r ih =>
    obtain ⟨k, v⟩ := kv
    simp only [minKey, keys, List.map_cons, listMin] at ih ⊢
    rw [ih]
    cases listMin (List.map (fun x => x.1) r) <;> rfl

theorem listMin_spec (l : List Int) :
    (listMin l = none ∧ l = []) ∨ (∃ p, listMin l = some p ∧ p ∈ l ∧ ∀ k ∈ l, p ≤ k) := by
  induction l with
  | nil => exact Or.inl ⟨rfl, rfl⟩
  | cons k r ih =>
    right
    rcases ih with ⟨h1, h2⟩ | ⟨p, h1, h2, h3⟩
    · subst h2; exact ⟨k, by simp [listMin], by simp, by simp⟩
    · simp only [listMin, h1]
      by_cases hlt : p < k
      · refine ⟨p, by simp [hlt], by simp [h2], ?_⟩
        intro j hj
        rcases List.mem_cons.1 hj with h | h
        · omega
        · exact h3 j h
      · refine ⟨k, by simp [hlt], by simp, ?_⟩
        intro j hj
        rcases List.mem_cons.1 hj with h | h
        · omega
        · have := h3 j h; omega

theorem listMax_spec (l : List Int) :
    (listMax l = none ∧ l = []) ∨ (∃ p, listMax l = some p ∧ p ∈ l ∧ ∀ k ∈ l, k ≤ p) := by
  induction l with
  | nil => exact Or.inl ⟨rfl, rfl⟩
  | cons k r ih =>
    right
    rcases ih with ⟨h1, h2⟩ | ⟨p, h1, h2, h3⟩
    · subst h2; exact ⟨k, by simp [listMax], by simp, by simp⟩
    · simp only [listMax, h1]
      by_cases hlt : k < p
      · refine ⟨p, by simp [hlt], by simp [h2], ?_⟩
        intro j hj
        rcases List.mem_cons.1 hj with h | h
        · omega
        · exact h3 j h
      · refine ⟨k, by simp [hlt], by simp, ?_⟩
        intro j hj
        rcases List.mem_cons.1 hj with h | h
        · omega
        · have := h3 j h; omega

theorem listMin_congr (l l' : List Int) (h : ∀ k, k ∈ l ↔ k ∈ l') : listMin l = listMin l' := by
  rcases listMin_spec l with ⟨h1, h2⟩ | ⟨p, h1, h2, h3⟩
  · rcases listMin_spec l' with ⟨h1', _⟩ | ⟨p', _, h2', _⟩
    · rw [h1, h1']
    · subst h2; exact absurd ((h p').2 h2') (by simp)
  · rcases listMin_spec l' with ⟨_, h2'⟩ | ⟨p', h1', h2', h3'⟩
    · subst h2'; exact absurd ((h p).1 h2) (by simp)
    · have a := h3 p' ((h p').2 h2')
      have b := h3' p ((h p).1 h2)
      rw [h1, h1']; congr 1; omega

theorem listMax_congr (l l' : List Int) (h : ∀ k, k ∈ l ↔ k ∈ l') : listMax l = listMax l' := by
  rcases listMax_spec l with ⟨h1, h2⟩ | ⟨p, h1, h2, h3⟩
  · rcases listMax_spec l' with ⟨h1', _⟩ | ⟨p', _, h2', _⟩
    · rw [h1, h1']
    · subst h2; exact absurd ((h p').2 h2') (by simp)
  · rcases listMax_spec l' with ⟨_, h2'⟩ | ⟨p', h1', h2', h3'⟩
    · subst h2'; exact absurd ((h p).1 h2) (by simp)
    · have a := h3 p' ((h p').2 h2')
      have b := h3' p ((h p).1 h2)
      rw [h1, h1']; congr 1; omega

/-- lowest stored power of the constructed polynomial = lowest non-zero power of the dictionary -/
theorem minKey_mkPoly (pairs : List (Int × K)) : minKey (mkPoly pairs) = listMin (keysNZ pairs) := by
  rw [minKey_eq_listMin]
  exact listMin_congr _ _ (mem_keys_mkPoly pairs)

theorem order_eq_listMax (t : Terms K) :
    (listMax (keys t) = none ∧ t = [] ∧ order t = 0)
    ∨ (∃ hi, listMax (keys t) = some hi ∧ order t = hi.toNat) := by
  induction t with
  | nil => exact Or.inl ⟨rfl, rfl, rfl⟩
  | cons kv r ih =>
    obtain ⟨k, v⟩ := kv
    right
    rcases ih with ⟨h1, h2, h3⟩ | ⟨hi, h1, h2⟩
    · subst h2
      exact ⟨k, by simp [keys, listMax], by simp [order]⟩
    · simp only [keys, List.map_cons] at h1 ⊢
      simp only [listMax, h1, order, h2]
      by_cases hlt : k < hi
      · exact ⟨hi, by simp [hlt], by omega⟩
      · exact ⟨k, by simp [hlt], by omega⟩

end ALV.C04
