/-
  C18 — lemmas on the file life-cycle machine (`ALV.Model.C18Res`).  Core Lean only.

  The by-name stream lives in one of two explicit shapes: `openSt` (its handle is open, nobody
  called close) and `closedSt` (closed by exactly one `close()`); every event maps a shape to a
  shape.  Streams over a caller's file object / BytesIO never touch the handle table.
-/
import ALV.Model.C18Res
namespace ALV.C18

theorem modifyAt_append_length {α : Type} (f : α → α) (pre : List α) (h : α) (post : List α) :
    modifyAt f pre.length (pre ++ h :: post) = pre ++ f h :: post := by
  induction pre with
  | nil => rfl
  | cons x xs ih => simp [modifyAt, ih]

theorem modifyAt_length {α : Type} (f : α → α) : ∀ (i : Nat) (l : List α), (modifyAt f i l).length = l.length
  | _, [] => by simp [modifyAt]
  | 0, _ :: _ => by simp [modifyAt]
  | n + 1, _ :: xs => by simp [modifyAt, modifyAt_length f n xs]

/-- the handle a by-name stream opened, still open -/
def hOpen : Handle := ⟨.stream, true, 0, false⟩
/-- the same handle after exactly one `close()` -/
def hClosed : Handle := ⟨.stream, false, 1, false⟩

def openSt (pre : List Handle) (pos : Nat) (started : Bool) : RS :=
  ⟨pos, started, false, false, ⟨true, some pre.length⟩, some pre.length, pre ++ [hOpen]⟩

def closedSt (pre : List Handle) (pos : Nat) (started dropped : Bool) : RS :=
  ⟨pos, started, true, dropped, ⟨false, none⟩, some pre.length, pre ++ [hClosed]⟩

theorem construct_name_ok (pre : List Handle) : construct .name true pre = .ok (openSt pre 0 false) := rfl

theorem construct_name_fail (pre : List Handle) :
    construct .name false pre = .error (pre ++ [⟨.stream, false, 2, false⟩]) := by
  simp [construct, modifyAt_append_length, Handle.fresh, Handle.close]

theorem wrClose_openSt_dead (pre : List Handle) (pos : Nat) (st : Bool) :
    wrClose { openSt pre pos st with started := true, dead := true } = closedSt pre pos true false := by
  simp [wrClose, openSt, closedSt, modifyAt_append_length, hOpen, hClosed, Handle.close]

section
variable {β ε : Type} (g : Gen β ε)

theorem rNext_open_item (pre : List Handle) (pos : Nat) (st : Bool) (b : β) (h : g.out[pos]? = some b) :
    rNext g false (openSt pre pos st) = (.item b, openSt pre (pos + 1) true) := by
  simp [rNext, openSt, h]

theorem rNext_open_end (pre : List Handle) (pos : Nat) (st : Bool) (h : g.out[pos]? = none) :
    rNext g false (openSt pre pos st) = (endObs g, closedSt pre pos true false) := by
  have := wrClose_openSt_dead pre pos st
  simp only [openSt] at this
  simp [rNext, openSt, h, this]

theorem rNext_closed (early : Bool) (pre : List Handle) (pos : Nat) (st d : Bool) :
    rNext g early (closedSt pre pos st d) = (.stop, closedSt pre pos st d) := by
  simp [rNext, closedSt]

theorem rCollect_open (pre : List Handle) (pos : Nat) (st : Bool) :
    rCollect (openSt pre pos st) = closedSt pre pos st true := by
  cases st <;>
    simp [rCollect, openSt, closedSt, wrClose, modifyAt_append_length, hOpen, hClosed, Handle.close,
      Handle.dealloc]

theorem rCollect_closed (pre : List Handle) (pos : Nat) (st d : Bool) :
    rCollect (closedSt pre pos st d) = closedSt pre pos st true := by
  cases d <;> cases st <;>
    simp [rCollect, closedSt, wrClose, modifyAt_append_length, hClosed, Handle.dealloc]

theorem endObs_not_item : (endObs g).isItem = false := by
  unfold endObs; cases g.err <;> rfl

/-- from the closed shape every history stays in the closed shape -/
theorem rRun_closed (early : Bool) (pre : List Handle) : ∀ (evs : List Ev) (pos : Nat) (st d : Bool),
    ∃ d', (rRun g early evs (closedSt pre pos st d)).2 = closedSt pre pos st d' := by
  intro evs
  induction evs with
  | nil => intro pos st d; exact ⟨d, rfl⟩
  | cons e evs ih =>
    intro pos st d
    cases e with
    | next =>
      by_cases hd : d = true
      · subst hd
        have : (closedSt pre pos st true).dropped = true := rfl
        simp only [rRun, this, if_true]
        exact ih pos st true
      · have hd' : d = false := by cases d <;> simp_all
        subst hd'
        have : (closedSt pre pos st false).dropped = false := rfl
        simp only [rRun, this, Bool.false_eq_true, if_false, rNext_closed]
        exact ih pos st false
    | collect =>
      simp only [rRun, rCollect_closed]
      exact ih pos st true

/-- from the open shape: either still open (only items were seen, nothing was collected) or
    closed exactly once (the end was seen, or the stream was collected) -/
theorem rRun_open (pre : List Handle) : ∀ (evs : List Ev) (pos : Nat) (st : Bool),
    let r := rRun g false evs (openSt pre pos st)
    (∃ pos' st', r.2 = openSt pre pos' st' ∧ ended r.1 = false ∧ Ev.collect ∉ evs) ∨
    (∃ pos' st' d, r.2 = closedSt pre pos' st' d ∧ (ended r.1 = true ∨ Ev.collect ∈ evs)) := by
  intro evs
  induction evs with
  | nil => intro pos st; exact Or.inl ⟨pos, st, rfl, rfl, by simp⟩
  | cons e evs ih =>
    intro pos st
    cases e with
    | next =>
      have hdr : (openSt pre pos st).dropped = false := rfl
      cases hget : g.out[pos]? with
      | some b =>
        simp only [rRun, hdr, Bool.false_eq_true, if_false, rNext_open_item g pre pos st b hget]
        rcases ih (pos + 1) true with ⟨p, s, h1, h2, h3⟩ | ⟨p, s, d, h1, h2⟩
        · exact Or.inl ⟨p, s, h1, by simpa [ended, Obs.isItem] using h2, by simpa using h3⟩
        · refine Or.inr ⟨p, s, d, h1, ?_⟩
          rcases h2 with h2 | h2
          · exact Or.inl (by simpa [ended, Obs.isItem] using h2)
          · exact Or.inr (by simp [h2])
      | none =>
        simp only [rRun, hdr, Bool.false_eq_true, if_false, rNext_open_end g pre pos st hget]
        obtain ⟨d', hd'⟩ := rRun_closed g false pre evs pos true false
        exact Or.inr ⟨pos, true, d', hd', Or.inl (by simp [ended, endObs_not_item])⟩
    | collect =>
      simp only [rRun, rCollect_open]
      obtain ⟨d', hd'⟩ := rRun_closed g false pre evs pos st true
      exact Or.inr ⟨pos, st, d', hd', Or.inr (by simp)⟩

/-- a stream that opened nothing itself never touches the handle table -/
theorem rNext_no_handle (early : Bool) (s : RS) (hi : s.wr.iOpened = none) (hm : s.mine = none) :
    (rNext g early s).2.handles = s.handles ∧ (rNext g early s).2.wr.iOpened = none ∧
      (rNext g early s).2.mine = none := by
  unfold rNext
  by_cases hdead : s.dead = true
  · simp [hdead, hi, hm]
  · simp only [hdead, Bool.false_eq_true, if_false]
    cases g.out[s.pos]? with
    | some b => simp [hi, hm]
    | none =>
      by_cases he : early = true ∧ g.err.isSome = true
      · simp [he, hi, hm]
      · simp [he, wrClose, hi, hm]

theorem rCollect_no_handle (s : RS) (hi : s.wr.iOpened = none) (hm : s.mine = none) :
    (rCollect s).handles = s.handles ∧ (rCollect s).wr.iOpened = none ∧ (rCollect s).mine = none := by
  obtain ⟨pos, started, dead, dropped, ⟨fp, io⟩, mine, handles⟩ := s
  simp only at hi hm
  subst hi hm
  cases started <;> cases dead <;> cases dropped <;> simp [rCollect, wrClose]

theorem rRun_no_handle (early : Bool) : ∀ (evs : List Ev) (s : RS),
    s.wr.iOpened = none → s.mine = none →
    (rRun g early evs s).2.handles = s.handles := by
  intro evs
  induction evs with
  | nil => intro s _ _; rfl
  | cons e evs ih =>
    intro s hi hm
    cases e with
    | next =>
      by_cases hd : s.dropped = true
      · simp only [rRun, hd, if_true]; exact ih s hi hm
      · simp only [rRun, hd, Bool.false_eq_true, if_false]
        have key := rNext_no_handle g early s hi hm
        rw [ih _ key.2.1 key.2.2, key.1]
    | collect =>
      simp only [rRun]
      have key := rCollect_no_handle s hi hm
      rw [ih _ key.2.1 key.2.2, key.1]

/-- values: `k` successive `next()` calls on a live stream show the items of `g`, then how it ends,
    then StopIteration for ever -/
theorem rRun_nexts_obs (early : Bool) : ∀ (k : Nat) (s : RS), s.dead = false → s.dropped = false →
    (rRun g early (List.replicate k Ev.next) s).1 =
      ((g.out.drop s.pos).take k).map Obs.item ++
        (if (g.out.drop s.pos).length < k then
          endObs g :: List.replicate (k - (g.out.drop s.pos).length - 1) Obs.stop else []) := by
  -- auxiliary: a dead stream only says stop
  have dead_stops : ∀ (k : Nat) (s : RS), s.dead = true → s.dropped = false →
      (rRun g early (List.replicate k Ev.next) s).1 = List.replicate k Obs.stop := by
    intro k
    induction k with
    | zero => intro s _ _; rfl
    | succ k ih =>
      intro s hd hdr
      simp only [List.replicate_succ, rRun, hdr, Bool.false_eq_true, if_false]
      have : rNext g early s = (.stop, s) := by simp [rNext, hd]
      rw [this]
      simp [ih s hd hdr]
  intro k
  induction k with
  | zero => intro s _ _; simp [rRun]
  | succ k ih =>
    intro s hd hdr
    simp only [List.replicate_succ, rRun, hdr, Bool.false_eq_true, if_false]
    cases hget : g.out[s.pos]? with
    | some b =>
      have hn : rNext g early s = (.item b, { s with pos := s.pos + 1, started := true }) := by
        simp [rNext, hd, hget]
      rw [hn]
      have hlt : s.pos < g.out.length := by
        rcases List.getElem?_eq_some_iff.mp hget with ⟨h, _⟩; exact h
      have hdrop : g.out.drop s.pos = b :: g.out.drop (s.pos + 1) := by
        rw [List.drop_eq_getElem_cons hlt]
        congr 1
        rcases List.getElem?_eq_some_iff.mp hget with ⟨_, h2⟩; exact h2
      have := ih { s with pos := s.pos + 1, started := true } hd hdr
      simp only at this
      rw [this, hdrop]
      simp only [List.take_succ_cons, List.map_cons, List.cons_append, List.length_cons]
      congr 2
      by_cases hlen : (g.out.drop (s.pos + 1)).length < k
      · have h2 : (g.out.drop (s.pos + 1)).length + 1 < k + 1 := by omega
        rw [if_pos hlen, if_pos h2]
        congr 2
        omega
      · have h2 : ¬ (g.out.drop (s.pos + 1)).length + 1 < k + 1 := by omega
        rw [if_neg hlen, if_neg h2]
    | none =>
      have hge : g.out.length ≤ s.pos := List.getElem?_eq_none_iff.mp hget
      have hdrop : g.out.drop s.pos = [] := List.drop_eq_nil_of_le hge
      rw [hdrop]
      simp only [List.take_nil, List.map_nil, List.nil_append, List.length_nil, Nat.zero_lt_succ, if_true,
        Nat.sub_zero, Nat.add_sub_cancel]
      have hobs : (rNext g early s).1 = endObs g := by
        unfold rNext
        simp only [hd, Bool.false_eq_true, if_false, hget]
        split <;> rfl
      have hdead : (rNext g early s).2.dead = true ∧ (rNext g early s).2.dropped = false := by
        unfold rNext
        simp only [hd, Bool.false_eq_true, if_false, hget]
        split
        · exact ⟨rfl, hdr⟩
        · unfold wrClose
          split <;> exact ⟨rfl, hdr⟩
      rw [hobs, dead_stops k _ hdead.1 hdead.2]

end

/-! ### the early error (`_unpackers[bits]` KeyError) cannot happen for the four widths -/

theorem genMap_err_origin {α β ε : Type} (f : α → Except ε β) : ∀ (l : List α) (e : ε),
    (genMap f l).err = some e → ∃ x ∈ l, f x = .error e := by
  intro l
  induction l with
  | nil => intro e h; simp [genMap] at h
  | cons x xs ih =>
    intro e h
    rw [genMap] at h
    cases hx : f x with
    | error e' =>
      rw [hx] at h
      simp only [Option.some.injEq] at h
      exact ⟨x, by simp, by rw [hx, h]⟩
    | ok v =>
      rw [hx] at h
      simp only [Gen.cons] at h
      obtain ⟨x', hx', hF⟩ := ih e h
      exact ⟨x', by simp [hx'], hF⟩

theorem map_error {ε α β : Type} (f : α → β) (x : Except ε α) (e : ε) (h : x.map f = .error e) :
    x = .error e := by
  cases x with
  | error e' => simpa [Except.map] using h
  | ok v => simp [Except.map] at h

theorem unpack8_err (bs : Bytes) (e : WavErr) (h : unpack8 bs = .error e) : e ≠ .noUnpacker := by
  unfold unpack8 at h
  split at h
  · cases h
  · cases h; decide

theorem ofOpt_err {β : Type} (o : Option β) (e : WavErr) (h : ofOpt o = .error e) : e ≠ .noUnpacker := by
  cases o with
  | none => simp only [ofOpt] at h; cases h; decide
  | some v => simp [ofOpt] at h

theorem unpacker_err (bits : Nat) (up : Bytes → Except WavErr Int) (hu : unpacker bits = some up)
    (bs : Bytes) (e : WavErr) (h : up bs = .error e) : e ≠ .noUnpacker := by
  unfold unpacker at hu
  split at hu
  · cases hu; exact unpack8_err bs e h
  · split at hu
    · cases hu; exact ofOpt_err _ e h
    · split at hu
      · cases hu; exact ofOpt_err _ e (map_error _ _ e h)
      · split at hu
        · cases hu; exact ofOpt_err _ e h
        · cases hu

theorem dataGenerator_no_early {K : Type} [IntCast K] [Div K] (bits : Nat)
    (hb : bits = 8 ∨ bits = 16 ∨ bits = 24 ∨ bits = 32) (keep : Bool) (samples : List Bytes) :
    (dataGenerator (K := K) bits keep samples).err ≠ some .noUnpacker := by
  intro herr
  unfold dataGenerator at herr
  cases hu : unpacker bits with
  | none => rcases hb with rfl | rfl | rfl | rfl <;> simp [unpacker] at hu
  | some up =>
    rw [hu] at herr
    simp only at herr
    cases keep with
    | true =>
      simp only [if_true] at herr
      obtain ⟨x, _, hx⟩ := genMap_err_origin _ _ _ herr
      exact unpacker_err bits up hu x _ (map_error _ _ _ hx) rfl
    | false =>
      simp only [Bool.false_eq_true, if_false] at herr
      obtain ⟨x, _, hx⟩ := genMap_err_origin _ _ _ herr
      have hx := map_error _ _ _ hx
      by_cases h8 : bits = 8
      · simp only [h8, if_true] at hx
        exact unpack8_err x _ (map_error _ _ _ hx) rfl
      · simp only [h8, if_false] at hx
        exact unpacker_err bits up hu x _ hx rfl

end ALV.C18
