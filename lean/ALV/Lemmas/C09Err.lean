/-
  C09 — the branches of the loop outside the property's quantifier: a block of the wrong
  length (ValueError after the samples already produced) and hop > size (plain concatenation).
-/
import ALV.Lemmas.C09
namespace ALV.C09
variable {K : Type} [Semiring K]

theorem sliceIdx_neg (len : Nat) (i : Int) (h : i < 0) : sliceIdx len i = ((len : Int) + i).toNat := by
  unfold sliceIdx; simp [h]

/-- hop > size: one iteration replaces the memory by the block -/
theorem olaStep_hop_gt (size hop : Nat) (hh : size < hop) (mem blk : List K) (hm : mem.length = size) :
    olaStep size hop mem blk = blk := by
  unfold olaStep
  have hd : pyDrop mem (hop : Int) = [] := by
    rw [pyDrop_nat]; exact List.drop_of_length_le (by omega)
  simp only [hd, List.zipWith_nil_left, List.length_nil, List.drop_zero, List.nil_append]
  have hneg : ((size : Int) - (hop : Int)) < 0 := by omega
  have : pyTake (pyDrop mem ((size : Int) - hop)) ((size : Int) - hop) = [] := by
    unfold pyTake pyDrop
    rw [sliceIdx_neg _ _ hneg, sliceIdx_neg _ _ hneg]
    apply List.take_eq_nil_iff.2
    left
    simp only [List.length_drop, hm]
    omega
  rw [this, List.nil_append]

theorem olaLoop_hop_gt (size hop : Nat) (hh : size < hop) :
    ∀ (Bs : List (List K)) (mem : List K), mem.length = size → (∀ B ∈ Bs, B.length = size) →
      (olaLoop size hop mem Bs).out = Bs.flatten ∧ (olaLoop size hop mem Bs).err = none := by
  intro Bs
  induction Bs with
  | nil =>
    intro mem hm _
    simp only [olaLoop, List.flatten_nil, and_true]
    rw [pyDrop_nat]; exact List.drop_of_length_le (by omega)
  | cons B Bs ih =>
    intro mem hm hB
    have hb : B.length = size := hB B (by simp)
    have := ih B hb (fun B' h' => hB B' (by simp [h']))
    simp only [olaLoop, olaStep_hop_gt size hop hh mem B hm, hb, ne_eq, not_true_eq_false, if_false,
      this.1, this.2, and_true, List.flatten_cons]
    rw [pyTake_nat, List.take_of_length_le (by omega)]

/-- length of the memory after one iteration, whatever the block length (hop ≤ size) -/
theorem olaStep_length_any (size hop : Nat) (hh : hop ≤ size) (mem blk : List K)
    (hm : mem.length = size) :
    (olaStep size hop mem blk).length =
      if size - hop ≤ blk.length then blk.length else min (size - hop) (blk.length + hop) := by
  unfold olaStep
  have e : ((size : Int) - (hop : Int)) = ((size - hop : Nat) : Int) := by omega
  simp only [e, pyDrop_nat, pyTake_nat]
  simp only [List.length_append, List.length_take, List.length_drop, List.length_zipWith, hm]
  split <;> omega

theorem olaStep_bad_block (size hop : Nat) (h0 : 0 < hop) (hh : hop ≤ size) (mem blk : List K)
    (hm : mem.length = size) (hb : blk.length ≠ size) :
    (olaStep size hop mem blk).length ≠ size := by
  rw [olaStep_length_any size hop hh mem blk hm]
  split <;> omega

/-- a block of the wrong length: ValueError after the samples of the blocks before it -/
theorem olaLoop_bad_block (size hop : Nat) (h0 : 0 < hop) (hh : hop ≤ size) :
    ∀ (Bs : List (List K)) (B : List K) (rest : List (List K)) (mem : List K), mem.length = size →
      (∀ B' ∈ Bs, B'.length = size) → B.length ≠ size →
      (olaLoop size hop mem (Bs ++ B :: rest)).err = some .blockSize ∧
      (olaLoop size hop mem (Bs ++ B :: rest)).out =
        (olaLoop size hop mem Bs).out.take (Bs.length * hop) := by
  intro Bs
  induction Bs with
  | nil =>
    intro B rest mem hm _ hb
    have := olaStep_bad_block size hop h0 hh mem B hm hb
    simp [olaLoop, this]
  | cons B0 Bs ih =>
    intro B rest mem hm hB hb
    have hb0 : B0.length = size := hB B0 (by simp)
    have hl := olaStep_length size hop hh mem B0 hm hb0
    have := ih B rest (olaStep size hop mem B0) hl (fun B' h' => hB B' (by simp [h'])) hb
    simp only [List.cons_append, olaLoop, hl, ne_eq, not_true_eq_false, if_false, this.1, this.2,
      true_and, pyTake_nat, List.length_cons]
    have hlen : (List.take hop (olaStep size hop mem B0)).length = hop := by
      rw [List.length_take, hl]; omega
    generalize List.take hop (olaStep size hop mem B0) = T at hlen ⊢
    rw [Nat.add_mul, Nat.one_mul, Nat.add_comm, List.take_append, hlen,
      List.take_of_length_le (l := T) (by omega), Nat.add_sub_cancel_left]

theorem applyWnd_length_any (w B : List K) : (applyWnd w B).length = min (w.length + 1) B.length := by
  unfold applyWnd
  simp

end ALV.C09
