/-
  C07 — evaluation: the three schemes of `Poly.__call__` compute `Σ c·v^k`, which is
  Mathlib's `LaurentPolynomial.eval₂` (a ring hom, `v ≠ 0`) resp. `Polynomial.eval`
  (no negative powers, any `v`); composition is substitution.
-/
import Mathlib.Algebra.Polynomial.Laurent
import Mathlib.Algebra.Polynomial.Eval.Coeff
import Mathlib.Algebra.BigOperators.Group.List.Basic
import ALV.Lemmas.C07Laurent

set_option linter.unusedSectionVars false

open LaurentPolynomial

namespace ALV.C07
variable {K : Type} [Field K] [DecidableEq K]

/-- `Σ c·v^k` over the term list (the direct sum of the property) -/
def ev (p : MPoly K) (v : K) : K := (p.map fun kv => kv.2 * v ^ kv.1).sum

@[simp] theorem ev_nil (v : K) : ev ([] : MPoly K) v = 0 := rfl
@[simp] theorem ev_cons (a : Int × K) (t : MPoly K) (v : K) : ev (a :: t) v = a.2 * v ^ a.1 + ev t v := by
  simp [ev]
theorem ev_append (p q : MPoly K) (v : K) : ev (p ++ q) v = ev p v + ev q v := by
  simp [ev]

theorem ev_perm {p q : MPoly K} (h : p.Perm q) (v : K) : ev p v = ev q v :=
  (h.map _).sum_eq

theorem sortAsc_perm (p : MPoly K) : (sortAsc p).Perm p := List.mergeSort_perm _ _
theorem sortDesc_perm (p : MPoly K) : (sortDesc p).Perm p :=
  (List.reverse_perm _).trans (sortAsc_perm p)

/-! ### the general sum -/

theorem foldl_add_eq (f : Int × K → K) (l : MPoly K) (acc : K) :
    l.foldl (fun acc kv => acc + f kv) acc = acc + (l.map f).sum := by
  induction l generalizing acc with
  | nil => simp
  | cons a t ih => simp [ih, add_assoc]

theorem evalDirect_eq (p : MPoly K) (v : K) : evalDirect p v = ev p v := by
  unfold evalDirect
  rw [foldl_add_eq (fun kv => kv.2 * powInt v kv.1)]
  simp only [powInt_eq, zero_add]
  exact ev_perm (sortAsc_perm p) v

/-! ### the Horner-like scheme with merged steps -/

theorem hornerStep_inv {v : K} (hv : v ≠ 0) (old new : Int × K) :
    (hornerStep v old new).2 * v ^ (hornerStep v old new).1 =
      new.2 * v ^ new.1 + old.2 * v ^ old.1 := by
  have hs : (if old.1 = new.1 + 1 then v else powInt v (old.1 - new.1)) = v ^ (old.1 - new.1) := by
    split
    · rename_i h; rw [h]; simp
    · rw [powInt_eq]
  simp only [hornerStep, hs]
  rw [add_mul, mul_assoc, ← zpow_add₀ hv]
  simp

theorem horner_foldl {v : K} (hv : v ≠ 0) (t : MPoly K) (old : Int × K) :
    (t.foldl (hornerStep v) old).2 * v ^ (t.foldl (hornerStep v) old).1 =
      old.2 * v ^ old.1 + ev t v := by
  induction t generalizing old with
  | nil => simp
  | cons a u ih =>
    rw [List.foldl_cons, ih, hornerStep_inv hv, ev_cons]
    ring

theorem evalHorner_eq {v : K} (hv : v ≠ 0) (p : MPoly K) : evalHorner p v = ev p v := by
  unfold evalHorner
  have hperm := sortDesc_perm p
  cases hs : sortDesc p with
  | nil =>
    rw [hs] at hperm
    rw [List.nil_perm.1 hperm]
    rfl
  | cons h t =>
    rw [hs] at hperm
    simp only [powInt_eq]
    rw [horner_foldl hv, ← ev_cons, ev_perm hperm]

/-! ### `Poly.__call__` -/

theorem ev_zero_eq_coeff (p : MPoly K) : ev p 0 = coeff p 0 := by
  induction p with
  | nil => rfl
  | cons a t ih =>
    obtain ⟨k, c⟩ := a
    simp only [ev_cons, ih, coeff]
    by_cases hk : k = 0
    · simp [hk]
    · simp [hk, zero_zpow k hk]

theorem call_zero (p : MPoly K) (h : Horner) : call p 0 h = getD p 0 := by
  unfold call
  cases p with
  | nil => rfl
  | cons a t => simp

/-- all three schemes compute the direct sum `Σ c·v^k` -/
theorem call_eq_ev {p : MPoly K} {v : K} (hv : v ≠ 0 ∨ (keys p).Nodup) (h : Horner) :
    call p v h = ev p v := by
  by_cases h0 : v = 0
  · subst h0
    rcases hv with hv | hv
    · exact absurd rfl hv
    · rw [call_zero, ev_zero_eq_coeff, coeff_eq_getD hv]
  · unfold call
    cases p with
    | nil => rfl
    | cons a t =>
      simp only [List.isEmpty_cons, Bool.false_eq_true, if_false, h0]
      have key : ∀ b : Bool,
          (if b = true then evalHorner (a :: t) v else evalDirect (a :: t) v) = ev (a :: t) v := by
        intro b
        cases b
        · rw [if_neg (by simp)]; exact evalDirect_eq _ _
        · rw [if_pos rfl]; exact evalHorner_eq h0 _
      exact key _

/-! ### evaluation as Mathlib's ring homomorphism (`v ≠ 0`) -/

/-- `K[T;T⁻¹] →+* K`, `T ↦ v` -/
noncomputable def evalHom (v : K) (hv : v ≠ 0) : K[T;T⁻¹] →+* K :=
  LaurentPolynomial.eval₂ (RingHom.id K) (Units.mk0 v hv)

theorem evalHom_single (v : K) (hv : v ≠ 0) (k : ℤ) (c : K) :
    evalHom v hv (AddMonoidAlgebra.single k c) = c * v ^ k := by
  unfold evalHom
  rw [single_eq_C_mul_T, eval₂_C_mul_T]
  simp [Units.val_zpow_eq_zpow_val]

theorem evalHom_toLaurent (v : K) (hv : v ≠ 0) (p : MPoly K) : evalHom v hv (toLaurent p) = ev p v := by
  induction p with
  | nil => simp
  | cons a t ih => rw [toLaurent_cons, map_add, evalHom_single, ih, ev_cons]

/-! ### evaluation of polynomials (no negative power) at any point, `0` included -/

/-- additive evaluation map, defined for every `v` -/
noncomputable def evalAdd (v : K) (f : K[T;T⁻¹]) : K := f.coeff.sum fun k c => c * v ^ k

theorem evalAdd_single (v : K) (k : ℤ) (c : K) : evalAdd v (AddMonoidAlgebra.single k c) = c * v ^ k := by
  unfold evalAdd
  rw [AddMonoidAlgebra.coeff_single, Finsupp.sum_single_index]
  simp

theorem evalAdd_add (v : K) (f g : K[T;T⁻¹]) : evalAdd v (f + g) = evalAdd v f + evalAdd v g := by
  unfold evalAdd
  rw [AddMonoidAlgebra.coeff_add, Finsupp.sum_add_index']
  · intro k; simp
  · intro k c d; ring

theorem evalAdd_toLaurent (v : K) (p : MPoly K) : evalAdd v (toLaurent p) = ev p v := by
  induction p with
  | nil => simp [evalAdd]
  | cons a t ih => rw [toLaurent_cons, evalAdd_add, evalAdd_single, ih, ev_cons]

/-- `ev` only depends on the denoted Laurent polynomial -/
theorem ev_congr {p q : MPoly K} (h : toLaurent p = toLaurent q) (v : K) : ev p v = ev q v := by
  rw [← evalAdd_toLaurent, ← evalAdd_toLaurent, h]

theorem ev_add {p q : MPoly K} (hp : (keys p).Nodup) (hq : (keys q).Nodup) (v : K) :
    ev (add p q) v = ev p v + ev q v := by
  rw [← ev_append]
  exact ev_congr (by rw [toLaurent_add hp hq, toLaurent_append]) v

theorem ev_neg {p : MPoly K} (hp : (keys p).Nodup) (v : K) : ev (neg p) v = -ev p v := by
  rw [← evalAdd_toLaurent, toLaurent_neg hp, ← evalAdd_toLaurent]
  have := evalAdd_add v (toLaurent p) (-toLaurent p)
  rw [add_neg_cancel] at this
  have h0 : evalAdd v (0 : K[T;T⁻¹]) = 0 := by simp [evalAdd]
  rw [h0] at this
  exact eq_neg_of_add_eq_zero_right this.symm

theorem ev_mul_of_ne_zero (p q : MPoly K) {v : K} (hv : v ≠ 0) : ev (mul p q) v = ev p v * ev q v := by
  rw [← evalHom_toLaurent v hv, toLaurent_mul, map_mul, evalHom_toLaurent, evalHom_toLaurent]

theorem ev_pow_of_ne_zero (p : MPoly K) (n : ℕ) {v : K} (hv : v ≠ 0) :
    ev (pow p (n : ℤ)) v = ev p v ^ n := by
  rw [← evalHom_toLaurent v hv, toLaurent_pow, map_pow, evalHom_toLaurent]

theorem ev_ofScalar (c v : K) : ev (ofScalar c) v = c := by
  rw [← evalAdd_toLaurent, toLaurent_ofScalar, ← single_eq_C, evalAdd_single]
  simp

theorem ev_X (v : K) : ev (X : MPoly K) v = v := by
  rw [← evalAdd_toLaurent, toLaurent_X]
  show evalAdd v (AddMonoidAlgebra.single 1 1) = v
  rw [evalAdd_single]
  simp

/-! ### polynomials: the image of `K[X]` -/

/-- all powers are natural numbers (`Poly.is_polynomial`) -/
def IsPoly (p : MPoly K) : Prop := ∀ kv ∈ p, 0 ≤ kv.1

theorem isPoly_iff (p : MPoly K) : isPolynomial p = true ↔ IsPoly p := by
  simp [isPolynomial, IsPoly, List.all_eq_true]

/-- a Poly without negative powers is (the image of) an ordinary polynomial -/
theorem toLaurent_trunc {p : MPoly K} (h : IsPoly p) :
    Polynomial.toLaurent (trunc (toLaurent p)) = toLaurent p := by
  induction p with
  | nil => simp
  | cons a t ih =>
    have ha : 0 ≤ a.1 := h a List.mem_cons_self
    have ht : IsPoly t := fun kv hkv => h kv (List.mem_cons_of_mem _ hkv)
    rw [toLaurent_cons, map_add, map_add, ih ht, single_eq_C_mul_T, trunc_C_mul_T, if_pos ha,
      ← Polynomial.C_mul_X_pow_eq_monomial, Polynomial.toLaurent_C_mul_X_pow, Int.toNat_of_nonneg ha]

theorem coeff_zero_toLaurent (f : Polynomial K) : (Polynomial.toLaurent f).coeff 0 = f.coeff 0 := by
  induction f using Polynomial.induction_on' with
  | add f g hf hg =>
    rw [map_add, AddMonoidAlgebra.coeff_add, Finsupp.add_apply, hf, hg, Polynomial.coeff_add]
  | monomial n a =>
    rw [← Polynomial.C_mul_X_pow_eq_monomial, Polynomial.toLaurent_C_mul_X_pow, ← single_eq_C_mul_T,
      AddMonoidAlgebra.coeff_single, Finsupp.single_apply, Polynomial.coeff_C_mul_X_pow]
    by_cases h : n = 0
    · simp [h]
    · have : (n : ℤ) ≠ 0 := by exact_mod_cast h
      simp [h, this, Ne.symm h]

/-- for polynomials the constant coefficient of a product is the product of the constant
coefficients (this is what makes the `x = 0` shortcut a ring homomorphism) -/
theorem getD_mul_zero {p q : MPoly K} (hp : IsPoly p) (hq : IsPoly q) (hpn : (keys p).Nodup)
    (hqn : (keys q).Nodup) : getD (mul p q) 0 = getD p 0 * getD q 0 := by
  rw [← coeff_eq_getD (wf_mul p q).1, ← coeff_eq_getD hpn, ← coeff_eq_getD hqn,
    ← coeff_toLaurent, ← coeff_toLaurent, ← coeff_toLaurent, toLaurent_mul,
    ← toLaurent_trunc hp, ← toLaurent_trunc hq, ← map_mul,
    coeff_zero_toLaurent, coeff_zero_toLaurent, coeff_zero_toLaurent, Polynomial.mul_coeff_zero]

theorem getD_pow_zero {p : MPoly K} (hp : IsPoly p) (hpn : WF p) (n : ℕ) :
    getD (pow p (n : ℤ)) 0 = getD p 0 ^ n := by
  rw [← coeff_eq_getD (wf_pow hpn _).1, ← coeff_eq_getD hpn.1,
    ← coeff_toLaurent, ← coeff_toLaurent, toLaurent_pow,
    ← toLaurent_trunc hp, ← map_pow,
    coeff_zero_toLaurent, coeff_zero_toLaurent, Polynomial.coeff_zero_eq_eval_zero,
    Polynomial.coeff_zero_eq_eval_zero, Polynomial.eval_pow]

/-! ### composition is substitution -/

theorem toLaurent_composeLoop (q : MPoly K) (l : MPoly K) (acc : MPoly K) (hacc : (keys acc).Nodup) :
    toLaurent (l.foldl (fun acc kc => add acc (mul (ofScalar kc.2) (pow q kc.1))) acc) =
      toLaurent acc + (l.map fun kc => C kc.2 * toLaurent (pow q kc.1)).sum := by
  induction l generalizing acc with
  | nil => simp
  | cons a t ih =>
    rw [List.foldl_cons, ih _ (wf_add _ _).1, toLaurent_add hacc (wf_mul _ _).1, toLaurent_mul,
      toLaurent_ofScalar]
    simp [add_assoc]

/-- `p(q) = Σ c_k · q^k` in the Laurent ring (each `q^k` as computed by `__pow__`) -/
theorem toLaurent_compose (p q : MPoly K) :
    toLaurent (compose p q) = (p.map fun kc => C kc.2 * toLaurent (pow q kc.1)).sum := by
  unfold compose
  rw [toLaurent_compact, toLaurent_composeLoop q p _ (wf_ofScalar 0).1, toLaurent_ofScalar]
  simp

/-- for a polynomial `p`: `p(q) = Σ c_k · q^k` with the ring's own powers -/
theorem toLaurent_compose_poly {p : MPoly K} (hp : IsPoly p) (q : MPoly K) :
    toLaurent (compose p q) = (p.map fun kc => C kc.2 * toLaurent q ^ kc.1.toNat).sum := by
  rw [toLaurent_compose]
  congr 1
  apply List.map_congr_left
  intro kc hkc
  obtain ⟨n, hn⟩ := Int.eq_ofNat_of_zero_le (hp kc hkc)
  rw [hn, toLaurent_pow]
  simp

theorem ev_compose_of_ne_zero {p : MPoly K} (hp : IsPoly p) (q : MPoly K) {v : K} (hv : v ≠ 0) :
    ev (compose p q) v = ev p (ev q v) := by
  rw [← evalHom_toLaurent v hv, toLaurent_compose_poly hp, map_list_sum, List.map_map]
  unfold ev
  congr 1
  apply List.map_congr_left
  intro kc hkc
  simp only [Function.comp_apply, map_mul, map_pow, evalHom_toLaurent]
  have h1 : evalHom v hv (C kc.2) = kc.2 := by
    rw [← single_eq_C, evalHom_single]; simp
  rw [h1]
  obtain ⟨n, hn⟩ := Int.eq_ofNat_of_zero_le (hp kc hkc)
  rw [hn]
  simp [ev]

end ALV.C07
