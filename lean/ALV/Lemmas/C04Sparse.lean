/-
  C04 — the code iterates the *sparse* dictionaries `numdict` / `dendict` (terms in ascending
  power, no stored zero); the model's `compile` runs over the *dense* lists `values()` and skips
  the zeros.  Both produce the same summands.
-/
import ALV.Lemmas.C04Field

set_option linter.unusedSectionVars false
set_option linter.unusedSimpArgs false
namespace ALV.C04

/-! ## look-ups, sorted inserts, `Poly(...)` construction: valid for any coefficient type with a
zero and decidable equality (no algebraic law) -/
section generic
variable {K : Type} [OfNat K 0] [DecidableEq K]

theorem coefAt_cons_self (k : Int) (v : K) (r : Terms K) : coefAt ((k, v) :: r) k = v := by
  simp [coefAt]

theorem coefAt_cons_ne (k j : Int) (v : K) (r : Terms K) (h : k ≠ j) :
    coefAt ((k, v) :: r) j = coefAt r j := by
  simp [coefAt, List.find?_cons, h]

theorem coefAt_of_lt (t : Terms K) (j : Int) (h : ∀ kv ∈ t, j < kv.1) : coefAt t j = 0 := by
  induction t with
  | nil => rfl
  | cons kv r ih =>
    obtain ⟨k, v⟩ := kv
    have hk : j < k := h (k, v) (by simp)
    rw [coefAt_cons_ne k j v r (by omega)]
    exact ih (fun kv hkv => h kv (by simp [hkv]))

theorem le_order (t : Terms K) : ∀ kv ∈ t, kv.1.toNat ≤ order t := by
  induction t with
  | nil => simp
  | cons kv r ih =>
    obtain ⟨k, v⟩ := kv
    intro kv' h
    rcases List.mem_cons.1 h with h | h
    · rw [h]; simp [order]
    · have := ih kv' h
      simp only [order]
      omega

/-! ### `Poly(...)` construction -/

theorem mem_tinsert (k : Int) (v : K) (t : Terms K) (kv : Int × K) (h : kv ∈ tinsert k v t) :
    kv = (k, v) ∨ kv ∈ t := by
  induction t with
  | nil => simp [tinsert] at h; exact Or.inl h
  | cons kv' r ih =>
    obtain ⟨k', v'⟩ := kv'
    simp only [tinsert] at h
    split_ifs at h with h1 h2
    · rcases List.mem_cons.1 h with h | h
      · exact Or.inl h
      · exact Or.inr h
    · rcases List.mem_cons.1 h with h | h
      · exact Or.inl h
      · exact Or.inr (List.mem_cons_of_mem _ h)
    · rcases List.mem_cons.1 h with h | h
      · exact Or.inr (by rw [h]; simp)
      · rcases ih h with h | h
        · exact Or.inl h
        · exact Or.inr (List.mem_cons_of_mem _ h)

/-- dict assignment keeps the association list strictly sorted by power -/
theorem tinsert_sorted (k : Int) (v : K) (t : Terms K)
    (hs : List.Pairwise (fun x y : Int × K => x.1 < y.1) t) :
    List.Pairwise (fun x y : Int × K => x.1 < y.1) (tinsert k v t) := by
  induction t with
  | nil => simp [tinsert]
  | cons kv' r ih =>
    obtain ⟨k', v'⟩ := kv'
    have hr := (List.pairwise_cons.1 hs).2
    have hgt := (List.pairwise_cons.1 hs).1
    simp only [tinsert]
    split_ifs with h1 h2
    · refine List.pairwise_cons.2 ⟨?_, hs⟩
      intro kv hkv
      rcases List.mem_cons.1 hkv with h | h
      · rw [h]; exact h1
      · have := hgt kv h; simp only at this ⊢; omega
    · refine List.pairwise_cons.2 ⟨?_, hr⟩
      intro kv hkv
      have := hgt kv hkv
      simp only at this ⊢; omega
    · refine List.pairwise_cons.2 ⟨?_, ih hr⟩
      intro kv hkv
      rcases mem_tinsert k v r kv hkv with h | h
      · rw [h]; simp only; omega
      · exact hgt kv h

/-- `Poly(...)`: what `terms()` yields is strictly sorted by power and stores no zero -/
theorem mkPoly_sorted (pairs : List (Int × K)) :
    List.Pairwise (fun x y : Int × K => x.1 < y.1) (mkPoly pairs) := by
  have : ∀ (acc : Terms K), List.Pairwise (fun x y : Int × K => x.1 < y.1) acc →
      List.Pairwise (fun x y : Int × K => x.1 < y.1)
        (pairs.foldl (fun acc kv => tinsert kv.1 kv.2 acc) acc) := by
    induction pairs with
    | nil => intro acc h; exact h
    | cons kv r ih => intro acc h; exact ih _ (tinsert_sorted kv.1 kv.2 acc h)
  exact List.Pairwise.filter _ (this [] List.Pairwise.nil)

theorem mkPoly_nonzero (pairs : List (Int × K)) : ∀ kv ∈ mkPoly pairs, kv.2 ≠ 0 := by
  intro kv h
  simp only [mkPoly, List.mem_filter] at h
  simpa using h.2

end generic

variable {K : Type} [Field K] [DecidableEq K]

theorem zero_ne_neg_one : (0 : K) ≠ -1 := by
  intro h
  have := congrArg Neg.neg h
  simp at this

theorem numAtoms_cons (k : Nat) (c : K) (cs : List K) :
    numAtoms k (c :: cs) = numAtoms k [c] ++ numAtoms (k + 1) cs := by
  simp [numAtoms]

theorem denAtoms_cons (k : Nat) (c : K) (cs : List K) :
    denAtoms k (c :: cs) = denAtoms k [c] ++ denAtoms (k + 1) cs := by
  simp [denAtoms]

theorem numAtoms_zero (k : Nat) : numAtoms k [(0 : K)] = [] := by
  simp [numAtoms, zero_ne_neg_one, (zero_ne_one : (0 : K) ≠ 1)]

theorem denAtoms_zero (k : Nat) : denAtoms k [(0 : K)] = [] := by
  simp [denAtoms, zero_ne_neg_one, (zero_ne_one : (0 : K) ≠ 1)]

/-- sliding window: the dense coefficients of delays `j … j+m-1` give the summands of exactly
the stored terms, in order -/
theorem numAtoms_window (m : Nat) : ∀ (j : Nat) (t : Terms K),
    List.Pairwise (fun x y => x.1 < y.1) t →
    (∀ kv ∈ t, (j : Int) ≤ kv.1 ∧ kv.1 < (j : Int) + m ∧ kv.2 ≠ 0) →
    numAtoms j ((List.range m).map (fun i => coefAt t (Int.ofNat (j + i))))
      = (t.map (fun kv => numAtoms kv.1.toNat [kv.2])).flatten := by
  induction m with
  | zero =>
    intro j t _ hr
    cases t with
    | nil => simp [numAtoms]
    | cons kv r => have := hr kv (by simp); omega
  | succ m ih =>
    intro j t hs hr
    rw [List.range_succ_eq_map, List.map_cons, List.map_map, numAtoms_cons]
    have hshift : ((fun i => coefAt t (Int.ofNat (j + i))) ∘ Nat.succ)
        = (fun i => coefAt t (Int.ofNat (j + 1 + i))) := by
      funext i
      simp only [Function.comp, Nat.succ_eq_add_one]
      congr 2
      omega
    rw [hshift]
    cases t with
    | nil =>
      have := ih (j + 1) ([] : Terms K) List.Pairwise.nil (by simp)
      simp only [Nat.add_zero, coefAt_nil, numAtoms_zero, List.nil_append] at this ⊢
      simpa [coefAt_nil] using this
    | cons kv r =>
      obtain ⟨k, v⟩ := kv
      have hk := hr (k, v) (by simp)
      have hsr : List.Pairwise (fun x y : Int × K => x.1 < y.1) r := (List.pairwise_cons.1 hs).2
      have hgt : ∀ kv ∈ r, k < kv.1 := fun kv hkv => (List.pairwise_cons.1 hs).1 kv hkv
      by_cases hkj : k = (j : Int)
      · -- the head term sits at delay j
        have e0 : coefAt ((k, v) :: r) (Int.ofNat (j + 0)) = v := by
          have : Int.ofNat (j + 0) = k := by simp [hkj]
          rw [this, coefAt_cons_self]
        have etail : (fun i => coefAt ((k, v) :: r) (Int.ofNat (j + 1 + i)))
            = (fun i => coefAt r (Int.ofNat (j + 1 + i))) := by
          funext i
          apply coefAt_cons_ne
          simp only [Int.ofNat_eq_natCast]
          omega
        rw [e0, etail]
        have := ih (j + 1) r hsr (fun kv hkv => by
          have h1 := hr kv (by simp [hkv])
          have h2 := hgt kv hkv
          refine ⟨by omega, by omega, h1.2.2⟩)
        rw [this]
        simp only [List.map_cons, List.flatten_cons]
        have : k.toNat = j := by omega
        rw [this]
      · -- no term at delay j: a zero in the dense list, skipped
        have hlt : (j : Int) < k := by omega
        have e0 : coefAt ((k, v) :: r) (Int.ofNat (j + 0)) = 0 := by
          apply coefAt_of_lt
          intro kv hkv
          simp only [Int.ofNat_eq_natCast, Nat.add_zero]
          rcases List.mem_cons.1 hkv with h | h
          · rw [h]; exact hlt
          · have := hgt kv h; omega
        rw [e0, numAtoms_zero, List.nil_append]
        exact ih (j + 1) ((k, v) :: r) hs (fun kv hkv => by
          have h1 := hr kv hkv
          refine ⟨?_, by omega, h1.2.2⟩
          rcases List.mem_cons.1 hkv with h | h
          · rw [h]; simp only; omega
          · have := hgt kv h; omega)

/-- the same window for the feedback summands: the dense coefficients of delays `j … j+m-1` give the summands of exactly
the stored terms, in order -/
theorem denAtoms_window (m : Nat) : ∀ (j : Nat) (t : Terms K),
    List.Pairwise (fun x y => x.1 < y.1) t →
    (∀ kv ∈ t, (j : Int) ≤ kv.1 ∧ kv.1 < (j : Int) + m ∧ kv.2 ≠ 0) →
    denAtoms j ((List.range m).map (fun i => coefAt t (Int.ofNat (j + i))))
      = (t.map (fun kv => denAtoms kv.1.toNat [kv.2])).flatten := by
  induction m with
  | zero =>
    intro j t _ hr
    cases t with
    | nil => simp [denAtoms]
    | cons kv r => have := hr kv (by simp); omega
  | succ m ih =>
    intro j t hs hr
    rw [List.range_succ_eq_map, List.map_cons, List.map_map, denAtoms_cons]
    have hshift : ((fun i => coefAt t (Int.ofNat (j + i))) ∘ Nat.succ)
        = (fun i => coefAt t (Int.ofNat (j + 1 + i))) := by
      funext i
      simp only [Function.comp, Nat.succ_eq_add_one]
      congr 2
      omega
    rw [hshift]
    cases t with
    | nil =>
      have := ih (j + 1) ([] : Terms K) List.Pairwise.nil (by simp)
      simp only [Nat.add_zero, coefAt_nil, denAtoms_zero, List.nil_append] at this ⊢
      simpa [coefAt_nil] using this
    | cons kv r =>
      obtain ⟨k, v⟩ := kv
      have hk := hr (k, v) (by simp)
      have hsr : List.Pairwise (fun x y : Int × K => x.1 < y.1) r := (List.pairwise_cons.1 hs).2
      have hgt : ∀ kv ∈ r, k < kv.1 := fun kv hkv => (List.pairwise_cons.1 hs).1 kv hkv
      by_cases hkj : k = (j : Int)
      · -- the head term sits at delay j
        have e0 : coefAt ((k, v) :: r) (Int.ofNat (j + 0)) = v := by
          have : Int.ofNat (j + 0) = k := by simp [hkj]
          rw [this, coefAt_cons_self]
        have etail : (fun i => coefAt ((k, v) :: r) (Int.ofNat (j + 1 + i)))
            = (fun i => coefAt r (Int.ofNat (j + 1 + i))) := by
          funext i
          apply coefAt_cons_ne
          simp only [Int.ofNat_eq_natCast]
          omega
        rw [e0, etail]
        have := ih (j + 1) r hsr (fun kv hkv => by
          have h1 := hr kv (by simp [hkv])
          have h2 := hgt kv hkv
          refine ⟨by omega, by omega, h1.2.2⟩)
        rw [this]
        simp only [List.map_cons, List.flatten_cons]
        have : k.toNat = j := by omega
        rw [this]
      · -- no term at delay j: a zero in the dense list, skipped
        have hlt : (j : Int) < k := by omega
        have e0 : coefAt ((k, v) :: r) (Int.ofNat (j + 0)) = 0 := by
          apply coefAt_of_lt
          intro kv hkv
          simp only [Int.ofNat_eq_natCast, Nat.add_zero]
          rcases List.mem_cons.1 hkv with h | h
          · rw [h]; exact hlt
          · have := hgt kv h; omega
        rw [e0, denAtoms_zero, List.nil_append]
        exact ih (j + 1) ((k, v) :: r) hs (fun kv hkv => by
          have h1 := hr kv hkv
          refine ⟨?_, by omega, h1.2.2⟩
          rcases List.mem_cons.1 hkv with h | h
          · rw [h]; simp only; omega
          · have := hgt kv h; omega)

/-- **numerator**: compiling the dense list = iterating the sparse, sorted `numdict` -/
theorem numAtoms_dense (t : Terms K) (hs : List.Pairwise (fun x y => x.1 < y.1) t)
    (hr : ∀ kv ∈ t, 0 ≤ kv.1 ∧ kv.2 ≠ 0) :
    numAtoms 0 (dense t) = (t.map (fun kv => numAtoms kv.1.toNat [kv.2])).flatten := by
  cases ht : t with
  | nil => simp [dense, numAtoms]
  | cons kv r =>
    rw [← ht]
    have hne : t.isEmpty = false := by rw [ht]; rfl
    simp only [dense, hne, Bool.false_eq_true, if_false]
    have := numAtoms_window (order t + 1) 0 t hs (fun kv hkv => by
      have h1 := hr kv hkv
      have h2 := le_order t kv hkv
      refine ⟨by simpa using h1.1, by omega, h1.2⟩)
    simpa using this

/-- **denominator**: compiling the dense tail `a1, a2, …` = iterating the sparse, sorted
`dendict` without its delay-0 term (which is the gain) -/
theorem denAtoms_dense (a0 : K) (r : Terms K)
    (hs : List.Pairwise (fun x y => x.1 < y.1) (((0 : Int), a0) :: r))
    (hr : ∀ kv ∈ r, kv.2 ≠ 0) :
    denAtoms 1 (dense (((0 : Int), a0) :: r)).tail
      = (r.map (fun kv => denAtoms kv.1.toNat [kv.2])).flatten := by
  have hgt : ∀ kv ∈ r, (0 : Int) < kv.1 := fun kv hkv => (List.pairwise_cons.1 hs).1 kv hkv
  have hsr : List.Pairwise (fun x y : Int × K => x.1 < y.1) r := (List.pairwise_cons.1 hs).2
  have hd : (dense (((0 : Int), a0) :: r)).tail
      = (List.range (order (((0 : Int), a0) :: r))).map (fun i => coefAt r (Int.ofNat (1 + i))) := by
    simp only [dense, List.isEmpty_cons, Bool.false_eq_true, if_false, List.range_succ_eq_map,
      List.map_cons, List.tail_cons, List.map_map]
    apply List.map_congr_left
    intro i _
    simp only [Function.comp, Nat.succ_eq_add_one]
    rw [coefAt_cons_ne _ _ _ _ (by simp only [Int.ofNat_eq_natCast]; omega)]
    congr 2
    omega
  rw [hd]
  exact denAtoms_window (order (((0 : Int), a0) :: r)) 1 r hsr (fun kv hkv => by
    have h1 := hgt kv hkv
    have h2 := le_order (((0 : Int), a0) :: r) kv (by simp [hkv])
    refine ⟨by omega, by omega, hr kv hkv⟩)

end ALV.C04
