/-
  C11 — helper lemmas for the histories on mutable filter objects (`ALV/Model/C11Hist.lean`):
  coefficient semantics of an in-place edit, the well-formedness invariant, frame facts.
-/
import ALV.Model.C11Hist
import ALV.Lemmas.C11Coded
import Mathlib.Order.Basic

set_option linter.unusedSectionVars false

namespace ALV.C11.Hist
open ALV.C11

section Basic
variable {α : Type} [Add α] [Mul α] [Sub α] [Neg α] [Div α] [OfNat α 0] [OfNat α 1]
  [DecidableEq α]

theorem setAt_length (l : List α) (i : Nat) (v : α) :
    (setAt l i v).length = max l.length (i + 1) := by
  unfold setAt
  simp only [List.length_set, List.length_append, List.length_replicate]
  omega

/-- `poly[i] = v` changes the coefficient of power `i` and no other one -/
theorem getD_setAt (l : List α) (i j : Nat) (v : α) :
    (setAt l i v).getD j 0 = if j = i then v else l.getD j 0 := by
  unfold setAt
  simp only [List.getD_eq_getElem?_getD, List.getElem?_set, List.length_append,
    List.length_replicate]
  by_cases hji : j = i
  · subst hji
    have : j < l.length + (j + 1 - l.length) := by omega
    simp [this]
  · have hij : ¬ i = j := fun h => hji h.symm
    simp only [hij, if_false, hji]
    by_cases hj : j < l.length
    · rw [List.getElem?_append_left hj]
    · rw [List.getElem?_append_right (by omega)]
      rw [List.getElem?_eq_none (by omega : l.length ≤ j)]
      by_cases h2 : j - l.length < i + 1 - l.length
      · rw [List.getElem?_replicate_of_lt h2]; rfl
      · rw [List.getElem?_eq_none (by simp; omega)]

end Basic

section Step
variable {L : Type} [Field L] [LinearOrder L] [IsStrictOrderedRing L]

theorem filt_append_lt (fs : List (Option (Filt L))) (x : Option (Filt L)) (t : Nat) (h : t < fs.length) :
    (fs ++ [x]).getD t none = fs.getD t none := by
  simp [List.getD_eq_getElem?_getD, List.getElem?_append_left h]

theorem filt_append_some (fs : List (Option (Filt L))) (x : Option (Filt L)) (t : Nat) (f : Filt L)
    (h : (fs ++ [x]).getD t none = some f) : fs.getD t none = some f ∨ (t = fs.length ∧ x = some f) := by
  by_cases ht : t < fs.length
  · left; rwa [filt_append_lt fs x t ht] at h
  · by_cases he : t = fs.length
    · right
      subst he
      simp [List.getD_eq_getElem?_getD] at h
      exact ⟨rfl, h⟩
    · exfalso
      have : (fs ++ [x]).length ≤ t := by simp; omega
      simp [List.getD_eq_getElem?_getD, List.getElem?_eq_none this] at h

theorem filt_set_some (fs : List (Option (Filt L))) (t t' : Nat) (x f : Filt L)
    (h : (fs.set t (some x)).getD t' none = some f) :
    (t' = t ∧ f = x) ∨ (t' ≠ t ∧ fs.getD t' none = some f) := by
  simp only [List.getD_eq_getElem?_getD, List.getElem?_set] at h
  by_cases e : t = t'
  · subst e
    left
    by_cases hl : t < fs.length
    · simp [hl] at h; exact ⟨rfl, h.symm⟩
    · simp [hl] at h
  · right
    simp only [e, if_false] at h
    exact ⟨fun h' => e h'.symm, by simpa [List.getD_eq_getElem?_getD] using h⟩

theorem bind_cell_lt (f : Filt L) (p : Part) (c n : Nat) (hc : c < n) (hn : f.num < n) (hd : f.den < n) :
    (f.bind p c).num < n ∧ (f.bind p c).den < n := by
  cases p <;> simp [Filt.bind, hc, hn, hd]

/-- **invariant**: every operation — also one that raises or names a dead filter — keeps every live
filter bound to existing cells -/
theorem step_wf (h : Heap L) (op : Op L) (hw : h.wf) : (step h op).1.wf := by
  intro t f hf
  cases op with
  | mk num den =>
    simp only [step, Heap.filt] at hf
    rcases filt_append_some _ _ t f hf with h1 | ⟨_, h2⟩
    · have := hw t f h1
      simp only [step, List.length_append, List.length_cons, List.length_nil]; omega
    · simp only [Option.some.injEq] at h2
      subst h2
      simp only [step, List.length_append, List.length_cons, List.length_nil]; omega
  | lev r order =>
    simp only [step] at hf ⊢
    cases hl : levinson r order with
    | none =>
      rw [hl] at hf
      (try dsimp only at hf); (try dsimp only)
      simp only [Heap.filt] at hf
      rcases filt_append_some _ _ t f hf with h1 | ⟨_, h2⟩
      · exact hw t f h1
      · cases h2
    | some res =>
      obtain ⟨a, e, ks⟩ := res
      rw [hl] at hf
      (try dsimp only at hf); (try dsimp only)
      simp only [Heap.filt] at hf
      rcases filt_append_some _ _ t f hf with h1 | ⟨_, h2⟩
      · have := hw t f h1
        simp only [List.length_append, List.length_cons, List.length_nil]; omega
      · simp only [Option.some.injEq] at h2
        subst h2
        simp only [List.length_append, List.length_cons, List.length_nil]; omega
  | setPoly t' p cs =>
    simp only [step] at hf ⊢
    cases hg : h.filt t' with
    | none => rw [hg] at hf; exact hw t f hf
    | some g =>
      rw [hg] at hf
      (try dsimp only at hf); (try dsimp only)
      simp only [Heap.filt] at hf
      have hgw := hw t' g hg
      simp only [List.length_append, List.length_cons, List.length_nil]
      rcases filt_set_some _ _ _ _ _ hf with ⟨_, h2⟩ | ⟨_, h2⟩
      · subst h2
        exact bind_cell_lt g p _ _ (by omega) (by omega) (by omega)
      · have := hw t f h2; omega
  | share t' p s q =>
    simp only [step] at hf ⊢
    cases hg : h.filt t' with
    | none =>
      cases hg' : h.filt s <;> (rw [hg, hg'] at hf; exact hw t f hf)
    | some g =>
      cases hg' : h.filt s with
      | none => rw [hg, hg'] at hf; exact hw t f hf
      | some g' =>
        rw [hg, hg'] at hf
        (try dsimp only at hf); (try dsimp only)
        simp only [Heap.filt] at hf
        have hgw := hw t' g hg
        have hgw' := hw s g' hg'
        rcases filt_set_some _ _ _ _ _ hf with ⟨_, h2⟩ | ⟨_, h2⟩
        · subst h2
          refine bind_cell_lt g p _ _ ?_ hgw.1 hgw.2
          cases q <;> simp [Filt.cell, hgw'.1, hgw'.2]
        · exact hw t f h2
  | set t' p i v =>
    simp only [step] at hf ⊢
    cases hg : h.filt t' with
    | none => rw [hg] at hf; exact hw t f hf
    | some g =>
      rw [hg] at hf
      (try dsimp only at hf); (try dsimp only)
      simp only [List.length_set]
      exact hw t f hf
  | parcor t' => exact hw t f hf
  | stable t' => exact hw t f hf
  | stableCasc t' s => exact hw t f hf

theorem run_wf (ops : List (Op L)) : ∀ (h : Heap L), h.wf → (run h ops).1.wf := by
  induction ops with
  | nil => intro h hw; exact hw
  | cons op ops ih => intro h hw; exact ih _ (step_wf h op hw)

theorem wf_empty : (Heap.empty : Heap L).wf := by
  intro t f hf
  simp [Heap.empty, Heap.filt] at hf

/-- **frame (Poly objects)**: an existing Poly object changes only by an in-place edit through a live
filter currently bound to it; constructors, rebinding, queries, failing operations leave it alone -/
theorem step_cell_frame (h : Heap L) (op : Op L) (c : Nat) (hc : c < h.cells.length) :
    (step h op).1.cell c = h.cell c ∨
      ∃ t p i v f, op = .set t p i v ∧ h.filt t = some f ∧ f.cell p = c := by
  cases op with
  | mk num den =>
    left; simp [step, Heap.cell, List.getD_eq_getElem?_getD, List.getElem?_append_left hc]
  | lev r order =>
    left
    simp only [step]
    cases levinson r order with
    | none => rfl
    | some res =>
      obtain ⟨a, e, ks⟩ := res
      simp [Heap.cell, List.getD_eq_getElem?_getD, List.getElem?_append_left hc]
  | setPoly t p cs =>
    left
    simp only [step]
    cases h.filt t with
    | none => rfl
    | some f => simp [Heap.cell, List.getD_eq_getElem?_getD, List.getElem?_append_left hc]
  | share t p s q =>
    left
    simp only [step]
    cases h.filt t with
    | none => rfl
    | some f => cases h.filt s <;> rfl
  | set t p i v =>
    simp only [step]
    cases hf : h.filt t with
    | none => left; rfl
    | some f =>
      by_cases e : f.cell p = c
      · right; exact ⟨t, p, i, v, f, rfl, hf, e⟩
      · left
        simp [Heap.cell, List.getD_eq_getElem?_getD, e]
  | parcor t => left; rfl
  | stable t => left; rfl
  | stableCasc t s => left; rfl

/-- **frame (filter objects)**: the bindings and the `error` attribute of an existing filter `t` change
only by `setPoly` / `share` aimed at `t` -/
theorem step_filt_frame (h : Heap L) (op : Op L) (t : Nat) (ht : t < h.filts.length) :
    (step h op).1.filt t = h.filt t ∨
      (∃ p cs, op = .setPoly t p cs) ∨ (∃ p s q, op = .share t p s q) := by
  cases op with
  | mk num den => left; simp only [step, Heap.filt]; exact filt_append_lt _ _ t ht
  | lev r order =>
    left
    simp only [step]
    cases levinson r order with
    | none => simp only [Heap.filt]; exact filt_append_lt _ _ t ht
    | some res => obtain ⟨a, e, ks⟩ := res; simp only [Heap.filt]; exact filt_append_lt _ _ t ht
  | setPoly t' p cs =>
    by_cases e : t' = t
    · subst e; right; left; exact ⟨p, cs, rfl⟩
    · left
      simp only [step]
      cases h.filt t' with
      | none => rfl
      | some f => simp [Heap.filt, List.getD_eq_getElem?_getD, e]
  | share t' p s q =>
    by_cases e : t' = t
    · subst e; right; right; exact ⟨p, s, q, rfl⟩
    · left
      simp only [step]
      cases h.filt t' with
      | none => rfl
      | some f =>
        cases h.filt s with
        | none => rfl
        | some g => simp [Heap.filt, List.getD_eq_getElem?_getD, e]
  | set t' p i v =>
    left
    simp only [step]
    cases h.filt t' <;> rfl
  | parcor t' => left; rfl
  | stable t' => left; rfl
  | stableCasc t' s => left; rfl

/-- contents right after `f.numpoly = Poly(cs)` on a live filter of a well-formed heap -/
theorem contents_setPoly_num (h : Heap L) (hw : h.wf) (t : Nat) (f : Filt L) (hf : h.filt t = some f)
    (cs : List L) :
    (step h (.setPoly t .num cs)).1.contents t = some (cs, h.cell f.den) := by
  have hlt : t < h.filts.length := by
    by_contra hn
    simp [Heap.filt, List.getD_eq_getElem?_getD, List.getElem?_eq_none (Nat.le_of_not_lt hn)] at hf
  have hd := (hw t f hf).2
  have hs : step h (.setPoly t .num cs)
      = (⟨h.cells ++ [cs], h.filts.set t (some (f.bind .num h.cells.length))⟩, .done) := by
    simp only [step, hf]
  rw [hs]
  simp [Heap.contents, Heap.filt, Heap.cell, Filt.bind, List.getD_eq_getElem?_getD, hlt, List.getElem?_append_left hd]

theorem contents_setPoly_den (h : Heap L) (hw : h.wf) (t : Nat) (f : Filt L) (hf : h.filt t = some f)
    (cs : List L) :
    (step h (.setPoly t .den cs)).1.contents t = some (h.cell f.num, cs) := by
  have hlt : t < h.filts.length := by
    by_contra hn
    simp [Heap.filt, List.getD_eq_getElem?_getD, List.getElem?_eq_none (Nat.le_of_not_lt hn)] at hf
  have hn := (hw t f hf).1
  have hs : step h (.setPoly t .den cs)
      = (⟨h.cells ++ [cs], h.filts.set t (some (f.bind .den h.cells.length))⟩, .done) := by
    simp only [step, hf]
  rw [hs]
  simp [Heap.contents, Heap.filt, Heap.cell, Filt.bind, List.getD_eq_getElem?_getD, hlt, List.getElem?_append_left hn]

/-- what an in-place edit does to the heap: the cell the live filter is bound to gets `setAt`,
nothing is rebound -/
theorem step_set (h : Heap L) (t : Nat) (p : Part) (i : Nat) (v : L) (f : Filt L)
    (hf : h.filt t = some f) :
    step h (.set t p i v)
      = (⟨h.cells.set (f.cell p) (setAt (h.cell (f.cell p)) i v), h.filts⟩, .done) := by
  simp only [step, hf]

theorem cell_set_self (h : Heap L) (c : Nat) (x : List L) (hc : c < h.cells.length) :
    (⟨h.cells.set c x, h.filts⟩ : Heap L).cell c = x := by
  simp [Heap.cell, List.getD_eq_getElem?_getD, hc]

/-- a run of in-place edits through one live filter: only that Poly object changes, by the edits folded
in order; no filter is rebound -/
theorem run_sets (t : Nat) (p : Part) (f : Filt L) : ∀ (es : List (Nat × L)) (h : Heap L),
    h.filt t = some f → f.cell p < h.cells.length →
    (run h (es.map fun e => Op.set t p e.1 e.2)).1
      = ⟨h.cells.set (f.cell p) (es.foldl (fun acc e => setAt acc e.1 e.2) (h.cell (f.cell p))), h.filts⟩ := by
  intro es
  induction es with
  | nil =>
    intro h _ hc
    simp only [List.map_nil, run, List.foldl_nil]
    cases h with
    | mk cells filts =>
      simp only [Heap.cell, Heap.mk.injEq, and_true]
      apply List.ext_getElem?
      intro j
      simp only [List.getElem?_set]
      by_cases e : f.cell p = j
      · subst e; simp [List.getD_eq_getElem?_getD, hc]
      · simp [e]
  | cons e es ih =>
    intro h hf hc
    simp only [List.map_cons, run, List.foldl_cons]
    rw [step_set h t p e.1 e.2 f hf]
    have hf' : (⟨h.cells.set (f.cell p) (setAt (h.cell (f.cell p)) e.1 e.2), h.filts⟩ : Heap L).filt t
        = some f := hf
    rw [ih _ hf' (by simpa using hc)]
    simp only [cell_set_self h _ _ hc, List.set_set]

/-- folding `poly[i] = cs[i]` over every power `i < m` -/
theorem foldl_setAt_range (l cs : List L) : ∀ m : Nat,
    let r := (List.range m).foldl (fun acc i => setAt acc i (cs.getD i 0)) l
    r.length = max l.length m ∧ ∀ j, r.getD j 0 = if j < m then cs.getD j 0 else l.getD j 0 := by
  intro m
  induction m with
  | zero => simp
  | succ m ih =>
    simp only [List.range_succ, List.foldl_append, List.foldl_cons, List.foldl_nil]
    obtain ⟨hl, hg⟩ := ih
    refine ⟨by rw [setAt_length, hl]; omega, ?_⟩
    intro j
    rw [getD_setAt, hg]
    by_cases e : j = m
    · subst e; simp
    · simp only [e, if_false]
      by_cases h1 : j < m
      · simp [h1, Nat.lt_succ_of_lt h1]
      · have : ¬ j < m + 1 := by omega
        simp [h1, this]

/-- overwriting every coefficient of a polynomial that is not longer than `cs` leaves exactly `cs` -/
theorem setAll_eq (l cs : List L) (h : l.length ≤ cs.length) :
    (List.range cs.length).foldl (fun acc i => setAt acc i (cs.getD i 0)) l = cs := by
  obtain ⟨hl, hg⟩ := foldl_setAt_range l cs cs.length
  apply List.ext_getElem (by rw [hl]; omega)
  intro j h1 h2
  have := hg j
  rw [if_pos h2, List.getD_eq_getElem?_getD, List.getD_eq_getElem?_getD,
    List.getElem?_eq_getElem h1, List.getElem?_eq_getElem h2] at this
  simpa using this

theorem step_parcor_obs (h : Heap L) (t : Nat) (n d : List L) (hc : h.contents t = some (n, d)) :
    (step h (.parcor t)).2 = parcorObs n d := by
  simp only [step, hc]

theorem step_stable_obs (h : Heap L) (t : Nat) (n d : List L) (hc : h.contents t = some (n, d)) :
    (step h (.stable t)).2 = .verdict (parcorStableFixed d) := by
  simp only [step, hc]

theorem run_append (a b : List (Op L)) : ∀ h : Heap L,
    run h (a ++ b) = ((run (run h a).1 b).1, (run h a).2 ++ (run (run h a).1 b).2) := by
  induction a with
  | nil => intro h; simp [run]
  | cons op a ih => intro h; simp only [List.cons_append, run, ih]

theorem cell_lt_of_wf (h : Heap L) (hw : h.wf) (t : Nat) (f : Filt L) (hf : h.filt t = some f) (p : Part) :
    f.cell p < h.cells.length := by
  cases p
  · exact (hw t f hf).1
  · exact (hw t f hf).2

/-- the heap after the caller's loop over all coefficients -/
theorem run_editItems (h : Heap L) (hw : h.wf) (t : Nat) (p : Part) (f : Filt L) (hf : h.filt t = some f)
    (cs : List L) (hlen : (h.cell (f.cell p)).length ≤ cs.length) :
    (run h (editItems t p cs)).1 = ⟨h.cells.set (f.cell p) cs, h.filts⟩ := by
  unfold editItems
  rw [run_sets t p f _ h hf (cell_lt_of_wf h hw t f hf p), List.foldl_map]
  rw [setAll_eq _ cs hlen]

end Step
end ALV.C11.Hist
