/-
  C13 — helper lemmas, part 1: the `ℝ` reading of the generic model terms; `trim` does not change
  any gain; closed forms of `|H(e^{jω})|²` for first and second order sections as rational
  functions of `cos ω`.
-/
import ALV.Lemmas.TrigFieldReal
import ALV.Spec.C13
import Mathlib.Tactic.Ring
import Mathlib.Tactic.Linarith
import Mathlib.Tactic.FieldSimp
import Mathlib.Tactic.Positivity
import Mathlib.Tactic.NormNum

set_option linter.unusedSectionVars false
set_option linter.unusedSimpArgs false

namespace ALV.C13
open ALV ALV.TrigField

/-- Python's `x == 0` on reals -/
noncomputable instance instZeroTestReal : ZeroTest ℝ := ⟨fun x => decide (x = 0)⟩

@[simp] theorem isZero_real (x : ℝ) : ZeroTest.isZero x = decide (x = 0) := rfl

@[simp] theorem c0_real : (c0 : ℝ) = 0 := by simp [c0]
@[simp] theorem c1_real : (c1 : ℝ) = 1 := by simp [c1]
@[simp] theorem c2_real : (c2 : ℝ) = 2 := by simp [c2]
@[simp] theorem half_real : (half : ℝ) = 1 / 2 := by simp [half]
@[simp] theorem sq_real (x : ℝ) : sq x = x ^ 2 := by
  simp only [sq, real_pow, real_ofInt]
  norm_cast

/-! ### trim -/

theorem trim_cons_real (c : ℝ) (cs : List ℝ) :
    trim (c :: cs) = if trim cs = [] then (if c = 0 then [] else [c]) else c :: trim cs := by
  rw [trim]
  cases h : trim cs with
  | nil => simp
  | cons x xs => simp

theorem polyEval_trim (w : ℝ) (l : List ℝ) : polyEval w (trim l) = polyEval w l := by
  induction l with
  | nil => rfl
  | cons c cs ih =>
    rw [trim_cons_real]
    by_cases h : trim cs = []
    · rw [h] at ih
      simp only [h, if_true]
      by_cases hc : c = 0
      · simp only [hc, if_true, polyEval, ← ih]; simp
      · simp only [hc, if_false, polyEval, ← ih]
    · simp only [h, if_false, polyEval, ih]

theorem cosSum_trim (ω : ℝ) (i : Nat) (l : List ℝ) : cosSum ω i (trim l) = cosSum ω i l := by
  induction l generalizing i with
  | nil => rfl
  | cons c cs ih =>
    rw [trim_cons_real]
    by_cases h : trim cs = []
    · have ih' := ih (i + 1)
      rw [h] at ih'
      simp only [h, if_true]
      by_cases hc : c = 0
      · simp only [hc, if_true, cosSum, ← ih']; simp
      · simp only [hc, if_false, cosSum, ← ih']
    · simp only [h, if_false, cosSum, ih]

theorem sinSum_trim (ω : ℝ) (i : Nat) (l : List ℝ) : sinSum ω i (trim l) = sinSum ω i l := by
  induction l generalizing i with
  | nil => rfl
  | cons c cs ih =>
    rw [trim_cons_real]
    by_cases h : trim cs = []
    · have ih' := ih (i + 1)
      rw [h] at ih'
      simp only [h, if_true]
      by_cases hc : c = 0
      · simp only [hc, if_true, sinSum, ← ih']; simp
      · simp only [hc, if_false, sinSum, ← ih']
    · simp only [h, if_false, sinSum, ih]

theorem polyMagSq_trim (ω : ℝ) (l : List ℝ) : polyMagSq (trim l) ω = polyMagSq l ω := by
  simp only [polyMagSq, cosSum_trim, sinSum_trim]

/-- a list whose last entry is non-zero is stored as it is -/
theorem trim_eq_self (l : List ℝ) (x : ℝ) (hx : x ≠ 0) : trim (l ++ [x]) = l ++ [x] := by
  induction l with
  | nil => simp [trim, hx]
  | cons c cs ih =>
    rw [List.cons_append, trim_cons_real, ih]
    simp

@[simp] theorem gainReal_mk (b a : List ℝ) (w : ℝ) :
    gainReal (mk b a) w = polyEval w b / polyEval w a := by
  simp only [gainReal, mk, polyEval_trim]

@[simp] theorem magSq_mk (b a : List ℝ) (ω : ℝ) :
    magSq (mk b a) ω = polyMagSq b ω / polyMagSq a ω := by
  simp only [magSq, mk, polyMagSq_trim]

/-! ### short lists -/

@[simp] theorem polyEval_one (w b0 : ℝ) : polyEval w [b0] = b0 := by simp [polyEval]
@[simp] theorem polyEval_two (w b0 b1 : ℝ) : polyEval w [b0, b1] = b0 + w * b1 := by simp [polyEval]
@[simp] theorem polyEval_three (w b0 b1 b2 : ℝ) :
    polyEval w [b0, b1, b2] = b0 + w * (b1 + w * b2) := by simp [polyEval]

theorem polyMagSq_one (ω b0 : ℝ) : polyMagSq [b0] ω = b0 ^ 2 := by
  simp [polyMagSq, cosSum, sinSum]; ring

/-- `|b0 + b1 e^{-jω}|² = b0² + 2 b0 b1 cos ω + b1²` -/
theorem polyMagSq_two (ω b0 b1 : ℝ) :
    polyMagSq [b0, b1] ω = b0 ^ 2 + 2 * b0 * b1 * Real.cos ω + b1 ^ 2 := by
  have h := Real.sin_sq_add_cos_sq ω
  simp [polyMagSq, cosSum, sinSum]
  nlinarith [h]

/-- `|b0 + b1 e^{-jω} + b2 e^{-2jω}|²` as a polynomial in `cos ω` -/
theorem polyMagSq_three (ω b0 b1 b2 : ℝ) :
    polyMagSq [b0, b1, b2] ω =
      b0 ^ 2 + b1 ^ 2 + b2 ^ 2 + 2 * b1 * (b0 + b2) * Real.cos ω
        + 2 * b0 * b2 * (2 * Real.cos ω ^ 2 - 1) := by
  have h := Real.sin_sq_add_cos_sq ω
  have hs : Real.sin ω ^ 2 = 1 - Real.cos ω ^ 2 := by linarith
  simp [polyMagSq, cosSum, sinSum, Real.cos_two_mul, Real.sin_two_mul]
  ring_nf
  rw [hs]
  ring

end ALV.C13
