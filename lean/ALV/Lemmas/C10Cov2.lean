/-
  C10 — helper lemmas, part 7: the loop invariant of `lpc.kcovar` holds; what a returning call
  establishes; the lag table as the documented sums; the residual energy over n ≥ p.
-/
import ALV.Lemmas.C10Cov

namespace ALV.C10
open Finset
variable {K : Type} [Field K] [DecidableEq K]

theorem kcInv_zero (phi : List (List K)) (h2 : 2 ≤ phi.length) :
    KInv phi 0 ⟨[1], [delay 1], [innerM phi (delay 1) (delay 1)]⟩ := by
  have hB : BInv phi 0 (delay 1 : List K) :=
    ⟨by rw [delay_length], by rw [coef_delay]; simp, by rw [coef_delay]; simp,
      fun i h1 h2 => by omega⟩
  refine ⟨by simp [coef], by simp, fun i h1 h2 => by omega, by simp, by simp, ?_, ?_⟩
  · intro q hq
    have : q = 0 := by omega
    subst this
    exact hB
  · intro q hq
    have : q = 0 := by omega
    subst this
    show coef [innerM phi (delay 1) (delay 1)] 0 = _
    rw [coef_cons_zero]
    exact innerM_eq_bil phi _ _ _ (by rw [delay_length]; omega) (by rw [delay_length]; omega)

theorem kcIter_inv {phi : List (List K)} (hsym : ∀ i j, phiOf phi i j = phiOf phi j i)
    {unstable : K → Bool} (m : ℕ) (s : KState K) (hm : m + 2 ≤ phi.length)
    (h : kcIter phi unstable m = .ok s) : KInv phi m s := by
  induction m generalizing s with
  | zero =>
    simp only [kcIter] at h
    injection h with h; subst h
    exact kcInv_zero phi hm
  | succ m ih =>
    simp only [kcIter] at h
    cases h0 : kcIter phi unstable m with
    | error e => rw [h0] at h; cases h
    | ok s0 =>
      rw [h0] at h
      have hinv := ih s0 (by omega) h0
      cases h1 : kcUpdate phi unstable (m + 1) s0 with
      | error e => simp [h1, bind, Except.bind] at h
      | ok s1 =>
        simp only [h1, bind, Except.bind] at h
        obtain ⟨hB, hbeta, ha0, halen, haorth⟩ := kcUpdate_ok hinv (by omega) h1
        obtain ⟨hA2, hblen2, hbetalen2, hbinv2, hbeta2⟩ :=
          kcExtend_ok hsym (m := m) (s1 := s1) (s2 := s) hm
            (by rw [hB]; exact hinv.blen) (by rw [hbeta]; exact hinv.betalen)
            (by rw [hB]; exact hinv.binv) (by rw [hB, hbeta]; exact hinv.beta) h
        exact ⟨by rw [hA2]; exact ha0, by rw [hA2]; exact halen, by rw [hA2]; exact haorth,
          hblen2, hbetalen2, hbinv2, hbeta2⟩

/-- what a returning `kcovarOn` establishes -/
theorem kcovarOn_ok {phi : List (List K)} (hsym : ∀ i j, phiOf phi i j = phiOf phi j i)
    {unstable : K → Bool} {a : List K} {e : K} (h : kcovarOn phi unstable = .ok (a, e)) :
    2 ≤ phi.length ∧ coef a 0 = 1 ∧ a.length ≤ phi.length ∧
      (∀ i, 1 ≤ i → i < phi.length → bil (phiOf phi) phi.length (coef a) (unitv i) = 0) ∧
      e = innerM phi a a := by
  unfold kcovarOn at h
  split at h
  · cases h
  · next hlen =>
    obtain ⟨m, hm⟩ : ∃ m, phi.length = m + 2 := ⟨phi.length - 2, by omega⟩
    have e2 : phi.length - 1 = m + 1 := by omega
    simp only [e2, Nat.add_sub_cancel] at h
    cases h0 : kcIter phi unstable m with
    | error e' => simp [h0, bind, Except.bind] at h
    | ok s0 =>
      simp only [h0, bind, Except.bind] at h
      have hinv := kcIter_inv hsym m s0 (by omega) h0
      cases h1 : kcUpdate phi unstable (m + 1) s0 with
      | error e' => simp [h1] at h
      | ok s1 =>
        simp only [h1] at h
        obtain ⟨_, _, ha0, halen, haorth⟩ := kcUpdate_ok hinv (by omega) h1
        injection h with h
        injection h with h2 h3
        subst h2
        exact ⟨by omega, ha0, by omega, fun i hi1 hi2 => haorth i hi1 (by omega), h3.symm⟩

/-! ### the lag table -/

omit [DecidableEq K] in
theorem phiOf_lagTable (blk : List K) (L i j : ℕ) :
    phiOf (lagTable blk L) i j = if i ≤ L ∧ j ≤ L then lagAt blk L j i else 0 := by
  unfold phiOf lagTable
  by_cases hi : i ≤ L
  · have : ((List.range (L + 1)).map fun j => (List.range (L + 1)).map fun i =>
        sumL ((List.range (blk.length - L)).map fun k =>
          coef blk (L + k - i) * coef blk (L + k - j))).getD i [] =
        (List.range (L + 1)).map fun c =>
          sumL ((List.range (blk.length - L)).map fun k =>
            coef blk (L + k - c) * coef blk (L + k - i)) := by
      simp [List.getD_eq_getElem?_getD, Nat.lt_succ_of_le hi]
    rw [this, coef_map_range]
    by_cases hj : j ≤ L
    · simp [hi, hj, Nat.lt_succ_of_le hj, lagAt]
    · simp [hj]
  · have : ((List.range (L + 1)).map fun j => (List.range (L + 1)).map fun i =>
        sumL ((List.range (blk.length - L)).map fun k =>
          coef blk (L + k - i) * coef blk (L + k - j))).getD i [] = [] := by
      have hi' : (List.range (L + 1))[i]? = none := by
        rw [List.getElem?_eq_none]; simp; omega
      rw [List.getD_eq_getElem?_getD, List.getElem?_map, hi']
      rfl
    rw [this, coef_nil]
    simp [hi]

omit [DecidableEq K] in
theorem lagAt_eq_sum (blk : List K) (L i j : ℕ) :
    lagAt blk L i j = ∑ k ∈ range (blk.length - L), coef blk (L + k - i) * coef blk (L + k - j) := by
  unfold lagAt; rw [sumL_map_range]

omit [DecidableEq K] in
theorem lagAt_symm (blk : List K) (L i j : ℕ) : lagAt blk L i j = lagAt blk L j i := by
  rw [lagAt_eq_sum, lagAt_eq_sum]
  exact Finset.sum_congr rfl fun k _ => mul_comm _ _

omit [DecidableEq K] in
theorem phiOf_lagTable_symm (blk : List K) (L i j : ℕ) :
    phiOf (lagTable blk L) i j = phiOf (lagTable blk L) j i := by
  rw [phiOf_lagTable, phiOf_lagTable, lagAt_symm]
  by_cases h : i ≤ L ∧ j ≤ L
  · rw [if_pos h, if_pos h.symm]
  · rw [if_neg h, if_neg (fun h' => h h'.symm)]

omit [DecidableEq K] in
theorem lagTable_length (blk : List K) (L : ℕ) : (lagTable blk L).length = L + 1 := by
  simp [lagTable]

omit [DecidableEq K] in
/-- `⟨a, z^-i⟩` over the lag table is the left side of the i-th covariance equation -/
theorem bil_lagTable_unit (blk a : List K) (p i : ℕ) (hi : i ≤ p) :
    bil (phiOf (lagTable blk p)) (p + 1) (coef a) (unitv i) = covResidual blk a p i := by
  rw [bil_unit_right _ _ _ _ (by omega)]
  unfold covResidual
  rw [sumL_map_range]
  refine Finset.sum_congr rfl fun k hk => ?_
  have hk' : k ≤ p := by simpa [Nat.lt_succ_iff] using hk
  rw [phiOf_lagTable, if_pos ⟨hk', hi⟩]
  ring

omit [DecidableEq K] in
/-- the code's `inner(A, A)` over the lag table is the residual energy over n ≥ p -/
theorem innerM_lagTable_self (blk a : List K) (p : ℕ) (ha : a.length ≤ p + 1) :
    innerM (lagTable blk p) a a = covEnergy a blk p := by
  rw [innerM_eq_bil _ a a (p + 1) ha ha]
  unfold covEnergy bil
  rw [sumL_map_range]
  simp only [sumL_map_range]
  simp_rw [Finset.sum_mul_sum]
  symm
  rw [Finset.sum_comm]
  refine Finset.sum_congr rfl fun i hi => ?_
  rw [Finset.sum_comm]
  refine Finset.sum_congr rfl fun j hj => ?_
  have hi' : i ≤ p := by simpa [Nat.lt_succ_iff] using hi
  have hj' : j ≤ p := by simpa [Nat.lt_succ_iff] using hj
  rw [phiOf_lagTable, if_pos ⟨hi', hj'⟩, lagAt_eq_sum, mul_assoc, Finset.sum_mul]
  refine Finset.sum_congr rfl fun k _ => ?_
  ring

/-- what a returning `lpc.kcovar` call establishes -/
theorem kcovarWith_ok {unstable : K → Bool} {blk : List K} {order : Option ℕ} {a : List K} {e : K}
    (h : kcovarWith unstable blk order = .ok (a, e)) :
    blkOrder blk order < blk.length ∧
      kcovarOn (lagTable blk (blkOrder blk order)) unstable = .ok (a, e) := by
  unfold kcovarWith lagMatrix at h
  cases order with
  | none =>
    simp only [blkOrder, Option.getD_none] at h ⊢
    by_cases h0 : blk.length = 0
    · simp [h0, bind, Except.bind, kcovarOn] at h
    · simp only [h0, if_false, bind, Except.bind] at h
      exact ⟨by omega, h⟩
  | some L =>
    simp only [blkOrder, Option.getD_some] at h ⊢
    by_cases h0 : L ≥ blk.length
    · simp [h0, bind, Except.bind] at h
    · simp only [h0, if_false, bind, Except.bind] at h
      exact ⟨by omega, h⟩

end ALV.C10
