/-
  C02 — stages that leave their loop early (`StopStage`): the generator protocol with an exit
  test, requests past the end, truncation of the source, `limit`, rounding of spelled counts.
  Core Lean only.
-/
import ALV.Lemmas.C02Top
import ALV.Model.C02Stop
namespace ALV.C02
open ALV ALV.Stage
variable {ι ο π σ τ α : Type}

namespace StopStage

/-! ### unfolding the protocol -/

theorem demand_pend (X : StopStage ι ο σ) (s : σ) (o : ο) (p : List ο) (r : Nat) (e : Bool)
    (xs : List ι) : X.demand ⟨s, o :: p, r, e⟩ xs = (some o, ⟨s, p, r, e⟩, xs) := by
  rw [demand]

theorem demand_ended (X : StopStage ι ο σ) (s : σ) (r : Nat) (xs : List ι) :
    X.demand ⟨s, [], r, true⟩ xs = (none, ⟨s, [], r, true⟩, xs) := by
  rw [demand]

theorem demand_nil (X : StopStage ι ο σ) (s : σ) (r : Nat) :
    X.demand ⟨s, [], r, false⟩ [] = X.finish s r [] := by
  rw [demand]

theorem demand_done (X : StopStage ι ο σ) (s : σ) (r : Nat) (x : ι) (xs : List ι)
    (h : X.done s = true) : X.demand ⟨s, [], r, false⟩ (x :: xs) = X.finish s r (x :: xs) := by
  rw [demand, if_pos h]

theorem demand_read (X : StopStage ι ο σ) (s : σ) (r : Nat) (x : ι) (xs : List ι)
    (h : X.done s = false) :
    X.demand ⟨s, [], r, false⟩ (x :: xs) =
      X.demand ⟨(X.base.onItem s x).1, (X.base.onItem s x).2, r + 1, false⟩ xs := by
  rw [demand, if_neg (by simp [h])]

theorem finish_fst (X : StopStage ι ο σ) (s : σ) (r : Nat) (xs ys : List ι) :
    (X.finish s r xs).1 = (X.finish s r ys).1 ∧ (X.finish s r xs).2.1 = (X.finish s r ys).2.1 ∧
      (X.finish s r xs).2.2 = xs ∧ (X.finish s r xs).2.1.st = s ∧
      (X.finish s r xs).2.1.nread = r ∧ (X.finish s r xs).2.1.ended = true := by
  unfold finish
  cases X.base.onEnd s <;> simp

/-! ### the source is read at most up to the cut -/

theorem cutFrom_le (X : StopStage ι ο σ) : ∀ (xs : List ι) (s : σ), X.cutFrom s xs ≤ xs.length := by
  intro xs
  induction xs with
  | nil => intro s; simp [cutFrom]
  | cons x xs ih =>
    intro s
    simp only [cutFrom, List.length_cons]
    split
    · omega
    · have := ih (X.base.onItem s x).1; omega

/-- **truncation, one request**: on the source cut at the exit point a request has the same
    result, and what is left of the cut source is the cut of what is left -/
theorem demand_trunc (X : StopStage ι ο σ) : ∀ (xs : List ι) (c : Cfg σ ο),
    X.demand c (xs.take (X.cutFrom c.st xs)) =
      ((X.demand c xs).1, (X.demand c xs).2.1,
        (X.demand c xs).2.2.take (X.cutFrom (X.demand c xs).2.1.st (X.demand c xs).2.2)) := by
  intro xs
  induction xs with
  | nil =>
    intro c
    obtain ⟨s, p, r, e⟩ := c
    cases p with
    | cons o p => simp [demand_pend]
    | nil =>
      cases e with
      | true => simp [demand_ended]
      | false =>
        simp only [List.take_nil, demand_nil]
        obtain ⟨h1, h2, h3, h4, h5, h6⟩ := X.finish_fst s r [] []
        rw [h3]
        exact Prod.ext rfl (Prod.ext rfl (by simp [h3]))
  | cons x xs ih =>
    intro c
    obtain ⟨s, p, r, e⟩ := c
    cases p with
    | cons o p => simp [demand_pend]
    | nil =>
      cases e with
      | true => simp [demand_ended]
      | false =>
        cases hd : X.done s with
        | true =>
          have hc : X.cutFrom s (x :: xs) = 0 := by simp [cutFrom, hd]
          show X.demand ⟨s, [], r, false⟩ (List.take (X.cutFrom s (x :: xs)) (x :: xs)) = _
          rw [hc, List.take_zero, demand_nil, demand_done X s r x xs hd]
          obtain ⟨h1, h2, h3, h4, h5, h6⟩ := X.finish_fst s r [] (x :: xs)
          obtain ⟨_, _, g3, g4, _, _⟩ := X.finish_fst s r (x :: xs) []
          rw [g3, g4, hc, List.take_zero]
          apply Prod.ext
          · exact h1
          · apply Prod.ext
            · exact h2
            · exact h3
        | false =>
          have hc : X.cutFrom s (x :: xs) = X.cutFrom (X.base.onItem s x).1 xs + 1 := by
            simp [cutFrom, hd]
          show X.demand ⟨s, [], r, false⟩ (List.take (X.cutFrom s (x :: xs)) (x :: xs)) = _
          rw [hc, List.take_succ_cons, demand_read X s r x _ hd, demand_read X s r x xs hd]
          exact ih ⟨(X.base.onItem s x).1, (X.base.onItem s x).2, r + 1, false⟩

/-- **truncation, any number of requests** -/
theorem probeFrom_trunc (X : StopStage ι ο σ) : ∀ (K : Nat) (c : Cfg σ ο) (xs : List ι),
    X.probeFrom K c (xs.take (X.cutFrom c.st xs)) = X.probeFrom K c xs := by
  intro K
  induction K with
  | zero => intro c xs; rfl
  | succ K ih =>
    intro c xs
    simp only [probeFrom]
    rw [demand_trunc X xs c]
    simp only
    rw [ih]

/-- every read item comes off the list: counter + rest is conserved by a request -/
theorem demand_conserve (X : StopStage ι ο σ) : ∀ (xs : List ι) (c : Cfg σ ο),
    (X.demand c xs).2.1.nread + (X.demand c xs).2.2.length = c.nread + xs.length := by
  intro xs
  induction xs with
  | nil =>
    intro c
    obtain ⟨s, p, r, e⟩ := c
    cases p with
    | cons o p => simp [demand_pend]
    | nil =>
      cases e with
      | true => simp [demand_ended]
      | false =>
        rw [demand_nil]
        obtain ⟨_, _, h3, _, h5, _⟩ := X.finish_fst s r [] []
        rw [h3, h5]
  | cons x xs ih =>
    intro c
    obtain ⟨s, p, r, e⟩ := c
    cases p with
    | cons o p => simp [demand_pend]
    | nil =>
      cases e with
      | true => simp [demand_ended]
      | false =>
        cases hd : X.done s with
        | true =>
          rw [demand_done X s r x xs hd]
          obtain ⟨_, _, h3, _, h5, _⟩ := X.finish_fst s r (x :: xs) []
          rw [h3, h5]
        | false =>
          rw [demand_read X s r x xs hd]
          have := ih ⟨(X.base.onItem s x).1, (X.base.onItem s x).2, r + 1, false⟩
          simp only [List.length_cons] at this ⊢
          omega

theorem probeFrom_le (X : StopStage ι ο σ) : ∀ (K : Nat) (c : Cfg σ ο) (xs : List ι)
    (p : Bool × Nat), p ∈ X.probeFrom K c xs → p.2 ≤ c.nread + xs.length := by
  intro K
  induction K with
  | zero => intro c xs p h; simp [probeFrom] at h
  | succ K ih =>
    intro c xs p h
    simp only [probeFrom, List.mem_cons] at h
    have hc := demand_conserve X xs c
    rcases h with h | h
    · subst h; show (X.demand c xs).2.1.nread ≤ _; omega
    · have := ih _ _ p h; omega

/-- the cut depends only on the items in front of it -/
theorem cutFrom_congr (X : StopStage ι ο σ) : ∀ (xs ys : List ι) (s : σ),
    X.cutFrom s xs < xs.length → xs.take (X.cutFrom s xs) = ys.take (X.cutFrom s xs) →
      X.cutFrom s ys = X.cutFrom s xs := by
  intro xs
  induction xs with
  | nil => intro ys s h; simp at h
  | cons x xs ih =>
    intro ys s hlt htake
    cases hd : X.done s with
    | true =>
      have hc : X.cutFrom s (x :: xs) = 0 := by simp [cutFrom, hd]
      rw [hc]
      cases ys with
      | nil => rfl
      | cons y ys => simp [cutFrom, hd]
    | false =>
      have hc : X.cutFrom s (x :: xs) = X.cutFrom (X.base.onItem s x).1 xs + 1 := by
        simp [cutFrom, hd]
      rw [hc] at hlt htake ⊢
      cases ys with
      | nil => simp at htake
      | cons y ys =>
        simp only [List.take_succ_cons, List.cons.injEq] at htake
        obtain ⟨hxy, ht⟩ := htake
        subst hxy
        have := ih ys (X.base.onItem s x).1 (by simp at hlt; omega) ht
        simp only [cutFrom, hd, Bool.false_eq_true, if_false]
        rw [this]

/-! ### asked past the end -/

theorem probeFrom_dead (X : StopStage ι ο σ) (s : σ) (r : Nat) : ∀ (K : Nat) (xs : List ι),
    X.probeFrom K ⟨s, [], r, true⟩ xs = List.replicate K (false, r) := by
  intro K
  induction K with
  | zero => intro xs; rfl
  | succ K ih =>
    intro xs
    simp only [probeFrom, demand_ended, List.replicate_succ]
    rw [ih]; rfl

/-- a request that fails leaves a finished generator: no pending output, `ended` -/
theorem demand_none_dead (X : StopStage ι ο σ) : ∀ (xs : List ι) (c : Cfg σ ο),
    (X.demand c xs).1 = none →
      (X.demand c xs).2.1.pend = [] ∧ (X.demand c xs).2.1.ended = true := by
  intro xs
  induction xs with
  | nil =>
    intro c h
    obtain ⟨s, p, r, e⟩ := c
    cases p with
    | cons o p => simp [demand_pend] at h
    | nil =>
      cases e with
      | true => simp [demand_ended]
      | false =>
        rw [demand_nil] at h ⊢
        unfold finish at h ⊢
        cases hE : X.base.onEnd s with
        | nil => simp
        | cons o p => rw [hE] at h; simp at h
  | cons x xs ih =>
    intro c h
    obtain ⟨s, p, r, e⟩ := c
    cases p with
    | cons o p => simp [demand_pend] at h
    | nil =>
      cases e with
      | true => simp [demand_ended]
      | false =>
        cases hd : X.done s with
        | true =>
          rw [demand_done X s r x xs hd] at h ⊢
          unfold finish at h ⊢
          cases hE : X.base.onEnd s with
          | nil => simp
          | cons o p => rw [hE] at h; simp at h
        | false =>
          rw [demand_read X s r x xs hd] at h ⊢
          exact ih _ h

/-- **past the end**: after the first failed request every further request fails too and the
    pull counter does not move -/
theorem probeFrom_after_fail (X : StopStage ι ο σ) (K : Nat) (c : Cfg σ ο) (xs : List ι)
    (h : (X.demand c xs).1 = none) :
    X.probeFrom (K + 1) c xs = List.replicate (K + 1) (false, (X.demand c xs).2.1.nread) := by
  obtain ⟨hp, he⟩ := demand_none_dead X xs c h
  simp only [probeFrom, List.replicate_succ]
  have hcfg : (X.demand c xs).2.1 =
      ⟨(X.demand c xs).2.1.st, [], (X.demand c xs).2.1.nread, true⟩ := by
    cases hx : (X.demand c xs).2.1 with
    | mk s p r e => rw [hx] at hp he; simp at hp he; simp [hp, he]
  rw [h]
  congr 1
  rw [hcfg, probeFrom_dead]

/-! ### a stage that never leaves its loop is the plain protocol -/

theorem demand_never (S : Stage ι ο σ) : ∀ (xs : List ι) (c : Cfg σ ο),
    S.demand c xs = match (never S).demand c xs with
      | (some o, c', xs') => some (o, c', xs')
      | (none, _, _) => none := by
  intro xs
  induction xs with
  | nil =>
    intro c
    obtain ⟨s, p, r, e⟩ := c
    cases p with
    | cons o p => rw [demand_pend, Stage.demand]
    | nil =>
      cases e with
      | true => rw [demand_ended, Stage.demand]
      | false =>
        rw [demand_nil, Stage.demand]
        unfold finish never
        cases S.onEnd s <;> rfl
  | cons x xs ih =>
    intro c
    obtain ⟨s, p, r, e⟩ := c
    cases p with
    | cons o p => rw [demand_pend, Stage.demand]
    | nil =>
      cases e with
      | true => rw [demand_ended, Stage.demand]
      | false =>
        rw [demand_read (never S) s r x xs rfl, Stage.demand]
        exact ih _

/-- the successful requests of `never S` are the `pulls` of the plain stage `S` -/
theorem probeFrom_never (S : Stage ι ο σ) : ∀ (K : Nat) (c : Cfg σ ο) (xs : List ι),
    (((never S).probeFrom K c xs).filter (·.1)).map (·.2) = S.pullsFrom K c xs := by
  intro K
  induction K with
  | zero => intro c xs; rfl
  | succ K ih =>
    intro c xs
    cases hd : ((never S).demand c xs).1 with
    | none =>
      rw [probeFrom_after_fail _ K c xs hd, pullsFrom, demand_never S xs c]
      have : (match (never S).demand c xs with
          | (some o, c', xs') => some (o, c', xs')
          | (none, _, _) => (none : Option (ο × Cfg σ ο × List ι))) = none := by
        rcases hx : (never S).demand c xs with ⟨a, b, d⟩
        rw [hx] at hd; simp at hd; subst hd; rfl
      rw [this]
      simp
    | some o =>
      rw [pullsFrom, demand_never S xs c]
      simp only [probeFrom]
      rcases hx : (never S).demand c xs with ⟨a, b, d⟩
      rw [hx] at hd; simp at hd; subst hd
      simp only [Option.isSome_some, List.filter_cons_of_pos, List.map_cons]
      rw [ih]

/-! ### cutting the outputs: `S` followed by `limit(c)` reads what `S` needs for `c` outputs -/

theorem cutFrom_cap (S : Stage ι ο σ) (c : Nat) : ∀ (xs : List ι) (s : σ) (m j : Nat),
    S.needFrom s m xs = some j → ((never S).cap c).cutFrom (s, m) xs = j := by
  intro xs
  induction xs with
  | nil =>
    intro s m j h
    cases m with
    | zero => rw [needFrom_zero] at h; cases h; rfl
    | succ m => simp [needFrom] at h
  | cons x xs ih =>
    intro s m j h
    cases m with
    | zero =>
      rw [needFrom_zero] at h; cases h
      simp [cutFrom, cap, never]
    | succ m =>
      rw [needFrom] at h
      cases hr : S.needFrom (S.onItem s x).1 (m + 1 - (S.onItem s x).2.length) xs with
      | none => rw [hr] at h; cases h
      | some j' =>
        rw [hr] at h
        simp only [Option.map_some] at h
        cases h
        have := ih (S.onItem s x).1 (m + 1 - (S.onItem s x).2.length) j' hr
        have hd : ((never S).cap c).done (s, m + 1) = false := by simp [cap, never]
        rw [cutFrom, if_neg (by simp [hd])]
        show ((never S).cap c).cutFrom ((S.onItem s x).1, m + 1 - (S.onItem s x).2.length) xs + 1 = _
        rw [this]

end StopStage

/-! ### `limit`: the closed form, also past the end -/

theorem probeFrom_limitX (N : Nat) : ∀ (K m r : Nat) (xs : List α),
    (limitX N).probeFrom K ⟨((), m), [], r, false⟩ xs =
      (List.range K).map (fun k => (decide (k < min m xs.length), r + min (k + 1) (min m xs.length))) := by
  intro K
  induction K with
  | zero => intro m r xs; rfl
  | succ K ih =>
    intro m r xs
    cases xs with
    | nil =>
      simp only [StopStage.probeFrom]
      rw [StopStage.demand_nil]
      have hf : (limitX (α := α) N).finish ((), m) r [] = (none, ⟨((), m), [], r, true⟩, []) := by
        simp [StopStage.finish, limitX, StopStage.cap, StopStage.never, mapS]
      rw [hf]
      simp only [Option.isSome_none]
      rw [StopStage.probeFrom_dead]
      simp only [List.length_nil, Nat.min_zero, Nat.not_lt_zero, decide_false, Nat.add_zero]
      rw [← List.replicate_succ]
      apply List.ext_getElem
      · simp
      · intro i h1 h2; simp
    | cons x xs =>
      cases m with
      | zero =>
        simp only [StopStage.probeFrom]
        rw [StopStage.demand_done _ _ _ _ _ (by simp [limitX, StopStage.cap, StopStage.never])]
        have hf : (limitX (α := α) N).finish ((), 0) r (x :: xs) =
            (none, ⟨((), 0), [], r, true⟩, x :: xs) := by
          simp [StopStage.finish, limitX, StopStage.cap, StopStage.never, mapS]
        rw [hf]
        simp only [Option.isSome_none]
        rw [StopStage.probeFrom_dead]
        simp only [Nat.zero_min, Nat.not_lt_zero, decide_false, Nat.min_zero, Nat.add_zero]
        rw [← List.replicate_succ]
        apply List.ext_getElem
        · simp
        · intro i h1 h2; simp
      | succ m =>
        simp only [StopStage.probeFrom]
        rw [StopStage.demand_read _ _ _ _ _ (by simp [limitX, StopStage.cap, StopStage.never])]
        have hstep : (limitX (α := α) N).demand
            ⟨((limitX (α := α) N).base.onItem ((), m + 1) x).1,
             ((limitX (α := α) N).base.onItem ((), m + 1) x).2, r + 1, false⟩ xs =
            (some x, ⟨((), m), [], r + 1, false⟩, xs) := by
          have e1 : ((limitX (α := α) N).base.onItem ((), m + 1) x) = (((), m), [x]) := by
            simp [limitX, StopStage.cap, StopStage.never, mapS]
          rw [e1, StopStage.demand_pend]
        rw [hstep]
        simp only [Option.isSome_some]
        rw [ih m (r + 1) xs, List.range_succ_eq_map, List.map_cons, List.map_map]
        congr 1
        · simp only [List.length_cons]
          congr 1
          · simp
          · omega
        · apply List.map_congr_left
          intro k _
          simp only [Function.comp, List.length_cons]
          congr 1
          · simp only [decide_eq_decide]; omega
          · omega

/-! ### `takewhile`: the failing item is read, nothing after it -/

theorem takewhileX_finish (n i r : Nat) (xs : List α) :
    (takewhileX (α := α) n).finish i r xs = (none, ⟨i, [], r, true⟩, xs) := by
  simp [StopStage.finish, takewhileX, filterS]

theorem probeFrom_takewhileX (n : Nat) : ∀ (K i r : Nat) (xs : List α), i ≤ n →
    (takewhileX n).probeFrom K ⟨i, [], r, false⟩ xs =
      (List.range K).map (fun k => (decide (k < min (n - i) xs.length),
        r + min (k + 1) (min (n + 1 - i) xs.length))) := by
  intro K
  induction K with
  | zero => intro i r xs _; rfl
  | succ K ih =>
    intro i r xs hi
    have hnd : (takewhileX (α := α) n).done i = false := by
      simp [takewhileX]; omega
    cases xs with
    | nil =>
      simp only [StopStage.probeFrom]
      rw [StopStage.demand_nil, takewhileX_finish]
      simp only [Option.isSome_none]
      rw [StopStage.probeFrom_dead]
      simp only [List.length_nil, Nat.min_zero, Nat.not_lt_zero, decide_false, Nat.add_zero]
      rw [← List.replicate_succ]
      apply List.ext_getElem
      · simp
      · intro j h1 h2; simp
    | cons x xs =>
      simp only [StopStage.probeFrom]
      rw [StopStage.demand_read _ _ _ _ _ hnd]
      by_cases hlt : i < n
      · have e1 : ((takewhileX (α := α) n).base.onItem i x) = (i + 1, [x]) := by
          simp [takewhileX, filterS, hlt]
        rw [e1, StopStage.demand_pend]
        simp only [Option.isSome_some]
        rw [ih (i + 1) (r + 1) xs (by omega), List.range_succ_eq_map, List.map_cons, List.map_map]
        congr 1
        · simp only [List.length_cons]
          congr 1
          · simp; omega
          · omega
        · apply List.map_congr_left
          intro k _
          simp only [Function.comp, List.length_cons]
          congr 1
          · simp only [decide_eq_decide]; omega
          · omega
      · have hin : i = n := by omega
        subst hin
        have e1 : ((takewhileX (α := α) i).base.onItem i x) = (i + 1, []) := by
          simp [takewhileX, filterS]
        have hdone : (takewhileX (α := α) i).done (i + 1) = true := by simp [takewhileX]
        have hd : (takewhileX (α := α) i).demand ⟨i + 1, [], r + 1, false⟩ xs =
            (none, ⟨i + 1, [], r + 1, true⟩, xs) := by
          cases xs with
          | nil => rw [StopStage.demand_nil, takewhileX_finish]
          | cons y ys => rw [StopStage.demand_done _ _ _ _ _ hdone, takewhileX_finish]
        rw [e1, hd]
        simp only [Option.isSome_none]
        rw [StopStage.probeFrom_dead]
        simp only [Nat.sub_self, Nat.zero_min, Nat.not_lt_zero, decide_false, List.length_cons]
        rw [← List.replicate_succ]
        apply List.ext_getElem
        · simp
        · intro j h1 h2
          simp only [List.getElem_replicate, List.getElem_map, List.getElem_range]
          congr 1
          omega

/-! ### rounding of a spelled count -/

theorem pyRound_int (z : Int) : pyRound (z : Rat) = z := by
  unfold pyRound
  simp only [Rat.floor_intCast]
  have : ((z : Rat) - ((z : Int) : Rat)) = 0 := by grind
  rw [this]
  have h : (0 : Rat) < 1 / 2 := by decide +kernel
  simp [h]

/-- Python's `round` is a nearest integer: it is within one half of its argument -/
theorem pyRound_near (q : Rat) : (pyRound q : Rat) - 1 / 2 ≤ q ∧ q ≤ (pyRound q : Rat) + 1 / 2 := by
  unfold pyRound
  have h1 := Rat.floor_le q
  have h2 := Rat.lt_floor_add_one q
  simp only
  split
  · constructor <;> grind
  · split
    · push_cast; constructor <;> grind
    · split
      · constructor <;> grind
      · push_cast; constructor <;> grind

/-- on a tie Python's `round` picks the EVEN neighbour (`limit(2.5)` keeps 2 items, `limit(3.5)` 4) -/
theorem pyRound_tie (z : Int) : pyRound ((z : Rat) + 1 / 2) = if z % 2 = 0 then z else z + 1 := by
  unfold pyRound
  have hf : ((z : Rat) + 1 / 2).floor = z := by
    apply Int.le_antisymm
    · have := (Rat.floor_lt_iff (a := (z : Rat) + 1 / 2) (x := z + 1)).2 (by push_cast; grind)
      omega
    · rw [Rat.le_floor_iff]; grind
  simp only [hf]
  have hd : (z : Rat) + 1 / 2 - (z : Rat) = 1 / 2 := by grind
  rw [hd]
  simp

end ALV.C02
