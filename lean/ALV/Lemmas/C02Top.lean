/-
  C02 — every stage descriptor of the driver, and every chain of them, has the closed form
  of the specification; sources that may be endless.
-/
import ALV.Lemmas.C02Aux
namespace ALV.C02
open ALV ALV.Stage
variable {ι ο σ α : Type}

theorem HasNeed.congr {S : Stage ι ο σ} {f g : Nat → Nat} (h : HasNeed S f) (e : ∀ k, f k = g k) :
    HasNeed S g := by
  intro xs k hk
  rw [← e k] at hk ⊢
  exact h xs k hk

theorem hasNeed_build (d : Desc) (hv : d.Valid) : HasNeed (build d).st (needOf d) := by
  cases d with
  | sample => exact (hasNeed_mapS _).congr (fun _ => rfl)
  | scan => exact (hasNeed_scanS _ _).congr (fun _ => rfl)
  | first => exact (hasNeed_firstThenS _ _).congr (fun _ => rfl)
  | zcross known =>
    exact (HasNeed.comp (hasNeed_zcrossS _ _ _ _) (hasNeed_mapS _)).congr (fun _ => rfl)
  | filt pat => exact hasNeed_filterS pat
  | skip n => exact (hasNeed_skipS n).congr (fun _ => rfl)
  | pad pre post =>
    exact (hasNeed_padS (List.replicate pre ()) (List.replicate post ())).congr
      (fun k => by simp [needOf])
  | islice start step => exact (hasNeed_isliceS start step hv).congr (fun _ => rfl)
  | blocks size hop =>
    exact (HasNeed.comp (hasNeed_blocksS size hop hv.1 hv.2 ()) (hasNeed_mapS _)).congr (fun _ => rfl)
  | ola size hop => exact (hasNeed_olaS size hop hv.1 _ _).congr (fun _ => rfl)
  | stft size hop ola =>
    have hs : 0 < size := Nat.lt_of_lt_of_le hv.1 hv.2
    cases ola with
    | true => exact (hasNeed_stftS size hop hs hv.1 () _ _ _).congr (fun _ => rfl)
    | false => exact (hasNeed_stftBlkS size hop hs hv.1 () _).congr (fun _ => rfl)
  | par n => exact (hasNeed_parN n).congr (fun _ => rfl)
  | cascade n => exact (hasNeed_cascadeN n).congr (fun _ => rfl)
  | resample order step => exact hasNeed_resampleS order step hv
  | resampleTV order steps => exact hasNeed_resampleTVS order steps hv
  | smix delta =>
    exact (hasNeed_smixS delta ()).congr (fun k => by simp [needOf, smixStart_eq])
  | attack n => exact (hasNeed_attackS n _).congr (fun _ => rfl)

theorem hasNeed_buildChain : ∀ (ds : List Desc), (∀ d ∈ ds, d.Valid) →
    HasNeed (buildChain ds).st (needOfChain ds)
  | [], _ => (hasNeed_mapS _).congr (fun _ => rfl)
  | d :: ds, hv =>
    (HasNeed.comp (hasNeed_build d (hv d (List.mem_cons_self ..)))
      (hasNeed_buildChain ds (fun e he => hv e (List.mem_cons_of_mem _ he)))).congr (fun _ => rfl)

/-- what the driver computes as `model` (the generator protocol run on the composed machine)
    is what it computes as `spec` (the composed closed forms) -/
theorem pulls_of_hasNeed {S : Stage ι ο σ} {f : Nat → Nat} (h : HasNeed S f) (xs : List ι)
    (K k : Nat) (hk : k < K) (hn : f (k + 1) ≤ xs.length) :
    (S.pulls xs K)[k]? = some (f (k + 1)) := by
  have h1 : (S.reads xs)[k]? = some (f (k + 1)) := by rw [reads_getElem]; exact h xs (k + 1) hn
  have hlt : k < (S.reads xs).length := by
    apply Nat.lt_of_not_le; intro hle
    rw [List.getElem?_eq_none hle] at h1; cases h1
  rw [pulls_eq, List.getElem?_take_of_lt hk, runReads, List.getElem?_append_left hlt, h1]

theorem take_zip : ∀ (xs : List α) (ys : List ι) (j : Nat),
    (xs.zip ys).take j = (xs.take j).zip (ys.take j)
  | [], _, j => by simp
  | _ :: _, [], j => by simp
  | x :: xs, y :: ys, 0 => by simp
  | x :: xs, y :: ys, j + 1 => by simp [take_zip xs ys j]

/-! ### possibly endless sources -/

theorem Seq.take_length_le (s : Seq α) : ∀ j, (s.take j).length ≤ j
  | 0 => Nat.le_refl 0
  | j + 1 => by
    have := Seq.take_length_le s j
    simp only [Seq.take, List.length_append]
    cases s.get j <;> simp <;> omega

theorem Seq.take_length_endless (s : Seq α) (hs : s.Endless) : ∀ j, (s.take j).length = j
  | 0 => rfl
  | j + 1 => by
    have := Seq.take_length_endless s hs j
    simp only [Seq.take, List.length_append]
    cases h : s.get j with
    | none => exact absurd h (hs j)
    | some a => simp; omega

theorem Seq.take_prefix (s : Seq α) : ∀ {j j' : Nat}, j ≤ j' → s.take j <+: s.take j' := by
  intro j j' h
  induction h with
  | refl => exact List.prefix_refl _
  | step _ ih => exact ih.trans (by simp only [Seq.take]; exact List.prefix_append _ _)

theorem Seq.take_congr {s t : Seq α} : ∀ {j : Nat}, Seq.agreeUpTo j s t → s.take j = t.take j
  | 0, _ => rfl
  | j + 1, h => by
    simp only [Seq.take]
    rw [Seq.take_congr (fun i hi => h i (Nat.lt_succ_of_lt hi)), h j (Nat.lt_succ_self j)]

theorem Seq.take_take (s : Seq α) {j n : Nat} (h : j ≤ n) : (s.take n).take j = s.take j ∨
    (s.take j).length < j := by
  by_cases hl : (s.take j).length = j
  · left
    have hp := Seq.take_prefix s h
    rw [prefix_eq_take hp, hl]
  · right
    have := Seq.take_length_le s j
    omega

/-! ### both counters of the two-source machine under the generator protocol -/

theorem cumSum_getElem : ∀ (l : List Nat) (a k : Nat), k < l.length →
    (cumSum a l)[k]? = some (a + (l.take (k + 1)).sum)
  | [], _, _, h => by simp at h
  | c :: cs, a, 0, _ => by simp [cumSum]
  | c :: cs, a, k + 1, h => by
    simp only [cumSum, List.getElem?_cons_succ]
    rw [cumSum_getElem cs (a + c) k (by simpa using h)]
    simp [List.take_succ_cons]; omega

theorem rsStep_run (order : Nat) (steps : List Rat) :
    (rsStepS order).run steps = (rsStepS order).emit steps := by
  simp [run, rsStepS]

theorem rsStep_emit_length (order : Nat) (steps : List Rat) :
    ((rsStepS order).emit steps).length = steps.length + 1 := by
  simp only [emit, List.length_append, emitFrom_unit_length _ (rsStep_unit order)]
  simp [rsStepS]; omega

theorem rsTwoSource_getElem (order : Nat) (steps : List Rat) (hs : ∀ s ∈ steps, 0 ≤ s)
    (K k : Nat) (hk : k < K) (hlen : k ≤ steps.length) :
    (rsTwoSource order steps K)[k]? = some (needResampleTV order steps (k + 1), k) := by
  have hp : ((rsStepS order).pulls steps K)[k]? = some k := by
    have := pulls_of_hasNeed (hasNeed_rsStepS order) steps K k hk (by simp [auxNeedLag1]; exact hlen)
    simpa [auxNeedLag1] using this
  have ho : (rsStepS order).outs steps K = ((rsStepS order).emit steps).take K := by
    rw [outs_eq, rsStep_run]
  have hl := rsStep_emit_length order steps
  have hc : (cumSum 0 ((rsStepS order).outs steps K))[k]? =
      some (needResampleTV order steps (k + 1)) := by
    rw [ho, cumSum_getElem _ _ _ (by rw [List.length_take, hl]; omega), List.take_take]
    have hm : min (k + 1) K = k + 1 := by omega
    rw [hm, Nat.zero_add]
    have := rsStep_emit_sum order steps hs (k + 1)
    rw [hl] at this
    have hz : k + 1 - (steps.length + 1) = 0 := by omega
    rw [hz, Nat.add_zero] at this
    rw [this]
  unfold rsTwoSource
  rw [List.getElem?_zip_eq_some]
  exact ⟨hc, hp⟩

end ALV.C02
