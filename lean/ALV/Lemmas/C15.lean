/-
  C15 — helper lemmas: Python-dict algebra, de-duplication, and the simulation of every
  MultiKeyDict operation (three maps) by the abstract map (`Log`).  Core Lean only.
-/
import ALV.Model.C15
import ALV.Spec.C15

namespace ALV.C15

/-! ## dict algebra -/
section Dict
variable {A B : Type} [DecidableEq A]

@[simp] theorem dget_nil (k : A) : dget ([] : Dict A B) k = none := rfl

theorem dget_cons (a : A) (b : B) (r : Dict A B) (k : A) :
    dget ((a, b) :: r) k = if a = k then some b else dget r k := rfl

theorem dget_some_mem {d : Dict A B} {k : A} {v : B} (h : dget d k = some v) : (k, v) ∈ d := by
  induction d with
  | nil => simp at h
  | cons e r ih =>
    obtain ⟨a, b⟩ := e
    rw [dget_cons] at h
    by_cases hak : a = k
    · simp [hak] at h; simp [hak, h]
    · simp [hak] at h; exact List.mem_cons_of_mem _ (ih h)

theorem dget_eq_none_iff {d : Dict A B} {k : A} : dget d k = none ↔ ∀ e ∈ d, e.1 ≠ k := by
  induction d with
  | nil => simp
  | cons e r ih =>
    obtain ⟨a, b⟩ := e
    rw [dget_cons]
    by_cases hak : a = k
    · simp [hak]
    · simp [hak, ih]

theorem dget_isSome_of_mem {d : Dict A B} {k : A} {v : B} (h : (k, v) ∈ d) : (dget d k).isSome := by
  cases hg : dget d k with
  | some _ => rfl
  | none => exact absurd rfl (dget_eq_none_iff.mp hg _ h)

/-- a binding that is the only one of its key is the one `dget` finds -/
theorem dget_of_mem_unique {d : Dict A B} {k : A} {v : B} (h : (k, v) ∈ d)
    (hu : ∀ e ∈ d, e.1 = k → e.2 = v) : dget d k = some v := by
  induction d with
  | nil => simp at h
  | cons e r ih =>
    obtain ⟨a, b⟩ := e
    rw [dget_cons]
    by_cases hak : a = k
    · have := hu (a, b) (List.mem_cons_self) hak
      simp [hak]; exact this
    · simp only [hak, if_false]
      apply ih
      · rcases List.mem_cons.mp h with h | h
        · exact absurd (congrArg Prod.fst h).symm hak
        · exact h
      · intro e he; exact hu e (List.mem_cons_of_mem _ he)

theorem dget_of_mem_nodup {d : Dict A B} {k : A} {v : B} (hn : (d.map (·.1)).Nodup) (h : (k, v) ∈ d) :
    dget d k = some v := by
  induction d with
  | nil => simp at h
  | cons e r ih =>
    obtain ⟨a, b⟩ := e
    rw [dget_cons]
    simp only [List.map_cons, List.nodup_cons] at hn
    rcases List.mem_cons.mp h with h | h
    · cases h; simp
    · have : a ≠ k := by
        intro hak; subst hak
        exact hn.1 (List.mem_map.mpr ⟨(a, v), h, rfl⟩)
      simp [this]; exact ih hn.2 h

theorem dget_derase (d : Dict A B) (k x : A) :
    dget (derase d k) x = if x = k then none else dget d x := by
  induction d with
  | nil => simp [derase]
  | cons e r ih =>
    obtain ⟨a, b⟩ := e
    unfold derase at ih ⊢
    by_cases hak : a = k
    · subst hak
      simp only [List.filter_cons, ne_eq, not_true_eq_false, decide_false, Bool.false_eq_true, if_false]
      rw [ih, dget_cons]
      by_cases hx : x = a
      · simp [hx]
      · have : ¬ a = x := fun h => hx h.symm
        simp [hx, this]
    · simp only [List.filter_cons, ne_eq, hak, not_false_eq_true, decide_true, if_true]
      rw [dget_cons, dget_cons, ih]
      by_cases hax : a = x
      · subst hax; simp [hak]
      · simp [hax]

theorem dget_dset (d : Dict A B) (k : A) (v : B) (x : A) :
    dget (dset d k v) x = if x = k then some v else dget d x := by
  induction d with
  | nil =>
    simp only [dset, dget_cons, dget_nil]
    by_cases h : k = x
    · simp [h]
    · have : ¬ x = k := fun h' => h h'.symm
      simp [h, this]
  | cons e r ih =>
    obtain ⟨a, b⟩ := e
    simp only [dset]
    by_cases hak : a = k
    · subst hak
      simp only [if_true, dget_cons]
      by_cases hax : a = x
      · simp [hax]
      · have : ¬ x = a := fun h' => hax h'.symm
        simp [hax, this]
    · simp only [hak, if_false, dget_cons, ih]
      by_cases hax : a = x
      · subst hax; simp [hak]
      · simp [hax]

theorem dset_of_absent {d : Dict A B} {k : A} (v : B) (h : dget d k = none) :
    dset d k v = d ++ [(k, v)] := by
  induction d with
  | nil => rfl
  | cons e r ih =>
    obtain ⟨a, b⟩ := e
    rw [dget_cons] at h
    by_cases hak : a = k
    · simp [hak] at h
    · simp only [hak, if_false] at h
      simp [dset, hak, ih h]

theorem dget_foldl_dset (ks : List A) (t : B) (d : Dict A B) (x : A) :
    dget (ks.foldl (fun d k => dset d k t) d) x = if x ∈ ks then some t else dget d x := by
  induction ks generalizing d with
  | nil => simp
  | cons k r ih =>
    simp only [List.foldl_cons, ih, dget_dset, List.mem_cons]
    by_cases hx : x ∈ r
    · simp [hx]
    · by_cases hxk : x = k <;> simp [hx, hxk]

theorem mem_derase {d : Dict A B} {k : A} {e : A × B} : e ∈ derase d k ↔ e ∈ d ∧ e.1 ≠ k := by
  simp [derase]

theorem dhas_eq_true_iff {d : Dict A B} {k : A} : dhas d k = true ↔ ∃ v, dget d k = some v := by
  simp [dhas, Option.isSome_iff_exists]

theorem ddel_of_get {d : Dict A B} {k : A} {v : B} (h : dget d k = some v) :
    ddel d k = some (derase d k) := by
  simp [ddel, dhas, h]

theorem nodup_keys_derase {d : Dict A B} (k : A) (h : (d.map (·.1)).Nodup) :
    ((derase d k).map (·.1)).Nodup :=
  List.Nodup.sublist (List.Sublist.map _ List.filter_sublist) h

theorem dget_filter_key (d : Dict A B) (p : A → Bool) (x : A) :
    dget (d.filter (fun e => p e.1)) x = if p x then dget d x else none := by
  induction d with
  | nil => simp
  | cons e r ih =>
    obtain ⟨a, b⟩ := e
    rw [List.filter_cons]
    by_cases hpa : p a = true
    · simp only [hpa, if_true, dget_cons, ih]
      by_cases hax : a = x
      · subst hax; simp [hpa]
      · simp [hax]
    · simp only [hpa, Bool.false_eq_true, if_false, ih, dget_cons]
      by_cases hax : a = x
      · subst hax; simp [hpa]
      · simp [hax]

theorem dget_append (d d' : Dict A B) (x : A) :
    dget (d ++ d') x = match dget d x with
      | some v => some v
      | none => dget d' x := by
  induction d with
  | nil => simp
  | cons e r ih =>
    obtain ⟨a, b⟩ := e
    rw [List.cons_append, dget_cons, dget_cons, ih]
    by_cases hax : a = x <;> simp [hax]

theorem dget_map_const (ks : List A) (v : B) (x : A) :
    dget (ks.map (fun k => (k, v))) x = if x ∈ ks then some v else none := by
  induction ks with
  | nil => simp
  | cons k r ih =>
    rw [List.map_cons, dget_cons, ih]
    by_cases hkx : k = x
    · simp [hkx]
    · have : ¬ x = k := fun h => hkx h.symm
      simp [hkx, this]

theorem keys_dset (d : Dict A B) (k : A) (v : B) :
    (dset d k v).map (·.1) = if dhas d k then d.map (·.1) else d.map (·.1) ++ [k] := by
  induction d with
  | nil => simp [dset, dhas]
  | cons e r ih =>
    obtain ⟨a, b⟩ := e
    by_cases hak : a = k
    · simp [dset, dhas, dget_cons, hak]
    · simp only [dset, hak, if_false, List.map_cons, ih, dhas, dget_cons]
      split <;> simp_all

theorem nodup_keys_dset {d : Dict A B} (k : A) (v : B) (h : (d.map (·.1)).Nodup) :
    ((dset d k v).map (·.1)).Nodup := by
  rw [keys_dset]
  split
  · exact h
  · rename_i hk
    have hk' : dget d k = none := by
      cases hg : dget d k with
      | none => rfl
      | some _ => simp [dhas, hg] at hk
    rw [List.nodup_append]
    refine ⟨h, by simp, ?_⟩
    intro a ha b hb
    simp only [List.mem_singleton] at hb
    subst hb
    obtain ⟨e, he, rfl⟩ := List.mem_map.mp ha
    exact dget_eq_none_iff.mp hk' e he

theorem nodup_keys_foldl_dset (ks : List A) (t : B) {d : Dict A B} (h : (d.map (·.1)).Nodup) :
    ((ks.foldl (fun d k => dset d k t) d).map (·.1)).Nodup := by
  induction ks generalizing d with
  | nil => exact h
  | cons k r ih => exact ih (nodup_keys_dset k t h)

end Dict

/-! ## de-duplication -/
section Dedup
variable {K : Type} [DecidableEq K]

@[simp] theorem dedupLast_nil : dedupLast ([] : List K) = [] := rfl

theorem dedupLast_cons (k : K) (r : List K) :
    dedupLast (k :: r) = if k ∈ r then dedupLast r else k :: dedupLast r := rfl

@[simp] theorem mem_dedupLast {x : K} {l : List K} : x ∈ dedupLast l ↔ x ∈ l := by
  induction l with
  | nil => simp
  | cons k r ih =>
    rw [dedupLast_cons]
    by_cases h : k ∈ r
    · simp only [h, if_true, ih, List.mem_cons]
      constructor
      · exact Or.inr
      · rintro (rfl | h') <;> assumption
    · simp [h, ih]

theorem nodup_dedupLast (l : List K) : (dedupLast l).Nodup := by
  induction l with
  | nil => simp
  | cons k r ih =>
    rw [dedupLast_cons]
    by_cases h : k ∈ r
    · simp [h, ih]
    · simp [h, ih]

theorem dedupLast_of_nodup {l : List K} (h : l.Nodup) : dedupLast l = l := by
  induction l with
  | nil => rfl
  | cons k r ih =>
    simp only [List.nodup_cons] at h
    rw [dedupLast_cons]; simp [h.1, ih h.2]

theorem dedupLast_eq_nil {l : List K} : dedupLast l = [] ↔ l = [] := by
  constructor
  · intro h
    cases l with
    | nil => rfl
    | cons k r =>
      have : k ∈ dedupLast (k :: r) := mem_dedupLast.mpr List.mem_cons_self
      rw [h] at this; simp at this
  · rintro rfl; rfl

/-- the keys of the first list that are given again count at their later position -/
theorem dedupLast_append (a b : List K) :
    dedupLast (a ++ b) = (dedupLast a).filter (fun k => k ∉ b) ++ dedupLast b := by
  induction a with
  | nil => simp
  | cons k r ih =>
    rw [List.cons_append, dedupLast_cons, dedupLast_cons, ih]
    by_cases hr : k ∈ r
    · simp [hr]
    · by_cases hb : k ∈ b
      · simp [hr, hb]
      · simp [hr, hb]

/-- the loop of the code (`reversed`, `append`, `reversed`) computes `dedupLast` -/
theorem dedupLastCode_eq (l : List K) : dedupLastCode l = dedupLast l := by
  unfold dedupLastCode
  induction l with
  | nil => rfl
  | cons k r ih =>
    rw [List.reverse_cons, List.foldl_append, List.foldl_cons, List.foldl_nil, dedupLast_cons]
    have hmem : ∀ x, x ∈ List.foldl (fun keyList k => if k ∈ keyList then keyList else keyList ++ [k]) [] r.reverse
        ↔ x ∈ r := by
      intro x
      rw [← List.mem_reverse, ih, mem_dedupLast]
    by_cases h : k ∈ r
    · simp only [(hmem k).mpr h, if_true, h, ih]
    · have h' := mt (hmem k).mp h
      simp only [h', if_false, h, List.reverse_append, List.reverse_cons, List.reverse_nil,
        List.nil_append, List.cons_append, ih]

end Dedup
end ALV.C15
