/-
  C06 — the definitions regenerated from the source (`ALV/Gen/C06Src.lean`) are the hand-written
  hub model (`ALV/Model/C06Hub.lean`): the counted hubs never run out of copies, the dictionary
  statements are `accum`.  Core Lean only.
-/
import ALV.Gen.C06Src

set_option linter.unusedSectionVars false
set_option linter.unusedSimpArgs false

namespace ALV.C06.Hub

theorem optAll_map_some {β γ : Type} (l : List β) (f : β → Option γ) (h : β → γ)
    (hf : ∀ x ∈ l, f x = some (h x)) : optAll (l.map f) = some (l.map h) := by
  induction l with
  | nil => rfl
  | cons x r ih =>
    have hx := hf x (by simp)
    have hr := ih (fun y hy => hf y (by simp [hy]))
    simp [optAll, hx, hr]

section
variable {α : Type} [Add α] [Sub α] [Mul α] [Div α] [OfNat α 0] [OfNat α 1] [DecidableEq α]

/-- a counted hub forgets its count -/
def HubN.total (h : HubN α) : Nat → HC α := fun i => (h i).getD (.c 0)

theorem thubN_snd (v : HC α) (n g : Nat) : (thubN v n g).2 = (thub v g).2 := by
  cases v <;> rfl

theorem thubN_use (v : HC α) (n g i : Nat) (hi : i < n) :
    (thubN v n g).1 i = some ((thub v g).1 i) := by
  cases v <;> simp [thubN, thub, hi]

/-- every hub of the counted list has copies `0 … n-1`, and they are the model's copies -/
theorem thubListN_spec (p : HPoly α) (n g : Nat) :
    (thubListN p n g).2 = (thubAll p g).2
    ∧ (thubListN p n g).1.length = p.length
    ∧ ∀ j (hj : j < (thubListN p n g).1.length) (hj' : j < (thubAll p g).1.length),
        ((thubListN p n g).1[j]).1 = ((thubAll p g).1[j]).1
        ∧ ∀ i, i < n → ((thubListN p n g).1[j]).2 i = some (((thubAll p g).1[j]).2 i) := by
  induction p generalizing g with
  | nil => simp [thubListN, thubAll]
  | cons kv r ih =>
    obtain ⟨k, v⟩ := kv
    have h2 := thubN_snd v n g
    obtain ⟨i1, i2, i3⟩ := ih (thub v g).2
    simp only [thubListN, thubAll, h2]
    refine ⟨i1, by simp [i2], ?_⟩
    intro j hj hj'
    cases j with
    | zero => exact ⟨rfl, fun i hi => thubN_use v n g i hi⟩
    | succ j =>
      simp only [List.length_cons, Nat.add_lt_add_iff_right] at hj hj'
      simpa using i3 j hj hj'

theorem thubAll_length (p : HPoly α) (g : Nat) : (thubAll p g).1.length = p.length := by
  induction p generalizing g with
  | nil => rfl
  | cons kv r ih => obtain ⟨k, v⟩ := kv; simp [thubAll, ih]

/-- two lists of the same length mapped with their indexes, item by item -/
theorem optAll_zipIdx_map {β β' γ : Type} (A : List β) (A' : List β') (n : Nat)
    (F : β × Nat → Option γ) (F' : β' × Nat → γ) (hl : A.length = A'.length)
    (h : ∀ j (hj : j < A.length) (hj' : j < A'.length), F (A[j], n + j) = some (F' (A'[j], n + j))) :
    optAll ((A.zipIdx n).map F) = some ((A'.zipIdx n).map F') := by
  induction A generalizing A' n with
  | nil =>
    cases A' with
    | nil => rfl
    | cons _ _ => simp at hl
  | cons a r ih =>
    cases A' with
    | nil => simp at hl
    | cons a' r' =>
      have h0 := h 0 (by simp) (by simp)
      simp only [List.getElem_cons_zero, Nat.add_zero] at h0
      have hr := ih r' (n + 1) (by simpa using hl) (fun j hj hj' => by
        have := h (j + 1) (by simp; omega) (by simp; omega)
        simpa [Nat.add_assoc, Nat.add_comm 1 j] using this)
      simp [List.zipIdx_cons, optAll, h0, hr]

theorem accum_eq (d : HPoly α) (k : Int) (v : HC α) :
    accum d k v = if hasKey d k then augItem .add d k v else newItem d k v := by
  induction d with
  | nil => simp [accum, hasKey, newItem]
  | cons kw r ih =>
    obtain ⟨k', w⟩ := kw
    by_cases hk : k' = k
    · simp [accum, hasKey, augItem, hk]
    · have hb : (k' == k) = false := by simpa using hk
      simp only [accum, hk, if_false, ih, hasKey, List.any_cons, hb, Bool.false_or, augItem, newItem]
      split <;> simp [*]

theorem putCoef_absent (d : HPoly α) (k : Int) (v : HC α) (h : ∀ kv ∈ d, kv.1 ≠ k) :
    putCoef d k v = d ++ [(k, v)] := by
  induction d with
  | nil => rfl
  | cons kw r ih =>
    obtain ⟨k', w⟩ := kw
    have hk : k' ≠ k := h (k', w) (by simp)
    simp [putCoef, hk, ih (fun kv hkv => h kv (by simp [hkv]))]

theorem accum_keys (d : HPoly α) (k : Int) (v : HC α) :
    ∀ kv ∈ accum d k v, kv.1 = k ∨ ∃ kv' ∈ d, kv'.1 = kv.1 := by
  induction d with
  | nil => intro kv h; simp [accum] at h; left; simp [h]
  | cons kw r ih =>
    obtain ⟨k', w⟩ := kw
    intro kv h
    by_cases hk : k' = k
    · simp only [accum, hk, if_true, List.mem_cons] at h
      rcases h with h | h
      · left; simp [h]
      · right; exact ⟨kv, by simp [h], rfl⟩
    · simp only [accum, hk, if_false, List.mem_cons] at h
      rcases h with h | h
      · right; exact ⟨(k', w), by simp, by simp [h]⟩
      · rcases ih kv h with h1 | ⟨kv', h2, h3⟩
        · left; exact h1
        · right; exact ⟨kv', by simp [h2], h3⟩

theorem foldl_accum_keys (terms acc : HPoly α) :
    ∀ kv ∈ terms.foldl (fun acc kv => accum acc kv.1 kv.2) acc,
      (∃ kv' ∈ acc, kv'.1 = kv.1) ∨ ∃ t ∈ terms, t.1 = kv.1 := by
  induction terms generalizing acc with
  | nil => intro kv h; left; exact ⟨kv, h, rfl⟩
  | cons t r ih =>
    intro kv h
    rcases ih (accum acc t.1 t.2) kv h with ⟨kv', h1, h2⟩ | ⟨t', h1, h2⟩
    · rcases accum_keys acc t.1 t.2 kv' h1 with h3 | ⟨kv'', h3, h4⟩
      · right; exact ⟨t, by simp, by rw [← h2, h3]⟩
      · left; exact ⟨kv'', h3, by rw [h4, h2]⟩
    · right; exact ⟨t', by simp [h1], h2⟩

theorem thubAll_keys (p : HPoly α) (g : Nat) :
    ∀ kh ∈ (thubAll p g).1, ∃ a ∈ p, a.1 = kh.1 := by
  induction p generalizing g with
  | nil => intro kh h; simp [thubAll] at h
  | cons kv r ih =>
    obtain ⟨k, v⟩ := kv
    intro kh h
    simp only [thubAll, List.mem_cons] at h
    rcases h with h | h
    · exact ⟨(k, v), by simp, by simp [h]⟩
    · obtain ⟨a, ha, hk⟩ := ih _ kh h
      exact ⟨a, by simp [ha], hk⟩

/-- every power of a product is a sum of a power of each factor -/
theorem mulHub_keys (p q : HPoly α) (g : Nat) :
    ∀ kv ∈ (mulHub p q g).1, ∃ a ∈ p, ∃ b ∈ q, kv.1 = a.1 + b.1 := by
  intro kv h
  unfold mulHub at h
  simp only [List.mem_filter] at h
  rcases foldl_accum_keys _ [] kv h.1 with ⟨_, h1, _⟩ | ⟨t, h1, h2⟩
  · simp at h1
  · simp only [List.mem_flatMap, List.mem_map] at h1
    obtain ⟨x, hx, y, hy, rfl⟩ := h1
    obtain ⟨a, ha, hka⟩ := thubAll_keys p g x.1 (List.fst_mem_of_mem_zipIdx hx)
    obtain ⟨b, hb, hkb⟩ := thubAll_keys q _ y.1 (List.fst_mem_of_mem_zipIdx hy)
    exact ⟨a, ha, b, hb, by rw [← h2, hka, hkb]⟩

end
end ALV.C06.Hub

namespace ALV.Gen.C06
open ALV.C06.Hub
variable {α : Type} [Add α] [Sub α] [Mul α] [Div α] [OfNat α 0] [OfNat α 1] [DecidableEq α]

/-- the regenerated `Poly.__mul__` never runs out of hub copies and is the hand-written `mulHub` -/
theorem mulHub_eq (p q : HPoly α) (g : Nat) :
    mulHub p q g = some (ALV.C06.Hub.mulHub p q g) := by
  obtain ⟨a2, al, ai⟩ := thubListN_spec p q.length g
  obtain ⟨b2, bl, bi⟩ := thubListN_spec q p.length (thubListN p q.length g).2
  have tal := thubAll_length p g
  have tbl := thubAll_length q (thubAll p g).2
  rw [a2] at b2 bl bi
  have hc : crossN (thubListN p q.length g).1 (thubListN q p.length (thubAll p g).2).1
      (fun k1 k2 => (k1 + k2)) (fun v1 v2 => (HC.op .mul v1 v2))
      = some (((thubAll p g).1.zipIdx).flatMap fun (kh1, i1) =>
          ((thubAll q (thubAll p g).2).1.zipIdx).map fun (kh2, i2) =>
            (kh1.1 + kh2.1, HC.op .mul (kh1.2 i2) (kh2.2 i1))) := by
    unfold crossN
    rw [optAll_zipIdx_map _ (thubAll p g).1 0 _
      (fun (kh1, i1) => ((thubAll q (thubAll p g).2).1.zipIdx).map fun (kh2, i2) =>
            (kh1.1 + kh2.1, HC.op .mul (kh1.2 i2) (kh2.2 i1))) (by omega)]
    · simp [List.flatMap]
    · intro j hj hj'
      simp only [Nat.zero_add]
      apply optAll_zipIdx_map _ _ 0 _ _ (by omega)
      intro j2 hj2 hj2'
      simp only [Nat.zero_add]
      obtain ⟨ka, ua⟩ := ai j hj hj'
      obtain ⟨kb, ub⟩ := bi j2 hj2 hj2'
      rw [ua j2 (by omega), ub j (by omega), ka, kb]
  have hf : (fun (d : HPoly α) (kv : Int × HC α) =>
      if hasKey d kv.1 then augItem .add d kv.1 kv.2 else newItem d kv.1 kv.2)
      = (fun acc kv => accum acc kv.1 kv.2) := by
    funext acc kv
    exact (accum_eq acc kv.1 kv.2).symm
  unfold mulHub ALV.C06.Hub.mulHub
  simp only [a2, b2, hc, Option.map_some, polyOf, hf]

/-- the regenerated `Poly.__truediv__` (number / Stream divisor) is the hand-written `divHub` -/
theorem divHub_eq (p : HPoly α) (c : HC α) (g : Nat) :
    divHub p c g = some (ALV.C06.Hub.divHub p c g) := by
  have hm : mapItemsN p (thubN c p.length g).1 (fun k => k) (fun v c => (HC.op .div v c))
      = some (p.zipIdx.map fun (kv, j) => (kv.1, HC.op .div kv.2 ((thub c g).1 j))) := by
    unfold mapItemsN
    apply optAll_map_some
    intro x hx
    have := List.snd_lt_of_mem_zipIdx hx
    obtain ⟨kv, j⟩ := x
    simp only at this ⊢
    rw [thubN_use c p.length g j (by omega)]
    rfl
  unfold divHub ALV.C06.Hub.divHub
  simp only [hm, thubN_snd, Option.map_some, polyOf]

/-- dividing by the one-term Poly `value * x^delta` = lowering every power by `delta`, then dividing by
`value` -/
theorem divTermHub_eq (p : HPoly α) (delta : Int) (c : HC α) (g : Nat) :
    divTermHub p delta c g = divHub (p.map fun kv => (kv.1 - delta, kv.2)) c g := by
  unfold divTermHub divHub mapItemsN
  simp [List.zipIdx_map, Function.comp_def]

/-- the regenerated Stream-gain block is the hand-written `gainHub` (`den[0]` being the Stream `e0`) -/
theorem gainHub_eq (num den : HPoly α) (e0 : It α) (g : Nat) (h0 : findC den 0 = .s e0) :
    gainHub num den g = some (ALV.C06.Hub.gainHub num den e0 g) := by
  have hk : ∀ kv ∈ (ALV.C06.Hub.mulHub (den.filter fun kv => !(kv.1 == 0))
      [(0, HC.s (.tee g 1 (.bl .div 1 e0)))] (g + 1)).1, kv.1 ≠ 0 := by
    intro kv hkv
    obtain ⟨a, ha, b, hb, hab⟩ := mulHub_keys _ _ _ kv hkv
    simp only [List.mem_filter, List.mem_singleton] at ha hb
    subst hb
    have : a.1 ≠ 0 := by simpa using ha.2
    simpa [hab] using this
  unfold gainHub ALV.C06.Hub.gainHub
  simp [h0, HC.op, copyHC, mulHub_eq, polyOfScalar, polyOf, isZeroC, delCoef, putCoef_absent _ _ _ hk]

end ALV.Gen.C06
