/-
  C05 — system algebra: how the rational function a causal filter denotes determines its transfer
  function `tf` in `K⟦X⟧`, and the resulting laws of the response
  (`resp (f+g) = resp f + resp g`, `resp (f·g) = resp f ∘ resp g`, …).
-/
import ALV.Lemmas.C05Signal

set_option linter.unusedSectionVars false
set_option linter.unusedSimpArgs false

open PowerSeries

namespace ALV.C05
open ALV.C07
variable {K : Type} [Field K] [DecidableEq K]

/-! ### fractions of power series with invertible denominators -/

theorem ps_ne_zero {d : K⟦X⟧} (hd : constantCoeff d ≠ 0) : d ≠ 0 := by
  rintro rfl; simp at hd

theorem ps_frac_eq {n d n' d' : K⟦X⟧} (hd : constantCoeff d ≠ 0) (hd' : constantCoeff d' ≠ 0)
    (h : n * d' = n' * d) : n * d⁻¹ = n' * d'⁻¹ := by
  have e1 := PowerSeries.mul_inv_cancel d hd
  have e2 := PowerSeries.mul_inv_cancel d' hd'
  apply mul_left_cancel₀ (mul_ne_zero (ps_ne_zero hd) (ps_ne_zero hd'))
  linear_combination (d' * n) * e1 - (d * n') * e2 + h

theorem constantCoeff_mul_ne {d d' : K⟦X⟧} (hd : constantCoeff d ≠ 0) (hd' : constantCoeff d' ≠ 0) :
    constantCoeff (d * d') ≠ 0 := by
  rw [map_mul]; exact mul_ne_zero hd hd'

theorem ps_add_frac {n d n' d' : K⟦X⟧} (hd : constantCoeff d ≠ 0) (hd' : constantCoeff d' ≠ 0) :
    n * d⁻¹ + n' * d'⁻¹ = (n * d' + n' * d) * (d * d')⁻¹ := by
  have e1 := PowerSeries.mul_inv_cancel d hd
  have e2 := PowerSeries.mul_inv_cancel d' hd'
  have e3 := PowerSeries.mul_inv_cancel (d * d') (constantCoeff_mul_ne hd hd')
  apply mul_left_cancel₀ (mul_ne_zero (ps_ne_zero hd) (ps_ne_zero hd'))
  linear_combination (d' * n) * e1 + (d * n') * e2 - (n * d' + n' * d) * e3

theorem ps_mul_frac {n d n' d' : K⟦X⟧} (hd : constantCoeff d ≠ 0) (hd' : constantCoeff d' ≠ 0) :
    n * d⁻¹ * (n' * d'⁻¹) = (n * n') * (d * d')⁻¹ := by
  have e1 := PowerSeries.mul_inv_cancel d hd
  have e2 := PowerSeries.mul_inv_cancel d' hd'
  have e3 := PowerSeries.mul_inv_cancel (d * d') (constantCoeff_mul_ne hd hd')
  apply mul_left_cancel₀ (mul_ne_zero (ps_ne_zero hd) (ps_ne_zero hd'))
  linear_combination (n * n' * d' * d'⁻¹) * e1 + (n * n') * e2 - (n * n') * e3

/-! ### from the rational function to the transfer function -/

theorem N_causal {f : ZF K} (hf : Causal f) : N f = Polynomial.toLaurent (toPolyL f.num) :=
  (toLaurent_toPolyL hf.2.1).symm

theorem D_causal {f : ZF K} (hf : Causal f) : D f = Polynomial.toLaurent (toPolyL f.den) :=
  (toLaurent_toPolyL hf.2.2.1).symm

/-- an identity between polynomials, read in `K[T;T⁻¹]`, holds in `K⟦X⟧` -/
theorem ps_of_laurent {P Q : Polynomial K} (h : Polynomial.toLaurent P = Polynomial.toLaurent Q) :
    (P : K⟦X⟧) = (Q : K⟦X⟧) := by
  rw [Polynomial.toLaurent_injective h]

/-- equal rational functions ⇒ equal transfer functions -/
theorem tf_congr {f g : ZF K} (hf : Causal f) (hg : Causal g) (h : val f = val g) : tf f = tf g := by
  have hx : N f * D g = N g * D f := (equiv_iff_val hf.1 hg.1).2 h
  rw [N_causal hf, N_causal hg, D_causal hf, D_causal hg, ← map_mul, ← map_mul] at hx
  have hp := ps_of_laurent hx
  rw [Polynomial.coe_mul, Polynomial.coe_mul] at hp
  exact ps_frac_eq (constantCoeff_psD hf) (constantCoeff_psD hg) hp

theorem tf_add {f g h : ZF K} (hf : Causal f) (hg : Causal g) (hh : Causal h) (e : val h = val f + val g) :
    tf h = tf f + tf g := by
  have hx : N h * (D f * D g) = (N f * D g + D f * N g) * D h := by
    unfold val at e
    rw [div_add_div _ _ (ιD_ne_zero hf.1) (ιD_ne_zero hg.1),
      div_eq_div_iff (ιD_ne_zero hh.1) (mul_ne_zero (ιD_ne_zero hf.1) (ιD_ne_zero hg.1))] at e
    simp only [← map_mul, ← map_add] at e
    exact ι_inj e
  rw [N_causal hf, N_causal hg, N_causal hh, D_causal hf, D_causal hg, D_causal hh] at hx
  simp only [← map_mul, ← map_add] at hx
  have hp := ps_of_laurent hx
  simp only [Polynomial.coe_mul, Polynomial.coe_add] at hp
  unfold tf
  rw [ps_add_frac (constantCoeff_psD hf) (constantCoeff_psD hg)]
  refine ps_frac_eq (constantCoeff_psD hh)
    (constantCoeff_mul_ne (constantCoeff_psD hf) (constantCoeff_psD hg)) ?_
  unfold psN psD
  linear_combination hp

theorem tf_mul {f g h : ZF K} (hf : Causal f) (hg : Causal g) (hh : Causal h) (e : val h = val f * val g) :
    tf h = tf f * tf g := by
  have hx : N h * (D f * D g) = (N f * N g) * D h := by
    unfold val at e
    rw [div_mul_div_comm,
      div_eq_div_iff (ιD_ne_zero hh.1) (mul_ne_zero (ιD_ne_zero hf.1) (ιD_ne_zero hg.1))] at e
    simp only [← map_mul] at e
    exact ι_inj e
  rw [N_causal hf, N_causal hg, N_causal hh, D_causal hf, D_causal hg, D_causal hh] at hx
  simp only [← map_mul] at hx
  have hp := ps_of_laurent hx
  simp only [Polynomial.coe_mul] at hp
  unfold tf
  rw [ps_mul_frac (constantCoeff_psD hf) (constantCoeff_psD hg)]
  exact ps_frac_eq (constantCoeff_psD hh)
    (constantCoeff_mul_ne (constantCoeff_psD hf) (constantCoeff_psD hg)) hp

/-- a filter denoting the polynomial `P(z⁻¹)` has transfer function `P` -/
theorem tf_poly {h : ZF K} (hh : Causal h) (P : Polynomial K) (e : val h = ι (Polynomial.toLaurent P)) :
    tf h = (P : K⟦X⟧) := by
  have hx : N h = Polynomial.toLaurent P * D h := by
    unfold val at e
    rw [div_eq_iff (ιD_ne_zero hh.1), ← map_mul] at e
    exact ι_inj e
  rw [N_causal hh, D_causal hh, ← map_mul] at hx
  have hp := ps_of_laurent hx
  rw [Polynomial.coe_mul] at hp
  unfold tf
  show psN h * (psD h)⁻¹ = _
  unfold psN
  rw [hp, mul_assoc]
  show (P : K⟦X⟧) * (psD h * (psD h)⁻¹) = _
  rw [psD_mul_inv hh, mul_one]

/-! ### laws of the response to an endless input -/

theorem resp_congr_val {f g : ZF K} (hf : Causal f) (hg : Causal g) (h : val f = val g) (x : ℕ → K) :
    resp f x = resp g x := by
  funext n
  rw [resp_apply hf, resp_apply hg, tf_congr hf hg h]

theorem resp_add {f g h : ZF K} (hf : Causal f) (hg : Causal g) (hh : Causal h) (e : val h = val f + val g)
    (x : ℕ → K) (n : ℕ) : resp h x n = resp f x n + resp g x n := by
  rw [resp_apply hh, resp_apply hf, resp_apply hg, tf_add hf hg hh e, add_mul, map_add]

theorem resp_mul {f g h : ZF K} (hf : Causal f) (hg : Causal g) (hh : Causal h) (e : val h = val f * val g)
    (x : ℕ → K) : resp h x = resp f (resp g x) := by
  funext n
  rw [resp_apply hh, resp_apply hf, resp_eq_tf hg, tf_mul hf hg hh e, mul_assoc]

/-- a filter denoting the polynomial `P(z⁻¹)` convolves the input with the coefficients of `P` -/
theorem resp_poly {h : ZF K} (hh : Causal h) (P : Polynomial K) (e : val h = ι (Polynomial.toLaurent P))
    (x : ℕ → K) (n : ℕ) : resp h x n = coeff n ((P : K⟦X⟧) * PowerSeries.mk x) := by
  rw [resp_apply hh, tf_poly hh P e]

end ALV.C05
