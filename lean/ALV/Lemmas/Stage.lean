/-
  Generic theory of `ALV.Stage` (core Lean only).
    emit_append / emit_prefix        outputs grow monotonically with the source prefix
    need_spec / need_mono            `need` is the least sufficient prefix length
    reads_getElem                    k-th entry of `reads` = `need (k+1)`
    pulls_eq / outs_eq               the generator protocol delivers `run`, pulling `runReads`
    emit_comp / run_comp / need_comp composition
    nonInterference                  first k outputs depend on the first `need k` items only
-/
import ALV.Common.Stage
namespace ALV.Stage
variable {ι ο π σ τ α β : Type}

/-! ### append / prefix -/

theorem stateFrom_append (S : Stage ι ο σ) : ∀ (xs ys : List ι) (s : σ),
    S.stateFrom s (xs ++ ys) = S.stateFrom (S.stateFrom s xs) ys := by
  intro xs
  induction xs with
  | nil => intro ys s; rfl
  | cons x xs ih => intro ys s; simp only [List.cons_append, stateFrom]; exact ih ys _

theorem emitFrom_append (S : Stage ι ο σ) : ∀ (xs ys : List ι) (s : σ),
    S.emitFrom s (xs ++ ys) = S.emitFrom s xs ++ S.emitFrom (S.stateFrom s xs) ys := by
  intro xs
  induction xs with
  | nil => intro ys s; simp [emitFrom, stateFrom]
  | cons x xs ih =>
    intro ys s
    simp only [List.cons_append, emitFrom, stateFrom, ih, List.append_assoc]

theorem emit_append (S : Stage ι ο σ) (xs ys : List ι) :
    S.emit (xs ++ ys) = S.emit xs ++ S.emitFrom (S.stateFrom S.init xs) ys := by
  simp only [emit, emitFrom_append, List.append_assoc]

theorem emit_prefix (S : Stage ι ο σ) {xs ys : List ι} (h : xs <+: ys) :
    S.emit xs <+: S.emit ys := by
  obtain ⟨t, rfl⟩ := h
  rw [emit_append]
  exact List.prefix_append _ _

theorem emit_take_prefix (S : Stage ι ο σ) (xs : List ι) (j : Nat) :
    S.emit (xs.take j) <+: S.emit xs :=
  emit_prefix S (List.take_prefix j xs)

theorem emit_take_mono (S : Stage ι ο σ) (xs : List ι) {j j' : Nat} (h : j ≤ j') :
    S.emit (xs.take j) <+: S.emit (xs.take j') := by
  apply emit_prefix
  have : xs.take j = (xs.take j').take j := by
    rw [List.take_take, Nat.min_eq_left h]
  rw [this]
  exact List.take_prefix _ _

theorem emit_length_mono (S : Stage ι ο σ) (xs : List ι) {j j' : Nat} (h : j ≤ j') :
    (S.emit (xs.take j)).length ≤ (S.emit (xs.take j')).length :=
  (emit_take_mono S xs h).length_le

theorem run_eq (S : Stage ι ο σ) (xs : List ι) :
    S.run xs = S.emit xs ++ S.onEnd (S.stateFrom S.init xs) := rfl

/-- the outputs available from a prefix are a prefix of the final outputs -/
theorem emit_prefix_run (S : Stage ι ο σ) (xs : List ι) (j : Nat) :
    S.emit (xs.take j) <+: S.run xs :=
  (emit_take_prefix S xs j).trans (List.prefix_append _ _)

/-! ### `need` is the least sufficient prefix length -/

theorem emitFrom_cons_length (S : Stage ι ο σ) (s : σ) (x : ι) (xs : List ι) :
    (S.emitFrom s (x :: xs)).length =
      (S.onItem s x).2.length + (S.emitFrom (S.onItem s x).1 xs).length := by
  simp [emitFrom]

theorem needFrom_eq_none_iff (S : Stage ι ο σ) : ∀ (xs : List ι) (s : σ) (k : Nat),
    S.needFrom s k xs = none ↔ (S.emitFrom s xs).length < k := by
  intro xs
  induction xs with
  | nil =>
    intro s k
    cases k with
    | zero => simp [needFrom]
    | succ k => simp [needFrom, emitFrom]
  | cons x xs ih =>
    intro s k
    cases k with
    | zero => simp [needFrom]
    | succ k =>
      rw [needFrom, Option.map_eq_none_iff, ih, emitFrom_cons_length]
      omega

theorem needFrom_spec (S : Stage ι ο σ) : ∀ (xs : List ι) (s : σ) (k j : Nat),
    S.needFrom s k xs = some j ↔
      (j ≤ xs.length ∧ k ≤ (S.emitFrom s (xs.take j)).length ∧
        ∀ j', j' < j → (S.emitFrom s (xs.take j')).length < k) := by
  intro xs
  induction xs with
  | nil =>
    intro s k j
    cases k with
    | zero =>
      simp only [needFrom, Option.some.injEq]
      constructor
      · rintro rfl; simp
      · rintro ⟨h, _, _⟩; simp at h; omega
    | succ k =>
      simp only [needFrom, List.take_nil, emitFrom, List.length_nil]
      constructor
      · intro h; cases h
      · rintro ⟨_, h, _⟩; omega
  | cons x xs ih =>
    intro s k j
    cases k with
    | zero =>
      simp only [needFrom, Option.some.injEq]
      constructor
      · rintro rfl; simp
      · rintro ⟨_, _, h3⟩
        cases j with
        | zero => rfl
        | succ j => exact absurd (h3 0 (by omega)) (by omega)
    | succ k =>
      rw [needFrom, Option.map_eq_some_iff]
      constructor
      · rintro ⟨j0, h, rfl⟩
        rw [ih] at h
        obtain ⟨h1, h2, h3⟩ := h
        refine ⟨by simp; omega, ?_, ?_⟩
        · rw [List.take_succ_cons, emitFrom_cons_length]; omega
        · intro j' hj'
          cases j' with
          | zero => simp [emitFrom]
          | succ j'' =>
            rw [List.take_succ_cons, emitFrom_cons_length]
            have := h3 j'' (by omega)
            omega
      · rintro ⟨h1, h2, h3⟩
        cases j with
        | zero => simp [emitFrom] at h2
        | succ j0 =>
          refine ⟨j0, ?_, rfl⟩
          rw [ih]
          refine ⟨by simp at h1; omega, ?_, ?_⟩
          · rw [List.take_succ_cons, emitFrom_cons_length] at h2; omega
          · intro j' hj'
            have := h3 (j' + 1) (by omega)
            rw [List.take_succ_cons, emitFrom_cons_length] at this
            omega

/-- `j` is the least prefix length of `xs` whose emission reaches `k` outputs -/
def IsNeed (S : Stage ι ο σ) (xs : List ι) (k j : Nat) : Prop :=
  j ≤ xs.length ∧ k ≤ (S.emit (xs.take j)).length ∧
    ∀ j', j' < j → (S.emit (xs.take j')).length < k

theorem need_spec (S : Stage ι ο σ) (xs : List ι) (k j : Nat) :
    S.need xs k = some j ↔ IsNeed S xs k j := by
  unfold need IsNeed emit
  rw [needFrom_spec]
  simp only [List.length_append]
  constructor
  · rintro ⟨h1, h2, h3⟩
    refine ⟨h1, by omega, fun j' hj' => ?_⟩
    have := h3 j' hj'
    omega
  · rintro ⟨h1, h2, h3⟩
    refine ⟨h1, by omega, fun j' hj' => ?_⟩
    have := h3 j' hj'
    omega

theorem need_eq_none_iff (S : Stage ι ο σ) (xs : List ι) (k : Nat) :
    S.need xs k = none ↔ (S.emit xs).length < k := by
  unfold need emit
  rw [needFrom_eq_none_iff, List.length_append]
  omega

theorem need_isSome_iff (S : Stage ι ο σ) (xs : List ι) (k : Nat) :
    (S.need xs k).isSome ↔ k ≤ (S.emit xs).length := by
  cases h : S.need xs k with
  | none =>
    have := (need_eq_none_iff S xs k).1 h
    simp; omega
  | some j =>
    have : ¬ (S.emit xs).length < k := fun hlt => by
      have := (need_eq_none_iff S xs k).2 hlt
      rw [h] at this; cases this
    simp; omega

theorem need_exists (S : Stage ι ο σ) (xs : List ι) (k : Nat) (h : k ≤ (S.emit xs).length) :
    ∃ j, S.need xs k = some j := by
  have := (need_isSome_iff S xs k).2 h
  exact Option.isSome_iff_exists.1 this

/-- the prefix of length `need k` suffices, and no shorter one does -/
theorem need_least (S : Stage ι ο σ) (xs : List ι) (k j : Nat) (h : S.need xs k = some j) :
    k ≤ (S.emit (xs.take j)).length ∧ ∀ j', j' < j → (S.emit (xs.take j')).length < k :=
  ((need_spec S xs k j).1 h).2

theorem need_le_length (S : Stage ι ο σ) (xs : List ι) (k j : Nat) (h : S.need xs k = some j) :
    j ≤ xs.length := ((need_spec S xs k j).1 h).1

theorem need_mono (S : Stage ι ο σ) (xs : List ι) {k k' j j' : Nat} (hk : k ≤ k')
    (h : S.need xs k = some j) (h' : S.need xs k' = some j') : j ≤ j' := by
  obtain ⟨_, _, h3⟩ := (need_spec S xs k j).1 h
  obtain ⟨_, h2', _⟩ := (need_spec S xs k' j').1 h'
  apply Nat.le_of_not_lt
  intro hlt
  have := h3 j' hlt
  omega

/-- characterisation used by the per-stage closed forms -/
theorem need_le_iff (S : Stage ι ο σ) (xs : List ι) {k j : Nat} (h : S.need xs k = some j)
    (i : Nat) : j ≤ i ↔ k ≤ (S.emit (xs.take i)).length := by
  obtain ⟨_, h2, h3⟩ := (need_spec S xs k j).1 h
  constructor
  · intro hji
    exact Nat.le_trans h2 (emit_length_mono S xs hji)
  · intro hk
    apply Nat.le_of_not_lt
    intro hlt
    have := h3 i hlt
    omega

/-! ### `reads` lists `need 1, need 2, …` -/

theorem readsFrom_getElem (S : Stage ι ο σ) : ∀ (xs : List ι) (s : σ) (n k : Nat),
    (S.readsFrom s n xs)[k]? = (S.needFrom s (k + 1) xs).map (· + n) := by
  intro xs
  induction xs with
  | nil => intro s n k; simp [readsFrom, needFrom]
  | cons x xs ih =>
    intro s n k
    rw [readsFrom, needFrom]
    by_cases hk : k < (S.onItem s x).2.length
    · rw [List.getElem?_append_left (by simpa using hk)]
      have h0 : k + 1 - (S.onItem s x).2.length = 0 := by omega
      rw [h0]
      simp [needFrom, hk]
      omega
    · rw [List.getElem?_append_right (by simp; omega), ih]
      simp only [List.length_replicate, Option.map_map]
      have h1 : k - (S.onItem s x).2.length + 1 = k + 1 - (S.onItem s x).2.length := by omega
      rw [h1]
      congr 1
      funext a
      simp only [Function.comp]
      omega

theorem reads_getElem (S : Stage ι ο σ) (xs : List ι) (k : Nat) :
    (S.reads xs)[k]? = S.need xs (k + 1) := by
  unfold reads need
  by_cases hk : k < S.pre.length
  · rw [List.getElem?_append_left (by simpa using hk)]
    have h0 : k + 1 - S.pre.length = 0 := by omega
    rw [h0]
    cases xs <;> simp [needFrom, hk]
  · rw [List.getElem?_append_right (by simp; omega), readsFrom_getElem]
    simp only [List.length_replicate]
    have h1 : k - S.pre.length + 1 = k + 1 - S.pre.length := by omega
    rw [h1]
    simp

theorem readsFrom_length (S : Stage ι ο σ) : ∀ (xs : List ι) (s : σ) (n : Nat),
    (S.readsFrom s n xs).length = (S.emitFrom s xs).length := by
  intro xs
  induction xs with
  | nil => intro s n; rfl
  | cons x xs ih => intro s n; simp [readsFrom, emitFrom, ih]

theorem reads_length (S : Stage ι ο σ) (xs : List ι) :
    (S.reads xs).length = (S.emit xs).length := by
  simp [reads, emit, readsFrom_length]

/-! ### the generator protocol delivers `run`, pulling `runReads` -/

theorem pullsFrom_ended (S : Stage ι ο σ) (s : σ) (r : Nat) (xs : List ι) :
    ∀ (p : List ο) (K : Nat),
      S.pullsFrom K ⟨s, p, r, true⟩ xs = (List.replicate p.length r).take K := by
  intro p
  induction p with
  | nil =>
    intro K
    cases K with
    | zero => rfl
    | succ K => simp [pullsFrom, demand]
  | cons o p ih =>
    intro K
    cases K with
    | zero => simp [pullsFrom]
    | succ K =>
      simp only [pullsFrom, demand, ih, List.length_cons, List.replicate_succ, List.take_succ_cons]

theorem outsFrom_ended (S : Stage ι ο σ) (s : σ) (r : Nat) (xs : List ι) :
    ∀ (p : List ο) (K : Nat), S.outsFrom K ⟨s, p, r, true⟩ xs = p.take K := by
  intro p
  induction p with
  | nil =>
    intro K
    cases K with
    | zero => rfl
    | succ K => simp [outsFrom, demand]
  | cons o p ih =>
    intro K
    cases K with
    | zero => simp [outsFrom]
    | succ K => simp only [outsFrom, demand, ih, List.take_succ_cons]

theorem pullsFrom_eq (S : Stage ι ο σ) : ∀ (xs : List ι) (s : σ) (p : List ο) (r K : Nat),
    S.pullsFrom K ⟨s, p, r, false⟩ xs =
      (List.replicate p.length r ++ S.readsFrom s r xs ++
        List.replicate (S.onEnd (S.stateFrom s xs)).length (r + xs.length)).take K := by
  intro xs
  induction xs with
  | nil =>
    intro s p
    induction p with
    | nil =>
      intro r K
      cases K with
      | zero => rfl
      | succ K =>
        simp only [pullsFrom, demand, stateFrom, readsFrom, List.length_nil, List.replicate_zero,
          List.nil_append, Nat.add_zero]
        cases h : S.onEnd s with
        | nil => simp
        | cons o q =>
          simp only [pullsFrom_ended, List.length_cons, List.replicate_succ, List.take_succ_cons]
    | cons o p ih =>
      intro r K
      cases K with
      | zero => simp [pullsFrom]
      | succ K =>
        simp only [pullsFrom, demand, ih, List.length_cons, List.replicate_succ,
          List.cons_append, List.take_succ_cons]
  | cons x xs ihx =>
    intro s p
    induction p with
    | nil =>
      intro r K
      cases K with
      | zero => rfl
      | succ K =>
        have hd : S.demand ⟨s, [], r, false⟩ (x :: xs) =
            S.demand ⟨(S.onItem s x).1, (S.onItem s x).2, r + 1, false⟩ xs := by
          rw [demand]
        have := ihx (S.onItem s x).1 (S.onItem s x).2 (r + 1) (K + 1)
        simp only [pullsFrom] at this
        simp only [pullsFrom, hd, this, readsFrom, stateFrom, List.length_nil, List.replicate_zero,
          List.nil_append, List.length_cons, List.append_assoc]
        congr 4
        omega
    | cons o p ih =>
      intro r K
      cases K with
      | zero => simp [pullsFrom]
      | succ K =>
        simp only [pullsFrom, demand, ih, List.length_cons, List.replicate_succ,
          List.cons_append, List.take_succ_cons]

theorem outsFrom_eq (S : Stage ι ο σ) : ∀ (xs : List ι) (s : σ) (p : List ο) (r K : Nat),
    S.outsFrom K ⟨s, p, r, false⟩ xs =
      (p ++ S.emitFrom s xs ++ S.onEnd (S.stateFrom s xs)).take K := by
  intro xs
  induction xs with
  | nil =>
    intro s p
    induction p with
    | nil =>
      intro r K
      cases K with
      | zero => rfl
      | succ K =>
        simp only [outsFrom, demand, stateFrom, emitFrom, List.nil_append]
        cases h : S.onEnd s with
        | nil => simp
        | cons o q => simp only [outsFrom_ended, List.take_succ_cons]
    | cons o p ih =>
      intro r K
      cases K with
      | zero => simp [outsFrom]
      | succ K => simp only [outsFrom, demand, ih, List.cons_append, List.take_succ_cons]
  | cons x xs ihx =>
    intro s p
    induction p with
    | nil =>
      intro r K
      cases K with
      | zero => rfl
      | succ K =>
        have hd : S.demand ⟨s, [], r, false⟩ (x :: xs) =
            S.demand ⟨(S.onItem s x).1, (S.onItem s x).2, r + 1, false⟩ xs := by
          rw [demand]
        have := ihx (S.onItem s x).1 (S.onItem s x).2 (r + 1) (K + 1)
        simp only [outsFrom] at this
        simp only [outsFrom, hd, this, emitFrom, stateFrom, List.nil_append, List.append_assoc]
    | cons o p ih =>
      intro r K
      cases K with
      | zero => simp [outsFrom]
      | succ K => simp only [outsFrom, demand, ih, List.cons_append, List.take_succ_cons]

theorem pulls_eq (S : Stage ι ο σ) (xs : List ι) (K : Nat) :
    S.pulls xs K = (S.runReads xs).take K := by
  unfold pulls start runReads reads
  rw [pullsFrom_eq]
  simp

theorem outs_eq (S : Stage ι ο σ) (xs : List ι) (K : Nat) :
    S.outs xs K = (S.run xs).take K := by
  unfold outs start run emit
  rw [outsFrom_eq]

/-! ### composition -/

@[simp] theorem comp_onItem (S : Stage ι π σ) (T : Stage π ο τ) (s : σ) (t : τ) (x : ι) :
    (S ▷ T).onItem (s, t) x =
      (((S.onItem s x).1, T.stateFrom t (S.onItem s x).2), T.emitFrom t (S.onItem s x).2) := rfl

theorem comp_onEnd (S : Stage ι π σ) (T : Stage π ο τ) (s : σ) (t : τ) :
    (S ▷ T).onEnd (s, t) = T.emitFrom t (S.onEnd s) ++ T.onEnd (T.stateFrom t (S.onEnd s)) := rfl

theorem stateFrom_comp (S : Stage ι π σ) (T : Stage π ο τ) : ∀ (xs : List ι) (s : σ) (t : τ),
    (S ▷ T).stateFrom (s, t) xs = (S.stateFrom s xs, T.stateFrom t (S.emitFrom s xs)) := by
  intro xs
  induction xs with
  | nil => intro s t; rfl
  | cons x xs ih =>
    intro s t
    simp only [stateFrom, emitFrom, comp_onItem, ih, stateFrom_append]

theorem emitFrom_comp (S : Stage ι π σ) (T : Stage π ο τ) : ∀ (xs : List ι) (s : σ) (t : τ),
    (S ▷ T).emitFrom (s, t) xs = T.emitFrom t (S.emitFrom s xs) := by
  intro xs
  induction xs with
  | nil => intro s t; rfl
  | cons x xs ih =>
    intro s t
    simp only [emitFrom, comp_onItem, ih, emitFrom_append]

theorem emit_comp (S : Stage ι π σ) (T : Stage π ο τ) (xs : List ι) :
    (S ▷ T).emit xs = T.emit (S.emit xs) := by
  unfold emit
  show (T.pre ++ T.emitFrom T.init S.pre) ++ (S ▷ T).emitFrom (S.init, T.stateFrom T.init S.pre) xs = _
  rw [emitFrom_comp, emitFrom_append, List.append_assoc]

theorem run_comp (S : Stage ι π σ) (T : Stage π ο τ) (xs : List ι) :
    (S ▷ T).run xs = T.run (S.run xs) := by
  unfold run
  rw [emit_comp]
  show _ ++ (S ▷ T).onEnd ((S ▷ T).stateFrom (S.init, T.stateFrom T.init S.pre) xs) = _
  rw [stateFrom_comp, comp_onEnd]
  simp only [emit, emitFrom_append, stateFrom_append, List.append_assoc]

theorem prefix_eq_take {l1 l2 : List α} (h : l1 <+: l2) : l1 = l2.take l1.length := by
  obtain ⟨t, rfl⟩ := h
  simp

theorem take_eq_of_prefix {l1 l2 : List α} (h : l1 <+: l2) {k : Nat} (hk : k ≤ l1.length) :
    l2.take k = l1.take k := by
  obtain ⟨t, rfl⟩ := h
  rw [List.take_append_of_le_length hk]

/-- reading through a chain: the source prefix needed for `k` outputs of `S ▷ T` is what `S`
    needs in order to deliver what `T` needs. -/
theorem need_comp (S : Stage ι π σ) (T : Stage π ο τ) (xs : List ι) (k : Nat) :
    (S ▷ T).need xs k = (T.need (S.emit xs) k).bind (S.need xs) := by
  cases hT : T.need (S.emit xs) k with
  | none =>
    rw [need_eq_none_iff] at hT
    simp only [Option.bind_none]
    rw [need_eq_none_iff, emit_comp]
    exact hT
  | some m =>
    simp only [Option.bind_some]
    obtain ⟨hm1, hm2, hm3⟩ := (need_spec T (S.emit xs) k m).1 hT
    obtain ⟨j, hj⟩ := need_exists S xs m hm1
    rw [hj, need_spec]
    obtain ⟨hj1, hj2, hj3⟩ := (need_spec S xs m j).1 hj
    refine ⟨hj1, ?_, ?_⟩
    · rw [emit_comp]
      have hp : (S.emit xs).take m <+: S.emit (xs.take j) := by
        apply List.prefix_of_prefix_length_le (List.take_prefix _ _) (emit_take_prefix S xs j)
        simp; omega
      exact Nat.le_trans hm2 (emit_prefix T hp).length_le
    · intro j' hj'
      rw [emit_comp]
      have ha := hj3 j' hj'
      have he : S.emit (xs.take j') = (S.emit xs).take (S.emit (xs.take j')).length :=
        prefix_eq_take (emit_take_prefix S xs j')
      rw [he]
      exact hm3 _ ha

/-! ### non-interference -/

/-- The first `k` outputs are a function of the first `need k` source items: any source
    that agrees on that prefix gives the same `k` outputs after the same number of reads. -/
theorem nonInterference (S : Stage ι ο σ) (xs ys : List ι) (k j : Nat)
    (hn : S.need xs k = some j) (hagree : xs.take j = ys.take j) :
    S.need ys k = some j ∧ (S.run ys).take k = (S.run xs).take k := by
  obtain ⟨h1, h2, h3⟩ := (need_spec S xs k j).1 hn
  have hjy : j ≤ ys.length := by
    have := congrArg List.length hagree
    simp only [List.length_take] at this
    omega
  have htk : ∀ i, i ≤ j → xs.take i = ys.take i := by
    intro i hi
    have e1 : xs.take i = (xs.take j).take i := by rw [List.take_take, Nat.min_eq_left hi]
    have e2 : ys.take i = (ys.take j).take i := by rw [List.take_take, Nat.min_eq_left hi]
    rw [e1, e2, hagree]
  constructor
  · rw [need_spec]
    refine ⟨hjy, ?_, ?_⟩
    · rw [← htk j (Nat.le_refl _)]; exact h2
    · intro j' hj'
      rw [← htk j' (Nat.le_of_lt hj')]
      exact h3 j' hj'
  · rw [take_eq_of_prefix (emit_prefix_run S ys j) (by rw [← hagree]; exact h2),
      take_eq_of_prefix (emit_prefix_run S xs j) h2, hagree]

end ALV.Stage
