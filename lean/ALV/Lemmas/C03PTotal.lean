/-
  C03 — every source, finite or periodic: when does `next` return?

  Over a heap in which every `filter` node sits over a sequence it `Hits` (finite, or with an
  item of the period that passes: `WF true`), `next` returns on every iterator with enough fuel
  (`next_total`); so does a `take(n)` / `take()` for every count, and a `list()` / `take(inf)`
  when the sequence is finite (`takeIt_total`).  What is returned is given by `next_sound`.
-/
import ALV.Lemmas.C03PNext

namespace ALV.C03
variable {α : Type}
open LSeq

/-! ### a filter stops within `n` reads -/

/-- among the first `n` items the sequence ends or an item passes `p` -/
def Stop (p : α → Bool) (s : LSeq α) (n : Nat) : Prop :=
  (s.take n).length < n ∨ (s.take n).any p = true

theorem Stop.eqv {p : α → Bool} {s t : LSeq α} {n : Nat} (e : Eqv s t) (h : Stop p s n) : Stop p t n := by
  simp only [Stop] at h ⊢
  rw [← e.take]; exact h

theorem Stop.zero {p : α → Bool} {s : LSeq α} : ¬ Stop p s 0 := by
  simp [Stop]

theorem Stop.cons {p : α → Bool} {s : LSeq α} {n : Nat} (v : α) (h : Stop p s n) :
    Stop p (cons v s) (n + 1) := by
  simp only [Stop, take_cons, List.length_cons, List.any_cons] at h ⊢
  rcases h with h | h
  · exact .inl (by omega)
  · exact .inr (by simp [h])

theorem Stop.tail {p : α → Bool} {s : LSeq α} {n : Nat} {v : α} (h : Stop p (LSeq.cons v s) (n + 1))
    (hv : ¬ p v = true) : Stop p s n := by
  simp only [Stop, take_cons, List.length_cons, List.any_cons] at h ⊢
  rcases h with h | h
  · exact .inl (by omega)
  · simp [hv] at h
    exact .inr (by simpa using h)

theorem Stop.prepend_hit {p : α → Bool} (xs : List α) (t : LSeq α) {x : α} (hx : x ∈ xs) (px : p x = true) :
    Stop p (prepend xs t) xs.length := by
  refine .inr ?_
  rw [take_prepend]
  exact List.any_eq_true.2 ⟨x, hx, px⟩

theorem Hits.stop {p : α → Bool} : ∀ {s : LSeq α}, Hits p s → ∃ n, Stop p s n := by
  intro s
  obtain ⟨pre, per⟩ := s
  induction pre with
  | nil =>
    intro h
    rcases h with h | ⟨x, hx, px⟩
    · simp only at h; subst h
      exact ⟨1, .inl (by simp)⟩
    · refine ⟨per.length, Stop.eqv (Eqv.unfold_per [] per).symm ?_⟩
      have := Stop.prepend_hit (p := p) per (LSeq.mk [] per) hx px
      simpa [prepend] using this
  | cons v pre ih =>
    intro h
    obtain ⟨n, hn⟩ := ih h
    exact ⟨n + 1, Stop.cons v hn⟩

/-! ### `next` returns -/

structure Tot (h : Heap α) (it : It α) (f : Nat) (h' : Heap α) (it' : It α) (r : Option α) : Prop where
  run : next f h it = some (h', it', r)
  sz : it'.size ≤ it.size

abbrev Total (h : Heap α) (it : It α) : Prop := ∃ f h' it' r, Tot h it f h' it' r

theorem tot_tee {E : List (LSeq α)} {K : Nat}
    (IH : ∀ (h : Heap α) (it : It α) (k : Nat), k < K → PHeapOK true E h → WF true E h it → Below k it →
      Total h it)
    (h : Heap α) (k pos : Nat) (hH : PHeapOK true E h) (hO : WF true E h (.tee k pos))
    (hB : Below K (.tee k pos : It α)) : Total h (.tee k pos) := by
  obtain ⟨hub, hk, hp⟩ := hO
  obtain ⟨hBp, hOp, _⟩ := hH.2 k hub hk
  by_cases hlt : pos < hub.buf.length
  · exact ⟨1, h, .tee k (pos + 1), hub.buf[pos]?, by simp [next, hk, hlt], Nat.le_refl _⟩
  · obtain ⟨f, h1, p1, r1, T⟩ := IH h hub.parent k hB hH hOp hBp
    cases r1 with
    | none =>
      exact ⟨f + 1, h1.set k ⟨p1, hub.buf⟩, .tee k pos, none, by simp [next, hk, hlt, T.run], Nat.le_refl _⟩
    | some v =>
      exact ⟨f + 1, h1.set k ⟨p1, hub.buf ++ [v]⟩, .tee k (pos + 1), some v,
        by simp [next, hk, hlt, T.run], Nat.le_refl _⟩

section children
variable {E : List (LSeq α)} {K S : Nat}
  (ih : ∀ (h : Heap α) (it : It α), PHeapOK true E h → WF true E h it → Below K it → it.size ≤ S →
      Total h it)
include ih

theorem tot_map (g : α → α) (h : Heap α) (c : It α) (hH : PHeapOK true E h) (hO : WF true E h c)
    (hB : Below K c) (hS : c.size ≤ S) : Total h (.map g c) := by
  obtain ⟨f, h1, c1, r1, T⟩ := ih h c hH hO hB hS
  exact ⟨f + 1, h1, .map g c1, r1.map g, by simp [next, T.run], Nat.succ_le_succ T.sz⟩

theorem tot_filter (p : α → Bool) : ∀ (n : Nat) (h : Heap α) (c : It α), PHeapOK true E h →
    WF true E h c → Below K c → c.size ≤ S → Stop p (pden E c) n → Total h (.filter p c) := by
  intro n
  induction n with
  | zero => intro h c _ _ _ _ hst; exact absurd hst Stop.zero
  | succ n ihn =>
    intro h c hH hO hB hS hst
    obtain ⟨f, h1, c1, r1, T⟩ := ih h c hH hO hB hS
    have Sd := next_sound f h c h1 c1 r1 T.run hH hO
    cases r1 with
    | none => exact ⟨f + 1, h1, .filter p c1, none, by simp [next, T.run], Nat.succ_le_succ T.sz⟩
    | some v =>
      by_cases hv : p v = true
      · exact ⟨f + 1, h1, .filter p c1, some v, by simp [next, T.run, hv], Nat.succ_le_succ T.sz⟩
      · have hn : Eqv (pden E c) (LSeq.cons v (pden E c1)) := Sd.nx
        have hst1 : Stop p (pden E c1) n := Stop.tail (Stop.eqv hn hst) hv
        obtain ⟨f2, h2, it2, r2, T2⟩ := ihn h1 c1 Sd.hok Sd.wf (Sd.below K hB).1 (Nat.le_trans T.sz hS) hst1
        refine ⟨max f f2 + 1, h2, it2, r2, ?_, Nat.le_trans T2.sz (Nat.succ_le_succ T.sz)⟩
        have r1 := next_mono_le (Nat.le_max_left f f2) T.run
        have r2 := next_mono_le (Nat.le_max_right f f2) T2.run
        simp [next, r1, hv, r2]

theorem tot_chain (h : Heap α) (a b : It α) (hH : PHeapOK true E h) (hO : WF true E h (.chain a b))
    (hB : Below K (.chain a b)) (hSa : a.size ≤ S) (hSb : b.size ≤ S) : Total h (.chain a b) := by
  obtain ⟨f, h1, a1, r1, T⟩ := ih h a hH hO.1 hB.1 hSa
  have Sd := next_sound f h a h1 a1 r1 T.run hH hO.1
  cases r1 with
  | some v =>
    refine ⟨f + 1, h1, .chain a1 b, some v, by simp [next, T.run], ?_⟩
    simp only [It.size]; have := T.sz; omega
  | none =>
    obtain ⟨f2, h2, b2, r2, T2⟩ := ih h1 b Sd.hok (WF.grow Sd.grow hO.2) hB.2 hSb
    refine ⟨max f f2 + 1, h2, b2, r2, ?_, ?_⟩
    · have r1 := next_mono_le (Nat.le_max_left f f2) T.run
      have r2 := next_mono_le (Nat.le_max_right f f2) T2.run
      simp [next, r1, r2]
    · simp only [It.size]; have := T2.sz; omega

theorem tot_skipper : ∀ (n : Nat) (h : Heap α) (c : It α), PHeapOK true E h → WF true E h c →
    Below K c → c.size ≤ S → Total h (.skipper n c) := by
  intro n
  induction n with
  | zero =>
    intro h c hH hO hB hS
    obtain ⟨f, h1, c1, r1, T⟩ := ih h c hH hO hB hS
    exact ⟨f + 1, h1, c1, r1, by simp [next, T.run], Nat.le_succ_of_le T.sz⟩
  | succ n ihn =>
    intro h c hH hO hB hS
    obtain ⟨f, h1, c1, r1, T⟩ := ih h c hH hO hB hS
    have Sd := next_sound f h c h1 c1 r1 T.run hH hO
    cases r1 with
    | none =>
      refine ⟨f + 1, h1, .src [], none, by simp [next, T.run], ?_⟩
      simp only [It.size]; omega
    | some v =>
      obtain ⟨f2, h2, it2, r2, T2⟩ := ihn h1 c1 Sd.hok Sd.wf (Sd.below K hB).1 (Nat.le_trans T.sz hS)
      refine ⟨max f f2 + 1, h2, it2, r2, ?_, Nat.le_trans T2.sz (Nat.succ_le_succ T.sz)⟩
      have r1 := next_mono_le (Nat.le_max_left f f2) T.run
      have r2 := next_mono_le (Nat.le_max_right f f2) T2.run
      simp [next, r1, r2]

theorem tot_limiter (n : Nat) (h : Heap α) (c : It α) (hH : PHeapOK true E h) (hO : WF true E h c)
    (hB : Below K c) (hS : c.size ≤ S) : Total h (.limiter n c) := by
  cases n with
  | zero =>
    refine ⟨1, h, .src [], none, by simp [next], ?_⟩
    simp only [It.size]; omega
  | succ n =>
    obtain ⟨f, h1, c1, r1, T⟩ := ih h c hH hO hB hS
    cases r1 with
    | none =>
      refine ⟨f + 1, h1, .src [], none, by simp [next, T.run], ?_⟩
      simp only [It.size]; omega
    | some v => exact ⟨f + 1, h1, .limiter n c1, some v, by simp [next, T.run], Nat.succ_le_succ T.sz⟩

end children

theorem tot_aux {E : List (LSeq α)} {K : Nat}
    (IH : ∀ (h : Heap α) (it : It α) (k : Nat), k < K → PHeapOK true E h → WF true E h it → Below k it →
      Total h it) :
    ∀ (S : Nat) (h : Heap α) (it : It α), PHeapOK true E h → WF true E h it → Below K it → it.size ≤ S →
      Total h it := by
  intro S
  induction S with
  | zero => intro h it _ _ _ hS; have := It.size_pos it; omega
  | succ S ih =>
    intro h it hH hO hB hS
    cases it with
    | src xs =>
      cases xs with
      | nil => exact ⟨1, h, .src [], none, by simp [next], Nat.le_refl _⟩
      | cons x xs => exact ⟨1, h, .src xs, some x, by simp [next], Nat.le_refl _⟩
    | cyc per rest =>
      cases rest with
      | cons x rest => exact ⟨1, h, .cyc per rest, some x, by simp [next], Nat.le_refl _⟩
      | nil =>
        cases per with
        | nil => exact ⟨1, h, .cyc [] [], none, by simp [next], Nat.le_refl _⟩
        | cons x per => exact ⟨1, h, .cyc (x :: per) per, some x, by simp [next], Nat.le_refl _⟩
    | tee k pos => exact tot_tee IH h k pos hH hO hB
    | map g c => exact tot_map ih g h c hH hO hB (by simp only [It.size] at hS; omega)
    | filter p c =>
      obtain ⟨n, hn⟩ := Hits.stop (hO.2 rfl)
      exact tot_filter ih p n h c hH hO.1 hB (by simp only [It.size] at hS; omega) hn
    | chain a b =>
      exact tot_chain ih h a b hH hO hB (by simp only [It.size] at hS; omega)
        (by simp only [It.size] at hS; omega)
    | skipper n c => exact tot_skipper ih n h c hH hO hB (by simp only [It.size] at hS; omega)
    | limiter n c => exact tot_limiter ih n h c hH hO hB (by simp only [It.size] at hS; omega)

theorem next_total_below {E : List (LSeq α)} : ∀ (K : Nat) (h : Heap α) (it : It α), PHeapOK true E h →
    WF true E h it → Below K it → Total h it := by
  intro K
  induction K with
  | zero =>
    intro h it hH hO hB
    exact tot_aux (fun _ _ k hk => absurd hk (Nat.not_lt_zero k)) it.size h it hH hO hB (Nat.le_refl _)
  | succ K ihK =>
    intro h it hH hO hB
    refine tot_aux (fun h' it' k hk hH' hO' hB' => ?_) it.size h it hH hO hB (Nat.le_refl _)
    exact ihK h' it' hH' hO' (Below.mono (Nat.le_of_lt_succ hk) hB')

/-- **`next` returns** (with enough fuel) on every iterator over finite and periodic leaves whose
    filters all sit over sequences they hit -/
theorem next_total {E : List (LSeq α)} {h : Heap α} {it : It α} (hH : PHeapOK true E h)
    (hO : WF true E h it) : ∃ f h' it' r, next f h it = some (h', it', r) := by
  obtain ⟨f, h', it', r, T⟩ := next_total_below h.length h it hH hO (WF.below hO)
  exact ⟨f, h', it', r, T.run⟩

/-! ### take / list() return -/

theorem takeN_total {E : List (LSeq α)} : ∀ (n : Nat) (h : Heap α) (it : It α), PHeapOK true E h →
    WF true E h it → ∃ f h' it' vs, ∀ f', f ≤ f' → takeN f' n h it = some (h', it', vs) := by
  intro n
  induction n with
  | zero => intro h it _ _; exact ⟨0, h, it, [], fun _ _ => by simp [takeN]⟩
  | succ n ihn =>
    intro h it hH hO
    obtain ⟨f, h1, it1, r1, run⟩ := next_total hH hO
    have Sd := next_sound f h it h1 it1 r1 run hH hO
    cases r1 with
    | none => exact ⟨f, h1, it1, [], fun f' hf => by simp [takeN, next_mono_le hf run]⟩
    | some v =>
      obtain ⟨f2, h2, it2, vs, run2⟩ := ihn h1 it1 Sd.hok Sd.wf
      refine ⟨max f f2, h2, it2, v :: vs, fun f' hf => ?_⟩
      have r1 := next_mono_le (Nat.le_trans (Nat.le_max_left f f2) hf) run
      have r2 := run2 f' (Nat.le_trans (Nat.le_max_right f f2) hf)
      simp [takeN, r1, r2]

theorem drainIt_total {E : List (LSeq α)} : ∀ (m : Nat) (h : Heap α) (it : It α), PHeapOK true E h →
    WF true E h it → (pden E it).per = [] → (pden E it).pre.length = m →
    ∃ f h' it' vs, ∀ f' g, f ≤ f' → m < g → drainIt f' g h it = some (h', it', vs) := by
  intro m
  induction m with
  | zero =>
    intro h it hH hO hfin hm
    obtain ⟨f, h1, it1, r1, run⟩ := next_total hH hO
    have Sd := next_sound f h it h1 it1 r1 run hH hO
    cases r1 with
    | none =>
      refine ⟨f, h1, it1, [], fun f' g hf hg => ?_⟩
      obtain ⟨g, rfl⟩ : ∃ g', g = g' + 1 := ⟨g - 1, by omega⟩
      simp [drainIt, next_mono_le hf run]
    | some v =>
      have hn : Eqv (pden E it) (LSeq.cons v (pden E it1)) := Sd.nx
      have := hn.fin hfin
      rw [this] at hm
      simp [LSeq.cons] at hm
  | succ m ihm =>
    intro h it hH hO hfin hm
    obtain ⟨f, h1, it1, r1, run⟩ := next_total hH hO
    have Sd := next_sound f h it h1 it1 r1 run hH hO
    cases r1 with
    | none =>
      refine ⟨f, h1, it1, [], fun f' g hf hg => ?_⟩
      obtain ⟨g, rfl⟩ : ∃ g', g = g' + 1 := ⟨g - 1, by omega⟩
      simp [drainIt, next_mono_le hf run]
    | some v =>
      have hn : Eqv (pden E it) (LSeq.cons v (pden E it1)) := Sd.nx
      have e := hn.fin hfin
      have hfin1 : (pden E it1).per = [] := by rw [e] at hfin; exact hfin
      have hm1 : (pden E it1).pre.length = m := by
        rw [e] at hm; simpa [LSeq.cons] using hm
      obtain ⟨f2, h2, it2, vs, run2⟩ := ihm h1 it1 Sd.hok Sd.wf hfin1 hm1
      refine ⟨max f f2, h2, it2, v :: vs, fun f' g hf hg => ?_⟩
      obtain ⟨g, rfl⟩ : ∃ g', g = g' + 1 := ⟨g - 1, by omega⟩
      have r1 := next_mono_le (Nat.le_trans (Nat.le_max_left f f2) hf) run
      have r2 := run2 f' g (Nat.le_trans (Nat.le_max_right f f2) hf) (by omega)
      simp [drainIt, r1, r2]

/-- **`Stream.take` returns**: every count on every such iterator; `take(inf)` / `list()` when
    the sequence is finite -/
theorem takeIt_total {E : List (LSeq α)} {h : Heap α} {it : It α} (hH : PHeapOK true E h)
    (hO : WF true E h it) (c : Cnt) (hfin : takeMode c = .all → (pden E it).per = []) :
    ∃ f h' it' o, ∀ f', f ≤ f' → takeIt f' h it c = some (h', it', o) := by
  cases hm : takeMode c with
  | one =>
    obtain ⟨f, h1, it1, r1, run⟩ := next_total hH hO
    cases r1 with
    | none =>
      exact ⟨f, h1, it1, .err "StopIteration", fun f' hf => by simp [takeIt, hm, next_mono_le hf run]⟩
    | some v => exact ⟨f, h1, it1, .item v, fun f' hf => by simp [takeIt, hm, next_mono_le hf run]⟩
  | all =>
    obtain ⟨f, h1, it1, vs, run⟩ := drainIt_total _ h it hH hO (hfin hm) rfl
    refine ⟨max f ((pden E it).pre.length + 1), h1, it1, .items vs, fun f' hf => ?_⟩
    have := run f' f' (Nat.le_trans (Nat.le_max_left _ _) hf)
      (Nat.lt_of_lt_of_le (Nat.lt_succ_self _) (Nat.le_trans (Nat.le_max_right _ _) hf))
    simp [takeIt, hm, this]
  | n k =>
    obtain ⟨f, h1, it1, vs, run⟩ := takeN_total k h it hH hO
    exact ⟨f, h1, it1, .items vs, fun f' hf => by simp [takeIt, hm, run f' hf]⟩

end ALV.C03
