/-
  C06 — helper lemmas, part 7: `ZFilter` arithmetic (`ZFT.add / mul / div / neg / mulCoef / zpow /
  ofCoef / make`) and whole expression trees (`evalTree`) read at time `n`.

  A filter object `f` with Stream coefficients is, at every time `n` inside all its Streams, the
  pair of Laurent polynomials  `f.numAt n / f.denAt n`  (every coefficient replaced by its `n`-th
  value: the coefficient SEQUENCES read element by element).  The arithmetic of the code — `Poly`
  double loops with thub copies, compaction, the same-denominator shortcut of `__add__`, the
  normalisation by the lowest denominator power in `LinearFilter.__init__` — is, at every such `n`,
  the arithmetic of fractions on those pairs, exactly, up to the common delay `T^p` of the
  normalisation (`ZFT.IsAt`).
-/
import ALV.Lemmas.C06Algebra
import Mathlib.Tactic.LinearCombination
import Mathlib.Tactic.Ring

set_option linter.unusedSectionVars false
set_option linter.unusedSimpArgs false
set_option linter.unusedVariables false
namespace ALV.C06
open ALV.C04 ALV.C07 LaurentPolynomial
variable {K : Type} [Field K] [DecidableEq K]

/-! ### a filter object read at time `n` -/

/-- numerator polynomial of the filter object with every coefficient read at time `n` -/
noncomputable def ZFT.numAt (n : Nat) (f : ZFT K) : K[T;T⁻¹] := toLaurent (snap n f.num)
/-- denominator polynomial of the filter object with every coefficient read at time `n` -/
noncomputable def ZFT.denAt (n : Nat) (f : ZFT K) : K[T;T⁻¹] := toLaurent (snap n f.den)
/-- time `n` is inside every Stream coefficient of the filter -/
def ZFT.definedAt (n : Nat) (f : ZFT K) : Prop := polyDefined n f.num ∧ polyDefined n f.den
/-- what every `Poly` the arithmetic builds satisfies: distinct powers, no stored constant zero -/
def ZFT.WF (f : ZFT K) : Prop := C07.WF f.num ∧ C07.WF f.den
/-- "`f` read at time `n` is the fraction `N / D`", exactly: the same pair of polynomials up to the
common delay `T^p` by which `LinearFilter.__init__` makes the denominator start at delay 0 -/
def ZFT.IsAt (n : Nat) (f : ZFT K) (N D : K[T;T⁻¹]) : Prop :=
  ∃ p : ℤ, f.numAt n = N * T p ∧ f.denAt n = D * T p

theorem one_ne_zero_coef : (1 : Coef K) ≠ 0 := by
  intro h; exact one_ne_zero (Coef.const.inj h)

theorem mk_single (k : Int) (c : Coef K) (hc : c ≠ 0) : mk [(k, c)] = [(k, c)] := by
  simp [mk, ofPairs, C07.set, compact, hc]

theorem mk_single_zero (k : Int) : mk [(k, (0 : Coef K))] = [] := by
  simp [mk, ofPairs, C07.set, compact]

theorem toLaurent_snap_single (n : Nat) (k : Int) (c : Coef K) :
    toLaurent (snap n (mk [(k, c)])) = C (c.val n) * T k := by
  by_cases hc : c = 0
  · subst hc; rw [mk_single_zero]; simp [val_zero]
  · rw [mk_single k c hc]; simp [← single_eq_C_mul_T]

theorem polyDefined_single (n : Nat) (k : Int) (c : Coef K) (hc : c.defined n) :
    polyDefined n (mk [(k, c)]) := by
  by_cases h0 : c = 0
  · subst h0; rw [mk_single_zero]; intro kv hk; simp at hk
  · rw [mk_single k c h0]; intro kv hk; simp at hk; subst hk; exact hc

theorem defined_one (n : Nat) : (1 : Coef K).defined n := trivial
theorem val_one (n : Nat) : (1 : Coef K).val n = 1 := rfl

/-! ### `LinearFilter.__init__` -/

theorem ZFT.make_at {num den : MPoly (Coef K)} {f : ZFT K} (h : ZFT.make num den = .ok f) (n : Nat)
    (hn : polyDefined n num) (hd : polyDefined n den) :
    f.IsAt n (toLaurent (snap n num)) (toLaurent (snap n den)) ∧ f.definedAt n := by
  unfold ZFT.make at h
  cases hm : minKey den with
  | none => simp [hm] at h
  | some p =>
    simp only [hm] at h
    by_cases hp : p = 0
    · simp only [hp, ne_eq, not_true_eq_false, if_false, Except.ok.injEq] at h
      subst h
      exact ⟨⟨0, by simp [ZFT.numAt], by simp [ZFT.denAt]⟩, hn, hd⟩
    · simp only [ne_eq, hp, not_false_eq_true, if_true, Except.ok.injEq] at h
      subst h
      have hdl : polyDefined n (C07.mk [(-p, (1 : Coef K))]) := polyDefined_single n _ _ (defined_one n)
      refine ⟨⟨-p, ?_, ?_⟩, polyDefined_mul n _ _ hn hdl, polyDefined_mul n _ _ hd hdl⟩
      · simp only [ZFT.numAt]
        rw [toLaurent_snap_mul n _ _ hn hdl, toLaurent_snap_single, val_one]; simp
      · simp only [ZFT.denAt]
        rw [toLaurent_snap_mul n _ _ hd hdl, toLaurent_snap_single, val_one]; simp

theorem ZFT.make_wf {num den : MPoly (Coef K)} {f : ZFT K} (h : ZFT.make num den = .ok f)
    (hn : C07.WF num) (hd : C07.WF den) : f.WF := by
  unfold ZFT.make at h
  cases hm : minKey den with
  | none => simp [hm] at h
  | some p =>
    simp only [hm] at h
    by_cases hp : p = 0
    · simp only [hp, ne_eq, not_true_eq_false, if_false, Except.ok.injEq] at h
      subst h; exact ⟨hn, hd⟩
    · simp only [ne_eq, hp, not_false_eq_true, if_true, Except.ok.injEq] at h
      subst h; exact ⟨wf_mul _ _, wf_mul _ _⟩

/-- the constructor refuses exactly the empty denominator -/
theorem ZFT.make_error_iff (num den : MPoly (Coef K)) :
    (∃ e, ZFT.make num den = .error e) ↔ den = [] := by
  unfold ZFT.make
  cases hm : minKey den with
  | none => simp [(minKey_eq_none den).1 hm]
  | some p =>
    have : den ≠ [] := by intro h; rw [h] at hm; simp [minKey] at hm
    by_cases hp : p = 0 <;> simp [hp, this]

/-! ### the operators -/

theorem ZFT.mul_at {f g h : ZFT K} (e : f.mul g = .ok h) (n : Nat) (hf : f.definedAt n)
    (hg : g.definedAt n) :
    h.IsAt n (f.numAt n * g.numAt n) (f.denAt n * g.denAt n) ∧ h.definedAt n ∧ h.WF := by
  unfold ZFT.mul at e
  have := ZFT.make_at e n (polyDefined_mul n _ _ hf.1 hg.1) (polyDefined_mul n _ _ hf.2 hg.2)
  rw [toLaurent_snap_mul n _ _ hf.1 hg.1, toLaurent_snap_mul n _ _ hf.2 hg.2] at this
  exact ⟨this.1, this.2, ZFT.make_wf e (wf_mul _ _) (wf_mul _ _)⟩

theorem ZFT.div_at {f g h : ZFT K} (e : f.div g = .ok h) (n : Nat) (hf : f.definedAt n)
    (hg : g.definedAt n) :
    h.IsAt n (f.numAt n * g.denAt n) (f.denAt n * g.numAt n) ∧ h.definedAt n ∧ h.WF := by
  unfold ZFT.div at e
  have := ZFT.make_at e n (polyDefined_mul n _ _ hf.1 hg.2) (polyDefined_mul n _ _ hf.2 hg.1)
  rw [toLaurent_snap_mul n _ _ hf.1 hg.2, toLaurent_snap_mul n _ _ hf.2 hg.1] at this
  exact ⟨this.1, this.2, ZFT.make_wf e (wf_mul _ _) (wf_mul _ _)⟩

theorem toLaurent_snap_ofScalar (n : Nat) (c : Coef K) :
    toLaurent (snap n (ofScalar c)) = C (c.val n) := by
  unfold ofScalar; rw [toLaurent_snap_single]; simp

theorem ZFT.mulCoef_at {f h : ZFT K} {c : Coef K} (e : f.mulCoef c = .ok h) (n : Nat)
    (hf : f.definedAt n) (hc : c.defined n) (wf : f.WF) :
    h.IsAt n (f.numAt n * C (c.val n)) (f.denAt n) ∧ h.definedAt n ∧ h.WF := by
  unfold ZFT.mulCoef at e
  have hs : polyDefined n (ofScalar c) := polyDefined_single n 0 c hc
  have := ZFT.make_at e n (polyDefined_mul n _ _ hf.1 hs) hf.2
  rw [toLaurent_snap_mul n _ _ hf.1 hs, toLaurent_snap_ofScalar] at this
  exact ⟨this.1, this.2, ZFT.make_wf e (wf_mul _ _) wf.2⟩

theorem ZFT.neg_at {f h : ZFT K} (e : f.neg = .ok h) (n : Nat) (hf : f.definedAt n) (wf : f.WF) :
    h.IsAt n (- f.numAt n) (f.denAt n) ∧ h.definedAt n ∧ h.WF := by
  unfold ZFT.neg at e
  have hd : polyDefined n (C07.neg f.num) := by
    unfold C07.neg C07.mk
    apply polyDefined_compact
    apply polyDefined_ofPairs
    intro kv hk
    obtain ⟨kv', hm, rfl⟩ := List.mem_map.1 hk
    exact (defined_neg kv'.2 n).2 (hf.1 kv' hm)
  have := ZFT.make_at e n hd hf.2
  rw [toLaurent_snap_neg n _ hf.1 wf.1.1] at this
  exact ⟨this.1, this.2, ZFT.make_wf e (wf_neg _) wf.2⟩

/-! ### `Poly.__eq__` on polynomials with Stream coefficients, `Poly.copy()` -/

theorem polyCopy_eq (p : MPoly (Coef K)) : polyCopy p = p := by
  simp [polyCopy, Coef.copy]

/-- equal polynomials (`Poly.__eq__`: numbers by value, a Stream never) read the same at every time -/
theorem polyEqTV_at {p q : MPoly (Coef K)} (h : polyEqTV p q = true) (hp : (keys p).Nodup)
    (hq : (keys q).Nodup) (n : Nat) : toLaurent (snap n p) = toLaurent (snap n q) := by
  unfold polyEqTV at h
  simp only [Bool.and_eq_true, beq_iff_eq, List.all_eq_true] at h
  obtain ⟨hlen, hall⟩ := h
  -- every term of `p` is a constant found in `q` with the same value
  have hfind : ∀ kv ∈ p, ∃ a, kv.2 = Coef.const a ∧ find? q kv.1 = some (Coef.const a) := by
    intro kv hk
    have := hall kv hk
    cases hq' : find? q kv.1 with
    | none => simp [hq'] at this
    | some w =>
      rw [hq'] at this
      cases hkv : kv.2 with
      | strm s => simp [hkv] at this
      | const a =>
        cases w with
        | strm t => simp [hkv] at this
        | const b =>
          simp only [hkv, decide_eq_true_eq] at this
          exact ⟨a, rfl, by rw [this]⟩
  have hsub : keys p ⊆ keys q := by
    intro k hk
    obtain ⟨kv, hm, rfl⟩ := List.mem_map.1 hk
    obtain ⟨a, _, hf⟩ := hfind kv hm
    exact List.mem_map.2 ⟨_, find?_some_mem hf, rfl⟩
  have hperm : (keys p).Perm (keys q) :=
    (List.subperm_of_subset hp hsub).perm_of_length_le (by simp [keys, hlen])
  rw [toLaurent_eq_iff]
  intro k
  rw [coeff_eq_getD (by rwa [keys_snap]), coeff_eq_getD (by rwa [keys_snap])]
  unfold getD
  rw [find?_snap, find?_snap]
  by_cases hk : k ∈ keys p
  · obtain ⟨kv, hm, rfl⟩ := List.mem_map.1 hk
    obtain ⟨a, ha, hf⟩ := hfind kv hm
    rw [hf, find?_of_mem hp (show (kv.1, kv.2) ∈ p from hm), ha]
  · have hk' : k ∉ keys q := fun h => hk (hperm.mem_iff.2 h)
    rw [find?_eq_none.2 hk, find?_eq_none.2 hk']

theorem ZFT.add_at {f g h : ZFT K} (e : f.add g = .ok h) (n : Nat) (hf : f.definedAt n)
    (hg : g.definedAt n) (wf : f.WF) (wg : g.WF) :
    ((polyEqTV f.den g.den = true ∧ f.denAt n = g.denAt n
        ∧ h.IsAt n (f.numAt n + g.numAt n) (f.denAt n))
      ∨ (polyEqTV f.den g.den = false
        ∧ h.IsAt n (f.numAt n * g.denAt n + g.numAt n * f.denAt n) (f.denAt n * g.denAt n)))
    ∧ h.definedAt n ∧ h.WF := by
  unfold ZFT.add at e
  cases heq : polyEqTV f.den g.den with
  | true =>
    simp only [heq, if_true] at e
    have := ZFT.make_at e n (polyDefined_add n _ _ hf.1 hg.1) hf.2
    rw [toLaurent_snap_add n _ _ hf.1 hg.1 wf.1.1 wg.1.1] at this
    exact ⟨Or.inl ⟨rfl, polyEqTV_at heq wf.2.1 wg.2.1 n, this.1⟩, this.2,
      ZFT.make_wf e (wf_add _ _) wf.2⟩
  | false =>
    simp only [heq, Bool.false_eq_true, if_false, polyCopy_eq] at e
    have h1 := polyDefined_mul n _ _ hf.1 hg.2
    have h2 := polyDefined_mul n _ _ hg.1 hf.2
    have := ZFT.make_at e n (polyDefined_add n _ _ h1 h2) (polyDefined_mul n _ _ hf.2 hg.2)
    rw [toLaurent_snap_add n _ _ h1 h2 (wf_mul _ _).1 (wf_mul _ _).1,
      toLaurent_snap_mul n _ _ hf.1 hg.2, toLaurent_snap_mul n _ _ hg.1 hf.2,
      toLaurent_snap_mul n _ _ hf.2 hg.2] at this
    exact ⟨Or.inr ⟨rfl, this.1⟩, this.2, ZFT.make_wf e (wf_add _ _) (wf_mul _ _)⟩

/-! ### `z ** -k`, `ZFilter([coefficient])` -/

theorem minKey_single (k : Int) (c : Coef K) : minKey [(k, c)] = some k := by
  simp [minKey]

theorem ZFT.zpow_eq (k : Nat) : (ZFT.zpow k : Except Err (ZFT K)) = .ok ⟨[((k : Int), 1)], [(0, 1)]⟩ := by
  unfold ZFT.zpow ZFT.make
  rw [mk_single _ _ one_ne_zero_coef, mk_single _ _ one_ne_zero_coef, minKey_single]
  simp

theorem ZFT.ofCoef_eq (c : Coef K) :
    ZFT.ofCoef c = .ok ⟨C07.mk [(0, c)], [(0, 1)]⟩ := by
  unfold ZFT.ofCoef ZFT.make
  rw [mk_single _ _ one_ne_zero_coef, minKey_single]
  simp [ofList, C07.enumFrom]

theorem ZFT.zpow_at {f : ZFT K} {k : Nat} (e : ZFT.zpow k = .ok f) (n : Nat) :
    f.numAt n = T (k : ℤ) ∧ f.denAt n = 1 ∧ f.definedAt n ∧ f.WF := by
  rw [ZFT.zpow_eq] at e
  cases e
  refine ⟨?_, ?_, ⟨?_, ?_⟩, ?_, ?_⟩
  · simp [ZFT.numAt, val_one, ← single_eq_C_mul_T, T]
  · simp [ZFT.denAt, val_one]
  · intro kv hk; simp at hk; subst hk; exact defined_one n
  · intro kv hk; simp at hk; subst hk; exact defined_one n
  · show C07.WF [((k : Int), (1 : Coef K))]
    rw [← mk_single _ _ one_ne_zero_coef]; exact wf_mk _
  · show C07.WF [((0 : Int), (1 : Coef K))]
    rw [← mk_single _ _ one_ne_zero_coef]; exact wf_mk _

theorem ZFT.ofCoef_at {f : ZFT K} {c : Coef K} (e : ZFT.ofCoef c = .ok f) (n : Nat) (hc : c.defined n) :
    f.numAt n = C (c.val n) ∧ f.denAt n = 1 ∧ f.definedAt n ∧ f.WF := by
  rw [ZFT.ofCoef_eq] at e
  cases e
  refine ⟨?_, ?_, ⟨?_, ?_⟩, ?_, ?_⟩
  · simp [ZFT.numAt, toLaurent_snap_single]
  · simp [ZFT.denAt, val_one]
  · exact polyDefined_single n 0 c hc
  · intro kv hk; simp at hk; subst hk; exact defined_one n
  · exact wf_mk _
  · show C07.WF [((0 : Int), (1 : Coef K))]
    rw [← mk_single _ _ one_ne_zero_coef]; exact wf_mk _

/-! ### whole expressions -/

/-- the value of an expression at time `n`, computed on NUMBERS: every Stream leaf replaced by its
`n`-th item; a number, or a fraction of Laurent polynomials (`z^-k` is `T^k`) -/
inductive TVal (K : Type) [Field K] where
  | num (v : K)
  | frac (N D : K[T;T⁻¹])

noncomputable def TVal.N : TVal K → K[T;T⁻¹]
  | .num v => C v
  | .frac N _ => N
noncomputable def TVal.D : TVal K → K[T;T⁻¹]
  | .num _ => 1
  | .frac _ D => D

noncomputable def tneg : TVal K → TVal K
  | .num v => .num (-v)
  | .frac N D => .frac (-N) D
noncomputable def tadd : TVal K → TVal K → TVal K
  | .num a, .num b => .num (a + b)
  | x, y => .frac (x.N * y.D + y.N * x.D) (x.D * y.D)
noncomputable def tmul : TVal K → TVal K → TVal K
  | .num a, .num b => .num (a * b)
  | x, y => .frac (x.N * y.N) (x.D * y.D)
/-- division by a number is the multiplication by its reciprocal (`ZFilter.__truediv__`) -/
noncomputable def tdiv : TVal K → TVal K → TVal K
  | .num a, .num b => .num (a / b)
  | .frac N D, .num b => .frac (N * C (1 / b)) D
  | x, y => .frac (x.N * y.D) (x.D * y.N)

/-- ordinary arithmetic of fractions on the time-`n` values of the leaves -/
noncomputable def Tree.at (n : Nat) : Tree K → TVal K
  | .z k => .frac (T (k : ℤ)) 1
  | .c v => .num v
  | .s items => .num (items.getD n 0)
  | .neg t => tneg (Tree.at n t)
  | .add l r => tadd (Tree.at n l) (Tree.at n r)
  | .sub l r => tadd (Tree.at n l) (tneg (Tree.at n r))
  | .mul l r => tmul (Tree.at n l) (Tree.at n r)
  | .div l r => tdiv (Tree.at n l) (Tree.at n r)

/-- time `n` is inside every Stream leaf -/
def Tree.definedAt (n : Nat) : Tree K → Prop
  | .z _ => True
  | .c _ => True
  | .s items => n < items.length
  | .neg t => Tree.definedAt n t
  | .add l r => Tree.definedAt n l ∧ Tree.definedAt n r
  | .sub l r => Tree.definedAt n l ∧ Tree.definedAt n r
  | .mul l r => Tree.definedAt n l ∧ Tree.definedAt n r
  | .div l r => Tree.definedAt n l ∧ Tree.definedAt n r

/-- a Python value (number / Stream, or filter object) read at time `n` IS the number, resp. the
fraction `N / D` (cross-multiplied: no division of polynomials is needed to say it) -/
def Val.Rel (n : Nat) : Val K → TVal K → Prop
  | .num c, .num a => c.defined n ∧ c.val n = a
  | .filt f, .frac N D => f.WF ∧ f.definedAt n ∧ f.numAt n * D = N * f.denAt n
  | _, _ => False

theorem bind_ok {α β : Type} {x : Except Err α} {f : α → Except Err β} {v : β}
    (h : (x >>= f) = .ok v) : ∃ a, x = .ok a ∧ f a = .ok v := by
  cases x with
  | error e => simp [bind, Except.bind] at h
  | ok a => exact ⟨a, rfl, h⟩

theorem rel_lift {n : Nat} {c : Coef K} {x : TVal K} {f : ZFT K} (h : Val.Rel n (.num c) x)
    (e : ZFT.ofCoef c = .ok f) : Val.Rel n (.filt f) (.frac x.N x.D) := by
  cases x with
  | frac N D => exact h.elim
  | num a =>
    obtain ⟨hd, hv⟩ := h
    obtain ⟨h1, h2, h3, h4⟩ := ZFT.ofCoef_at e n hd
    refine ⟨h4, h3, ?_⟩
    simp only [TVal.N, TVal.D]
    rw [h1, h2, hv]

theorem rel_neg {n : Nat} {f h : ZFT K} {N D : K[T;T⁻¹]} (hf : Val.Rel n (.filt f) (.frac N D))
    (e : f.neg = .ok h) : Val.Rel n (.filt h) (.frac (-N) D) := by
  obtain ⟨wf, df, r⟩ := hf
  obtain ⟨⟨p, e1, e2⟩, dh, wh⟩ := ZFT.neg_at e n df wf
  refine ⟨wh, dh, ?_⟩
  rw [e1, e2]; linear_combination (-(T p)) * r

theorem rel_mul {n : Nat} {f g h : ZFT K} {N1 D1 N2 D2 : K[T;T⁻¹]}
    (hf : Val.Rel n (.filt f) (.frac N1 D1)) (hg : Val.Rel n (.filt g) (.frac N2 D2))
    (e : f.mul g = .ok h) : Val.Rel n (.filt h) (.frac (N1 * N2) (D1 * D2)) := by
  obtain ⟨wf, df, r1⟩ := hf
  obtain ⟨wg, dg, r2⟩ := hg
  obtain ⟨⟨p, e1, e2⟩, dh, wh⟩ := ZFT.mul_at e n df dg
  refine ⟨wh, dh, ?_⟩
  rw [e1, e2]; linear_combination (T p * g.numAt n * D2) * r1 + (T p * N1 * f.denAt n) * r2

theorem rel_div {n : Nat} {f g h : ZFT K} {N1 D1 N2 D2 : K[T;T⁻¹]}
    (hf : Val.Rel n (.filt f) (.frac N1 D1)) (hg : Val.Rel n (.filt g) (.frac N2 D2))
    (e : f.div g = .ok h) : Val.Rel n (.filt h) (.frac (N1 * D2) (D1 * N2)) := by
  obtain ⟨wf, df, r1⟩ := hf
  obtain ⟨wg, dg, r2⟩ := hg
  obtain ⟨⟨p, e1, e2⟩, dh, wh⟩ := ZFT.div_at e n df dg
  refine ⟨wh, dh, ?_⟩
  rw [e1, e2]; linear_combination (T p * g.denAt n * N2) * r1 - (T p * N1 * f.denAt n) * r2

theorem rel_add {n : Nat} {f g h : ZFT K} {N1 D1 N2 D2 : K[T;T⁻¹]}
    (hf : Val.Rel n (.filt f) (.frac N1 D1)) (hg : Val.Rel n (.filt g) (.frac N2 D2))
    (e : f.add g = .ok h) : Val.Rel n (.filt h) (.frac (N1 * D2 + N2 * D1) (D1 * D2)) := by
  obtain ⟨wf, df, r1⟩ := hf
  obtain ⟨wg, dg, r2⟩ := hg
  obtain ⟨hcase, dh, wh⟩ := ZFT.add_at e n df dg wf wg
  refine ⟨wh, dh, ?_⟩
  rcases hcase with ⟨_, hfg, p, e1, e2⟩ | ⟨_, p, e1, e2⟩
  · rw [e1, e2]
    linear_combination (T p * D2) * r1 + (T p * D1) * r2 - (T p * D1 * N2) * hfg
  · rw [e1, e2]
    linear_combination (T p * g.denAt n * D2) * r1 + (T p * f.denAt n * D1) * r2

theorem rel_mulCoef {n : Nat} {f h : ZFT K} {c : Coef K} {N D : K[T;T⁻¹]} {a : K}
    (hf : Val.Rel n (.filt f) (.frac N D)) (hc : Val.Rel n (.num c) (.num a))
    (e : f.mulCoef c = .ok h) : Val.Rel n (.filt h) (.frac (N * C a) D) := by
  obtain ⟨wf, df, r1⟩ := hf
  obtain ⟨dc, vc⟩ := hc
  obtain ⟨⟨p, e1, e2⟩, dh, wh⟩ := ZFT.mulCoef_at e n df dc wf
  refine ⟨wh, dh, ?_⟩
  rw [e1, e2, vc]; linear_combination (T p * C a) * r1

/-! the dispatch of `evalTree`, operator by operator -/

def negV : Val K → Except Err (Val K)
  | .num c => pure (.num (-c))
  | .filt f => do pure (.filt (← f.neg))
def addV : Val K → Val K → Except Err (Val K)
  | .num a, .num b => pure (.num (a + b))
  | .filt f, .filt g => do pure (.filt (← f.add g))
  | .filt f, .num b => do pure (.filt (← f.add (← ZFT.ofCoef b)))
  | .num a, .filt g => do pure (.filt (← (← ZFT.ofCoef a).add g))
def subV : Val K → Val K → Except Err (Val K)
  | .num a, .num b => pure (.num (a - b))
  | .filt f, .filt g => do pure (.filt (← f.add (← g.neg)))
  | .filt f, .num b => do pure (.filt (← f.add (← ZFT.ofCoef (-b))))
  | .num a, .filt g => do pure (.filt (← (← ZFT.ofCoef a).add (← g.neg)))
def mulV : Val K → Val K → Except Err (Val K)
  | .num a, .num b => pure (.num (a * b))
  | .filt f, .filt g => do pure (.filt (← f.mul g))
  | .filt f, .num b => do pure (.filt (← f.mulCoef b))
  | .num a, .filt g => do pure (.filt (← (← ZFT.ofCoef a).mul g))
def divV : Val K → Val K → Except Err (Val K)
  | .num a, .num b => pure (.num (a / b))
  | .filt f, .filt g => do pure (.filt (← f.div g))
  | .filt f, .num b => do pure (.filt (← f.mulCoef (1 / b)))
  | .num a, .filt g => do pure (.filt (← (← ZFT.ofCoef a).div g))

theorem evalTree_neg (t : Tree K) : evalTree (.neg t) = (evalTree t >>= negV) := by
  rw [evalTree]
  cases evalTree t with
  | error e => rfl
  | ok a => cases a <;> rfl
theorem evalTree_add (l r : Tree K) :
    evalTree (.add l r) = (evalTree l >>= fun a => evalTree r >>= fun b => addV a b) := by
  rw [evalTree]
  cases evalTree l with
  | error e => rfl
  | ok a => cases evalTree r with
    | error e => rfl
    | ok b => cases a <;> cases b <;> rfl
theorem evalTree_sub (l r : Tree K) :
    evalTree (.sub l r) = (evalTree l >>= fun a => evalTree r >>= fun b => subV a b) := by
  rw [evalTree]
  cases evalTree l with
  | error e => rfl
  | ok a => cases evalTree r with
    | error e => rfl
    | ok b => cases a <;> cases b <;> rfl
theorem evalTree_mul (l r : Tree K) :
    evalTree (.mul l r) = (evalTree l >>= fun a => evalTree r >>= fun b => mulV a b) := by
  rw [evalTree]
  cases evalTree l with
  | error e => rfl
  | ok a => cases evalTree r with
    | error e => rfl
    | ok b => cases a <;> cases b <;> rfl
theorem evalTree_div (l r : Tree K) :
    evalTree (.div l r) = (evalTree l >>= fun a => evalTree r >>= fun b => divV a b) := by
  rw [evalTree]
  cases evalTree l with
  | error e => rfl
  | ok a => cases evalTree r with
    | error e => rfl
    | ok b => cases a <;> cases b <;> rfl

theorem negV_rel {n : Nat} {a v : Val K} {x : TVal K} (ha : Val.Rel n a x) (e : negV a = .ok v) :
    Val.Rel n v (tneg x) := by
  cases a with
  | num c =>
    cases x with
    | frac N D => exact ha.elim
    | num u =>
      cases e
      exact ⟨(defined_neg c n).2 ha.1, by rw [val_neg c n ha.1, ha.2]⟩
  | filt f =>
    cases x with
    | num u => exact ha.elim
    | frac N D =>
      obtain ⟨h, e1, e2⟩ := bind_ok e
      cases e2
      exact rel_neg ha e1

theorem addV_rel {n : Nat} {a b v : Val K} {x y : TVal K} (ha : Val.Rel n a x) (hb : Val.Rel n b y)
    (e : addV a b = .ok v) : Val.Rel n v (tadd x y) := by
  cases a with
  | num c =>
    cases x with
    | frac N D => exact ha.elim
    | num u =>
      cases b with
      | num d =>
        cases y with
        | frac N D => exact hb.elim
        | num w =>
          cases e
          exact ⟨(defined_add c d n).2 ⟨ha.1, hb.1⟩, by rw [val_add c d n ha.1 hb.1, ha.2, hb.2]⟩
      | filt g =>
        cases y with
        | num w => exact hb.elim
        | frac N D =>
          obtain ⟨f, e1, e'⟩ := bind_ok e
          obtain ⟨h, e2, e3⟩ := bind_ok e'
          cases e3
          exact rel_add (rel_lift ha e1) hb e2
  | filt f =>
    cases x with
    | num u => exact ha.elim
    | frac N D =>
      cases b with
      | num d =>
        cases y with
        | frac N' D' => exact hb.elim
        | num w =>
          obtain ⟨g, e1, e'⟩ := bind_ok e
          obtain ⟨h, e2, e3⟩ := bind_ok e'
          cases e3
          exact rel_add ha (rel_lift hb e1) e2
      | filt g =>
        cases y with
        | num w => exact hb.elim
        | frac N' D' =>
          obtain ⟨h, e1, e2⟩ := bind_ok e
          cases e2
          exact rel_add ha hb e1

theorem subV_rel {n : Nat} {a b v : Val K} {x y : TVal K} (ha : Val.Rel n a x) (hb : Val.Rel n b y)
    (e : subV a b = .ok v) : Val.Rel n v (tadd x (tneg y)) := by
  cases a with
  | num c =>
    cases x with
    | frac N D => exact ha.elim
    | num u =>
      cases b with
      | num d =>
        cases y with
        | frac N D => exact hb.elim
        | num w =>
          cases e
          exact ⟨(defined_sub c d n).2 ⟨ha.1, hb.1⟩, by
            rw [val_sub c d n ha.1 hb.1, ha.2, hb.2]; exact sub_eq_add_neg u w⟩
      | filt g =>
        cases y with
        | num w => exact hb.elim
        | frac N D =>
          obtain ⟨f, e1, e'⟩ := bind_ok e
          obtain ⟨g', e2, e''⟩ := bind_ok e'
          obtain ⟨h, e3, e4⟩ := bind_ok e''
          cases e4
          exact rel_add (rel_lift ha e1) (rel_neg hb e2) e3
  | filt f =>
    cases x with
    | num u => exact ha.elim
    | frac N D =>
      cases b with
      | num d =>
        cases y with
        | frac N' D' => exact hb.elim
        | num w =>
          obtain ⟨g, e1, e'⟩ := bind_ok e
          obtain ⟨h, e2, e3⟩ := bind_ok e'
          cases e3
          have hnb : Val.Rel n (.num (-d)) (tneg (.num w)) :=
            ⟨(defined_neg d n).2 hb.1, by rw [val_neg d n hb.1, hb.2]⟩
          exact rel_add ha (rel_lift hnb e1) e2
      | filt g =>
        cases y with
        | num w => exact hb.elim
        | frac N' D' =>
          obtain ⟨g', e1, e'⟩ := bind_ok e
          obtain ⟨h, e2, e3⟩ := bind_ok e'
          cases e3
          exact rel_add ha (rel_neg hb e1) e2

theorem mulV_rel {n : Nat} {a b v : Val K} {x y : TVal K} (ha : Val.Rel n a x) (hb : Val.Rel n b y)
    (e : mulV a b = .ok v) : Val.Rel n v (tmul x y) := by
  cases a with
  | num c =>
    cases x with
    | frac N D => exact ha.elim
    | num u =>
      cases b with
      | num d =>
        cases y with
        | frac N D => exact hb.elim
        | num w =>
          cases e
          exact ⟨(defined_mul c d n).2 ⟨ha.1, hb.1⟩, by rw [val_mul c d n ha.1 hb.1, ha.2, hb.2]⟩
      | filt g =>
        cases y with
        | num w => exact hb.elim
        | frac N D =>
          obtain ⟨f, e1, e'⟩ := bind_ok e
          obtain ⟨h, e2, e3⟩ := bind_ok e'
          cases e3
          exact rel_mul (rel_lift ha e1) hb e2
  | filt f =>
    cases x with
    | num u => exact ha.elim
    | frac N D =>
      cases b with
      | num d =>
        cases y with
        | frac N' D' => exact hb.elim
        | num w =>
          obtain ⟨h, e1, e2⟩ := bind_ok e
          cases e2
          have := rel_mulCoef ha hb e1
          simpa [tmul, TVal.N, TVal.D] using this
      | filt g =>
        cases y with
        | num w => exact hb.elim
        | frac N' D' =>
          obtain ⟨h, e1, e2⟩ := bind_ok e
          cases e2
          exact rel_mul ha hb e1

theorem divV_rel {n : Nat} {a b v : Val K} {x y : TVal K} (ha : Val.Rel n a x) (hb : Val.Rel n b y)
    (e : divV a b = .ok v) : Val.Rel n v (tdiv x y) := by
  cases a with
  | num c =>
    cases x with
    | frac N D => exact ha.elim
    | num u =>
      cases b with
      | num d =>
        cases y with
        | frac N D => exact hb.elim
        | num w =>
          cases e
          exact ⟨(defined_div c d n).2 ⟨ha.1, hb.1⟩, by rw [val_div c d n ha.1 hb.1, ha.2, hb.2]⟩
      | filt g =>
        cases y with
        | num w => exact hb.elim
        | frac N D =>
          obtain ⟨f, e1, e'⟩ := bind_ok e
          obtain ⟨h, e2, e3⟩ := bind_ok e'
          cases e3
          exact rel_div (rel_lift ha e1) hb e2
  | filt f =>
    cases x with
    | num u => exact ha.elim
    | frac N D =>
      cases b with
      | num d =>
        cases y with
        | frac N' D' => exact hb.elim
        | num w =>
          obtain ⟨h, e1, e2⟩ := bind_ok e
          cases e2
          have hr : Val.Rel n (.num (1 / d)) (.num (1 / w)) :=
            ⟨(defined_div 1 d n).2 ⟨defined_one n, hb.1⟩, by
              rw [val_div 1 d n (defined_one n) hb.1, hb.2, val_one]⟩
          exact rel_mulCoef ha hr e1
      | filt g =>
        cases y with
        | num w => exact hb.elim
        | frac N' D' =>
          obtain ⟨h, e1, e2⟩ := bind_ok e
          cases e2
          exact rel_div ha hb e1

/-- **the algebra clause, for every expression of any depth**: whatever `evalTree` builds — a
Stream / number or a filter object — read at time `n` is the value of the same expression computed
by ordinary arithmetic of numbers and fractions on the `n`-th items of the Stream leaves. -/
theorem evalTree_rel (n : Nat) : ∀ (t : Tree K) (v : Val K), evalTree t = .ok v → Tree.definedAt n t →
    Val.Rel n v (Tree.at n t)
  | .z k, v, e, _ => by
    rw [evalTree] at e
    obtain ⟨f, e1, e2⟩ := bind_ok e
    cases e2
    obtain ⟨h1, h2, h3, h4⟩ := ZFT.zpow_at e1 n
    refine ⟨h4, h3, ?_⟩
    rw [h1, h2]
  | .c c, v, e, _ => by
    rw [evalTree] at e
    cases e
    exact ⟨trivial, rfl⟩
  | .s items, v, e, hd => by
    rw [evalTree] at e
    cases e
    refine ⟨hd, ?_⟩
    simp [Coef.val, Coef.get?, Tree.at, List.getD_eq_getElem?_getD]
  | .neg t, v, e, hd => by
    rw [evalTree_neg] at e
    obtain ⟨a, e1, e2⟩ := bind_ok e
    exact negV_rel (evalTree_rel n t a e1 hd) e2
  | .add l r, v, e, hd => by
    rw [evalTree_add] at e
    obtain ⟨a, e1, e'⟩ := bind_ok e
    obtain ⟨b, e2, e3⟩ := bind_ok e'
    exact addV_rel (evalTree_rel n l a e1 hd.1) (evalTree_rel n r b e2 hd.2) e3
  | .sub l r, v, e, hd => by
    rw [evalTree_sub] at e
    obtain ⟨a, e1, e'⟩ := bind_ok e
    obtain ⟨b, e2, e3⟩ := bind_ok e'
    exact subV_rel (evalTree_rel n l a e1 hd.1) (evalTree_rel n r b e2 hd.2) e3
  | .mul l r, v, e, hd => by
    rw [evalTree_mul] at e
    obtain ⟨a, e1, e'⟩ := bind_ok e
    obtain ⟨b, e2, e3⟩ := bind_ok e'
    exact mulV_rel (evalTree_rel n l a e1 hd.1) (evalTree_rel n r b e2 hd.2) e3
  | .div l r, v, e, hd => by
    rw [evalTree_div] at e
    obtain ⟨a, e1, e'⟩ := bind_ok e
    obtain ⟨b, e2, e3⟩ := bind_ok e'
    exact divV_rel (evalTree_rel n l a e1 hd.1) (evalTree_rel n r b e2 hd.2) e3

/-! ### reading the leaves first, building the filter afterwards -/

/-- the expression with every Stream leaf replaced by the number it delivers at time `n`: an
expression over `z`, numbers and `+ - * /` only (what C04 / C05 are about) -/
def Tree.freeze (n : Nat) : Tree K → Tree K
  | .z k => .z k
  | .c v => .c v
  | .s items => .c (items.getD n 0)
  | .neg t => .neg (Tree.freeze n t)
  | .add l r => .add (Tree.freeze n l) (Tree.freeze n r)
  | .sub l r => .sub (Tree.freeze n l) (Tree.freeze n r)
  | .mul l r => .mul (Tree.freeze n l) (Tree.freeze n r)
  | .div l r => .div (Tree.freeze n l) (Tree.freeze n r)

theorem Tree.at_freeze (n m : Nat) (t : Tree K) : Tree.at m (Tree.freeze n t) = Tree.at n t := by
  induction t with
  | z k => rfl
  | c v => rfl
  | s items => rfl
  | neg t ih => simp only [Tree.freeze, Tree.at, ih]
  | add l r ihl ihr => simp only [Tree.freeze, Tree.at, ihl, ihr]
  | sub l r ihl ihr => simp only [Tree.freeze, Tree.at, ihl, ihr]
  | mul l r ihl ihr => simp only [Tree.freeze, Tree.at, ihl, ihr]
  | div l r ihl ihr => simp only [Tree.freeze, Tree.at, ihl, ihr]

theorem Tree.definedAt_freeze (n m : Nat) (t : Tree K) : Tree.definedAt m (Tree.freeze n t) := by
  induction t with
  | z k => trivial
  | c v => trivial
  | s items => trivial
  | neg t ih => exact ih
  | add l r ihl ihr => exact ⟨ihl, ihr⟩
  | sub l r ihl ihr => exact ⟨ihl, ihr⟩
  | mul l r ihl ihr => exact ⟨ihl, ihr⟩
  | div l r ihl ihr => exact ⟨ihl, ihr⟩

/-- building the filter from Streams and reading it at time `n` = reading the Streams at time `n`
and building the constant-coefficient filter: the same fraction -/
theorem evalTree_freeze (n m : Nat) (t : Tree K) (f f' : ZFT K) (e : evalTree t = .ok (.filt f))
    (e' : evalTree (Tree.freeze n t) = .ok (.filt f')) (hd : Tree.definedAt n t) :
    ∃ N D, Tree.at n t = .frac N D ∧ f.numAt n * D = N * f.denAt n
      ∧ f'.numAt m * D = N * f'.denAt m := by
  have h1 := evalTree_rel n t _ e hd
  have h2 := evalTree_rel m (Tree.freeze n t) _ e' (Tree.definedAt_freeze n m t)
  rw [Tree.at_freeze] at h2
  cases hx : Tree.at n t with
  | num v => rw [hx] at h1; exact h1.elim
  | frac N D =>
    rw [hx] at h1 h2
    exact ⟨N, D, rfl, h1.2.2, h2.2.2⟩

/-- every Stream leaf delivers the same value for (at least) the first `N` items -/
def Tree.constUpTo (N : Nat) : Tree K → Prop
  | .z _ => True
  | .c _ => True
  | .s items => N ≤ items.length ∧ ∀ n, n < N → items.getD n 0 = items.getD 0 0
  | .neg t => Tree.constUpTo N t
  | .add l r => Tree.constUpTo N l ∧ Tree.constUpTo N r
  | .sub l r => Tree.constUpTo N l ∧ Tree.constUpTo N r
  | .mul l r => Tree.constUpTo N l ∧ Tree.constUpTo N r
  | .div l r => Tree.constUpTo N l ∧ Tree.constUpTo N r

theorem Tree.constUpTo_spec {N : Nat} {t : Tree K} (h : Tree.constUpTo N t) {n : Nat} (hn : n < N) :
    Tree.definedAt n t ∧ Tree.freeze n t = Tree.freeze 0 t := by
  induction t with
  | z k => exact ⟨trivial, rfl⟩
  | c v => exact ⟨trivial, rfl⟩
  | s items => exact ⟨Nat.lt_of_lt_of_le hn h.1, by simp only [Tree.freeze, h.2 n hn]⟩
  | neg t ih => exact ⟨(ih h).1, by simp only [Tree.freeze, (ih h).2]⟩
  | add l r ihl ihr =>
    exact ⟨⟨(ihl h.1).1, (ihr h.2).1⟩, by simp only [Tree.freeze, (ihl h.1).2, (ihr h.2).2]⟩
  | sub l r ihl ihr =>
    exact ⟨⟨(ihl h.1).1, (ihr h.2).1⟩, by simp only [Tree.freeze, (ihl h.1).2, (ihr h.2).2]⟩
  | mul l r ihl ihr =>
    exact ⟨⟨(ihl h.1).1, (ihr h.2).1⟩, by simp only [Tree.freeze, (ihl h.1).2, (ihr h.2).2]⟩
  | div l r ihl ihr =>
    exact ⟨⟨(ihl h.1).1, (ihr h.2).1⟩, by simp only [Tree.freeze, (ihl h.1).2, (ihr h.2).2]⟩

/-! ### `Poly.__truediv__` on Stream coefficients -/

theorem toLaurent_snap_mk_of_nodup (n : Nat) (L : List (Int × Coef K)) (h : (keys L).Nodup) :
    toLaurent (snap n (C07.mk L)) = toLaurent (snap n L) := by
  unfold C07.mk
  rw [toLaurent_snap_compact, snap_ofPairs, ← toLaurent_compact]
  exact toLaurent_mk_of_nodup (by rwa [keys_snap])

theorem toLaurent_snap_divmap (n : Nat) (p : MPoly (Coef K)) (d : Int) (w : Coef K)
    (hp : polyDefined n p) (hw : w.defined n) :
    toLaurent (snap n (p.map fun kv => (kv.1 - d, kv.2 / w)))
      = toLaurent (snap n p) * (C (1 / w.val n) * T (-d)) := by
  induction p with
  | nil => simp
  | cons a t ih =>
    obtain ⟨ha, ht⟩ := polyDefined_cons.1 hp
    simp only [List.map_cons, snap_cons, toLaurent_cons, ih ht, val_div a.2 w n ha hw, add_mul]
    congr 1
    rw [← single_eq_C_mul_T, AddMonoidAlgebra.single_mul_single, sub_eq_add_neg, mul_one_div]

theorem nodup_keys_shift (p : MPoly (Coef K)) (d : Int) (f : Coef K → Coef K) (h : (keys p).Nodup) :
    (keys (p.map fun kv => (kv.1 - d, f kv.2))).Nodup := by
  have : keys (p.map fun kv => (kv.1 - d, f kv.2)) = (keys p).map (fun k => k - d) := by
    simp [keys, List.map_map, Function.comp]
  rw [this]
  exact h.map (fun a b hab => by simpa using hab)

/-- `Poly / Poly` with a one-term divisor `w·x^d`, Stream coefficients anywhere: at every time `n`
the quotient is the dividend times `(1/w[n])·x^-d` — every coefficient divided by ITS OWN copy of
the `n`-th item of `w` (what the code does not do: defect D22) -/
theorem divPoly_at {p q : MPoly (Coef K)} {d : Int} {w : Coef K}
    (e : C07.divPoly p [(d, w)] = .ok q) (n : Nat) (hp : polyDefined n p) (hw : w.defined n)
    (kp : (keys p).Nodup) :
    toLaurent (snap n q) = toLaurent (snap n p) * (C (1 / w.val n) * T (-d)) := by
  unfold C07.divPoly at e
  by_cases hemp : p.isEmpty = true
  · have : p = [] := by simpa using hemp
    subst this
    simp at e
    subst e
    simp
  · simp only [hemp, Bool.false_eq_true, if_false] at e
    by_cases hw0 : w = 0
    · simp [hw0] at e
    · simp only [hw0, if_false, Except.ok.injEq] at e
      subst e
      rw [toLaurent_snap_mk_of_nodup n _ (nodup_keys_shift p d (fun c => c / w) kp),
        toLaurent_snap_divmap n p d w hp hw]

/-- `Poly / Stream` and `Poly / number` (`thub(other, len(self))`: every coefficient its own copy) -/
theorem divScalar_at {p q : MPoly (Coef K)} {c : Coef K} (e : C07.divScalar p c = .ok q) (n : Nat)
    (hp : polyDefined n p) (hc : c.defined n) (kp : (keys p).Nodup) :
    toLaurent (snap n q) = toLaurent (snap n p) * C (1 / c.val n) := by
  unfold C07.divScalar at e
  by_cases hemp : p.isEmpty = true
  · have : p = [] := by simpa using hemp
    subst this
    simp at e
    subst e
    simp
  · simp only [hemp, Bool.false_eq_true, if_false] at e
    by_cases hc0 : c = 0
    · simp [hc0] at e
    · simp only [hc0, if_false, Except.ok.injEq] at e
      subst e
      have h1 := toLaurent_snap_divmap n p 0 c hp hc
      simp only [sub_zero, neg_zero, T_zero, mul_one] at h1
      rw [toLaurent_snap_mk_of_nodup n _ (by simpa using nodup_keys_shift p 0 (fun x => x / c) kp)]
      exact h1

end ALV.C06
